(** C15f3.v — known finding C15-F3, a consequence of F1 (the dial is not bounded by the target timeout).

    The request that hangs in the unbounded dial carries a body that the proxy
    has not read yet (the service does not buffer requests: the body is only read
    by the transport once the dial has succeeded).  net/http's server watches a
    client connection for its closing only after the handler has consumed the
    request body, so it never learns that the client has given up: the request's
    context is not cancelled, the dial goes on (kernel connect timeout), the
    in-flight entry stays.  Every later step of the sequence sees it, the drain's
    snapshot holds it and the drain waits for it up to the drain timeout.

    [f3_excused]: the observed sequence is fine APART from exactly that: there
    is such a step, every other step meets the monitor once the stuck entries are
    discounted, the bookkeeping events are in order once the stuck requests are
    taken out, and the drain took no longer than its timeout (+ the usual slack). *)
From KP Require Import model.Base model.Trace corr.C15corr.
Local Open Scope N_scope.

(** the step hangs in the dial with an unread body on a service without request buffering, and its entry stayed *)
Definition f3_step (s : svc) (unread : bool) (i : step_in) (o : step_obs) : bool :=
  unread && negb (sv_buffer_req s) && known_f1 i o && negb (so_inflight_after o =? 0).

(** the same observation with [k] in-flight entries discounted *)
Definition discount (k : N) (o : step_obs) : step_obs :=
  mkStepObs (so_hang o) (so_rawlen o) (so_wellformed o) (so_status o) (so_html o) (so_body o) (so_complete o) (so_extra o)
            (so_elapsed_ms o) (so_sent_at o) (so_inflight_after o - k).

Fixpoint steps_f3 (e : env) (s : svc) (l : list (bool * (step_in * step_obs))) (stuck : list nat) : bool * list nat :=
  match l with
  | [] => (true, stuck)
  | (unread, (i, o)) :: r =>
    if f3_step s unread i o then
      (* its own entry and the earlier stuck ones account for everything in flight *)
      if so_inflight_after o =? N.of_nat (S (length stuck)) then steps_f3 e s r (si_id i :: stuck) else (false, stuck)
    else if step_monitor e s i (discount (N.of_nat (length stuck)) o)
            || (negb (step_known i o =? 0) && (so_inflight_after o =? N.of_nat (length stuck)))
         then steps_f3 e s r stuck else (false, stuck)
  end.

Definition without (stuck : list nat) (b : bev) : option bev :=
  match b with
  | BClaim r => if nmem r stuck then None else Some b
  | BEnd r => if nmem r stuck then None else Some b
  | BSnap l => Some (BSnap (filter (fun r => negb (nmem r stuck)) l))
  end.

Fixpoint filter_map {A B} (f : A -> option B) (l : list A) : list B :=
  match l with [] => [] | x :: r => match f x with Some y => y :: filter_map f r | None => filter_map f r end end.

Definition f3_excused (e : env) (s : svc) (unread : list bool) (drain_timeout_ms : N) (q : seq_obs) : bool :=
  let '(ok, stuck) := steps_f3 e s (combine unread (sq_steps q)) [] in
  ok && negb (is_nil stuck) &&
  (length unread =? length (sq_steps q))%nat &&
  let '(eok, claimed) := events_ok (filter_map (without stuck) (sq_events q)) [] [] in
  eok &&
  forallb (fun io => nmem (si_id (fst io)) claimed || nmem (si_id (fst io)) stuck) (sq_steps q) &&
  (sq_inflight_end q <=? N.of_nat (length stuck)) &&
  (sq_drain_ms q <=? drain_timeout_ms + en_drain_ms e) &&
  existsb (fun b => match b with BSnap _ => true | _ => false end) (sq_events q).
