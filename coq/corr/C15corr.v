(** C15corr.v — correspondence for C15: the observations of harness/c15_test.go
    (raw client bytes decoded, elapsed time, in-flight count, drain duration,
    claim/end/drain-snapshot events) compared with model/ProxyError.v +
    model/ErrorPage.v, and the monitor = C15's statement on the observed data
    alone. *)
From KP Require Import model.Base model.Trace model.Buffer model.ProxyError model.ErrorPage.
Local Open Scope N_scope.

(** What the scripted target does with the connection (harness: "fault"). *)
Inductive wfault :=
(* complete responses *)
| WfOkCL | WfOkChunked | WfStallShort | WfClTooSmall
(* failures before a response header block *)
| WfRefused | WfCloseImmediately | WfCloseAfterRead | WfResetBefore | WfGarbage
| WfPartialStatus | WfPartialHeader | WfEarlyHintsClose
(* silence *)
| WfSilence | WfStallLong | WfDialBlackhole | WfWriteStall
(* failures after the header block *)
| WfResetMidCL | WfCloseMidCL | WfCloseMidChunk | WfNoTerminalChunk | WfBadChunkSize | WfResetMidEOF.

Record env := mkEnv {
  en_timeout_ms : N;       (* the services' target timeout *)
  en_margin_ms : N;        (* scheduling tolerance when comparing a measured stall with the timeout *)
  en_eps_ms : N;           (* "promptly": elapsed <= timeout + eps *)
  en_drain_ms : N;         (* a drain that waits for nothing takes at most this *)
  en_builtin : templates;  (* internal/pages of the tree under test *)
  en_custom : templates }. (* the custom page directory (static pages only) *)

Record svc := mkSvc { sv_buffer_req : bool; sv_buffer_resp : bool; sv_custom : bool }.

Record step_in := mkStepIn {
  si_id : nat;
  si_kind : wfault;
  si_status : N;       (* status line the target sends *)
  si_body : str;       (* the body it declares *)
  si_prefix : N }.     (* how much of it is sent before the fault (WfClTooSmall: the declared length) *)

Record step_obs := mkStepObs {
  so_hang : bool;            (* the client's patience ran out *)
  so_rawlen : N;             (* bytes received *)
  so_wellformed : bool;      (* status line + header block parse *)
  so_status : N;
  so_html : bool;            (* Content-Type: text/html; charset=utf-8 *)
  so_body : str;             (* body bytes received *)
  so_complete : bool;        (* the body is complete by the response's own framing *)
  so_extra : N;              (* bytes after the response *)
  so_elapsed_ms : N;
  so_sent_at : option N;     (* when the target wrote its header block (ms after having read the request) *)
  so_inflight_after : N }.   (* len(Target.inflight) once the client is done *)

(** ** The monitor *)

(** "the service's custom error page for that status if it has one and the
    built-in page otherwise" *)
Definition prop_page (e : env) (s : svc) (status : N) : option str :=
  match (if sv_custom s then lookup status (en_custom e) else None) with
  | Some p => Some p
  | None => lookup status (en_builtin e)
  end.

Inductive expect :=
| XServe (status : N) (body : str)   (* the target's complete response *)
| XError (status : N)                (* a well-formed error response with the right page, promptly *)
| XCut (status : N) (sent : str)     (* visibly cut short *)
| XAny.                              (* stall too close to the timeout to call *)

Definition stall_expect (e : env) (i : step_in) (o : step_obs) : expect :=
  match so_sent_at o with
  | Some d =>
    if d + en_margin_ms e <=? en_timeout_ms e then XServe (si_status i) (si_body i)
    else if en_timeout_ms e + en_margin_ms e <=? d then XError 504
    else XAny
  | None => XError 504
  end.

Definition sent_prefix (i : step_in) : str := firstn (N.to_nat (si_prefix i)) (si_body i).

Definition expectation (e : env) (i : step_in) (o : step_obs) : expect :=
  match si_kind i with
  | WfOkCL | WfOkChunked => XServe (si_status i) (si_body i)
  | WfClTooSmall => XServe (si_status i) (sent_prefix i)
  | WfStallShort | WfStallLong => stall_expect e i o
  | WfRefused | WfCloseImmediately | WfCloseAfterRead | WfResetBefore | WfGarbage
  | WfPartialStatus | WfPartialHeader | WfEarlyHintsClose => XError 502
  | WfSilence | WfDialBlackhole | WfWriteStall => XError 504
  | WfResetMidCL | WfCloseMidCL | WfCloseMidChunk | WfNoTerminalChunk | WfBadChunkSize | WfResetMidEOF =>
    XCut (si_status i) (sent_prefix i)
  end.

Definition prompt (e : env) (o : step_obs) : bool :=
  negb (so_hang o) && (so_elapsed_ms o <=? en_timeout_ms e + en_eps_ms e).

Definition whole (o : step_obs) : bool :=
  so_wellformed o && so_complete o && (so_extra o =? 0).

Definition step_monitor (e : env) (s : svc) (i : step_in) (o : step_obs) : bool :=
  (so_inflight_after o =? 0) &&
  match expectation e i o with
  | XServe st body => prompt e o && whole o && (so_status o =? st) && str_eqb (so_body o) body
  | XError st =>
    prompt e o && whole o && (so_status o =? st) && so_html o &&
    match prop_page e s st with Some p => str_eqb (so_body o) p | None => false end
  | XCut st sent =>
    prompt e o && negb (so_wellformed o && so_complete o) &&
    (negb (so_wellformed o) || ((so_status o =? st) && has_prefix sent (so_body o)))
  | XAny => prompt e o && whole o
  end.

(** The bookkeeping events of a sequence: (kind, request) with kind 0 = claim,
    1 = end; 2 = drain snapshot with its content. *)
Inductive bev := BClaim (r : nat) | BEnd (r : nat) | BSnap (l : list nat).

Definition bev_event (b : bev) : event :=
  match b with
  | BClaim r => ev (KClaim 0 r)
  | BEnd r => ev (KEnd 0 r)
  | BSnap l => ev (KDrainSnapshot 0 (map (fun r => (r, false)) l))
  end.

Record seq_obs := mkSeqObs {
  sq_steps : list (step_in * step_obs);
  sq_drain_ms : N;
  sq_inflight_end : N;
  sq_events : list bev }.

Definition is_nil {A} (l : list A) : bool := match l with [] => true | _ => false end.

(** Every claimed request has ended before the snapshot is taken, the
    snapshot is empty, nothing is in flight at the end; every request is
    claimed at most once.  Returns also the requests that were claimed. *)
Fixpoint events_ok (evs : list bev) (open claimed : list nat) : bool * list nat :=
  match evs with
  | [] => (is_nil open, claimed)
  | BClaim r :: rest => if nmem r claimed then (false, claimed) else events_ok rest (r :: open) (r :: claimed)
  | BEnd r :: rest => if nmem r open then events_ok rest (nremove r open) claimed else (false, claimed)
  | BSnap l :: rest => if is_nil l && is_nil open then events_ok rest open claimed else (false, claimed)
  end.

(** Requests the proxy cannot have handed to the target before the client's
    patience ran out need not have been claimed... they are (the claim precedes
    the dial), so every step of a sequence must appear. *)
Definition seq_level_monitor (e : env) (q : seq_obs) : bool :=
  let '(ok, claimed) := events_ok (sq_events q) [] [] in
  ok && (sq_inflight_end q =? 0) && (sq_drain_ms q <=? en_drain_ms e) &&
  forallb (fun io => nmem (si_id (fst io)) claimed) (sq_steps q) &&
  (length claimed =? length (sq_steps q))%nat &&
  existsb (fun b => match b with BSnap _ => true | _ => false end) (sq_events q).

(** ** Known findings (patterns on the observation; see known_findings/C15.json) *)

(** F1: the dial is not covered by the target timeout: no response while the
    connect() to the target neither succeeds nor fails. *)
Definition known_f1 (i : step_in) (o : step_obs) : bool :=
  match si_kind i with WfDialBlackhole => so_hang o && (so_rawlen o =? 0) | _ => false end.
(** F2: neither is the writing of the request: no response while the target
    does not read a request that does not fit the socket buffers. *)
Definition known_f2 (i : step_in) (o : step_obs) : bool :=
  match si_kind i with WfWriteStall => so_hang o && (so_rawlen o =? 0) | _ => false end.

Definition step_known (i : step_in) (o : step_obs) : N :=
  if known_f1 i o then 1 else if known_f2 i o then 2 else 0.

Definition seq_monitor (e : env) (s : svc) (q : seq_obs) : bool :=
  forallb (fun io => step_monitor e s (fst io) (snd io)) (sq_steps q) && seq_level_monitor e q.

(** the same, forgiving exactly the steps that match a known finding (their
    in-flight entry must still be gone) *)
Definition seq_monitor_modulo (e : env) (s : svc) (q : seq_obs) : bool :=
  forallb (fun io => step_monitor e s (fst io) (snd io) ||
                     (negb (step_known (fst io) (snd io) =? 0) && (so_inflight_after (snd io) =? 0)))
          (sq_steps q) && seq_level_monitor e q.

Definition seq_known (q : seq_obs) : list N :=
  filter (fun k => negb (k =? 0)) (map (fun io => step_known (fst io) (snd io)) (sq_steps q)).

(** ** Comparison with the model *)

Definition cfg_of (e : env) (s : svc) : chain_cfg :=
  mkCfg (sv_buffer_resp s) 65536 0 (if sv_custom s then Some (en_custom e) else None) (en_builtin e).

(** Which Go error each wire fault produces is net/http's business: this
    table is the enumerated (compared, not proved) part. *)
Definition behaviour_of (e : env) (i : step_in) (o : step_obs) : option target_behaviour :=
  match si_kind i with
  | WfOkCL | WfOkChunked => Some (TBRespond (si_status i) (si_body i))
  | WfClTooSmall => Some (TBRespond (si_status i) (sent_prefix i))
  | WfStallShort | WfStallLong =>
    match stall_expect e i o with
    | XServe st b => Some (TBRespond st b)
    | XError _ => Some (TBFailBefore FHeaderTimeout)
    | _ => None
    end
  | WfRefused => Some (TBFailBefore FRefused)
  | WfCloseImmediately | WfCloseAfterRead | WfEarlyHintsClose => Some (TBFailBefore FEOF)
  | WfResetBefore => Some (TBFailBefore FReset)
  | WfGarbage | WfPartialStatus => Some (TBFailBefore FMalformed)
  | WfPartialHeader => Some (TBFailBefore FPartialHeader)
  | WfSilence => Some (TBFailBefore FHeaderTimeout)
  | WfDialBlackhole | WfWriteStall => None       (* the model has no clock: when the error arrives is not its business *)
  | WfResetMidCL | WfResetMidEOF => Some (TBFailAfter (si_status i) (sent_prefix i) FReset)
  | WfCloseMidCL | WfCloseMidChunk | WfNoTerminalChunk => Some (TBFailAfter (si_status i) (sent_prefix i) FEOF)
  | WfBadChunkSize => Some (TBFailAfter (si_status i) (sent_prefix i) FMalformed)
  end.

Definition step_agree (e : env) (s : svc) (i : step_in) (o : step_obs) : bool :=
  match behaviour_of e i o with
  | None => true
  | Some b =>
    let out := serve (cfg_of e s) b in
    let v := cview_of (o_events out) in
    if complete out then
      whole o && (so_status o =? client_status v) && str_eqb (so_body o) (cv_body v) &&
      Bool.eqb (so_html o) (cv_html v)
    else
      (* aborted: never complete; nothing at all when the response was buffered *)
      negb (so_wellformed o && so_complete o) &&
      (if sv_buffer_resp s then so_rawlen o =? 0
       else negb (so_wellformed o) || ((so_status o =? client_status v) && has_prefix (cv_body v) (so_body o)))
  end.

(** The events the model predicts for a sequence: claim, end per request in
    order (whatever the ending), then the empty snapshot; and the acceptor
    accepts what was observed, ending with nothing in flight. *)
Definition model_events (q : seq_obs) : trace :=
  flat_map (fun io => request_events 0 (si_id (fst io)) EndResponse) (sq_steps q) ++ [bev_event (BSnap [])].

Definition kind_eqb (a b : kind) : bool :=
  match a, b with
  | KClaim t r, KClaim t' r' | KEnd t r, KEnd t' r' => Nat.eqb t t' && Nat.eqb r r'
  | KDrainSnapshot t l, KDrainSnapshot t' l' => Nat.eqb t t' && nlist_eqb (map fst l) (map fst l')
  | _, _ => false
  end.

Definition seq_agree (e : env) (s : svc) (q : seq_obs) : bool :=
  forallb (fun io => step_agree e s (fst io) (snd io)) (sq_steps q) &&
  let tr := map bev_event (sq_events q) in
  list_eqb (fun a b => kind_eqb (e_k a) (e_k b)) tr (model_events q) &&
  match run if_step if_init tr with
  | Some st => forallb (fun tl => is_nil (snd tl)) st
  | None => false
  end.

(** ** Virtual clock: stalls right at the timeout (TestVerifC15Stall) *)

Record stall_in := mkStallIn {
  sti_write_phase : bool;     (* false: silence after the request was read; true: the request is never read *)
  sti_timeout_ns : N; sti_delay_ns : N; sti_svc : svc }.

Record stall_obs := mkStallObs {
  sto_hang : bool; sto_status : N; sto_html : bool; sto_body : str; sto_elapsed_ns : N;
  sto_inflight_after : N; sto_drain_ns : N }.

Definition hello : str := bs "hello".

Definition stall_monitor (e : env) (i : stall_in) (o : stall_obs) : bool :=
  (sto_inflight_after o =? 0) && (sto_drain_ns o =? 0) &&
  let served := negb (sto_hang o) && (sto_status o =? 200) && str_eqb (sto_body o) hello &&
                (sto_elapsed_ns o <=? sti_timeout_ns i) in
  let timed_out := negb (sto_hang o) && (sto_status o =? 504) && sto_html o &&
                   (sto_elapsed_ns o <=? sti_timeout_ns i) &&
                   match prop_page e (sti_svc i) 504 with Some p => str_eqb (sto_body o) p | None => false end in
  if sti_write_phase i then timed_out
  else if sti_delay_ns i <? sti_timeout_ns i then served
  else if sti_timeout_ns i <? sti_delay_ns i then timed_out
  else served || timed_out.

Definition stall_known (i : stall_in) (o : stall_obs) : N :=
  if sti_write_phase i && sto_hang o then 2 else 0.

Definition stall_agree (e : env) (i : stall_in) (o : stall_obs) : bool :=
  if sti_write_phase i then true
  else if sti_delay_ns i =? sti_timeout_ns i then true
  else
    let b := if sti_delay_ns i <? sti_timeout_ns i then TBRespond 200 hello else TBFailBefore FHeaderTimeout in
    let v := cview_of (o_events (serve (cfg_of e (sti_svc i)) b)) in
    negb (sto_hang o) && (sto_status o =? client_status v) && str_eqb (sto_body o) (cv_body v) &&
    (* exact clock: a timeout is reported at the timeout, a response when it was sent *)
    (sto_elapsed_ns o =? N.min (sti_delay_ns i) (sti_timeout_ns i)).

(** ** Cases and verdicts *)

Inductive c15_case :=
| CaseSeq (s : svc) (q : seq_obs)
| CaseStall (i : stall_in) (o : stall_obs).

(** (agrees with the model, monitor, monitor modulo known findings, known findings hit) *)
Definition check_case (e : env) (c : c15_case) : bool * bool * bool * list N :=
  match c with
  | CaseSeq s q => (seq_agree e s q, seq_monitor e s q, seq_monitor_modulo e s q, seq_known q)
  | CaseStall i o =>
    let k := stall_known i o in
    (stall_agree e i o, stall_monitor e i o,
     stall_monitor e i o || (negb (k =? 0) && (sto_inflight_after o =? 0) && (sto_drain_ns o =? 0)),
     if k =? 0 then [] else [k])
  end.

(** Output for the driver: (index, agree, monitor) for every case that is not
    fully fine, and (10000 * k + index, monitor-modulo-known, true) for every
    known finding k a case exhibits. *)
Fixpoint failures_aux (e : env) (cs : list c15_case) (n : N) : list (N * bool * bool) :=
  match cs with
  | [] => []
  | c :: r =>
    let '(a, m, mk, ks) := check_case e c in
    (if a && m then [] else [(n, a, m)]) ++
    map (fun k => (10000 * k + n, mk, true)) (nodup N.eq_dec ks) ++
    failures_aux e r (n + 1)
  end.
Definition failures (e : env) (cs : list c15_case) := failures_aux e cs 0.

(** Pattern bodies: [pat start len] is the byte sequence (start + i) mod 251. *)
Fixpoint pat_aux (cur : N) (n : nat) : str :=
  match n with
  | O => []
  | S n' => (match Byte.of_N cur with Some b => b | None => x00 end)
            :: pat_aux (if cur + 1 =? 251 then 0 else cur + 1) n'
  end.
Definition pat (start len : N) : str := pat_aux (start mod 251) (N.to_nat len).

(** Page table of a generated file: [pg pages k]. *)
Definition pg (pages : list str) (k : nat) : str := nth k pages [].
