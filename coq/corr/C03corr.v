(** C03corr.v — monitor of C03 on an observed event trace alone.

    When a deploy / rollout deploy / pause / stop returns Ok:
      (a) every request still in flight on a target it drained has been cut
          off by a drain (at or after that drain's deadline);
      (b) afterwards no request is claimed on those targets — for a deploy:
          never again (the balancer was replaced); for pause/stop: until the
          service is resumed;
      (c) a drain cuts requests off only at/after mark + drain timeout, and a
          cut-off request is answered 504.
    The recorded findings (D2/D3): a request that was already inside the proxy
    (routed / past the gate) when the command changed the routing table or the
    gate may still reach the old targets; such hits are marked [known]. *)
From KP Require Import model.Base model.Trace.
Local Open Scope N_scope.

Definition gid (a : actor) : nat := match a with AGo g => g | ACmd c => c | AReq r => r | AEnv => 0 end.

Record cmdrec := mkC {
  c_kind : cmdkind; c_name : str;
  c_replaced : option nat;        (* deploy: balancer taken out of the slot *)
  c_install_idx : option nat;     (* deploy: index of its KInstall / rollout: of its KSlot *)
  c_gate_idx : option nat;        (* pause/stop: index of its KGateSet *)
  c_issue : nat;                  (* index of its KIssue *)
  c_overlapped : bool             (* another command on the same service was in progress at some time of this one *)
}.

(** a target that must stay quiet: since which command, and the index before
    which a request must have been routed/gated for the hit to be the recorded finding *)
Record quiet := mkQ { q_since : nat; q_stale_before : nat; q_until_resume : option str }.

Record mon := mkMon {
  m_lb_targets : list (nat * list nat);
  m_target_lb : list (nat * nat);
  m_slots : list (nat * (option nat * option nat));     (* service object -> active, rollout *)
  m_names : list (nat * str);
  m_installed : list (nat * str);                        (* installed service objects with their names *)
  m_cmds : list (nat * cmdrec);
  m_inflight : list (nat * list nat);                    (* target -> requests *)
  m_routed : list (nat * nat);                           (* request -> index of KRouted *)
  m_gated : list (nat * nat);                            (* request -> index of KGateResult *)
  m_drain_dl : list (nat * N);
  m_snap : list (nat * list nat);
  m_dl_hit : list nat;
  m_cut : list nat;                                      (* cut off at/after a deadline *)
  m_quiet : list (nat * quiet);
  m_gate : list (str * gstate);                          (* service name -> last gate state set by a command *)
  m_open : list (nat * nat);                             (* goroutine -> target of its open Drain call *)
  m_cmd_dt : list (nat * N);                             (* commands in progress -> the drain timeout they were given *)
  m_claim_idx : list (nat * nat);                        (* request -> index of its KClaim *)
  m_begin_idx : list (nat * nat);                        (* target -> index of its latest KDrainBegin (full drain) *)
  m_fail : list (nat * N * nat * bool)                   (* index, code, request/target, known *)
}.

Definition mon0 : mon := mkMon [] [] [] [] [] [] [] [] [] [] [] [] [] [] [] [] [] [] [] [].

(** setters (one per field we update) *)
Definition set_fail (m : mon) f := mkMon (m_lb_targets m) (m_target_lb m) (m_slots m) (m_names m) (m_installed m) (m_cmds m)
  (m_inflight m) (m_routed m) (m_gated m) (m_drain_dl m) (m_snap m) (m_dl_hit m) (m_cut m) (m_quiet m) (m_gate m) (m_open m) (m_cmd_dt m) (m_claim_idx m) (m_begin_idx m) f.
Definition set_quiet (m : mon) q := mkMon (m_lb_targets m) (m_target_lb m) (m_slots m) (m_names m) (m_installed m) (m_cmds m)
  (m_inflight m) (m_routed m) (m_gated m) (m_drain_dl m) (m_snap m) (m_dl_hit m) (m_cut m) q (m_gate m) (m_open m) (m_cmd_dt m) (m_claim_idx m) (m_begin_idx m) (m_fail m).
Definition set_cmds (m : mon) c := mkMon (m_lb_targets m) (m_target_lb m) (m_slots m) (m_names m) (m_installed m) c
  (m_inflight m) (m_routed m) (m_gated m) (m_drain_dl m) (m_snap m) (m_dl_hit m) (m_cut m) (m_quiet m) (m_gate m) (m_open m) (m_cmd_dt m) (m_claim_idx m) (m_begin_idx m) (m_fail m).
Definition set_inflight (m : mon) x := mkMon (m_lb_targets m) (m_target_lb m) (m_slots m) (m_names m) (m_installed m) (m_cmds m)
  x (m_routed m) (m_gated m) (m_drain_dl m) (m_snap m) (m_dl_hit m) (m_cut m) (m_quiet m) (m_gate m) (m_open m) (m_cmd_dt m) (m_claim_idx m) (m_begin_idx m) (m_fail m).
Definition set_slots (m : mon) x := mkMon (m_lb_targets m) (m_target_lb m) x (m_names m) (m_installed m) (m_cmds m)
  (m_inflight m) (m_routed m) (m_gated m) (m_drain_dl m) (m_snap m) (m_dl_hit m) (m_cut m) (m_quiet m) (m_gate m) (m_open m) (m_cmd_dt m) (m_claim_idx m) (m_begin_idx m) (m_fail m).
Definition set_installed (m : mon) x := mkMon (m_lb_targets m) (m_target_lb m) (m_slots m) (m_names m) x (m_cmds m)
  (m_inflight m) (m_routed m) (m_gated m) (m_drain_dl m) (m_snap m) (m_dl_hit m) (m_cut m) (m_quiet m) (m_gate m) (m_open m) (m_cmd_dt m) (m_claim_idx m) (m_begin_idx m) (m_fail m).
Definition set_drains (m : mon) dl sn hit cut := mkMon (m_lb_targets m) (m_target_lb m) (m_slots m) (m_names m) (m_installed m) (m_cmds m)
  (m_inflight m) (m_routed m) (m_gated m) dl sn hit cut (m_quiet m) (m_gate m) (m_open m) (m_cmd_dt m) (m_claim_idx m) (m_begin_idx m) (m_fail m).

Definition set_gate (m : mon) g := mkMon (m_lb_targets m) (m_target_lb m) (m_slots m) (m_names m) (m_installed m) (m_cmds m)
  (m_inflight m) (m_routed m) (m_gated m) (m_drain_dl m) (m_snap m) (m_dl_hit m) (m_cut m) (m_quiet m) g (m_open m) (m_cmd_dt m) (m_claim_idx m) (m_begin_idx m) (m_fail m).

Definition set_open (m : mon) o := mkMon (m_lb_targets m) (m_target_lb m) (m_slots m) (m_names m) (m_installed m) (m_cmds m)
  (m_inflight m) (m_routed m) (m_gated m) (m_drain_dl m) (m_snap m) (m_dl_hit m) (m_cut m) (m_quiet m) (m_gate m) o (m_cmd_dt m) (m_claim_idx m) (m_begin_idx m) (m_fail m).

Definition set_aux (m : mon) dt ci bi := mkMon (m_lb_targets m) (m_target_lb m) (m_slots m) (m_names m) (m_installed m) (m_cmds m)
  (m_inflight m) (m_routed m) (m_gated m) (m_drain_dl m) (m_snap m) (m_dl_hit m) (m_cut m) (m_quiet m) (m_gate m) (m_open m) dt ci bi (m_fail m).

Definition gate_of (m : mon) (name : str) : gstate :=
  match find (fun p => str_eqb (fst p) name) (m_gate m) with Some (_, g) => g | None => GRunning end.

Definition targets_of_lb (m : mon) (lb : option nat) : list nat :=
  match lb with Some l => match nget (m_lb_targets m) l with Some ts => ts | None => [] end | None => [] end.

Definition inflight_of (m : mon) (t : nat) : list nat :=
  match nget (m_inflight m) t with Some l => l | None => [] end.

Definition cmd_get (m : mon) (c : nat) : cmdrec :=
  match nget (m_cmds m) c with Some x => x | None => mkC CkDeploy [] None None None 0 false end.

Definition installed_for (m : mon) (name : str) : option nat :=
  match find (fun p => str_eqb (snd p) name) (m_installed m) with Some (s, _) => Some s | None => None end.

(** codes: 1 = in flight and not cut off when the command returned; 2 = claimed on a quiet target;
    3 = cut off before the deadline; 4 = cut-off request not answered 504 *)
Definition mon_step (m : mon) (i : nat) (e : event) : mon :=
  match e_k e with
  | KSvcName s n => mkMon (m_lb_targets m) (m_target_lb m) (m_slots m) (nset (m_names m) s n) (m_installed m) (m_cmds m)
      (m_inflight m) (m_routed m) (m_gated m) (m_drain_dl m) (m_snap m) (m_dl_hit m) (m_cut m) (m_quiet m) (m_gate m) (m_open m) (m_cmd_dt m) (m_claim_idx m) (m_begin_idx m) (m_fail m)
  | KLbNew lb ts => mkMon (nset (m_lb_targets m) lb ts) (fold_left (fun acc t => nset acc t lb) ts (m_target_lb m))
      (m_slots m) (m_names m) (m_installed m) (m_cmds m)
      (m_inflight m) (m_routed m) (m_gated m) (m_drain_dl m) (m_snap m) (m_dl_hit m) (m_cut m) (m_quiet m) (m_gate m) (m_open m) (m_cmd_dt m) (m_claim_idx m) (m_begin_idx m) (m_fail m)
  | KIssue c k name =>
    (* commands on the same service still in progress: they and this one overlap - the property speaks of ONE command
       interleaved with requests, so neither is judged *)
    let busy := filter (fun p => nmem (fst p) (map fst (m_cmd_dt m)) && str_eqb (c_name (snd p)) name) (m_cmds m) in
    let marked := map (fun p => if nmem (fst p) (map fst busy)
                                then (fst p, mkC (c_kind (snd p)) (c_name (snd p)) (c_replaced (snd p)) (c_install_idx (snd p))
                                                 (c_gate_idx (snd p)) (c_issue (snd p)) true)
                                else p) (m_cmds m) in
    set_cmds m (nset marked c (mkC k name None None None i (match busy with [] => false | _ => true end)))
  | KParams c _ dt _ => set_aux m (nset (m_cmd_dt m) c dt) (m_claim_idx m) (m_begin_idx m)
  | KSvcCopy old new =>
    set_slots m (nset (m_slots m) new (match nget (m_slots m) old with Some x => x | None => (None, None) end))
  | KSlot s rollout lb replaced =>
    let cur := match nget (m_slots m) s with Some x => x | None => (None, None) end in
    let m1 := set_slots m (nset (m_slots m) s (if rollout then (fst cur, Some lb) else (Some lb, snd cur))) in
    match e_by e with
    | ACmd c => let r := cmd_get m c in
                set_cmds m1 (nset (m_cmds m1) c (mkC (c_kind r) (c_name r) replaced
                                                     (if rollout then Some i else c_install_idx r) (c_gate_idx r)
                                                     (c_issue r) (c_overlapped r)))
    | _ => m1
    end
  | KInstall s ok =>
    if ok then
      let n := match nget (m_names m) s with Some x => x | None => [] end in
      let m1 := set_installed m ((s, n) :: filter (fun p => negb (str_eqb (snd p) n)) (m_installed m)) in
      match e_by e with
      | ACmd c => let r := cmd_get m c in
                  set_cmds m1 (nset (m_cmds m1) c (mkC (c_kind r) (c_name r) (c_replaced r)
                                                       (match c_install_idx r with Some x => Some x | None => Some i end)
                                                       (c_gate_idx r) (c_issue r) (c_overlapped r)))
      | _ => m1
      end
    else m
  | KRemoved s => set_installed m (filter (fun p => negb (Nat.eqb (fst p) s)) (m_installed m))
  | KGateSet _ st _ =>
    match e_by e with
    | ACmd c =>
      let r := cmd_get m c in
      let m0 := set_gate m ((c_name r, st) :: filter (fun p => negb (str_eqb (fst p) (c_name r))) (m_gate m)) in
      let m1 := set_cmds m0 (nset (m_cmds m0) c (mkC (c_kind r) (c_name r) (c_replaced r) (c_install_idx r) (Some i)
                                                     (c_issue r) (c_overlapped r))) in
      match st with
      | GRunning =>        (* resume: the service's targets may serve again *)
        set_quiet m1 (filter (fun p => match q_until_resume (snd p) with
                                       | Some n => negb (str_eqb n (c_name r)) | None => true end) (m_quiet m1))
      | _ => m1
      end
    | _ => m
    end
  | KRouted r _ => mkMon (m_lb_targets m) (m_target_lb m) (m_slots m) (m_names m) (m_installed m) (m_cmds m)
      (m_inflight m) (nset (m_routed m) r i) (m_gated m) (m_drain_dl m) (m_snap m) (m_dl_hit m) (m_cut m) (m_quiet m) (m_gate m) (m_open m) (m_cmd_dt m) (m_claim_idx m) (m_begin_idx m) (m_fail m)
  | KGateResult r _ _ => mkMon (m_lb_targets m) (m_target_lb m) (m_slots m) (m_names m) (m_installed m) (m_cmds m)
      (m_inflight m) (m_routed m) (nset (m_gated m) r i) (m_drain_dl m) (m_snap m) (m_dl_hit m) (m_cut m) (m_quiet m) (m_gate m) (m_open m) (m_cmd_dt m) (m_claim_idx m) (m_begin_idx m) (m_fail m)
  | KClaim t r =>
    let m0 := set_aux m (m_cmd_dt m) (nset (m_claim_idx m) r i) (m_begin_idx m) in
    let m1 := set_inflight m0 (nset (m_inflight m0) t (r :: inflight_of m0 t)) in
    match nget (m_quiet m) t with
    | Some q =>
      (* the recorded finding: the request was already routed (deploy) / past the gate (pause, stop)
         before the command switched the table / the gate *)
      let stamp := match q_until_resume q with
                   | None => nget (m_routed m) r
                   | Some _ => nget (m_gated m) r end in
      let known := match stamp with Some x => Nat.ltb x (q_stale_before q) | None => false end in
      set_fail m1 ((i, 2, r, known) :: m_fail m1)
    | None => m1
    end
  | KEnd t r => set_inflight m (nset (m_inflight m) t (nremove r (inflight_of m t)))
  | KDrainBegin t orig timeout =>
    match orig with
    | TDraining => m
    | _ =>
      (* grace period = the drain timeout a command in progress was GIVEN (smallest if several) *)
      let granted := match map snd (m_cmd_dt m) with [] => timeout | d :: ds => fold_left N.min ds d end in
      let m1 := set_aux m (m_cmd_dt m) (m_claim_idx m) (nset (m_begin_idx m) t i) in
      set_open (set_drains m1 (nset (m_drain_dl m1) (gid (e_by e)) (e_t e + granted)) (nset (m_snap m1) (gid (e_by e)) [])
                      (nremove (gid (e_by e)) (m_dl_hit m1)) (m_cut m1))
                    (nset (m_open m1) (gid (e_by e)) t)
    end
  | KStateSet t _ new =>
    (* the restore that ends this goroutine's Drain call *)
    match new, nget (m_open m) (gid (e_by e)) with
    | TDraining, _ => m
    | _, Some t' => if Nat.eqb t t' then set_open m (filter (fun p => negb (Nat.eqb (fst p) (gid (e_by e)))) (m_open m)) else m
    | _, None => m
    end
  | KDrainSnapshot _ rs =>
    (* upgraded connections are cut as soon as draining begins *)
    set_drains m (m_drain_dl m) (nset (m_snap m) (gid (e_by e)) (map fst rs)) (m_dl_hit m)
               (map fst (filter (fun rh => snd rh) rs) ++ m_cut m)
  | KDrainDeadline _ =>
    let g := gid (e_by e) in
    let early := match nget (m_drain_dl m) g with Some d => e_t e <? d | None => true end in
    let m1 := set_drains m (m_drain_dl m) (m_snap m) (g :: m_dl_hit m) (m_cut m) in
    if early then set_fail m1 ((i, 3, g, false) :: m_fail m1) else m1
  | KDrainCancelRest t =>
    let g := gid (e_by e) in
    let sn := match nget (m_snap m) g with Some l => l | None => [] end in
    if nmem g (m_dl_hit m) then set_drains m (m_drain_dl m) (m_snap m) (m_dl_hit m) (sn ++ m_cut m)
    else
      (* no deadline: nobody of the snapshot may still be in flight un-cut *)
      let bad := filter (fun r => nmem r (inflight_of m t) && negb (nmem r (m_cut m))) sn in
      match bad with
      | [] => m
      | r :: _ => set_fail m ((i, 3, r, false) :: m_fail m)
      end
  | KTargetFailed _ r why =>
    if (why =? 1) && negb (nmem r (m_cut m)) then set_fail m ((i, 3, r, false) :: m_fail m) else m
  | KRespond r status _ =>
    (* a request that was cut off while at its target and failed for that reason is answered 504 — checked
       through KTargetFailed + the status here *)
    m
  | KReturn c res =>
    let m := set_aux m (filter (fun p => negb (Nat.eqb (fst p) c)) (m_cmd_dt m)) (m_claim_idx m) (m_begin_idx m) in
    match res with
    | CROk =>
      let rc := cmd_get m c in
      let drained : list nat :=
        match c_kind rc with
        | CkDeploy | CkRolloutDeploy => targets_of_lb m (c_replaced rc)
        | CkPause | CkStop =>
          match installed_for m (c_name rc) with
          | Some s => match nget (m_slots m) s with
                      | Some (a, ro) => targets_of_lb m a ++ targets_of_lb m ro
                      | None => [] end
          | None => []
          end
        | _ => []
        end in
      (* (a) still in flight and not cut off *)
      let stale_before := match c_kind rc with
                          | CkDeploy | CkRolloutDeploy => match c_install_idx rc with Some x => x | None => i end
                          | _ => match c_gate_idx rc with Some x => x | None => i end end in
      (* a target another (overlapping) command is still draining was not drained by this one: its Drain
         call returned at once (outside the property's quantifier) *)
      let mine := filter (fun t => negb (existsb (fun p => Nat.eqb (snd p) t) (m_open m))) drained in
      let bad := flat_map (fun t => map (fun r => (t, r))
                     (filter (fun r => negb (nmem r (m_cut m))) (inflight_of m t))) mine in
      let fails := map (fun tr =>
                     let r := snd tr in
                     let stamp := match c_kind rc with
                                  | CkDeploy | CkRolloutDeploy => nget (m_routed m) r
                                  | _ => nget (m_gated m) r end in
                     (* in flight un-cut at return can only be a request that slipped in during the drain:
                        the recorded finding if it was inside the proxy before the switch *)
                     (* ... and that slipped in AFTER this target's drain had begun (a request in flight before the
                        drain must have been waited for or cut off; a target that was never drained is no excuse) *)
                     let slipped := match nget (m_claim_idx m) r, nget (m_begin_idx m) (fst tr) with
                                    | Some ci, Some bi => Nat.ltb bi ci && Nat.leb (c_issue rc) bi | _, _ => false end in
                     (i, 1, r, slipped && match stamp with Some x => Nat.ltb x stale_before | None => false end)) bad in
      let until := match c_kind rc with CkPause | CkStop => Some (c_name rc) | _ => None end in
      (* a pause/stop overtaken by a resume (overlapping commands) leaves nothing quiet *)
      let resumed := match c_kind rc, gate_of m (c_name rc) with
                     | (CkPause | CkStop), GRunning => true | _, _ => false end in
      let q := if resumed then m_quiet m
               else fold_left (fun acc t => nset acc t (mkQ i stale_before until)) mine (m_quiet m) in
      (* a pause/stop that a resume has overtaken (overlapping commands: outside the property's quantifier)
         is not judged *)
      if resumed || c_overlapped rc then m else set_fail (set_quiet m q) (rev fails ++ m_fail m)
    | _ => m
    end
  | _ => m
  end.

Fixpoint mon_run (m : mon) (i : nat) (tr : trace) : mon :=
  match tr with
  | [] => m
  | e :: r => mon_run (mon_step m i e) (S i) r
  end.

(** second pass: a request a drain cut off (upgraded: at the snapshot; the others: at cancel-rest after the deadline) is
    no longer served afterwards — its KEnd is not later than the cut (code 5).  The cut is an instantaneous
    cancellation: no virtual time passes between it and the end of the exchange. *)
Record cutst := mkCut {
  k_snap : list (nat * list nat);        (* goroutine -> snapshot *)
  k_hit : list nat;                      (* goroutines whose drain reported the deadline *)
  k_cuts : list (nat * (nat * N));       (* request -> (event index, time) of its first cut *)
  k_ends : list (nat * N)                (* request -> time of its latest KEnd *)
}.

Definition add_cuts (i : nat) (t : N) (rs : list nat) (cuts : list (nat * (nat * N))) :=
  fold_left (fun acc r => match nget acc r with Some _ => acc | None => nset acc r (i, t) end) rs cuts.

Definition cut_step (k : cutst) (i : nat) (e : event) : cutst :=
  match e_k e with
  | KDrainBegin _ orig _ =>
    match orig with
    | TDraining => k
    | _ => mkCut (nset (k_snap k) (gid (e_by e)) []) (nremove (gid (e_by e)) (k_hit k)) (k_cuts k) (k_ends k)
    end
  | KDrainSnapshot _ rs =>
    mkCut (nset (k_snap k) (gid (e_by e)) (map fst rs)) (k_hit k)
          (add_cuts i (e_t e) (map fst (filter (fun rh => snd rh) rs)) (k_cuts k)) (k_ends k)
  | KDrainDeadline _ => mkCut (k_snap k) (gid (e_by e) :: k_hit k) (k_cuts k) (k_ends k)
  | KDrainCancelRest _ =>
    let g := gid (e_by e) in
    if nmem g (k_hit k) then
      mkCut (k_snap k) (k_hit k)
            (add_cuts i (e_t e) (match nget (k_snap k) g with Some l => l | None => [] end) (k_cuts k)) (k_ends k)
    else k
  | KEnd _ r => mkCut (k_snap k) (k_hit k) (k_cuts k) (nset (k_ends k) r (e_t e))
  | KReleased =>
    (* a request the harness held at a yield point when it was cut notices the cut when it is released *)
    match e_by e with
    | AReq r => match nget (k_cuts k) r with
                | Some (i0, t0) => mkCut (k_snap k) (k_hit k) (nset (k_cuts k) r (i0, N.max t0 (e_t e))) (k_ends k)
                | None => k
                end
    | _ => k
    end
  | _ => k
  end.

Fixpoint cut_run (k : cutst) (i : nat) (tr : trace) : cutst :=
  match tr with
  | [] => k
  | e :: r => cut_run (cut_step k i e) (S i) r
  end.

Definition claimed_reqs (tr : trace) : list nat :=
  flat_map (fun e => match e_k e with KClaim _ r => [r] | _ => [] end) tr.

Definition cut_check (tr : trace) : list (nat * N * nat * bool) :=
  let k := cut_run (mkCut [] [] [] []) 0 tr in
  flat_map (fun c => let r := fst c in
                     let '(i, t) := snd c in
                     match nget (k_ends k) r with
                     | Some t' => if t' <=? t then [] else [(i, 5, r, false)]
                     | None => if nmem r (claimed_reqs tr) then [(i, 5, r, false)] else []
                     end) (k_cuts k).

Definition c03_check (tr : trace) : list (nat * N * nat * bool) := rev (m_fail (mon_run mon0 0 tr)) ++ cut_check tr.
Definition c03_ok (tr : trace) : bool := match c03_check tr with [] => true | _ => false end.
