(** C12fault.v — the state file under file-system faults and crash leftovers.

    Observation per command (harness/c12fault_test.go; configurations are
    interned: equal numbers = equal configurations): the state file before and
    after ([FAbsent], [FUndecodable] = empty / truncated / not JSON, [FCfg c] = a
    complete snapshot of configuration [c]), the configuration in force before
    and after, whether the command's snapshot was made to fail ([faulted]: the
    write is cut short by a file-size limit), whether a temporary file left by
    an earlier crash was lying in the directory.

    What C12 demands of these:
    - at every step the file is absent (only before the first snapshot) or ONE
      COMPLETE snapshot — never empty, truncated or undecodable;
    - a command whose snapshot could be written (not faulted) — whatever an
      earlier crash left lying around — leaves the file describing the
      configuration then in force; only a command that changed nothing (it
      failed, or repeated what was in force) may leave the file as it found it
      (which, after an EARLIER failed write, may still be the older snapshot);
    - a command whose snapshot could NOT be written leaves the file exactly as
      it was (the previous complete snapshot), or describing the configuration
      now in force — nothing in between;
    - a restart restores the configuration the state file describes (a leftover
      temporary file is not a state file) and at no instant of the start is the
      file anything but what it was (a process killed during start-up restarts
      from the same complete snapshot). *)
From KP Require Import model.Base.
From Coq Require Import List Bool Arith.
Import ListNotations.

Inductive ffile := FAbsent | FUndecodable | FCfg (c : nat).

Definition ffile_eqb (a b : ffile) : bool :=
  match a, b with
  | FAbsent, FAbsent | FUndecodable, FUndecodable => true
  | FCfg x, FCfg y => Nat.eqb x y
  | _, _ => false
  end.

Record fstep := mkFStep {
  fs_restart : bool;      (* the step is a restart, not a command *)
  fs_faulted : bool;      (* the snapshot write of this command was made to fail *)
  fs_file_before : ffile; fs_file_after : ffile;
  fs_cfg_before : nat; fs_cfg_after : nat;
  fs_during : list ffile  (* restart: the file as read at every file-system step of a snapshot made WHILE the restore runs *) }.

(** the empty configuration is number 0: no file and an empty list describe the same thing *)
Definition describes (f : ffile) (c : nat) : bool :=
  match f with
  | FCfg x => Nat.eqb x c
  | FAbsent => Nat.eqb c 0
  | FUndecodable => false
  end.

Definition fstep_ok (s : fstep) : bool :=
  match fs_file_after s with FUndecodable => false | _ => true end &&
  (if fs_restart s then
     (* the file is untouched by a start, and what was restored is what it describes *)
     ffile_eqb (fs_file_after s) (fs_file_before s) && describes (fs_file_before s) (fs_cfg_after s) &&
     forallb (fun f => ffile_eqb f (fs_file_before s)) (fs_during s)
   else if fs_faulted s then
     ffile_eqb (fs_file_after s) (fs_file_before s) || describes (fs_file_after s) (fs_cfg_after s)
   else describes (fs_file_after s) (fs_cfg_after s) ||
        (Nat.eqb (fs_cfg_after s) (fs_cfg_before s) && ffile_eqb (fs_file_after s) (fs_file_before s))).

Fixpoint fault_bad_from (l : list fstep) (k : nat) : list nat :=
  match l with
  | [] => []
  | s :: r => (if fstep_ok s then [] else [k]) ++ fault_bad_from r (S k)
  end.

Definition c12_fault_bad (l : list fstep) : list nat := fault_bad_from l 0.
