(** C10health.v — rollout histories in which a side's targets turn unhealthy and recover.

    C10: "a request goes to the rollout targets EXACTLY when it carries the cookie and its value is included".
    The decision does not depend on the health of either side: when every target of the chosen side is failing its
    probes the request is answered 503 by the proxy (C09), it is not handed to the other side.  The history
    commands of model/Rollout.v are wrapped: [HPlain c] is command [c]; [HHealth rollout_side healthy] says that
    every target of that side has just failed (healthy = false) / passed (true) a probe.  A deploy brings healthy
    targets for its side, a restart presumes every restored target healthy.  Model and spec are the ones of
    model/Rollout.v with the answer of a request replaced by 503 when the side it goes to is unhealthy. *)
From KP Require Import model.Base model.Rollout corr.C10corr.
Local Open Scope N_scope.

Inductive hcmd2 := HPlain (c : hcmd) | HHealth (rollout_side healthy : bool).

Record flags := mkFl { act_ok : bool; roll_ok : bool }.

Definition flags_after (f : flags) (c : hcmd) : flags :=
  match c with
  | HDeploy _ => mkFl true (roll_ok f)
  | HRolloutDeploy _ => mkFl (act_ok f) true
  | HRestart => mkFl true true
  | _ => f
  end.

Definition side_ok (f : flags) (sd : side) : bool := match sd with Active => act_ok f | Rollout => roll_ok f end.

(** the implementation model: [hstep] decides, the health of the side it decided for gives 503 *)
Definition hstep2 (sf : svc * flags) (c : hcmd2) : (svc * flags) * xobs :=
  let '(s, f) := sf in
  match c with
  | HHealth rs h => ((s, if rs then mkFl (act_ok f) h else mkFl h (roll_ok f)), XOk)
  | HPlain c =>
    let '(s', o) := hstep s c in
    let x := match c with
             | HRequest lines =>
               if side_ok f (pick (has_rollout_slot s) (sv_ctrl s) lines) then x_of o else XStatus 503
             | _ => x_of o
             end in
    ((s', flags_after f c), x)
  end.

Fixpoint hrun2 (sf : svc * flags) (cmds : list hcmd2) : list xobs :=
  match cmds with
  | [] => []
  | c :: r => let '(sf', x) := hstep2 sf c in x :: hrun2 sf' r
  end.

(** the property's own reading *)
Definition spec_side (s : spec_state) (lines : list str) : side :=
  match ss_targets s, ss_split s with
  | Some _, Some c => if uses_rollout c lines then Rollout else Active
  | _, _ => Active
  end.

Definition spec_step2 (sf : spec_state * flags) (c : hcmd2) : (spec_state * flags) * xobs :=
  let '(s, f) := sf in
  match c with
  | HHealth rs h => ((s, if rs then mkFl (act_ok f) h else mkFl h (roll_ok f)), XOk)
  | HPlain c =>
    let '(s', o) := spec_step s c in
    let x := match c with
             | HRequest lines => if side_ok f (spec_side s lines) then x_of o else XStatus 503
             | _ => x_of o
             end in
    ((s', flags_after f c), x)
  end.

Fixpoint spec_run2 (sf : spec_state * flags) (cmds : list hcmd2) : list xobs :=
  match cmds with
  | [] => []
  | c :: r => let '(sf', x) := spec_step2 sf c in x :: spec_run2 sf' r
  end.

Definition hist_monitor2 (id : nat) (cmds : list hcmd2) (o : list xobs) : bool :=
  list_eqb xobs_eqb (spec_run2 (init_spec id, mkFl true true) cmds) o.

Definition hist_agree2 (id : nat) (cmds : list hcmd2) (o : list xobs) : bool :=
  list_eqb xobs_eqb (hrun2 (init_svc id, mkFl true true) cmds) o.
