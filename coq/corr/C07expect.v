(** C07expect.v — "on resume each held request is forwarded to the targets the service has AT THAT MOMENT": for the
    directed scenarios that change the rollout split / the rollout targets while requests are held, the scenario states
    which target must answer which request; this monitor reads the answers off the trace. *)
From KP Require Import model.Base model.Trace.

Definition answered_by (tr : trace) (r : nat) : option (N * str) :=
  match find (fun e => match e_k e with KRespond r' _ _ => Nat.eqb r r' | _ => false end) tr with
  | Some e => match e_k e with KRespond _ st sb => Some (st, sb) | _ => None end
  | None => None
  end.

(** the requests of [exp] that were not answered 200 by the expected target *)
Definition c07_served_bad (exp : list (nat * str)) (tr : trace) : list nat :=
  map fst (filter (fun p => match answered_by tr (fst p) with
                            | Some (st, sb) => negb (N.eqb st 200 && str_eqb sb (snd p))
                            | None => true end) exp).
