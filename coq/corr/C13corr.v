(** C13corr.v — correspondence for C13: how one exchange observed on the real
    handler chain (harness/c13_test.go) is compared with model/Url.v and
    model/Headers.v, the monitor (C13's statement on one observed exchange,
    clause by clause), and the patterns of the recorded known findings. *)
From KP Require Import model.Base model.Url model.Headers.
Local Open Scope N_scope.

(** ** Cases *)

(** One (prefix -> service) binding of the request's host, in the router's
    order (longest prefix first). *)
Record binding := mkBinding { b_prefix : str; b_svc : N; b_strip : bool; b_forward : bool }.

Fixpoint route (bs : list binding) (decoded : str) : option binding :=
  match bs with
  | [] => None
  | b :: r => if prefix_matches decoded (b_prefix b) then Some b else route r decoded
  end.

Fixpoint find_svc (bs : list binding) (svc : N) : option binding :=
  match bs with
  | [] => None
  | b :: r => if b_svc b =? svc then Some b else find_svc r svc
  end.

(** What the client sent: header lines in order with their raw names, Host apart. *)
Record creq := mkReq { rq_method : str; rq_target : str; rq_host : str; rq_headers : headers;
                       rq_body : str; rq_tls : bool }.

(** What the target answers (framing apart): [rs_body] is the body as put on
    the wire (empty for HEAD, 204, 304); [rs_gunzipped] its gzip decoding when it
    is a non-empty valid gzip stream (computed by the generator). *)
Record cresp := mkResp { rs_status : N; rs_headers : headers; rs_body : str; rs_gunzipped : option str;
                         rs_chunked : bool (* length not announced: Transfer-Encoding: chunked *);
                         rs_early : list N (* statuses of the informational (1xx) responses sent ahead of the final one *) }.

(** What was observed.  Header lists carry canonical keys; framing headers
    (Content-Length, Transfer-Encoding, and Connection on the client side) are
    projected away; Host is [o_host]. *)
Record cobs := mkObs {
  o_client_ip : str; o_status : N; o_headers : headers; o_body : str;
  o_hit : bool; o_svc : N; o_method : str; o_target : str; o_host : str;
  o_theaders : headers; o_tbody : str;
  o_rid_unique : bool;       (* the X-Request-Id seen by the target occurs in no other exchange of the run *)
  o_start_in_window : bool;  (* X-Request-Start lies between send and receive time of the client *)
  o_early : list N           (* statuses of the informational responses the client received before the final one *) }.

Definition statuses_eqb (a b : list N) : bool := list_eqb N.eqb a b.

Record ccase := mkCase { c_bindings : list binding; c_req : creq; c_resp : cresp; c_obs : cobs }.

(** ** Model *)

Inductive expect :=
| ExReject | ExNotFound | ExUnmodelled
| ExForward (svc : N) (target : str) (theaders : headers)
            (rheaders : headers) (sniff sniff_certain date : bool) (rbody : str).

Definition is_some {A} (o : option A) : bool := match o with Some _ => true | None => false end.

Definition model (c : ccase) : expect :=
  let rq := c_req c in let rs := c_resp c in let o := c_obs c in
  match parse_request_target (rq_target rq) with
  | PReject => ExReject
  | PUnmodelled => ExUnmodelled
  | PAccept u =>
    match route (c_bindings c) (u_path u) with
    | None => ExNotFound
    | Some b =>
      (* fresh values are not predicted: the observed ones are fed back and
         judged by the monitor (shape, distinctness, time window) *)
      let e := mkEnv (o_client_ip o) (rq_tls rq) (hget K_rid (o_theaders o)) (hget K_rstart (o_theaders o)) in
      let ph := proxy_headers e (b_forward b) (rq_host rq) (rq_headers rq) in
      let th := wire_headers (rq_method rq) ph in
      let gz := gzip_decoded (rq_method rq) ph (resp_canonical (rs_headers rs)) && is_some (rs_gunzipped rs) in
      let rbody := if gz then match rs_gunzipped rs with Some g => g | None => rs_body rs end else rs_body rs in
      let '(rh, sniff, date) := client_headers (rs_status rs) gz (negb (is_empty rbody)) (rs_headers rs) in
      (* sniffing is certain only when the response length is known up front *)
      let certain := sniff && negb gz && negb (rs_chunked rs) in
      ExForward (b_svc b) (forward_target (matched_prefix (b_strip b) (b_prefix b)) u) th rh sniff certain date rbody
    end
  end.

(** Remove a header the server adds on its own (exactly one value expected). *)
Definition drop_added (k : str) (added : bool) (h : headers) : option headers :=
  if added then (if Nat.eqb (length (hvalues k h)) 1 then Some (hdel k h) else None) else Some h.

Definition agree (c : ccase) : bool :=
  let rq := c_req c in let rs := c_resp c in let o := c_obs c in
  match model c with
  | ExReject => negb (o_hit o) && (o_status o =? 400)
  | ExNotFound => negb (o_hit o) && (o_status o =? 404)
  | ExUnmodelled => false
  | ExForward svc target th rh sniff certain date rbody =>
    o_hit o && (o_svc o =? svc)
    && str_eqb (o_method o) (rq_method rq) && str_eqb (o_target o) target && str_eqb (o_host o) (rq_host rq)
    && headers_eqb (o_theaders o) th && str_eqb (o_tbody o) (rq_body rq)
    && (o_status o =? rs_status rs) && statuses_eqb (o_early o) (rs_early rs)
    && match drop_added K_date date (o_headers o) with
       | Some h1 => (match drop_added K_ct sniff h1 with
                     | Some h2 => headers_eqb h2 rh
                     | None => false
                     end)
                    || (sniff && negb certain && headers_eqb h1 rh)
       | None => false
       end
    && str_eqb (o_body o) rbody
  end.

(** ** Monitor: the property, clause by clause, on one observed exchange *)

Definition nonempty_or_slash (s : str) : str := if is_empty s then [slash] else s.

(** Headers that are not "end-to-end headers the client sent": hop-by-hop,
    forwarding headers, framing, and the two the proxy manages itself
    (they have their own clauses). *)
Definition req_special : list str :=
  hop_headers ++ [K_forwarded; K_xff; K_xfh; K_xfp; K_host; K_cl; K_te; K_rid; K_rstart].

Definition sent_of (rq : creq) : headers := resp_canonical (rq_headers rq).

Fixpoint dedup (l : list str) : list str :=
  match l with
  | [] => []
  | x :: r => if mem_str x r then dedup r else x :: dedup r
  end.

Definition failing_header_keys (sent oth : headers) : list str :=
  filter (fun k => negb (mem_str k req_special) && negb (mem_str k (connection_listed sent))
                   && negb (strs_eqb (hvalues k oth) (hvalues k sent)))
         (dedup (keys_of sent)).

Definition is_lower_hex (c : byte) : bool := is_digit c || in_range 97 102 c.
Fixpoint uuid_aux (i : nat) (s : str) : bool :=
  match s with
  | [] => Nat.eqb i 36
  | c :: r =>
    (if Nat.eqb i 8 || Nat.eqb i 13 || Nat.eqb i 18 || Nat.eqb i 23 then byte_eqb c x2d
     else if Nat.eqb i 14 then byte_eqb c x34
     else is_lower_hex c) && uuid_aux (S i) r
  end.
Definition uuid_shape (s : str) : bool := uuid_aux 0 s.
Definition millis_shape (s : str) : bool := Nat.eqb (length s) 13 && forallb is_digit s.

Record verdict := mkVerdict {
  v_method : bool; v_path : bool; v_query : bool; v_host : bool; v_headers : bool; v_body : bool;
  v_xff : bool; v_rid : bool; v_rstart : bool; v_status : bool; v_rheaders : bool; v_rbody : bool }.

Definition all_ok (v : verdict) : bool :=
  v_method v && v_path v && v_query v && v_host v && v_headers v && v_body v
  && v_xff v && v_rid v && v_rstart v && v_status v && v_rheaders v && v_rbody v.

Definition ok_verdict : verdict := mkVerdict true true true true true true true true true true true true.

(** The path the property demands at the target; [None]: no demand (the client
    did not spell the prefix literally). *)
Definition demanded_raw (b : binding) (p : str) : option str :=
  match matched_prefix (b_strip b) (b_prefix b) with
  | None => Some p
  | Some q => if literal_prefix p q && negb (mem_byte pct q) then Some (skipn (length q) p) else None
  end.

Definition proxy_id_ok (k : str) (shape : str -> bool) (extra : bool) (sent oth : headers) : bool :=
  if is_empty (hget k sent)
  then match hvalues k oth with [v] => shape v && extra | _ => false end
  else strs_eqb (hvalues k oth) (hvalues k sent).

Definition strict_rheaders (rs : cresp) : headers := hdel K_cl (remove_hop_by_hop (resp_canonical (rs_headers rs))).
Definition date_adjusted (exp oh : headers) : headers := if hhas K_date exp then oh else hdel K_date oh.

Definition judge (c : ccase) : verdict :=
  let rq := c_req c in let rs := c_resp c in let o := c_obs c in
  if negb (o_hit o) then ok_verdict else
  let sent := sent_of rq in
  let oth := o_theaders o in
  let p := raw_path_of (rq_target rq) in
  let ob := find_svc (c_bindings c) (o_svc o) in
  mkVerdict
    (str_eqb (o_method o) (rq_method rq))
    (match ob with
     | Some b => match demanded_raw b p with
                 | Some r => str_eqb (raw_path_of (o_target o)) (nonempty_or_slash r)
                 | None => true
                 end
     | None => false
     end)
    (str_eqb (query_suffix_of (o_target o)) (query_suffix_of (rq_target rq)))
    (str_eqb (o_host o) (rq_host rq))
    (is_empty (failing_header_keys sent oth))
    (str_eqb (o_tbody o) (rq_body rq))
    (match ob with
     | Some b =>
       let fwd := b_forward b in
       strs_eqb (hvalues K_xff oth) [join comma_space ((if fwd then hvalues K_xff sent else []) ++ [o_client_ip o])]
       && strs_eqb (hvalues K_xfp oth)
                   [if fwd && negb (is_empty (hget K_xfp sent)) then hget K_xfp sent else proto_of (rq_tls rq)]
       && strs_eqb (hvalues K_xfh oth)
                   [if fwd && negb (is_empty (hget K_xfh sent)) then hget K_xfh sent else rq_host rq]
     | None => false
     end)
    (proxy_id_ok K_rid uuid_shape (o_rid_unique o) sent oth)
    (proxy_id_ok K_rstart millis_shape (o_start_in_window o) sent oth)
    ((o_status o =? rs_status rs) && statuses_eqb (o_early o) (rs_early rs))
    (let exp := strict_rheaders rs in headers_eqb (date_adjusted exp (o_headers o)) exp)
    (str_eqb (o_body o) (rs_body rs)).

Definition monitor (c : ccase) : bool := all_ok (judge c).

(** ** Known findings: narrow patterns that explain one failing clause each *)

(** C13-F1: the raw path holds a byte outside net/url's valid-encoded set and
    what the target received is the default re-encoding of the demanded path. *)
Definition known_f1 (c : ccase) : bool :=
  let rq := c_req c in let o := c_obs c in
  let p := raw_path_of (rq_target rq) in
  negb (valid_encoded p) &&
  match find_svc (c_bindings c) (o_svc o) with
  | Some b => match demanded_raw b p with
              | Some r => match unescape r with
                          | Some d => str_eqb (raw_path_of (o_target o)) (nonempty_or_slash (escape d))
                          | None => false
                          end
              | None => false
              end
  | None => false
  end.

(** C13-F3: the client sent no Accept-Encoding (nor Range, not HEAD), the
    target answered Content-Encoding: gzip; the client got the decoded body and
    no Content-Encoding.  (The decoding itself is supplied with the case.) *)
Definition f3_cond (c : ccase) : bool :=
  let rq := c_req c in let rs := c_resp c in
  let sent := sent_of rq in
  is_empty (hget K_ae sent) && is_empty (hget K_range sent) && negb (str_eqb (rq_method rq) (bs "HEAD"))
  && ascii_eq_fold (hget K_ce (strict_rheaders rs)) (bs "gzip") && is_some (rs_gunzipped rs).

Definition f3_headers (c : ccase) : headers :=
  if f3_cond c then hdel K_ce (strict_rheaders (c_resp c)) else strict_rheaders (c_resp c).

(** C13-F6: net/http's server drops Content-Type from a 304. *)
Definition f6_cond (c : ccase) : bool := (rs_status (c_resp c) =? 304) && hhas K_ct (f3_headers c).
Definition f6_headers (c : ccase) : headers := if f6_cond c then hdel K_ct (f3_headers c) else f3_headers c.

(** C13-F2: the target sent no Content-Type with a non-empty body; the only
    header difference is one added Content-Type. *)
Definition f2_cond (c : ccase) : bool :=
  negb (hhas K_ct (f6_headers c)) && negb (is_empty (o_body (c_obs c)))
  && Nat.eqb (length (hvalues K_ct (o_headers (c_obs c)))) 1.

Definition rheaders_explained (c : ccase) : bool :=
  let exp := f6_headers c in
  let oh := o_headers (c_obs c) in
  (f3_cond c || f6_cond c || f2_cond c) &&
  (headers_eqb (date_adjusted exp (if f2_cond c then hdel K_ct oh else oh)) exp
   || headers_eqb (date_adjusted exp oh) exp).

(** Whether F2 is needed to explain the response headers. *)
Definition rheaders_uses_f2 (c : ccase) : bool :=
  negb (headers_eqb (date_adjusted (f6_headers c) (o_headers (c_obs c))) (f6_headers c)) && f2_cond c.

Definition rbody_explained (c : ccase) : bool :=
  f3_cond c && match rs_gunzipped (c_resp c) with Some g => str_eqb (o_body (c_obs c)) g | None => false end.

(** C13-F4: User-Agent is written once, from the first value, and not at all
    when that is empty.  C13-F3 on the request side: the Transport appends
    "Accept-Encoding: gzip" when the client's (first) Accept-Encoding is empty. *)
Definition key_explained (sent oth : headers) (k : str) : bool :=
  (str_eqb k K_ua && strs_eqb (hvalues K_ua oth) (if is_empty (hget K_ua sent) then [] else [hget K_ua sent]))
  || (str_eqb k K_ae && is_empty (hget K_ae sent) && strs_eqb (hvalues K_ae oth) (hvalues K_ae sent ++ [bs "gzip"])).

Definition headers_explained (c : ccase) : bool :=
  let sent := sent_of (c_req c) in let oth := o_theaders (c_obs c) in
  forallb (key_explained sent oth) (failing_header_keys sent oth).

Definition failing_has (k : str) (c : ccase) : bool :=
  mem_str k (failing_header_keys (sent_of (c_req c)) (o_theaders (c_obs c))).

(** C13-F5: the client named X-Request-Id / X-Request-Start in Connection; the
    proxy drops it as hop-by-hop after the middleware had set it. *)
Definition known_f5 (k : str) (c : ccase) : bool :=
  let sent := sent_of (c_req c) in
  mem_str k (connection_listed sent) && is_empty (hvalues k (o_theaders (c_obs c))).

(** The patterns as predicates on a whole case: finding Fn is matched when it
    explains a clause that fails on this case. *)
Definition rh_explained (c : ccase) : bool := negb (v_rheaders (judge c)) && rheaders_explained c.
Definition hd_explained (c : ccase) : bool := negb (v_headers (judge c)) && headers_explained c.
Definition known_f1_hit (c : ccase) : bool := negb (v_path (judge c)) && known_f1 c.
Definition known_f2 (c : ccase) : bool := rh_explained c && rheaders_uses_f2 c.
Definition known_f3 (c : ccase) : bool :=
  (rh_explained c && f3_cond c) || (negb (v_rbody (judge c)) && rbody_explained c)
  || (hd_explained c && failing_has K_ae c).
Definition known_f4 (c : ccase) : bool := hd_explained c && failing_has K_ua c.
Definition known_f5_hit (c : ccase) : bool :=
  (negb (v_rid (judge c)) && known_f5 K_rid c) || (negb (v_rstart (judge c)) && known_f5 K_rstart c).
Definition known_f6 (c : ccase) : bool := rh_explained c && f6_cond c.

(** Bit mask of the findings that explain the failing clauses (F1..F6 = 1, 2, 4,
    8, 16, 32); bit 128 is set when some failing clause is explained by none of
    them.  Second component: bit mask of the failing clauses. *)
Definition diagnose (c : ccase) : N * N :=
  let v := judge c in
  let clause (ok : bool) (bit : N) := if ok then 0 else bit in
  let failed :=
    clause (v_method v) 1 + clause (v_path v) 2 + clause (v_query v) 4 + clause (v_host v) 8
    + clause (v_headers v) 16 + clause (v_body v) 32 + clause (v_xff v) 64 + clause (v_rid v) 128
    + clause (v_rstart v) 256 + clause (v_status v) 512 + clause (v_rheaders v) 1024 + clause (v_rbody v) 2048 in
  let un (ok explained : bool) := negb ok && negb explained in
  let unexplained :=
    negb (v_method v) || un (v_path v) (known_f1 c) || negb (v_query v) || negb (v_host v)
    || un (v_headers v) (headers_explained c) || negb (v_body v) || negb (v_xff v)
    || un (v_rid v) (known_f5 K_rid c) || un (v_rstart v) (known_f5 K_rstart c)
    || negb (v_status v) || un (v_rheaders v) (rheaders_explained c) || un (v_rbody v) (rbody_explained c) in
  let used (cond : bool) (bit : N) := if cond then bit else 0 in
  let findings :=
    used (known_f1_hit c) 1 + used (known_f2 c) 2 + used (known_f3 c) 4 + used (known_f4 c) 8
    + used (known_f5_hit c) 16 + used (known_f6 c) 32 + used unexplained 128 in
  (findings, failed).

(** (agrees with the model, satisfies the monitor) *)
Definition check_case (c : ccase) : bool * bool := (agree c, monitor c).

Fixpoint failures_aux (cs : list ccase) (n : nat) : list (nat * bool * bool * N * N) :=
  match cs with
  | [] => []
  | c :: r =>
    let '(a, m) := check_case c in
    if a && m then failures_aux r (S n)
    else let '(f, cl) := diagnose c in (n, a, m, f, cl) :: failures_aux r (S n)
  end.
Definition failures (cs : list ccase) := failures_aux cs 0.

(** Which model branches a list of cases exercises (for the coverage record):
    rejected, not found, forwarded without / with stripping, unmodelled. *)
Fixpoint branch_counts (cs : list ccase) (acc : N * N * N * N * N) : N * N * N * N * N :=
  match cs with
  | [] => acc
  | c :: r =>
    let '(rej, nf, plain, strip, un) := acc in
    branch_counts r
      match parse_request_target (rq_target (c_req c)) with
      | PReject => (rej + 1, nf, plain, strip, un)
      | PUnmodelled => (rej, nf, plain, strip, un + 1)
      | PAccept u =>
        match route (c_bindings c) (u_path u) with
        | None => (rej, nf + 1, plain, strip, un)
        | Some b => match matched_prefix (b_strip b) (b_prefix b) with
                    | None => (rej, nf, plain + 1, strip, un)
                    | Some _ => (rej, nf, plain, strip + 1, un)
                    end
        end
      end
  end.
