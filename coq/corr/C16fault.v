(** C16fault.v — the TLS policy across a restart at which the certificate files are unreadable.

    A service deployed with TLS and redirect and a static certificate; at the
    next start the certificate pair cannot be read.  Whatever the restore does
    with that (the pinned code rejects the saved state: the proxy comes up
    empty), C16's policy must not be silently dropped: a plain-HTTP request for
    the service's host is answered 301 or — nothing restored — 404, never
    forwarded; a TLS request is forwarded (200) or 404. *)
From KP Require Import model.Base.
From Coq Require Import NArith Bool List.
Import ListNotations.
Local Open Scope N_scope.

(** over TLS?, status, forwarded to a target? *)
Definition fault_obs := (bool * N * bool)%type.

Definition fault_req_ok (o : fault_obs) : bool :=
  let '(tls, status, forwarded) := o in
  if tls then ((status =? 200) && forwarded) || ((status =? 404) && negb forwarded)
  else negb forwarded && ((status =? 301) || (status =? 404)).

Fixpoint fault_bad_from (l : list fault_obs) (k : nat) : list nat :=
  match l with
  | [] => []
  | o :: r => (if fault_req_ok o then [] else [k]) ++ fault_bad_from r (S k)
  end.

Definition c16_fault_bad (l : list fault_obs) : list nat := fault_bad_from l 0.
