(** C05cmd.v — ownership read against the COMMANDED bindings.

    [c05_ok] (corr/M4corr.v) checks that every (host, prefix) pair of the table in the state file has one owner.  A
    proxy that files two spellings of one prefix ("/api", "api/", "/api/") under different keys is consistent with its
    own state file and still lets a second service take a pair the first one owns.  This monitor rebuilds the table from
    the observed history — the successful deploys and removes, bindings as commanded and normalised as documented (a
    prefix is its path without leading / trailing slashes, with one leading slash) — and demands after every command
    that no pair is owned by two services. *)
From KP Require Import model.Base model.ServiceMap model.Seq corr.M4corr corr.C04cmd.
Local Open Scope N_scope.

Fixpoint c05_cmd_from (l : list cmd_svc) (h : list step_obs) : bool :=
  match h with
  | [] => true
  | o :: r => let l' := cmd_apply l o in pair_owned_once (cmd_table l') && c05_cmd_from l' r
  end.

Definition c05_cmd_ok (h : list step_obs) : bool := c05_cmd_from [] h.
