(** C05cmd.v — ownership read against the COMMANDED bindings.

    [c05_ok] (corr/M4corr.v) checks that every (host, prefix) pair of the table in the state file has one owner.  A
    proxy that files two spellings of one prefix ("/api", "api/", "/api/") under different keys is consistent with its
    own state file and still lets a second service take a pair the first one owns.  This monitor rebuilds the table from
    the observed history — the successful deploys and removes, bindings as commanded and normalised as documented (a
    prefix is its path without leading / trailing slashes, with one leading slash) — and demands after every command
    that no pair is owned by two services. *)
From KP Require Import model.Base model.ServiceMap model.Seq corr.M4corr corr.C04cmd.
Local Open Scope N_scope.

Fixpoint c05_cmd_from (l : list cmd_svc) (h : list step_obs) : bool :=
  match h with
  | [] => true
  | o :: r => let l' := cmd_apply l o in pair_owned_once (cmd_table l') && c05_cmd_from l' r
  end.

Definition c05_cmd_ok (h : list step_obs) : bool := c05_cmd_from [] h.

(** ** "is rejected" reads both ways

    "A deploy that claims a pair owned by a different service is rejected with an error" — and only such a deploy is
    refused for that reason: a deploy answered "host settings conflict with another service" must claim a pair that
    another service owns in the commanded table as it stood before the command, and a deploy that succeeded must not.
    (The other reasons a deploy can fail for — targets, certificate, pages, wildcard with automatic TLS — are none of
    this monitor's business.) *)
Definition cmd_conflicts (l : list cmd_svc) (name : str) (op : sopts) : bool :=
  conflicts (cmd_table l) name (normalize_hosts (o_hosts op)) (normalize_prefixes (o_prefixes op)).

Definition refusal_step_ok (l : list cmd_svc) (o : step_obs) : bool :=
  match so_cmd o, so_result o with
  | Deploy n op _ _, OErr EHostInUse => cmd_conflicts l n op
  | Deploy n op _ _, OOk => negb (cmd_conflicts l n op)
  | _, _ => true
  end.

Fixpoint c05_refusal_from (l : list cmd_svc) (h : list step_obs) : bool :=
  match h with
  | [] => true
  | o :: r => refusal_step_ok l o && c05_refusal_from (cmd_apply l o) r
  end.

Definition c05_refusal_ok (h : list step_obs) : bool := c05_refusal_from [] h.
