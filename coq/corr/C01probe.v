(** C01probe.v — monitor "every probe result is backed by a probe sent to THAT target's own address".

    Property C01 ("a deploy forwards traffic to new targets only after every one of
    them has answered a health probe successfully") rests on the result that decides
    about a target coming from a probe that went to that target's own host.  The
    acceptor model/M5lb.v and the monitor corr/C01corr.v look only at the results
    the proxy APPLIES (KProbeApply); they ignore where the probe went (KProbeSent,
    recorded by the harness's scripted health-check responder with the host the
    probe was addressed to).  A health-check URL resolved against the wrong host
    makes the proxy apply to target B the answers of target A: every KProbeApply on
    B is then matched by a KProbeSent to A's name and none to B's.

    Observable rule, at every point of the trace and for every host name n:
      #(KProbeApply t _ .. with name(t) = n)      <=  #(KProbeSent n _)
      #(KProbeApply t true .. with name(t) = n)   <=  #(KProbeSent n true)
    where name(t) is given by the KTargetName event of t (several target ids may
    share a name: the same host:port deployed again is a new target object).

    Part 1: the specification, written on the trace alone.
    Part 2: the executable monitor [c01_probe_backed_ok] / [c01_probe_backed_fail_at].
    That Part 2 decides Part 1 exactly is proved in proofs/C01probeLink.v
    (statements: props/C01probe.v). *)
From KP Require Import model.Base model.Trace.
Local Open Scope nat_scope.

(** ** Part 1 — specification (no monitor state) *)

(** the host name of target [t] according to the trace [tr]: its (first) KTargetName event *)
Fixpoint name_of (tr : trace) (t : nat) : option str :=
  match tr with
  | [] => None
  | e :: r =>
    match e_k e with
    | KTargetName t' n => if Nat.eqb t t' then Some n else name_of r t
    | _ => name_of r t
    end
  end.

(** [e] is a probe received at host [n] ([need_ok]: ... and answered successfully) *)
Definition probe_sent_to (need_ok : bool) (n : str) (e : event) : bool :=
  match e_k e with
  | KProbeSent m ok => str_eqb m n && (negb need_ok || ok)
  | _ => false
  end.

(** [e] is a probe result ([need_ok]: a successful one) applied to a target whose
    name, according to [env], is [n] *)
Definition result_for (need_ok : bool) (env : trace) (n : str) (e : event) : bool :=
  match e_k e with
  | KProbeApply t ok _ _ =>
    match name_of env t with
    | Some m => str_eqb m n && (negb need_ok || ok)
    | None => false
    end
  | _ => false
  end.

Definition count_sent (n : str) (pre : trace) : nat := length (filter (probe_sent_to false n) pre).
Definition count_sent_ok (n : str) (pre : trace) : nat := length (filter (probe_sent_to true n) pre).
Definition count_applied (n : str) (pre : trace) : nat := length (filter (result_for false pre n) pre).
Definition count_applied_ok (n : str) (pre : trace) : nat := length (filter (result_for true pre n) pre).

(** ** Part 2 — the monitor *)

(** counters keyed by byte strings (absent = 0) *)
Fixpoint sget (l : list (str * nat)) (k : str) : nat :=
  match l with
  | [] => 0
  | (k', v) :: r => if str_eqb k k' then v else sget r k
  end.

Fixpoint sincr (l : list (str * nat)) (k : str) : list (str * nat) :=
  match l with
  | [] => [(k, 1)]
  | (k', v) :: r => if str_eqb k k' then (k', S v) :: r else (k', v) :: sincr r k
  end.

Record pbmon := mkPb {
  pb_names : list (nat * str);     (* target -> host name (KTargetName) *)
  pb_sent : list (str * nat);      (* host name -> probes received there *)
  pb_sent_ok : list (str * nat);   (* host name -> probes answered successfully there *)
  pb_app : list (str * nat);       (* host name -> results applied to targets of that name *)
  pb_app_ok : list (str * nat)     (* host name -> successful results applied to targets of that name *)
}.

Definition pb_init : pbmon := mkPb [] [] [] [] [].

Definition pb_step (m : pbmon) (e : event) : option pbmon :=
  match e_k e with
  | KTargetName t n =>
    match nget (pb_names m) t with
    | Some _ => Some m          (* the first name stands *)
    | None => Some (mkPb (nset (pb_names m) t n) (pb_sent m) (pb_sent_ok m) (pb_app m) (pb_app_ok m))
    end
  | KProbeSent n ok =>
    Some (mkPb (pb_names m) (sincr (pb_sent m) n) (if ok then sincr (pb_sent_ok m) n else pb_sent_ok m)
               (pb_app m) (pb_app_ok m))
  | KProbeApply t ok _ _ =>
    match nget (pb_names m) t with
    | None => None              (* a result for a target without a name *)
    | Some n =>
      if (S (sget (pb_app m) n) <=? sget (pb_sent m) n)
         && (negb ok || (S (sget (pb_app_ok m) n) <=? sget (pb_sent_ok m) n))
      then Some (mkPb (pb_names m) (pb_sent m) (pb_sent_ok m)
                      (sincr (pb_app m) n) (if ok then sincr (pb_app_ok m) n else pb_app_ok m))
      else None
    end
  | _ => Some m
  end.

Definition c01_probe_backed_ok (tr : trace) : bool :=
  match run pb_step pb_init tr with Some _ => true | None => false end.

(** index of the first event at which the monitor fails (always a KProbeApply) *)
Definition c01_probe_backed_fail_at (tr : trace) : option nat := first_reject pb_step pb_init tr 0.

(** statistics for an evidence file: (probes received, successful ones, results applied, successful ones) *)
Definition c01_probe_counts (tr : trace) : nat * nat * nat * nat :=
  fold_left (fun '(a, b, c, d) e =>
    match e_k e with
    | KProbeSent _ ok => (S a, if ok then S b else b, c, d)
    | KProbeApply _ ok _ _ => (a, b, S c, if ok then S d else d)
    | _ => (a, b, c, d)
    end) tr (0, 0, 0, 0).

(** the unbacked results: per host name that has applied results, (name, applied, sent, applied ok, sent ok)
    at the end of the longest accepted prefix — for diagnostics *)
Definition c01_probe_table (tr : trace) : list (str * nat * nat * nat * nat) :=
  let fix go (m : pbmon) (l : trace) : pbmon :=
    match l with
    | [] => m
    | e :: r => match pb_step m e with Some m' => go m' r | None => m end
    end in
  let m := go pb_init tr in
  map (fun '(n, a) => (n, a, sget (pb_sent m) n, sget (pb_app_ok m) n, sget (pb_sent_ok m) n)) (pb_app m).
