(** C14corr.v — correspondence for C14: how the observations made on the real
    code (harness/c14_test.go) are compared with model/Buffer.v, and the
    monitors (the property, as a predicate on one observed case). *)
From KP Require Import model.Base model.Buffer.
Local Open Scope N_scope.

Definition listN_eqb := list_eqb N.eqb.

(** ** Which responses are event streams

    response_buffer_middleware.go, ShouldSwitchToUnbuffered: the media type is the Content-Type value up to its
    first ';', compared byte for byte with "text/event-stream" - whatever follows the ';' (parameters, however
    sloppy) does not matter, and no other spelling (capitals, a blank before the ';') counts. *)
Fixpoint before_semicolon (s : str) : str :=
  match s with
  | [] => []
  | c :: r => if byte_eqb c x3b then [] else c :: before_semicolon r
  end.

Definition event_stream_type : str :=
  [x74;x65;x78;x74;x2f;x65;x76;x65;x6e;x74;x2d;x73;x74;x72;x65;x61;x6d].      (* "text/event-stream" *)

Definition event_stream_of (content_type : str) : bool := str_eqb (before_semicolon content_type) event_stream_type.

(** ** Buffer level *)

(** One observed write: error class, Overflowed(), sizes of the files in TMPDIR. *)
Record wobs := mkWobs { wo_err : werr; wo_over : bool; wo_files : list N }.

Definition wobs_eqb (a b : wobs) : bool :=
  werr_eqb (wo_err a) (wo_err b) && Bool.eqb (wo_over a) (wo_over b) && listN_eqb (wo_files a) (wo_files b).

Definition files_of (b : buf) : list N := if spill_live b then [disk_written b] else [].

Fixpoint model_steps (b : buf) (chunks : list str) : buf * list wobs :=
  match chunks with
  | [] => (b, [])
  | p :: cs =>
    let '(b1, (_, e)) := write b p in
    let '(b2, os) := model_steps b1 cs in
    (b2, mkWobs e (overflowed b1) (files_of b1) :: os)
  end.

Record buf_obs := mkBufObs {
  bo_steps : list wobs; bo_sent : str; bo_after_close : list N; bo_after_close2 : list N }.

Definition model_buf (maxb maxm : N) (chunks : list str) : buf_obs :=
  let '(b, os) := model_steps (new_buf maxb maxm) chunks in
  let '(b1, sent) := send b in
  let b2 := close b1 in
  mkBufObs os sent (files_of b2) (files_of (close b2)).

Definition buf_obs_eqb (a b : buf_obs) : bool :=
  list_eqb wobs_eqb (bo_steps a) (bo_steps b) && str_eqb (bo_sent a) (bo_sent b) &&
  listN_eqb (bo_after_close a) (bo_after_close b) && listN_eqb (bo_after_close2 a) (bo_after_close2 b).

(** Monitor: the property read off one observed buffer history. *)
Fixpoint steps_ok (maxb maxm : N) (chunks : list str) (os : list wobs) (accepted_total : N) (acc : str)
         (rejected_before : bool)
  : bool * str * bool :=   (* ok, accepted bytes, any rejected *)
  match chunks, os with
  | [], [] => (true, acc, false)
  | p :: cs, o :: os' =>
    let tot := match wo_err o with WOk => accepted_total + lenN p | _ => accepted_total end in
    let acc' := match wo_err o with WOk => acc ++ p | _ => acc end in
    let disk := match wo_files o with [] => 0 | [d] => d | _ => tot + 1 end in
    let here :=
      (disk <=? tot) && (tot - disk <=? maxm)                 (* memory bound; the rest is on disk *)
      && (match wo_files o with [] | [_] => true | _ => false end)
      && ((maxb =? 0) || (tot <=? maxb))                      (* limit enforced *)
      && (match wo_err o with WOk | WMaxExceeded => true | _ => false end)
      && (match wo_err o with WMaxExceeded => wo_over o && (0 <? maxb) && (maxb <? accepted_total + lenN p)
                            | _ => true end)                    (* rejected only when it would exceed *)
      && (negb rejected_before || wo_over o)                    (* an overflow is never forgotten *)
    in
    let rej_now := rejected_before || match wo_err o with WOk => false | _ => true end in
    let '(ok, a, rej) := steps_ok maxb maxm cs os' tot acc' rej_now in
    (here && ok, a, rej || match wo_err o with WOk => false | _ => true end)
  | _, _ => (false, acc, false)
  end.

Definition buf_monitor (maxb maxm : N) (chunks : list str) (o : buf_obs) : bool :=
  let '(ok, acc, rej) := steps_ok maxb maxm chunks (bo_steps o) 0 [] false in
  ok && str_eqb (bo_sent o) acc
  && (rej || str_eqb (bo_sent o) (concat chunks))
  && listN_eqb (bo_after_close o) [] && listN_eqb (bo_after_close2 o) [].

(** ** Target level (request/response buffering through the real Target) *)

Record http_in := mkHttpIn {
  hi_buffer_req : bool; hi_buffer_resp : bool;
  hi_maxm : N; hi_max_req : N; hi_max_resp : N;
  hi_req_chunks : list str; hi_abort : bool;
  hi_resp_status : N; hi_sse : bool; hi_resp_chunks : list str }.

Record http_obs := mkHttpObs {
  ho_status : N; ho_body : str; ho_flushed : bool; ho_hit : bool; ho_got : str; ho_files_after : list N }.

Definition resp_ops (i : http_in) : list hop :=
  HWriteHeader (hi_resp_status i) (hi_sse i) ::
  flat_map (fun p => [HWrite p; HFlush]) (hi_resp_chunks i).

(** Composition of the two middlewares around the (unmodelled) reverse proxy.
    [None] in a field means "not compared" (behaviour of net/http that the
    model does not fix). *)
Record http_exp := mkHttpExp {
  he_status : N; he_body : option str; he_flushed : option bool; he_hit : bool; he_got : str;
  he_files_after : list N }.

Definition model_http (i : http_in) : http_exp :=
  let req_body := concat (hi_req_chunks i) in
  let fwd : option str * list N :=
    if hi_buffer_req i then
      let '(o, b) := req_mw (hi_maxm i) (hi_max_req i) (hi_req_chunks i) (hi_abort i) in
      match o with
      | ReqForward body => (Some body, files_of b)
      | Req413 => (None, files_of b)
      | Req500 => (None, files_of b)
      end
    else (Some req_body, []) in
  match fwd with
  | (None, files) =>
    let st := if hi_buffer_req i then
                match fst (req_mw (hi_maxm i) (hi_max_req i) (hi_req_chunks i) (hi_abort i)) with
                | Req413 => 413 | _ => 500 end else 500 in
    mkHttpExp st None None false [] files
  | (Some body, files) =>
    if hi_buffer_resp i then
      let '(evs, b) := resp_mw (hi_maxm i) (hi_max_resp i) (resp_ops i) in
      let v := client_view_of evs in
      (* an event stream without any body write: ReverseProxy's initial header-flush timer races the end of
         the copy, so whether a Flush reaches the writer is not determined *)
      let fl := if hi_sse i && match concat (hi_resp_chunks i) with [] => true | _ => false end
                then None else Some (0 <? v_flushes v) in
      mkHttpExp (v_status v) (Some (v_body v)) fl true body (files ++ files_of b)
    else
      mkHttpExp (hi_resp_status i) (Some (concat (hi_resp_chunks i))) None true body files
  end.

Definition opt_match {A} (eqb : A -> A -> bool) (e : option A) (o : A) : bool :=
  match e with None => true | Some x => eqb x o end.

Definition http_agree (i : http_in) (o : http_obs) : bool :=
  let e := model_http i in
  (he_status e =? ho_status o) && opt_match str_eqb (he_body e) (ho_body o)
  && opt_match Bool.eqb (he_flushed e) (ho_flushed o)
  && Bool.eqb (he_hit e) (ho_hit o) && str_eqb (he_got e) (ho_got o)
  && listN_eqb (he_files_after e) (ho_files_after o).

Definition too_large (maxb : N) (body : str) : bool := (0 <? maxb) && (maxb <? lenN body).

(** Monitor: C14's statement on one observed exchange. *)
Definition http_monitor (i : http_in) (o : http_obs) : bool :=
  let req_body := concat (hi_req_chunks i) in
  let resp_body := concat (hi_resp_chunks i) in
  let req_ok :=
    if hi_buffer_req i then
      if too_large (hi_max_req i) req_body
      then negb (ho_hit o) && (ho_status o =? 413)
      else if hi_abort i then negb (ho_hit o)
      else ho_hit o && str_eqb (ho_got o) req_body
    else implb (ho_hit o) (str_eqb (ho_got o) req_body) in
  let resp_ok :=
    if ho_hit o then
      if hi_buffer_resp i && negb (hi_sse i) then
        if too_large (hi_max_resp i) resp_body
        then (ho_status o =? 500) && str_eqb (ho_body o) err500_body
        else (ho_status o =? hi_resp_status i) && str_eqb (ho_body o) resp_body
      else (ho_status o =? hi_resp_status i) && str_eqb (ho_body o) resp_body
    else true in
  req_ok && resp_ok && listN_eqb (ho_files_after o) [].

(** Pattern bodies for large cases: [pat start len] is the byte sequence
    (start + i) mod 251 for i < len, generated identically by the harness. *)
Fixpoint pat_aux (cur : N) (n : nat) : str :=
  match n with
  | O => []
  | S n' => (match Byte.of_N cur with Some b => b | None => x00 end)
            :: pat_aux (if cur + 1 =? 251 then 0 else cur + 1) n'
  end.
Definition pat (start len : N) : str := pat_aux (start mod 251) (N.to_nat len).

(** ** Cases and verdicts *)

Inductive c14_case :=
| CaseBuf (maxb maxm : N) (chunks : list str) (o : buf_obs)
| CaseHttp (i : http_in) (o : http_obs)
(* a buffered response torn down after it spilled (target drops the connection / client goes away):
   [during] = spill files seen while the exchange was open, [after] = once the handler has unwound *)
| CaseAbort (maxm pre : N) (during after : list N).

(** (agrees with the model, satisfies the monitor) *)
Definition check_case (c : c14_case) : bool * bool :=
  match c with
  | CaseBuf maxb maxm chunks o => (buf_obs_eqb (model_buf maxb maxm chunks) o, buf_monitor maxb maxm chunks o)
  | CaseHttp i o => (http_agree i o, http_monitor i o)
  | CaseAbort maxm pre during after =>
    (* model: the middleware's deferred Close runs on every path (resp_mw ends in close): nothing is left;
       while open, the spill holds the bytes beyond the memory limit *)
    let b := fst (writes (new_buf 0 maxm) [pat 0 pre]) in
    (* ([during] is sampled while the copy may still be running: only bounded, not compared) *)
    (listN_eqb after (files_of (close b)),
     listN_eqb after [] && forallb (fun d => d <=? disk_written b) during && (length during <=? 1)%nat)
  end.

Fixpoint failures_aux (cs : list c14_case) (n : nat) : list (nat * bool * bool) :=
  match cs with
  | [] => []
  | c :: r =>
    let '(a, m) := check_case c in
    if a && m then failures_aux r (S n) else (n, a, m) :: failures_aux r (S n)
  end.
Definition failures (cs : list c14_case) := failures_aux cs 0.

