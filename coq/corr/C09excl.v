(** C09excl.v — side condition of the link "accepted by model/M5lb.v => [c09_excl_ok]" (corr/C09rot.v).

    [c09_excl_ok] demands that a probe goroutine which applied a FAILING result while its target was in the rotation
    rebuilt last for the target's balancer rebuilds a rotation without that target before it applies its next result.
    The acceptor asks for the rebuild only when the probe result CHANGED the target's state (healthy -> unhealthy);
    with the previous state pinned to the state the model holds (model/M5lb.v, rule KProbeApply) the two agree as long
    as every target in a rebuilt rotation that is neither healthy nor draining got there through a failing probe result
    whose goroutine still owes the rebuild.  Four kinds of events can break that, none of them a probe result of the
    target's own goroutine; [c09_excl_side] replays the state of the exclusion monitor (without its checks) and rejects
    exactly those:

    (w1) [KStateSet t _ new], [new] unhealthy or adding, while [t] is in the rotation rebuilt last for its balancer
         and no goroutine owes its exclusion (Go: the end-of-Drain restore [defer t.updateState(originalState)]
         writing back "unhealthy"/"adding" over a state that a successful probe made healthy meanwhile): the target
         sits in the rotation, not healthy, and no failing probe result will ever change its state again;
    (w2) [KStateSet t _ THealthy] while a goroutine owes the exclusion of [t] (the end-of-Drain restore writing back
         "healthy" over a failed probe result, recorded finding D12): the owed rebuild will contain [t];
    (w3) a probe result for [t] applied by a goroutine other than the one that owes the exclusion of [t] (Go: one
         health-check goroutine per target);
    (w4) a rebuild, by a goroutine that owes the exclusion of [t], of the rotation of a balancer other than the one
         [t] belongs to (Go: the state consumer of a target is its own balancer).

    Writes of "draining" are harmless (a failing result on a draining target is exempt in the monitor), and so are
    writes of "unhealthy"/"adding" to a target outside the rotation rebuilt last, or to one whose exclusion is owed. *)
From KP Require Import model.Base model.Trace corr.C09rot.
Local Open Scope nat_scope.

(** [t] is in the rotation rebuilt last for its balancer, as the exclusion monitor sees it *)
Definition in_last_rot (m : mone) (t : nat) : bool :=
  match nget (e_lb m) t with
  | Some lb => match nget (e_rot m) lb with Some hs => nmem t hs | None => false end
  | None => false
  end.

(** some goroutine owes the exclusion of [t] *)
Definition pending_for (l : list (actor * nat)) (t : nat) : bool := existsb (fun p => Nat.eqb t (snd p)) l.

(** the state of the exclusion monitor after an event ([excl_step] without its checks) *)
Definition excl_next (m : mone) (e : event) : mone :=
  match e_k e with
  | KLbNew lb ts => mkME (fold_left (fun l t => nset l t lb) ts (e_lb m)) (nset (e_rot m) lb []) (e_owe m)
  | KRotation lb hs =>
    mkME (e_lb m) (nset (e_rot m) lb hs) (filter (fun p => negb (actor_eqb (e_by e) (fst p))) (e_owe m))
  | KProbeApply t ok _ new =>
    if ok || tstate_eqb new TDraining then m
    else if in_last_rot m t then mkME (e_lb m) (e_rot m) ((e_by e, t) :: e_owe m) else m
  | _ => m
  end.

Definition side_bad (m : mone) (e : event) : bool :=
  match e_k e with
  | KStateSet t _ THealthy => pending_for (e_owe m) t                                       (* w2 *)
  | KStateSet t _ TDraining => false
  | KStateSet t _ _ => in_last_rot m t && negb (pending_for (e_owe m) t)                    (* w1 *)
  | KProbeApply t _ _ _ =>
    existsb (fun p => Nat.eqb t (snd p) && negb (actor_eqb (e_by e) (fst p))) (e_owe m)     (* w3 *)
  | KRotation lb _ =>
    existsb (fun p => actor_eqb (e_by e) (fst p)
                      && negb (match nget (e_lb m) (snd p) with Some lb' => Nat.eqb lb' lb | None => false end))
            (e_owe m)                                                                       (* w4 *)
  | _ => false
  end.

Definition xs_step (m : mone) (e : event) : option mone :=
  if side_bad m e then None else Some (excl_next m e).

Definition c09_excl_side (tr : trace) : bool :=
  match run xs_step (mkME [] [] []) tr with Some _ => true | None => false end.

Definition c09_excl_side_at (tr : trace) : option nat := first_reject xs_step (mkME [] [] []) tr 0.
