(** C04cmd.v — the routing rule read against the COMMANDED table.

    [c04_ok] (corr/M4corr.v) applies the routing rule to the table read from
    the state file.  That leaves one gap: a proxy that files a service under
    bindings other than the ones the operator gave (e.g. a host re-spelled at
    deploy time) is consistent with its own state file and still routes a
    request for the host as given to the wrong service.  This monitor rebuilds
    the table from the observed history alone — the commands issued and whether
    each reported success — with the bindings exactly as commanded (hosts
    verbatim, [] = the default host; prefixes normalised as documented: leading
    slash, no trailing slash), and demands that every answer of the request
    matrix is the routing rule's choice for THAT table: 404 iff no service is
    chosen, else 200 from a target of the chosen service's last successful
    deploy.  (Services without TLS, running: the C04 generator's tables.) *)
From KP Require Import model.Base model.ServiceMap model.Seq corr.M4corr.
Local Open Scope N_scope.

Record cmd_svc := mkCS { cs_name : str; cs_hosts : list str; cs_prefixes : list str; cs_targets : list str }.

Definition cs_remove (n : str) (l : list cmd_svc) : list cmd_svc :=
  filter (fun s => negb (str_eqb (cs_name s) n)) l.

Definition cmd_apply (l : list cmd_svc) (o : step_obs) : list cmd_svc :=
  match so_result o, so_cmd o with
  | OOk, Deploy n op _ ts =>
      cs_remove n l ++ [mkCS n (normalize_hosts (o_hosts op)) (normalize_prefixes (o_prefixes op)) (map tg_name ts)]
  | OOk, Remove n => cs_remove n l
  | _, _ => l
  end.

Definition cmd_table (l : list cmd_svc) : table :=
  map (fun s => mkBI (cs_name s) (cs_hosts s) (cs_prefixes s)) l.

Definition c04_cmd_req_ok (l : list cmd_svc) (q : request) (o : resp_obs) : bool :=
  match route (cmd_table l) (q_host q) (q_path q) with
  | None => (ro_status o =? 404)
  | Some (n, _) =>
    match find (fun s => str_eqb (cs_name s) n) l with
    | Some s => (ro_status o =? 200) && mem_str (ro_served_by o) (cs_targets s)
    | None => false
    end
  end.

Fixpoint c04_cmd_from (l : list cmd_svc) (h : list step_obs) : bool :=
  match h with
  | [] => true
  | o :: r =>
    let l' := cmd_apply l o in
    forallb (fun qo => c04_cmd_req_ok l' (fst qo) (snd qo)) (so_requests o) && c04_cmd_from l' r
  end.

Definition c04_cmd_ok (h : list step_obs) : bool := c04_cmd_from [] h.
