(** C20corr.v — correspondence for C20: how the observations made on the built
    binary (tools/c20.py) and on getEnvInt/getEnvBool (harness/cmd_c20_test.go)
    are compared with model/Cli.v, and the monitors (the property, as a
    predicate on one observed case). *)
From KP Require Import model.Base model.Cli.

Local Open Scope Z_scope.

Definition opt_is {A} (eqb : A -> A -> bool) (expected : A) (o : option A) : bool :=
  match o with Some x => eqb expected x | None => true end.

(** ** `run` options *)

(** The statement, clause by clause, on one observed value. *)
Definition precedence_ok {A} (eqb : A -> A -> bool) (parse : str -> option A)
           (e : env) (key : str) (flag : option A) (def obs : A) : bool :=
  match flag with
  | Some f => eqb obs f
  | None =>
    match lookup_env e (env_prefix ++ key) with
    | Some s => eqb obs (match parse s with Some v => v | None => def end)
    | None =>
      match lookup_env e key with
      | Some s => eqb obs (match parse s with Some v => v | None => def end)
      | None => eqb obs def
      end
    end
  end.

(** ** `deploy` validation, no proxy listening (or a relay that records the dial) *)

Record deploy_obs := mkDeployObs {
  do_refused : option pre_err;   (* one of the four validation messages on stderr *)
  do_dialed : bool;              (* the socket was dialled (dial error, or the relay saw the connection) *)
  do_fwd : option bool           (* forward_headers in the proxy's state file, when the deploy went through *)
}.

Definition deploy_agree (i : deploy_in) (o : deploy_obs) : bool :=
  match deploy_prerun i with
  | PreRefused e => option_eqb pre_err_eqb (Some e) (do_refused o) && negb (do_dialed o)
                    && is_nil (match do_fwd o with Some b => [b] | None => [] end)
  | PreOk fwd _ _ => negb (is_some (do_refused o)) && do_dialed o && opt_is Bool.eqb fwd (do_fwd o)
  end.

Definition deploy_monitor (i : deploy_in) (o : deploy_obs) : bool :=
  Bool.eqb (is_some (do_refused o)) (should_refuse i) && Bool.eqb (do_dialed o) (negb (should_refuse i)).

(** ** Exit status of a client command *)

Definition exit_agree (validation dial rpc : option str) (code : N) (err : str) : bool :=
  let o := client_outcome validation dial rpc in
  N.eqb (exit_code o) code && str_eqb (stderr_of o) err.

Definition exit_monitor (validation dial rpc : option str) (code : N) : bool :=
  Bool.eqb (negb (N.eqb code 0)) (is_some validation || is_some dial || is_some rpc).

(** ** `list` *)

Definition descs_eqb := list_eqb desc_eqb.

Definition list_agree (svcs : list service) (out : str) : bool := str_eqb (render_list svcs) out.

Definition list_monitor (svcs : list service) (out : str) : bool :=
  match parse_table out with
  | Some ds => descs_eqb ds (sort_by_name (map describe svcs))
  | None => false
  end.

(** ** Cases and verdicts *)

Inductive c20_case :=
| CaseRunInt (key : str) (def : Z) (flag : option Z) (e : env) (obs : Z)
| CaseRunBool (key : str) (def : bool) (flag : option bool) (e : env) (obs : bool)
| CaseDeploy (i : deploy_in) (o : deploy_obs)
| CaseExit (validation dial rpc : option str) (code : N) (err : str)
| CaseList (svcs : list service) (out : str).

(** (agrees with the model, satisfies the monitor) *)
Definition check_case (c : c20_case) : bool * bool :=
  match c with
  | CaseRunInt key def flag e obs =>
    (Z.eqb obs (run_opt_int e key flag def), precedence_ok Z.eqb atoi e key flag def obs)
  | CaseRunBool key def flag e obs =>
    (Bool.eqb obs (run_opt_bool e key flag def), precedence_ok Bool.eqb parse_bool e key flag def obs)
  | CaseDeploy i o => (deploy_agree i o, deploy_monitor i o)
  | CaseExit v d r code err => (exit_agree v d r code err, exit_monitor v d r code)
  | CaseList svcs out => (list_agree svcs out, list_monitor svcs out)
  end.

Fixpoint failures_aux (cs : list c20_case) (n : nat) : list (nat * bool * bool) :=
  match cs with
  | [] => []
  | c :: r =>
    let '(a, m) := check_case c in
    if a && m then failures_aux r (S n) else (n, a, m) :: failures_aux r (S n)
  end.
Definition failures (cs : list c20_case) := failures_aux cs 0.
