(** C06fault.v — C06 under a fault of the file system (the state file cannot be replaced): the monitor on one observed
    command.  [err]: the command reported an error; the three flags: the `list` output, every service's marshalled
    configuration, and a routing sample are what they were before the command. *)
From KP Require Import model.Base.

Record fobs := mkFobs { f_err : bool; f_same_list : bool; f_same_config : bool; f_same_routing : bool }.

(** "If a command reports an error then routing, every service's targets and options, pause and rollout state and the
    list output are what they were before it." *)
Definition c06_fault_ok (o : fobs) : bool :=
  implb (f_err o) (f_same_list o && f_same_config o && f_same_routing o).

(** the model of the pinned code: a failed snapshot is ignored — a command fails under the fault iff it fails without it,
    and a command that succeeds has its usual effect; checked as: the result under the fault equals the result without *)
Definition c06_fault_agrees (result_with_fault result_without : str) : bool := str_eqb result_with_fault result_without.
