(** C01corr.v — correspondence and monitor of property C01.

    Correspondence: the event trace recorded from the real Router / Service /
    LoadBalancer / Target code (harness/sim_test.go, virtual clock) must be a
    behaviour of the acceptor model/M5lb.v: [M5lb.reject_at tr = None].

    Monitor [c01_ok]: the property on the OBSERVED trace alone (no model
    state): a client request is handed to a target (KClaim) only if EITHER every
    target created together with it (same KLbNew) has had a successful probe
    result applied before and the deploy's wait on its balancer has succeeded
    (and not failed), OR its balancer was put into service by an earlier
    KRestored event (a restart: "restored
    targets are presumed healthy until their first probe").  A KRestored event
    may name only balancers that were created by a non-command actor, never
    waited on by a deploy, and whose targets were ALL made healthy by the
    restore (KStateSet adding->healthy) before; a restored balancer is never the
    subject of a deploy's wait.  A service slot is given (KSlot) only to a
    balancer whose wait succeeded, and a balancer whose wait fails has not
    served any request.  (The harness reports a probe as successful only for a
    2xx answer within the probe timeout.  That a restored target leaves the
    rotation after a failed probe like any other is the business of the
    monitors of corr/C09corr.v, which do not distinguish restored balancers.) *)
From KP Require Import model.Base model.Trace model.M5lb.
Local Open Scope nat_scope.

Record mon1 := mkM1 {
  m_tlb : list (nat * nat);          (* target -> balancer (from KLbNew) *)
  m_lbs : list (nat * list nat);     (* balancer -> targets *)
  m_pok : list nat;                  (* targets with a successful probe result *)
  m_lic : list nat;                  (* targets made healthy by a restore (adding->healthy without a probe) *)
  m_wok : list nat;                  (* balancers whose wait succeeded *)
  m_failed : list nat;               (* balancers whose wait failed *)
  m_claimed : list nat;              (* targets that were handed a request *)
  m_cmd : list nat;                  (* balancers created by a command *)
  m_rest : list nat                  (* balancers put into service by a KRestored event *)
}.

Definition m1_init : mon1 := mkM1 [] [] [] [] [] [] [] [] [].

Fixpoint add_tlb (l : list (nat * nat)) (lb : nat) (ts : list nat) : list (nat * nat) :=
  match ts with
  | [] => l
  | t :: r => add_tlb (nset l t lb) lb r
  end.

Definition is_cmd (a : actor) : bool := match a with ACmd _ => true | _ => false end.

(** may a KRestored event name this balancer? *)
Definition m1_restorable (m : mon1) (lb : nat) : bool :=
  match nget (m_lbs m) lb with
  | Some ts =>
    negb (nmem lb (m_cmd m)) && negb (nmem lb (m_wok m)) && negb (nmem lb (m_failed m))
    && forallb (fun t => nmem t (m_lic m)) ts
  | None => false
  end.

Definition c01_step (m : mon1) (e : event) : option mon1 :=
  match e_k e with
  | KLbNew lb ts =>
    Some (mkM1 (add_tlb (m_tlb m) lb ts) (nset (m_lbs m) lb ts) (m_pok m) (m_lic m) (m_wok m) (m_failed m) (m_claimed m)
               (if is_cmd (e_by e) then lb :: m_cmd m else m_cmd m) (m_rest m))
  | KProbeApply t true _ _ =>
    Some (mkM1 (m_tlb m) (m_lbs m) (t :: m_pok m) (m_lic m) (m_wok m) (m_failed m) (m_claimed m) (m_cmd m) (m_rest m))
  | KStateSet t TAdding THealthy =>
    Some (mkM1 (m_tlb m) (m_lbs m) (m_pok m) (t :: m_lic m) (m_wok m) (m_failed m) (m_claimed m) (m_cmd m) (m_rest m))
  | KRestored _ act roll =>
    let lbs := opt_list act ++ opt_list roll in
    if negb (is_cmd (e_by e)) && forallb (m1_restorable m) lbs
    then Some (mkM1 (m_tlb m) (m_lbs m) (m_pok m) (m_lic m) (m_wok m) (m_failed m) (m_claimed m) (m_cmd m) (lbs ++ m_rest m))
    else None
  | KDeployWaited lb true =>
    if nmem lb (m_rest m) then None
    else Some (mkM1 (m_tlb m) (m_lbs m) (m_pok m) (m_lic m) (lb :: m_wok m) (m_failed m) (m_claimed m) (m_cmd m) (m_rest m))
  | KDeployWaited lb false =>
    let ts := match nget (m_lbs m) lb with Some ts => ts | None => [] end in
    if nmem lb (m_rest m) || existsb (fun t => nmem t (m_claimed m)) ts then None
    else Some (mkM1 (m_tlb m) (m_lbs m) (m_pok m) (m_lic m) (m_wok m) (lb :: m_failed m) (m_claimed m) (m_cmd m) (m_rest m))
  | KSlot _ _ lb _ => if nmem lb (m_wok m) then Some m else None
  | KClaim t _ =>
    match nget (m_tlb m) t with
    | Some lb =>
      match nget (m_lbs m) lb with
      | Some ts =>
        if nmem lb (m_rest m)
           || (forallb (fun t' => nmem t' (m_pok m)) ts && nmem lb (m_wok m) && negb (nmem lb (m_failed m)))
        then Some (mkM1 (m_tlb m) (m_lbs m) (m_pok m) (m_lic m) (m_wok m) (m_failed m) (t :: m_claimed m) (m_cmd m) (m_rest m))
        else None
      | None => None
      end
    | None => None
    end
  | _ => Some m
  end.

Definition c01_ok (tr : trace) : bool :=
  match run c01_step m1_init tr with Some _ => true | None => false end.

(** index of the first event at which the monitor fails *)
Definition c01_fail_at (tr : trace) : option nat := first_reject c01_step m1_init tr 0.

(** statistics for the evidence file: claims, successful waits, failed waits, balancers *)
Definition c01_counts (tr : trace) : nat * nat * nat * nat :=
  fold_left (fun '(a, b, c, d) e =>
    match e_k e with
    | KClaim _ _ => (S a, b, c, d)
    | KDeployWaited _ true => (a, S b, c, d)
    | KDeployWaited _ false => (a, b, S c, d)
    | KLbNew _ _ => (a, b, c, S d)
    | _ => (a, b, c, d)
    end) tr (0, 0, 0, 0).

(** ** The timeout side (monitor only; the timing view belongs to C17)

    [c01_deadline_ok check_fail tr]: a deploy's wait ends no later than its
    deadline (creation time of the balancer + deploy timeout, from KParams); it
    succeeds only if every target had a successful probe result by then; and
    (when [check_fail]: scenarios that do not park probe goroutines between the
    result and the rotation rebuild) it fails only at the deadline and only if
    some target had no successful probe result strictly before it. *)
Record dlmon := mkDl {
  d_to : list (nat * N);                   (* command -> deploy timeout *)
  d_lbs : list (nat * (N * list nat));     (* balancer -> deadline, targets *)
  d_first : list (nat * N)                 (* target -> time of its first successful probe result *)
}.

Definition dl_step (check_fail : bool) (m : dlmon) (e : event) : option dlmon :=
  match e_k e with
  | KParams c dt _ _ => Some (mkDl (nset (d_to m) c dt) (d_lbs m) (d_first m))
  | KLbNew lb ts =>
    match e_by e with
    | ACmd c =>
      match nget (d_to m) c with
      | Some dt => Some (mkDl (d_to m) (nset (d_lbs m) lb ((e_t e + dt)%N, ts)) (d_first m))
      | None => Some m
      end
    | _ => Some m
    end
  | KProbeApply t true _ _ =>
    match nget (d_first m) t with
    | Some _ => Some m
    | None => Some (mkDl (d_to m) (d_lbs m) (nset (d_first m) t (e_t e)))
    end
  | KDeployWaited lb ok =>
    match nget (d_lbs m) lb with
    | None => Some m
    | Some (dl, ts) =>
      if ok then
        if N.leb (e_t e) dl && forallb (fun t => match nget (d_first m) t with Some x => N.leb x dl | None => false end) ts
        then Some m else None
      else
        if negb check_fail
           || (N.eqb (e_t e) dl && existsb (fun t => match nget (d_first m) t with Some x => N.leb dl x | None => true end) ts)
        then Some m else None
    end
  | _ => Some m
  end.

Definition c01_deadline_ok (check_fail : bool) (tr : trace) : bool :=
  match run (dl_step check_fail) (mkDl [] [] []) tr with Some _ => true | None => false end.

Definition c01_deadline_fail_at (check_fail : bool) (tr : trace) : option nat :=
  first_reject (dl_step check_fail) (mkDl [] [] []) tr 0.
