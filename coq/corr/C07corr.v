(** C07corr.v — correspondence and monitor of property C07 on the event traces
    recorded from the real router (harness/sim_test.go, model/Trace.v).

    - correspondence: the trace must be accepted by the gate view
      ([M5gate.gate_accepts]) and by the path view ([M5path.path_accepts]);
    - the monitor [c07_check]: the property itself, judged per request on the
      OBSERVED trace and the scenario data (which requests are GET on the
      health-check path) alone.  It does not use the acceptors.  The state of a
      service NAME is what the operator commanded: each pause / stop / resume
      command takes effect at its gate-set event;
    - [known_d3], [known_d2], [known_ov]: the narrow decidable patterns of the
      known findings (known_findings/C07.json).  *)
From KP Require Import model.Base model.Trace.
Local Open Scope N_scope.

(** ** Indexed, slimmed trace *)

Definition relevant (e : event) : bool :=
  match e_k e with
  | KIssue _ _ _ | KParams _ _ _ _ | KReturn _ _ | KRespond _ _ _ | KRouted _ _ | KSvcCopy _ _
  | KInstall _ _ | KRemoved _ | KPick _ _ _ | KGateSet _ _ _ | KGateRead _ _ _ | KGateWake _ _
  | KGateResult _ _ _ | KLbClaim _ _ _ | KClaim _ _ | KClaimRefused _ _ | KSvcName _ _ => true
  | _ => false
  end.

Fixpoint index_from {A} (n : nat) (l : list A) : list (nat * A) :=
  match l with
  | [] => []
  | x :: r => (n, x) :: index_from (S n) r
  end.

Definition itrace := list (nat * event).
Definition slim (tr : trace) : itrace := index_from 0 (filter relevant tr).

(** ** Commands *)

Fixpoint cmd_info (tr : itrace) (c : nat) : option (cmdkind * str) :=
  match tr with
  | [] => None
  | (_, e) :: r => match e_k e with
                   | KIssue c' k n => if Nat.eqb c c' then Some (k, n) else cmd_info r c
                   | _ => cmd_info r c
                   end
  end.

Fixpoint cmd_fail (tr : itrace) (c : nat) : N :=
  match tr with
  | [] => 0
  | (_, e) :: r => match e_k e with
                   | KParams c' _ _ fa => if Nat.eqb c c' then fa else cmd_fail r c
                   | _ => cmd_fail r c
                   end
  end.

Fixpoint cmd_return (tr : itrace) (c : nat) : option nat :=
  match tr with
  | [] => None
  | (i, e) :: r => match e_k e with
                   | KReturn c' _ => if Nat.eqb c c' then Some i else cmd_return r c
                   | _ => cmd_return r c
                   end
  end.

Definition commanded (k : cmdkind) : option gstate :=
  match k with
  | CkPause => Some GPaused
  | CkStop => Some GStopped
  | CkResume => Some GRunning
  | _ => None
  end.

Fixpoint svc_name (tr : itrace) (s : nat) : str :=
  match tr with
  | [] => []
  | (_, e) :: r => match e_k e with
                   | KSvcName s' n => if Nat.eqb s s' then n else svc_name r s
                   | _ => svc_name r s
                   end
  end.

(** ** The commanded history of a service name *)

(** one pause / stop / resume command taking effect *)
Record nev := mkNev { ne_pos : nat; ne_t : N; ne_st : gstate; ne_fail : N; ne_cmd : nat; ne_rep : gstate }.

Definition name_sets (tr : itrace) (n : str) : list nev :=
  flat_map (fun ie =>
    match e_k (snd ie), e_by (snd ie) with
    | KGateSet _ st _, ACmd c =>
      match cmd_info tr c with
      | Some (k, n') =>
        if str_eqb n n' then
          match commanded k with
          | Some cs => [mkNev (fst ie) (e_t (snd ie)) cs (cmd_fail tr c) c st]
          | None => []
          end
        else []
      | None => []
      end
    | _, _ => []
    end) tr.

(** commanded state just before position [p] *)
Fixpoint state_before (l : list nev) (p : nat) (acc : gstate) : gstate :=
  match l with
  | [] => acc
  | x :: r => if Nat.ltb (ne_pos x) p then state_before r p (ne_st x) else acc
  end.

(** max-pause in force just before position [p]: the argument of the last pause command *)
Fixpoint fail_before (l : list nev) (p : nat) (acc : N) : N :=
  match l with
  | [] => acc
  | x :: r => if Nat.ltb (ne_pos x) p
              then fail_before r p (match ne_st x with GPaused => ne_fail x | _ => acc end)
              else acc
  end.

(** the commands that made the name LEAVE the paused state (resume or stop of a paused service) *)
Fixpoint leaves (l : list nev) (cur : gstate) : list nev :=
  match l with
  | [] => []
  | x :: r => (match cur, ne_st x with
               | GPaused, GPaused => []
               | GPaused, _ => [x]
               | _, _ => []
               end) ++ leaves r (ne_st x)
  end.

(** is the name not running at some position in [a, b] ? *)
Definition nonrunning_within (l : list nev) (a b : nat) : bool :=
  negb (gstate_eqb (state_before l a GRunning) GRunning) ||
  existsb (fun x => Nat.leb a (ne_pos x) && Nat.leb (ne_pos x) b && negb (gstate_eqb (ne_st x) GRunning)) l.

(** installs / removals of the name: position and object *)
Definition name_installs (tr : itrace) (n : str) : list (nat * option nat) :=
  flat_map (fun ie =>
    match e_k (snd ie) with
    | KInstall s true => if str_eqb (svc_name tr s) n then [(fst ie, Some s)] else []
    | KRemoved s => if str_eqb (svc_name tr s) n then [(fst ie, None)] else []
    | _ => []
    end) tr.

Fixpoint installed_before (l : list (nat * option nat)) (p : nat) (acc : option nat) : option nat :=
  match l with
  | [] => acc
  | (i, s) :: r => if Nat.ltb i p then installed_before r p s else acc
  end.

(** ** The events of one request *)

Definition concerns (r : nat) (e : event) : bool :=
  match e_k e with
  | KGateRead _ _ _ | KGateWake _ _ => actor_eqb (e_by e) (AReq r)
  | KGateResult r' _ _ | KRespond r' _ _ | KPick r' _ _ | KLbClaim _ _ r' | KClaim _ r' | KClaimRefused _ r'
  | KRouted r' _ => Nat.eqb r r'
  | _ => false
  end.

Definition req_evs (tr : itrace) (r : nat) : itrace := filter (fun ie => concerns r (snd ie)) tr.

Definition is_path (e : event) : bool :=
  match e_k e with
  | KPick _ _ _ | KLbClaim _ _ _ | KClaim _ _ | KClaimRefused _ _ => true
  | _ => false
  end.

Definition first_routed (l : itrace) : option (nat * nat) :=
  match l with
  | (i, e) :: _ => match e_k e with KRouted _ (Some s) => Some (i, s) | _ => None end
  | [] => None
  end.

(** position at which the gate opened for the request: its read of a running
    gate, or - if it parked - the resume / stop that closed its generation (the
    first command after its read that made the service leave the paused state);
    only for requests that Wait let proceed *)
Fixpoint read_pos (l : itrace) : option (nat * gstate) :=
  match l with
  | [] => None
  | (i, e) :: r => match e_k e with KGateRead _ st _ => Some (i, st) | _ => read_pos r end
  end.

Definition proceeded (l : itrace) : bool :=
  existsb (fun ie => match e_k (snd ie) with KGateResult _ _ AProceed => true | _ => false end) l.

Definition pass_pos (sets : list nev) (l : itrace) : option nat :=
  if proceeded l then
    match read_pos l with
    | Some (i, GPaused) =>
      match filter (fun x => Nat.ltb i (ne_pos x)) (leaves sets GRunning) with
      | x :: _ => Some (ne_pos x)
      | [] => None
      end
    | Some (i, _) => Some i
    | None => None
    end
  else None.

Fixpoint first_claimish (l : itrace) : option nat :=
  match l with
  | [] => None
  | (i, e) :: r => match e_k e with KLbClaim _ _ _ | KClaim _ _ | KClaimRefused _ _ => Some i | _ => first_claimish r end
  end.

Fixpoint respond_pos (l : itrace) : option nat :=
  match l with
  | [] => None
  | (i, e) :: r => match e_k e with KRespond _ _ _ => Some i | _ => respond_pos r end
  end.

(** ** Known findings: narrow patterns on the trace *)

(** D3: the gate opened for the request, THEN a pause / stop of its service took
    effect, and the request reached the load balancer only after that. *)
Definition known_d3 (tr : itrace) (r : nat) : bool :=
  let l := req_evs tr r in
  match first_routed l with
  | Some (_, s) =>
    let sets := name_sets tr (svc_name tr s) in
    match pass_pos sets l, first_claimish l with
    | Some g, Some k =>
      existsb (fun x => Nat.ltb g (ne_pos x) && Nat.ltb (ne_pos x) k && negb (gstate_eqb (ne_st x) GRunning)) sets
    | _, _ => false
    end
  | None => false
  end.

(** D2: between the routing of the request and its claim of a target (or its
    answer) another service object was installed under its service's name (or
    the service was removed): the request goes on with the replaced object. *)
Definition known_d2 (tr : itrace) (r : nat) : bool :=
  let l := req_evs tr r in
  match first_routed l with
  | Some (i, s) =>
    let stop := match first_claimish l with
                | Some k => k
                | None => match respond_pos l with Some k => k | None => 0%nat end
                end in
    existsb (fun ps => Nat.ltb i (fst ps) && Nat.ltb (fst ps) stop) (name_installs tr (svc_name tr s))
  | None => false
  end.

(** overlap: the gate let the request pass while a pause / stop command of its
    service had taken effect but not yet returned (a resume was issued while
    the pause was still draining). *)
Definition known_ov (tr : itrace) (r : nat) : bool :=
  let l := req_evs tr r in
  match first_routed l with
  | Some (_, s) =>
    let sets := name_sets tr (svc_name tr s) in
    match pass_pos sets l with
    | Some g =>
      existsb (fun x => negb (gstate_eqb (ne_st x) GRunning) && Nat.ltb (ne_pos x) g &&
                        match cmd_return tr (ne_cmd x) with Some j => Nat.ltb g j | None => true end) sets
    | None => false
    end
  | None => false
  end.

(** ** The monitor *)

(** failure codes *)
Definition F_once : N := 1.          (* not answered exactly once *)
Definition F_shortcut : N := 2.      (* answered without consulting the gate, but not a health-check 200 of a non-running service *)
Definition F_read : N := 3.          (* the gate showed a state different from the commanded one *)
Definition F_health : N := 4.        (* GET health path while not running did not get the proxy's own 200 *)
Definition F_held : N := 5.          (* a parked request was not simply held until one wake *)
Definition F_chanwake : N := 6.      (* released although no resume / stop came after its arrival *)
Definition F_timer : N := 7.         (* timed out at a time other than arrival + max-pause in force at arrival *)
Definition F_late : N := 8.          (* timed out although a resume / stop had come earlier *)
Definition F_result : N := 9.        (* gate result inconsistent with the path taken *)
Definition F_status : N := 10.       (* status inconsistent with the gate result *)
Definition F_forward : N := 11.      (* forwarded to a target while the service was commanded paused / stopped *)
Definition F_refused : N := 12.      (* refused by a draining target *)
Definition F_stale : N := 13.        (* went on with a service object that is not the installed one *)
Definition F_cmd : N := 14.          (* a pause / stop / resume left the controller in another state (request id = command id) *)

Definition gaction_eqb (a b : gaction) : bool :=
  match a, b with
  | AProceed, AProceed | ATimedOut, ATimedOut | AStopped, AStopped => true
  | _, _ => false
  end.

Definition flag (b : bool) (code : N) : list N := if b then [] else [code].

(** after the gate result: path events only if proceed, then one respond with the right status *)
Definition check_tail (a : gaction) (l : itrace) : list N :=
  let paths := filter (fun ie => is_path (snd ie)) l in
  let others := filter (fun ie => negb (is_path (snd ie))) l in
  flag (match a with AProceed => true | _ => match paths with [] => true | _ => false end end) F_status ++
  match others with
  | [(_, e)] =>
    match e_k e with
    | KRespond _ status by_ =>
      flag (match a with
            | AStopped => (status =? 503) && str_eqb by_ []
            | ATimedOut => (status =? 504) && str_eqb by_ []
            | AProceed => true
            end) F_status
    | _ => [F_once]
    end
  | _ => [F_once]
  end.

Definition check_path (tr : itrace) (sets : list nev) (inst : list (nat * option nat)) (l : itrace) : list N :=
  flat_map (fun ie =>
    match e_k (snd ie) with
    | KClaim _ _ => flag (gstate_eqb (state_before sets (fst ie) GRunning) GRunning) F_forward
    | KClaimRefused _ _ => [F_refused]
    | KPick _ s _ => flag (match installed_before inst (fst ie) None with Some s' => Nat.eqb s s' | None => false end) F_stale
    | _ => []
    end) l.

Definition check_req (tr : itrace) (r : nat) (health : bool) : list N :=
  match req_evs tr r with
  | (i0, e0) :: l =>
    match e_k e0 with
    | KRouted _ (Some s) =>
      let n := svc_name tr s in
      let sets := name_sets tr n in
      let inst := name_installs tr n in
      check_path tr sets inst l ++
      match l with
      | [] => [F_once]
      | (i1, e1) :: l1 =>
        match e_k e1 with
        | KRespond _ status by_ =>
          (* no gate consulted: only the health-check shortcut *)
          flag (health && (status =? 200) && str_eqb by_ [] && nonrunning_within sets i0 i1) F_shortcut ++
          flag (match l1 with [] => true | _ => false end) F_once
        | KGateRead _ st _ =>
          flag (gstate_eqb st (state_before sets i1 GRunning)) F_read ++
          flag (negb (health && negb (gstate_eqb st GRunning))) F_health ++
          match st with
          | GPaused =>
            match l1 with
            | (i2, e2) :: l2 =>
              match e_k e2 with
              | KGateWake _ by_chan =>
                let lv := filter (fun x => Nat.ltb i1 (ne_pos x) && Nat.ltb (ne_pos x) i2) (leaves sets GRunning) in
                (if by_chan
                 then flag (match lv with [] => false | _ => true end) F_chanwake
                 else flag (e_t e2 =? e_t e1 + fail_before sets i1 0) F_timer ++
                      flag (forallb (fun x => negb (ne_t x <? e_t e2)) lv) F_late) ++
                match l2 with
                | (i3, e3) :: l3 =>
                  match e_k e3 with
                  | KGateResult _ _ a =>
                    flag (gaction_eqb a (if by_chan
                                         then match state_before sets i2 GRunning with GStopped => AStopped | _ => AProceed end
                                         else ATimedOut)) F_result ++
                    check_tail a l3
                  | _ => [F_held]
                  end
                | [] => [F_once]
                end
              | _ => [F_held]
              end
            | [] => [F_once]
            end
          | _ =>
            match l1 with
            | (i2, e2) :: l2 =>
              match e_k e2 with
              | KGateResult _ _ a =>
                flag (gaction_eqb a (match st with GStopped => AStopped | _ => AProceed end)) F_result ++
                check_tail a l2
              | _ => [F_result]
              end
            | [] => [F_once]
            end
          end
        | _ => [F_shortcut]
        end
      end
    | _ => []      (* no service for the request: 404, not this property's business *)
    end
  | [] => []
  end.

(** every pause / stop / resume command leaves the controller in the commanded state *)
Definition check_cmds (tr : itrace) : list (nat * N) :=
  flat_map (fun ie =>
    match e_k (snd ie), e_by (snd ie) with
    | KGateSet _ st _, ACmd c =>
      match cmd_info tr c with
      | Some (k, _) => match commanded k with
                       | Some cs => if gstate_eqb cs st then [] else [(c, F_cmd)]
                       | None => []
                       end
      | None => []
      end
    | _, _ => []
    end) tr.

(** [reqs]: the requests of the scenario with the flag "GET on exactly the health-check path".
    Result: the failures (request, code). *)
Definition c07_check (tr : trace) (reqs : list (nat * bool)) : list (nat * N) :=
  let t := slim tr in
  check_cmds t ++ flat_map (fun rh => map (fun c => (fst rh, c)) (check_req t (fst rh) (snd rh))) reqs.

Definition c07_ok (tr : trace) (reqs : list (nat * bool)) : bool :=
  match c07_check tr reqs with [] => true | _ => false end.

(** which known finding (if any) excuses a failure: 3 = D3, 2 = D2, 1 = overlap, 0 = none *)
Definition excuse (tr : trace) (f : nat * N) : N :=
  let t := slim tr in
  let r := fst f in
  let c := snd f in
  if ((c =? F_forward) || (c =? F_refused)) && known_d3 t r then 3
  else if ((c =? F_read) || (c =? F_forward) || (c =? F_refused) || (c =? F_stale)) && known_d2 t r then 2
  else if (c =? F_refused) && known_ov t r then 1
  else 0.

Definition c07_judge (tr : trace) (reqs : list (nat * bool)) : list (nat * N * N) :=
  map (fun f => (fst f, snd f, excuse tr f)) (c07_check tr reqs).

(** coverage counters: parked requests, released by channel, timed out, answered by the shortcut *)
Definition c07_stats (tr : trace) : N * N * N * N :=
  let cnt f := lenN (filter f tr) in
  (cnt (fun e => match e_k e with KGateRead _ GPaused _ => true | _ => false end),
   cnt (fun e => match e_k e with KGateWake _ true => true | _ => false end),
   cnt (fun e => match e_k e with KGateWake _ false => true | _ => false end),
   cnt (fun e => match e_k e with KGateResult _ _ AStopped => true | _ => false end)).
