(** C11step.v — the restart step itself.

    [c11_ok] (corr/M4corr.v) compares what FOLLOWS the restart in the two runs.  "A restart changes nothing observable"
    also covers the requests that arrive right after the restart, before any further command: they must be answered as
    the same requests were answered right before it (the harness asks the same request matrix after every step) - by
    the same target group, with the same status, body and held time - and `list` must show the same. *)
From KP Require Import model.Base model.ServiceMap model.Seq corr.M4corr.

Definition answers_equiv (a b : step_obs) : bool :=
  list_eqb (fun x y => groups_compatible (served_groups a (ro_served_by (snd x))) (served_groups b (ro_served_by (snd y))))
           (so_requests a) (so_requests b) &&
  list_eqb row_eqb (so_list a) (so_list b) &&
  list_eqb (fun x y => resp_obs_eqb (snd x) (snd y)) (so_requests a) (so_requests b).

(** [k]: the restart was inserted before step k of the original history (it is step k of the restarted one) *)
Definition c11_restart_step_ok (h_orig h_restarted : list step_obs) (k : nat) : bool :=
  match k with
  | 0 => true
  | S j => match nth_error h_orig j, nth_error h_restarted k with
           | Some a, Some b => answers_equiv a b
           | _, _ => false
           end
  end.
