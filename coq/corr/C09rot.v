(** C09rot.v — "requests are spread over the currently healthy targets": the rotation is EXACTLY the healthy targets.

    [c09_ok] (corr/C09corr.v) demands that a rebuilt rotation holds no target whose latest probe failed.  The
    property also says the converse — "one that recovers is used again" — and "strict rotation ... each of the k
    healthy targets floor(n/k) or ceil(n/k)", which needs every healthy target to be in the rotation exactly once.
    This monitor replays, from the observed trace alone, the state of every target (creation: adding; every
    KProbeApply / KStateSet carries the new state) and demands of every KRotation event that the rotation it reports
    is the list of the balancer's targets that are healthy at that moment, in the balancer's own target order, each
    once.  (One event = one lock region; the region of the rebuild reads every target's state.) *)
From KP Require Import model.Base model.Trace.
Local Open Scope nat_scope.

Record monr := mkMR {
  r_ts : list (nat * list nat);      (* balancer -> its targets (KLbNew) *)
  r_st : list (nat * tstate)         (* target -> state *)
}.

Definition healthy_now (m : monr) (t : nat) : bool :=
  match nget (r_st m) t with Some s => tstate_eqb s THealthy | None => false end.

Definition rot_step (m : monr) (e : event) : option monr :=
  match e_k e with
  | KLbNew lb ts => Some (mkMR (nset (r_ts m) lb ts) (fold_left (fun l t => nset l t TAdding) ts (r_st m)))
  | KProbeApply t _ _ new => Some (mkMR (r_ts m) (nset (r_st m) t new))
  | KStateSet t _ new => Some (mkMR (r_ts m) (nset (r_st m) t new))
  | KRotation lb hs =>
    match nget (r_ts m) lb with
    | Some ts => if nlist_eqb hs (filter (healthy_now m) ts) then Some m else None
    | None => None
    end
  | _ => Some m
  end.

Definition c09_rot_ok (tr : trace) : bool :=
  match run rot_step (mkMR [] []) tr with Some _ => true | None => false end.

Definition c09_rot_fail_at (tr : trace) : option nat := first_reject rot_step (mkMR [] []) tr 0.

(** ** A failed probe takes the target out of the rotation

    "A target whose latest probe failed receives no new requests until a later probe succeeds": whatever the target's
    recorded state was, a probe goroutine that applies a FAILING result while its target is in the rotation rebuilt last
    must rebuild that rotation (without the target) before it applies its next result.  ([c09_rebuild_ok] asks for the
    rebuild only when the recorded state changed; a target already marked unhealthy by some other path would slip by.) *)
Record mone := mkME {
  e_lb : list (nat * nat);          (* target -> balancer *)
  e_rot : list (nat * list nat);    (* balancer -> rotation rebuilt last *)
  e_owe : list (actor * nat)        (* probe goroutine -> target it must get out of the rotation *)
}.

Definition owes_e (l : list (actor * nat)) (a : actor) : bool := existsb (fun p => actor_eqb a (fst p)) l.

Definition excl_step (m : mone) (e : event) : option mone :=
  match e_k e with
  | KLbNew lb ts => Some (mkME (fold_left (fun l t => nset l t lb) ts (e_lb m)) (nset (e_rot m) lb []) (e_owe m))
  | KRotation lb hs =>
    (* a rebuild by a goroutine that owes one must leave its target out *)
    if existsb (fun p => actor_eqb (e_by e) (fst p) && nmem (snd p) hs) (e_owe m) then None
    else Some (mkME (e_lb m) (nset (e_rot m) lb hs) (filter (fun p => negb (actor_eqb (e_by e) (fst p))) (e_owe m)))
  | KProbeApply t ok _ new =>
    if owes_e (e_owe m) (e_by e) then None
    else if ok || tstate_eqb new TDraining then Some m   (* a draining target keeps its state: recorded finding D12's business *)
    else
      let in_rot := match nget (e_lb m) t with
                    | Some lb => match nget (e_rot m) lb with Some hs => nmem t hs | None => false end
                    | None => false end in
      Some (if in_rot then mkME (e_lb m) (e_rot m) ((e_by e, t) :: e_owe m) else m)
  | _ => Some m
  end.

Definition c09_excl_ok (tr : trace) : bool :=
  match run excl_step (mkME [] [] []) tr with Some _ => true | None => false end.

Definition c09_excl_fail_at (tr : trace) : option nat := first_reject excl_step (mkME [] [] []) tr 0.

(** ** A picked target gets the request

    [c09_handoff_ok]: a request for which the balancer picked a target (KLbClaim with a target) is either claimed by
    that target (KClaim) or refused by it because it is draining (KClaimRefused, emitted only on that branch) before it
    is answered: nothing else may turn a pick into an error page. *)
Definition hand_step (pend : list nat) (e : event) : option (list nat) :=
  match e_k e with
  | KLbClaim _ (Some _) r => Some (r :: nremove r pend)
  | KLbClaim _ None r => Some (nremove r pend)
  | KClaim _ r | KClaimRefused _ r => Some (nremove r pend)
  | KRespond r _ _ => if nmem r pend then None else Some pend
  | _ => Some pend
  end.

Definition c09_handoff_ok (tr : trace) : bool :=
  match run hand_step [] tr with Some _ => true | None => false end.

Definition c09_handoff_fail_at (tr : trace) : option nat := first_reject hand_step [] tr 0.
