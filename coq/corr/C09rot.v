(** C09rot.v — "requests are spread over the currently healthy targets": the rotation is EXACTLY the healthy targets.

    [c09_ok] (corr/C09corr.v) demands that a rebuilt rotation holds no target whose latest probe failed.  The
    property also says the converse — "one that recovers is used again" — and "strict rotation ... each of the k
    healthy targets floor(n/k) or ceil(n/k)", which needs every healthy target to be in the rotation exactly once.
    This monitor replays, from the observed trace alone, the state of every target (creation: adding; every
    KProbeApply / KStateSet carries the new state) and demands of every KRotation event that the rotation it reports
    is the list of the balancer's targets that are healthy at that moment, in the balancer's own target order, each
    once.  (One event = one lock region; the region of the rebuild reads every target's state.) *)
From KP Require Import model.Base model.Trace.
Local Open Scope nat_scope.

Record monr := mkMR {
  r_ts : list (nat * list nat);      (* balancer -> its targets (KLbNew) *)
  r_st : list (nat * tstate)         (* target -> state *)
}.

Definition healthy_now (m : monr) (t : nat) : bool :=
  match nget (r_st m) t with Some s => tstate_eqb s THealthy | None => false end.

Definition rot_step (m : monr) (e : event) : option monr :=
  match e_k e with
  | KLbNew lb ts => Some (mkMR (nset (r_ts m) lb ts) (fold_left (fun l t => nset l t TAdding) ts (r_st m)))
  | KProbeApply t _ _ new => Some (mkMR (r_ts m) (nset (r_st m) t new))
  | KStateSet t _ new => Some (mkMR (r_ts m) (nset (r_st m) t new))
  | KRotation lb hs =>
    match nget (r_ts m) lb with
    | Some ts => if nlist_eqb hs (filter (healthy_now m) ts) then Some m else None
    | None => None
    end
  | _ => Some m
  end.

Definition c09_rot_ok (tr : trace) : bool :=
  match run rot_step (mkMR [] []) tr with Some _ => true | None => false end.

Definition c09_rot_fail_at (tr : trace) : option nat := first_reject rot_step (mkMR [] []) tr 0.
