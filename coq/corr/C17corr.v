(** C17corr.v — the monitor of property C17 on an observed trace ALONE, and the
    evaluation entry points used by tools/c17.py.

    [c17_ok tr]: (1) every deploy / rollout deploy returns within
    deploy_timeout + drain_timeout of its issue, every pause / stop within
    drain_timeout, every other command at its issue time (checked while no
    goroutine has been parked at a harness yield — parked time is not the
    proxy's); (2) every health probe that reaches a target name is owed to a
    target of that name that is not "dead", where a target dies when its waiter
    times out, when the deploy that created it returns an error, when the
    deploy that replaced its balancer returns Ok, and when the remove of the
    service holding its balancer returns Ok.  The monitor does not look at the
    implementation's own stop events (KProbeStop / KLbDispose). *)
From KP Require Import model.Base model.Trace model.M5time.
Local Open Scope N_scope.

Record mcmd := mkMC { mc_kind : cmdkind; mc_issue : N; mc_dt : N; mc_drt : N }.

Record mstate := mkM {
  m_cmds : list (nat * mcmd);
  m_parks : bool;
  m_lbs : list (nat * list nat);
  m_names : list (nat * str);
  m_dead : list nat;                                  (* dead targets *)
  m_svcs : list (nat * (option nat * option nat));
  m_new : list (nat * nat);                           (* command -> balancer it created *)
  m_repl : list (nat * nat);                          (* command -> balancer it replaced *)
  m_rem : list (nat * nat);                           (* command -> service object it removed *)
  m_fail : list (nat * N)                             (* position, code *)
}.

Definition m_init : mstate := mkM [] false [] [] [] [] [] [] [] [].

Definition m_targets (m : mstate) (lb : nat) : list nat :=
  match nget (m_lbs m) lb with Some ts => ts | None => [] end.

Definition m_slots (m : mstate) (s : nat) : option nat * option nat :=
  match nget (m_svcs m) s with Some x => x | None => (None, None) end.

Definition m_svc_lbs (m : mstate) (s : nat) : list nat :=
  let x := m_slots m s in
  (match fst x with Some a => [a] | None => [] end) ++ (match snd x with Some r => [r] | None => [] end).

Definition kill (m : mstate) (ts : list nat) : mstate :=
  mkM (m_cmds m) (m_parks m) (m_lbs m) (m_names m) (ts ++ m_dead m) (m_svcs m) (m_new m) (m_repl m) (m_rem m) (m_fail m).

Definition fail (m : mstate) (i : nat) (code : N) : mstate :=
  mkM (m_cmds m) (m_parks m) (m_lbs m) (m_names m) (m_dead m) (m_svcs m) (m_new m) (m_repl m) (m_rem m) ((i, code) :: m_fail m).

(** the bound of a command kind: code 1 deploy, 2 pause/stop, 3 non-blocking *)
Definition bound_ok (mc : mcmd) (t : N) : bool :=
  if is_deploy (mc_kind mc) then t <=? mc_issue mc + mc_dt mc + mc_drt mc
  else if is_pause_stop (mc_kind mc) then t <=? mc_issue mc + mc_drt mc
  else t =? mc_issue mc.

Definition bound_code (mc : mcmd) : N :=
  if is_deploy (mc_kind mc) then 1 else if is_pause_stop (mc_kind mc) then 2 else 3.

(** some target named [n] exists in a created balancer and is not dead *)
Definition m_live (m : mstate) (n : str) : bool :=
  existsb (fun p => existsb (fun t => negb (nmem t (m_dead m)) &&
                                      match nget (m_names m) t with Some n' => str_eqb n n' | None => false end) (snd p))
          (m_lbs m).

Definition is_cmd (a : actor) : option nat := match a with ACmd c => Some c | _ => None end.

Definition m_step (m : mstate) (ie : nat * event) : mstate :=
  let i := fst ie in let e := snd ie in
  match e_k e with
  | KParked => mkM (m_cmds m) true (m_lbs m) (m_names m) (m_dead m) (m_svcs m) (m_new m) (m_repl m) (m_rem m) (m_fail m)
  | KTargetName t n => mkM (m_cmds m) (m_parks m) (m_lbs m) (nset (m_names m) t n) (m_dead m) (m_svcs m) (m_new m) (m_repl m) (m_rem m) (m_fail m)
  | KIssue c k _ => mkM (nset (m_cmds m) c (mkMC k (e_t e) 0 0)) (m_parks m) (m_lbs m) (m_names m) (m_dead m) (m_svcs m) (m_new m) (m_repl m) (m_rem m) (m_fail m)
  | KParams c dt drt _ =>
    match nget (m_cmds m) c with
    | Some mc => mkM (nset (m_cmds m) c (mkMC (mc_kind mc) (mc_issue mc) dt drt)) (m_parks m) (m_lbs m) (m_names m) (m_dead m) (m_svcs m) (m_new m) (m_repl m) (m_rem m) (m_fail m)
    | None => m
    end
  | KLbNew lb ts => mkM (m_cmds m) (m_parks m) (nset (m_lbs m) lb ts) (m_names m) (m_dead m) (m_svcs m) (m_new m) (m_repl m) (m_rem m) (m_fail m)
  | KWaiter t false => kill m [t]
  | KDeployLb _ _ lb =>
    match is_cmd (e_by e) with
    | Some c => mkM (m_cmds m) (m_parks m) (m_lbs m) (m_names m) (m_dead m) (m_svcs m) (nset (m_new m) c lb) (m_repl m) (m_rem m) (m_fail m)
    | None => m
    end
  | KSlot s ro lb rep =>
    let x := m_slots m s in
    let sv := nset (m_svcs m) s (if ro then (fst x, Some lb) else (Some lb, snd x)) in
    let rp := match is_cmd (e_by e), rep with Some c, Some old => nset (m_repl m) c old | _, _ => m_repl m end in
    mkM (m_cmds m) (m_parks m) (m_lbs m) (m_names m) (m_dead m) sv (m_new m) rp (m_rem m) (m_fail m)
  | KSvcCopy old new =>
    mkM (m_cmds m) (m_parks m) (m_lbs m) (m_names m) (m_dead m) (nset (m_svcs m) new (m_slots m old)) (m_new m) (m_repl m) (m_rem m) (m_fail m)
  | KRemoved s =>
    match is_cmd (e_by e) with
    | Some c => mkM (m_cmds m) (m_parks m) (m_lbs m) (m_names m) (m_dead m) (m_svcs m) (m_new m) (m_repl m) (nset (m_rem m) c s) (m_fail m)
    | None => m
    end
  | KProbeSent n _ => if m_live m n then m else fail m i 4
  | KReturn c r =>
    match nget (m_cmds m) c with
    | Some mc =>
      let m1 := if m_parks m || bound_ok mc (e_t e) then m else fail m i (bound_code mc) in
      match r with
      | CROk =>
        if is_deploy (mc_kind mc) then
          match nget (m_repl m1) c with Some old => kill m1 (m_targets m1 old) | None => m1 end
        else match mc_kind mc, nget (m_rem m1) c with
             | CkRemove, Some s => kill m1 (flat_map (m_targets m1) (m_svc_lbs m1 s))
             | _, _ => m1
             end
      | _ =>
        if is_deploy (mc_kind mc) then
          match nget (m_new m1) c with Some lb => kill m1 (m_targets m1 lb) | None => m1 end
        else m1
      end
    | None => m
    end
  | _ => m
  end.

Fixpoint number {A} (n : nat) (l : list A) : list (nat * A) :=
  match l with [] => [] | x :: r => (n, x) :: number (S n) r end.

Definition c17_failures (tr : trace) : list (nat * N) := rev (m_fail (fold_left m_step (number 0 tr) m_init)).

Definition c17_ok (tr : trace) : bool := match c17_failures tr with [] => true | _ => false end.

(** ** Evaluation of one implementation trace: first event the acceptor rejects
    (None = accepted) and the monitor's failures. *)
Definition eval_trace (tr : trace) : option nat * list (nat * N) :=
  (first_reject step init tr 0, c17_failures tr).

(** Per returned command: kind, result, elapsed time, bound (for the evidence). *)
Definition kind_code (k : cmdkind) : N :=
  match k with CkDeploy => 0 | CkRolloutDeploy => 1 | CkRolloutSet => 2 | CkRolloutStop => 3
             | CkPause => 4 | CkStop => 5 | CkResume => 6 | CkRemove => 7 end.
