(** C17corr.v — the monitor of property C17 on an observed trace ALONE, and the
    evaluation entry points used by tools/c17.py.

    [c17_ok tr]: (1) every deploy / rollout deploy returns within
    deploy_timeout + drain_timeout of its issue, every pause / stop within
    drain_timeout, every other command at its issue time (checked while no
    goroutine has been parked at a harness yield — parked time is not the
    proxy's); (2) every health probe that reaches a target name is owed to a
    target of that name that is not "dead", where a target dies when its waiter
    times out, when the deploy that created it returns an error, when the
    deploy that replaced its balancer returns Ok, and when the remove of the
    service holding its balancer returns Ok.  The monitor does not look at the
    implementation's own stop events (KProbeStop / KLbDispose). *)
From KP Require Import model.Base model.Trace model.M5time.
Local Open Scope N_scope.

Record mcmd := mkMC { mc_kind : cmdkind; mc_issue : N; mc_dt : N; mc_drt : N; mc_set : bool (* durations known *) }.

Record mstate := mkM {
  m_cmds : list (nat * mcmd);
  m_parks : bool;
  m_lbs : list (nat * list nat);
  m_names : list (nat * str);
  m_dead : list nat;                                  (* dead targets *)
  m_svcs : list (nat * (option nat * option nat));
  m_new : list (nat * nat);                           (* command -> balancer it created *)
  m_repl : list (nat * nat);                          (* command -> balancer it replaced *)
  m_rem : list (nat * list nat);                      (* command -> balancers of the service object it removed *)
  m_fail : list (nat * N)                             (* position, code *)
}.

Definition m_init : mstate := mkM [] false [] [] [] [] [] [] [] [].

Definition m_targets (m : mstate) (lb : nat) : list nat :=
  match nget (m_lbs m) lb with Some ts => ts | None => [] end.

Definition m_slots (m : mstate) (s : nat) : option nat * option nat :=
  match nget (m_svcs m) s with Some x => x | None => (None, None) end.

Definition m_svc_lbs (m : mstate) (s : nat) : list nat :=
  let x := m_slots m s in
  (match fst x with Some a => [a] | None => [] end) ++ (match snd x with Some r => [r] | None => [] end).

Definition kill (m : mstate) (ts : list nat) : mstate :=
  mkM (m_cmds m) (m_parks m) (m_lbs m) (m_names m) (ts ++ m_dead m) (m_svcs m) (m_new m) (m_repl m) (m_rem m) (m_fail m).

Definition fail (m : mstate) (i : nat) (code : N) : mstate :=
  mkM (m_cmds m) (m_parks m) (m_lbs m) (m_names m) (m_dead m) (m_svcs m) (m_new m) (m_repl m) (m_rem m) ((i, code) :: m_fail m).

(** the bound of a command kind: code 1 deploy, 2 pause/stop, 3 non-blocking *)
Definition bound_ok (mc : mcmd) (t : N) : bool :=
  if is_deploy (mc_kind mc) then t <=? mc_issue mc + mc_dt mc + mc_drt mc
  else if is_pause_stop (mc_kind mc) then t <=? mc_issue mc + mc_drt mc
  else t =? mc_issue mc.

Definition bound_code (mc : mcmd) : N :=
  if is_deploy (mc_kind mc) then 1 else if is_pause_stop (mc_kind mc) then 2 else 3.

(** some target named [n] exists in a created balancer and is not dead *)
Definition m_live (m : mstate) (n : str) : bool :=
  existsb (fun p => existsb (fun t => negb (nmem t (m_dead m)) &&
                                      match nget (m_names m) t with Some n' => str_eqb n n' | None => false end) (snd p))
          (m_lbs m).

Definition is_cmd (a : actor) : option nat := match a with ACmd c => Some c | _ => None end.

Definition m_step (m : mstate) (ie : nat * event) : mstate :=
  let i := fst ie in let e := snd ie in
  match e_k e with
  | KParked => mkM (m_cmds m) true (m_lbs m) (m_names m) (m_dead m) (m_svcs m) (m_new m) (m_repl m) (m_rem m) (m_fail m)
  | KTargetName t n => mkM (m_cmds m) (m_parks m) (m_lbs m) (nset (m_names m) t n) (m_dead m) (m_svcs m) (m_new m) (m_repl m) (m_rem m) (m_fail m)
  | KIssue c k _ => mkM (nset (m_cmds m) c (mkMC k (e_t e) 0 0 false)) (m_parks m) (m_lbs m) (m_names m) (m_dead m) (m_svcs m) (m_new m) (m_repl m) (m_rem m) (m_fail m)
  | KParams c dt drt _ =>
    match nget (m_cmds m) c with
    | Some mc => mkM (nset (m_cmds m) c (mkMC (mc_kind mc) (mc_issue mc) dt drt true)) (m_parks m) (m_lbs m) (m_names m) (m_dead m) (m_svcs m) (m_new m) (m_repl m) (m_rem m) (m_fail m)
    | None => m
    end
  | KLbNew lb ts => mkM (m_cmds m) (m_parks m) (nset (m_lbs m) lb ts) (m_names m) (m_dead m) (m_svcs m) (m_new m) (m_repl m) (m_rem m) (m_fail m)
  | KWaiter t false => kill m [t]
  | KDeployLb _ _ lb =>
    match is_cmd (e_by e) with
    | Some c => mkM (m_cmds m) (m_parks m) (m_lbs m) (m_names m) (m_dead m) (m_svcs m) (nset (m_new m) c lb) (m_repl m) (m_rem m) (m_fail m)
    | None => m
    end
  | KSlot s ro lb rep =>
    match is_cmd (e_by e) with
    | Some c =>
      let x := m_slots m s in
      let sv := nset (m_svcs m) s (if ro then (fst x, Some lb) else (Some lb, snd x)) in
      let rp := match rep with Some old => nset (m_repl m) c old | None => m_repl m end in
      mkM (m_cmds m) (m_parks m) (m_lbs m) (m_names m) (m_dead m) sv (m_new m) rp (m_rem m) (m_fail m)
    | None => m
    end
  | KSvcCopy old new =>
    match is_cmd (e_by e) with
    | Some _ => mkM (m_cmds m) (m_parks m) (m_lbs m) (m_names m) (m_dead m) (nset (m_svcs m) new (m_slots m old)) (m_new m) (m_repl m) (m_rem m) (m_fail m)
    | None => m
    end
  | KRemoved s =>
    match is_cmd (e_by e) with
    | Some c => mkM (m_cmds m) (m_parks m) (m_lbs m) (m_names m) (m_dead m) (m_svcs m) (m_new m) (m_repl m) (nset (m_rem m) c (m_svc_lbs m s)) (m_fail m)
    | None => m
    end
  | KProbeSent n _ => if m_live m n then m else fail m i 4
  | KReturn c r =>
    match nget (m_cmds m) c with
    | Some mc =>
      let m1 := if m_parks m || negb (mc_set mc) || bound_ok mc (e_t e) then m else fail m i (bound_code mc) in
      match r with
      | CROk =>
        if is_deploy (mc_kind mc) then
          match nget (m_repl m1) c with Some old => kill m1 (m_targets m1 old) | None => m1 end
        else match mc_kind mc, nget (m_rem m1) c with
             | CkRemove, Some lbs => kill m1 (flat_map (m_targets m1) lbs)
             | _, _ => m1
             end
      | _ =>
        if is_deploy (mc_kind mc) then
          match nget (m_new m1) c with Some lb => kill m1 (m_targets m1 lb) | None => m1 end
        else m1
      end
    | None => m
    end
  | _ => m
  end.

Fixpoint number {A} (n : nat) (l : list A) : list (nat * A) :=
  match l with [] => [] | x :: r => (n, x) :: number (S n) r end.

Definition c17_failures (tr : trace) : list (nat * N) := rev (m_fail (fold_left m_step (number 0 tr) m_init)).

Definition c17_ok (tr : trace) : bool := match c17_failures tr with [] => true | _ => false end.

(** ** The bounds part of the monitor on its own (codes 1-3 of [c17_failures]);
    [accepted_bounds_ok] below links it to the view. *)
Record bstate := mkB { b_cmds : list (nat * mcmd); b_parks : bool; b_ok : bool }.
Definition b_init : bstate := mkB [] false true.

Definition b_step (b : bstate) (e : event) : bstate :=
  match e_k e with
  | KParked => mkB (b_cmds b) true (b_ok b)
  | KIssue c k _ => mkB (nset (b_cmds b) c (mkMC k (e_t e) 0 0 false)) (b_parks b) (b_ok b)
  | KParams c dt drt _ =>
    match nget (b_cmds b) c with
    | Some mc => mkB (nset (b_cmds b) c (mkMC (mc_kind mc) (mc_issue mc) dt drt true)) (b_parks b) (b_ok b)
    | None => b
    end
  | KReturn c _ =>
    match nget (b_cmds b) c with
    | Some mc => if b_parks b || negb (mc_set mc) || bound_ok mc (e_t e) then b else mkB (b_cmds b) (b_parks b) false
    | None => b
    end
  | _ => b
  end.

Definition c17_bounds_ok (tr : trace) : bool := b_ok (fold_left b_step tr b_init).

(** ** Evaluation of one implementation trace: first event the acceptor rejects
    (None = accepted) and the monitor's failures. *)
Definition eval_trace (tr : trace) : option nat * list (nat * N) :=
  (first_reject step init tr 0,
   c17_failures tr ++ (if c17_bounds_ok tr then [] else [(0%nat, 9)])).   (* 9: the bounds monitor on its own *)

(** Per returned command: kind, result, elapsed time, bound (for the evidence). *)
Definition kind_code (k : cmdkind) : N :=
  match k with CkDeploy => 0 | CkRolloutDeploy => 1 | CkRolloutSet => 2 | CkRolloutStop => 3
             | CkPause => 4 | CkStop => 5 | CkResume => 6 | CkRemove => 7 end.

(** ** Link: every accepted trace satisfies the bounds part of the monitor. *)
From Coq Require Import ZifyN ZifyNat ZifyBool.
From KP Require Import proofs.M5timeFacts proofs.M5timeFacts2 proofs.M5timeFacts3 proofs.M5timeFacts4.

Definition rb_cmd (s : state) (c : nat) (mc : mcmd) : Prop :=
  exists cm, nget (cmds s) c = Some cm /\ c_kind cm = mc_kind mc /\ c_issue cm = mc_issue mc /\
             (mc_set mc = true -> c_phase cm <> PNew /\ c_dt cm = mc_dt mc /\ c_drt cm = mc_drt mc).

Definition rb (b : bstate) (s : state) : Prop :=
  b_parks b = parks s /\ b_ok b = true /\ forall c mc, nget (b_cmds b) c = Some mc -> rb_cmd s c mc.

Lemma rb_cmd_keeps s s' c mc : keeps (cmds s) (cmds s') -> rb_cmd s c mc -> rb_cmd s' c mc.
Proof.
  intros K (cm & G & K1 & K2 & K3). destruct (K _ _ G) as (cm' & G' & (L1 & L2 & L3 & _)).
  exists cm'. split; [exact G'|]. split; [congruence|]. split; [congruence|].
  intros Hs. destruct (K3 Hs) as (P & D1 & D2). destruct (L3 P) as (E1 & E2 & P'). repeat split; congruence.
Qed.

Lemma bound_ok_of cm mc t :
  c_kind cm = mc_kind mc -> c_issue cm = mc_issue mc -> c_dt cm = mc_dt mc -> c_drt cm = mc_drt mc ->
  bound cm t -> bound_ok mc t = true.
Proof.
  unfold bound, bound_ok. intros -> -> -> ->.
  destruct (is_deploy (mc_kind mc)); [intros H; apply N.leb_le; exact H|].
  destruct (is_pause_stop (mc_kind mc)); [intros H; apply N.leb_le; exact H|intros H; apply N.eqb_eq; exact H].
Qed.

Lemma rb_step b s e s' : rb b s -> tinv s -> step s e = Some s' -> rb (b_step b e) s'.
Proof.
  intros (R1 & R2 & R3) Hinv Hs.
  pose proof (step_parks _ _ _ _ Hs) as Hp. pose proof (step_keeps _ _ _ _ Hs) as Hk.
  assert (Rk : forall c mc, nget (b_cmds b) c = Some mc -> rb_cmd s' c mc).
  { intros c mc H. exact (rb_cmd_keeps _ _ _ _ Hk (R3 _ _ H)). }
  unfold b_step, is_parked in *. destruct (e_k e) eqn:Ek; rewrite ?orb_false_r in Hp;
    try (split; [cbn; congruence|split; [exact R2|exact Rk]]; fail).
  - (* KIssue *)
    split; [cbn; congruence|split; [exact R2|]]. cbn [b_cmds]. intros c0 mc0. rewrite nget_nset.
    destruct (Nat.eqb c0 c) eqn:E; [|apply Rk]. apply Nat.eqb_eq in E; subst c0. intros H; injection H as <-.
    unfold step, step_gen in Hs. destruct (e_t e <? clock s); [discriminate|]. cbv zeta in Hs. rewrite Ek in Hs.
    destruct (nget (cmds (upd_clock s (e_t e))) c); [discriminate|]. injection Hs as <-.
    eexists. split; [unfold put; cbn [cmds upd_cmds]; apply nget_nset_same|]. cbn. repeat split; discriminate.
  - (* KParams *)
    destruct (nget (b_cmds b) c) as [mc|] eqn:Hb; [|split; [cbn; congruence|split; [exact R2|exact Rk]]].
    split; [cbn; congruence|split; [exact R2|]]. cbn [b_cmds]. intros c0 mc0. rewrite nget_nset.
    destruct (Nat.eqb c0 c) eqn:E; [|apply Rk]. apply Nat.eqb_eq in E; subst c0. intros H; injection H as <-.
    destruct (R3 _ _ Hb) as (cm & G & K1 & K2 & _).
    unfold step, step_gen in Hs. destruct (e_t e <? clock s); [discriminate|]. cbv zeta in Hs. rewrite Ek in Hs.
    cbn [cmds upd_clock] in Hs. rewrite G in Hs. destruct (c_phase cm); try discriminate.
    destruct (own_time_ok _ cm _); [|discriminate]. injection Hs as <-.
    eexists. split; [unfold put; cbn [cmds upd_cmds]; apply nget_nset_same|]. cbn. repeat split; try assumption; discriminate.
  - (* KReturn *)
    destruct (nget (b_cmds b) c) as [mc|] eqn:Hb; [|split; [cbn; congruence|split; [exact R2|exact Rk]]].
    destruct (b_parks b || negb (mc_set mc) || bound_ok mc (e_t e)) eqn:Hc;
      [split; [cbn; congruence|split; [exact R2|exact Rk]]|].
    exfalso. apply orb_false_iff in Hc. destruct Hc as [Hc Hbd]. apply orb_false_iff in Hc. destruct Hc as [Hpk Hset].
    apply negb_false_iff in Hset. rewrite R1 in Hpk.
    destruct (R3 _ _ Hb) as (cm & G & K1 & K2 & K3). destruct (K3 Hset) as (_ & D1 & D2).
    destruct (return_bound _ _ _ _ _ _ Hinv Hs Ek Hpk) as (cm' & G' & B). rewrite G in G'; injection G' as <-.
    rewrite (bound_ok_of _ _ _ K1 K2 D1 D2 B) in Hbd. discriminate.
  - (* KParked *)
    split; [cbn; rewrite Hp, orb_true_r; reflexivity|split; [exact R2|exact Rk]].
Qed.

Theorem accepted_bounds_ok : forall tr, accepted tr = true -> c17_bounds_ok tr = true.
Proof.
  intros tr. unfold accepted, c17_bounds_ok.
  assert (H : forall tr b s, rb b s -> tinv s -> forall s', run step s tr = Some s' -> b_ok (fold_left b_step tr b) = true).
  { clear tr. induction tr as [|e tr IH]; intros b s R Hi s'; cbn [run fold_left].
    - intros _. exact (proj1 (proj2 R)).
    - destruct (step s e) as [s1|] eqn:E; [|discriminate]. intros Hr.
      exact (IH _ _ (rb_step _ _ _ _ R Hi E) (step_tinv _ _ _ _ Hi E) _ Hr). }
  destruct (run step init tr) as [s'|] eqn:R; [|discriminate]. intros _.
  apply (H tr b_init init) with (s' := s'); [|apply tinv_init|exact R].
  split; [reflexivity|split; [reflexivity|intros c mc Hc; discriminate]].
Qed.
Print Assumptions accepted_bounds_ok.
