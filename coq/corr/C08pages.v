(** C08pages.v — the observed answers of a history with replaced error pages against model/Pages.v: every request's
    status, "forwarded" flag and body must be what the model's answer says, rendered by model/Html.v with the custom page
    of that version (or the built-in page). *)
From KP Require Import model.Base model.Trace model.Html model.Pages corr.C08corr corr.C08held.
Local Open Scope N_scope.

(** observation of one request: status, served by a target?, body *)
Definition page_obs := (N * bool * str)%type.

(** [customs]: version -> the custom 503 page (text before / after the message) *)
Definition custom_of_version (customs : list (nat * (str * str))) (v : option nat) : custom_page :=
  match v with Some n => nget customs n | None => None end.

Definition page_obs_ok (pg : page503) (customs : list (nat * (str * str))) (exp : option (option nat * str)) (o : page_obs) : bool :=
  let '(status, forwarded, body) := o in
  match exp with
  | Some (v, m) => negb forwarded && (status =? 503) && str_eqb body (render503 pg (custom_of_version customs v) m)
  | None => forwarded && (status =? 200)
  end.

Fixpoint pages_bad_from (pg : page503) (customs : list (nat * (str * str))) (exps : list (option (option nat * str)))
         (obs : list page_obs) (k : nat) : list nat :=
  match exps, obs with
  | e :: er, o :: or => (if page_obs_ok pg customs e o then [] else [k]) ++ pages_bad_from pg customs er or (S k)
  | [], [] => []
  | _, _ => [k]        (* a request without an observation, or the reverse *)
  end.

(** indices of the requests of the history [ops] whose observed answer is not the model's *)
Definition c08_pages_bad (pg : page503) (customs : list (nat * (str * str))) (ops : list pop) (obs : list page_obs) : list nat :=
  pages_bad_from pg customs (p_answers p_init ops) obs 0.
