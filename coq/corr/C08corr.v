(** C08corr.v — correspondence and monitor of property C08 on histories
    observed from the real router (corr/M4corr.v: [step_obs], replayed by
    [check_history]).

    Two judgements, both evaluated inside Coq on every run (tools/c08.py):

    - [c08_body_mismatches]: the body of every observed 503 answer equals,
      byte for byte, [render503] of the model's message for that request
      (model state replayed with [exec]); the texts of the built-in page are
      read from /repo/internal/pages/503.html by the tool and passed in [env];
    - [c08_monitor]: the property itself on the OBSERVED history alone (no
      model state): which service a request belongs to is decided from the
      observed state file, whether it is stopped from the observed command
      results. *)
From KP Require Import model.Base model.ServiceMap model.Seq model.Html corr.M4corr.
Local Open Scope N_scope.

Record c08_env := mkEnv {
  e_page : page503;          (* internal/pages/503.html, cut at its {{ if .Message }} block *)
  e_custom : str * str       (* the harness's custom 503.html: text before / after {{ .Message }} *) }.

Definition custom_of_pages (env : c08_env) (has_pages : bool) : custom_page :=
  if has_pages then Some (e_custom env) else None.

(** ** Model against implementation: bodies *)

Definition expected_body (env : c08_env) (ig : rollctl -> str -> bool) (st : state) (q : request) : option str :=
  match route (table_of (st_services st)) (q_host q) (q_path q) with
  | None => None
  | Some (n, _) =>
    match svc_get (st_services st) n with
    | None => None
    | Some s =>
      let custom := custom_of_pages env (has_pages (o_pages (s_opts s))) in
      match serve ig st q with
      | R503_stopped m => Some (render503 (e_page env) custom m)
      | R503_tls | R503_no_targets => Some (render503_nil (e_page env) custom)
      | _ => None
      end
    end
  end.

Fixpoint reqs_body_mismatch (env : c08_env) (ig : rollctl -> str -> bool) (st : state)
         (rs : list (request * resp_obs)) (k : N) : list N :=
  match rs with
  | [] => []
  | (q, o) :: r =>
    (match expected_body env ig st q with
     | Some b => if (ro_status o =? 503) && negb (str_eqb (ro_body o) b) then [k] else []
     | None => []
     end) ++ reqs_body_mismatch env ig st r (k + 1)
  end.

Fixpoint body_mismatches_from (env : c08_env) (ig : rollctl -> str -> bool) (v : variant) (st : state)
         (h : list step_obs) (n : nat) : list (nat * N) :=
  match h with
  | [] => []
  | o :: r =>
    let st' := snd (exec v st (so_cmd o)) in
    map (fun k => (n, k)) (reqs_body_mismatch env ig st' (so_requests o) 0)
    ++ body_mismatches_from env ig v st' r (S n)
  end.

Definition c08_body_mismatches (env : c08_env) (ig : rollctl -> str -> bool) (v : variant) (h : list step_obs)
  : list (nat * N) :=
  body_mismatches_from env ig v init_state (upto_panic h) 0.

(** How many observed 503-with-message answers were compared (coverage). *)
Fixpoint stopped_answers_from (ig : rollctl -> str -> bool) (v : variant) (st : state) (h : list step_obs) : N :=
  match h with
  | [] => 0
  | o :: r =>
    let st' := snd (exec v st (so_cmd o)) in
    lenN (filter (fun qo => match serve ig st' (fst qo) with R503_stopped _ => true | _ => false end) (so_requests o))
    + stopped_answers_from ig v st' r
  end.

(** ** The state file and messages that are not valid UTF-8 *)

(** encoding/json writes every undecodable byte of a Go string as U+FFFD (and
    reads that back), so the state file — and the message after a restart —
    holds [json_coerce m].  Identity on valid UTF-8. *)
Fixpoint json_coerce_aux (fuel : nat) (s : str) : str :=
  match fuel with
  | O => []
  | S f =>
    match s with
    | [] => []
    | _ :: _ =>
      let '(r, w) := decode_rune s in
      if (r =? rune_error) && Nat.eqb w 1
      then ent_nul ++ json_coerce_aux f (skipn 1 s)
      else firstn w s ++ json_coerce_aux f (skipn w s)
    end
  end.
Definition json_coerce (s : str) : str := json_coerce_aux (length s) s.

(** ** The monitor: the property on the observed history *)

(** Pause state of a service as far as the OBSERVED command results tell. *)
Inductive track := TRun | TPaused | TStopped (m : str).

Fixpoint track_get (tr : list (str * track)) (n : str) : track :=
  match tr with
  | [] => TRun
  | (k, t) :: r => if str_eqb k n then t else track_get r n
  end.

Definition track_del (tr : list (str * track)) (n : str) : list (str * track) :=
  filter (fun kt => negb (str_eqb (fst kt) n)) tr.

Definition track_set (tr : list (str * track)) (n : str) (t : track) : list (str * track) :=
  (n, t) :: track_del tr n.

(** Only commands that returned success change the tracked state; deploys,
    rollouts and restarts never do (that is the property). *)
Definition track_step (tr : list (str * track)) (c : cmd) (r : res_obs) : list (str * track) :=
  match r with
  | OOk =>
    match c with
    | Stop n m => track_set tr n (TStopped m)
    | Pause n _ => track_set tr n TPaused
    | Resume n => track_set tr n TRun
    | Remove n => track_del tr n
    | Restart => map (fun kt => (fst kt, match snd kt with TStopped m => TStopped (json_coerce m) | t => t end)) tr
    | _ => tr
    end
  | _ => tr
  end.

Fixpoint snap_get (l : list snap_svc) (n : str) : option snap_svc :=
  match l with
  | [] => None
  | s :: r => if str_eqb (sn_name s) n then Some s else snap_get r n
  end.

(** One request against the observed configuration [l] and tracked states. *)
Definition c08_req_ok (env : c08_env) (l : list snap_svc) (tr : list (str * track))
           (q : request) (o : resp_obs) : bool :=
  match route (snap_table l) (q_host q) (q_path q) with
  | None => true
  | Some (n, _) =>
    match snap_get l n with
    | None => true
    | Some s =>
      if sn_tls s && sn_tls_redirect s && negb (q_tls q) then (ro_status o =? 301) && str_eqb (ro_served_by o) []
      else if negb (sn_tls s) && q_tls q then (ro_status o =? 503) && str_eqb (ro_served_by o) []
      else
        match track_get tr n with
        | TStopped m =>
          if q_get q && str_eqb (q_path q) (sn_health_path s)
          then (ro_status o =? 200) && str_eqb (ro_served_by o) []
          else (ro_status o =? 503) && str_eqb (ro_served_by o) [] &&
               str_eqb (ro_body o) (render503 (e_page env) (custom_of_pages env (sn_has_pages s)) m)
        | TPaused => true   (* held requests: property C07 *)
        | TRun =>
          (* forwarded: answered by one of the service's targets.  No claim when the
             service has no active target, or when the request carries a rollout cookie
             and the rollout group exists but is empty (503 "no target" is the normal
             answer of a running service then). *)
          let rollout_ts := match sn_rollout s with Some ts => ts | None => [] end in
          let empty_rollout_group :=
            match q_cookie q, sn_roll s, rollout_ts with Some _, Some _, [] => true | _, _, _ => false end in
          match sn_active s with
          | [] => true
          | _ => empty_rollout_group ||
                 ((ro_status o =? 200) &&
                  (mem_str (ro_served_by o) (sn_active s) || mem_str (ro_served_by o) rollout_ts))
          end
        end
    end
  end.

Fixpoint reqs_monitor (env : c08_env) (l : list snap_svc) (tr : list (str * track))
         (rs : list (request * resp_obs)) (k : N) : list N :=
  match rs with
  | [] => []
  | (q, o) :: r => (if c08_req_ok env l tr q o then [] else [k]) ++ reqs_monitor env l tr r (k + 1)
  end.

Fixpoint monitor_from (env : c08_env) (tr : list (str * track)) (h : list step_obs) (n : nat) : list (nat * N) :=
  match h with
  | [] => []
  | o :: r =>
    let tr' := track_step tr (so_cmd o) (so_result o) in
    (match so_snapshot o with
     | Some l => map (fun k => (n, k)) (reqs_monitor env l tr' (so_requests o) 0)
     | None => []
     end) ++ monitor_from env tr' r (S n)
  end.

(** Failing (step, request) pairs; [] = the property holds on this history. *)
Definition c08_monitor (env : c08_env) (h : list step_obs) : list (nat * N) :=
  monitor_from env [] (upto_panic h) 0.

(** Number of requests the monitor judged against a stopped service (coverage). *)
Fixpoint stopped_judged_from (tr : list (str * track)) (h : list step_obs) : N :=
  match h with
  | [] => 0
  | o :: r =>
    let tr' := track_step tr (so_cmd o) (so_result o) in
    (match so_snapshot o with
     | Some l => lenN (filter (fun qo =>
                   match route (snap_table l) (q_host (fst qo)) (q_path (fst qo)) with
                   | Some (n, _) => match track_get tr' n with TStopped _ => true | _ => false end
                   | None => false
                   end) (so_requests o))
     | None => 0
     end) + stopped_judged_from tr' r
  end.


(** ** Snapshot comparison with coerced messages *)

Definition coerce_snap (s : snap_svc) : snap_svc :=
  mkSnap (sn_name s) (sn_hosts s) (sn_prefixes s) (sn_tls s) (sn_tls_redirect s) (sn_strip s)
         (sn_has_cert_paths s) (sn_has_pages s) (sn_health_path s) (sn_tag s) (sn_active s) (sn_rollout s)
         (sn_pstate s) (json_coerce (sn_msg s)) (sn_fail_after s) (sn_roll s).

(** Snapshot comparison of M4corr.step_mismatch with the coerced message
    (used for histories whose stop messages are not valid UTF-8, where
    M4corr's own snapshot comparison cannot hold). *)
Fixpoint snapshot_mismatches_from (v : variant) (st : state) (h : list step_obs) (n : nat) : list nat :=
  match h with
  | [] => []
  | o :: r =>
    let st' := snd (exec v st (so_cmd o)) in
    (if option_eqb (list_eqb snap_eqb)
          (match st_disk st' with
           | Some l => Some (sort_by sn_name (map (fun s => coerce_snap (snap_of s)) l))
           | None => None end)
          (so_snapshot o) then [] else [n])
    ++ snapshot_mismatches_from v st' r (S n)
  end.

Definition c08_snapshot_mismatches (v : variant) (h : list step_obs) : list nat :=
  snapshot_mismatches_from v init_state (upto_panic h) 0.
