(** C12corr.v — crash-point observations of the real router (harness/c12_test.go),
    the C12 monitor on those observations alone, and their comparison with
    the snapshot view model/M5snap.v run on the event trace of the same
    execution.

    One scenario = a list of crash observations in chronological order.  At
    each of them the harness copied the state directory ("what a process
    killed now leaves"), restored a fresh Router from the copy and recorded
    the parsed file, the restore result, what the restored router lists, and —
    from the live router — the configuration in force in the words of the
    state file (every installed service marshalled at that instant) and what
    it lists.  Configurations and lists are interned by tools/c12.py: equal
    numbers = equal canonical JSON; 0 = no service at all. *)
From KP Require Import model.Base model.Trace model.M5snap.

Inductive fobs :=
| FAbsent                 (* no state file in the copy *)
| FUndecodable            (* empty, truncated or otherwise not one JSON document *)
| FCfg (c : nat).         (* one complete snapshot, interned *)

Record crash_obs := mkCrash {
  co_prefix : nat;        (* events of the trace that precede the crash point *)
  co_file : fobs;
  co_restore_ok : bool;   (* RestoreLastSavedState on the copy returned nil *)
  co_restored : nat;      (* what the restored router lists *)
  co_cfg : nat;           (* configuration in force in the live router *)
  co_list : nat;          (* what the live router lists *)
  co_inprog : list nat;   (* commands issued and not returned, oldest first *)
  co_tmp : nat            (* regular files in the state directory besides the state file *) }.

(** ** The monitor: the property on the observations alone *)

(** (configuration, list) pairs observed since the record that precedes the
    issue of command [c]; [hist] = the earlier records, newest first.  The
    router starts empty: (0, 0). *)
Fixpoint window (c : nat) (hist : list crash_obs) : list (nat * nat) :=
  match hist with
  | [] => [(0, 0)]
  | h :: rest => (co_cfg h, co_list h) :: (if nmem c (co_inprog h) then window c rest else [])
  end.

(** what the file may describe at this crash point: with no command in
    progress the configuration in force now; otherwise a configuration that
    was in force at an observed instant between the start of the oldest
    command still in progress and now *)
Definition allowed (hist : list crash_obs) (r : crash_obs) : list (nat * nat) :=
  match co_inprog r with
  | [] => [(co_cfg r, co_list r)]
  | c :: _ => (co_cfg r, co_list r) :: window c hist
  end.

Definition record_ok (hist : list crash_obs) (r : crash_obs) : bool :=
  match co_file r with
  | FUndecodable => false
  | FAbsent =>
    co_restore_ok r && Nat.eqb (co_restored r) 0 && existsb (fun p => Nat.eqb (fst p) 0) (allowed hist r)
  | FCfg f =>
    co_restore_ok r &&
    existsb (fun p => Nat.eqb (fst p) f && Nat.eqb (snd p) (co_restored r)) (allowed hist r)
  end.

Fixpoint failing_records (hist : list crash_obs) (obs : list crash_obs) (n : nat) : list nat :=
  match obs with
  | [] => []
  | r :: rest => (if record_ok hist r then [] else [n]) ++ failing_records (r :: hist) rest (S n)
  end.

Definition c12_failures (obs : list crash_obs) : list nat := failing_records [] obs 0.
Definition c12_ok (obs : list crash_obs) : bool := match c12_failures obs with [] => true | _ => false end.

(** why a record fails (for the replay file): 1 the file is not one complete
    snapshot (while the empty configuration was in force in the window), 2 the
    file is empty, truncated or missing — the next start serves nothing —
    although a non-empty configuration was in force throughout the window, 3 stale: no command in progress and the file is not the
    configuration in force, 4 a configuration never observed in the window,
    5 the restore failed or lists something else than the file's configuration *)
Definition failure_class (hist : list crash_obs) (r : crash_obs) : nat :=
  match co_file r with
  | FUndecodable => if existsb (fun p => Nat.eqb (fst p) 0) (allowed hist r) then 1 else 2
  | FAbsent => if existsb (fun p => Nat.eqb (fst p) 0) (allowed hist r) then 5 else 2
  | FCfg f =>
    if existsb (fun p => Nat.eqb (fst p) f) (allowed hist r) then 5
    else match co_inprog r with [] => 3 | _ => 4 end
  end.

Fixpoint failure_classes (hist : list crash_obs) (obs : list crash_obs) (n : nat) : list (nat * nat) :=
  match obs with
  | [] => []
  | r :: rest => (if record_ok hist r then [] else [(n, failure_class hist r)]) ++ failure_classes (r :: hist) rest (S n)
  end.

(** ** Comparison with the view *)

(** configuration observed at the first crash point that follows event [k] *)
Fixpoint cfg_after (obs : list crash_obs) (k : nat) : option nat :=
  match obs with
  | [] => None
  | r :: rest => if Nat.ltb k (co_prefix r) then Some (co_cfg r) else cfg_after rest k
  end.

Definition opt_is (o : option nat) (f : nat) : bool := match o with Some x => Nat.eqb x f | None => false end.

(** codes: 1 commands in progress differ, 2 kind of disk content differs,
    3 the file is neither the configuration observed after the collect nor
    after the write of the snapshot the view says is live, 4 the view says
    the file is current and it is not, 5 temporary file *)
Definition view_mismatch (v : tree) (obs : list crash_obs) (s : sstate) (r : crash_obs) : list nat :=
  (if nlist_eqb (in_progress s) (co_inprog r) then [] else [1]) ++
  match s_live s, co_file r with
  | DAbsent, FAbsent => []
  | DTrunc, FUndecodable => []
  | DTorn, _ => []
  | DFile x, FCfg f =>
    (if opt_is (cfg_after obs (fst (s_prov s))) f || opt_is (cfg_after obs (snd (s_prov s))) f then [] else [3]) ++
    (if cfg_eqb x (s_cfg s) && negb (Nat.eqb f (co_cfg r)) then [4] else [])
  | _, _ => [2]
  end ++
  match v with
  | Repaired => match s_temp s with
                | None => if Nat.eqb (co_tmp r) 0 then [] else [5]
                | Some _ => if Nat.eqb (co_tmp r) 1 then [] else [5]
                end
  | Pinned => if Nat.eqb (co_tmp r) 0 then [] else [5]
  end.

Fixpoint view_mismatches (v : tree) (all : list crash_obs) (states : list sstate) (obs : list crash_obs) (n : nat)
  : list (nat * nat) :=
  match obs with
  | [] => []
  | r :: rest =>
    match nth_error states (co_prefix r) with
    | Some s => map (fun c => (n, c)) (view_mismatch v all s r)
    | None => []                       (* beyond the first rejected event: reported as a rejection *)
    end ++ view_mismatches v all states rest (S n)
  end.

Record verdict := mkVerdict {
  vd_reject : option nat;              (* index of the first event the view rejects *)
  vd_monitor : list (nat * nat);       (* failing crash records and their class *)
  vd_view : list (nat * nat)           (* crash records where view and observation differ *) }.

Definition check_scenario (v : tree) (tr : trace) (obs : list crash_obs) : verdict :=
  mkVerdict (first_reject (snap_step v) snap_init tr 0)
            (failure_classes [] obs 0)
            (view_mismatches v obs (scan v snap_init tr) obs 0).

(** ** The state directory as the kernel reports it (harness/c12fs_test.go)

    An inotify watch on the state directory while commands run under the real
    scheduler; the observation is the ordered list of (event, name).  This
    clause does not depend on where the hooks sit: every file-system call on
    the directory is seen.

    Monitor: once the state file has appeared, the only thing that may happen
    to that name is [FsMovedTo] — another file renamed over it, which replaces
    it atomically.  Never a delete or a move away (a window without a state
    file), an in-place write ([FsModify], [FsCloseWrite]: a window with a
    partial file), a second create, or anything else.  Other names (the
    temporary file) are free.  It is the observable counterpart of
    proofs/SnapFacts.v: live_changes_only_at_rename. *)
Fixpoint fs_failures (seen : bool) (evs : list (fsk * fsname)) (n : nat) : list nat :=
  match evs with
  | [] => []
  | (k, FsTemp) :: rest => fs_failures seen rest (S n)
  | (k, FsLive) :: rest =>
    if seen then (match k with FsMovedTo => [] | _ => [n] end) ++ fs_failures true rest (S n)
    else (match k with FsMovedTo | FsCreate => [] | _ => [n] end) ++ fs_failures true rest (S n)
  end.

Definition c12_fs_failures (evs : list (fsk * fsname)) : list nat := fs_failures false evs 0.
Definition c12_fs_ok (evs : list (fsk * fsname)) : bool := match c12_fs_failures evs with [] => true | _ => false end.

Definition count_fs (k : fsk) (nm : fsname) (evs : list (fsk * fsname)) : nat :=
  length (filter (fun e => match fst e, k with
                           | FsCreate, FsCreate | FsMovedTo, FsMovedTo | FsDelete, FsDelete | FsMovedFrom, FsMovedFrom => true
                           | _, _ => false end &&
                           match snd e, nm with FsLive, FsLive | FsTemp, FsTemp => true | _, _ => false end) evs).
