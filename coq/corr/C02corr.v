(** C02corr.v — monitor of C02 on an observed event trace alone, and the
    predicate of the recorded finding (the routing/claim race, D2/D3).

    Scenarios of this check keep one or more services deployed, never paused,
    stopped or removed, redeploy them between healthy target sets and send
    requests whose targets answer 200 (possibly late).  So every request is in
    the scope of C02: it must be answered 200 by a target; the only licence is
    a 504 for a request a drain cut off at its deadline. *)
From KP Require Import model.Base model.Trace.
Local Open Scope N_scope.

(** what the monitor remembers of the trace so far *)
Record mon := mkMon {
  m_routed : list (nat * nat);            (* request -> index of its KRouted *)
  m_refused : list (nat * (nat * nat));   (* request -> (target, index) of its KClaimRefused *)
  m_drain_begin : list (nat * nat);       (* target -> index of its latest KDrainBegin (not an early return) *)
  m_drain_dl : list (nat * N);            (* (goroutine) -> deadline of its open drain *)
  m_snap : list (nat * list nat);         (* goroutine -> snapshot *)
  m_cut : list nat;                       (* requests cancelled by a drain at/after its deadline *)
  m_cut_early : list nat;                 (* requests cancelled by a drain BEFORE its deadline *)
  m_dl_hit : list nat;                    (* goroutines whose drain reported the deadline *)
  m_cmd_dt : list (nat * N);              (* commands in progress -> the drain timeout they were given *)
  m_fail : list (nat * N * nat * bool)    (* event index, code, request, known finding? *)
}.

Definition mon0 : mon := mkMon [] [] [] [] [] [] [] [] [] [].

Definition gid (a : actor) : nat := match a with AGo g => g | ACmd c => c | AReq r => r | AEnv => 0 end.

(** codes: 1 = 404, 2 = 502, 3 = 503, 4 = 504 without a deadline cut, 5 = 200 without a target,
    6 = other status, 7 = cut off before the deadline *)
Definition code_of (status : N) : N :=
  if status =? 404 then 1 else if status =? 502 then 2 else if status =? 503 then 3
  else if status =? 504 then 4 else 6.

Definition mon_step (m : mon) (i : nat) (e : event) : mon :=
  match e_k e with
  | KRouted r _ => mkMon (nset (m_routed m) r i) (m_refused m) (m_drain_begin m) (m_drain_dl m) (m_snap m)
                         (m_cut m) (m_cut_early m) (m_dl_hit m) (m_cmd_dt m) (m_fail m)
  | KClaimRefused t r => mkMon (m_routed m) (nset (m_refused m) r (t, i)) (m_drain_begin m) (m_drain_dl m) (m_snap m)
                               (m_cut m) (m_cut_early m) (m_dl_hit m) (m_cmd_dt m) (m_fail m)
  | KParams c _ dt _ => mkMon (m_routed m) (m_refused m) (m_drain_begin m) (m_drain_dl m) (m_snap m) (m_cut m) (m_cut_early m)
                             (m_dl_hit m) (nset (m_cmd_dt m) c dt) (m_fail m)
  | KReturn c _ => mkMon (m_routed m) (m_refused m) (m_drain_begin m) (m_drain_dl m) (m_snap m) (m_cut m) (m_cut_early m)
                         (m_dl_hit m) (filter (fun p => negb (Nat.eqb (fst p) c)) (m_cmd_dt m)) (m_fail m)
  | KDrainBegin t orig timeout =>
    (* the grace period is the drain timeout a command in progress was GIVEN (the smallest one if several are
       in progress), not whatever the Drain call was passed *)
    let granted := match map snd (m_cmd_dt m) with
                   | [] => timeout
                   | d :: ds => fold_left N.min ds d end in
    match orig with
    | TDraining => m
    | _ => mkMon (m_routed m) (m_refused m) (nset (m_drain_begin m) t i)
                 (nset (m_drain_dl m) (gid (e_by e)) (e_t e + granted)) (nset (m_snap m) (gid (e_by e)) [])
                 (m_cut m) (m_cut_early m) (nremove (gid (e_by e)) (m_dl_hit m)) (m_cmd_dt m) (m_fail m)
    end
  | KDrainSnapshot _ rs => mkMon (m_routed m) (m_refused m) (m_drain_begin m) (m_drain_dl m)
                                 (nset (m_snap m) (gid (e_by e)) (map fst rs))
                                 (m_cut m) (m_cut_early m) (m_dl_hit m) (m_cmd_dt m) (m_fail m)
  | KDrainDeadline _ => mkMon (m_routed m) (m_refused m) (m_drain_begin m) (m_drain_dl m) (m_snap m)
                              (m_cut m) (m_cut_early m) (gid (e_by e) :: m_dl_hit m) (m_cmd_dt m) (m_fail m)
  | KDrainCancelRest _ =>
    let g := gid (e_by e) in
    let sn := match nget (m_snap m) g with Some l => l | None => [] end in
    let late := nmem g (m_dl_hit m) &&
                match nget (m_drain_dl m) g with Some d => d <=? e_t e | None => false end in
    if late then mkMon (m_routed m) (m_refused m) (m_drain_begin m) (m_drain_dl m) (m_snap m)
                       (sn ++ m_cut m) (m_cut_early m) (m_dl_hit m) (m_cmd_dt m) (m_fail m)
    else mkMon (m_routed m) (m_refused m) (m_drain_begin m) (m_drain_dl m) (m_snap m)
               (m_cut m) (sn ++ m_cut_early m) (m_dl_hit m) (m_cmd_dt m) (m_fail m)
  | KTargetFailed _ r why =>
    (* cancelled by a drain although no drain had reached its deadline with r in its snapshot *)
    if (why =? 1) && negb (nmem r (m_cut m)) then
      mkMon (m_routed m) (m_refused m) (m_drain_begin m) (m_drain_dl m) (m_snap m) (m_cut m) (m_cut_early m)
            (m_dl_hit m) (m_cmd_dt m) ((i, 7, r, false) :: m_fail m)
    else m
  | KRespond r status sb =>
    let ok := ((status =? 200) && negb (Nat.eqb (length sb) 0)) || ((status =? 504) && nmem r (m_cut m)) in
    if ok then m else
    let code := if status =? 200 then 5 else code_of status in
    (* the recorded finding: refused because its target began draining after the request was routed *)
    let known :=
      (status =? 503) &&
      match nget (m_refused m) r, nget (m_routed m) r with
      | Some (t, _), Some ri =>
        match nget (m_drain_begin m) t with
        | Some di => Nat.ltb ri di
        | None => false
        end
      | _, _ => false
      end in
    mkMon (m_routed m) (m_refused m) (m_drain_begin m) (m_drain_dl m) (m_snap m) (m_cut m) (m_cut_early m)
          (m_dl_hit m) (m_cmd_dt m) ((i, code, r, known) :: m_fail m)
  | _ => m
  end.

Fixpoint mon_run (m : mon) (i : nat) (tr : trace) : mon :=
  match tr with
  | [] => m
  | e :: r => mon_run (mon_step m i e) (S i) r
  end.

(** ** Overlapping commands on one service are outside the property's quantifier

    C02 speaks of requests interleaved with the steps of THE deploy command "over any sequence of SUCCESSIVE
    redeploys".  When a second command on a service is issued while an earlier one on that service has not returned
    (e.g. a rollout deploy that fetched the service object before an overlapping deploy replaced it re-installs the
    old object afterwards: observation D14), the requests of that service answered from then on are not judged. *)
Record ovl := mkOvl {
  ov_busy : list (nat * str);      (* commands in progress with the service they address *)
  ov_taint : list str;             (* services on which commands have overlapped *)
  ov_names : list (nat * str);     (* service object -> name *)
  ov_rsvc : list (nat * nat);      (* request -> service object it was routed to *)
  ov_skip : list nat               (* requests not judged *)
}.

Definition ovl_step (o : ovl) (e : event) : ovl :=
  match e_k e with
  | KSvcName s n => mkOvl (ov_busy o) (ov_taint o) (nset (ov_names o) s n) (ov_rsvc o) (ov_skip o)
  | KIssue c _ name =>
    let clash := existsb (fun p => str_eqb (snd p) name) (ov_busy o) in
    mkOvl (nset (ov_busy o) c name) (if clash then name :: ov_taint o else ov_taint o) (ov_names o) (ov_rsvc o) (ov_skip o)
  | KReturn c _ => mkOvl (filter (fun p => negb (Nat.eqb (fst p) c)) (ov_busy o)) (ov_taint o) (ov_names o) (ov_rsvc o) (ov_skip o)
  | KRouted r (Some s) => mkOvl (ov_busy o) (ov_taint o) (ov_names o) (nset (ov_rsvc o) r s) (ov_skip o)
  | KRespond r _ _ =>
    let tainted := match nget (ov_rsvc o) r with
                   | Some s => match nget (ov_names o) s with
                               | Some n => existsb (str_eqb n) (ov_taint o)
                               | None => false end
                   | None => false end in
    if tainted then mkOvl (ov_busy o) (ov_taint o) (ov_names o) (ov_rsvc o) (r :: ov_skip o) else o
  | _ => o
  end.

Definition not_judged (tr : trace) : list nat := ov_skip (fold_left ovl_step tr (mkOvl [] [] [] [] [])).

(** failures: (event index, code, request, matches the recorded finding) *)
Definition c02_check (tr : trace) : list (nat * N * nat * bool) :=
  let skip := not_judged tr in
  filter (fun f => negb (nmem (snd (fst f)) skip)) (rev (m_fail (mon_run mon0 0 tr))).

(** Streamed responses (no Content-Length, body in parts): the client may receive a truncated body only when a drain cut the
    request off at or after its deadline.  [truncated] = the requests whose body the harness' client found incomplete. *)
Definition c02_trunc_bad (tr : trace) (truncated : list nat) : list nat :=
  let m := mon_run mon0 0 tr in
  let skip := not_judged tr in
  filter (fun r => negb (nmem r (m_cut m)) && negb (nmem r skip)) truncated.

Definition c02_ok (tr : trace) : bool := match c02_check tr with [] => true | _ => false end.
