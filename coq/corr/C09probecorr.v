(** C09probecorr.v — correspondence for the first clause of C09 ("after deployment
    every target keeps being probed at the configured interval"): how the probe
    times observed on the real code under the virtual clock (tools/c09probe.py,
    harness/sim_test.go: events probe-sent / probe-apply / probe-stop of one target)
    are compared EXACTLY with model/Ticker.v, and the monitor: the cadence property
    as a boolean on the observed times alone. *)
From KP Require Import model.Base model.Ticker.
Local Open Scope N_scope.

(** What is observed of one target's probe loop, in order. *)
Inductive oev :=
| OSent (t : N)                 (* a probe request reached the target *)
| OResult (t : N) (ok : bool).  (* HealthCheckCompleted(ok) *)

(** Checks never overlap: every probe sent is followed by its result before the
    next one is sent; only the last probe may lack a result (abandoned by Close);
    there is no result without a probe. *)
Fixpoint pair_obs (evs : list oev) : option (list probe) :=
  match evs with
  | [] => Some []
  | OSent s :: OResult e ok :: rest =>
    match pair_obs rest with
    | Some ps => Some ((s, Some (e, ok)) :: ps)
    | None => None
    end
  | [OSent s] => Some [(s, None)]
  | _ => None
  end.

(** The observation the model predicts. *)
Definition obs_of (ps : list probe) : list oev :=
  flat_map (fun p : probe => match snd p with
                             | Some (e, ok) => [OSent (fst p); OResult e ok]
                             | None => [OSent (fst p)]
                             end) ps.

Definition res_eqb (a b : option (N * bool)) : bool :=
  match a, b with
  | Some (e1, o1), Some (e2, o2) => (e1 =? e2) && Bool.eqb o1 o2
  | None, None => true
  | _, _ => false
  end.

Definition probe_eqb (a b : probe) : bool := (fst a =? fst b) && res_eqb (snd a) (snd b).

Record case := mkCase {
  c_t0 : N;                (* instant the loop was started (deploy) *)
  c_interval : N;
  c_timeout : N;
  c_script : list answer;  (* the scripted answers, the last one repeated well beyond the stop *)
  c_stop : option N;       (* instant of Close() *)
  c_obs : list oev         (* observed *)
}.

Definition model_of (c : case) : list probe :=
  probe_times (c_t0 c) (c_interval c) (c_timeout c) (c_script c) (c_stop c).

(** The script handed to the model was long enough: the model's run was ended by
    the stop, not by the end of the script. *)
Definition fuel_ok (c : case) : bool := (length (model_of c) <? length (c_script c))%nat.

(** Observed = model, exactly (every send time, result time and result). *)
Definition agrees (c : case) : bool :=
  match pair_obs (c_obs c) with
  | Some ps => list_eqb probe_eqb ps (model_of c) && fuel_ok c
  | None => false
  end.

(** ** The monitor: the cadence property on the observed times alone *)

Definition le_stop (stop : option N) (t : N) : bool := negb (after_stop stop t).

(** The instant at which the probe after a check that ran from [s] to [e] is due,
    in terms of the phase of [s] on the tick grid t0 + k*interval: if the check did
    not reach the next tick, that tick; otherwise (a tick fired meanwhile and waits
    in the channel) at once.  (A formula independent of Ticker.next_start; the two
    are proved equal in proofs/TickerFacts.v: next_start_closed.) *)
Definition next_due (t0 interval s e : N) : N :=
  if phase t0 interval s + (e - s) <? interval then s - phase t0 interval s + interval else e.

(** consecutive probes: the next one is sent exactly when it is due; in particular
    no earlier than the result of this one (no overlap), at most one interval after
    it, at most max(interval, duration) after the previous one, and on the tick
    grid unless a tick was waiting. *)
Definition consecutive_ok (t0 interval s e s' : N) : bool :=
  (s' =? next_due t0 interval s e) &&
  (e <=? s') && (s' <=? e + interval) && (s' <=? s + N.max interval (e - s)) &&
  ((s' =? e) || on_grid t0 interval s').

Fixpoint cadence_from (t0 interval timeout : N) (stop : option N) (ps : list probe) : bool :=
  match ps with
  | [] => true
  | (s, r) :: rest =>
    le_stop stop s &&
    match r with
    | None =>
      (* abandoned: only the last one, and only because of the stop *)
      match rest with [] => after_stop stop (s + timeout) | _ => false end
    | Some (e, _) =>
      (s <=? e) && (e <=? s + timeout) && le_stop stop e &&
      match rest with
      | [] => after_stop stop (next_due t0 interval s e)   (* no further probe: only because of the stop *)
      | (s', _) :: _ => consecutive_ok t0 interval s e s' && cadence_from t0 interval timeout stop rest
      end
    end
  end.

(** all observed checks shorter than the interval *)
Definition all_fast (interval : N) (ps : list probe) : bool :=
  forallb (fun p : probe => match snd p with Some (e, _) => e - fst p <? interval | None => true end) ps.

Fixpoint exact_grid_from (interval : N) (s : N) (ps : list probe) : bool :=
  match ps with
  | [] => true
  | (s', _) :: rest => (s' =? s) && exact_grid_from interval (s + interval) rest
  end.

Definition probes_ok (t0 interval timeout : N) (stop : option N) (ps : list probe) : bool :=
  match ps with
  | [] => after_stop stop t0                         (* nothing was sent: stopped before it began *)
  | (s0, _) :: _ =>
    (s0 =? t0) && cadence_from t0 interval timeout stop ps &&
    (negb (all_fast interval ps) || exact_grid_from interval t0 ps)
  end.

Definition c09_probe_ok (t0 interval timeout : N) (stop : option N) (obs : list oev) : bool :=
  match pair_obs obs with
  | Some ps => probes_ok t0 interval timeout stop ps
  | None => false
  end.

Definition monitor (c : case) : bool :=
  c09_probe_ok (c_t0 c) (c_interval c) (c_timeout c) (c_stop c) (c_obs c).

(** ** Evaluation of a list of cases *)

Fixpoint failing_from (f : case -> bool) (i : nat) (cs : list case) : list nat :=
  match cs with
  | [] => []
  | c :: rest => if f c then failing_from f (S i) rest else i :: failing_from f (S i) rest
  end.

(** indices of the cases whose observed times differ from the model's *)
Definition mismatches (cs : list case) : list nat := failing_from agrees 0 cs.

(** indices of the cases whose observation violates the cadence property *)
Definition monitor_failures (cs : list case) : list nat := failing_from monitor 0 cs.

(** (index, agrees, monitor) of every case that fails either *)
Fixpoint failures_from (i : nat) (cs : list case) : list (nat * bool * bool) :=
  match cs with
  | [] => []
  | c :: rest =>
    let a := agrees c in
    let m := monitor c in
    if a && m then failures_from (S i) rest else (i, a, m) :: failures_from (S i) rest
  end.
Definition failures (cs : list case) : list (nat * bool * bool) := failures_from 0 cs.

(** statistics of one case: probes sent, results, failing results, sends off the
    grid (started from a waiting tick), abandoned probes *)
Definition stats (c : case) : nat * nat * nat * nat * nat :=
  match pair_obs (c_obs c) with
  | None => (0, 0, 0, 0, 0)%nat
  | Some ps =>
    (length ps,
     length (filter (fun p : probe => match snd p with Some _ => true | None => false end) ps),
     length (filter (fun p : probe => match snd p with Some (_, false) => true | _ => false end) ps),
     length (filter (fun p : probe => negb (on_grid (c_t0 c) (c_interval c) (fst p))) ps),
     length (filter (fun p : probe => match snd p with None => true | Some _ => false end) ps))
  end.

(** what the model predicts for a case (shown in a replay file) *)
Definition predicted (c : case) : list oev := obs_of (model_of c).
