(** C08held.v — requests that are being HELD by a pause when the service is stopped.

    The sequential histories of the C08 run answer every request before the
    next command is issued.  The property also covers the requests a stop finds
    waiting at the gate ("every request for it, arriving at any time relative to
    the stop"): once the stop has taken effect each of them is answered by the
    proxy itself — 503 with the rendered operator message, or 200 for a GET of
    the health-check path — and none is forwarded or left to run into the pause
    timeout.  This monitor reads that off the observed answers alone. *)
From KP Require Import model.Base model.Html corr.C08corr.
Local Open Scope N_scope.

(** one observed answer: GET on the health path?, status, served by a target?, body *)
Definition held_obs := (bool * N * bool * str)%type.

Definition held_req_ok (env : c08_env) (custom : bool) (msg : str) (o : held_obs) : bool :=
  let '(health, status, forwarded, body) := o in
  negb forwarded &&
  (if health then (status =? 200)
   else (status =? 503) && str_eqb body (render503 (e_page env) (custom_of_pages env custom) msg)).

(** indices of the answers that are wrong *)
Fixpoint held_bad_from (env : c08_env) (custom : bool) (msg : str) (l : list held_obs) (k : nat) : list nat :=
  match l with
  | [] => []
  | o :: r => (if held_req_ok env custom msg o then [] else [k]) ++ held_bad_from env custom msg r (S k)
  end.

Definition c08_held_bad (env : c08_env) (custom : bool) (msg : str) (l : list held_obs) : list nat :=
  held_bad_from env custom msg l 0.
