(** C10corr.v — correspondence for C10: how the observations made on the real
    code (harness/c10_test.go) are compared with model/Rollout.v, and the
    monitors (the property, as a predicate on one observed case). *)
From KP Require Import model.Base model.Rollout.
Local Open Scope N_scope.

Definition listN_eqb := list_eqb N.eqb.

(** Observed side of one request: 0 = a backend of the active deployment
    answered, 1 = a backend of the rollout deployment, 2 = anything else
    (proxy error page, panic). *)
Definition side_code (s : side) : N := match s with Active => 0 | Rollout => 1 end.

(** http.Transport refuses to send header values containing control bytes
    other than tab (httpguts.ValidHeaderFieldValue); for such Cookie lines
    "which backend answered" is not observable and the harness's second
    observation (the balancer returned by loadBalancerForRequest) is used. *)
Definition wire_ok_byte (b : byte) : bool :=
  ((32 <=? byte_n b) && negb (byte_n b =? 127)) || (byte_n b =? 9).
Definition wire_ok (lines : list str) : bool := forallb (forallb wire_ok_byte) lines.

Definition observed_side (lines : list str) (lb served : N) : N :=
  if wire_ok lines then served else lb.

(** ** Split cases: one allowlist, several percentages, the same requests at each *)

Record pobs := mkPobs {
  po_set_ok : bool;        (* SetRolloutSplit returned nil *)
  po_floor : option Z;     (* floor of percentage_split_point read back from the state file; None: the
                              state file does not hold the controller with this percentage *)
  po_lb : list N;          (* per request: balancer chosen (0 active / 1 rollout / 2 panic) *)
  po_served : list N }.    (* per request: who answered *)

Definition floor_ok (p : Z) (fo : option Z) : bool :=
  match fo with
  | None => false
  | Some f => (if p <? 0 then f <? 0 else if 100 <? p then 4294967295 <=? f else f =? T p)%Z
  end.

Fixpoint zip3 {A B C} (a : list A) (b : list B) (c : list C) : option (list (A * B * C)) :=
  match a, b, c with
  | [], [], [] => Some []
  | x :: a', y :: b', z :: c' =>
    match zip3 a' b' c' with Some r => Some ((x, y, z) :: r) | None => None end
  | _, _, _ => None
  end.

Definition split_agree_at (allow : list str) (reqs : list (list str)) (p : Z) (o : pobs) : bool :=
  po_set_ok o && floor_ok p (po_floor o) &&
  match zip3 reqs (po_lb o) (po_served o) with
  | None => false
  | Some rows =>
    forallb (fun '(lines, lb, served) =>
      let m := side_code (pick true (Some (mkSplit p allow)) lines) in
      (lb =? m) && (negb (wire_ok lines) || (served =? m))) rows
  end.

Fixpoint forallb2 {A B} (f : A -> B -> bool) (a : list A) (b : list B) : bool :=
  match a, b with
  | [], [] => true
  | x :: a', y :: b' => f x y && forallb2 f a' b'
  | _, _ => false
  end.

Definition split_agree (allow : list str) (pcts : list Z) (reqs : list (list str)) (os : list pobs) : bool :=
  forallb2 (split_agree_at allow reqs) pcts os.

(** Monitor clauses that need no exact threshold: not opted in => active;
    allowlisted => rollout; 100% => rollout; and, for 0..100, hashes further
    than 1/2^32 of the range from p/100 are decided by the percentage itself:
    100*(h+1) <= p*2^32 - 100 => rollout,  100*(h+1) > p*2^32 + 100 => active. *)
Definition req_monitor (allow : list str) (p : Z) (lines : list str) (o : N) : bool :=
  match request_cookie rollout_cookie_name lines with
  | None | Some [] => o =? 0
  | Some v =>
    if mem_str v allow then o =? 1
    else if (100 <=? p)%Z then o =? 1
    else if (p <? 0)%Z then (o =? 0) || (o =? 1)
    else
      let a := (100 * (Z.of_N (fnv1a v) + 1))%Z in
      let pp := (p * 4294967296)%Z in
      if (a <=? pp - 100)%Z then o =? 1
      else if (pp + 100 <? a)%Z then o =? 0
      else (o =? 0) || (o =? 1)
  end.

Definition sides_at (reqs : list (list str)) (o : pobs) : option (list (list str * N)) :=
  match zip3 reqs (po_lb o) (po_served o) with
  | None => None
  | Some rows => Some (map (fun '(lines, lb, served) => (lines, observed_side lines lb served)) rows)
  end.

(** Sticky: equal cookie values are on the same side (at one configuration). *)
Definition sticky_ok (rows : list (list str * N)) : bool :=
  let keyed := map (fun '(lines, o) => (request_cookie rollout_cookie_name lines, o)) rows in
  forallb (fun '(k1, o1) =>
    forallb (fun '(k2, o2) => negb (option_eqb str_eqb k1 k2) || (o1 =? o2)) keyed) keyed.

(** Monotone: on the rollout side at p implies on the rollout side at every q >= p. *)
Definition monotone_ok (p q : Z) (a b : list (list str * N)) : bool :=
  negb (p <=? q)%Z || forallb2 (fun '(_, o1) '(_, o2) => negb (o1 =? 1) || (o2 =? 1)) a b.

Definition split_monitor (allow : list str) (pcts : list Z) (reqs : list (list str)) (os : list pobs) : bool :=
  match
    (fix go (ps : list Z) (os : list pobs) : option (list (Z * list (list str * N))) :=
       match ps, os with
       | [], [] => Some []
       | p :: ps', o :: os' =>
         match sides_at reqs o, go ps' os' with
         | Some rows, Some r => Some ((p, rows) :: r)
         | _, _ => None
         end
       | _, _ => None
       end) pcts os
  with
  | None => false
  | Some tbl =>
    forallb (fun '(p, rows) =>
      forallb (fun '(lines, o) => req_monitor allow p lines o) rows && sticky_ok rows) tbl
    && forallb (fun '(p, a) => forallb (fun '(q, b) => monotone_ok p q a b) tbl) tbl
    && forallb po_set_ok os
  end.

(** ** History cases *)

Inductive xobs :=
| XOk | XErrNoRollout | XErrOther
| XServed (id : nat)
| XStatus (code : N).          (* answered by the proxy itself *)

Definition xobs_eqb (a b : xobs) : bool :=
  match a, b with
  | XOk, XOk | XErrNoRollout, XErrNoRollout | XErrOther, XErrOther => true
  | XServed i, XServed j => Nat.eqb i j
  | XStatus c, XStatus d => c =? d
  | _, _ => false
  end.

Definition x_of (o : hobs) : xobs :=
  match o with
  | OOk => XOk
  | OErrNoRollout => XErrNoRollout
  | OServed id => XServed id
  end.

Definition hist_model (id : nat) (cmds : list hcmd) : list xobs := map x_of (snd (hrun (init_svc id) cmds)).
Definition hist_spec (id : nat) (cmds : list hcmd) : list xobs := map x_of (snd (spec_run (init_spec id) cmds)).

(** The property on one observed history: it reads as [spec_run] says. *)
Definition hist_monitor (id : nat) (cmds : list hcmd) (o : list xobs) : bool :=
  list_eqb xobs_eqb (hist_spec id cmds) o.

(** Agreement: the observation is what the model gives. *)
Definition hist_agree (id : nat) (cmds : list hcmd) (o : list xobs) : bool :=
  list_eqb xobs_eqb (hist_model id cmds) o.

(** ** Cases and verdicts *)

Inductive c10_case :=
| CaseSplit (allow : list str) (pcts : list Z) (reqs : list (list str)) (os : list pobs)
| CaseHist (id : nat) (cmds : list hcmd) (o : list xobs).

(** (agrees with the model, satisfies the monitor) *)
Definition check_case (c : c10_case) : bool * bool :=
  match c with
  | CaseSplit allow pcts reqs os => (split_agree allow pcts reqs os, split_monitor allow pcts reqs os)
  | CaseHist id cmds o => (hist_agree id cmds o, hist_monitor id cmds o)
  end.

Fixpoint failures_aux (cs : list c10_case) (n : nat) : list (nat * bool * bool) :=
  match cs with
  | [] => []
  | c :: r =>
    let '(a, m) := check_case c in
    if a && m then failures_aux r (S n) else (n, a, m) :: failures_aux r (S n)
  end.
Definition failures (cs : list c10_case) := failures_aux cs 0.
