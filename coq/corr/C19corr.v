(** C19corr.v — correspondence for C19: the JSON access-log records captured
    from the real LoggingMiddleware (harness/c19_test.go), alone (unit level)
    and under the whole handler chain of a real Server (chain level), compared
    with model/Logging.v; and the monitor = C19's statement on the observed
    records joined with what client and target saw. *)
From KP Require Import model.Base model.Url model.ServiceMap model.Headers model.Buffer
  model.ProxyError model.ErrorPage model.Logging.
Local Open Scope N_scope.

Definition pairs_eqb (a b : list (str * str)) : bool :=
  list_eqb (fun x y => str_eqb (fst x) (fst y) && str_eqb (snd x) (snd y)) a b.

Definition record_eqb (a b : record) : bool :=
  str_eqb (r_host a) (r_host b) && (r_port a =? r_port b) && str_eqb (r_path a) (r_path b) &&
  str_eqb (r_request_id a) (r_request_id b) && (r_status a =? r_status b) &&
  str_eqb (r_service a) (r_service b) && str_eqb (r_target a) (r_target b) &&
  str_eqb (r_method a) (r_method b) && Z.eqb (r_req_content_length a) (r_req_content_length b) &&
  str_eqb (r_req_content_type a) (r_req_content_type b) &&
  (r_resp_content_length a =? r_resp_content_length b) &&
  str_eqb (r_resp_content_type a) (r_resp_content_type b) &&
  str_eqb (r_client_addr a) (r_client_addr b) && str_eqb (r_client_port a) (r_client_port b) &&
  str_eqb (r_remote_addr a) (r_remote_addr b) && str_eqb (r_user_agent a) (r_user_agent b) &&
  str_eqb (r_proto a) (r_proto b) && str_eqb (r_scheme a) (r_scheme b) && str_eqb (r_query a) (r_query b).

(** The harness reads the JSON object into a map: the order of the custom
    attributes is lost, so they are compared as multisets. *)
Definition pair_mem (x : str * str) (l : list (str * str)) : bool :=
  existsb (fun y => str_eqb (fst x) (fst y) && str_eqb (snd x) (snd y)) l.
Definition same_attrs (a b : list (str * str)) : bool :=
  (length a =? length b)%nat && forallb (fun x => pair_mem x b) a && forallb (fun x => pair_mem x a) b.

(** ** Unit level: the middleware around a scripted handler and writer *)

Record unit_in := mkUnitIn {
  ui_http_port : N; ui_https_port : N;
  ui_req : request;
  ui_ctx : option lctx;          (* None: the handler does not touch the context *)
  ui_resp_headers : headers;     (* set on w.Header() by the handler *)
  ui_ops : list wop;
  ui_panic : bool }.

Definition unit_model (i : unit_in) : list record :=
  logging_mw (ui_http_port i) (ui_https_port i) (ui_req i)
    (mkRun (match ui_ctx i with Some c => c | None => lctx_init end) (ui_ops i) (ui_resp_headers i)
           (if ui_panic i then HPanic else HReturn)).

Definition unit_agree (i : unit_in) (recs : list record) : bool :=
  list_eqb (fun a b => record_eqb a b && same_attrs (r_extra a) (r_extra b)) recs (unit_model i).

(** coherence of the calls, as in proofs/LoggingFacts.v (restated: corr files
    do not depend on proofs) *)
Definition sets (o : wop) : option N :=
  match o with OpWriteHeader s => Some s | OpHijack true => Some 101 | _ => None end.
Fixpoint last_setting (ops : list wop) : option N :=
  match ops with
  | [] => None
  | o :: r => match last_setting r with Some s => Some s | None => sets o end
  end.
Definition coherent (ops : list wop) : bool :=
  forallb (fun o => match sets o with Some s => informational s || (s =? client_status ops) | None => true end) ops &&
  match last_setting ops with Some s => negb (informational s) | None => true end.

Definition accepted_sum (ops : list wop) : N :=
  sumN (map (fun o => match o with OpWrite _ n => n | _ => 0 end) ops).

(** The property on one unit observation: exactly one record; the status is
    the one the client is told (when the calls are coherent — every path of
    the real chain is, see props/C19.v); the length is what the underlying
    writer accepted; method, host, path, query, request id, service and target
    are the request's / the context's. *)
Definition unit_monitor (i : unit_in) (recs : list record) : bool :=
  match recs with
  | [r] =>
    (negb (coherent (ui_ops i)) || (r_status r =? client_status (ui_ops i))) &&
    (r_resp_content_length r =? accepted_sum (ui_ops i)) &&
    str_eqb (r_method r) (rq_method (ui_req i)) && str_eqb (r_host r) (rq_host (ui_req i)) &&
    str_eqb (r_path r) (rq_path (ui_req i)) && str_eqb (r_query r) (rq_query (ui_req i)) &&
    str_eqb (r_request_id r) (hget K_rid (rq_headers (ui_req i))) &&
    str_eqb (r_service r) (match ui_ctx i with Some c => lc_service c | None => [] end) &&
    str_eqb (r_target r) (match ui_ctx i with Some c => lc_target c | None => [] end)
  | _ => false
  end.

(** ** Chain level *)

Inductive cclass :=
| CServed (status : N) (body_len : N)     (* the target's complete response (HEAD/204/304: body_len 0) *)
| CServedHints (status : N) (body_len : N)   (* the same, preceded by 103 Early Hints *)
| CNoRoute | CPausedOut | CStopped | CRedirect | CTlsRefused
| CFault502 | CTimeout504 | CReqTooLarge | CRespTooLarge (body_len : N)
| CClientAbort | CUpgrade | CCut (status : N) (sent : N) | CClaimRefused.

Record chain_in := mkChainIn {
  ci_class : cclass;
  ci_method : str; ci_host : str; ci_path : str; ci_query : str;   (* as sent (path decoded) *)
  ci_rid : option str;                 (* X-Request-ID supplied by the client *)
  ci_sent : headers;                   (* request headers as sent, keys canonicalised, in order *)
  ci_service : str;                    (* the service routing must pick ("" none) *)
  ci_log_req : list str; ci_log_resp : list str;   (* header names configured for that service, as configured *)
  ci_buffer : bool; ci_max_resp : N; ci_custom : bool }.

Record chain_obs := mkChainObs {
  ob_status : option N;        (* status line the client received (final response) *)
  ob_complete : bool;
  ob_body_len : N;
  ob_headers : headers;        (* response headers the client received *)
  ob_target_hit : bool;
  ob_target_rid : str;         (* X-Request-Id the target received *)
  ob_claimed : list str;       (* targets claimed for this request (StartRequest hook) *)
  ob_records : list record }.

Definition is_head (m : str) : bool := str_eqb m (bs "HEAD").

Definition expected_attrs (i : chain_in) (o : chain_obs) : list (str * str) :=
  custom_attrs (canonicalize_names (ci_log_req i)) (ci_sent i) (bs "req") ++
  custom_attrs (canonicalize_names (ci_log_resp i)) (ob_headers o) (bs "resp").

Definition req_attrs_only (i : chain_in) : list (str * str) :=
  custom_attrs (canonicalize_names (ci_log_req i)) (ci_sent i) (bs "req").

Definition is_req_attr (kv : str * str) : bool := has_prefix (fst kv) (bs "req_").

Definition chain_monitor (i : chain_in) (o : chain_obs) : bool :=
  match ob_records o with
  | [r] =>
    (* status as seen by the client; a client that left before any response is logged as 499 *)
    match ob_status o with
    | Some s => r_status r =? s
    | None => match ci_class i with CClientAbort => r_status r =? 499 | _ => true end
    end &&
    (* response byte count = body bytes received, for complete responses (not for taken-over connections) *)
    match ob_status o, ci_class i with
    | Some _, CUpgrade => true
    | Some _, _ => negb (ob_complete o) || (r_resp_content_length r =? ob_body_len o)
    | None, _ => true
    end &&
    str_eqb (r_method r) (ci_method i) && str_eqb (r_host r) (ci_host i) &&
    str_eqb (r_path r) (ci_path i) && str_eqb (r_query r) (ci_query i) &&
    match ci_rid i with
    | Some id => str_eqb (r_request_id r) id
    | None => negb (is_empty (r_request_id r)) && (negb (ob_target_hit o) || str_eqb (r_request_id r) (ob_target_rid o))
    end &&
    str_eqb (r_service r) (ci_service i) &&
    match ob_claimed o with
    | [] => is_empty (r_target r) && is_empty (r_extra r)
    | [t] =>
      str_eqb (r_target r) t &&
      match ob_status o with
      | Some _ => same_attrs (r_extra r) (expected_attrs i o)
      | None => same_attrs (filter is_req_attr (r_extra r)) (req_attrs_only i)
      end
    | _ => false
    end
  | _ => false
  end.

(** Known finding F1: a HEAD request answered with a proxy-generated page is
    logged with the page's length although no body is sent. *)
Definition known_f1 (i : chain_in) (o : chain_obs) : bool :=
  is_head (ci_method i) &&
  match ob_records o, ob_status o with
  | [r], Some s => (ob_body_len o =? 0) && (0 <? r_resp_content_length r) && (400 <=? s)
  | _, _ => false
  end.
(** Known finding F2: a configured response header that net/http generates
    itself (Date) is logged empty although the client receives one. *)
Definition K_date' := bs "Date".
Definition known_f2 (i : chain_in) (o : chain_obs) : bool :=
  existsb (fun n => str_eqb (canonical_key n) K_date') (ci_log_resp i) &&
  match ob_records o with
  | [r] => pair_mem (bs "resp_date", []) (r_extra r) && negb (is_empty (hget K_date' (ob_headers o)))
  | _ => false
  end.

(** the monitor with the finding's field left out *)
Definition without_len (r : record) (n : N) : record :=
  mkRec (r_host r) (r_port r) (r_path r) (r_request_id r) (r_status r) (r_service r) (r_target r) (r_method r)
        (r_req_content_length r) (r_req_content_type r) n (r_resp_content_type r) (r_client_addr r) (r_client_port r)
        (r_remote_addr r) (r_user_agent r) (r_proto r) (r_scheme r) (r_query r) (r_extra r).
Definition without_date (r : record) (v : str) : record :=
  mkRec (r_host r) (r_port r) (r_path r) (r_request_id r) (r_status r) (r_service r) (r_target r) (r_method r)
        (r_req_content_length r) (r_req_content_type r) (r_resp_content_length r) (r_resp_content_type r)
        (r_client_addr r) (r_client_port r) (r_remote_addr r) (r_user_agent r) (r_proto r) (r_scheme r) (r_query r)
        (map (fun kv => if str_eqb (fst kv) (bs "resp_date") then (fst kv, v) else kv) (r_extra r)).

Definition chain_monitor_modulo (i : chain_in) (o : chain_obs) : bool :=
  match ob_records o with
  | [r] =>
    let r1 := if known_f1 i o then without_len r (ob_body_len o) else r in
    let r2 := if known_f2 i o then without_date r1 (hget K_date' (ob_headers o)) else r1 in
    chain_monitor i (mkChainObs (ob_status o) (ob_complete o) (ob_body_len o) (ob_headers o) (ob_target_hit o)
                                (ob_target_rid o) (ob_claimed o) [r2])
  | _ => false
  end.

Definition chain_known (i : chain_in) (o : chain_obs) : list N :=
  (if known_f1 i o then [1] else []) ++ (if known_f2 i o then [2] else []).

(** *** Comparison with the model's chain *)

Record tables := mkTables { tb_builtin : templates; tb_custom : templates }.

Definition zeros (n : N) : str := repeat x00 (N.to_nat n).

Definition ending_of_class (i : chain_in) (t : target_info) : ending :=
  match ci_class i with
  | CServed s n => EProxied t (TBRespond s (zeros n))
  | CServedHints s n => EProxiedHints t s (zeros n)
  | CNoRoute => ENoRoute
  | CPausedOut => EPausedOut
  | CStopped => EStopped
  | CRedirect => ERedirect
  | CTlsRefused => ETlsRefused
  | CFault502 => EProxied t (TBFailBefore FEOF)
  | CTimeout504 => EProxied t (TBFailBefore FHeaderTimeout)
  | CReqTooLarge => EReqTooLarge t
  | CRespTooLarge n => EProxied t (TBRespond 200 (zeros n))
  | CClientAbort => EProxied t (TBFailBefore FClientCancel)
  | CUpgrade => EUpgraded t
  | CCut s n => EProxied t (TBFailAfter s (zeros n) FEOF)
  | CClaimRefused => ENoTarget
  end.

(** byte counts the model can predict: everything but pages that take a
    message (503), the redirect body and a response cut short *)
Definition bytes_predicted (i : chain_in) : bool :=
  match ci_class i with
  | CStopped | CTlsRefused | CClaimRefused | CRedirect | CCut _ _ => false
  | _ => true
  end.

Definition chain_agree (tb : tables) (i : chain_in) (o : chain_obs) : bool :=
  match ob_records o with
  | [r] =>
    let t := mkTi (match ob_claimed o with [x] => x | _ => [] end) (ci_log_req i) (ci_log_resp i) in
    let cfg := mkCfg (ci_buffer i) 65536 (ci_max_resp i)
                     (if ci_custom i then Some (tb_custom tb) else None) (tb_builtin tb) in
    let '(ctx, ops, en) := chain (ci_service i) cfg 0 (ending_of_class i t) in
    (r_status r =? lw_status (lw_run ops)) &&
    (negb (bytes_predicted i) || (r_resp_content_length r =? lw_bytes (lw_run ops))) &&
    str_eqb (r_service r) (lc_service ctx) && str_eqb (r_target r) (lc_target ctx) &&
    (* the context's header lists give exactly the attribute names of the record *)
    same_attrs (map (fun kv => (fst kv, [])) (r_extra r))
               (map (fun n => (attr_name (bs "req") n, [])) (lc_req_headers ctx) ++
                map (fun n => (attr_name (bs "resp") n, [])) (lc_resp_headers ctx))
  | _ => false
  end.

(** ** Cases and verdicts *)

Inductive c19_case :=
| CaseUnit (i : unit_in) (recs : list record)
| CaseChain (i : chain_in) (o : chain_obs).

Definition check_case (tb : tables) (c : c19_case) : bool * bool * bool * list N :=
  match c with
  | CaseUnit i recs => (unit_agree i recs, unit_monitor i recs, unit_monitor i recs, [])
  | CaseChain i o => (chain_agree tb i o, chain_monitor i o, chain_monitor_modulo i o, chain_known i o)
  end.

(** (index, agree, monitor) for every case that is not fully fine, and
    (10000 * k + index, monitor-modulo-known, true) for every known finding k. *)
Fixpoint failures_aux (tb : tables) (cs : list c19_case) (n : N) : list (N * bool * bool) :=
  match cs with
  | [] => []
  | c :: r =>
    let '(a, m, mk, ks) := check_case tb c in
    (if a && m then [] else [(n, a, m)]) ++
    map (fun k => (10000 * k + n, mk, true)) ks ++
    failures_aux tb r (n + 1)
  end.
Definition failures (tb : tables) (cs : list c19_case) := failures_aux tb cs 0.

Definition pg (pages : list str) (k : nat) : str := nth k pages [].
