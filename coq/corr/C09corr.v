(** C09corr.v — correspondence and monitor of property C09.

    Correspondence: as for C01 — every recorded trace must be accepted by
    model/M5lb.v (restarts included: the monitors below do not distinguish
    balancers restored by a KRestored event from deployed ones — the restore's
    KStateSet adding->healthy and KRotation events are replayed like any other).

    Monitor [c09_ok]: the property on the OBSERVED trace alone: the rotation of
    every balancer is replayed from its KRotation events; every KLbClaim must
    pick the round-robin successor of the balancer's cursor within that
    rotation (Go: index = (index+1) % len(healthy)), answer "none" only when
    the rotation is empty, every KClaim must be the target picked for that
    request, and no rebuilt rotation may contain a target whose latest applied
    probe result was a failure.
    [c09_restore_free]: no direct state write sets a target healthy while its
    latest probe result is a failure (the end-of-Drain restore can do that:
    suspected defect D12); the acceptor implies [c09_ok] under this side
    condition.
    [c09_cadence]: every live target gets a probe result within interval +
    probe timeout of the previous one (of its creation for the first). *)
From KP Require Import model.Base model.Trace model.M5lb.
Local Open Scope nat_scope.

Record mon9 := mkM9 {
  q_rot : list (nat * list nat);         (* balancer -> rotation as of its last KRotation *)
  q_idx : list (nat * nat);              (* balancer -> cursor *)
  q_pf : list nat;                       (* targets whose latest applied probe result is a failure *)
  q_pend : list (nat * option nat)       (* request -> outcome of its latest KLbClaim *)
}.

Definition m9_init : mon9 := mkM9 [] [] [] [].

Definition c09_step (m : mon9) (e : event) : option mon9 :=
  match e_k e with
  | KLbNew lb _ => Some (mkM9 (nset (q_rot m) lb []) (nset (q_idx m) lb 0) (q_pf m) (q_pend m))
  | KRotation lb hs =>
    if existsb (fun t => nmem t (q_pf m)) hs then None
    else Some (mkM9 (nset (q_rot m) lb hs) (q_idx m) (q_pf m) (q_pend m))
  | KProbeApply t false _ _ => Some (mkM9 (q_rot m) (q_idx m) (t :: q_pf m) (q_pend m))
  | KProbeApply t true _ _ => Some (mkM9 (q_rot m) (q_idx m) (nremove t (q_pf m)) (q_pend m))
  | KLbClaim lb None r =>
    match nget (q_rot m) lb with
    | Some [] => Some (mkM9 (q_rot m) (q_idx m) (q_pf m) (nset (q_pend m) r None))
    | _ => None
    end
  | KLbClaim lb (Some t) r =>
    match nget (q_rot m) lb, nget (q_idx m) lb with
    | Some h, Some i =>
      let k := length h in
      if Nat.ltb 0 k && opt_nat_eqb (nth_error h (next_idx i k)) (Some t)
      then Some (mkM9 (q_rot m) (nset (q_idx m) lb (next_idx i k)) (q_pf m) (nset (q_pend m) r (Some t)))
      else None
    | _, _ => None
    end
  | KClaim t r =>
    match nget (q_pend m) r with
    | Some (Some t') => if Nat.eqb t' t then Some m else None
    | _ => None
    end
  | _ => Some m
  end.

Definition c09_ok (tr : trace) : bool :=
  match run c09_step m9_init tr with Some _ => true | None => false end.

Definition c09_fail_at (tr : trace) : option nat := first_reject c09_step m9_init tr 0.

(** side condition: no direct write to "healthy" over a failed probe result *)
Definition rf_step (pf : list nat) (e : event) : option (list nat) :=
  match e_k e with
  | KProbeApply t false _ _ => Some (t :: pf)
  | KProbeApply t true _ _ => Some (nremove t pf)
  | KStateSet t _ THealthy => if nmem t pf then None else Some pf
  | _ => Some pf
  end.

Definition c09_restore_free (tr : trace) : bool :=
  match run rf_step [] tr with Some _ => true | None => false end.

Definition c09_restore_at (tr : trace) : option nat := first_reject rf_step [] tr 0.

(** "After deployment every target keeps being probed": a target whose probe loop has been stopped receives a request only
    when its balancer has been disposed of (then the claim is the recorded finding D2's business, not a live target).
    State: (target -> balancer, disposed balancers, targets whose loop was stopped). *)
Definition up_step (st : list (nat * nat) * list nat * list nat) (e : event)
  : option (list (nat * nat) * list nat * list nat) :=
  let '(tl, disp, stopped) := st in
  match e_k e with
  | KLbNew lb ts => Some (fold_left (fun acc t => nset acc t lb) ts tl, disp, stopped)
  | KLbDispose lb => Some (tl, lb :: disp, stopped)
  | KProbeStop t => Some (tl, disp, t :: stopped)
  | KClaim t _ =>
    if nmem t stopped && negb (match nget tl t with Some lb => nmem lb disp | None => true end) then None else Some st
  | _ => Some st
  end.

Definition c09_unprobed_claim_at (tr : trace) : option nat := first_reject up_step ([], [], []) tr 0.

(** ** Probe cadence (monitor only) *)

Record cad := mkCad { c_last : list (nat * N); c_dead : list nat }.

Definition bound_of (bounds : list (nat * N)) (dflt : N) (t : nat) : N :=
  match nget bounds t with Some b => b | None => dflt end.

Definition within (last now bound : N) : bool := N.leb now (last + bound).

Definition cad_step (bounds : list (nat * N)) (dflt : N) (m : cad) (e : event) : option cad :=
  let now := e_t e in
  match e_k e with
  | KLbNew _ ts => Some (mkCad (fold_left (fun l t => nset l t now) ts (c_last m)) (c_dead m))
  | KProbeApply t _ _ _ =>
    if nmem t (c_dead m) then Some m else
    match nget (c_last m) t with
    | Some l => if within l now (bound_of bounds dflt t) then Some (mkCad (nset (c_last m) t now) (c_dead m)) else None
    | None => None
    end
  | KProbeStop t | KWaiter t false =>
    if nmem t (c_dead m) then Some m else
    match nget (c_last m) t with
    | Some l => if within l now (bound_of bounds dflt t) then Some (mkCad (c_last m) (t :: c_dead m)) else None
    | None => Some m
    end
  | _ => Some m
  end.

(** every target still live at the end of the trace must have been probed recently enough *)
Definition c09_cadence (bounds : list (nat * N)) (dflt t_end : N) (tr : trace) : bool :=
  match run (cad_step bounds dflt) (mkCad [] []) tr with
  | Some m => forallb (fun '(t, l) => nmem t (c_dead m) || within l t_end (bound_of bounds dflt t)) (c_last m)
  | None => false
  end.

(** statistics: claims with a target, claims without, rotations, failing probe results *)
Definition c09_counts (tr : trace) : nat * nat * nat * nat :=
  fold_left (fun '(a, b, c, d) e =>
    match e_k e with
    | KLbClaim _ (Some _) _ => (S a, b, c, d)
    | KLbClaim _ None _ => (a, S b, c, d)
    | KRotation _ _ => (a, b, S c, d)
    | KProbeApply _ false _ _ => (a, b, c, S d)
    | _ => (a, b, c, d)
    end) tr (0, 0, 0, 0).

(** ** Every state change is followed by a rebuild of the rotation

    [c09_rebuild_ok]: a probe goroutine whose result changed the state of its target
    (previous state <> new state) rebuilds the rotation before it applies its next
    result; and a failing result never leaves (or makes) the target healthy. *)
Definition ow_step (l : list actor) (e : event) : option (list actor) :=
  match e_k e with
  | KProbeApply _ ok prev new =>
    if owes l (e_by e) || (negb ok && tstate_eqb new THealthy) then None
    else Some (if tstate_eqb prev new then l else e_by e :: l)
  | KRotation _ _ => Some (unowe l (e_by e))
  | _ => Some l
  end.

Definition c09_rebuild_ok (tr : trace) : bool :=
  match run ow_step [] tr with Some _ => true | None => false end.

Definition c09_rebuild_fail_at (tr : trace) : option nat := first_reject ow_step [] tr 0.
