(** C16corr.v — correspondence and monitor of property C16 on histories
    observed from the real router (corr/M4corr.v: [step_obs]) together with the
    answers of the real Router.GetCertificate for generated server names
    (harness/c16_test.go).

    - [c16_history]: the observed requests with path and RequestURI derived
      from the raw request target by model/Url.v (net/url), then replayed by
      M4corr.check_history (status, Location, serving target);
    - [c16_cert_mismatches]: model [cert_for] against the observed answers;
    - [c16_monitor]: the property on the OBSERVED history alone: the flags of
      the routed service are read from the observed state file. *)
From KP Require Import model.Base model.ServiceMap model.Seq model.Url model.Tls corr.M4corr.
Local Open Scope N_scope.

(** ** Requests: decoded path and RequestURI from the raw target *)

Definition fix_req (q : request) : request :=
  match parse_request_target (q_uri q) with
  | PAccept u => mkReq (q_host q) (u_path u) (request_uri u) (q_get q) (q_tls q) (q_cookie q)
  | _ => q
  end.

Definition c16_history (h : list step_obs) : list step_obs :=
  map (fun o => mkStep (so_cmd o) (so_result o) (so_list o) (so_snapshot o) (so_probed o)
                       (map (fun qo => (fix_req (fst qo), snd qo)) (so_requests o))) h.

Definition targets_modelled (h : list step_obs) : bool :=
  forallb (fun o => forallb (fun qo => match parse_request_target (q_uri (fst qo)) with PAccept _ => true | _ => false end)
                            (so_requests o)) h.

(** ** Certificates: model against implementation *)

(** observed answer: 0 refused, 1 static, 2 automatic (accepted by the manager), other = unexpected *)
Definition cert_class (a : cert_answer) : N :=
  match a with CRefuse => 0 | CStatic => 1 | CAuto _ => 2 end.

Fixpoint certs_mismatch (st : state) (cs : list (str * N)) (k : N) : list N :=
  match cs with
  | [] => []
  | (sni, a) :: r => (if cert_class (cert_for st sni) =? a then [] else [k]) ++ certs_mismatch st r (k + 1)
  end.

Fixpoint cert_mismatches_from (v : variant) (st : state) (h : list step_obs) (certs : list (list (str * N))) (n : nat)
  : list (nat * N) :=
  match h, certs with
  | o :: r, c :: cr =>
    let st' := snd (exec v st (so_cmd o)) in
    map (fun k => (n, k)) (certs_mismatch st' c 0) ++ cert_mismatches_from v st' r cr (S n)
  | _, _ => []
  end.

Definition c16_cert_mismatches (v : variant) (h : list step_obs) (certs : list (list (str * N))) : list (nat * N) :=
  cert_mismatches_from v init_state h certs 0.

(** ** The monitor *)

Fixpoint snap_get (l : list snap_svc) (n : str) : option snap_svc :=
  match l with
  | [] => None
  | s :: r => if str_eqb (sn_name s) n then Some s else snap_get r n
  end.

(** Request clause: redirect / refusal decided from the observed flags. *)
Definition c16_req_ok (l : list snap_svc) (q : request) (o : resp_obs) : bool :=
  match route (snap_table l) (q_host q) (q_path q) with
  | None => true
  | Some (n, _) =>
    match snap_get l n with
    | None => true
    | Some s =>
      if sn_tls s && sn_tls_redirect s && negb (q_tls q) then
        (ro_status o =? 301) && str_eqb (ro_served_by o) [] &&
        (if wf_host (q_host q)
         then str_eqb (ro_location o) (https_prefix ++ host_without_port (q_host q) ++ q_uri q)
         else has_prefix (ro_location o) https_prefix && has_suffix (ro_location o) (q_uri q))
      else if negb (sn_tls s) && q_tls q then (ro_status o =? 503) && str_eqb (ro_served_by o) []
      else true
    end
  end.

(** Inheritance clause on one observed state file. *)
Definition snap_serves_root (s : snap_svc) : bool := mem_str root_path (sn_prefixes s).

Definition c16_inherit_ok (l : list snap_svc) (s : snap_svc) : bool :=
  snap_serves_root s ||
  let host := match sn_hosts s with h :: _ => h | [] => [] end in
  match service_for (snap_table l) host root_path with
  | Some (n, _) =>
    match snap_get l n with
    | Some r => Bool.eqb (sn_tls s) (sn_tls r) && Bool.eqb (sn_tls_redirect s) (sn_tls_redirect r)
    | None => negb (sn_tls s)
    end
  | None => negb (sn_tls s)
  end.

(** Certificate clause: an answer other than "refused" needs a TLS-enabled
    root-path service routed for the name; automatic TLS in addition needs the
    name among its hosts (ASCII case-insensitively) and no static certificate;
    a static answer needs a static certificate. *)
Definition c16_cert_ok (l : list snap_svc) (sni : str) (a : N) : bool :=
  (a =? 0) ||
  match sni with
  | [] => false
  | _ =>
    match service_for (snap_table l) sni root_path with
    | None => false
    | Some (n, _) =>
      match snap_get l n with
      | None => false
      | Some s =>
        sn_tls s && snap_serves_root s &&
        (if a =? 1 then sn_has_cert_paths s
         else if a =? 2 then negb (sn_has_cert_paths s) &&
                             existsb (fun h => str_eqb (map to_lower h) (map to_lower sni)) (sn_hosts s)
         else false)
      end
    end
  end.

(** Wildcard clause: a deploy asking for automatic TLS on the root path with a
    wildcard host must be refused as such. *)
Definition c16_wildcard_ok (c : cmd) (r : res_obs) : bool :=
  match c with
  | Deploy _ o _ _ =>
    if o_tls o && match o_cert o with CertNone => true | _ => false end &&
       mem_str root_path (normalize_prefixes (o_prefixes o)) &&
       existsb (fun h => contains_byte h star) (o_hosts o)
    then match r with OErr EWildcardACME => true | _ => false end
    else true
  | _ => true
  end.

Fixpoint idx_fail {A} (f : A -> bool) (l : list A) (k : N) : list N :=
  match l with
  | [] => []
  | x :: r => (if f x then [] else [k]) ++ idx_fail f r (k + 1)
  end.

(** clause codes: 1 request, 2 inheritance, 3 certificate, 4 wildcard *)
Fixpoint monitor_from (h : list step_obs) (certs : list (list (str * N))) (n : nat) : list (nat * N * N) :=
  match h with
  | [] => []
  | o :: r =>
    let c := match certs with c :: _ => c | [] => [] end in
    let l := match so_snapshot o with Some l => l | None => [] end in
    map (fun k => (n, 1, k)) (idx_fail (fun qo => c16_req_ok l (fst qo) (snd qo)) (so_requests o) 0) ++
    map (fun k => (n, 2, k)) (idx_fail (c16_inherit_ok l) l 0) ++
    map (fun k => (n, 3, k)) (idx_fail (fun sa => c16_cert_ok l (fst sa) (snd sa)) c 0) ++
    (if c16_wildcard_ok (so_cmd o) (so_result o) then [] else [(n, 4, 0)]) ++
    monitor_from r (tl certs) (S n)
  end.

Definition c16_monitor (h : list step_obs) (certs : list (list (str * N))) : list (nat * N * N) :=
  monitor_from (c16_history h) certs 0.

(** ** Coverage counters: (redirects judged, refusals judged, sub-path services judged,
       certificate answers not refused) *)
Fixpoint stats_from (h : list step_obs) (certs : list (list (str * N))) : N * N * N * N :=
  match h with
  | [] => (0, 0, 0, 0)
  | o :: r =>
    let c := match certs with c :: _ => c | [] => [] end in
    let l := match so_snapshot o with Some l => l | None => [] end in
    let cls q := match route (snap_table l) (q_host q) (q_path q) with
                 | Some (n, _) => match snap_get l n with
                                  | Some s => if sn_tls s && sn_tls_redirect s && negb (q_tls q) then 1
                                              else if negb (sn_tls s) && q_tls q then 2 else 0
                                  | None => 0 end
                 | None => 0 end in
    let '(a, b, c', d) := stats_from r (tl certs) in
    (a + lenN (filter (fun qo => cls (fst qo) =? 1) (so_requests o)),
     b + lenN (filter (fun qo => cls (fst qo) =? 2) (so_requests o)),
     c' + lenN (filter (fun s => negb (snap_serves_root s)) l),
     d + lenN (filter (fun sa => negb (snd sa =? 0)) c))
  end.

Definition c16_stats (h : list step_obs) (certs : list (list (str * N))) := stats_from (c16_history h) certs.
