(** C14head.v — HEAD exchanges through the buffering middlewares.

    A HEAD answer declares the length of the resource and carries no body.  C14:
    "the client receives the target's exact status, headers and body" — with or
    without response buffering, whatever max-response-body is: the declared
    Content-Length is a header of the target's answer and reaches the client
    unchanged (a buffer that holds no bytes has nothing to say about it), and the
    declared length alone never counts as an overflow (no 500). *)
From KP Require Import model.Base.
From Coq Require Import NArith Bool List.
Import ListNotations.
Local Open Scope N_scope.

(** target's status, declared length; what the client saw: status, Content-Length header (None = absent or not a number) *)
Definition head_obs := (N * N * N * option N)%type.

Definition head_ok (o : head_obs) : bool :=
  let '(status, declared, ostatus, oclen) := o in
  (ostatus =? status) && match oclen with Some n => n =? declared | None => false end.

Fixpoint head_bad_from (l : list head_obs) (k : nat) : list nat :=
  match l with
  | [] => []
  | o :: r => (if head_ok o then [] else [k]) ++ head_bad_from r (S k)
  end.

Definition c14_head_bad (l : list head_obs) : list nat := head_bad_from l 0.
