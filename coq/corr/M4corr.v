(** M4corr.v — correspondence between model/Seq.v and the real router driven
    sequentially on the virtual clock (harness/sim_test.go): after every
    command the harness records the command result, `list`, the parsed state
    file, which targets are being probed, and the answers to a matrix of
    requests; this file replays the same history on the model and compares.
    It also defines the monitors of the sequential properties (C05 C06 C08
    C11 C16) as predicates on the OBSERVED history alone. *)
From KP Require Import model.Base model.ServiceMap model.Seq.
Local Open Scope N_scope.

(** ** Observations *)

Inductive res_obs := OOk | OErr (e : err) | OPanic | OOther.

Definition err_eqb (a b : err) : bool :=
  match a, b with
  | ENotFound, ENotFound | EUnhealthy, EUnhealthy | EHostInUse, EHostInUse
  | EInvalidTarget, EInvalidTarget | ECert, ECert | EWildcardACME, EWildcardACME
  | EPages, EPages | ERolloutNotSet, ERolloutNotSet => true
  | _, _ => false
  end.

Definition res_matches (r : result) (o : res_obs) : bool :=
  match r, o with
  | Ok, OOk => true
  | Err e, OErr e' => err_eqb e e'
  | Panic, OPanic => true
  | _, _ => false
  end.

(** One service as read from the state file. *)
Record snap_svc := mkSnap {
  sn_name : str; sn_hosts : list str; sn_prefixes : list str;
  sn_tls : bool; sn_tls_redirect : bool; sn_strip : bool;
  sn_has_cert_paths : bool; sn_has_pages : bool;
  sn_health_path : str; sn_tag : N;
  sn_active : list str; sn_rollout : option (list str);
  sn_pstate : N; sn_msg : str; sn_fail_after : N;
  sn_roll : option (Z * list str) }.

Record resp_obs := mkResp {
  ro_status : N; ro_location : str; ro_served_by : str; ro_elapsed : N; ro_body : str }.

Record step_obs := mkStep {
  so_cmd : cmd;
  so_result : res_obs;
  so_list : list list_row;                (* sorted by name *)
  so_snapshot : option (list snap_svc);   (* sorted by name; None = no file *)
  so_probed : list (str * N);             (* target name, live probe loops; sorted *)
  so_requests : list (request * resp_obs) }.

(** ** Canonical projections of the model state *)

Fixpoint insert_by {A} (key : A -> str) (leb : str -> str -> bool) (x : A) (l : list A) : list A :=
  match l with
  | [] => [x]
  | y :: r => if leb (key x) (key y) then x :: l else y :: insert_by key leb x r
  end.

Fixpoint str_leb (a b : str) : bool :=
  match a, b with
  | [], _ => true
  | _ :: _, [] => false
  | x :: a', y :: b' =>
    if (byte_n x <? byte_n y) then true
    else if (byte_n y <? byte_n x) then false else str_leb a' b'
  end.

Definition sort_by {A} (key : A -> str) (l : list A) : list A :=
  fold_right (insert_by key str_leb) [] l.

Definition pstate_n (p : pstate) : N := match p with Running => 0 | Paused => 1 | Stopped => 2 end.

Definition cert_paths (c : cert_in) : bool := match c with CertNone => false | _ => true end.
Definition has_pages (p : pages_in) : bool := match p with PagesNone => false | _ => true end.

Definition snap_of (s : service) : snap_svc :=
  let o := s_opts s in
  mkSnap (s_name s) (o_hosts o) (o_prefixes o) (o_tls o) (o_tls_redirect o) (o_strip o)
         (cert_paths (o_cert o)) (has_pages (o_pages o))
         (t_health_path (s_topts s)) (t_tag (s_topts s))
         (s_active s) (s_rollout s)
         (pstate_n (p_state (s_pause s))) (p_msg (s_pause s)) (p_fail_after (s_pause s))
         (match s_roll s with Some r => Some (r_pct r, r_allow r) | None => None end).

Definition opt_strs_eqb (a b : option (list str)) : bool := option_eqb strs_eqb a b.

Definition roll_eqb (a b : option (Z * list str)) : bool :=
  option_eqb (fun x y => Z.eqb (fst x) (fst y) && strs_eqb (snd x) (snd y)) a b.

Definition snap_eqb (a b : snap_svc) : bool :=
  str_eqb (sn_name a) (sn_name b) && strs_eqb (sn_hosts a) (sn_hosts b) &&
  strs_eqb (sn_prefixes a) (sn_prefixes b) && Bool.eqb (sn_tls a) (sn_tls b) &&
  Bool.eqb (sn_tls_redirect a) (sn_tls_redirect b) && Bool.eqb (sn_strip a) (sn_strip b) &&
  Bool.eqb (sn_has_cert_paths a) (sn_has_cert_paths b) && Bool.eqb (sn_has_pages a) (sn_has_pages b) &&
  str_eqb (sn_health_path a) (sn_health_path b) && (sn_tag a =? sn_tag b) &&
  strs_eqb (sn_active a) (sn_active b) && opt_strs_eqb (sn_rollout a) (sn_rollout b) &&
  (sn_pstate a =? sn_pstate b) && str_eqb (sn_msg a) (sn_msg b) && (sn_fail_after a =? sn_fail_after b) &&
  roll_eqb (sn_roll a) (sn_roll b).

Definition row_eqb (a b : list_row) : bool :=
  str_eqb (lr_name a) (lr_name b) && str_eqb (lr_host a) (lr_host b) && str_eqb (lr_path a) (lr_path b) &&
  str_eqb (lr_target a) (lr_target b) && str_eqb (lr_state a) (lr_state b) && Bool.eqb (lr_tls a) (lr_tls b).

(** live probe loops per target name *)
Fixpoint count_str (x : str) (l : list str) : N :=
  match l with [] => 0 | y :: r => (if str_eqb x y then 1 else 0) + count_str x r end.
Fixpoint dedup (l : list str) : list str :=
  match l with [] => [] | x :: r => if mem_str x r then dedup r else x :: dedup r end.
Definition probed_of (st : state) : list (str * N) :=
  sort_by fst (map (fun x => (x, count_str x (st_probing st))) (dedup (st_probing st))).

Definition probed_eqb (a b : list (str * N)) : bool :=
  list_eqb (fun x y => str_eqb (fst x) (fst y) && (snd x =? snd y)) a b.

(** ** Responses *)

(** [in_group]: cookie decision, see Seq.serve. *)
Definition resp_matches (r : response) (o : resp_obs) : bool :=
  match r with
  | R404 => (ro_status o =? 404)
  | R301 loc => (ro_status o =? 301) && str_eqb (ro_location o) loc
  | R503_tls => (ro_status o =? 503)
  | R200_health => (ro_status o =? 200) && str_eqb (ro_served_by o) []
  | R503_stopped _ => (ro_status o =? 503) && str_eqb (ro_served_by o) []
  | RHeld fa _ => (ro_status o =? 504) && (ro_elapsed o =? fa)
  | R503_no_targets => (ro_status o =? 503)
  | RForward _ ts _ => (ro_status o =? 200) && mem_str (ro_served_by o) ts
  end.

(** ** Replay of an observed history on the model *)

Record mismatch := mkMis { mi_step : nat; mi_what : N }.
(* mi_what: 1 result, 2 list, 3 snapshot, 4 probing, 5+k request k *)

Fixpoint reqs_mismatch (in_group : rollctl -> str -> bool) (st : state)
         (rs : list (request * resp_obs)) (k : N) : list N :=
  match rs with
  | [] => []
  | (q, o) :: r =>
    (if resp_matches (serve in_group st q) o then [] else [5 + k]) ++ reqs_mismatch in_group st r (k + 1)
  end.

Definition step_mismatch (in_group : rollctl -> str -> bool) (v : variant) (st : state) (o : step_obs)
  : state * list N :=
  let '(r, st') := exec v st (so_cmd o) in
  let m1 := if res_matches r (so_result o) then [] else [1] in
  let m2 := if list_eqb row_eqb (sort_by lr_name (list_services st')) (so_list o) then [] else [2] in
  let m3 := if option_eqb (list_eqb snap_eqb)
                 (match st_disk st' with Some l => Some (sort_by sn_name (map snap_of l)) | None => None end)
                 (so_snapshot o) then [] else [3] in
  let m4 := if probed_eqb (probed_of st') (so_probed o) then [] else [4] in
  (st', m1 ++ m2 ++ m3 ++ m4 ++ reqs_mismatch in_group st' (so_requests o) 0).

Fixpoint history_mismatches (in_group : rollctl -> str -> bool) (v : variant) (st : state)
         (h : list step_obs) (n : nat) : list mismatch :=
  match h with
  | [] => []
  | o :: r =>
    let '(st', ms) := step_mismatch in_group v st o in
    map (mkMis n) ms ++ history_mismatches in_group v st' r (S n)
  end.

(** A history after a panic is meaningless (the process is gone): compare up
    to and including the first panic only. *)
Fixpoint upto_panic (h : list step_obs) : list step_obs :=
  match h with
  | [] => []
  | o :: r => match so_result o with OPanic => [o] | _ => o :: upto_panic r end
  end.

Definition check_history (in_group : rollctl -> str -> bool) (v : variant) (h : list step_obs) : list mismatch :=
  history_mismatches in_group v init_state (upto_panic h) 0.

(** ** Monitors on the observed history alone *)

(** C05: in every observed `list`, no (host, prefix) pair is listed by two
    services; in every snapshot likewise. *)
Definition snap_table (l : list snap_svc) : table :=
  map (fun s => mkBI (sn_name s) (sn_hosts s) (sn_prefixes s)) l.

Definition c05_step_ok (o : step_obs) : bool :=
  match so_snapshot o with
  | Some l => pair_owned_once (snap_table l)
  | None => true
  end.

(** C06: a step whose command failed leaves list, snapshot, probing and every
    matrix answer as they were after the previous step (same request lists). *)
Definition resp_obs_eqb (a b : resp_obs) : bool :=
  (ro_status a =? ro_status b) && str_eqb (ro_location a) (ro_location b) &&
  (* the serving target may rotate; only its presence is compared *)
  Bool.eqb (str_eqb (ro_served_by a) []) (str_eqb (ro_served_by b) []) &&
  str_eqb (ro_body a) (ro_body b) &&
  (* how long the request was held before it was answered (virtual clock: exact) *)
  (ro_elapsed a =? ro_elapsed b).

Definition c06_pair_ok (prev cur : step_obs) : bool :=
  match so_result cur with
  | OErr _ =>
    list_eqb row_eqb (so_list prev) (so_list cur) &&
    (* no state file and a file describing the empty configuration restore alike *)
    list_eqb snap_eqb (match so_snapshot prev with Some l => l | None => [] end)
                      (match so_snapshot cur with Some l => l | None => [] end) &&
    probed_eqb (so_probed prev) (so_probed cur) &&
    list_eqb (fun a b => resp_obs_eqb (snd a) (snd b)) (so_requests prev) (so_requests cur)
  | _ => true
  end.

Fixpoint c06_ok (prev : option step_obs) (h : list step_obs) : bool :=
  match h with
  | [] => true
  | o :: r =>
    (match prev with
     | Some p => c06_pair_ok p o
     | None => match so_result o with
               | OErr _ => match so_list o, so_probed o, so_snapshot o with
                           | [], [], (None | Some []) => true | _, _, _ => false end
               | _ => true end
     end) && c06_ok (Some o) r
  end.

(** no step may panic (C18's sequential part, also needed by C11) *)
Definition no_panic (h : list step_obs) : bool :=
  forallb (fun o => match so_result o with OPanic => false | _ => true end) h.

(** C11: the same history run once without and once with a restart inserted
    before step [k]; from there on every observable must coincide (the serving
    target may differ within the service's target set: rotation position is
    not part of the saved state). *)
Definition res_obs_eqb (a b : res_obs) : bool :=
  match a, b with
  | OOk, OOk | OPanic, OPanic | OOther, OOther => true
  | OErr x, OErr y => err_eqb x y
  | _, _ => false
  end.

(** the (service, group) pairs a serving target may belong to according to the state file of that step
    (false = active, true = rollout); target names can be shared between services, so this is a list *)
Definition served_groups (o : step_obs) (sb : str) : list (str * bool) :=
  match so_snapshot o with
  | None => []
  | Some l =>
    flat_map (fun s =>
      (if mem_str sb (sn_active s) then [(sn_name s, false)] else []) ++
      (match sn_rollout s with Some ts => if mem_str sb ts then [(sn_name s, true)] else [] | None => [] end)) l
  end.

Definition groups_compatible (x y : list (str * bool)) : bool :=
  match x, y with
  | [], [] => true
  | _, _ => existsb (fun p => existsb (fun q => str_eqb (fst p) (fst q) && Bool.eqb (snd p) (snd q)) y) x
  end.

Definition step_equiv (a b : step_obs) : bool :=
  list_eqb (fun x y => groups_compatible (served_groups a (ro_served_by (snd x))) (served_groups b (ro_served_by (snd y))))
           (so_requests a) (so_requests b) &&
  res_obs_eqb (so_result a) (so_result b) &&
  list_eqb row_eqb (so_list a) (so_list b) &&
  option_eqb (list_eqb snap_eqb) (so_snapshot a) (so_snapshot b) &&
  probed_eqb (so_probed a) (so_probed b) &&
  list_eqb (fun x y => resp_obs_eqb (snd x) (snd y)) (so_requests a) (so_requests b).

Definition c11_ok (h_orig h_restarted : list step_obs) (k : nat) : bool :=
  list_eqb step_equiv (skipn k h_orig) (skipn (S k) h_restarted) &&
  no_panic h_restarted.

Definition c05_ok (h : list step_obs) : bool := forallb c05_step_ok h.

(** C04: every answer of the request matrix is the one the routing rule gives
    for the table read from the state file at that step (services without TLS,
    running): 404 iff no service is chosen, else served by a target of the
    chosen service. *)
Definition c04_req_ok (l : list snap_svc) (q : request) (o : resp_obs) : bool :=
  match route (snap_table l) (q_host q) (q_path q) with
  | None => (ro_status o =? 404)
  | Some (n, _) =>
    match find (fun s => str_eqb (sn_name s) n) l with
    | Some s => (ro_status o =? 200) && mem_str (ro_served_by o) (sn_active s)
    | None => false
    end
  end.

Definition c04_step_ok (o : step_obs) : bool :=
  match so_snapshot o with
  | Some l => forallb (fun qo => c04_req_ok l (fst qo) (snd qo)) (so_requests o)
  | None => forallb (fun qo => (ro_status (snd qo) =? 404)) (so_requests o)
  end.

Definition c04_ok (h : list step_obs) : bool := forallb c04_step_ok h.
