#!/bin/sh
# Full .vo build of the development (no -vos/-vok). Usage: build.sh [make args]
set -e
cd "$(dirname "$0")"
{ cat _CoqProject.head; find model proofs props corr -name '*.v' ! -name 'Tmp*' ! -name 'tmp*' ! -name 'scratch*' | sort; } > _CoqProject
coq_makefile -f _CoqProject -o Makefile.coq >/dev/null
exec timeout 3000 make -f Makefile.coq -j16 "$@"
