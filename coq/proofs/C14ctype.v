(** What corr/C14corr.event_stream_of says about a Content-Type value. *)
From KP Require Import model.Base corr.C14corr.
From KP Require proofs.CliFacts.
From Coq Require Import Lia.

Definition semi : byte := x3b.
Definition no_semi (s : str) : Prop := forall b, In b s -> b <> semi.

Lemma before_semicolon_none s : no_semi s -> before_semicolon s = s.
Proof.
  induction s as [|c s IH]; intros H; [reflexivity|]. cbn [before_semicolon].
  destruct (byte_eqb c x3b) eqn:E.
  - apply CliFacts.byte_eqb_eq in E. exfalso. apply (H c); [now left|exact E].
  - f_equal. apply IH. intros b Hb. apply H. now right.
Qed.

Lemma before_semicolon_app s rest : no_semi s -> before_semicolon (s ++ semi :: rest) = s.
Proof.
  induction s as [|c s IH]; intros H; cbn [app before_semicolon].
  - unfold semi. replace (byte_eqb x3b x3b) with true by reflexivity. reflexivity.
  - destruct (byte_eqb c x3b) eqn:E.
    + apply CliFacts.byte_eqb_eq in E. exfalso. apply (H c); [now left|exact E].
    + f_equal. apply IH. intros b Hb. apply H. now right.
Qed.

Lemma before_semicolon_inv ct : no_semi (before_semicolon ct) /\
  (ct = before_semicolon ct \/ exists rest, ct = before_semicolon ct ++ semi :: rest).
Proof.
  induction ct as [|c ct [IHn IHs]]; cbn [before_semicolon].
  - split; [intros b []|now left].
  - destruct (byte_eqb c x3b) eqn:E.
    + apply CliFacts.byte_eqb_eq in E. subst c. split; [intros b []|]. right. exists ct. reflexivity.
    + split.
      * intros b [<-|Hb]; [|now apply IHn]. intros ->. unfold semi in E. discriminate E.
      * destruct IHs as [Heq|[rest Heq]]; [left; now f_equal|right; exists rest; cbn [app]; now f_equal].
Qed.

Lemma type_no_semi : no_semi event_stream_type.
Proof. intros b Hb. unfold event_stream_type in Hb. cbn [In] in Hb. unfold semi. intuition (subst; discriminate). Qed.

Lemma event_stream_of_iff ct :
  event_stream_of ct = true <-> ct = event_stream_type \/ exists rest, ct = event_stream_type ++ semi :: rest.
Proof.
  unfold event_stream_of. rewrite CliFacts.str_eqb_eq. split.
  - intros H. destruct (before_semicolon_inv ct) as [_ [Heq|[rest Heq]]]; rewrite H in Heq; [now left|right; now exists rest].
  - intros [->|[rest ->]]; [apply before_semicolon_none|apply before_semicolon_app]; apply type_no_semi.
Qed.
