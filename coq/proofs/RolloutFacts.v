(** RolloutFacts.v — proofs about model/Rollout.v (C10). *)
From KP Require Import model.Base model.Rollout.
From Coq Require Import ZArith Reals Floats Uint63 Lia Lra Psatz ZifyN ZifyNat ZifyBool.
From Flocq Require Import Core.Core IEEE754.BinarySingleNaN IEEE754.PrimFloat.
Local Open Scope Z_scope.

(** * Strings *)

Lemma byte_eqb_true : forall a b, byte_eqb a b = true <-> a = b.
Proof. intros a b. unfold byte_eqb. split; [apply byte_dec_bl | apply byte_dec_lb]. Qed.

Lemma str_eqb_true : forall a b, str_eqb a b = true <-> a = b.
Proof.
  induction a as [|x a IH]; intros [|y b]; cbn [str_eqb]; split; intros H; try reflexivity; try discriminate.
  - apply andb_true_iff in H. destruct H as [H1 H2].
    apply byte_eqb_true in H1. apply IH in H2. now subst.
  - injection H as -> ->. apply andb_true_iff. split; [now apply byte_eqb_true | now apply IH].
Qed.

Lemma mem_str_In : forall v l, mem_str v l = true <-> In v l.
Proof.
  intros v l. induction l as [|y l IH]; cbn [mem_str In].
  - split; [discriminate | tauto].
  - rewrite orb_true_iff, IH, str_eqb_true. split; intros [H|H]; auto.
Qed.

(** * FNV-1a stays within 32 bits *)

Lemma fnv_fold_bound : forall s h, (h < two32)%N -> (fold_left fnv_step s h < two32)%N.
Proof.
  induction s as [|b s IH]; intros h Hh; cbn [fold_left]; [exact Hh|].
  apply IH. unfold fnv_step. apply N.mod_lt. discriminate.
Qed.

Lemma fnv1a_bound : forall s, (fnv1a s < two32)%N.
Proof. intros s. apply fnv_fold_bound. reflexivity. Qed.

Lemma fnv1a_bound_Z : forall s, 0 <= Z.of_N (fnv1a s) <= 4294967295.
Proof. intros s. pose proof (fnv1a_bound s) as H. unfold two32 in H. lia. Qed.

(** * The threshold *)

Definition pcts : list Z := map Z.of_nat (seq 0 101).

Lemma in_pcts : forall p, 0 <= p <= 100 -> In p pcts.
Proof.
  intros p Hp. unfold pcts. replace p with (Z.of_nat (Z.to_nat p)) by lia.
  apply in_map. apply in_seq. lia.
Qed.

Lemma T_table_eq : map T pcts = T_table.
Proof. vm_compute. reflexivity. Qed.

Lemma T_closed : forall p, 0 <= p <= 100 -> T p = p * 4294967295 / 100.
Proof.
  intros p Hp. unfold T.
  destruct (Z.ltb_spec p 0) as [H|H]; [lia|].
  destruct (Z.ltb_spec 100 p) as [H'|H']; [lia|reflexivity].
Qed.

Lemma T_neg : forall p, p < 0 -> T p = -1.
Proof. intros p Hp. unfold T. destruct (Z.ltb_spec p 0) as [H|H]; [reflexivity|lia]. Qed.

Lemma T_full : forall p, 100 <= p -> T p = 4294967295.
Proof.
  intros p Hp. unfold T.
  destruct (Z.ltb_spec p 0) as [H|H]; [lia|].
  destruct (Z.ltb_spec 100 p) as [H'|H']; [reflexivity|].
  assert (p = 100) as -> by lia. reflexivity.
Qed.

Lemma T_range : forall p, -1 <= T p <= 4294967295.
Proof.
  intros p. destruct (Z_lt_le_dec p 0) as [H|H]; [rewrite T_neg; lia|].
  destruct (Z_le_gt_dec 100 p) as [H'|H']; [rewrite T_full; lia|].
  rewrite T_closed by lia. Z.div_mod_to_equations. lia.
Qed.

Lemma T_mono : forall p q, p <= q -> T p <= T q.
Proof.
  intros p q Hpq.
  destruct (Z_lt_le_dec p 0) as [H|H]; [rewrite (T_neg p H); apply T_range|].
  destruct (Z_le_gt_dec 100 q) as [H'|H']; [rewrite (T_full q H'); apply T_range|].
  rewrite !T_closed by lia. apply Z.div_le_mono; lia.
Qed.

(** The share of hash values inside percentage [p] is (T p + 1) / 2^32; it
    differs from p/100 by at most 1/2^32. *)
Lemma T_share : forall p, 0 <= p <= 100 ->
  Z.abs (100 * (T p + 1) - p * 4294967296) <= 100.
Proof. intros p Hp. rewrite T_closed by exact Hp. Z.div_mod_to_equations. lia. Qed.

(** The same fact by exhaustive evaluation of the table. *)
Lemma T_share_sweep :
  forallb (fun p => Z.abs (100 * (T p + 1) - p * 4294967296) <=? 100) pcts = true.
Proof. vm_compute. reflexivity. Qed.

(** * Tie between the float comparison of the code and the integer threshold *)

Lemma of_Z_to_Z : forall h, 0 <= h < 2 ^ 63 -> Uint63.to_Z (Uint63.of_Z h) = h.
Proof. intros h H. rewrite Uint63.of_Z_spec. apply Z.mod_small. exact H. Qed.

(** Integers below 2^53 convert exactly. *)
Lemma B2R_of_int : forall h, 0 <= h < 2 ^ 53 ->
  B2R (Prim2B (of_uint63 (of_Z h))) = IZR h /\ is_finite (Prim2B (of_uint63 (of_Z h))) = true.
Proof.
  intros h Hh. rewrite of_int63_equiv. rewrite of_Z_to_Z by lia.
  generalize (binary_normalize_correct prec emax Hprec Hmax mode_NE h 0 false).
  cbv zeta.
  assert (Hx : F2R (Float radix2 h 0) = IZR h).
  { unfold F2R. cbn. ring. }
  rewrite Hx.
  assert (Hg : generic_format radix2 (fexp prec emax) (IZR h)).
  { rewrite <- Hx. apply generic_format_FLT. exists (Float radix2 h 0); auto.
    - cbn. rewrite Z.abs_eq by lia. lia.
    - cbn. lia. }
  rewrite round_generic; auto with typeclass_instances.
  rewrite Rlt_bool_true.
  - intros (H1 & H2 & _). split; auto.
  - rewrite Rabs_pos_eq by (apply IZR_le; lia).
    change (bpow radix2 emax) with (IZR (2 ^ 1024)). apply IZR_lt.
    assert (2 ^ 53 < 2 ^ 1024) by (apply Z.pow_lt_mono_r; lia). lia.
Qed.

Lemma div_le_iff : forall h m d, 0 < d -> (h <=? m / d) = (h * d <=? m).
Proof.
  intros h m d Hd.
  destruct (Z.leb_spec h (m / d)) as [H|H]; destruct (Z.leb_spec (h * d) m) as [H'|H']; auto; exfalso.
  - pose proof (Z.mul_div_le m d Hd). nia.
  - assert (h <= m / d) by (apply Z.div_le_lower_bound; lia). lia.
Qed.

(** For every float [c] on which [float_threshold] is defined and every
    integer 0 <= h < 2^53: float64(h) <= c  iff  h <= float_threshold c. *)
Lemma leb_threshold : forall (c : PrimFloat.float) t h,
  float_threshold c = Some t -> 0 <= h < 2 ^ 53 ->
  PrimFloat.leb (of_uint63 (of_Z h)) c = (h <=? t).
Proof.
  intros c t h Ht Hh. rewrite leb_equiv. destruct (B2R_of_int h Hh) as [Hr Hf].
  unfold float_threshold in Ht. rewrite <- B2SF_Prim2B in Ht.
  destruct (Prim2B c) as [s| s| |s m e Hb] eqn:Hc; cbn in Ht; try discriminate.
  - injection Ht as <-. rewrite Bleb_correct by auto. rewrite Hr. cbn [B2R].
    destruct (Rle_bool_spec (IZR h) 0) as [H|H]; destruct (Z.leb_spec h 0) as [H'|H']; auto; exfalso.
    + apply le_IZR in H. lia.
    + apply IZR_le in H'. lra.
  - rewrite Bleb_correct by auto. rewrite Hr. cbn [B2R]. destruct s.
    + injection Ht as <-. cbn [cond_Zopp]. change (- Z.pos m) with (Z.neg m).
      assert (Hneg : (F2R (Float radix2 (Z.neg m) e) < 0)%R).
      { apply F2R_lt_0. cbn. lia. }
      assert (Hpos : (0 <= IZR h)%R) by (apply IZR_le; lia).
      rewrite Rle_bool_false by lra.
      symmetry. apply Z.leb_gt. lia.
    + destruct (Z.leb_spec e 0) as [He|He]; try discriminate. injection Ht as <-.
      cbn [cond_Zopp]. rewrite div_le_iff by (apply Z.pow_pos_nonneg; lia).
      assert (Hp : (0 < IZR (2 ^ (- e)))%R) by (apply IZR_lt; apply Z.pow_pos_nonneg; lia).
      assert (Hm : (F2R (Float radix2 (Z.pos m) e) * IZR (2 ^ (- e)) = IZR (Z.pos m))%R).
      { unfold F2R. cbn [Fnum Fexp]. rewrite Rmult_assoc.
        change 2 with (radix_val radix2) at 1. rewrite IZR_Zpower by lia.
        rewrite <- bpow_plus. replace (e + - e) with 0 by lia. cbn. ring. }
      destruct (Rle_bool_spec (IZR h) (F2R (Float radix2 (Z.pos m) e))) as [H|H];
      destruct (Z.leb_spec (h * 2 ^ (- e)) (Z.pos m)) as [H'|H']; auto; exfalso.
      * apply (Rmult_le_compat_r _ _ _ (Rlt_le _ _ Hp)) in H. rewrite Hm in H.
        rewrite <- mult_IZR in H. apply le_IZR in H. lia.
      * apply (Rmult_lt_compat_r _ _ _ Hp) in H. rewrite Hm in H.
        rewrite <- mult_IZR in H. apply lt_IZR in H. lia.
Qed.

(** The percentages for which the split point is evaluated in the kernel. *)
Definition pct_radius : Z := 10000.
Definition pct_sweep : list Z := map (fun n => Z.of_nat n - pct_radius) (seq 0 (Z.to_nat 20001)).

Lemma in_pct_sweep : forall p, - pct_radius <= p <= pct_radius -> In p pct_sweep.
Proof.
  intros p Hp. unfold pct_sweep, pct_radius in *.
  replace p with (Z.of_nat (Z.to_nat (p + 10000)) - 10000) by lia.
  apply (in_map (fun n => Z.of_nat n - 10000)). apply in_seq. lia.
Qed.

Definition threshold_matches (p : Z) : bool :=
  match float_threshold (split_point p) with
  | Some t => if p <? 0 then t =? -1 else if 100 <? p then 4294967295 <=? t else t =? T p
  | None => false
  end.

(** Kernel evaluation of the 20,001 split points with primitive floats. *)
Lemma threshold_sweep : forallb threshold_matches pct_sweep = true.
Proof. vm_compute. reflexivity. Qed.

Lemma threshold_matches_at : forall p, - pct_radius <= p <= pct_radius -> threshold_matches p = true.
Proof.
  intros p Hp. pose proof threshold_sweep as H. rewrite forallb_forall in H.
  apply H. now apply in_pct_sweep.
Qed.

(** floor(PercentageSplitPoint) = T pct on 0..100. *)
Lemma split_point_floor : forall p, 0 <= p <= 100 -> float_threshold (split_point p) = Some (T p).
Proof.
  intros p Hp. assert (Hr : - pct_radius <= p <= pct_radius) by (unfold pct_radius; lia).
  pose proof (threshold_matches_at p Hr) as H. unfold threshold_matches in H.
  destruct (float_threshold (split_point p)) as [t|]; [|discriminate].
  destruct (Z.ltb_spec p 0) as [H0|H0]; [lia|].
  destruct (Z.ltb_spec 100 p) as [H1|H1]; [lia|].
  apply Z.eqb_eq in H. now subst.
Qed.

(** The comparison the code performs is the integer comparison with [T]. *)
Lemma float_in_percentage_eq : forall p h,
  - pct_radius <= p <= pct_radius -> (h < two32)%N ->
  float_in_percentage p h = in_percentage p h.
Proof.
  intros p h Hp Hh. unfold two32 in Hh.
  pose proof (threshold_matches_at p Hp) as H. unfold threshold_matches in H.
  destruct (float_threshold (split_point p)) as [t|] eqn:Ht; [|discriminate].
  unfold float_in_percentage, in_percentage.
  rewrite (leb_threshold _ t _ Ht) by lia.
  destruct (Z.ltb_spec p 0) as [H0|H0].
  - apply Z.eqb_eq in H. subst t. now rewrite T_neg.
  - destruct (Z.ltb_spec 100 p) as [H1|H1].
    + rewrite T_full by lia. apply Z.leb_le in H.
      transitivity true; [apply Z.leb_le; lia | symmetry; apply Z.leb_le; lia].
    + apply Z.eqb_eq in H. now subst t.
Qed.

(** * Cookie lookup *)

Lemma first_some_In : forall {A B} (f : A -> option B) l y,
  first_some f l = Some y -> exists x, In x l /\ f x = Some y.
Proof.
  intros A B f l y. induction l as [|x l IH]; cbn [first_some]; [discriminate|].
  destruct (f x) as [z|] eqn:Hf.
  - intros H. injection H as <-. exists x. split; [now left | exact Hf].
  - intros H. destruct (IH H) as (x' & Hin & Hx'). exists x'. split; [now right | exact Hx'].
Qed.

(** Whatever the header lines are, the value handed to the rollout decision
    consists of valid cookie-value bytes only. *)
Lemma request_cookie_valid : forall name lines v,
  request_cookie name lines = Some v -> forallb valid_cookie_value_byte v = true.
Proof.
  intros name lines v H. unfold request_cookie in H. destruct name as [|n0 name]; [discriminate|].
  apply first_some_In in H. destruct H as (part & _ & H).
  unfold cookie_of_part in H. destruct (trim_space part) as [|b part']; [discriminate|].
  destruct (cut_byte x3d (b :: part')) as [[name0 val] found].
  destruct (negb (cookie_name_valid (trim_space name0))); [discriminate|].
  destruct (negb (str_eqb (n0 :: name) (trim_space name0))); [discriminate|].
  unfold parse_cookie_value in H.
  destruct (forallb valid_cookie_value_byte (strip_quotes val)) eqn:Hv; [|discriminate].
  injection H as <-. exact Hv.
Qed.

Lemma request_cookie_no_header : forall name, request_cookie name [] = None.
Proof. intros [|b name]; reflexivity. Qed.

(** * The decision *)

Lemma value_uses_rollout_iff : forall c v,
  value_uses_rollout c v = true <->
  v <> [] /\ (In v (sp_allow c) \/ Z.of_N (fnv1a v) <= T (sp_pct c)).
Proof.
  intros c v. unfold value_uses_rollout, in_percentage. destruct v as [|b v].
  - split; [discriminate | intros [H _]; now elim H].
  - rewrite orb_true_iff, mem_str_In, Z.leb_le. split.
    + intros H. split; [discriminate | exact H].
    + intros [_ H]. exact H.
Qed.

Lemma value_monotone : forall p q allow v, p <= q ->
  value_uses_rollout (mkSplit p allow) v = true -> value_uses_rollout (mkSplit q allow) v = true.
Proof.
  intros p q allow v Hpq H. apply value_uses_rollout_iff in H. apply value_uses_rollout_iff.
  cbn [sp_pct sp_allow] in *. destruct H as [Hne [H|H]]; split; auto.
  right. pose proof (T_mono p q Hpq). lia.
Qed.

Lemma value_full : forall p allow v, 100 <= p -> v <> [] -> value_uses_rollout (mkSplit p allow) v = true.
Proof.
  intros p allow v Hp Hv. apply value_uses_rollout_iff. split; [exact Hv|]. right.
  cbn [sp_pct]. rewrite T_full by exact Hp. apply fnv1a_bound_Z.
Qed.

Lemma value_negative : forall p allow v, p < 0 ->
  value_uses_rollout (mkSplit p allow) v = true -> In v allow.
Proof.
  intros p allow v Hp H. apply value_uses_rollout_iff in H. cbn [sp_pct sp_allow] in H.
  destruct H as [_ [H|H]]; [exact H|]. rewrite T_neg in H by exact Hp. lia.
Qed.

Lemma uses_monotone : forall p q allow lines, p <= q ->
  uses_rollout (mkSplit p allow) lines = true -> uses_rollout (mkSplit q allow) lines = true.
Proof.
  intros p q allow lines Hpq. unfold uses_rollout.
  destruct (request_cookie rollout_cookie_name lines) as [v|]; [|discriminate].
  now apply value_monotone.
Qed.

Lemma pick_rollout_iff : forall hr ctrl lines,
  pick hr ctrl lines = Rollout <->
  hr = true /\ exists c v, ctrl = Some c /\ request_cookie rollout_cookie_name lines = Some v /\
                           value_uses_rollout c v = true.
Proof.
  intros hr ctrl lines. unfold pick, uses_rollout. split.
  - destruct hr; [|discriminate]. destruct ctrl as [c|]; [|discriminate].
    destruct (request_cookie rollout_cookie_name lines) as [v|]; [|discriminate].
    destruct (value_uses_rollout c v) eqn:Hu; [|discriminate].
    intros _. split; [reflexivity|]. exists c, v. auto.
  - intros (-> & c & v & -> & -> & ->). reflexivity.
Qed.

(** * Histories *)

Lemma hrun_app : forall a s b,
  hrun s (a ++ b) =
  (fst (hrun (fst (hrun s a)) b), snd (hrun s a) ++ snd (hrun (fst (hrun s a)) b)).
Proof.
  induction a as [|c a IH]; intros s b; cbn [app hrun fst snd].
  - now destruct (hrun s b).
  - destruct (hstep s c) as [s1 o]. rewrite IH.
    destruct (hrun s1 a) as [s2 os]. cbn [fst snd]. reflexivity.
Qed.

Lemma ctrl_none_preserved : forall cmds s,
  existsb is_set cmds = false -> sv_ctrl s = None -> sv_ctrl (fst (hrun s cmds)) = None.
Proof.
  induction cmds as [|c cmds IH]; intros s Hset Hs; cbn [hrun fst]; [exact Hs|].
  cbn [existsb] in Hset. apply orb_false_iff in Hset. destruct Hset as [Hc Hrest].
  destruct (hstep s c) as [s1 o] eqn:Hstep.
  specialize (IH s1 Hrest). destruct (hrun s1 cmds) as [s2 os]. cbn [fst] in *.
  apply IH. destruct c; cbn in Hstep, Hc; try discriminate; injection Hstep as <- _; cbn; auto.
Qed.

Lemma request_without_ctrl : forall s lines,
  sv_ctrl s = None -> hstep s (HRequest lines) = (s, OServed (sv_active s)).
Proof.
  intros s lines H. cbn [hstep]. rewrite H. unfold pick.
  now destruct (has_rollout_slot s).
Qed.

Lemma request_without_slot : forall s lines,
  sv_rollout s = NoLB -> hstep s (HRequest lines) = (s, OServed (sv_active s)).
Proof. intros s lines H. cbn [hstep]. unfold has_rollout_slot. rewrite H. reflexivity. Qed.

Lemma slot_none_preserved : forall cmds s,
  existsb is_rollout_deploy cmds = false ->
  sv_rollout s = NoLB -> sv_rollout (fst (hrun s cmds)) = NoLB.
Proof.
  induction cmds as [|c cmds IH]; intros s Hd Hs; cbn [hrun fst]; [exact Hs|].
  cbn [existsb] in Hd. apply orb_false_iff in Hd. destruct Hd as [Hd1 Hd2].
  destruct (hstep s c) as [s1 o] eqn:Hstep.
  specialize (IH s1 Hd2). destruct (hrun s1 cmds) as [s2 os]. cbn [fst] in *.
  apply IH. destruct c; cbn in Hstep, Hd1; try discriminate.
  - injection Hstep as <- _. exact Hs.
  - unfold has_rollout_slot in Hstep. rewrite Hs in Hstep. injection Hstep as <- _. exact Hs.
  - injection Hstep as <- _. exact Hs.
  - injection Hstep as <- _. exact Hs.
  - injection Hstep as <- _. exact Hs.
Qed.

Lemma set_without_slot : forall s p allow,
  sv_rollout s = NoLB -> hstep s (HSet p allow) = (s, OErrNoRollout).
Proof. intros s p allow H. cbn [hstep]. unfold has_rollout_slot. rewrite H. reflexivity. Qed.

(** The model and the property's reading agree on every history. *)
Definition related (s : svc) (ss : spec_state) : Prop :=
  sv_active s = ss_active ss /\ sv_ctrl s = ss_split ss /\
  sv_rollout s = match ss_targets ss with Some r => LB r | None => NoLB end.

Lemma step_related : forall s ss c, related s ss ->
  related (fst (hstep s c)) (fst (spec_step ss c)) /\ snd (hstep s c) = snd (spec_step ss c).
Proof.
  intros s ss c (Ha & Hc & Hr). unfold related.
  destruct c as [id|id|p allow| | |lines]; cbn [hstep spec_step fst snd].
  - cbn. auto.
  - cbn. auto.
  - unfold has_rollout_slot. rewrite Hr. destruct (ss_targets ss) as [r|] eqn:Ht; cbn; rewrite ?Ht; auto.
  - cbn. auto.
  - auto.
  - split; [auto|]. unfold has_rollout_slot. rewrite Hr, Hc, Ha.
    destruct (ss_targets ss) as [r|]; destruct (ss_split ss) as [c|]; unfold pick; cbn; auto.
    destruct (uses_rollout c lines); reflexivity.
Qed.

Lemma run_related : forall cmds s ss, related s ss ->
  snd (hrun s cmds) = snd (spec_run ss cmds).
Proof.
  induction cmds as [|c cmds IH]; intros s ss HR; cbn [hrun spec_run]; [reflexivity|].
  destruct (step_related s ss c HR) as [HR' Ho].
  destruct (hstep s c) as [s1 o]. destruct (spec_step ss c) as [ss1 o']. cbn [fst snd] in *.
  specialize (IH s1 ss1 HR').
  destruct (hrun s1 cmds) as [s2 os]. destruct (spec_run ss1 cmds) as [ss2 os']. cbn [snd] in *.
  now subst.
Qed.

Lemma init_related : forall id, related (init_svc id) (init_spec id).
Proof. intros id. unfold related. cbn. auto. Qed.
