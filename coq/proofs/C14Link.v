(** C14Link.v — link between the model of buffering (model/Buffer.v, theorems
    props/C14.v) and the monitors of corr/C14corr.v: the monitors accept every
    observation that the model itself produces.  Hence "monitor false on an
    implementation observation" means "the implementation left the behaviours
    of the model". *)
From KP Require Import model.Base model.Buffer proofs.BufferFacts corr.C14corr.
From Coq Require Import ZifyN ZifyNat ZifyBool.
Local Open Scope N_scope.

(** ** Small facts *)

Lemma byte_eqb_refl_l (a : byte) : byte_eqb a a = true.
Proof. unfold byte_eqb. apply Byte.byte_dec_lb. reflexivity. Qed.

Lemma str_eqb_refl_l (a : str) : str_eqb a a = true.
Proof. induction a as [|x a IH]; cbn; [reflexivity|]. now rewrite byte_eqb_refl_l, IH. Qed.

(** ** [overflowed] is sticky: no write ever resets it (any buffer, any chunk) *)

Lemma write_overflow_sticky b p : overflowed b = true -> overflowed (fst (write b p)) = true.
Proof.
  intros H. unfold write.
  destruct (reading b); [exact H|].
  destruct ((0 <? max_bytes b) && (max_bytes b <? total_written b + lenN p)); [reflexivity|].
  destruct (disk b); [exact H|].
  destruct (mem_written b + lenN p <=? max_mem b); exact H.
Qed.

Lemma writes_overflow_sticky : forall chunks b,
  overflowed b = true -> overflowed (fst (writes b chunks)) = true.
Proof.
  induction chunks as [|p cs IH]; intros b H; cbn [writes]; [exact H|].
  pose proof (write_overflow_sticky b p H) as H1.
  destruct (write b p) as [b1 r]. cbn [fst] in H1.
  specialize (IH b1 H1). destruct (writes b1 cs) as [b2 rs]. exact IH.
Qed.

(** ** The observation steps follow the writes *)

Lemma model_steps_writes : forall chunks b, fst (model_steps b chunks) = fst (writes b chunks).
Proof.
  induction chunks as [|p cs IH]; intros b; cbn [model_steps writes]; [reflexivity|].
  destruct (write b p) as [b1 [n e]]. specialize (IH b1).
  destruct (model_steps b1 cs) as [b2 os]. destruct (writes b1 cs) as [b3 rs]. exact IH.
Qed.

(** ** Spill files of a well-formed buffer *)

Definition files_fit (files : list N) (tot maxm : N) : bool :=
  let disk := match files with [] => 0 | [d] => d | _ => tot + 1 end in
  (disk <=? tot) && (tot - disk <=? maxm) && (match files with [] | [_] => true | _ => false end).

Lemma wf_files_fit b acc : wf b acc -> files_fit (files_of b) (lenN acc) (max_mem b) = true.
Proof.
  intros Hwf. pose proof (wf_total _ _ Hwf) as Ht. pose proof (wf_mem_bound _ _ Hwf) as Hm.
  destruct Hwf as (_ & _ & _ & _ & Hs).
  unfold files_fit, files_of. rewrite Hs. unfold total_written in Ht.
  destruct (lenN acc <=? max_mem b) eqn:E; cbn [negb]; lia.
Qed.

Lemma set_overflow_files b : files_of (set_overflow b) = files_of b.
Proof. reflexivity. Qed.

(** ** The generalised invariant: [model_steps] and [steps_ok] in lock-step *)

Lemma steps_inv : forall chunks b acc rb,
  wf b acc ->
  (max_bytes b = 0 \/ lenN acc <= max_bytes b) ->
  (rb = true -> overflowed b = true) ->
  steps_ok (max_bytes b) (max_mem b) chunks (snd (model_steps b chunks)) (lenN acc) acc rb =
    (true, fst (accepted (max_bytes b) acc chunks), snd (accepted (max_bytes b) acc chunks)).
Proof.
  induction chunks as [|p cs IH]; intros b acc rb Hwf Hlim Hrb; cbn [model_steps steps_ok accepted snd];
    [reflexivity|].
  pose proof (write_spec b acc p Hwf) as Hw.
  destruct (would_overflow (max_bytes b) acc p) eqn:Eo.
  - (* rejected *)
    rewrite Hw.
    pose proof (set_overflow_wf _ _ Hwf) as Hwf1.
    specialize (IH (set_overflow b) acc true Hwf1 Hlim (fun _ => eq_refl)).
    change (max_bytes (set_overflow b)) with (max_bytes b) in IH.
    change (max_mem (set_overflow b)) with (max_mem b) in IH.
    destruct (model_steps (set_overflow b) cs) as [b2 os]. cbn [snd] in IH |- *.
    cbn [wo_err wo_over wo_files]. rewrite set_overflow_files.
    rewrite orb_true_r. rewrite IH. cbn [overflowed set_overflow fst].
    pose proof (wf_files_fit _ _ Hwf) as Hf. unfold files_fit in Hf.
    unfold would_overflow in Eo.
    f_equal; [f_equal|apply orb_true_r].
    rewrite andb_true_r.
    destruct (files_of b) as [|d [|d2 l]]; cbn [andb] in *; lia.
  - (* accepted *)
    destruct Hw as (b1 & Hw & Hwf1 & Hb & Hm & Ho). rewrite Hw.
    unfold would_overflow in Eo.
    assert (Hlim1 : max_bytes b1 = 0 \/ lenN (acc ++ p) <= max_bytes b1).
    { rewrite Hb, lenN_app. lia. }
    assert (Hrb1 : rb || false = true -> overflowed b1 = true).
    { rewrite orb_false_r, Ho. exact Hrb. }
    specialize (IH b1 (acc ++ p) (rb || false)%bool Hwf1 Hlim1 Hrb1).
    rewrite Hb, Hm, lenN_app in IH.
    destruct (model_steps b1 cs) as [b2 os]. cbn [snd] in IH |- *.
    cbn [wo_err wo_over wo_files]. rewrite IH. rewrite orb_false_r.
    pose proof (wf_files_fit _ _ Hwf1) as Hf. unfold files_fit in Hf. rewrite Hm, lenN_app in Hf.
    f_equal. f_equal.
    assert (Hst : negb rb || overflowed b1 = true).
    { destruct rb; [|reflexivity]. cbn. rewrite Ho. now apply Hrb. }
    rewrite Hst, !andb_true_r.
    destruct (files_of b1) as [|d [|d2 l]]; cbn [andb] in *; lia.
Qed.

(** Final buffer of the observation steps. *)
Lemma model_steps_final maxb maxm chunks :
  wf (fst (model_steps (new_buf maxb maxm) chunks)) (fst (accepted maxb [] chunks)).
Proof.
  rewrite model_steps_writes.
  pose proof (writes_spec chunks (new_buf maxb maxm) [] (wf_new maxb maxm)) as H.
  destruct (writes (new_buf maxb maxm) chunks) as [b rs]. cbn in *. apply H.
Qed.

Lemma listN_eqb_nil : listN_eqb [] [] = true.
Proof. reflexivity. Qed.

(** * The Buffer-level monitor accepts the model's observation *)
Lemma buf_monitor_of_model maxb maxm chunks :
  buf_monitor maxb maxm chunks (model_buf maxb maxm chunks) = true.
Proof.
  unfold buf_monitor, model_buf.
  pose proof (steps_inv chunks (new_buf maxb maxm) [] false (wf_new maxb maxm)) as Hs.
  change (max_bytes (new_buf maxb maxm)) with maxb in Hs.
  change (max_mem (new_buf maxb maxm)) with maxm in Hs.
  change (lenN (@nil byte)) with 0 in Hs.
  specialize (Hs (or_intror (N.le_0_l maxb)) (fun H => False_ind _ (Bool.diff_false_true H))).
  pose proof (model_steps_final maxb maxm chunks) as Hwf.
  destruct (model_steps (new_buf maxb maxm) chunks) as [b os]. cbn [fst snd] in Hs, Hwf.
  pose proof (wf_send _ _ Hwf) as [Hsent Hclose].
  destruct (send b) as [b1 sent]. cbn [fst snd] in Hsent, Hclose. subst sent.
  cbn [bo_steps bo_sent bo_after_close bo_after_close2]. rewrite Hs.
  rewrite close_idem. unfold files_of. rewrite Hclose. rewrite listN_eqb_nil, str_eqb_refl_l, !andb_true_r.
  cbn [andb].
  destruct (snd (accepted maxb [] chunks)) eqn:Er; [reflexivity|]. cbn [orb].
  rewrite (accepted_no_overflow chunks maxb [] Er). cbn [app]. apply str_eqb_refl_l.
Qed.

(** * Target level *)

(** ** The request middleware, completely (abort included) *)

Lemma too_large_eq maxb body : too_large maxb body = body_too_large maxb body.
Proof. reflexivity. Qed.

Definition req_outcome_of (maxb : N) (chunks : list str) (abort : bool) : req_outcome :=
  if too_large maxb (concat chunks) then Req413
  else if abort then Req500 else ReqForward (concat chunks).

Lemma req_mw_cases maxm maxb chunks abort :
  exists b, req_mw maxm maxb chunks abort = (req_outcome_of maxb chunks abort, b) /\ spill_live b = false.
Proof.
  unfold req_outcome_of. rewrite too_large_eq. destruct abort.
  - unfold req_mw.
    pose proof (copy_in_spec chunks (new_buf maxb maxm) [] (wf_new maxb maxm)) as H.
    destruct (copy_in (new_buf maxb maxm) chunks) as [b e].
    change (max_bytes (new_buf maxb maxm)) with maxb in H.
    rewrite overflow_chunking_irrelevant in H.
    destruct (body_too_large maxb (concat chunks)).
    + destruct H as (-> & _ & acc' & Hwf). eexists. split; [reflexivity|].
      eapply wf_close_no_spill; eauto.
    + destruct H as (-> & Hwf & _). eexists. split; [reflexivity|].
      eapply wf_close_no_spill; eauto.
  - destruct (req_mw_spec maxm maxb chunks) as [H1 H2].
    exists (snd (req_mw maxm maxb chunks false)). split; [exact H1|exact H2].
Qed.

(** ** The response middleware on the operation list of a case *)

Definition chunk_ops (chunks : list str) : list hop := flat_map (fun p => [HWrite p; HFlush]) chunks.

Lemma chunk_ops_body chunks : Forall body_op (chunk_ops chunks).
Proof.
  induction chunks as [|p cs IH]; cbn; [constructor|].
  constructor; [exact I|]. constructor; [exact I|exact IH].
Qed.

Lemma chunk_ops_chunks chunks : hop_chunks (chunk_ops chunks) = chunks.
Proof.
  induction chunks as [|p cs IH]; [reflexivity|].
  change (hop_chunks (chunk_ops (p :: cs))) with (p :: hop_chunks (chunk_ops cs)). now rewrite IH.
Qed.

(** What the client makes of a passed-through event stream. *)
Lemma view_passthrough : forall chunks tail s body fl hj,
  view_aux (flat_map passthrough (chunk_ops chunks) ++ tail) (Some s) body fl hj =
  view_aux tail (Some s) (body ++ concat chunks) (fl + lenN chunks) hj.
Proof.
  induction chunks as [|p cs IH]; intros tail s body fl hj.
  - cbn [chunk_ops flat_map app concat]. rewrite app_nil_r. f_equal. unfold lenN. cbn. lia.
  - change (flat_map passthrough (chunk_ops (p :: cs)) ++ tail)
      with (CWrite p :: CFlush :: flat_map passthrough (chunk_ops cs) ++ tail).
    cbn [view_aux]. rewrite IH. cbn [concat]. rewrite app_assoc. f_equal.
    unfold lenN. cbn [length]. lia.
Qed.

Definition resp_status_of (maxb s : N) (sse : bool) (chunks : list str) : N :=
  if negb sse && too_large maxb (concat chunks) then 500 else s.
Definition resp_body_of (maxb : N) (sse : bool) (chunks : list str) : str :=
  if negb sse && too_large maxb (concat chunks) then err500_body else concat chunks.

Lemma resp_mw_cases maxm maxb s sse chunks :
  is_informational s = false ->
  exists evs b, resp_mw maxm maxb (HWriteHeader s sse :: chunk_ops chunks) = (evs, b) /\
    spill_live b = false /\
    v_status (client_view_of evs) = resp_status_of maxb s sse chunks /\
    v_body (client_view_of evs) = resp_body_of maxb sse chunks.
Proof.
  intros Hs. unfold resp_status_of, resp_body_of. rewrite too_large_eq.
  destruct sse; cbn [negb andb].
  - destruct (resp_mw_stream_spec maxm maxb s (chunk_ops chunks) Hs (chunk_ops_body chunks)) as [H1 H2].
    destruct (resp_mw maxm maxb (HWriteHeader s true :: chunk_ops chunks)) as [evs b].
    cbn [fst snd] in H1, H2. exists evs, b. split; [reflexivity|]. split; [exact H2|].
    subst evs. unfold client_view_of. cbn [view_aux]. rewrite Hs.
    rewrite view_passthrough. cbn [view_aux]. rewrite Hs. cbn [view_aux v_status v_body app].
    split; reflexivity.
  - destruct (resp_mw_buffered_spec maxm maxb s (chunk_ops chunks) Hs (chunk_ops_body chunks)) as [H1 H2].
    rewrite chunk_ops_chunks in H1.
    destruct (resp_mw maxm maxb (HWriteHeader s false :: chunk_ops chunks)) as [evs b].
    cbn [fst snd] in H1, H2. exists evs, b. split; [reflexivity|]. split; [exact H2|].
    rewrite H1. destruct (body_too_large maxb (concat chunks)); split; reflexivity.
Qed.

(** ** The observation predicted by the composed model *)

(** Where the model leaves a field open ([None]: behaviour of net/http that it
    does not fix) any value may be observed: [any_body], [any_flushed]. *)
Definition obs_of_model (i : http_in) (any_body : str) (any_flushed : bool) : http_obs :=
  let e := model_http i in
  mkHttpObs (he_status e)
            (match he_body e with Some b => b | None => any_body end)
            (match he_flushed e with Some f => f | None => any_flushed end)
            (he_hit e) (he_got e) (he_files_after e).

(** The observation agrees with the model (sanity of the definition). *)
Lemma obs_of_model_agrees i ab af : http_agree i (obs_of_model i ab af) = true.
Proof.
  unfold http_agree, obs_of_model. cbn [ho_status ho_body ho_flushed ho_hit ho_got ho_files_after].
  destruct (model_http i) as [st bo fo hit got files]. cbn [he_status he_body he_flushed he_hit he_got he_files_after].
  rewrite N.eqb_refl, str_eqb_refl_l. cbn [andb].
  assert (H1 : opt_match str_eqb bo match bo with Some b => b | None => ab end = true)
    by (destruct bo; cbn; [apply str_eqb_refl_l|reflexivity]).
  assert (H2 : opt_match Bool.eqb fo match fo with Some f => f | None => af end = true)
    by (destruct fo; cbn; [apply Bool.eqb_reflx|reflexivity]).
  rewrite H1, H2, Bool.eqb_reflx. cbn [andb].
  clear. induction files as [|x l IH]; [reflexivity|]. unfold listN_eqb in *. cbn. now rewrite N.eqb_refl, IH.
Qed.

(** The generator's guarantee that the theorem needs: when the response is
    buffered, the status written by the target is a final one (not an interim
    1xx other than 101). *)
Definition http_hyp (i : http_in) : bool :=
  negb (hi_buffer_resp i) || negb (is_informational (hi_resp_status i)).

Lemma http_monitor_of_model i ab af :
  http_hyp i = true -> http_monitor i (obs_of_model i ab af) = true.
Proof.
  destruct i as [breq bresp maxm maxreq maxresp rchunks abort s sse pchunks].
  unfold http_hyp, http_monitor, obs_of_model, model_http, resp_ops.
  cbn [hi_buffer_req hi_buffer_resp hi_maxm hi_max_req hi_max_resp hi_req_chunks hi_abort hi_resp_status
       hi_sse hi_resp_chunks].
  fold (chunk_ops pchunks). intros Hyp.
  (* response side, shared by both request branches *)
  assert (Hresp : forall files got,
    let e := if bresp then
        let '(evs, b) := resp_mw maxm maxresp (HWriteHeader s sse :: chunk_ops pchunks) in
        let v := client_view_of evs in
        let fl := if sse && match concat pchunks with [] => true | _ => false end
                  then None else Some (0 <? v_flushes v) in
        mkHttpExp (v_status v) (Some (v_body v)) fl true got (files ++ files_of b)
      else mkHttpExp s (Some (concat pchunks)) None true got files in
    he_hit e = true /\ he_got e = got /\
    (exists body, he_body e = Some body /\
       (if bresp && negb sse then
          if too_large maxresp (concat pchunks)
          then (he_status e =? 500) && str_eqb body err500_body
          else (he_status e =? s) && str_eqb body (concat pchunks)
        else (he_status e =? s) && str_eqb body (concat pchunks)) = true) /\
    (files = [] -> he_files_after e = [])).
  { intros files got. destruct bresp; cbv zeta.
    - cbn [negb orb] in Hyp. apply negb_true_iff in Hyp.
      destruct (resp_mw_cases maxm maxresp s sse pchunks Hyp) as (evs & b & E & Hsp & Hst & Hbd).
      rewrite E. cbn [he_hit he_got he_body he_status he_files_after].
      split; [reflexivity|]. split; [reflexivity|]. split.
      + eexists. split; [reflexivity|]. rewrite Hst, Hbd. unfold resp_status_of, resp_body_of.
        cbn [andb]. destruct sse; cbn [negb andb].
        * now rewrite N.eqb_refl, str_eqb_refl_l.
        * destruct (too_large maxresp (concat pchunks)); now rewrite N.eqb_refl, str_eqb_refl_l.
    + intros ->. unfold files_of. rewrite Hsp. reflexivity.
    - cbn [he_hit he_got he_body he_status he_files_after andb].
      split; [reflexivity|]. split; [reflexivity|]. split; [|auto].
      eexists. split; [reflexivity|]. now rewrite N.eqb_refl, str_eqb_refl_l. }
  destruct breq.
  - destruct (req_mw_cases maxm maxreq rchunks abort) as (b & E & Hsp). rewrite E. cbn [fst].
    unfold req_outcome_of.
    destruct (too_large maxreq (concat rchunks)) eqn:Etl.
    + reflexivity || (cbn; unfold files_of; rewrite Hsp; reflexivity).
    + destruct abort.
      * cbn. unfold files_of. rewrite Hsp. reflexivity.
      * specialize (Hresp (files_of b) (concat rchunks)). cbv zeta in Hresp.
        match type of Hresp with he_hit ?e = true /\ _ => set (ee := e) in * end.
        destruct Hresp as (Hhit & Hgot & (body & Hb & Hok) & Hfiles).
        cbn [ho_status ho_body ho_flushed ho_hit ho_got ho_files_after].
        rewrite Hhit, Hgot, Hb, str_eqb_refl_l, Hok.
        rewrite Hfiles by (unfold files_of; now rewrite Hsp). reflexivity.
  - specialize (Hresp [] (concat rchunks)). cbv zeta in Hresp.
    match type of Hresp with he_hit ?e = true /\ _ => set (ee := e) in * end.
    destruct Hresp as (Hhit & Hgot & (body & Hb & Hok) & Hfiles).
    cbn [ho_status ho_body ho_flushed ho_hit ho_got ho_files_after].
    rewrite Hhit, Hgot, Hb, str_eqb_refl_l, Hok. rewrite Hfiles by reflexivity. reflexivity.
Qed.
