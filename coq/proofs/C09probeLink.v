(** C09probeLink.v — link between the probe loop model (model/Ticker.v, theorems
    props/C09probe.v) and the monitor of corr/C09probecorr.v: the monitor
    [c09_probe_ok] accepts the observation of every run of the model that was ended
    by the stop (not by the end of the script).  Hence "monitor false on an
    implementation observation" means "the implementation left the behaviours of the
    model", and observations that agree with the model need no separate monitor
    verdict. *)
From KP Require Import model.Base model.Ticker proofs.TickerFacts corr.C09probecorr.
From Coq Require Import ZifyN ZifyNat ZifyBool.
Local Open Scope N_scope.

(** [next_due] (the monitor's formula) is [next_start] (the model's). *)
Lemma next_due_next_start t0 I s d : 0 < I -> t0 <= s ->
  next_due t0 I s (s + d) = next_start t0 I s (s + d).
Proof.
  intros HI Hs. rewrite (next_start_closed t0 I s d HI Hs). unfold next_due.
  replace (s + d - s) with d by lia. reflexivity.
Qed.

(** only the last entry of a run lacks a result: the observation pairs up again *)
Lemma pair_obs_run t0 I TO stop script : forall s,
  pair_obs (obs_of (loop t0 I TO stop s script)) = Some (loop t0 I TO stop s script).
Proof.
  induction script as [|a rest IH]; intros s; [reflexivity|].
  rewrite run_cons. destruct (after_stop stop s); [reflexivity|].
  destruct (after_stop stop (s + dur TO a)); [reflexivity|].
  cbn [obs_of flat_map snd fst app]. cbn [pair_obs].
  change (flat_map _ (loop t0 I TO stop (next_start t0 I s (s + dur TO a)) rest))
    with (obs_of (loop t0 I TO stop (next_start t0 I s (s + dur TO a)) rest)).
  rewrite IH. reflexivity.
Qed.

Lemma le_stop_false stop t : after_stop stop t = false -> le_stop stop t = true.
Proof. unfold le_stop. intros ->. reflexivity. Qed.

Lemma consecutive_ok_next t0 I s d : 0 < I -> t0 <= s ->
  consecutive_ok t0 I s (s + d) (next_start t0 I s (s + d)) = true.
Proof.
  intros HI Hs. unfold consecutive_ok. rewrite (next_due_next_start t0 I s d HI Hs).
  pose proof (next_start_bounds t0 I s d HI Hs) as (B1 & B2 & B3 & _ & B5 & _).
  set (n := next_start t0 I s (s + d)) in *.
  replace (s + d - s) with d by lia.
  rewrite N.eqb_refl. cbn [andb].
  replace (s + d <=? n) with true by (symmetry; apply N.leb_le; exact B1).
  replace (n <=? s + d + I) with true by (symmetry; apply N.leb_le; exact B2).
  replace (n <=? s + N.max I d) with true by (symmetry; apply N.leb_le; exact B3).
  cbn [andb]. destruct B5 as [B5|B5].
  - rewrite B5, N.eqb_refl. reflexivity.
  - rewrite B5. apply orb_true_r.
Qed.

Section Link.
Variables (t0 I TO : N) (stop : option N).
Hypothesis HI : 0 < I.

Lemma cadence_run script : forall s, t0 <= s ->
  (length (loop t0 I TO stop s script) < length script)%nat ->
  cadence_from t0 I TO stop (loop t0 I TO stop s script) = true.
Proof.
  induction script as [|a rest IH]; intros s Hs Hlen; [reflexivity|].
  rewrite run_cons in Hlen |- *.
  destruct (after_stop stop s) eqn:Hst; [reflexivity|].
  pose proof (dur_le_timeout TO a) as Hd.
  destruct (after_stop stop (s + dur TO a)) eqn:Het.
  - cbn [cadence_from]. rewrite (le_stop_false _ _ Hst). cbn [andb].
    apply (after_stop_mono stop (s + dur TO a)); [lia|exact Het].
  - cbn [length] in Hlen.
    set (n := next_start t0 I s (s + dur TO a)) in *.
    assert (Hl : (length (loop t0 I TO stop n rest) < length rest)%nat) by lia.
    pose proof (next_start_bounds t0 I s (dur TO a) HI Hs) as (B1 & _). fold n in B1.
    assert (Hn : t0 <= n) by lia.
    specialize (IH n Hn Hl).
    cbn [cadence_from]. rewrite (le_stop_false _ _ Hst), (le_stop_false _ _ Het).
    replace (s <=? s + dur TO a) with true by (symmetry; apply N.leb_le; lia).
    replace (s + dur TO a <=? s + TO) with true by (symmetry; apply N.leb_le; lia).
    cbn [andb].
    destruct (loop t0 I TO stop n rest) as [|[s' r'] tl] eqn:Hrun.
    + (* no further probe: the one that is due lies after the stop *)
      rewrite (next_due_next_start t0 I s (dur TO a) HI Hs). fold n.
      destruct rest as [|a' rest']; [cbn in Hl; lia|].
      rewrite run_cons in Hrun.
      destruct (after_stop stop n); [reflexivity|].
      destruct (after_stop stop (n + dur TO a')); discriminate Hrun.
    + assert (Hs' : s' = n).
      { apply (run_head t0 I TO stop rest n s' r'). rewrite Hrun. reflexivity. }
      subst s'. unfold n at 1. rewrite (consecutive_ok_next t0 I s (dur TO a) HI Hs).
      cbn [andb]. exact IH.
Qed.

Lemma exact_grid_run script : forall j,
  all_fast I (loop t0 I TO stop (tick_at t0 I j) script) = true ->
  exact_grid_from I (tick_at t0 I j) (loop t0 I TO stop (tick_at t0 I j) script) = true.
Proof.
  induction script as [|a rest IH]; intros j Hf; [reflexivity|].
  rewrite run_cons in Hf |- *.
  destruct (after_stop stop (tick_at t0 I j)); [reflexivity|].
  destruct (after_stop stop (tick_at t0 I j + dur TO a)).
  - cbn [exact_grid_from]. rewrite N.eqb_refl. reflexivity.
  - cbn [all_fast forallb snd fst] in Hf. apply andb_true_iff in Hf. destruct Hf as [Hd Hf].
    apply N.ltb_lt in Hd.
    assert (Hd' : dur TO a < I) by lia.
    rewrite (next_start_on_grid t0 I HI j (dur TO a) Hd') in Hf |- *.
    cbn [exact_grid_from]. rewrite N.eqb_refl. cbn [andb].
    replace (tick_at t0 I j + I) with (tick_at t0 I (j + 1)) by (unfold tick_at; lia).
    apply IH. exact Hf.
Qed.

End Link.

(** The monitor accepts every run of the model that was ended by the stop. *)
Lemma L_model_monitor : forall t0 I TO script stop,
  0 < I ->
  (length (probe_times t0 I TO script stop) < length script)%nat ->
  c09_probe_ok t0 I TO stop (obs_of (probe_times t0 I TO script stop)) = true.
Proof.
  intros t0 I TO script stop HI Hlen. unfold c09_probe_ok, probe_times in *.
  rewrite pair_obs_run. unfold probes_ok.
  pose proof (cadence_run t0 I TO stop HI script t0 (N.le_refl t0) Hlen) as Hc.
  pose proof (exact_grid_run t0 I TO stop HI script 0) as Hg. rewrite tick_at_0 in Hg.
  destruct (loop t0 I TO stop t0 script) as [|[s0 r0] tl] eqn:Hrun.
  - destruct script as [|a rest]; [cbn in Hlen; lia|].
    rewrite run_cons in Hrun. destruct (after_stop stop t0); [reflexivity|].
    destruct (after_stop stop (t0 + dur TO a)); discriminate Hrun.
  - assert (Hs0 : s0 = t0).
    { apply (run_head t0 I TO stop script t0 s0 r0). rewrite Hrun. reflexivity. }
    subst s0. rewrite N.eqb_refl, Hc. cbn [andb].
    match goal with |- context [negb ?x] => destruct x eqn:Hf end.
    + rewrite (Hg eq_refl). apply orb_true_r.
    + reflexivity.
Qed.

(** A case on which observation and model agree satisfies the monitor. *)
Lemma probe_eqb_eq (p q : probe) : probe_eqb p q = true -> p = q.
Proof.
  destruct p as [s r], q as [s' r']. unfold probe_eqb. cbn [fst snd]. intros H.
  apply andb_true_iff in H. destruct H as [Hs Hr]. apply N.eqb_eq in Hs. subst s'. f_equal.
  destruct r as [[e o]|], r' as [[e' o']|]; cbn [res_eqb] in Hr; try discriminate Hr; [|reflexivity].
  apply andb_true_iff in Hr. destruct Hr as [He Ho]. apply N.eqb_eq in He. apply Bool.eqb_prop in Ho.
  now subst.
Qed.

Lemma pair_obs_inj_probe_eqb : forall ps qs, list_eqb probe_eqb ps qs = true -> ps = qs.
Proof.
  induction ps as [|p ps IH]; intros [|q qs] H; try discriminate H; [reflexivity|].
  change (probe_eqb p q && list_eqb probe_eqb ps qs = true) in H.
  apply andb_true_iff in H. destruct H as [H1 H2].
  rewrite (probe_eqb_eq p q H1), (IH qs H2). reflexivity.
Qed.

Lemma L_agrees_monitor : forall c, 0 < c_interval c -> agrees c = true -> monitor c = true.
Proof.
  intros c HI H. unfold agrees in H. unfold monitor, c09_probe_ok.
  destruct (pair_obs (c_obs c)) as [ps|] eqn:Hp; [|discriminate H].
  apply andb_true_iff in H. destruct H as [Heq Hfuel].
  apply pair_obs_inj_probe_eqb in Heq. subst ps.
  unfold fuel_ok in Hfuel. apply Nat.ltb_lt in Hfuel. unfold model_of in *.
  pose proof (L_model_monitor _ _ _ _ _ HI Hfuel) as Hm.
  unfold c09_probe_ok, probe_times in Hm. rewrite pair_obs_run in Hm. exact Hm.
Qed.
