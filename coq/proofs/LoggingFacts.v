(** LoggingFacts.v — proofs about model/Logging.v (property C19). *)
From KP Require Import model.Base model.Url model.ServiceMap model.Headers model.Buffer
  model.ProxyError model.ErrorPage model.Logging proofs.BufferFacts proofs.ProxyErrorFacts.
From Coq Require Import ZifyN ZifyNat ZifyBool.
Local Open Scope N_scope.

(** ** The writer *)

(** The status an operation sets, if any. *)
Definition sets (o : wop) : option N :=
  match o with OpWriteHeader s => Some s | OpHijack true => Some 101 | _ => None end.

Fixpoint last_setting (ops : list wop) : option N :=
  match ops with
  | [] => None
  | o :: r => match last_setting r with Some s => Some s | None => sets o end
  end.

Definition accepted_of (o : wop) : N := match o with OpWrite _ n => n | _ => 0 end.

Lemma fold_lw ops : forall w,
  lw_status (fold_left lw_step ops w) = (match last_setting ops with Some s => s | None => lw_status w end) /\
  lw_bytes (fold_left lw_step ops w) = lw_bytes w + sumN (map accepted_of ops).
Proof.
  induction ops as [|o ops IH]; intros w; cbn [fold_left last_setting map sumN].
  - split; [reflexivity|lia].
  - destruct (IH (lw_step w o)) as [Hs Hb]. rewrite Hs, Hb. split.
    + destruct (last_setting ops) as [s|]; [reflexivity|].
      destruct o as [s| a b | |[|]]; reflexivity.
    + destruct o as [s| a b | |[|]]; cbn; lia.
Qed.

Lemma lw_run_status ops :
  lw_status (lw_run ops) = match last_setting ops with Some s => s | None => 200 end.
Proof. unfold lw_run. destruct (fold_lw ops lw_init) as [H _]. exact H. Qed.

Lemma lw_run_bytes ops : lw_bytes (lw_run ops) = sumN (map accepted_of ops).
Proof. unfold lw_run. destruct (fold_lw ops lw_init) as [_ H]. rewrite H. cbn. lia. Qed.

(** "the last call wins": anything after which no status is set any more. *)
Lemma last_setting_app a b :
  last_setting (a ++ b) = match last_setting b with Some s => Some s | None => last_setting a end.
Proof.
  induction a as [|o a IH]; cbn.
  - destruct (last_setting b); reflexivity.
  - rewrite IH. destruct (last_setting b); reflexivity.
Qed.

Lemma last_setting_none_iff ops : last_setting ops = None <-> Forall (fun o => sets o = None) ops.
Proof.
  induction ops as [|o ops IH]; cbn.
  - split; auto.
  - destruct (last_setting ops) as [s|] eqn:E.
    + split; [discriminate|]. intros H. inversion H; subst. apply IH in H3. discriminate.
    + split.
      * intros H. constructor; [exact H|]. apply IH. reflexivity.
      * intros H. inversion H; assumption.
Qed.

Lemma status_last_call pre o post s :
  sets o = Some s -> Forall (fun o' => sets o' = None) post ->
  lw_status (lw_run (pre ++ o :: post)) = s.
Proof.
  intros Ho Hp. rewrite lw_run_status, last_setting_app. cbn.
  apply last_setting_none_iff in Hp. rewrite Hp, Ho. reflexivity.
Qed.

Lemma status_default ops :
  Forall (fun o => sets o = None) ops -> lw_status (lw_run ops) = 200.
Proof. intros H. rewrite lw_run_status. apply last_setting_none_iff in H. rewrite H. reflexivity. Qed.

(** ** Logged status vs. the status the client is told *)

(** every status-setting call is informational or sets [c] *)
Definition all_final_eq (c : N) (ops : list wop) : bool :=
  forallb (fun o => match sets o with Some s => informational s || (s =? c) | None => true end) ops.

Definition coherent (ops : list wop) : bool :=
  all_final_eq (client_status ops) ops &&
  match last_setting ops with Some s => negb (informational s) | None => true end.

Lemma last_setting_in c ops s :
  all_final_eq c ops = true -> last_setting ops = Some s -> informational s = true \/ s = c.
Proof.
  induction ops as [|o ops IH]; cbn; [discriminate|].
  intros Ha Hl. apply andb_true_iff in Ha. destruct Ha as [Ho Ha].
  destruct (last_setting ops) as [s'|] eqn:E.
  - inversion Hl; subst. apply IH; auto.
  - rewrite Hl in Ho. apply orb_true_iff in Ho. destruct Ho as [Ho|Ho]; [left; exact Ho|right; lia].
Qed.

Lemma client_status_no_setting ops :
  last_setting ops = None -> client_status ops = 200.
Proof.
  intros H. apply last_setting_none_iff in H.
  induction ops as [|o ops IH]; [reflexivity|].
  inversion H as [|? ? Ho Hr]; subst.
  destruct o as [s| a b | |[|]]; cbn in *; try reflexivity; try discriminate.
  apply IH. exact Hr.
Qed.

Lemma logged_is_client_status ops :
  coherent ops = true -> lw_status (lw_run ops) = client_status ops.
Proof.
  unfold coherent. intros H. apply andb_true_iff in H. destruct H as [Ha Hl].
  rewrite lw_run_status. destruct (last_setting ops) as [s|] eqn:E.
  - destruct (last_setting_in _ _ _ Ha E) as [Hi|Hc]; [|exact Hc].
    rewrite Hi in Hl. discriminate.
  - symmetry. apply client_status_no_setting. exact E.
Qed.

(** ** The record *)

Lemma logging_mw_one hp hsp q h : length (logging_mw hp hsp q h) = 1%nat.
Proof. unfold logging_mw. destruct (hr_end h); reflexivity. Qed.

Lemma logging_mw_record hp hsp q h :
  logging_mw hp hsp q h = [make_record hp hsp q (hr_ctx h) (lw_run (hr_ops h)) (hr_resp_headers h)].
Proof. unfold logging_mw. destruct (hr_end h); reflexivity. Qed.

Lemma make_record_fields hp hsp q c w rh :
  let r := make_record hp hsp q c w rh in
  r_host r = rq_host q /\ r_path r = rq_path q /\ r_query r = rq_query q /\ r_method r = rq_method q /\
  r_request_id r = hget K_rid (rq_headers q) /\
  r_status r = lw_status w /\ r_resp_content_length r = lw_bytes w /\
  r_service r = lc_service c /\ r_target r = lc_target c /\
  r_port r = (if rq_tls q then hsp else hp) /\
  r_scheme r = (if rq_tls q then bs "https" else bs "http") /\
  r_proto r = rq_proto q /\ r_req_content_length r = rq_content_length q /\
  r_extra r = custom_attrs (lc_req_headers c) (rq_headers q) (bs "req") ++
              custom_attrs (lc_resp_headers c) rh (bs "resp").
Proof.
  cbv zeta. unfold make_record. destruct (split_remote (rq_remote_addr q)) as [ca cp].
  cbn. repeat split; reflexivity.
Qed.

(** ** Configured headers *)

Lemma custom_attrs_length names h p : length (custom_attrs names h p) = length names.
Proof. unfold custom_attrs. apply map_length. Qed.

Lemma custom_attrs_nth names h p i n :
  nth_error names i = Some n ->
  nth_error (custom_attrs names h p) i = Some (attr_name p n, join (bs ",") (hvalues n h)).
Proof. intros H. unfold custom_attrs. rewrite nth_error_map, H. reflexivity. Qed.

(** A header received under any spelling is found under the configured
    (canonicalised) name: net/http stores received headers under their
    canonical key. *)
Lemma hvalues_canonical_received (raw : headers) (name : str) :
  hvalues (canonical_key name) (map (fun kv => (canonical_key (fst kv), snd kv)) raw) =
  map snd (filter (fun kv => str_eqb (canonical_key (fst kv)) (canonical_key name)) raw).
Proof.
  unfold hvalues. induction raw as [|[k v] raw IH]; cbn; [reflexivity|].
  destruct (str_eqb (canonical_key k) (canonical_key name)); cbn; rewrite IH; reflexivity.
Qed.

(** ** The chain *)

Lemma error_page_ops custom builtin s :
  flat_map wev_op (fst (error_pages custom builtin (Some s))) =
    match custom with
    | Some c =>
      match lookup s c with
      | Some p => [OpWriteHeader s; OpWrite (lenN p) (lenN p)]
      | None => [OpWriteHeader s; OpWriteHeader s;
                 OpWrite (lenN (builtin_page builtin s)) (lenN (builtin_page builtin s))]
      end
    | None => [OpWriteHeader s; OpWrite (lenN (builtin_page builtin s)) (lenN (builtin_page builtin s))]
    end.
Proof.
  rewrite error_pages_events. destruct custom as [c|]; [destruct (lookup s c)|]; reflexivity.
Qed.

Lemma error_page_ops_status custom builtin s :
  informational s = false ->
  let ops := flat_map wev_op (fst (error_pages custom builtin (Some s))) in
  lw_status (lw_run ops) = s /\ client_status ops = s /\
  lw_bytes (lw_run ops) = lenN (page_for custom builtin s).
Proof.
  intros Hi. cbv zeta. rewrite error_page_ops. unfold page_for.
  destruct custom as [c|]; [destruct (lookup s c)|]; cbn [client_status]; rewrite ?Hi;
    rewrite lw_run_bytes; cbn; repeat split; lia.
Qed.

Lemma informational_is s : is_informational s = informational s.
Proof.
  unfold is_informational, informational.
  destruct (100 <=? s) eqn:E1, (s <=? 199) eqn:E2, (s <? 200) eqn:E3, (s =? 101) eqn:E4; cbn; try reflexivity; lia.
Qed.

(** The buffer part shared by the lemmas below: one body write into a fresh
    buffer whose writer already holds the (final) status [s], then Send. *)
Lemma resp_mw_body maxm maxb s body pre :
  let w0 := mkRw (new_buf maxb maxm) s true false false pre in
  let w := rw_step w0 (HWrite body) in
  let '(w1, ok) := rw_send w in
  rev (if ok then rout w1 else CError500 :: rout w1) =
    rev pre ++ (if body_too_large maxb body then [CError500]
                else CWriteHeader s :: match body with [] => [] | _ => [CWrite body] end).
Proof.
  cbv zeta. cbn [rw_step rbypass rbuf rstatus rheader_written rhijacked rout].
  pose proof (write_spec (new_buf maxb maxm) [] body (wf_new maxb maxm)) as Hw.
  unfold would_overflow in Hw. cbn [max_bytes new_buf] in Hw.
  replace (lenN (@nil byte) + lenN body) with (lenN body) in Hw by (unfold lenN; cbn; lia).
  unfold body_too_large.
  destruct ((0 <? maxb) && (maxb <? lenN body)) eqn:Eo.
  - rewrite Hw. unfold rw_send. cbn. reflexivity.
  - destruct Hw as (b' & Hw & Hwf & _ & _ & Hov). rewrite Hw.
    unfold rw_send. cbn [rbuf rhijacked rheader_written rstatus rout rbypass].
    rewrite Hov. cbn [overflowed new_buf].
    destruct Hwf as (Hr & Hc & Hd & Hl & Hs).
    pose proof (wf_contents b' ([] ++ body) (conj Hr (conj Hc (conj Hd (conj Hl Hs))))) as Hcont.
    unfold send. rewrite Hd, Hcont. cbn [app].
    destruct body; cbn [rout rev]; rewrite <- ?app_assoc; reflexivity.
Qed.

(** The response-buffer middleware around one final header and one body write. *)
Lemma resp_mw_one maxm maxb s body :
  informational s = false ->
  fst (resp_mw maxm maxb [HWriteHeader s false; HWrite body]) =
    if body_too_large maxb body then [CError500]
    else CWriteHeader s :: match body with [] => [] | _ => [CWrite body] end.
Proof.
  intros Hi. rewrite <- informational_is in Hi.
  unfold resp_mw. cbn [fold_left]. unfold new_rw.
  unfold rw_step at 2. rewrite Hi. cbn [rheader_written rbuf rhijacked rbypass rout].
  pose proof (resp_mw_body maxm maxb s body []) as H. cbv zeta in H.
  destruct (rw_send _) as [w1 ok]. cbn [fst]. rewrite H. reflexivity.
Qed.

(** Repaired code (59cbdb7): an informational header ahead of the final one is
    passed straight on and the final status is kept. *)
Lemma resp_mw_hints maxm maxb s body :
  informational s = false ->
  fst (resp_mw maxm maxb [HWriteHeader 103 false; HWriteHeader s false; HWrite body]) =
    CWriteHeader 103 ::
    (if body_too_large maxb body then [CError500]
     else CWriteHeader s :: match body with [] => [] | _ => [CWrite body] end).
Proof.
  intros Hi. rewrite <- informational_is in Hi.
  unfold resp_mw. cbn [fold_left]. unfold new_rw.
  unfold rw_step at 3. cbn [is_informational N.leb N.eqb andb negb].
  replace (is_informational 103) with true by reflexivity.
  cbn [rbuf rstatus rheader_written rhijacked rbypass rout].
  unfold rw_step at 2. rewrite Hi. cbn [rheader_written rbuf rhijacked rbypass rout].
  pose proof (resp_mw_body maxm maxb s body [CWriteHeader 103]) as H. cbv zeta in H.
  destruct (rw_send _) as [w1 ok]. cbn [fst]. rewrite H. reflexivity.
Qed.

(** Pinned code: the first header (103) was taken as the final one. *)
Lemma resp_mw_pinned_hints maxm maxb s body :
  resp_mw_pinned maxm maxb [HWriteHeader 103 false; HWriteHeader s false; HWrite body] =
    if body_too_large maxb body then [CError500]
    else CWriteHeader 103 :: match body with [] => [] | _ => [CWrite body] end.
Proof.
  unfold resp_mw_pinned. cbn [fold_left]. unfold new_rw.
  cbn [rw_step_pinned rheader_written rbuf rhijacked rbypass rout rstatus].
  pose proof (resp_mw_body maxm maxb 103 body []) as H. cbv zeta in H.
  destruct (rw_send _) as [w1 ok]. rewrite H. reflexivity.
Qed.

(** Calls reaching the logging writer for a complete response of the target. *)
Lemma serve_respond_ops c s body :
  informational s = false ->
  flat_map wev_op (o_events (serve c (TBRespond s body))) =
    if c_buffer_resp c then
      if body_too_large (c_max_resp c) body then [OpWriteHeader 500; OpWrite 22 22]
      else OpWriteHeader s :: match body with [] => [] | _ => [OpWrite (lenN body) (lenN body)] end
    else [OpWriteHeader s; OpWrite (lenN body) (lenN body)].
Proof.
  intros Hi.
  unfold serve, reverse_proxy, target_events. cbn [panics proxy_hops proxy_slot].
  rewrite error_pages_none, app_nil_r. cbn [o_events].
  destruct (c_buffer_resp c); [|reflexivity]. cbn [negb].
  rewrite resp_mw_one by exact Hi. destruct (body_too_large (c_max_resp c) body); [reflexivity|].
  destruct body; reflexivity.
Qed.

(** The status the chain is meant to produce, per ending. *)
Definition ending_status (c : chain_cfg) (e : ending) : N :=
  match e with
  | ENoRoute => 404 | ERedirect => 301 | ETlsRefused => 503 | EHealthWhilePaused => 200
  | EPausedOut => 504 | EStopped => 503 | ENoTarget => 503
  | EProxied _ (TBRespond s body) =>
    if c_buffer_resp c && body_too_large (c_max_resp c) body then 500 else s
  | EProxied _ (TBFailBefore f) => classify f
  | EProxied _ (TBFailAfter s _ _) => if c_buffer_resp c then 200 else s
  | EProxiedHints _ s body =>
    if c_buffer_resp c && body_too_large (c_max_resp c) body then 500 else s
  | EReqTooLarge _ => 413 | EReqReadError _ => 500 | EUpgraded _ => 101
  end.

Definition final_status (s : N) : Prop := informational s = false.

Lemma classify_final f : final_status (classify f).
Proof.
  unfold final_status. destruct (classify_info_range (info_of f)) as [H|[H|[H|H]]];
    unfold classify; rewrite H; reflexivity.
Qed.

Lemma chain_ctx svc c rl e :
  let '(ctx, _, _) := chain svc c rl e in
  lc_service ctx = used_service svc e /\ lc_target ctx = used_target e.
Proof. destruct e; cbn; split; reflexivity. Qed.

Lemma chain_header_lists svc c rl t e :
  (e = EReqTooLarge t \/ e = EReqReadError t \/ e = EUpgraded t \/ (exists b, e = EProxied t b) \/
   (exists s body, e = EProxiedHints t s body)) ->
  let '(ctx, _, _) := chain svc c rl e in
  lc_req_headers ctx = canonicalize_names (ti_log_req t) /\
  lc_resp_headers ctx = canonicalize_names (ti_log_resp t).
Proof.
  intros [->|[->|[->|[[b ->]|(s & body & ->)]]]]; cbn; split; reflexivity.
Qed.

Lemma chain_status svc c rl e :
  (forall t s body, e = EProxied t (TBRespond s body) -> final_status s) ->
  (forall t s sent f, e = EProxied t (TBFailAfter s sent f) -> final_status s) ->
  (forall t s body, e = EProxiedHints t s body -> final_status s) ->
  let '(_, ops, _) := chain svc c rl e in
  lw_status (lw_run ops) = ending_status c e /\
  (* unless the handler was aborted before anything was passed on, this is what the client is told *)
  ((forall t s sent f, e <> EProxied t (TBFailAfter s sent f)) -> client_status ops = ending_status c e).
Proof.
  intros Hs Ha Hh.
  destruct e as [ | | | | | | | t b | t s0 body0 | t | t | t ]; cbn [chain ending_status].
  - destruct (error_page_ops_status None (c_builtin c) 404 eq_refl) as (H1 & H2 & _). auto.
  - destruct (rl =? 0); cbn; auto.
  - destruct (error_page_ops_status (c_custom c) (c_builtin c) 503 eq_refl) as (H1 & H2 & _). auto.
  - cbn. auto.
  - destruct (error_page_ops_status (c_custom c) (c_builtin c) 504 eq_refl) as (H1 & H2 & _). auto.
  - destruct (error_page_ops_status (c_custom c) (c_builtin c) 503 eq_refl) as (H1 & H2 & _). auto.
  - destruct (error_page_ops_status (c_custom c) (c_builtin c) 503 eq_refl) as (H1 & H2 & _). auto.
  - destruct b as [s body | f | s sent f].
    + specialize (Hs t s body eq_refl). unfold final_status in Hs.
      rewrite serve_respond_ops by exact Hs.
      destruct (c_buffer_resp c); cbn [andb].
      * destruct (body_too_large (c_max_resp c) body); [cbn; auto|].
        destruct body; cbn [client_status]; rewrite Hs; cbn; auto.
      * cbn [client_status]. rewrite Hs. cbn. auto.
    + rewrite serve_fail_before. pose proof (classify_final f) as Hf. unfold final_status in Hf.
      destruct (classify f =? 499) eqn:E.
      * apply N.eqb_eq in E. rewrite E. cbn. auto.
      * cbn [o_events].
        destruct (error_page_ops_status (c_custom c) (c_builtin c) (classify f) Hf) as (H1 & H2 & _). auto.
    + specialize (Ha t s sent f eq_refl). unfold final_status in Ha.
      rewrite serve_fail_after. cbn [o_events].
      split; [|intros Hne; exfalso; exact (Hne t s sent f eq_refl)].
      destruct (c_buffer_resp c); reflexivity.
  - pose proof (Hh t s0 body0 eq_refl) as Hf. unfold final_status in Hf.
    destruct (c_buffer_resp c); cbn [andb].
    + rewrite resp_mw_hints by exact Hf.
      destruct (body_too_large (c_max_resp c) body0).
      * cbn. auto.
      * destruct body0; cbn [flat_map cev_wev wev_op app client_status]; cbn [informational];
          rewrite ?Hf; rewrite lw_run_status; cbn; auto.
    + cbn [flat_map hop_wev wev_op app client_status]. cbn [informational]. rewrite Hf.
      rewrite lw_run_status. cbn. auto.
  - cbn. auto.
  - cbn. auto.
  - cbn. auto.
Qed.

(** Under the PINNED buffered writer the final status of a response preceded
    by an informational one was lost: the record said 103, the client was told
    200 (net/http's implicit header before the first body byte) — whatever the
    target's status was. *)
Lemma buffered_hints_pinned maxm maxb s body :
  body_too_large maxb body = false -> body <> [] ->
  let ops := hints_ops_pinned maxm maxb s body in
  lw_status (lw_run ops) = 103 /\ client_status ops = 200.
Proof.
  intros Hl Hne. cbv zeta. unfold hints_ops_pinned. rewrite resp_mw_pinned_hints, Hl.
  destruct body as [|x body]; [congruence|]. cbn. auto.
Qed.

Lemma chain_panic_iff svc c rl e :
  let '(_, _, en) := chain svc c rl e in
  en = HPanic <-> exists t s sent f, e = EProxied t (TBFailAfter s sent f).
Proof.
  destruct e as [ | | | | | | | t b | t s0 body0 | t | t | t ]; cbn [chain];
    try (split; [discriminate|intros (t' & s & sent & f & H); discriminate]).
  destruct b as [s body | f | s sent f].
  - unfold serve, reverse_proxy. cbn [panics o_aborted].
    split; [discriminate|intros (t' & s' & sent & f & H); discriminate].
  - unfold serve, reverse_proxy. cbn [panics o_aborted].
    split; [discriminate|intros (t' & s' & sent & f' & H); discriminate].
  - rewrite serve_fail_after. cbn [o_aborted].
    split; [intros _; eauto|reflexivity].
Qed.
