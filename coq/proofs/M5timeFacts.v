(** M5timeFacts.v — invariants of the timing view (model/M5time.v) and the
    lemmas behind the theorems of props/C17.v. *)
From Coq Require Import ZifyN ZifyNat ZifyBool.
From KP Require Import model.Base model.Trace model.M5time.
Local Open Scope N_scope.

(** ** Association lists *)

Lemma nget_nset {A} (l : list (nat * A)) k v k' :
  nget (nset l k v) k' = if Nat.eqb k' k then Some v else nget l k'.
Proof.
  induction l as [|[k0 v0] l IH]; cbn [nset nget].
  - destruct (Nat.eqb k' k); reflexivity.
  - destruct (Nat.eqb k k0) eqn:E; cbn [nget].
    + apply Nat.eqb_eq in E; subst k0. destruct (Nat.eqb k' k); reflexivity.
    + destruct (Nat.eqb k' k0) eqn:E2.
      * apply Nat.eqb_eq in E2; subst k0.
        destruct (Nat.eqb k' k) eqn:E3; [|reflexivity].
        apply Nat.eqb_eq in E3; subst k'. rewrite Nat.eqb_refl in E; discriminate.
      * exact IH.
Qed.

Lemma nget_nset_same {A} (l : list (nat * A)) k v : nget (nset l k v) k = Some v.
Proof. rewrite nget_nset, Nat.eqb_refl; reflexivity. Qed.

Lemma nget_nset_other {A} (l : list (nat * A)) k v k' : k' <> k -> nget (nset l k v) k' = nget l k'.
Proof. intros H; rewrite nget_nset. destruct (Nat.eqb k' k) eqn:E; [apply Nat.eqb_eq in E; contradiction|reflexivity]. Qed.

Lemma nget_map_snd {A} (f : nat -> A -> A) (l : list (nat * A)) k :
  nget (map (fun p => (fst p, f (fst p) (snd p))) l) k =
  match nget l k with Some v => Some (f k v) | None => None end.
Proof.
  induction l as [|[k0 v0] l IH]; cbn [map nget fst snd]; [reflexivity|].
  destruct (Nat.eqb k k0) eqn:E; [apply Nat.eqb_eq in E; subst; reflexivity|exact IH].
Qed.

Lemma nget_In {A} (l : list (nat * A)) k v : nget l k = Some v -> In (k, v) l.
Proof.
  induction l as [|[k0 v0] l IH]; cbn [nget]; [discriminate|].
  destruct (Nat.eqb k k0) eqn:E.
  - apply Nat.eqb_eq in E; subst. intros H; injection H as ->. left; reflexivity.
  - intros H; right; exact (IH H).
Qed.

(** invariants over all entries of a heap *)
Definition all {A} (P : A -> Prop) (l : list (nat * A)) : Prop := Forall (fun p => P (snd p)) l.

Lemma all_nget {A} (P : A -> Prop) l k v : all P l -> nget l k = Some v -> P v.
Proof.
  intros H Hg. apply nget_In in Hg. unfold all in H. rewrite Forall_forall in H. exact (H _ Hg).
Qed.

Lemma all_nset {A} (P : A -> Prop) l k v : all P l -> P v -> all P (nset l k v).
Proof.
  unfold all. induction l as [|[k0 v0] l IH]; cbn [nset]; intros H Hv.
  - constructor; [exact Hv|constructor].
  - inversion H as [|? ? H0 Hl]; subst. destruct (Nat.eqb k k0).
    + constructor; [exact Hv|exact Hl].
    + constructor; [exact H0|exact (IH Hl Hv)].
Qed.

Lemma all_ndel {A} (P : A -> Prop) l k : all P l -> all P (ndel l k).
Proof.
  unfold all. induction l as [|[k0 v0] l IH]; cbn [ndel]; intros H; [constructor|].
  inversion H as [|? ? H0 Hl]; subst. destruct (Nat.eqb k k0); [exact Hl|constructor; [exact H0|exact (IH Hl)]].
Qed.

Lemma all_map {A} (P : A -> Prop) (f : nat * A -> nat * A) l :
  (forall p, P (snd p) -> P (snd (f p))) -> all P l -> all P (map f l).
Proof.
  unfold all. intros Hf H. induction H as [|p l Hp Hl IH]; cbn [map]; constructor; [exact (Hf _ Hp)|exact IH].
Qed.

Lemma all_nil {A} (P : A -> Prop) : all P [].
Proof. constructor. Qed.

Lemma all_impl {A} (P Q : A -> Prop) l : (forall v, P v -> Q v) -> all P l -> all Q l.
Proof. unfold all. intros H Hl. eapply Forall_impl; [|exact Hl]. intros p; apply H. Qed.

(** ** run *)

Lemma run_app {St} (step : St -> event -> option St) s a b :
  run step s (a ++ b) = match run step s a with Some s' => run step s' b | None => None end.
Proof.
  revert s; induction a as [|e a IH]; intros s; cbn [app run]; [reflexivity|].
  destruct (step s e); [apply IH|reflexivity].
Qed.

Lemma run_inv {St} (step : St -> event -> option St) (P : St -> Prop) :
  (forall s e s', P s -> step s e = Some s' -> P s') ->
  forall tr s s', P s -> run step s tr = Some s' -> P s'.
Proof.
  intros Hstep tr; induction tr as [|e tr IH]; intros s s' Hs; cbn [run].
  - intros H; injection H as <-; exact Hs.
  - destruct (step s e) as [s1|] eqn:E; [|discriminate]. apply IH. exact (Hstep _ _ _ Hs E).
Qed.

(** ** The timing invariant *)

Definition alt_le (cm : cmd) (b : N) : Prop := forall a, c_alt cm = Some a -> a <= b.

Definition cmd_inv (cm : cmd) : Prop :=
  match c_phase cm with
  | PNew | PStart => c_last cm = c_issue cm /\ c_alt cm = None
  | PLb _ => is_deploy (c_kind cm) = true /\ c_last cm = c_issue cm /\ c_alt cm = None
  | PWait _ arm => is_deploy (c_kind cm) = true /\ arm = c_issue cm /\ c_last cm <= c_issue cm + c_dt cm /\ c_alt cm = None
  | PFailing _ | PFailed | PWaited _ | PSlot _ _ | PConflict _ | PConflictDone =>
    is_deploy (c_kind cm) = true /\ c_last cm <= c_issue cm + c_dt cm /\ c_alt cm = None
  | PInstalled None =>
    is_deploy (c_kind cm) = true /\ c_last cm <= c_issue cm + c_dt cm /\ c_alt cm = None
  | PInstalled (Some _) =>
    is_deploy (c_kind cm) = true /\ c_tc cm <= c_issue cm + c_dt cm /\
    c_last cm <= c_tc cm + c_drt cm /\ alt_le cm (c_tc cm + c_drt cm)
  | PDone => is_deploy (c_kind cm) = true /\ c_last cm <= c_issue cm + c_dt cm + c_drt cm /\ c_alt cm = None
  | PGate => is_pause_stop (c_kind cm) = true /\ c_tc cm = c_issue cm /\
             c_last cm <= c_tc cm + c_drt cm /\ alt_le cm (c_tc cm + c_drt cm)
  | PAfter => is_pause_stop (c_kind cm) = true /\ c_last cm <= c_issue cm + c_drt cm /\ c_alt cm = None
  | PReturned => True
  end.

Definition drain_inv (d : drain) : Prop :=
  forall ct, d_cancel d = Some ct -> ct <= d_mark d + d_timeout d.

Definition tinv (s : state) : Prop :=
  parks s = false -> all cmd_inv (cmds s) /\ all drain_inv (drains s).

Lemma tinv_init : tinv init.
Proof. intros _; split; apply all_nil. Qed.

Lemma own_time_cases st cm now :
  own_time_ok st cm now = true -> parks st = false -> now = c_last cm \/ c_alt cm = Some now.
Proof.
  unfold own_time_ok, opt_N_eqb. intros H Hp. rewrite Hp in H. cbn [orb] in H.
  destruct (now =? c_last cm) eqn:E; [left; apply N.eqb_eq; exact E|].
  cbn [orb] in H. destruct (c_alt cm) as [a|]; [|discriminate].
  right. apply N.eqb_eq in H. subst; reflexivity.
Qed.

Lemma tinv_put st st1 c cm' :
  tinv st -> cmds st1 = cmds st -> drains st1 = drains st -> parks st1 = parks st ->
  (parks st = false -> cmd_inv cm') -> tinv (put st1 c cm').
Proof.
  intros H Hc Hd Hp Hcm Hpk. unfold put in *. cbn in Hpk |- *. rewrite Hp in Hpk.
  destruct (H Hpk) as [H1 H2]. split.
  - rewrite Hc. apply all_nset; [exact H1|exact (Hcm Hpk)].
  - rewrite Hd. exact H2.
Qed.

Lemma tinv_same st st1 :
  tinv st -> cmds st1 = cmds st -> drains st1 = drains st -> parks st1 = parks st -> tinv st1.
Proof. intros H Hc Hd Hp Hpk. rewrite Hp in Hpk. rewrite Hc, Hd. exact (H Hpk). Qed.

Lemma new_lb_frame st lb ts o st1 :
  new_lb st lb ts o = Some st1 -> cmds st1 = cmds st /\ drains st1 = drains st /\ parks st1 = parks st /\ clock st1 = clock st.
Proof.
  unfold new_lb. destruct (nget (lbs st) lb); [discriminate|].
  destruct (existsb _ ts); [discriminate|]. intros H; injection H as <-. cbn. repeat split.
Qed.

Lemma set_probing_frame st t b :
  cmds (set_probing st t b) = cmds st /\ drains (set_probing st t b) = drains st /\ parks (set_probing st t b) = parks st.
Proof. unfold set_probing. destruct (nget (tgts st) t); cbn; repeat split. Qed.

Lemma mark_disposed_frame st lb :
  cmds (mark_disposed st lb) = cmds st /\ drains (mark_disposed st lb) = drains st /\ parks (mark_disposed st lb) = parks st.
Proof. unfold mark_disposed. destruct (nget (lbs st) lb); cbn; repeat split. Qed.

(** own steps *)

Lemma tc_ok_inst st cm k now old :
  tc_ok st cm k now = true -> c_phase cm = PInstalled (Some old) -> parks st = false ->
  (forall lb, k <> KLbDispose lb) -> now = c_tc cm.
Proof.
  unfold tc_ok. intros H Hph Hp Hk. rewrite Hph, Hp in H. cbn [orb] in H.
  destruct k; try (apply N.eqb_eq; exact H). exfalso; eapply Hk; reflexivity.
Qed.

Ltac inv_some :=
  match goal with
  | |- None = Some _ -> _ => discriminate
  | |- Some _ = Some _ -> _ => let H := fresh in intros H; injection H as <-
  end.

Ltac frame3 :=
  first [ reflexivity
        | apply (proj1 (set_probing_frame _ _ _)) | apply (proj1 (proj2 (set_probing_frame _ _ _)))
        | apply (proj2 (proj2 (set_probing_frame _ _ _)))
        | apply (proj1 (mark_disposed_frame _ _)) | apply (proj1 (proj2 (mark_disposed_frame _ _)))
        | apply (proj2 (proj2 (mark_disposed_frame _ _))) ].

Ltac cmd_goal2 Hcm Hot Hph Htc Hk :=
  let Hp := fresh "Hp" in
  intros Hp; specialize (Hcm Hp); specialize (Hot Hp);
  try match type of Hph with
      | c_phase _ = PInstalled ?r => destruct r
      end;
  try match type of Hph with
      | c_phase _ = PInstalled (Some _) =>
        let Hn := fresh "Hn" in
        assert (Hn := tc_ok_inst _ _ _ _ _ Htc Hph Hp); try (specialize (Hn ltac:(intros ?; discriminate)))
      end;
  unfold cmd_inv in Hcm |- *; rewrite Hph in Hcm;
  unfold alt_le in *;
  cbn [stepped set_pending set_disp set_new set_repl set_last set_alt c_phase c_kind c_issue c_dt c_drt c_last c_alt c_tc] in *;
  repeat match goal with
         | H : _ /\ _ |- _ => destruct H
         end;
  repeat match goal with
         | H : _ \/ _ |- _ => destruct H
         end;
  repeat match goal with
         | H : c_alt _ = None, H' : c_alt _ = Some _ |- _ => rewrite H in H'; discriminate
         | Ha : (forall a, c_alt _ = Some a -> _), Hb : c_alt _ = Some _ |- _ => pose proof (Ha _ Hb); clear Ha
         end;
  repeat match goal with
         | |- context [if ?b then _ else _] => destruct b
         | |- context [match ?b with Some _ => _ | None => _ end] => destruct b
         end;
  cbn [c_phase];
  repeat split; try assumption; try reflexivity; try lia;
  try (intros ? ?; discriminate).

Lemma own_step_tinv p st c cm e s' :
  tinv st -> nget (cmds st) c = Some cm -> own_step p st c cm e = Some s' -> tinv s'.
Proof.
  intros Hinv Hc. unfold own_step.
  destruct (own_time_ok st cm (e_t e)) eqn:Hot0; cbn [negb]; [|discriminate].
  assert (Hcm : parks st = false -> cmd_inv cm).
  { intros Hp. exact (all_nget _ _ _ _ (proj1 (Hinv Hp)) Hc). }
  assert (Hot : parks st = false -> e_t e = c_last cm \/ c_alt cm = Some (e_t e)).
  { intros Hp. exact (own_time_cases _ _ _ Hot0 Hp). }
  clear Hot0.
  destruct (e_k e) eqn:Hk.
  all: try (inv_some; eapply tinv_same; [exact Hinv|frame3..]).
  all: destruct (disp_ok st cm); cbn [negb]; [|discriminate].
  all: destruct (tc_ok st cm _ (e_t e)) eqn:Htc; cbn [negb]; [|discriminate].
  all: destruct (is_gate (c_phase cm) && negb (cont_ok st c cm)); [discriminate|].
  all: cbv zeta.
  all: destruct (c_phase cm) eqn:Hph; cbn [is_gate].
  all: repeat match goal with
              | |- (match ?x with _ => _ end) = Some _ -> _ => destruct x eqn:?
              | |- (if ?x then _ else _) = Some _ -> _ => destruct x eqn:?
              end.
  all: try (inv_some; fail).
  all: inv_some.
  all: try (eapply tinv_put; [exact Hinv|frame3..|]; [cmd_goal2 Hcm Hot Hph Htc Hk]; fail).
  destruct (new_lb_frame _ _ _ _ _ Heqo) as (F1 & F2 & F3 & _).
  eapply tinv_put; [exact Hinv|assumption..|]. cmd_goal2 Hcm Hot Hph Htc Hk.
Qed.
