(** PauseFacts.v — the pause/stop state of model/Seq.v (property C08):
    what a stopped service answers, which commands touch the pause state,
    what stop and resume establish. *)
From KP Require Import model.Base model.ServiceMap model.Seq proofs.ServiceMapFacts.

(** * Lookups in service lists *)

Lemma svc_get_app a b n :
  svc_get (a ++ b) n = match svc_get a n with Some s => Some s | None => svc_get b n end.
Proof.
  induction a as [|x a IH]; [reflexivity|]. cbn. destruct (str_eqb (s_name x) n); [reflexivity|exact IH].
Qed.

Lemma svc_get_remove_same svcs n : svc_get (svc_remove svcs n) n = None.
Proof.
  induction svcs as [|x r IH]; [reflexivity|]. cbn.
  destruct (str_eqb (s_name x) n) eqn:E; [exact IH|]. cbn. now rewrite E.
Qed.

Lemma svc_get_remove_other svcs name n : n <> name -> svc_get (svc_remove svcs name) n = svc_get svcs n.
Proof.
  intros Hn. induction svcs as [|x r IH]; [reflexivity|]. cbn.
  destruct (str_eqb (s_name x) name) eqn:E.
  - apply str_eqb_eq in E. destruct (str_eqb (s_name x) n) eqn:E2.
    + apply str_eqb_eq in E2. congruence.
    + exact IH.
  - cbn. destruct (str_eqb (s_name x) n); [reflexivity|exact IH].
Qed.

Lemma svc_get_map (f : service -> service) svcs n :
  (forall s, s_name (f s) = s_name s) ->
  svc_get (map f svcs) n = option_map f (svc_get svcs n).
Proof.
  intros Hf. induction svcs as [|x r IH]; [reflexivity|]. cbn. rewrite Hf.
  destruct (str_eqb (s_name x) n); [reflexivity|exact IH].
Qed.

Lemma svc_get_name svcs n s : svc_get svcs n = Some s -> s_name s = n.
Proof. intros H. now apply svc_get_some in H. Qed.

(** svc_set: the named entry is the new service, the others are untouched. *)
Lemma svc_get_set svcs s n :
  svc_get (svc_set svcs s) n = if str_eqb n (s_name s) then Some s else svc_get svcs n.
Proof.
  unfold svc_set. rewrite svc_get_app.
  destruct (str_eqb n (s_name s)) eqn:E.
  - apply str_eqb_eq in E. subst n. rewrite svc_get_remove_same. cbn. now rewrite str_eqb_refl.
  - apply str_eqb_neq in E. rewrite svc_get_remove_other by exact E.
    destruct (svc_get svcs n); [reflexivity|]. cbn.
    destruct (str_eqb (s_name s) n) eqn:E2; [|reflexivity].
    apply str_eqb_eq in E2. congruence.
Qed.

(** replace_svc: every entry of that name becomes the new service. *)
Lemma svc_get_replace_k svcs k s n : s_name s = k ->
  svc_get (map (fun x => if str_eqb (s_name x) k then s else x) svcs) n =
  if str_eqb n k then match svc_get svcs n with Some _ => Some s | None => None end
  else svc_get svcs n.
Proof.
  intros Hk. induction svcs as [|x r IH]; [cbn; now destruct (str_eqb n k)|].
  cbn [map svc_get].
  destruct (str_eqb (s_name x) k) eqn:E1.
  - apply str_eqb_eq in E1. rewrite E1, Hk.
    destruct (str_eqb k n) eqn:E2.
    + apply str_eqb_eq in E2. subst n. now rewrite str_eqb_refl.
    + rewrite IH. reflexivity.
  - destruct (str_eqb (s_name x) n) eqn:E2.
    + apply str_eqb_eq in E2. subst n. now rewrite E1.
    + exact IH.
Qed.

(** * sync_tls as a map *)

Definition sync_fun (svcs : list service) (s : service) : service :=
  if serves_root s then s else
  let host := match o_hosts (s_opts s) with h :: _ => h | [] => [] end in
  let '(tls, redir) :=
    match service_for (table_of svcs) host root_path with
    | Some (n, _) => match svc_get svcs n with
                     | Some r => (o_tls (s_opts r), o_tls_redirect (s_opts r))
                     | None => (false, true)
                     end
    | None => (false, true)
    end in
  mkSvc (s_name s) (set_tls (s_opts s) tls redir) (s_topts s) (s_active s) (s_rollout s)
        (s_pause s) (s_roll s) (s_has_cert s).

Lemma sync_tls_map svcs : sync_tls svcs = map (sync_fun svcs) svcs.
Proof. reflexivity. Qed.

(** What sync leaves alone: everything but the two TLS flags. *)
Lemma sync_fun_keeps svcs s :
  let s' := sync_fun svcs s in
  s_name s' = s_name s /\ s_pause s' = s_pause s /\ s_topts s' = s_topts s /\
  s_active s' = s_active s /\ s_rollout s' = s_rollout s /\ s_roll s' = s_roll s /\
  s_has_cert s' = s_has_cert s /\
  o_hosts (s_opts s') = o_hosts (s_opts s) /\ o_prefixes (s_opts s') = o_prefixes (s_opts s) /\
  o_cert (s_opts s') = o_cert (s_opts s) /\ o_pages (s_opts s') = o_pages (s_opts s) /\
  o_strip (s_opts s') = o_strip (s_opts s).
Proof.
  cbv zeta. unfold sync_fun. destruct (serves_root s); [repeat split|].
  match goal with |- context [let '(a, b) := ?X in _] => destruct X as [tls redir] end.
  repeat split.
Qed.

Lemma sync_fun_name svcs s : s_name (sync_fun svcs s) = s_name s.
Proof. apply sync_fun_keeps. Qed.

Lemma svc_get_sync svcs n :
  svc_get (sync_tls svcs) n = option_map (sync_fun svcs) (svc_get svcs n).
Proof. rewrite sync_tls_map. apply svc_get_map. apply sync_fun_name. Qed.

(** * deploy_into, with what it keeps of the service *)

Lemma deploy_into_services v st s slot targets :
  let r := deploy_into v st s slot targets in
  st_services (snd r) = st_services st \/
  exists s', st_services (snd r) = install (st_services st) s' /\
             s_name s' = s_name s /\ s_pause s' = s_pause s /\ s_opts s' = s_opts s /\
             s_has_cert s' = s_has_cert s /\ s_topts s' = s_topts s.
Proof.
  cbv zeta. unfold deploy_into.
  destruct (forallb valid_target_name (map tg_name targets)); cbn [negb]; [|now left].
  destruct (forallb tg_healthy targets); cbn [negb]; [|now left].
  destruct (conflicts _ _ _ _); [now left|]. right.
  eexists. split; [reflexivity|]. destruct slot; repeat split.
Qed.

(** * C08: a stopped service *)

(** The answer to a request routed to a stopped service, in ANY state. *)
Lemma serve_stopped ig st q n prefix s :
  route (table_of (st_services st)) (q_host q) (q_path q) = Some (n, prefix) ->
  svc_get (st_services st) n = Some s ->
  p_state (s_pause s) = Stopped ->
  serve ig st q =
    if o_tls (s_opts s) && o_tls_redirect (s_opts s) && negb (q_tls q)
    then R301 (https_prefix ++ redirect_host (q_host q) ++ q_uri q)
    else if negb (o_tls (s_opts s)) && q_tls q then R503_tls
    else if q_get q && str_eqb (q_path q) (t_health_path (s_topts s)) then R200_health
    else R503_stopped (p_msg (s_pause s)).
Proof.
  intros Hr Hg Hp. unfold serve. rewrite Hr, Hg, Hp. reflexivity.
Qed.

Lemma serve_stopped_not_forwarded ig st q n prefix s :
  route (table_of (st_services st)) (q_host q) (q_path q) = Some (n, prefix) ->
  svc_get (st_services st) n = Some s ->
  p_state (s_pause s) = Stopped ->
  forall svc ts strip, serve ig st q <> RForward svc ts strip.
Proof.
  intros Hr Hg Hp svc ts strip. rewrite (serve_stopped ig st q n prefix s Hr Hg Hp).
  repeat match goal with |- context[if ?c then _ else _] => destruct c end; discriminate.
Qed.

(** * C08: redeploys keep the pause controller *)

Definition is_redeploy (c : cmd) : bool :=
  match c with
  | Deploy _ _ _ _ | RolloutDeploy _ _ | RolloutSet _ _ _ | RolloutStop _ => true
  | _ => false
  end.

Lemma install_keeps_pause svcs s' n s :
  svc_get svcs n = Some s ->
  (forall old, svc_get svcs (s_name s') = Some old -> s_pause s' = s_pause old) ->
  exists s2, svc_get (install svcs s') n = Some s2 /\ s_pause s2 = s_pause s.
Proof.
  intros Hg Hsame. unfold install. rewrite svc_get_sync, svc_get_set.
  destruct (str_eqb n (s_name s')) eqn:E.
  - apply str_eqb_eq in E. subst n. cbn. eexists. split; [reflexivity|].
    destruct (sync_fun_keeps (svc_set svcs s') s') as (_ & Hp & _). cbv zeta in Hp.
    rewrite Hp. now apply Hsame.
  - rewrite Hg. cbn. eexists. split; [reflexivity|].
    destruct (sync_fun_keeps (svc_set svcs s') s) as (_ & Hp & _). exact Hp.
Qed.

Lemma redeploy_keeps_pause v st c n s :
  is_redeploy c = true ->
  svc_get (st_services st) n = Some s ->
  exists s', svc_get (st_services (snd (exec v st c))) n = Some s' /\ s_pause s' = s_pause s.
Proof.
  intros Hc Hg. destruct c; try discriminate; cbn [exec].
  - (* Deploy *)
    destruct (init_check v (normalize o)); [cbn; eauto|].
    match goal with |- context[deploy_into v st ?S false targets] => set (sv := S) end.
    destruct (deploy_into_services v st sv false targets) as [E|(s' & E & Hn & Hp & _)]; cbv zeta in *.
    + rewrite E. eauto.
    + rewrite E. apply install_keeps_pause; [exact Hg|].
      intros old Ho. rewrite Hp. unfold sv in *.
      assert (Hname : s_name s' = name).
      { rewrite Hn. destruct (svc_get (st_services st) name); reflexivity. }
      rewrite Hname in Ho. rewrite Ho. reflexivity.
  - (* RolloutDeploy *)
    destruct (svc_get (st_services st) name) as [sv|] eqn:Es; [|cbn; eauto].
    destruct (deploy_into_services v st sv true targets) as [E|(s' & E & Hn & Hp & _)]; cbv zeta in *.
    + rewrite E. eauto.
    + rewrite E. apply install_keeps_pause; [exact Hg|].
      intros old Ho. rewrite Hp. rewrite Hn, (svc_get_name _ _ _ Es) in Ho. congruence.
  - (* RolloutSet *)
    unfold on_service. destruct (svc_get (st_services st) name) as [sv|] eqn:Es; [|cbn; eauto].
    destruct (s_rollout sv); [|cbn; eauto]. cbn.
    rewrite svc_get_replace_k by reflexivity.
    destruct (str_eqb n (s_name sv)) eqn:E.
    + apply str_eqb_eq in E. rewrite Hg. eexists. split; [reflexivity|]. cbn.
      rewrite (svc_get_name _ _ _ Es) in E. subst n. congruence.
    + eauto.
  - (* RolloutStop *)
    unfold on_service. destruct (svc_get (st_services st) name) as [sv|] eqn:Es; [|cbn; eauto].
    cbn. rewrite svc_get_replace_k by reflexivity.
    destruct (str_eqb n (s_name sv)) eqn:E.
    + apply str_eqb_eq in E. rewrite Hg. eexists. split; [reflexivity|]. cbn.
      rewrite (svc_get_name _ _ _ Es) in E. subst n. congruence.
    + eauto.
Qed.

(** * C08: stop and resume *)

Lemma stop_sets v st n m st' :
  exec v st (Stop n m) = (Ok, st') ->
  exists s', svc_get (st_services st') n = Some s' /\
             p_state (s_pause s') = Stopped /\ p_msg (s_pause s') = m.
Proof.
  cbn [exec]. unfold on_service.
  destruct (svc_get (st_services st) n) as [s|] eqn:Es; [|discriminate].
  unfold set_pause_state.
  match goal with |- context[if ?c then None else _] => destruct c end; [discriminate|].
  intros H. inversion H; subst. cbn. rewrite svc_get_replace_k by reflexivity.
  rewrite (svc_get_name _ _ _ Es), str_eqb_refl, Es. eexists. split; [reflexivity|]. split; reflexivity.
Qed.

Lemma resume_sets v st n st' :
  exec v st (Resume n) = (Ok, st') ->
  exists s s', svc_get (st_services st) n = Some s /\ svc_get (st_services st') n = Some s' /\
             p_state (s_pause s') = Running /\ p_msg (s_pause s') = [] /\
             s_opts s' = s_opts s /\ s_active s' = s_active s /\ s_topts s' = s_topts s /\
             s_rollout s' = s_rollout s /\ s_roll s' = s_roll s.
Proof.
  cbn [exec]. unfold on_service.
  destruct (svc_get (st_services st) n) as [s|] eqn:Es; [|discriminate].
  unfold set_pause_state.
  match goal with |- context[if ?c then None else _] => destruct c end; [discriminate|].
  intros H. inversion H; subst. cbn. rewrite svc_get_replace_k by reflexivity.
  rewrite (svc_get_name _ _ _ Es), str_eqb_refl, Es. exists s. eexists.
  split; [reflexivity|]. split; [reflexivity|]. repeat split.
Qed.

(** The answer to a request routed to a running service, in ANY state. *)
Lemma serve_running ig st q n prefix s :
  route (table_of (st_services st)) (q_host q) (q_path q) = Some (n, prefix) ->
  svc_get (st_services st) n = Some s ->
  p_state (s_pause s) = Running ->
  serve ig st q =
    if o_tls (s_opts s) && o_tls_redirect (s_opts s) && negb (q_tls q)
    then R301 (https_prefix ++ redirect_host (q_host q) ++ q_uri q)
    else if negb (o_tls (s_opts s)) && q_tls q then R503_tls
    else
      let use_rollout :=
        match s_rollout s, s_roll s, q_cookie q with
        | Some _, Some rc, Some c => negb (Nat.eqb (length c) 0) && ig rc c
        | _, _, _ => false
        end in
      let ts := if use_rollout then match s_rollout s with Some x => x | None => [] end else s_active s in
      match ts with
      | [] => R503_no_targets
      | _ => RForward n ts (if o_strip (s_opts s) && negb (str_eqb prefix root_path) then Some prefix else None)
      end.
Proof.
  intros Hr Hg Hp. unfold serve. rewrite Hr, Hg, Hp. reflexivity.
Qed.

(** ... in particular: no cookie, TLS policy satisfied, targets present => forwarded. *)
Lemma serve_running_forward ig st q n prefix s :
  route (table_of (st_services st)) (q_host q) (q_path q) = Some (n, prefix) ->
  svc_get (st_services st) n = Some s ->
  p_state (s_pause s) = Running ->
  q_cookie q = None -> s_active s <> [] ->
  q_tls q = o_tls (s_opts s) ->
  serve ig st q = RForward n (s_active s)
                    (if o_strip (s_opts s) && negb (str_eqb prefix root_path) then Some prefix else None).
Proof.
  intros Hr Hg Hp Hc Ha Ht. rewrite (serve_running ig st q n prefix s Hr Hg Hp). rewrite Hc, Ht.
  destruct (o_tls (s_opts s)); cbn [negb andb]; rewrite ?andb_false_r; cbn [negb andb];
    (destruct (s_rollout s); destruct (s_roll s); cbv zeta; destruct (s_active s); try contradiction; reflexivity).
Qed.
