(** C07SeqFacts.v — the health-check shortcut of a paused / stopped service on
    the sequential machine model/Seq.v. *)
From KP Require Import model.Base model.ServiceMap model.Seq.

(** GET on exactly the health-check path of a service that is not running is
    answered 200 by the proxy itself — after the TLS policy (redirect, refusal)
    has been applied. *)
Lemma serve_health_not_running ig st q n prefix s :
  route (table_of (st_services st)) (q_host q) (q_path q) = Some (n, prefix) ->
  svc_get (st_services st) n = Some s ->
  p_state (s_pause s) <> Running ->
  q_get q = true -> q_path q = t_health_path (s_topts s) ->
  serve ig st q =
    if o_tls (s_opts s) && o_tls_redirect (s_opts s) && negb (q_tls q)
    then R301 (https_prefix ++ redirect_host (q_host q) ++ q_uri q)
    else if negb (o_tls (s_opts s)) && q_tls q then R503_tls
    else R200_health.
Proof.
  intros Hr Hg Hp Hget Hpath. unfold serve. rewrite Hr, Hg, Hget, Hpath.
  assert (E : str_eqb (t_health_path (s_topts s)) (t_health_path (s_topts s)) = true).
  { generalize (t_health_path (s_topts s)). intros l. induction l as [|x l IH]; cbn; [reflexivity|].
    rewrite IH. unfold byte_eqb. now rewrite (Byte.byte_dec_lb (eq_refl x)). }
  rewrite E. cbn [andb]. destruct (p_state (s_pause s)); [contradiction| |]; reflexivity.
Qed.

(** ... and only there: any other request to a paused service is held, to a
    stopped one answered 503 (model/Seq.v has no clock: [RHeld] stands for the
    gate view's story of a parked request). *)
Lemma serve_paused_other ig st q n prefix s :
  route (table_of (st_services st)) (q_host q) (q_path q) = Some (n, prefix) ->
  svc_get (st_services st) n = Some s ->
  p_state (s_pause s) = Paused ->
  q_get q && str_eqb (q_path q) (t_health_path (s_topts s)) = false ->
  serve ig st q =
    if o_tls (s_opts s) && o_tls_redirect (s_opts s) && negb (q_tls q)
    then R301 (https_prefix ++ redirect_host (q_host q) ++ q_uri q)
    else if negb (o_tls (s_opts s)) && q_tls q then R503_tls
    else RHeld (p_fail_after (s_pause s)) (p_chan_nil (s_pause s)).
Proof.
  intros Hr Hg Hp Hh. unfold serve. rewrite Hr, Hg, Hp, Hh. reflexivity.
Qed.
