(** M4Link2.v — Part 2 of the M4 link: the C06 and C11 monitors of
    corr/M4corr.v are true on every history the model produces. *)
From KP Require Import model.Base model.ServiceMap model.Seq corr.M4corr
  proofs.SeqFacts proofs.SeqInv proofs.SeqEquiv proofs.M4Link proofs.M4LinkSort.
From Coq Require Import ZifyN ZifyNat ZifyBool Lia.
Local Open Scope N_scope.

Lemma list_eqb_cons {A} (e : A -> A -> bool) x a y b :
  list_eqb e (x :: a) (y :: b) = e x y && list_eqb e a b.
Proof. reflexivity. Qed.

Lemma snapshot_of_eq st :
  snapshot_of st = option_map (sort_by sn_name) (option_map (map snap_of) (st_disk st)).
Proof. unfold snapshot_of. now destruct (st_disk st). Qed.

Lemma answers_ext ig st1 st2 reqs :
  (forall q, serve ig st1 q = serve ig st2 q) -> answers ig st1 reqs = answers ig st2 reqs.
Proof. intros H. unfold answers. apply map_ext. intros q. now rewrite H. Qed.

Lemma answers_refl ig st reqs :
  list_eqb (fun a b : request * resp_obs => resp_obs_eqb (snd a) (snd b)) (answers ig st reqs) (answers ig st reqs) = true.
Proof. apply list_eqb_refl. intros x. apply resp_obs_eqb_refl. Qed.

(** ** C06 *)

(** A failing command, observed after a state satisfying the invariant. *)
Lemma c06_pair_model ig st c0 r0 c reqs :
  Inv st ->
  c06_pair_ok (state_obs ig st c0 r0 reqs)
              (state_obs ig (snd (exec fixed st c)) c (fst (exec fixed st c)) reqs) = true.
Proof.
  intros HI. unfold c06_pair_ok.
  cbn [so_result so_list so_snapshot so_probed so_requests state_obs].
  destruct (exec fixed st c) as [r st'] eqn:E. cbn [fst snd].
  destruct r as [|e|]; cbn [res_obs_of]; try reflexivity.
  rewrite (exec_err_list _ _ _ _ E).
  rewrite (answers_ext ig st' st) by (intros q; eapply exec_err_serve; eauto).
  rewrite !probed_of_eq, (exec_err_probing _ _ _ _ E).
  rewrite (list_eqb_refl row_eqb row_eqb_refl), probed_eqb_refl, answers_refl, !andb_true_r. cbn [andb].
  destruct (exec_err_disk _ _ _ _ HI E) as [Hd|(Hn & Hs & Hd)]; unfold snapshot_of.
  - rewrite Hd. apply list_eqb_refl, snap_eqb_refl.
  - rewrite Hn, Hd, Hs. reflexivity.
Qed.

Lemma c06_from ig reqs cs : forall st c0 r0,
  Inv st -> c06_ok (Some (state_obs ig st c0 r0 reqs)) (model_history_from ig fixed st cs reqs) = true.
Proof.
  induction cs as [|c cs IH]; intros st c0 r0 HI; [reflexivity|].
  rewrite model_history_cons. cbn [c06_ok].
  rewrite c06_pair_model by exact HI. rewrite IH by (now apply exec_inv). reflexivity.
Qed.

Lemma c06_of_model ig cs reqs : c06_ok None (model_history ig fixed cs reqs) = true.
Proof.
  unfold model_history. destruct cs as [|c cs]; [reflexivity|].
  rewrite model_history_cons. cbn [c06_ok].
  rewrite c06_from by (apply exec_inv, Inv_init). rewrite andb_true_r.
  cbn [so_result so_list so_probed so_snapshot state_obs].
  destruct (exec fixed init_state c) as [r st'] eqn:E. cbn [fst snd].
  destruct r as [|e|]; cbn [res_obs_of]; try reflexivity.
  pose proof (exec_err_services _ _ _ _ E) as Hs. pose proof (exec_err_probing _ _ _ _ E) as Hp.
  pose proof (exec_err_disk _ _ _ _ Inv_init E) as Hd.
  destruct st' as [sv pr dk]. cbn [st_services st_probing st_disk init_state] in Hs, Hp, Hd. subst sv pr.
  destruct Hd as [->|(_ & _ & ->)]; reflexivity.
Qed.

(** ** C11 *)

Lemma groups_compatible_refl l : groups_compatible l l = true.
Proof.
  destruct l as [|p l]; [reflexivity|].
  unfold groups_compatible. cbn [existsb]. now rewrite str_eqb_refl, Bool.eqb_reflx.
Qed.

Lemma step_equiv_refl o : step_equiv o o = true.
Proof.
  unfold step_equiv.
  rewrite res_obs_eqb_refl, (list_eqb_refl row_eqb row_eqb_refl), snapshot_eqb_refl, probed_eqb_refl.
  rewrite (list_eqb_refl (fun x y : request * resp_obs => resp_obs_eqb (snd x) (snd y)))
    by (intros x; apply resp_obs_eqb_refl).
  rewrite list_eqb_refl; [reflexivity|]. intros x. apply groups_compatible_refl.
Qed.

(** Equivalent states are observed alike. *)
Lemma state_obs_equiv ig st1 st2 c r reqs :
  equiv st1 st2 -> state_obs ig st1 c r reqs = state_obs ig st2 c r reqs.
Proof.
  intros He. unfold state_obs.
  rewrite (list_equiv _ _ He).
  rewrite (answers_ext ig st1 st2) by (intros q; now apply serve_equiv).
  rewrite !snapshot_of_eq. destruct He as (_ & Hp & Hd). rewrite Hd.
  now rewrite (probed_of_meq _ _ Hp).
Qed.

Lemma c11_from ig reqs cs : forall st1 st2,
  equiv st1 st2 -> Inv st1 -> Inv st2 ->
  list_eqb step_equiv (model_history_from ig fixed st1 cs reqs) (model_history_from ig fixed st2 cs reqs) = true.
Proof.
  induction cs as [|c cs IH]; intros st1 st2 He H1 H2; [reflexivity|].
  rewrite !model_history_cons, list_eqb_cons.
  destruct (exec_bisim st1 st2 c He H1 H2) as [Hr Hs].
  rewrite Hr, (state_obs_equiv ig _ _ c _ reqs Hs), step_equiv_refl.
  rewrite IH; [reflexivity|exact Hs|now apply exec_inv|now apply exec_inv].
Qed.

Lemma skipn_app_len {A} (a b : list A) n : length a = n -> skipn n (a ++ b) = b.
Proof.
  intros <-. rewrite skipn_app, Nat.sub_diag, skipn_all. reflexivity.
Qed.

Lemma skipn_app_len_S {A} (a b : list A) o n : length a = n -> skipn (S n) (a ++ o :: b) = b.
Proof.
  intros H. replace (a ++ o :: b) with ((a ++ [o]) ++ b) by (now rewrite <- app_assoc).
  apply skipn_app_len. rewrite app_length. cbn. lia.
Qed.

Lemma c11_of_model ig cs1 cs2 reqs :
  c11_ok (model_history ig fixed (cs1 ++ cs2) reqs)
         (model_history ig fixed (cs1 ++ Restart :: cs2) reqs) (length cs1) = true.
Proof.
  unfold c11_ok, model_history. rewrite no_panic_model by apply Inv_init. rewrite andb_true_r.
  rewrite !model_history_app, model_history_cons.
  rewrite skipn_app_len by apply model_history_length.
  rewrite skipn_app_len_S by apply model_history_length.
  assert (HI : Inv (exec_all fixed init_state cs1)) by apply exec_all_inv, Inv_init.
  apply c11_from; [|exact HI|now apply exec_inv].
  cbn [exec snd]. now apply restart_equiv.
Qed.
