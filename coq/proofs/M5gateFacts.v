(** M5gateFacts.v — invariants of the pause-gate view (model/M5gate.v) and the
    facts behind props/C07.v.

    Histories are lists of events NEWEST FIRST ([rev] of a trace prefix): the
    functions below read "the most recent ... before now" by structural
    recursion, and consuming one more event is a [cons]. *)
From KP Require Import model.Base model.Trace model.M5gate.
From Coq Require Import ZifyN ZifyNat ZifyBool.
Local Open Scope N_scope.

(** * Generic facts about [run], [nget], [nset] *)

Lemma run_app {St} (step : St -> event -> option St) s a b :
  run step s (a ++ b) = match run step s a with Some s' => run step s' b | None => None end.
Proof.
  revert s. induction a as [|e a IH]; intros s; cbn [run app]; [reflexivity|].
  destruct (step s e); [apply IH|reflexivity].
Qed.

Lemma run_hist_ind {St} (step : St -> event -> option St) (P : trace -> St -> Prop) :
  (forall h s e s', P h s -> step s e = Some s' -> P (e :: h) s') ->
  forall tr h s0 s, P h s0 -> run step s0 tr = Some s -> P (rev tr ++ h) s.
Proof.
  intros Hstep tr. induction tr as [|e tr IH]; intros h s0 s HP Hrun; cbn [run] in Hrun.
  - injection Hrun as <-. exact HP.
  - destruct (step s0 e) as [s1|] eqn:Hs; [|discriminate].
    cbn [rev]. rewrite <- app_assoc. cbn [app]. eapply IH; [|exact Hrun]. eapply Hstep; eassumption.
Qed.

Lemma run_inv {St} (step : St -> event -> option St) (init : St) (P : trace -> St -> Prop) :
  P [] init ->
  (forall h s e s', P h s -> step s e = Some s' -> P (e :: h) s') ->
  forall tr s, run step init tr = Some s -> P (rev tr) s.
Proof.
  intros H0 Hstep tr s Hrun. rewrite <- (app_nil_r (rev tr)).
  eapply run_hist_ind; eassumption.
Qed.

Lemma nget_nset_same {A} (l : list (nat * A)) k v : nget (nset l k v) k = Some v.
Proof.
  induction l as [|[k' v'] l IH]; cbn [nset nget].
  - now rewrite Nat.eqb_refl.
  - destruct (Nat.eqb k k') eqn:E; cbn [nget]; rewrite ?Nat.eqb_refl, ?E; auto.
Qed.

Lemma nget_nset_other {A} (l : list (nat * A)) k k' v : k' <> k -> nget (nset l k v) k' = nget l k'.
Proof.
  intros Hne. induction l as [|[k0 v0] l IH]; cbn [nset nget].
  - destruct (Nat.eqb k' k) eqn:E; [apply Nat.eqb_eq in E; contradiction|reflexivity].
  - destruct (Nat.eqb k k0) eqn:E; cbn [nget].
    + apply Nat.eqb_eq in E. subst k0.
      destruct (Nat.eqb k' k) eqn:E'; [apply Nat.eqb_eq in E'; contradiction|reflexivity].
    + destruct (Nat.eqb k' k0); [reflexivity|exact IH].
Qed.

Lemma nget_nset {A} (l : list (nat * A)) k k' v :
  nget (nset l k v) k' = if Nat.eqb k' k then Some v else nget l k'.
Proof.
  destruct (Nat.eqb k' k) eqn:E.
  - apply Nat.eqb_eq in E. subst. apply nget_nset_same.
  - apply Nat.eqb_neq in E. now apply nget_nset_other.
Qed.

Lemma nmem_true k l : nmem k l = true <-> In k l.
Proof.
  unfold nmem. rewrite existsb_exists. split.
  - intros (x & Hin & E). apply Nat.eqb_eq in E. now subst.
  - intros H. exists k. now rewrite Nat.eqb_refl.
Qed.

Lemma onat_eqb_eq a b : onat_eqb a b = true -> a = b.
Proof.
  destruct a, b; cbn; intros H; try discriminate; auto. apply Nat.eqb_eq in H. now subst.
Qed.

Lemma gstate_eqb_eq a b : gstate_eqb a b = true -> a = b.
Proof. destruct a, b; cbn; intros H; try discriminate; reflexivity. Qed.

Lemma gaction_eqb_eq a b : gaction_eqb a b = true -> a = b.
Proof. destruct a, b; cbn; intros H; try discriminate; reflexivity. Qed.

Lemma actor_eqb_req a r : actor_eqb a (AReq r) = true <-> a = AReq r.
Proof.
  destruct a; cbn; split; intros H; try discriminate; try congruence.
  - apply Nat.eqb_eq in H. now subst.
  - injection H as ->. apply Nat.eqb_refl.
Qed.

(** * Reading a history *)

(** the max-pause argument of command [c] *)
Fixpoint fail_of (h : trace) (c : nat) : option N :=
  match h with
  | [] => None
  | e :: r => match e_k e with
              | KParams c' _ _ fa => if Nat.eqb c c' then Some fa else fail_of r c
              | _ => fail_of r c
              end
  end.

(** state and channel reported by the most recent Pause / Resume / Stop on [pc] *)
Fixpoint last_set (h : trace) (pc : nat) : option (gstate * option nat) :=
  match h with
  | [] => None
  | e :: r => match e_k e with
              | KGateSet pc' st ch => if Nat.eqb pc pc' then Some (st, ch) else last_set r pc
              | _ => last_set r pc
              end
  end.

Definition state_at (h : trace) (pc : nat) : gstate :=
  match last_set h pc with Some (st, _) => st | None => GRunning end.
Definition chan_at (h : trace) (pc : nat) : option nat :=
  match last_set h pc with Some (_, ch) => ch | None => None end.

(** the max-pause in force: the argument of the command that issued the most recent Pause on [pc] *)
Fixpoint in_force (h : trace) (pc : nat) : N :=
  match h with
  | [] => 0
  | e :: r => match e_k e with
              | KGateSet pc' GPaused _ =>
                if Nat.eqb pc pc'
                then match e_by e with
                     | ACmd c => match fail_of r c with Some fa => fa | None => 0 end
                     | _ => 0
                     end
                else in_force r pc
              | _ => in_force r pc
              end
  end.

(** the state set by the call that closed generation [g]: the OLDEST event in which a
    controller reports channel [g] with a state other than paused *)
Definition is_close (g : nat) (e : event) : option gstate :=
  match e_k e with
  | KGateSet _ st (Some g') => if Nat.eqb g g' then match st with GPaused => None | _ => Some st end else None
  | _ => None
  end.

Fixpoint closer (h : trace) (g : nat) : option gstate :=
  match h with
  | [] => None
  | e :: r => match closer r g with Some st => Some st | None => is_close g e end
  end.

(** the time of the call that closed generation [g] (of the OLDEST closing event, like [closer]) *)
Definition close_at (g : nat) (e : event) : option N :=
  match is_close g e with Some _ => Some (e_t e) | None => None end.

Fixpoint close_time (h : trace) (g : nat) : option N :=
  match h with
  | [] => None
  | e :: r => match close_time r g with Some t => Some t | None => close_at g e end
  end.

(** * The controllers follow the history *)

Definition ctl_at (h : trace) (pc : nat) : ctl := mkCtl (state_at h pc) (chan_at h pc) (in_force h pc).

Record CtlInv (h : trace) (s : gst) : Prop := {
  ci_cmds : forall c, nget (g_cmds s) c = fail_of h c;
  ci_ctl : forall pc, ctl_of s pc = ctl_at h pc;
  ci_closed : forall g, nget (g_closed s) g = closer h g;
  ci_chan : forall pc g, c_state (ctl_of s pc) <> GPaused -> c_chan (ctl_of s pc) = Some g ->
                         nget (g_closed s) g <> None;
  ci_ctime : forall g, nget (g_ctime s) g = close_time h g
}.

Lemma ctl_of_set_ctl s pc c pc' :
  ctl_of (set_ctl s pc c) pc' = if Nat.eqb pc' pc then c else ctl_of s pc'.
Proof.
  unfold ctl_of, set_ctl. cbn [g_ctl]. rewrite nget_nset. now destruct (Nat.eqb pc' pc).
Qed.

Lemma ctl_at_other h e pc :
  (forall st ch, e_k e = KGateSet pc st ch -> False) -> ctl_at (e :: h) pc = ctl_at h pc.
Proof.
  intros Hne. unfold ctl_at, state_at, chan_at. cbn [last_set in_force].
  destruct (e_k e) eqn:Hk; try reflexivity.
  destruct (Nat.eqb pc pc0) eqn:E.
  - apply Nat.eqb_eq in E. subst. exfalso. eapply Hne. reflexivity.
  - destruct st; reflexivity.
Qed.

Lemma closer_other h e g : is_close g e = None -> closer (e :: h) g = closer h g.
Proof. intros H. cbn [closer]. rewrite H. now destruct (closer h g). Qed.

Lemma is_close_not_set g e : (forall pc st ch, e_k e <> KGateSet pc st ch) -> is_close g e = None.
Proof.
  intros H. unfold is_close. destruct (e_k e) eqn:Hk; try reflexivity. exfalso. eapply H. reflexivity.
Qed.

Lemma close_time_other h e g : is_close g e = None -> close_time (e :: h) g = close_time h g.
Proof. intros H. cbn [close_time]. unfold close_at. rewrite H. now destruct (close_time h g). Qed.

(** [closer] and [close_time] are defined together *)
Lemma close_time_closer h g : close_time h g = None <-> closer h g = None.
Proof.
  induction h as [|e h IH]; cbn [close_time closer]; [tauto|].
  destruct (close_time h g) as [t|], (closer h g) as [st|]; try (split; discriminate).
  - destruct IH as [_ IH]. now specialize (IH eq_refl).
  - destruct IH as [IH _]. now specialize (IH eq_refl).
  - unfold close_at. destruct (is_close g e); split; try discriminate; reflexivity.
Qed.

(** states that differ only in fields the controllers do not read *)
Definition same_ctl (s s' : gst) : Prop :=
  g_cmds s' = g_cmds s /\ g_ctl s' = g_ctl s /\ g_closed s' = g_closed s /\ g_ctime s' = g_ctime s.

Lemma CtlInv_same h e s s' :
  CtlInv h s -> same_ctl s s' ->
  (forall pc st ch, e_k e <> KGateSet pc st ch) -> (forall c a b fa, e_k e <> KParams c a b fa) ->
  CtlInv (e :: h) s'.
Proof.
  intros [H1 H2 H3 H4 H5] (E1 & E2 & E3 & E4) Hs Hp.
  assert (Hctl : forall pc, ctl_of s' pc = ctl_of s pc) by (intros pc; unfold ctl_of; now rewrite E2).
  split.
  - intros c. rewrite E1, H1. cbn [fail_of]. destruct (e_k e) eqn:Hk; try reflexivity.
    exfalso. eapply Hp. reflexivity.
  - intros pc. rewrite Hctl, H2. symmetry. apply ctl_at_other. intros st ch Hk. eapply Hs. exact Hk.
  - intros g. rewrite E3, H3. symmetry. apply closer_other. now apply is_close_not_set.
  - intros pc g. rewrite Hctl, E3. apply H4.
  - intros g. rewrite E4, H5. symmetry. apply close_time_other. now apply is_close_not_set.
Qed.

Lemma same_ctl_refl s : same_ctl s s.
Proof. repeat split. Qed.

Lemma same_ctl_set_req s r p : same_ctl s (set_req s r p).
Proof. repeat split. Qed.

Lemma bind_pc_same s svc pc s' : bind_pc s svc pc = Some s' -> same_ctl s s' /\ g_req s' = g_req s.
Proof.
  unfold bind_pc. destruct (pc_of s svc) as [p|].
  - destruct (Nat.eqb p pc); [|discriminate]. intros H. injection H as <-. repeat split.
  - intros H. injection H as <-. repeat split.
Qed.

Lemma same_ctl_trans a b c : same_ctl a b -> same_ctl b c -> same_ctl a c.
Proof. intros (A1 & A2 & A3 & A4) (B1 & B2 & B3 & B4). repeat split; congruence. Qed.

(** the steps that do not touch the controllers *)
Lemma gstep_same_ctl s e s' :
  gstep s e = Some s' ->
  (forall pc st ch, e_k e <> KGateSet pc st ch) -> (forall c a b fa, e_k e <> KParams c a b fa) ->
  same_ctl s s'.
Proof.
  intros Hstep Hs Hp. unfold gstep in Hstep.
  destruct (e_k e) eqn:Hk; try (injection Hstep as <-; apply same_ctl_refl).
  - exfalso. eapply Hp. reflexivity.
  - (* respond *)
    unfold step_respond in Hstep. destruct (nget (g_req s) r) as [[]|]; try discriminate.
    + destruct (match a with AStopped => _ | ATimedOut => _ | AProceed => _ end); [|discriminate].
      injection Hstep as <-. apply same_ctl_set_req.
    + injection Hstep as <-. apply same_ctl_set_req.
  - (* copy *)
    unfold step_copy in Hstep. destruct (nmem new (g_known s) || Nat.eqb old new); [discriminate|].
    injection Hstep as <-. repeat split.
  - (* pick *)
    unfold step_path in Hstep. destruct (nget (g_req s) r) as [[| | |? ? []|]|]; try discriminate.
    injection Hstep as <-. apply same_ctl_refl.
  - exfalso. eapply Hs. reflexivity.
  - (* read *)
    unfold step_read in Hstep. destruct (e_by e); try discriminate.
    destruct (nget (g_req s) r); [discriminate|].
    destruct (gstate_eqb st (c_state (ctl_of s pc)) && onat_eqb chan (c_chan (ctl_of s pc))); [|discriminate].
    destruct st; try (injection Hstep as <-; apply same_ctl_set_req).
    destruct chan; [|discriminate]. injection Hstep as <-. apply same_ctl_set_req.
  - (* wake *)
    unfold step_wake in Hstep. destruct (e_by e); try discriminate.
    destruct (nget (g_req s) r) as [[]|]; try discriminate.
    destruct (Nat.eqb pc (h_pc h) && _); [|discriminate]. injection Hstep as <-. apply same_ctl_set_req.
  - (* result *)
    unfold step_result in Hstep. destruct (e_by e); try discriminate.
    destruct (Nat.eqb r r0); [|discriminate].
    destruct (nget (g_req s) r) as [[]|]; try discriminate.
    + destruct (gaction_eqb a _); [|discriminate].
      destruct (bind_pc s svc pc) as [s1|] eqn:Hb; [|discriminate]. injection Hstep as <-.
      eapply same_ctl_trans; [apply (bind_pc_same _ _ _ _ Hb)|apply same_ctl_set_req].
    + destruct (gaction_eqb a _); [|discriminate].
      destruct (bind_pc s svc (h_pc h)) as [s1|] eqn:Hb; [|discriminate]. injection Hstep as <-.
      eapply same_ctl_trans; [apply (bind_pc_same _ _ _ _ Hb)|apply same_ctl_set_req].
  - (* lb-claim *)
    unfold step_path in Hstep. destruct (nget (g_req s) r) as [[| | |? ? []|]|]; try discriminate.
    injection Hstep as <-. apply same_ctl_refl.
  - unfold step_path in Hstep. destruct (nget (g_req s) r) as [[| | |? ? []|]|]; try discriminate.
    injection Hstep as <-. apply same_ctl_refl.
  - unfold step_path in Hstep. destruct (nget (g_req s) r) as [[| | |? ? []|]|]; try discriminate.
    injection Hstep as <-. apply same_ctl_refl.
Qed.

Lemma ctl_of_upd s s' pc c :
  g_ctl s' = nset (g_ctl s) pc c -> forall pc0, ctl_of s' pc0 = if Nat.eqb pc0 pc then c else ctl_of s pc0.
Proof. intros E pc0. unfold ctl_of. rewrite E, nget_nset. now destruct (Nat.eqb pc0 pc). Qed.

Lemma ctl_at_other' h e pc :
  (forall pc' st ch, e_k e = KGateSet pc' st ch -> pc' <> pc) -> ctl_at (e :: h) pc = ctl_at h pc.
Proof.
  intros Hne. unfold ctl_at, state_at, chan_at. cbn [last_set in_force].
  destruct (e_k e) eqn:Hk; try reflexivity.
  destruct (Nat.eqb pc pc0) eqn:E.
  - apply Nat.eqb_eq in E. subst. exfalso. eapply Hne; reflexivity.
  - destruct st; reflexivity.
Qed.

Lemma ctl_at_set h e pc st ch :
  e_k e = KGateSet pc st ch ->
  ctl_at (e :: h) pc =
  mkCtl st ch (match st with
               | GPaused => match e_by e with
                            | ACmd c => match fail_of h c with Some fa => fa | None => 0 end
                            | _ => 0
                            end
               | _ => in_force h pc
               end).
Proof.
  intros Hk. unfold ctl_at, state_at, chan_at. cbn [last_set in_force]. rewrite Hk, Nat.eqb_refl.
  destruct st; reflexivity.
Qed.

Lemma fail_of_not_params h e c : (forall c' a b fa, e_k e <> KParams c' a b fa) -> fail_of (e :: h) c = fail_of h c.
Proof.
  intros H. cbn [fail_of]. destruct (e_k e) eqn:Hk; try reflexivity. exfalso. eapply H. reflexivity.
Qed.

Lemma is_close_paused g e pc ch : e_k e = KGateSet pc GPaused ch -> is_close g e = None.
Proof. intros Hk. unfold is_close. rewrite Hk. destruct ch; [destruct (Nat.eqb g n)|]; reflexivity. Qed.

Lemma CtlInv_step h s e s' : CtlInv h s -> gstep s e = Some s' -> CtlInv (e :: h) s'.
Proof.
  intros Hinv Hstep.
  destruct (e_k e) eqn:Hk;
    try (eapply CtlInv_same; [exact Hinv|eapply gstep_same_ctl; [exact Hstep|..]|..];
         intros; rewrite Hk; discriminate).
  - (* KParams *)
    destruct Hinv as [H1 H2 H3 H4 H5]. unfold gstep in Hstep. rewrite Hk in Hstep. unfold step_params in Hstep.
    injection Hstep as <-. split.
    + intros c0. cbn [g_cmds fail_of]. rewrite Hk, nget_nset. destruct (Nat.eqb c0 c); [reflexivity|apply H1].
    + intros pc. unfold ctl_of. cbn [g_ctl]. fold (ctl_of s pc). rewrite H2. symmetry. apply ctl_at_other.
      intros st ch Hk'. rewrite Hk in Hk'. discriminate.
    + intros g. cbn [g_closed]. rewrite H3. symmetry. apply closer_other. apply is_close_not_set.
      intros pc st ch. rewrite Hk. discriminate.
    + intros pc g. unfold ctl_of. cbn [g_ctl g_closed]. apply H4.
    + intros g. cbn [g_ctime]. rewrite H5. symmetry. apply close_time_other. apply is_close_not_set.
      intros pc st ch. rewrite Hk. discriminate.
  - (* KGateSet *)
    destruct Hinv as [H1 H2 H3 H4 H5]. unfold gstep in Hstep. rewrite Hk in Hstep. unfold step_set in Hstep.
    assert (Hfail : forall c, fail_of (e :: h) c = fail_of h c).
    { intros c. apply fail_of_not_params. intros. rewrite Hk. discriminate. }
    assert (Hoth : forall pc0, pc0 <> pc -> ctl_at (e :: h) pc0 = ctl_at h pc0).
    { intros pc0 Hne. apply ctl_at_other'. intros pc' st' ch' Hk'. rewrite Hk in Hk'. injection Hk' as <- _ _. auto. }
    destruct st.
    + (* Resume *)
      unfold step_setstate in Hstep.
      destruct (onat_eqb chan (c_chan (ctl_of s pc))) eqn:Ech; [|discriminate].
      apply onat_eqb_eq in Ech.
      destruct (c_state (ctl_of s pc)) eqn:Est.
      * injection Hstep as <-. split.
        -- intros c. cbn [set_ctl g_cmds]. now rewrite Hfail.
        -- intros pc0. rewrite ctl_of_set_ctl. destruct (Nat.eqb pc0 pc) eqn:E.
           ++ apply Nat.eqb_eq in E. subst pc0. rewrite (ctl_at_set _ _ _ _ _ Hk). f_equal.
              rewrite H2. reflexivity.
           ++ apply Nat.eqb_neq in E. rewrite Hoth by exact E. apply H2.
        -- intros g. cbn [set_ctl g_closed]. rewrite H3. symmetry.
           cbn [closer]. destruct (closer h g) eqn:Ec; [reflexivity|].
           unfold is_close. rewrite Hk. destruct chan as [g'|]; [|reflexivity].
           destruct (Nat.eqb g g') eqn:E; [|reflexivity]. apply Nat.eqb_eq in E. subst g'.
           exfalso. eapply (H4 pc g); [rewrite Est; discriminate|congruence|]. now rewrite H3.
        -- intros pc0 g. rewrite ctl_of_set_ctl. cbn [set_ctl g_closed]. destruct (Nat.eqb pc0 pc) eqn:E.
           ++ cbn [c_state c_chan]. intros _ Hc. apply (H4 pc g); [rewrite Est; discriminate|congruence].
           ++ apply H4.
        -- intros g. cbn [set_ctl g_ctime]. rewrite H5. symmetry.
           cbn [close_time]. destruct (close_time h g) eqn:Ec; [reflexivity|].
           unfold close_at, is_close. rewrite Hk. destruct chan as [g'|]; [|reflexivity].
           destruct (Nat.eqb g g') eqn:E; [|reflexivity]. apply Nat.eqb_eq in E. subst g'.
           exfalso. eapply (H4 pc g); [rewrite Est; discriminate|congruence|]. rewrite H3. now apply close_time_closer.
      * destruct (c_chan (ctl_of s pc)) as [g0|] eqn:Ecc; [|discriminate].
        destruct (nget (g_closed s) g0) eqn:Ecl; [discriminate|]. injection Hstep as <-. subst chan. split.
        -- intros c. cbn [g_cmds]. now rewrite Hfail.
        -- intros pc0. erewrite ctl_of_upd by reflexivity. destruct (Nat.eqb pc0 pc) eqn:E.
           ++ apply Nat.eqb_eq in E. subst pc0. rewrite (ctl_at_set _ _ _ _ _ Hk). f_equal.
              rewrite H2. reflexivity.
           ++ apply Nat.eqb_neq in E. rewrite Hoth by exact E. apply H2.
        -- intros g. cbn [g_closed nget closer]. rewrite <- H3. unfold is_close. rewrite Hk.
           rewrite (Nat.eqb_sym g g0). destruct (Nat.eqb g0 g) eqn:E.
           ++ apply Nat.eqb_eq in E. subst g. now rewrite Ecl.
           ++ now destruct (nget (g_closed s) g).
        -- intros pc0 g. erewrite ctl_of_upd by reflexivity. cbn [g_closed nget].
           destruct (Nat.eqb g g0) eqn:Eg; [discriminate|].
           destruct (Nat.eqb pc0 pc) eqn:E.
           ++ cbn [c_chan]. intros _ Hc. injection Hc as <-. now rewrite Nat.eqb_refl in Eg.
           ++ apply H4.
        -- assert (Ect : nget (g_ctime s) g0 = None) by (rewrite H5; apply close_time_closer; now rewrite <- H3).
           intros g. cbn [g_ctime nget close_time]. rewrite <- H5. unfold close_at, is_close. rewrite Hk.
           rewrite (Nat.eqb_sym g g0). destruct (Nat.eqb g0 g) eqn:E.
           ++ apply Nat.eqb_eq in E. subst g. now rewrite Ect.
           ++ now destruct (nget (g_ctime s) g).
      * injection Hstep as <-. split.
        -- intros c. cbn [set_ctl g_cmds]. now rewrite Hfail.
        -- intros pc0. rewrite ctl_of_set_ctl. destruct (Nat.eqb pc0 pc) eqn:E.
           ++ apply Nat.eqb_eq in E. subst pc0. rewrite (ctl_at_set _ _ _ _ _ Hk). f_equal.
              rewrite H2. reflexivity.
           ++ apply Nat.eqb_neq in E. rewrite Hoth by exact E. apply H2.
        -- intros g. cbn [set_ctl g_closed]. rewrite H3. symmetry.
           cbn [closer]. destruct (closer h g) eqn:Ec; [reflexivity|].
           unfold is_close. rewrite Hk. destruct chan as [g'|]; [|reflexivity].
           destruct (Nat.eqb g g') eqn:E; [|reflexivity]. apply Nat.eqb_eq in E. subst g'.
           exfalso. eapply (H4 pc g); [rewrite Est; discriminate|congruence|]. now rewrite H3.
        -- intros pc0 g. rewrite ctl_of_set_ctl. cbn [set_ctl g_closed]. destruct (Nat.eqb pc0 pc) eqn:E.
           ++ cbn [c_state c_chan]. intros _ Hc. apply (H4 pc g); [rewrite Est; discriminate|congruence].
           ++ apply H4.
        -- intros g. cbn [set_ctl g_ctime]. rewrite H5. symmetry.
           cbn [close_time]. destruct (close_time h g) eqn:Ec; [reflexivity|].
           unfold close_at, is_close. rewrite Hk. destruct chan as [g'|]; [|reflexivity].
           destruct (Nat.eqb g g') eqn:E; [|reflexivity]. apply Nat.eqb_eq in E. subst g'.
           exfalso. eapply (H4 pc g); [rewrite Est; discriminate|congruence|]. rewrite H3. now apply close_time_closer.
    + (* Pause *)
      unfold step_pause in Hstep. destruct (e_by e) as [|k| |] eqn:Eby; try discriminate.
      destruct (nget (g_cmds s) k) as [fa|] eqn:Ecmd; [|discriminate].
      assert (Hfa : fail_of h k = Some fa) by (now rewrite <- H1).
      assert (Hnew : forall ch, e_k e = KGateSet pc GPaused ch -> ctl_at (e :: h) pc = mkCtl GPaused ch fa).
      { intros ch Hk'. rewrite (ctl_at_set _ _ _ _ _ Hk'), Eby, Hfa. reflexivity. }
      assert (Hcl : forall g, closer (e :: h) g = closer h g).
      { intros g. apply closer_other. eapply is_close_paused. exact Hk. }
      assert (Hgoal : forall s1, g_cmds s1 = g_cmds s -> g_closed s1 = g_closed s -> g_ctime s1 = g_ctime s ->
                (forall pc0, ctl_of s1 pc0 = if Nat.eqb pc0 pc then mkCtl GPaused chan fa else ctl_of s pc0) ->
                CtlInv (e :: h) s1).
      { intros s1 E1 E3 E5 E2. split.
        - intros c. now rewrite E1, Hfail.
        - intros pc0. rewrite E2. destruct (Nat.eqb pc0 pc) eqn:E.
          + apply Nat.eqb_eq in E. subst pc0. symmetry. now apply Hnew.
          + apply Nat.eqb_neq in E. rewrite Hoth by exact E. apply H2.
        - intros g. now rewrite E3, Hcl.
        - intros pc0 g. rewrite E2, E3. destruct (Nat.eqb pc0 pc); [cbn; congruence|apply H4].
        - intros g. rewrite E5, H5. symmetry. apply close_time_other. eapply is_close_paused. exact Hk. }
      destruct (c_state (ctl_of s pc)) eqn:Est, (c_chan (ctl_of s pc)) as [g0|] eqn:Ecc;
        try (destruct chan as [g|]; [|discriminate]; destruct (nmem g (g_opened s)); [discriminate|];
             injection Hstep as <-; apply Hgoal; try reflexivity;
             intros pc0; now erewrite ctl_of_upd by reflexivity).
      destruct (onat_eqb chan (Some g0)) eqn:Ech; [|discriminate]. apply onat_eqb_eq in Ech. subst chan.
      injection Hstep as <-. apply Hgoal; try reflexivity. intros pc0. apply ctl_of_set_ctl.
    + (* Stop *)
      unfold step_setstate in Hstep.
      destruct (onat_eqb chan (c_chan (ctl_of s pc))) eqn:Ech; [|discriminate].
      apply onat_eqb_eq in Ech.
      destruct (c_state (ctl_of s pc)) eqn:Est.
      * injection Hstep as <-. split.
        -- intros c. cbn [set_ctl g_cmds]. now rewrite Hfail.
        -- intros pc0. rewrite ctl_of_set_ctl. destruct (Nat.eqb pc0 pc) eqn:E.
           ++ apply Nat.eqb_eq in E. subst pc0. rewrite (ctl_at_set _ _ _ _ _ Hk). f_equal.
              rewrite H2. reflexivity.
           ++ apply Nat.eqb_neq in E. rewrite Hoth by exact E. apply H2.
        -- intros g. cbn [set_ctl g_closed]. rewrite H3. symmetry.
           cbn [closer]. destruct (closer h g) eqn:Ec; [reflexivity|].
           unfold is_close. rewrite Hk. destruct chan as [g'|]; [|reflexivity].
           destruct (Nat.eqb g g') eqn:E; [|reflexivity]. apply Nat.eqb_eq in E. subst g'.
           exfalso. eapply (H4 pc g); [rewrite Est; discriminate|congruence|]. now rewrite H3.
        -- intros pc0 g. rewrite ctl_of_set_ctl. cbn [set_ctl g_closed]. destruct (Nat.eqb pc0 pc) eqn:E.
           ++ cbn [c_state c_chan]. intros _ Hc. apply (H4 pc g); [rewrite Est; discriminate|congruence].
           ++ apply H4.
        -- intros g. cbn [set_ctl g_ctime]. rewrite H5. symmetry.
           cbn [close_time]. destruct (close_time h g) eqn:Ec; [reflexivity|].
           unfold close_at, is_close. rewrite Hk. destruct chan as [g'|]; [|reflexivity].
           destruct (Nat.eqb g g') eqn:E; [|reflexivity]. apply Nat.eqb_eq in E. subst g'.
           exfalso. eapply (H4 pc g); [rewrite Est; discriminate|congruence|]. rewrite H3. now apply close_time_closer.
      * destruct (c_chan (ctl_of s pc)) as [g0|] eqn:Ecc; [|discriminate].
        destruct (nget (g_closed s) g0) eqn:Ecl; [discriminate|]. injection Hstep as <-. subst chan. split.
        -- intros c. cbn [g_cmds]. now rewrite Hfail.
        -- intros pc0. erewrite ctl_of_upd by reflexivity. destruct (Nat.eqb pc0 pc) eqn:E.
           ++ apply Nat.eqb_eq in E. subst pc0. rewrite (ctl_at_set _ _ _ _ _ Hk). f_equal.
              rewrite H2. reflexivity.
           ++ apply Nat.eqb_neq in E. rewrite Hoth by exact E. apply H2.
        -- intros g. cbn [g_closed nget closer]. rewrite <- H3. unfold is_close. rewrite Hk.
           rewrite (Nat.eqb_sym g g0). destruct (Nat.eqb g0 g) eqn:E.
           ++ apply Nat.eqb_eq in E. subst g. now rewrite Ecl.
           ++ now destruct (nget (g_closed s) g).
        -- intros pc0 g. erewrite ctl_of_upd by reflexivity. cbn [g_closed nget].
           destruct (Nat.eqb g g0) eqn:Eg; [discriminate|].
           destruct (Nat.eqb pc0 pc) eqn:E.
           ++ cbn [c_chan]. intros _ Hc. injection Hc as <-. now rewrite Nat.eqb_refl in Eg.
           ++ apply H4.
        -- assert (Ect : nget (g_ctime s) g0 = None) by (rewrite H5; apply close_time_closer; now rewrite <- H3).
           intros g. cbn [g_ctime nget close_time]. rewrite <- H5. unfold close_at, is_close. rewrite Hk.
           rewrite (Nat.eqb_sym g g0). destruct (Nat.eqb g0 g) eqn:E.
           ++ apply Nat.eqb_eq in E. subst g. now rewrite Ect.
           ++ now destruct (nget (g_ctime s) g).
      * injection Hstep as <-. split.
        -- intros c. cbn [set_ctl g_cmds]. now rewrite Hfail.
        -- intros pc0. rewrite ctl_of_set_ctl. destruct (Nat.eqb pc0 pc) eqn:E.
           ++ apply Nat.eqb_eq in E. subst pc0. rewrite (ctl_at_set _ _ _ _ _ Hk). f_equal.
              rewrite H2. reflexivity.
           ++ apply Nat.eqb_neq in E. rewrite Hoth by exact E. apply H2.
        -- intros g. cbn [set_ctl g_closed]. rewrite H3. symmetry.
           cbn [closer]. destruct (closer h g) eqn:Ec; [reflexivity|].
           unfold is_close. rewrite Hk. destruct chan as [g'|]; [|reflexivity].
           destruct (Nat.eqb g g') eqn:E; [|reflexivity]. apply Nat.eqb_eq in E. subst g'.
           exfalso. eapply (H4 pc g); [rewrite Est; discriminate|congruence|]. now rewrite H3.
        -- intros pc0 g. rewrite ctl_of_set_ctl. cbn [set_ctl g_closed]. destruct (Nat.eqb pc0 pc) eqn:E.
           ++ cbn [c_state c_chan]. intros _ Hc. apply (H4 pc g); [rewrite Est; discriminate|congruence].
           ++ apply H4.
        -- intros g. cbn [set_ctl g_ctime]. rewrite H5. symmetry.
           cbn [close_time]. destruct (close_time h g) eqn:Ec; [reflexivity|].
           unfold close_at, is_close. rewrite Hk. destruct chan as [g'|]; [|reflexivity].
           destruct (Nat.eqb g g') eqn:E; [|reflexivity]. apply Nat.eqb_eq in E. subst g'.
           exfalso. eapply (H4 pc g); [rewrite Est; discriminate|congruence|]. rewrite H3. now apply close_time_closer.
Qed.

Lemma CtlInv_init : CtlInv [] ginit.
Proof. split; intros; try reflexivity. cbn in *. discriminate. Qed.

(** * The story of one request *)

Definition is_path (e : event) : bool :=
  match e_k e with
  | KPick _ _ _ | KLbClaim _ _ _ | KClaim _ _ | KClaimRefused _ _ => true
  | _ => false
  end.

(** the request an event is about *)
Definition req_of (e : event) : option nat :=
  match e_k e with
  | KGateRead _ _ _ | KGateWake _ _ => match e_by e with AReq r => Some r | _ => None end
  | KGateResult r _ _ | KRespond r _ _ | KPick r _ _ | KLbClaim _ _ r | KClaim _ r | KClaimRefused _ r => Some r
  | _ => None
  end.

Definition concerns (r : nat) (e : event) : Prop := req_of e = Some r.

(** no event of [l] is about [r] *)
Definition quiet (r : nat) (l : trace) : Prop := Forall (fun e => ~ concerns r e) l.
(** the events of [l] about [r] are pick / lb-claim / claim / claim-refused *)
Definition pathonly (r : nat) (l : trace) : Prop := Forall (fun e => concerns r e -> is_path e = true) l.

Definition is_pread (r : nat) (e : event) : Prop :=
  exists pc ch, e_k e = KGateRead pc GPaused ch /\ e_by e = AReq r.
Definition no_pread (r : nat) (l : trace) : Prop := Forall (fun e => ~ is_pread r e) l.

Lemma pread_concerns r e : is_pread r e -> concerns r e.
Proof. intros (pc & ch & Hk & Hb). unfold concerns, req_of. now rewrite Hk, Hb. Qed.

Lemma quiet_no_pread r l : quiet r l -> no_pread r l.
Proof. apply Forall_impl. intros e H Hp. apply H. now apply pread_concerns. Qed.

Lemma quiet_pathonly r l : quiet r l -> pathonly r l.
Proof. apply Forall_impl. intros e H Hc. contradiction. Qed.

Definition ev_read (r : nat) (h : hold) : event :=
  mkEv (h_tread h) (AReq r) (KGateRead (h_pc h) GPaused (Some (h_gen h))).
Definition ev_wake (r : nat) (h : hold) (w : wake) : event :=
  mkEv (w_t w) (AReq r) (KGateWake (h_pc h) (w_chan w)).

(** what the request saw when it parked; [p1]: the history before its read *)
Definition hold_ok (h : hold) (p1 : trace) : Prop :=
  state_at p1 (h_pc h) = GPaused /\ chan_at p1 (h_pc h) = Some (h_gen h) /\ h_fail h = in_force p1 (h_pc h).

(** why it woke; [hb]: the history before the wake *)
Definition wake_ok (h : hold) (w : wake) (hb : trace) : Prop :=
  (w_chan w = true -> closer hb (h_gen h) <> None) /\
  (w_chan w = false -> w_t w = h_tread h + h_fail h) /\
  w_st w = state_at hb (h_pc h) /\
  (w_chan w = false -> forall tc, close_time hb (h_gen h) = Some tc -> w_t w <= tc).

(** the answer after a gate result: 503 after "stopped", 504 after "timed out", both naming no target *)
Definition status_ok (a : gaction) (status : N) (sb : str) : Prop :=
  match a with AStopped => status = 503 /\ sb = [] | ATimedOut => status = 504 /\ sb = [] | AProceed => True end.

Lemma str_eqb_nil sb : str_eqb sb [] = true -> sb = [].
Proof. destruct sb; [reflexivity|discriminate]. Qed.

Definition Parked r (hist : trace) (h : hold) : Prop :=
  exists p2 p1, hist = p2 ++ ev_read r h :: p1 /\ quiet r p2 /\ quiet r p1 /\ hold_ok h p1.

Definition Woken r (hist : trace) (h : hold) (w : wake) : Prop :=
  exists p3 hb, hist = p3 ++ ev_wake r h w :: hb /\ quiet r p3 /\ Parked r hb h /\ wake_ok h w hb.

Definition Done r (hist : trace) (h : hold) (w : wake) (a : gaction) : Prop :=
  exists p4 hb t svc, hist = p4 ++ mkEv t (AReq r) (KGateResult r svc a) :: hb /\
                      pathonly r p4 /\ (a = AProceed \/ quiet r p4) /\ Woken r hb h w /\ a = action_of w.

Definition Answered r (hist : trace) (h : hold) (w : wake) (a : gaction) (status : N) : Prop :=
  exists p5 hb t who sb, hist = p5 ++ mkEv t who (KRespond r status sb) :: hb /\
                         quiet r p5 /\ Done r hb h w a /\ status_ok a status sb.

Definition ReqInv (r : nat) (hist : trace) (ph : option phase) : Prop :=
  match ph with
  | None => quiet r hist
  | Some (PhPass _ _) => no_pread r hist
  | Some (PhParked h) => Parked r hist h
  | Some (PhWoken h w) => Woken r hist h w
  | Some (PhDone _ None _) => no_pread r hist
  | Some (PhDone pc (Some (h, w)) a) => Done r hist h w a /\ pc = h_pc h
  | Some (PhAnswered None _ _) => no_pread r hist
  | Some (PhAnswered (Some (h, w)) ao status) => exists a, ao = Some a /\ Answered r hist h w a status
  end.

Lemma ReqInv_cons_other r e hist ph : ~ concerns r e -> ReqInv r hist ph -> ReqInv r (e :: hist) ph.
Proof.
  intros Hn. assert (Hnp : ~ is_pread r e) by (intros Hp; apply Hn; now apply pread_concerns).
  destruct ph as [[pc st|h|h w|pc [[h w]|] a|[[h w]|] ao status]|]; cbn [ReqInv].
  - intros H. now constructor.
  - intros (p2 & p1 & -> & Q2 & Q1 & Hh). exists (e :: p2), p1.
    split; [reflexivity|]. split; [now constructor|]. split; assumption.
  - intros (p3 & hb & -> & Q3 & HP & Hw). exists (e :: p3), hb.
    split; [reflexivity|]. split; [now constructor|]. split; assumption.
  - intros [(p4 & hb & t & svc & -> & P4 & Hq & HW & Ha) Hpc]. split; [|exact Hpc].
    exists (e :: p4), hb, t, svc. split; [reflexivity|]. split.
    + constructor; [intros Hc; contradiction|exact P4].
    + split; [|split; assumption]. destruct Hq as [Hq|Hq]; [now left|right; now constructor].
  - intros H. now constructor.
  - intros (a & -> & p5 & hb & t & who & sb & -> & Q5 & HD & Hs). exists a. split; [reflexivity|].
    exists (e :: p5), hb, t, who, sb. split; [reflexivity|]. split; [now constructor|]. split; assumption.
  - intros H. now constructor.
  - intros H. now constructor.
Qed.

(** only the phase of the request an event is about changes *)
Lemma bind_pc_req s svc pc s' : bind_pc s svc pc = Some s' -> g_req s' = g_req s.
Proof. intros H. now apply bind_pc_same in H. Qed.

Lemma gstep_req_other s e s' r :
  gstep s e = Some s' -> ~ concerns r e -> nget (g_req s') r = nget (g_req s) r.
Proof.
  intros Hstep Hn. unfold concerns, req_of in Hn. unfold gstep in Hstep.
  destruct (e_k e) eqn:Hk; try (injection Hstep as <-; reflexivity).
  - unfold step_respond in Hstep. destruct (nget (g_req s) r0) as [[]|]; try discriminate.
    + destruct (match a with AStopped => _ | ATimedOut => _ | AProceed => _ end); [|discriminate].
      injection Hstep as <-. cbn [set_req g_req]. apply nget_nset_other. congruence.
    + injection Hstep as <-. cbn [set_req g_req]. apply nget_nset_other. congruence.
  - unfold step_copy in Hstep. destruct (nmem new (g_known s) || Nat.eqb old new); [discriminate|].
    injection Hstep as <-. reflexivity.
  - unfold step_path in Hstep. destruct (nget (g_req s) r0) as [[| | |? ? []|]|]; try discriminate.
    injection Hstep as <-. reflexivity.
  - unfold step_set in Hstep. destruct st.
    + unfold step_setstate in Hstep. destruct (onat_eqb _ _); [|discriminate].
      destruct (c_state (ctl_of s pc)); try (injection Hstep as <-; reflexivity).
      destruct (c_chan (ctl_of s pc)); [|discriminate]. destruct (nget (g_closed s) n); [discriminate|].
      injection Hstep as <-. reflexivity.
    + unfold step_pause in Hstep. destruct (e_by e); try discriminate. destruct (nget (g_cmds s) c); [|discriminate].
      destruct (c_state (ctl_of s pc)), (c_chan (ctl_of s pc));
        try (destruct chan; [|discriminate]; destruct (nmem _ _); [discriminate|]; injection Hstep as <-; reflexivity).
      destruct (onat_eqb _ _); [|discriminate]. injection Hstep as <-. reflexivity.
    + unfold step_setstate in Hstep. destruct (onat_eqb _ _); [|discriminate].
      destruct (c_state (ctl_of s pc)); try (injection Hstep as <-; reflexivity).
      destruct (c_chan (ctl_of s pc)); [|discriminate]. destruct (nget (g_closed s) n); [discriminate|].
      injection Hstep as <-. reflexivity.
  - unfold step_read in Hstep. destruct (e_by e); try discriminate.
    destruct (nget (g_req s) r0); [discriminate|]. destruct (_ && _); [|discriminate].
    destruct st; try (injection Hstep as <-; cbn [set_req g_req]; apply nget_nset_other; congruence).
    destruct chan; [|discriminate]. injection Hstep as <-. cbn [set_req g_req]. apply nget_nset_other. congruence.
  - unfold step_wake in Hstep. destruct (e_by e); try discriminate.
    destruct (nget (g_req s) r0) as [[]|]; try discriminate. destruct (_ && _); [|discriminate].
    injection Hstep as <-. cbn [set_req g_req]. apply nget_nset_other. congruence.
  - unfold step_result in Hstep. destruct (e_by e); try discriminate.
    destruct (Nat.eqb r0 r1); [|discriminate].
    destruct (nget (g_req s) r0) as [[]|]; try discriminate.
    + destruct (gaction_eqb a _); [|discriminate].
      destruct (bind_pc s svc pc) as [s1|] eqn:Hb; [|discriminate]. injection Hstep as <-.
      cbn [set_req g_req]. rewrite (bind_pc_req _ _ _ _ Hb). apply nget_nset_other. congruence.
    + destruct (gaction_eqb a _); [|discriminate].
      destruct (bind_pc s svc (h_pc h)) as [s1|] eqn:Hb; [|discriminate]. injection Hstep as <-.
      cbn [set_req g_req]. rewrite (bind_pc_req _ _ _ _ Hb). apply nget_nset_other. congruence.
  - unfold step_path in Hstep. destruct (nget (g_req s) r0) as [[| | |? ? []|]|]; try discriminate.
    injection Hstep as <-. reflexivity.
  - unfold step_path in Hstep. destruct (nget (g_req s) r0) as [[| | |? ? []|]|]; try discriminate.
    injection Hstep as <-. reflexivity.
  - unfold step_path in Hstep. destruct (nget (g_req s) r0) as [[| | |? ? []|]|]; try discriminate.
    injection Hstep as <-. reflexivity.
Qed.

Lemma get_set_req s r p : nget (g_req (set_req s r p)) r = Some p.
Proof. cbn [set_req g_req]. apply nget_nset_same. Qed.

Lemma ReqInv_step h s e s' :
  CtlInv h s -> (forall r, ReqInv r h (nget (g_req s) r)) -> gstep s e = Some s' ->
  forall r, ReqInv r (e :: h) (nget (g_req s') r).
Proof.
  intros Hc Hall Hstep r.
  destruct (option_map (Nat.eqb r) (req_of e)) as [[|]|] eqn:Hr.
  2:{ assert (Hn : ~ concerns r e).
      { unfold concerns. destruct (req_of e) as [r0|]; [|discriminate]. cbn in Hr. injection Hr as Hr.
        apply Nat.eqb_neq in Hr. congruence. }
      rewrite (gstep_req_other _ _ _ _ Hstep Hn). now apply ReqInv_cons_other. }
  2:{ assert (Hn : ~ concerns r e).
      { unfold concerns. destruct (req_of e); [discriminate|]. discriminate. }
      rewrite (gstep_req_other _ _ _ _ Hstep Hn). now apply ReqInv_cons_other. }
  assert (Hreq : req_of e = Some r).
  { destruct (req_of e) as [r0|]; [|discriminate]. cbn in Hr. injection Hr as Hr. apply Nat.eqb_eq in Hr. now subst. }
  clear Hr. specialize (Hall r). destruct Hc as [H1 H2 H3 H4 H5].
  destruct e as [t who k]. unfold req_of in Hreq. unfold gstep in Hstep. cbn [e_k e_by e_t] in *.
  destruct k; try discriminate.
  - (* respond *)
    injection Hreq as ->. unfold step_respond in Hstep.
    destruct (nget (g_req s) r) as [[pc st|hd|hd w|pc [[hd w]|] a|]|] eqn:Eph; try discriminate; cbn [ReqInv] in Hall.
    + destruct (match a with AStopped => _ | ATimedOut => _ | AProceed => _ end) eqn:Est; [|discriminate].
      injection Hstep as <-. rewrite get_set_req. cbn [ReqInv]. exists a. split; [reflexivity|].
      destruct Hall as [HD _]. exists [], h, t, who, served_by. split; [reflexivity|]. split; [constructor|].
      split; [exact HD|]. unfold status_ok. destruct a; auto; apply andb_true_iff in Est as [Est Esb];
        apply N.eqb_eq in Est; apply str_eqb_nil in Esb; auto.
    + destruct (match a with AStopped => _ | ATimedOut => _ | AProceed => _ end); [|discriminate].
      injection Hstep as <-. rewrite get_set_req. cbn [ReqInv]. constructor; [|exact Hall].
      intros (pc' & ch & Hk & _). discriminate.
    + injection Hstep as <-. rewrite get_set_req. cbn [ReqInv]. constructor; [|now apply quiet_no_pread].
      intros (pc' & ch & Hk & _). discriminate.
  - (* pick *)
    injection Hreq as ->. unfold step_path in Hstep.
    destruct (nget (g_req s) r) as [[| | |pc [[hd w]|] []|]|] eqn:Eph; try discriminate; injection Hstep as <-;
      rewrite Eph; cbn [ReqInv] in *.
    + destruct Hall as [(p4 & hb & t0 & svc0 & -> & P4 & Hq & HW & Ha) Hpc]. split; [|exact Hpc].
      exists (mkEv t who (KPick r svc lb) :: p4), hb, t0, svc0. split; [reflexivity|]. split.
      * constructor; [reflexivity|exact P4].
      * split; [now left|]. split; assumption.
    + constructor; [|exact Hall]. intros (pc' & ch & Hk & _). discriminate.
  - (* read *)
    destruct who as [r0| | |]; try discriminate. injection Hreq as ->. unfold step_read in Hstep.
    destruct (nget (g_req s) r) eqn:Eph; [discriminate|]. cbn [ReqInv] in Hall.
    destruct (gstate_eqb st (c_state (ctl_of s pc)) && onat_eqb chan (c_chan (ctl_of s pc))) eqn:Echk; [|discriminate].
    apply andb_true_iff in Echk as [Est Ech]. apply gstate_eqb_eq in Est. apply onat_eqb_eq in Ech.
    rewrite H2 in Est, Ech. cbn [ctl_at c_state c_chan] in Est, Ech.
    destruct st.
    + injection Hstep as <-. rewrite get_set_req. cbn [ReqInv]. constructor; [|now apply quiet_no_pread].
      intros (pc' & ch & Hk & _). discriminate.
    + destruct chan as [g|]; [|discriminate]. injection Hstep as <-. rewrite get_set_req. cbn [ReqInv].
      exists [], h. split; [reflexivity|]. split; [constructor|]. split; [exact Hall|].
      unfold hold_ok. cbn [h_pc h_gen h_fail]. rewrite H2. cbn [ctl_at c_fail]. auto.
    + injection Hstep as <-. rewrite get_set_req. cbn [ReqInv]. constructor; [|now apply quiet_no_pread].
      intros (pc' & ch & Hk & _). discriminate.
  - (* wake *)
    destruct who as [r0| | |]; try discriminate. injection Hreq as ->. unfold step_wake in Hstep.
    destruct (nget (g_req s) r) as [[pc0 st|hd|hd w|pc0 hw a|]|] eqn:Eph; try discriminate. cbn [ReqInv] in Hall.
    destruct (Nat.eqb pc (h_pc hd) && _) eqn:Echk; [|discriminate].
    apply andb_true_iff in Echk as [Epc Ew]. apply Nat.eqb_eq in Epc. subst pc.
    injection Hstep as <-. rewrite get_set_req. cbn [ReqInv].
    exists [], h. split; [reflexivity|]. split; [constructor|]. split; [exact Hall|].
    unfold wake_ok. cbn [w_chan w_t w_st]. split; [|split; [|split]].
    + intros ->. rewrite <- H3. destruct (nget (g_closed s) (h_gen hd)); [discriminate|discriminate].
    + intros ->. apply andb_true_iff in Ew as [Ew _]. now apply N.eqb_eq in Ew.
    + now rewrite H2.
    + intros -> tc Htc. apply andb_true_iff in Ew as [_ Ew]. rewrite H5, Htc in Ew. now apply N.leb_le in Ew.
  - (* result *)
    injection Hreq as ->. unfold step_result in Hstep.
    destruct who as [r0| | |]; try discriminate.
    destruct (Nat.eqb r r0) eqn:Er; [|discriminate]. apply Nat.eqb_eq in Er. subst r0.
    destruct (nget (g_req s) r) as [[pc0 st|hd|hd w|pc0 hw a0|]|] eqn:Eph; try discriminate; cbn [ReqInv] in Hall.
    + destruct (gaction_eqb a _); [|discriminate].
      destruct (bind_pc s svc pc0) as [s1|] eqn:Hb; [|discriminate]. injection Hstep as <-.
      rewrite get_set_req. cbn [ReqInv]. constructor; [|exact Hall]. intros (pc' & ch & Hk & _). discriminate.
    + destruct (gaction_eqb a (action_of w)) eqn:Ea; [|discriminate]. apply gaction_eqb_eq in Ea.
      destruct (bind_pc s svc (h_pc hd)) as [s1|] eqn:Hb; [|discriminate]. injection Hstep as <-.
      rewrite get_set_req. cbn [ReqInv]. split; [|reflexivity].
      exists [], h, t, svc. split; [reflexivity|]. split; [constructor|]. split; [right; constructor|].
      split; assumption.
  - (* lb-claim *)
    injection Hreq as ->. unfold step_path in Hstep.
    destruct (nget (g_req s) r) as [[| | |pc [[hd w]|] []|]|] eqn:Eph; try discriminate; injection Hstep as <-;
      rewrite Eph; cbn [ReqInv] in *.
    + destruct Hall as [(p4 & hb & t1 & svc0 & -> & P4 & Hq & HW & Ha) Hpc]. split; [|exact Hpc].
      exists (mkEv t who (KLbClaim lb t0 r) :: p4), hb, t1, svc0. split; [reflexivity|]. split.
      * constructor; [reflexivity|exact P4].
      * split; [now left|]. split; assumption.
    + constructor; [|exact Hall]. intros (pc' & ch & Hk & _). discriminate.
  - (* claim *)
    injection Hreq as ->. unfold step_path in Hstep.
    destruct (nget (g_req s) r) as [[| | |pc [[hd w]|] []|]|] eqn:Eph; try discriminate; injection Hstep as <-;
      rewrite Eph; cbn [ReqInv] in *.
    + destruct Hall as [(p4 & hb & t1 & svc0 & -> & P4 & Hq & HW & Ha) Hpc]. split; [|exact Hpc].
      exists (mkEv t who (KClaim t0 r) :: p4), hb, t1, svc0. split; [reflexivity|]. split.
      * constructor; [reflexivity|exact P4].
      * split; [now left|]. split; assumption.
    + constructor; [|exact Hall]. intros (pc' & ch & Hk & _). discriminate.
  - (* claim refused *)
    injection Hreq as ->. unfold step_path in Hstep.
    destruct (nget (g_req s) r) as [[| | |pc [[hd w]|] []|]|] eqn:Eph; try discriminate; injection Hstep as <-;
      rewrite Eph; cbn [ReqInv] in *.
    + destruct Hall as [(p4 & hb & t1 & svc0 & -> & P4 & Hq & HW & Ha) Hpc]. split; [|exact Hpc].
      exists (mkEv t who (KClaimRefused t0 r) :: p4), hb, t1, svc0. split; [reflexivity|]. split.
      * constructor; [reflexivity|exact P4].
      * split; [now left|]. split; assumption.
    + constructor; [|exact Hall]. intros (pc' & ch & Hk & _). discriminate.
Qed.

(** * All accepted traces *)

Definition GInv (h : trace) (s : gst) : Prop := CtlInv h s /\ forall r, ReqInv r h (nget (g_req s) r).

Lemma GInv_run tr s : run gstep ginit tr = Some s -> GInv (rev tr) s.
Proof.
  apply (run_inv gstep ginit GInv).
  - split; [apply CtlInv_init|]. intros r. cbn. constructor.
  - intros h s0 e s' [Hc Hr] Hstep. split; [eapply CtlInv_step; eassumption|].
    eapply ReqInv_step; eassumption.
Qed.

Lemma nget_In {A} (l : list (nat * A)) k v : nget l k = Some v -> In (k, v) l.
Proof.
  induction l as [|[k' v'] l IH]; cbn [nget]; [discriminate|].
  destruct (Nat.eqb k k') eqn:E.
  - apply Nat.eqb_eq in E. subst. intros H. injection H as ->. now left.
  - intros H. right. now apply IH.
Qed.

Lemma quiescent_answered s r ph :
  quiescent s = true -> nget (g_req s) r = Some ph -> exists hw a st, ph = PhAnswered hw a st.
Proof.
  unfold quiescent. rewrite forallb_forall. intros Hq Hg. apply nget_In in Hg. specialize (Hq _ Hg).
  cbn in Hq. destruct ph; try discriminate. eauto.
Qed.

Lemma quiet_rev r l : quiet r l -> quiet r (rev l).
Proof. apply Forall_rev. Qed.
Lemma pathonly_rev r l : pathonly r l -> pathonly r (rev l).
Proof. apply Forall_rev. Qed.

Lemma rev_split2 {A} (a b : list A) (x : A) : rev (a ++ x :: b) = rev b ++ x :: rev a.
Proof. rewrite rev_app_distr. cbn [rev]. now rewrite <- app_assoc. Qed.

(** The complete story of a request that parked, in trace order. *)
Definition held_story (tr : trace) (r : nat) (h : hold) (w : wake) (a : gaction) (status : N) : Prop :=
  exists pre held aw mid rest t3 svc t5 who sb,
    tr = pre ++ ev_read r h :: held ++ ev_wake r h w :: aw ++
         mkEv t3 (AReq r) (KGateResult r svc a) :: mid ++ mkEv t5 who (KRespond r status sb) :: rest /\
    quiet r pre /\ quiet r held /\ quiet r aw /\ pathonly r mid /\ (a = AProceed \/ quiet r mid) /\ quiet r rest /\
    hold_ok h (rev pre) /\ wake_ok h w (rev (pre ++ ev_read r h :: held)) /\
    a = action_of w /\ status_ok a status sb.

Lemma Answered_story r hist h w a status :
  Answered r hist h w a status -> held_story (rev hist) r h w a status.
Proof.
  intros (p5 & hb5 & t5 & who & sb & -> & Q5 & (p4 & hb4 & t3 & svc & -> & P4 & Hq4 & HW & Ha) & Hs).
  destruct HW as (p3 & hb3 & -> & Q3 & (p2 & p1 & -> & Q2 & Q1 & Hh) & Hw).
  exists (rev p1), (rev p2), (rev p3), (rev p4), (rev p5), t3, svc, t5, who, sb.
  split.
  { rewrite !rev_split2. repeat first [rewrite <- app_assoc|progress cbn [app]]. reflexivity. }
  repeat (split; [first [now apply quiet_rev|now apply pathonly_rev]|]).
  split. { destruct Hq4 as [?|Hq]; [now left|right; now apply quiet_rev]. }
  split; [now apply quiet_rev|].
  split; [now rewrite rev_involutive|].
  split. { rewrite rev_split2, !rev_involutive. exact Hw. }
  split; assumption.
Qed.

Lemma quiet_not_in r l e : quiet r l -> In e l -> ~ concerns r e.
Proof. intros H. unfold quiet in H. rewrite Forall_forall in H. apply H. Qed.

Lemma no_pread_not_in r l e : no_pread r l -> In e l -> ~ is_pread r e.
Proof. intros H. unfold no_pread in H. rewrite Forall_forall in H. apply H. Qed.

Theorem parked_story tr r e :
  gate_accepts tr = true -> In e tr -> is_pread r e ->
  exists h w a status, held_story tr r h w a status.
Proof.
  unfold gate_accepts. destruct (run gstep ginit tr) as [s|] eqn:Hrun; [|discriminate].
  intros Hq Hin Hp. destruct (GInv_run _ _ Hrun) as [_ Hr]. specialize (Hr r).
  assert (Hin' : In e (rev tr)) by (now apply in_rev in Hin).
  destruct (nget (g_req s) r) as [ph|] eqn:Eph.
  - destruct (quiescent_answered _ _ _ Hq Eph) as (hw & ao & st & ->). cbn [ReqInv] in Hr.
    destruct hw as [[h w]|].
    + destruct Hr as (a & -> & HA). exists h, w, a, st. rewrite <- (rev_involutive tr). now apply Answered_story.
    + exfalso. eapply no_pread_not_in; eassumption.
  - cbn [ReqInv] in Hr. exfalso. eapply quiet_not_in; [exact Hr|exact Hin'|]. now apply pread_concerns.
Qed.

Lemma run_split {St} (step : St -> event -> option St) s0 pre e post s :
  run step s0 (pre ++ e :: post) = Some s ->
  exists s1 s2, run step s0 pre = Some s1 /\ step s1 e = Some s2 /\ run step s2 post = Some s.
Proof.
  rewrite run_app. destruct (run step s0 pre) as [s1|]; [|discriminate]. cbn [run].
  destruct (step s1 e) as [s2|] eqn:E; [|discriminate]. intros H. eauto.
Qed.

(** * A paused controller always has a generation *)

Lemma gstep_g_ctl s e s' :
  gstep s e = Some s' -> (forall pc st ch, e_k e <> KGateSet pc st ch) -> g_ctl s' = g_ctl s.
Proof.
  intros Hstep Hs. destruct (e_k e) eqn:Hk;
    try (assert (HS : same_ctl s s') by (apply (gstep_same_ctl _ _ _ Hstep); intros; rewrite Hk; discriminate);
         apply HS).
  - unfold gstep in Hstep. rewrite Hk in Hstep. injection Hstep as <-. reflexivity.
  - exfalso. eapply Hs. reflexivity.
Qed.

Definition PausedChan (s : gst) : Prop :=
  forall pc, c_state (ctl_of s pc) = GPaused -> c_chan (ctl_of s pc) <> None.

Lemma PausedChan_step s e s' : PausedChan s -> gstep s e = Some s' -> PausedChan s'.
Proof.
  intros HP Hstep. destruct (e_k e) eqn:Hk;
    try (assert (E : g_ctl s' = g_ctl s) by (apply (gstep_g_ctl _ _ _ Hstep); intros; rewrite Hk; discriminate);
         intros pc0; unfold ctl_of; rewrite E; apply HP).
  unfold gstep in Hstep. rewrite Hk in Hstep. unfold step_set in Hstep. intros pc0.
  destruct st.
  - unfold step_setstate in Hstep. destruct (onat_eqb _ _); [|discriminate].
    destruct (c_state (ctl_of s pc)) eqn:Est.
    + injection Hstep as <-. rewrite ctl_of_set_ctl. destruct (Nat.eqb pc0 pc); [discriminate|apply HP].
    + destruct (c_chan (ctl_of s pc)); [|discriminate]. destruct (nget (g_closed s) n); [discriminate|].
      injection Hstep as <-. erewrite ctl_of_upd by reflexivity. destruct (Nat.eqb pc0 pc); [discriminate|apply HP].
    + injection Hstep as <-. rewrite ctl_of_set_ctl. destruct (Nat.eqb pc0 pc); [discriminate|apply HP].
  - unfold step_pause in Hstep. destruct (e_by e); try discriminate. destruct (nget (g_cmds s) c) as [fa|]; [|discriminate].
    destruct (c_state (ctl_of s pc)) eqn:Est, (c_chan (ctl_of s pc)) as [g0|] eqn:Ecc;
      try (destruct chan as [g|]; [|discriminate]; destruct (nmem g (g_opened s)); [discriminate|];
           injection Hstep as <-; erewrite ctl_of_upd by reflexivity;
           destruct (Nat.eqb pc0 pc); [discriminate|apply HP]).
    destruct (onat_eqb _ _); [|discriminate]. injection Hstep as <-. rewrite ctl_of_set_ctl.
    destruct (Nat.eqb pc0 pc); [discriminate|apply HP].
  - unfold step_setstate in Hstep. destruct (onat_eqb _ _); [|discriminate].
    destruct (c_state (ctl_of s pc)) eqn:Est.
    + injection Hstep as <-. rewrite ctl_of_set_ctl. destruct (Nat.eqb pc0 pc); [discriminate|apply HP].
    + destruct (c_chan (ctl_of s pc)); [|discriminate]. destruct (nget (g_closed s) n); [discriminate|].
      injection Hstep as <-. erewrite ctl_of_upd by reflexivity. destruct (Nat.eqb pc0 pc); [discriminate|apply HP].
    + injection Hstep as <-. rewrite ctl_of_set_ctl. destruct (Nat.eqb pc0 pc); [discriminate|apply HP].
Qed.

Lemma PausedChan_run tr s : run gstep ginit tr = Some s -> PausedChan s.
Proof.
  intros H. apply (run_inv gstep ginit (fun _ s => PausedChan s)) in H; [exact H|..].
  - intros pc. cbn. discriminate.
  - intros h s0 e s' HP Hs. eapply PausedChan_step; eassumption.
Qed.

(** A Pause of an already paused controller keeps the generation. *)
Theorem repeated_pause pre e post s pc ch :
  run gstep ginit (pre ++ e :: post) = Some s ->
  e_k e = KGateSet pc GPaused ch ->
  state_at (rev pre) pc = GPaused ->
  ch = chan_at (rev pre) pc /\ ch <> None /\
  (forall g, closer (e :: rev pre) g = closer (rev pre) g) /\
  (forall c, e_by e = ACmd c -> in_force (e :: rev pre) pc = match fail_of (rev pre) c with Some fa => fa | None => 0 end).
Proof.
  intros Hrun Hk Hst. apply run_split in Hrun as (s1 & s2 & Hpre & Hstep & _).
  destruct (GInv_run _ _ Hpre) as [[H1 H2 H3 H4 H5] _]. pose proof (PausedChan_run _ _ Hpre) as HP.
  assert (Est : c_state (ctl_of s1 pc) = GPaused) by (now rewrite H2).
  assert (Ech : c_chan (ctl_of s1 pc) = chan_at (rev pre) pc) by (now rewrite H2).
  specialize (HP pc Est).
  unfold gstep in Hstep. rewrite Hk in Hstep. cbn [step_set] in Hstep. unfold step_pause in Hstep.
  destruct (e_by e) as [|k| |] eqn:Eby; try discriminate. destruct (nget (g_cmds s1) k); [|discriminate].
  rewrite Est in Hstep. destruct (c_chan (ctl_of s1 pc)) as [g0|] eqn:Ecc; [|contradiction].
  destruct (onat_eqb ch (Some g0)) eqn:E; [|discriminate]. apply onat_eqb_eq in E. subst ch.
  split; [exact Ech|]. split; [discriminate|]. split.
  - intros g. apply closer_other. eapply is_close_paused. exact Hk.
  - intros c Hc. injection Hc as <-. cbn [in_force]. now rewrite Hk, Nat.eqb_refl, Eby.
Qed.

(** * Redeployed copies share the controller of the original *)

Definition same_lin (s s' : gst) : Prop :=
  g_known s' = g_known s /\ g_parent s' = g_parent s /\ g_pc s' = g_pc s.

Lemma same_lin_refl s : same_lin s s.
Proof. repeat split. Qed.

Lemma gstep_same_lin s e s' :
  gstep s e = Some s' ->
  (forall o n, e_k e <> KSvcCopy o n) -> (forall r svc a, e_k e <> KGateResult r svc a) ->
  same_lin s s'.
Proof.
  intros Hstep Hc Hr. unfold gstep in Hstep.
  destruct (e_k e) eqn:Hk; try (injection Hstep as <-; apply same_lin_refl).
  - injection Hstep as <-. repeat split.
  - unfold step_respond in Hstep. destruct (nget (g_req s) r) as [[]|]; try discriminate.
    + destruct (match a with AStopped => _ | ATimedOut => _ | AProceed => _ end); [|discriminate].
      injection Hstep as <-. repeat split.
    + injection Hstep as <-. repeat split.
  - exfalso. eapply Hc. reflexivity.
  - unfold step_path in Hstep. destruct (nget (g_req s) r) as [[| | |? ? []|]|]; try discriminate.
    injection Hstep as <-. apply same_lin_refl.
  - unfold step_set in Hstep. destruct st.
    + unfold step_setstate in Hstep. destruct (onat_eqb _ _); [|discriminate].
      destruct (c_state (ctl_of s pc)); try (injection Hstep as <-; repeat split).
      destruct (c_chan (ctl_of s pc)); [|discriminate]. destruct (nget (g_closed s) n); [discriminate|].
      injection Hstep as <-. repeat split.
    + unfold step_pause in Hstep. destruct (e_by e); try discriminate. destruct (nget (g_cmds s) c); [|discriminate].
      destruct (c_state (ctl_of s pc)), (c_chan (ctl_of s pc));
        try (destruct chan; [|discriminate]; destruct (nmem _ _); [discriminate|]; injection Hstep as <-; repeat split).
      destruct (onat_eqb _ _); [|discriminate]. injection Hstep as <-. repeat split.
    + unfold step_setstate in Hstep. destruct (onat_eqb _ _); [|discriminate].
      destruct (c_state (ctl_of s pc)); try (injection Hstep as <-; repeat split).
      destruct (c_chan (ctl_of s pc)); [|discriminate]. destruct (nget (g_closed s) n); [discriminate|].
      injection Hstep as <-. repeat split.
  - unfold step_read in Hstep. destruct (e_by e); try discriminate.
    destruct (nget (g_req s) r); [discriminate|]. destruct (_ && _); [|discriminate].
    destruct st; try (injection Hstep as <-; repeat split).
    destruct chan; [|discriminate]. injection Hstep as <-. repeat split.
  - unfold step_wake in Hstep. destruct (e_by e); try discriminate.
    destruct (nget (g_req s) r) as [[]|]; try discriminate. destruct (_ && _); [|discriminate].
    injection Hstep as <-. repeat split.
  - exfalso. eapply Hr. reflexivity.
  - unfold step_path in Hstep. destruct (nget (g_req s) r) as [[| | |? ? []|]|]; try discriminate.
    injection Hstep as <-. apply same_lin_refl.
  - unfold step_path in Hstep. destruct (nget (g_req s) r) as [[| | |? ? []|]|]; try discriminate.
    injection Hstep as <-. apply same_lin_refl.
  - unfold step_path in Hstep. destruct (nget (g_req s) r) as [[| | |? ? []|]|]; try discriminate.
    injection Hstep as <-. apply same_lin_refl.
Qed.

Definition is_read_on (r pc : nat) (e : event) : Prop :=
  exists st ch, e_k e = KGateRead pc st ch /\ e_by e = AReq r.

(** the controller a request read, as far as its phase remembers it *)
Definition phase_pc (ph : option phase) : option nat :=
  match ph with
  | Some (PhPass pc _) | Some (PhDone pc _ _) => Some pc
  | Some (PhParked h) | Some (PhWoken h _) => Some (h_pc h)
  | _ => None
  end.

Definition pc_known (ph : option phase) (pc : nat) : Prop :=
  match ph with
  | Some (PhAnswered _ _ _) => True
  | _ => phase_pc ph = Some pc
  end.

Record LinInv (h : trace) (s : gst) : Prop := {
  li_pckeys : forall k v, nget (g_pc s) k = Some v -> In k (g_known s);
  li_parent : forall k v, nget (g_parent s) k = Some v ->
                          In k (g_known s) /\ In v (g_known s) /\ nget (g_parent s) v = None;
  li_copy : forall e o n, In e h -> e_k e = KSvcCopy o n ->
                          root s n = root s o /\ In o (g_known s) /\ In n (g_known s);
  li_result : forall e1 e2 r pc svc a, In e1 h -> In e2 h -> is_read_on r pc e1 -> e_k e2 = KGateResult r svc a ->
                                       pc_of s svc = Some pc;
  li_reads : forall r e pc, In e h -> is_read_on r pc e -> pc_known (nget (g_req s) r) pc
}.

Lemma read_on_concerns r pc e : is_read_on r pc e -> concerns r e.
Proof. intros (st & ch & Hk & Hb). unfold concerns, req_of. now rewrite Hk, Hb. Qed.

Lemma bind_pc_spec s svc pc s' :
  bind_pc s svc pc = Some s' ->
  pc_of s' svc = Some pc /\ g_parent s' = g_parent s /\
  (forall x p, pc_of s x = Some p -> pc_of s' x = Some p) /\
  (forall x, In x (g_known s) -> In x (g_known s')) /\
  (forall k v, nget (g_pc s') k = Some v -> nget (g_pc s) k = Some v \/ (k = root s svc /\ In svc (g_known s'))).
Proof.
  unfold bind_pc. destruct (pc_of s svc) as [p|] eqn:Ep.
  - destruct (Nat.eqb p pc) eqn:E; [|discriminate]. apply Nat.eqb_eq in E. subst p.
    intros H. injection H as <-. repeat split; auto.
  - intros H. injection H as <-. unfold pc_of, root. cbn [g_pc g_parent g_known]. repeat split.
    + apply nget_nset_same.
    + intros x p Hx. rewrite nget_nset. fold (root s x). fold (root s svc).
      destruct (Nat.eqb (root s x) (root s svc)) eqn:E; [|exact Hx].
      apply Nat.eqb_eq in E. unfold pc_of in Ep. unfold root in E, Hx. rewrite E in Hx. unfold root in Ep. congruence.
    + intros x Hx. now right.
    + intros k v. rewrite nget_nset. fold (root s svc). destruct (Nat.eqb k (root s svc)) eqn:E.
      * apply Nat.eqb_eq in E. intros _. right. split; [exact E|now left].
      * intros Hk. now left.
Qed.

Lemma concerns_dec r e : concerns r e \/ ~ concerns r e.
Proof.
  unfold concerns. destruct (req_of e) as [r0|]; [|right; discriminate].
  destruct (Nat.eq_dec r0 r); [left; now subst|right; congruence].
Qed.

(** once a request has read a controller, its phase remembers which one until it is answered *)
Lemma pc_known_step s e s' r pc :
  gstep s e = Some s' -> pc_known (nget (g_req s) r) pc -> pc_known (nget (g_req s') r) pc.
Proof.
  intros Hstep Hold. destruct (concerns_dec r e) as [Hc|Hn].
  2:{ now rewrite (gstep_req_other _ _ _ _ Hstep Hn). }
  unfold concerns, req_of in Hc. unfold gstep in Hstep.
  destruct (e_k e) eqn:Hk; try discriminate.
  - injection Hc as ->. unfold step_respond in Hstep.
    destruct (nget (g_req s) r) as [[]|] eqn:E; try discriminate.
    + destruct (match a with AStopped => _ | ATimedOut => _ | AProceed => _ end); [|discriminate].
      injection Hstep as <-. rewrite get_set_req. exact I.
  - injection Hc as ->. unfold step_path in Hstep.
    destruct (nget (g_req s) r) as [[| | |? ? []|]|] eqn:E; try discriminate. injection Hstep as <-. now rewrite E.
  - destruct (e_by e); try discriminate. injection Hc as ->. unfold step_read in Hstep.
    destruct (nget (g_req s) r) eqn:E; [discriminate|]. cbn in Hold. discriminate.
  - destruct (e_by e); try discriminate. injection Hc as ->. unfold step_wake in Hstep.
    destruct (nget (g_req s) r) as [[]|] eqn:E; try discriminate. destruct (_ && _); [|discriminate].
    injection Hstep as <-. rewrite get_set_req. exact Hold.
  - injection Hc as ->. unfold step_result in Hstep. destruct (e_by e); try discriminate.
    destruct (Nat.eqb r r0); [|discriminate].
    destruct (nget (g_req s) r) as [[]|] eqn:E; try discriminate.
    + destruct (gaction_eqb a _); [|discriminate]. destruct (bind_pc s svc pc0) as [s1|]; [|discriminate].
      injection Hstep as <-. rewrite get_set_req. exact Hold.
    + destruct (gaction_eqb a _); [|discriminate]. destruct (bind_pc s svc (h_pc h)) as [s1|]; [|discriminate].
      injection Hstep as <-. rewrite get_set_req. exact Hold.
  - injection Hc as ->. unfold step_path in Hstep.
    destruct (nget (g_req s) r) as [[| | |? ? []|]|] eqn:E; try discriminate. injection Hstep as <-. now rewrite E.
  - injection Hc as ->. unfold step_path in Hstep.
    destruct (nget (g_req s) r) as [[| | |? ? []|]|] eqn:E; try discriminate. injection Hstep as <-. now rewrite E.
  - injection Hc as ->. unfold step_path in Hstep.
    destruct (nget (g_req s) r) as [[| | |? ? []|]|] eqn:E; try discriminate. injection Hstep as <-. now rewrite E.
Qed.

Lemma LinInv_root_known h s x : LinInv h s -> In x (g_known s) -> In (root s x) (g_known s).
Proof.
  intros HL Hx. unfold root. destruct (nget (g_parent s) x) as [p|] eqn:E; [|exact Hx].
  now apply (li_parent _ _ HL) in E.
Qed.

Lemma LinInv_same h s e s' :
  LinInv h s -> same_lin s s' ->
  (forall o n, e_k e <> KSvcCopy o n) -> (forall r svc a, e_k e <> KGateResult r svc a) ->
  (forall r pc, is_read_on r pc e -> quiet r h) ->
  (forall r e' pc, In e' (e :: h) -> is_read_on r pc e' -> pc_known (nget (g_req s') r) pc) ->
  LinInv (e :: h) s'.
Proof.
  intros HL (E1 & E2 & E3) Hnc Hnr Hq Hreads. split.
  - intros k v. rewrite E1, E3. apply (li_pckeys _ _ HL).
  - intros k v. rewrite E1, E2. apply (li_parent _ _ HL).
  - intros e0 o n [<-|Hin] Hk0; [exfalso; eapply Hnc; exact Hk0|].
    unfold root. rewrite E1, E2. apply (li_copy _ _ HL _ _ _ Hin Hk0).
  - intros e1 e2 r pc svc a [<-|Hin1] [<-|Hin2] Hro Hk2.
    + exfalso. eapply Hnr. exact Hk2.
    + exfalso. eapply quiet_not_in; [eapply Hq; exact Hro|exact Hin2|]. unfold concerns, req_of. now rewrite Hk2.
    + exfalso. eapply Hnr. exact Hk2.
    + unfold pc_of, root. rewrite E2, E3. exact (li_result _ _ HL _ _ _ _ _ _ Hin1 Hin2 Hro Hk2).
  - exact Hreads.
Qed.

Lemma LinInv_step h s e s' :
  GInv h s -> LinInv h s -> gstep s e = Some s' -> LinInv (e :: h) s'.
Proof.
  intros [_ HR] HL Hstep.
  assert (Hreads : forall r e' pc, In e' (e :: h) -> is_read_on r pc e' -> pc_known (nget (g_req s') r) pc).
  { intros r e' pc [<-|Hin] Hro.
    - destruct Hro as (st & ch & Hk & Hb). unfold gstep in Hstep. rewrite Hk in Hstep. unfold step_read in Hstep.
      rewrite Hb in Hstep. destruct (nget (g_req s) r); [discriminate|]. destruct (_ && _); [|discriminate].
      destruct st; try (injection Hstep as <-; rewrite get_set_req; reflexivity).
      destruct ch; [|discriminate]. injection Hstep as <-. rewrite get_set_req. reflexivity.
    - eapply pc_known_step; [exact Hstep|]. eapply (li_reads _ _ HL); eassumption. }
  assert (Hq : forall r pc, is_read_on r pc e -> quiet r h).
  { intros r pc (st0 & ch0 & Hk0 & Hb0). specialize (HR r). unfold gstep in Hstep. rewrite Hk0 in Hstep.
    unfold step_read in Hstep. rewrite Hb0 in Hstep. destruct (nget (g_req s) r); [discriminate|exact HR]. }
  destruct (e_k e) eqn:Hk;
    try (apply LinInv_same with (s := s); [exact HL|apply (gstep_same_lin _ _ _ Hstep)|..|exact Hq|exact Hreads];
         intros; rewrite Hk; discriminate).
  - (* copy *)
    unfold gstep in Hstep. rewrite Hk in Hstep. unfold step_copy in Hstep.
    destruct (nmem new (g_known s) || Nat.eqb old new) eqn:Echk; [discriminate|].
    apply orb_false_iff in Echk as [Enew Eon]. apply Nat.eqb_neq in Eon.
    assert (Hnew : ~ In new (g_known s)) by (rewrite <- nmem_true; congruence).
    injection Hstep as <-.
    assert (Hnp : nget (g_parent s) new = None).
    { destruct (nget (g_parent s) new) eqn:E; [|reflexivity]. apply (li_parent _ _ HL) in E. tauto. }
    assert (Hroot : forall x, x <> new -> root (mkG (g_cmds s) (g_ctl s) (g_opened s) (g_closed s) (g_ctime s) (g_req s)
                                   (new :: old :: g_known s) (nset (g_parent s) new (root s old)) (g_pc s)) x = root s x).
    { intros x Hx. unfold root. cbn [g_parent]. now rewrite nget_nset_other. }
    assert (Hrold : In (root s old) (old :: g_known s)).
    { unfold root. destruct (nget (g_parent s) old) as [p|] eqn:E; [|now left].
      right. now apply (li_parent _ _ HL) in E. }
    assert (Hrold_ne : root s old <> new).
    { intros E. rewrite E in Hrold. destruct Hrold as [E'|Hin]; [congruence|contradiction]. }
    split.
    + intros k v Hg. cbn [g_pc g_known] in *. right. right. eapply (li_pckeys _ _ HL). exact Hg.
    + intros k v. cbn [g_parent g_known]. rewrite nget_nset. destruct (Nat.eqb k new) eqn:E.
      * apply Nat.eqb_eq in E. subst k. intros Hv. injection Hv as <-. split; [now left|]. split; [now right|].
        rewrite nget_nset_other by exact Hrold_ne.
        unfold root. destruct (nget (g_parent s) old) as [p|] eqn:Ep; [|exact Ep].
        now apply (li_parent _ _ HL) in Ep.
      * intros Hv. apply (li_parent _ _ HL) in Hv as (A & B & C). split; [now right; right|]. split; [now right; right|].
        rewrite nget_nset_other; [exact C|]. intros ->. contradiction.
    + intros e0 o n [<-|Hin] Hk0.
      * rewrite Hk in Hk0. injection Hk0 as <- <-. split.
        -- rewrite (Hroot old) by exact Eon. unfold root at 1. cbn [g_parent]. now rewrite nget_nset_same.
        -- cbn [g_known]. split; [right; now left|now left].
      * destruct (li_copy _ _ HL _ _ _ Hin Hk0) as (A & B & C). cbn [g_known].
        split; [|split; now right; right].
        rewrite !Hroot; [exact A| |]; intros ->; contradiction.
    + intros e1 e2 r pc svc a [<-|Hin1] [<-|Hin2] Hro Hk2; try (rewrite Hk in Hk2; discriminate).
      * destruct Hro as (st0 & ch0 & Hk0 & _). rewrite Hk in Hk0. discriminate.
      * pose proof (li_result _ _ HL _ _ _ _ _ _ Hin1 Hin2 Hro Hk2) as Hpc.
        unfold pc_of. cbn [g_pc]. rewrite Hroot; [exact Hpc|]. intros ->.
        unfold pc_of, root in Hpc. rewrite Hnp in Hpc. apply (li_pckeys _ _ HL) in Hpc. contradiction.
    + exact Hreads.
  - (* result *)
    unfold gstep in Hstep. rewrite Hk in Hstep. unfold step_result in Hstep.
    destruct (e_by e) as [r0| | |] eqn:Eby; try discriminate.
    destruct (Nat.eqb r r0) eqn:Er; [|discriminate]. apply Nat.eqb_eq in Er. subst r0.
    assert (Hcase : exists pcr s1, bind_pc s svc pcr = Some s1 /\ phase_pc (nget (g_req s) r) = Some pcr /\
                                   g_known s' = g_known s1 /\ g_parent s' = g_parent s1 /\ g_pc s' = g_pc s1 /\
                                   (forall hw a0 st0, nget (g_req s) r <> Some (PhAnswered hw a0 st0))).
    { destruct (nget (g_req s) r) as [[pc0 st|hd|hd w|pc0 hw a0|]|] eqn:Eph; try discriminate.
      - destruct (gaction_eqb a _); [|discriminate]. destruct (bind_pc s svc pc0) as [s1|] eqn:Hb; [|discriminate].
        injection Hstep as <-. exists pc0, s1. repeat split; try reflexivity; try exact Hb. intros; discriminate.
      - destruct (gaction_eqb a _); [|discriminate]. destruct (bind_pc s svc (h_pc hd)) as [s1|] eqn:Hb; [|discriminate].
        injection Hstep as <-. exists (h_pc hd), s1. repeat split; try reflexivity; try exact Hb. intros; discriminate. }
    destruct Hcase as (pcr & s1 & Hb & Hph & E1 & E2 & E3 & Hna).
    destruct (bind_pc_spec _ _ _ _ Hb) as (B1 & B2 & B3 & B4 & B5).
    assert (Hroot : forall x, root s' x = root s x) by (intros x; unfold root; now rewrite E2, B2).
    assert (Hpcof : forall x, pc_of s' x = pc_of s1 x).
    { intros x. unfold pc_of. rewrite E3. f_equal. unfold root. now rewrite E2. }
    split.
    + intros k v. rewrite E3, E1. intros Hg. apply B5 in Hg as [Hg|[-> Hs]].
      * apply B4. eapply (li_pckeys _ _ HL). exact Hg.
      * unfold root. destruct (nget (g_parent s) svc) as [p|] eqn:Ep; [|exact Hs].
        apply B4. now apply (li_parent _ _ HL) in Ep.
    + intros k v. rewrite E2, B2, E1. intros Hv. apply (li_parent _ _ HL) in Hv as (A & B & C). auto.
    + intros e0 o n [<-|Hin] Hk0; [rewrite Hk in Hk0; discriminate|].
      destruct (li_copy _ _ HL _ _ _ Hin Hk0) as (A & B & C). rewrite !Hroot, E1. auto.
    + intros e1 e2 r1 pc svc1 a1 [<-|Hin1] [<-|Hin2] Hro Hk2.
      * destruct Hro as (st0 & ch0 & Hk0 & _). rewrite Hk in Hk0. discriminate.
      * destruct Hro as (st0 & ch0 & Hk0 & _). rewrite Hk in Hk0. discriminate.
      * rewrite Hk in Hk2. injection Hk2 as <- <- <-.
        pose proof (li_reads _ _ HL _ _ _ Hin1 Hro) as Hkn. unfold pc_known in Hkn.
        destruct (nget (g_req s) r) as [[]|] eqn:Eph; try (exfalso; eapply Hna; reflexivity);
          rewrite Hpcof; congruence.
      * rewrite Hpcof. apply B3. exact (li_result _ _ HL _ _ _ _ _ _ Hin1 Hin2 Hro Hk2).
    + exact Hreads.
Qed.

Lemma LinInv_init : LinInv [] ginit.
Proof.
  split; cbn; intros; try discriminate; try contradiction.
Qed.

Lemma LinInv_run tr s : run gstep ginit tr = Some s -> GInv (rev tr) s /\ LinInv (rev tr) s.
Proof.
  apply (run_inv gstep ginit (fun h s => GInv h s /\ LinInv h s)).
  - split; [|apply LinInv_init]. split; [apply CtlInv_init|]. intros r. cbn. constructor.
  - intros h s0 e s' [HG HL] Hstep. split.
    + destruct HG as [Hc Hr]. split; [eapply CtlInv_step; eassumption|eapply ReqInv_step; eassumption].
    + eapply LinInv_step; eassumption.
Qed.

(** A redeployed copy uses the controller of the object it was copied from:
    whatever requests consult the gate through the old and through the new
    object read the same controller. *)
Theorem redeploy_shares tr s old new e0 e1 e2 e3 e4 r1 r2 pc1 pc2 a1 a2 :
  run gstep ginit tr = Some s ->
  In e0 tr -> e_k e0 = KSvcCopy old new ->
  In e1 tr -> is_read_on r1 pc1 e1 -> In e2 tr -> e_k e2 = KGateResult r1 old a1 ->
  In e3 tr -> is_read_on r2 pc2 e3 -> In e4 tr -> e_k e4 = KGateResult r2 new a2 ->
  pc1 = pc2.
Proof.
  intros Hrun H0 K0 H1 K1 H2 K2 H3 K3 H4 K4. destruct (LinInv_run _ _ Hrun) as [_ HL].
  rewrite in_rev in H0, H1, H2, H3, H4.
  pose proof (li_result _ _ HL _ _ _ _ _ _ H1 H2 K1 K2) as P1.
  pose proof (li_result _ _ HL _ _ _ _ _ _ H3 H4 K3 K4) as P2.
  destruct (li_copy _ _ HL _ _ _ H0 K0) as (Hroot & _).
  unfold pc_of in P1, P2. rewrite Hroot in P2. congruence.
Qed.

(** ... and a redeploy (or any event other than those of the gate itself) leaves the
    controllers and the parked requests exactly as they were. *)
Theorem non_gate_event_inert s e s' :
  gstep s e = Some s' ->
  (forall pc st ch, e_k e <> KGateSet pc st ch) -> (forall c a b fa, e_k e <> KParams c a b fa) ->
  req_of e = None ->
  g_ctl s' = g_ctl s /\ g_closed s' = g_closed s /\ g_ctime s' = g_ctime s /\
  forall r, nget (g_req s') r = nget (g_req s) r.
Proof.
  intros Hstep Hs Hp Hr. destruct (gstep_same_ctl _ _ _ Hstep Hs Hp) as (_ & E2 & E3 & E4).
  split; [exact E2|]. split; [exact E3|]. split; [exact E4|]. intros r. eapply gstep_req_other; [exact Hstep|].
  unfold concerns. rewrite Hr. discriminate.
Qed.

(** * A request moves on only after its gate result "proceed" *)

Definition ResInv (h : trace) (s : gst) : Prop :=
  forall r pc hw a, nget (g_req s) r = Some (PhDone pc hw a) ->
                    exists e svc, In e h /\ e_k e = KGateResult r svc a.

Lemma ResInv_step h s e s' : ResInv h s -> gstep s e = Some s' -> ResInv (e :: h) s'.
Proof.
  intros HI Hstep r pc hw a Hph.
  destruct (concerns_dec r e) as [Hc|Hn].
  2:{ rewrite (gstep_req_other _ _ _ _ Hstep Hn) in Hph. destruct (HI _ _ _ _ Hph) as (e0 & svc & Hin & Hk).
      exists e0, svc. split; [now right|exact Hk]. }
  unfold concerns, req_of in Hc. unfold gstep in Hstep.
  destruct (e_k e) eqn:Hk; try discriminate.
  - injection Hc as ->. unfold step_respond in Hstep.
    destruct (nget (g_req s) r) as [[]|] eqn:E; try discriminate.
    + destruct (match a0 with AStopped => _ | ATimedOut => _ | AProceed => _ end); [|discriminate].
      injection Hstep as <-. rewrite get_set_req in Hph. discriminate.
    + injection Hstep as <-. rewrite get_set_req in Hph. discriminate.
  - injection Hc as ->. unfold step_path in Hstep.
    destruct (nget (g_req s) r) as [[| | |? ? []|]|] eqn:E; try discriminate. injection Hstep as <-.
    destruct (HI _ _ _ _ Hph) as (e0 & svc0 & Hin & Hk0). exists e0, svc0. split; [now right|exact Hk0].
  - destruct (e_by e); try discriminate. injection Hc as ->. unfold step_read in Hstep.
    destruct (nget (g_req s) r) eqn:E; [discriminate|]. destruct (_ && _); [|discriminate].
    destruct st; try (injection Hstep as <-; rewrite get_set_req in Hph; discriminate).
    destruct chan; [|discriminate]. injection Hstep as <-. rewrite get_set_req in Hph. discriminate.
  - destruct (e_by e); try discriminate. injection Hc as ->. unfold step_wake in Hstep.
    destruct (nget (g_req s) r) as [[]|] eqn:E; try discriminate. destruct (_ && _); [|discriminate].
    injection Hstep as <-. rewrite get_set_req in Hph. discriminate.
  - injection Hc as ->. unfold step_result in Hstep. destruct (e_by e); try discriminate.
    destruct (Nat.eqb r r0); [|discriminate].
    destruct (nget (g_req s) r) as [[]|] eqn:E; try discriminate.
    + destruct (gaction_eqb a0 _); [|discriminate]. destruct (bind_pc s svc pc0) as [s1|]; [|discriminate].
      injection Hstep as <-. rewrite get_set_req in Hph. injection Hph as _ _ <-.
      exists e, svc. split; [now left|exact Hk].
    + destruct (gaction_eqb a0 _); [|discriminate]. destruct (bind_pc s svc (h_pc h0)) as [s1|]; [|discriminate].
      injection Hstep as <-. rewrite get_set_req in Hph. injection Hph as _ _ <-.
      exists e, svc. split; [now left|exact Hk].
  - injection Hc as ->. unfold step_path in Hstep.
    destruct (nget (g_req s) r) as [[| | |? ? []|]|] eqn:E; try discriminate. injection Hstep as <-.
    destruct (HI _ _ _ _ Hph) as (e0 & svc0 & Hin & Hk0). exists e0, svc0. split; [now right|exact Hk0].
  - injection Hc as ->. unfold step_path in Hstep.
    destruct (nget (g_req s) r) as [[| | |? ? []|]|] eqn:E; try discriminate. injection Hstep as <-.
    destruct (HI _ _ _ _ Hph) as (e0 & svc0 & Hin & Hk0). exists e0, svc0. split; [now right|exact Hk0].
  - injection Hc as ->. unfold step_path in Hstep.
    destruct (nget (g_req s) r) as [[| | |? ? []|]|] eqn:E; try discriminate. injection Hstep as <-.
    destruct (HI _ _ _ _ Hph) as (e0 & svc0 & Hin & Hk0). exists e0, svc0. split; [now right|exact Hk0].
Qed.

(** Pick, lb-claim, claim and claim-refused of a request come after its gate result "proceed". *)
Theorem path_after_proceed pre e post s r :
  run gstep ginit (pre ++ e :: post) = Some s -> is_path e = true -> req_of e = Some r ->
  exists ev svc, In ev pre /\ e_k ev = KGateResult r svc AProceed.
Proof.
  intros Hrun Hp Hr. apply run_split in Hrun as (s1 & s2 & R1 & S & _).
  assert (HI : ResInv (rev pre) s1).
  { apply (run_inv gstep ginit ResInv) in R1; [exact R1|..].
    - intros r0 pc hw a H. cbn in H. discriminate.
    - intros h0 s0 e0 s0' H0 Hs. eapply ResInv_step; eassumption. }
  assert (Hph : exists pc hw, nget (g_req s1) r = Some (PhDone pc hw AProceed)).
  { unfold is_path in Hp. unfold req_of in Hr. unfold gstep in S.
    destruct (e_k e) eqn:Hk; try discriminate; injection Hr as ->; unfold step_path in S;
      destruct (nget (g_req s1) r) as [[| | |pc hw []|]|]; try discriminate; eauto. }
  destruct Hph as (pc & hw & Hph). destruct (HI _ _ _ _ Hph) as (ev & svc & Hin & Hk).
  exists ev, svc. split; [now apply in_rev|exact Hk].
Qed.

Lemma closer_not_paused h g st : closer h g = Some st -> st <> GPaused.
Proof.
  induction h as [|e h IH]; cbn [closer]; [discriminate|].
  destruct (closer h g) as [st'|]; [intros H; injection H as <-; now apply IH|].
  unfold is_close. destruct (e_k e); try discriminate. destruct chan as [g'|]; [|discriminate].
  destruct (Nat.eqb g g'); [|discriminate]. destruct st0; try discriminate; intros H; injection H as <-; discriminate.
Qed.

(** * The statements of props/C07.v in unfolded form *)

Theorem parked_story_flat tr r e :
  gate_accepts tr = true -> In e tr -> is_pread r e ->
  exists pre held aw mid rest h w a status t3 svc t5 who sb,
    tr = pre ++ ev_read r h :: held ++ ev_wake r h w :: aw ++
         mkEv t3 (AReq r) (KGateResult r svc a) :: mid ++ mkEv t5 who (KRespond r status sb) :: rest /\
    quiet r pre /\ quiet r held /\ quiet r aw /\ pathonly r mid /\ (a = AProceed \/ quiet r mid) /\ quiet r rest /\
    state_at (rev pre) (h_pc h) = GPaused /\ chan_at (rev pre) (h_pc h) = Some (h_gen h) /\
    h_fail h = in_force (rev pre) (h_pc h) /\
    (w_chan w = true -> closer (rev (pre ++ ev_read r h :: held)) (h_gen h) <> None) /\
    (w_chan w = false -> w_t w = h_tread h + h_fail h) /\
    a = (if w_chan w
         then match state_at (rev (pre ++ ev_read r h :: held)) (h_pc h) with GStopped => AStopped | _ => AProceed end
         else ATimedOut) /\
    (a = AStopped -> status = 503) /\ (a = ATimedOut -> status = 504) /\
    (w_chan w = false -> forall tc, close_time (rev (pre ++ ev_read r h :: held)) (h_gen h) = Some tc -> w_t w <= tc) /\
    (a <> AProceed -> sb = []).
Proof.
  intros Hacc Hin Hp.
  destruct (parked_story tr r e Hacc Hin Hp) as (h & w & a & status & pre & held & aw & mid & rest & t3 & svc & t5 & who & sb &
    Htr & Q1 & Q2 & Q3 & P4 & Hq & Q5 & (S1 & S2 & S3) & (W1 & W2 & W3 & W4) & Ha & Hs).
  exists pre, held, aw, mid, rest, h, w, a, status, t3, svc, t5, who, sb.
  repeat (split; [assumption|]).
  split; [rewrite Ha; unfold action_of; now rewrite W3|].
  split; [intros E; rewrite E in Hs; apply Hs|]. split; [intros E; rewrite E in Hs; apply Hs|].
  split; [exact W4|]. unfold status_ok in Hs. destruct a; [intros E; now elim E| |]; intros _; apply Hs.
Qed.

Theorem outcome_cases (w : wake) (hb : trace) (pc g : nat) (a : gaction) :
  a = (if w_chan w then match state_at hb pc with GStopped => AStopped | _ => AProceed end else ATimedOut) ->
  (a = ATimedOut <-> w_chan w = false) /\
  (a = AStopped <-> w_chan w = true /\ state_at hb pc = GStopped) /\
  (a = AProceed <-> w_chan w = true /\ state_at hb pc <> GStopped) /\
  (forall st, w_chan w = true -> closer hb g = Some st -> state_at hb pc = st ->
              (a = AProceed <-> st = GRunning) /\ (a = AStopped <-> st = GStopped)).
Proof.
  intros ->. destruct (w_chan w) eqn:Ew.
  - destruct (state_at hb pc) eqn:Es; (split; [|split; [|split]]); try (intuition congruence).
    all: intros st _ Hc Hst; subst st; apply closer_not_paused in Hc; intuition congruence.
  - split; [|split; [|split]]; try (intuition congruence).
Qed.

Theorem held_between tr r e :
  gate_accepts tr = true -> In e tr -> is_pread r e ->
  exists pre held rest h w,
    tr = pre ++ ev_read r h :: held ++ ev_wake r h w :: rest /\
    forall x, In x held ->
      (forall svc lb, e_k x <> KPick r svc lb) /\ (forall lb t, e_k x <> KLbClaim lb t r) /\
      (forall t, e_k x <> KClaim t r) /\ (forall t, e_k x <> KClaimRefused t r) /\
      (forall st sb, e_k x <> KRespond r st sb) /\ (forall svc a, e_k x <> KGateResult r svc a).
Proof.
  intros Hacc Hin Hp.
  destruct (parked_story tr r e Hacc Hin Hp) as (h & w & a & status & pre & held & aw & mid & rest & t3 & svc & t5 & who & sb &
    Htr & _ & Q2 & _).
  exists pre, held, (aw ++ mkEv t3 (AReq r) (KGateResult r svc a) :: mid ++ mkEv t5 who (KRespond r status sb) :: rest), h, w.
  split; [exact Htr|]. intros x Hx. pose proof (quiet_not_in _ _ _ Q2 Hx) as Hn. unfold concerns, req_of in Hn.
  repeat split; intros; intros Hk; rewrite Hk in Hn; now apply Hn.
Qed.
