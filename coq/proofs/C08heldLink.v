(** C08heldLink.v — requests held by a pause when the stop arrives (corr/C08held.v).

    (1) The gate view: in every trace accepted by model/M5gate.v a request that parked at a paused gate and
        is woken by the channel while the state of its controller is stopped is answered 503 by the proxy
        itself (the answer names no target) and nothing about it is a forwarding event.  Derived from
        [parked_story_flat] (props/C07.v [c07_outcome]).
    (2) The monitor [c08_held_bad] itself, characterised.

    The 503 BODY (render503 of the error-page middleware) is outside the trace views: the events carry the
    status and the serving target only.  It is tied to the code by the byte-for-byte comparison of the
    correspondence run alone. *)
From KP Require Import model.Base model.Html model.Trace model.M5gate corr.C08corr corr.C08held
  proofs.SeqFacts proofs.M5gateFacts.
Local Open Scope N_scope.

(** ** Forwarding events *)

(** event [e] hands request [r] towards a target: pick of a balancer, claim at the balancer, claim at a target
    (accepted or refused) *)
Definition forwards (r : nat) (e : event) : Prop :=
  (exists svc lb, e_k e = KPick r svc lb) \/ (exists lb t, e_k e = KLbClaim lb t r) \/
  (exists t, e_k e = KClaim t r) \/ (exists t, e_k e = KClaimRefused t r).

Definition responds (r : nat) (e : event) (status : N) (sb : str) : Prop := e_k e = KRespond r status sb.

Lemma forwards_concerns r e : forwards r e -> concerns r e.
Proof.
  unfold concerns, req_of.
  intros [(svc & lb & H)|[(lb & t & H)|[(t & H)|(t & H)]]]; now rewrite H.
Qed.

Lemma responds_concerns r e st sb : responds r e st sb -> concerns r e.
Proof. unfold responds, concerns, req_of. now intros ->. Qed.

Lemma result_concerns r e svc a : e_k e = KGateResult r svc a -> concerns r e.
Proof. unfold concerns, req_of. now intros ->. Qed.

Lemma quiet_in r l x : quiet r l -> In x l -> ~ concerns r x.
Proof. unfold quiet. rewrite Forall_forall. auto. Qed.

Lemma quiet_no_forward r l x : quiet r l -> In x l -> ~ forwards r x.
Proof. intros Hq Hx Hf. exact (quiet_in r l x Hq Hx (forwards_concerns r x Hf)). Qed.

Lemma quiet_no_respond r l x st sb : quiet r l -> In x l -> ~ responds r x st sb.
Proof. intros Hq Hx Hf. exact (quiet_in r l x Hq Hx (responds_concerns r x st sb Hf)). Qed.

(** ** The story of a request held when the stop arrived *)

(** [hb]: the history before the wake; the wake is by channel and the state at the wake is stopped *)
Definition stopped_wake (h : hold) (w : wake) (hb : trace) : Prop :=
  w_chan w = true /\ state_at hb (h_pc h) = GStopped.

Lemma held_stopped_story tr r e :
  gate_accepts tr = true -> In e tr -> is_pread r e ->
  exists pre held h w after,
    tr = pre ++ ev_read r h :: held ++ ev_wake r h w :: after /\
    quiet r pre /\ quiet r held /\
    state_at (rev pre) (h_pc h) = GPaused /\ chan_at (rev pre) (h_pc h) = Some (h_gen h) /\
    (stopped_wake h w (rev (pre ++ ev_read r h :: held)) ->
     closer (rev (pre ++ ev_read r h :: held)) (h_gen h) <> None /\
     exists aw t3 svc mid t5 who rest,
       after = aw ++ mkEv t3 (AReq r) (KGateResult r svc AStopped) :: mid ++
               mkEv t5 who (KRespond r 503 []) :: rest /\
       quiet r aw /\ quiet r mid /\ quiet r rest).
Proof.
  intros Ha Hin Hp.
  destruct (parked_story_flat tr r e Ha Hin Hp)
    as (pre & held & aw & mid & rest & h & w & a & status & t3 & svc & t5 & who & sb &
        Htr & Q1 & Q2 & Q3 & P4 & Q4 & Q5 & Hst & Hch & Hfa & Hwc & Hwt & Hact & H503 & H504 & Htie & Hsb).
  exists pre, held, h, w,
    (aw ++ mkEv t3 (AReq r) (KGateResult r svc a) :: mid ++ mkEv t5 who (KRespond r status sb) :: rest).
  split; [exact Htr|]. split; [exact Q1|]. split; [exact Q2|]. split; [exact Hst|]. split; [exact Hch|].
  intros [Hw Hs]. split; [now apply Hwc|].
  rewrite Hw, Hs in Hact. subst a.
  rewrite (H503 eq_refl). rewrite (Hsb ltac:(discriminate)).
  destruct Q4 as [Q4|Q4]; [discriminate Q4|].
  exists aw, t3, svc, mid, t5, who, rest. auto.
Qed.

(** The same, flat: one answer, it is 503, it names no target, and no event of the trace forwards the request. *)
Lemma held_stopped_answer tr r e :
  gate_accepts tr = true -> In e tr -> is_pread r e ->
  exists pre held h w after,
    tr = pre ++ ev_read r h :: held ++ ev_wake r h w :: after /\
    (stopped_wake h w (rev (pre ++ ev_read r h :: held)) ->
     (exists x, In x after /\ responds r x 503 []) /\
     (forall x st sb, In x tr -> responds r x st sb -> In x after /\ st = 503 /\ sb = []) /\
     (forall x, In x tr -> ~ forwards r x) /\
     (forall x svc a, In x tr -> e_k x = KGateResult r svc a -> In x after /\ a = AStopped)).
Proof.
  intros Ha Hin Hp.
  destruct (held_stopped_story tr r e Ha Hin Hp) as (pre & held & h & w & after & Htr & Q1 & Q2 & _ & _ & H).
  exists pre, held, h, w, after. split; [exact Htr|]. intros Hsw.
  destruct (H Hsw) as (_ & aw & t3 & svc & mid & t5 & who & rest & Haf & Q3 & Q4 & Q5).
  assert (Hread : forall x, x = ev_read r h -> ~ forwards r x /\ (forall st sb, ~ responds r x st sb) /\
                                            (forall s a, e_k x <> KGateResult r s a)).
  { intros x ->. split; [|split].
    - intros [(s & lb & E)|[(lb & t & E)|[(t & E)|(t & E)]]]; discriminate E.
    - intros st sb E. discriminate E.
    - intros s a E. discriminate E. }
  assert (Hwake : forall x, x = ev_wake r h w -> ~ forwards r x /\ (forall st sb, ~ responds r x st sb) /\
                                              (forall s a, e_k x <> KGateResult r s a)).
  { intros x ->. split; [|split].
    - intros [(s & lb & E)|[(lb & t & E)|[(t & E)|(t & E)]]]; discriminate E.
    - intros st sb E. discriminate E.
    - intros s a E. discriminate E. }
  (* where an event of the trace can be *)
  assert (Hsplit : forall x, In x tr ->
            In x pre \/ x = ev_read r h \/ In x held \/ x = ev_wake r h w \/ In x aw \/
            x = mkEv t3 (AReq r) (KGateResult r svc AStopped) \/ In x mid \/
            x = mkEv t5 who (KRespond r 503 []) \/ In x rest).
  { intros x Hx. rewrite Htr, Haf in Hx.
    apply in_app_or in Hx. destruct Hx as [Hx|[Hx|Hx]]; [now left|right; left; now symmetry|].
    apply in_app_or in Hx. destruct Hx as [Hx|[Hx|Hx]]; [right; right; now left|right; right; right; left; now symmetry|].
    apply in_app_or in Hx. destruct Hx as [Hx|[Hx|Hx]]; [do 4 right; now left|do 5 right; left; now symmetry|].
    apply in_app_or in Hx. destruct Hx as [Hx|[Hx|Hx]]; [do 6 right; now left|do 7 right; left; now symmetry|].
    do 8 right. exact Hx. }
  assert (Hinaf : forall x, In x aw \/ x = mkEv t3 (AReq r) (KGateResult r svc AStopped) \/ In x mid \/
                            x = mkEv t5 who (KRespond r 503 []) \/ In x rest -> In x after).
  { intros x Hx. rewrite Haf. apply in_or_app.
    destruct Hx as [Hx|[Hx|Hx]]; [now left|right; left; now symmetry|]. right. right.
    apply in_or_app. destruct Hx as [Hx|[Hx|Hx]]; [now left|right; left; now symmetry|]. right. now right. }
  split; [|split; [|split]].
  - exists (mkEv t5 who (KRespond r 503 [])). split; [|reflexivity]. apply Hinaf. do 3 right. now left.
  - intros x st sb Hx Hr.
    destruct (Hsplit x Hx) as [H0|[H0|[H0|[H0|[H0|[H0|[H0|[H0|H0]]]]]]]].
    + exfalso. exact (quiet_no_respond r pre x st sb Q1 H0 Hr).
    + exfalso. exact (proj1 (proj2 (Hread x H0)) st sb Hr).
    + exfalso. exact (quiet_no_respond r held x st sb Q2 H0 Hr).
    + exfalso. exact (proj1 (proj2 (Hwake x H0)) st sb Hr).
    + exfalso. exact (quiet_no_respond r aw x st sb Q3 H0 Hr).
    + subst x. discriminate Hr.
    + exfalso. exact (quiet_no_respond r mid x st sb Q4 H0 Hr).
    + split; [apply Hinaf; do 3 right; now left|]. subst x. unfold responds in Hr. cbn [e_k] in Hr.
      injection Hr as <- <-. split; reflexivity.
    + exfalso. exact (quiet_no_respond r rest x st sb Q5 H0 Hr).
  - intros x Hx Hf.
    destruct (Hsplit x Hx) as [H0|[H0|[H0|[H0|[H0|[H0|[H0|[H0|H0]]]]]]]].
    + exact (quiet_no_forward r pre x Q1 H0 Hf).
    + exact (proj1 (Hread x H0) Hf).
    + exact (quiet_no_forward r held x Q2 H0 Hf).
    + exact (proj1 (Hwake x H0) Hf).
    + exact (quiet_no_forward r aw x Q3 H0 Hf).
    + subst x. destruct Hf as [(s & lb & E)|[(lb & t & E)|[(t & E)|(t & E)]]]; discriminate E.
    + exact (quiet_no_forward r mid x Q4 H0 Hf).
    + subst x. destruct Hf as [(s & lb & E)|[(lb & t & E)|[(t & E)|(t & E)]]]; discriminate E.
    + exact (quiet_no_forward r rest x Q5 H0 Hf).
  - intros x s a Hx Hr. pose proof (result_concerns r x s a Hr) as Hc.
    destruct (Hsplit x Hx) as [H0|[H0|[H0|[H0|[H0|[H0|[H0|[H0|H0]]]]]]]].
    + exfalso. exact (quiet_in r pre x Q1 H0 Hc).
    + exfalso. exact (proj2 (proj2 (Hread x H0)) s a Hr).
    + exfalso. exact (quiet_in r held x Q2 H0 Hc).
    + exfalso. exact (proj2 (proj2 (Hwake x H0)) s a Hr).
    + exfalso. exact (quiet_in r aw x Q3 H0 Hc).
    + split; [apply Hinaf; right; now left|]. subst x. cbn [e_k] in Hr. now injection Hr as _ <-.
    + exfalso. exact (quiet_in r mid x Q4 H0 Hc).
    + subst x. discriminate Hr.
    + exfalso. exact (quiet_in r rest x Q5 H0 Hc).
Qed.

(** ** The monitor *)

Lemma held_bad_from_nil env c m l : forall k,
  held_bad_from env c m l k = [] <-> Forall (fun o => held_req_ok env c m o = true) l.
Proof.
  induction l as [|o l IH]; intros k; cbn [held_bad_from].
  - split; [constructor|reflexivity].
  - destruct (held_req_ok env c m o) eqn:E; cbn [app].
    + rewrite IH. split; [now constructor|]. intros H. now inversion H.
    + split; [discriminate|]. intros H. inversion H; subst. congruence.
Qed.

Lemma c08_held_bad_nil env c m l :
  c08_held_bad env c m l = [] <-> Forall (fun o => held_req_ok env c m o = true) l.
Proof. apply held_bad_from_nil. Qed.

(** the list holds exactly the indices of the wrong answers *)
Lemma held_bad_from_in env c m l : forall k0 k,
  In k (held_bad_from env c m l k0) <->
  exists i o, k = (k0 + i)%nat /\ nth_error l i = Some o /\ held_req_ok env c m o = false.
Proof.
  induction l as [|o l IH]; intros k0 k; cbn [held_bad_from].
  - split; [intros []|]. intros (i & o & _ & H & _). destruct i; discriminate H.
  - rewrite in_app_iff, IH. split.
    + intros [H|(i & o' & -> & Hn & Hb)].
      * destruct (held_req_ok env c m o) eqn:E; [destruct H|]. destruct H as [<-|[]].
        exists 0%nat, o. now rewrite Nat.add_0_r.
      * exists (S i), o'. split; [now rewrite Nat.add_succ_r|]. auto.
    + intros ([|i] & o' & -> & Hn & Hb).
      * left. cbn in Hn. injection Hn as ->. rewrite Hb, Nat.add_0_r. now left.
      * right. exists i, o'. split; [now rewrite Nat.add_succ_r|]. auto.
Qed.

Lemma c08_held_bad_in env c m l k :
  In k (c08_held_bad env c m l) <-> exists o, nth_error l k = Some o /\ held_req_ok env c m o = false.
Proof.
  unfold c08_held_bad. rewrite held_bad_from_in. split.
  - intros (i & o & -> & H). now exists o.
  - intros (o & H). now exists k, o.
Qed.

(** one answer *)
Lemma held_req_ok_iff env c m health status forwarded body :
  held_req_ok env c m (health, status, forwarded, body) = true <->
  forwarded = false /\
  (health = true -> status = 200) /\
  (health = false -> status = 503 /\ body = render503 (e_page env) (custom_of_pages env c) m).
Proof.
  unfold held_req_ok. rewrite andb_true_iff, negb_true_iff. destruct health.
  - rewrite N.eqb_eq. split.
    + intros [H1 H2]. split; [exact H1|]. split; [auto|discriminate].
    + intros (H1 & H2 & _). auto.
  - rewrite andb_true_iff, N.eqb_eq, str_eqb_eq. split.
    + intros [H1 H2]. split; [exact H1|]. split; [discriminate|auto].
    + intros (H1 & _ & H2). auto.
Qed.

Lemma held_req_ok_not_forwarded env c m health status forwarded body :
  held_req_ok env c m (health, status, forwarded, body) = true -> forwarded = false.
Proof. intros H. now apply held_req_ok_iff in H. Qed.

Lemma held_req_ok_503 env c m status forwarded body :
  held_req_ok env c m (false, status, forwarded, body) = true ->
  status = 503 /\ body = render503 (e_page env) (custom_of_pages env c) m.
Proof. intros H. apply held_req_ok_iff in H. now apply H. Qed.

Lemma held_req_ok_health env c m status forwarded body :
  held_req_ok env c m (true, status, forwarded, body) = true -> status = 200.
Proof. intros H. apply held_req_ok_iff in H. now apply H. Qed.

(** ** From the trace to the monitor

    What a respond event of the trace tells about the observed answer: the status, and whether a target
    served it.  [body] is what the client read; the trace does not carry it. *)
Definition obs_of_respond (status : N) (sb : str) (body : str) : held_obs :=
  (false, status, match sb with [] => false | _ :: _ => true end, body).

(** For the answer the gate view guarantees (503, no target) the monitor's verdict is the body comparison
    and nothing else. *)
Lemma held_req_ok_of_trace env c m body :
  held_req_ok env c m (obs_of_respond 503 [] body) =
  str_eqb body (render503 (e_page env) (custom_of_pages env c) m).
Proof. reflexivity. Qed.

(** any other answer fails the monitor whatever the body *)
Lemma held_req_bad_of_trace env c m status sb body :
  status <> 503 \/ sb <> [] -> held_req_ok env c m (obs_of_respond status sb body) = false.
Proof.
  intros H. destruct (held_req_ok env c m (obs_of_respond status sb body)) eqn:E; [|reflexivity].
  unfold obs_of_respond in E. apply held_req_ok_iff in E. destruct E as (Hf & _ & Hs).
  destruct (Hs eq_refl) as [H1 _]. destruct H as [H|H]; [contradiction|]. destruct sb; [contradiction|discriminate].
Qed.
