(** M5timeC03.v — the command-level part of C03 over the timing view
    model/M5time.v: when a command returns, every Drain call it certainly
    started has ended, and a deploy that replaced a balancer has started a
    Drain call for each of its targets.  Joint facts with model/M5full.v
    (what "ended" means for the requests of the snapshot) at the end.
    Theorems: props/C03cmd.v. *)
From Coq Require Import ZifyN ZifyNat ZifyBool.
From KP Require Import model.Base model.Trace model.M5time.
From KP Require Import proofs.M5timeFacts proofs.M5timeFacts2 proofs.M5timeFacts3 proofs.M5timeFacts4
                       proofs.M5timeFacts5 proofs.M5timeFacts6 proofs.M5timeFacts7 proofs.M5timeFacts9.
(* the request-level acceptor: qualified names only (both views define state, step, init, drain, tgt ...) *)
From KP Require model.M5full proofs.M5fullFacts proofs.M5fullInv proofs.M5fullDrain proofs.M5fullDrainFwd.
Local Open Scope N_scope.

(** ** Small facts about the heaps *)

Lemma nmem_In k l : nmem k l = true <-> In k l.
Proof.
  unfold nmem. rewrite existsb_exists. split.
  - intros (x & Hin & Hx). apply Nat.eqb_eq in Hx. subst; exact Hin.
  - intros Hin. exists k. split; [exact Hin|apply Nat.eqb_refl].
Qed.

Lemma nmem_nremove_other k x l : x <> k -> nmem x l = true -> nmem x (nremove k l) = true.
Proof.
  intros Hne. induction l as [|y l IH]; cbn [nremove]; [intros H; exact H|].
  intros H. change (nmem x (y :: l)) with (Nat.eqb x y || nmem x l) in H.
  destruct (Nat.eqb k y) eqn:E.
  - apply Nat.eqb_eq in E; subst y. destruct (Nat.eqb x k) eqn:E2; [apply Nat.eqb_eq in E2; contradiction|].
    cbn [orb] in H. exact (IH H).
  - change (nmem x (y :: nremove k l)) with (Nat.eqb x y || nmem x (nremove k l)).
    destruct (Nat.eqb x y); [reflexivity|]. cbn [orb] in H |- *. exact (IH H).
Qed.

Lemma nget_ndel_other {A} (l : list (nat * A)) k k' : k' <> k -> nget (ndel l k) k' = nget l k'.
Proof.
  intros Hne. induction l as [|[k0 v0] l IH]; cbn [ndel nget]; [reflexivity|].
  destruct (Nat.eqb k k0) eqn:E.
  - apply Nat.eqb_eq in E; subst k0. destruct (Nat.eqb k' k) eqn:E2; [apply Nat.eqb_eq in E2; contradiction|reflexivity].
  - cbn [nget]. destruct (Nat.eqb k' k0); [reflexivity|exact IH].
Qed.

Lemma In_ndel {A} (l : list (nat * A)) k p : In p (ndel l k) -> In p l.
Proof.
  induction l as [|[k0 v0] l IH]; cbn [ndel]; intros H; [exact H|].
  destruct (Nat.eqb k k0); [right; exact H|].
  destruct H as [H|H]; [left; exact H|right; exact (IH H)].
Qed.

Lemma In_nset {A} (l : list (nat * A)) k v k' v' :
  In (k', v') (nset l k v) -> (k' = k /\ v' = v) \/ In (k', v') l.
Proof.
  induction l as [|[k0 v0] l IH]; cbn [nset]; intros H.
  - destruct H as [H|[]]. injection H as <- <-. left; split; reflexivity.
  - destruct (Nat.eqb k k0).
    + destruct H as [H|H]; [injection H as <- <-; left; split; reflexivity|right; right; exact H].
    + destruct H as [H|H]; [right; left; exact H|]. destruct (IH H) as [E|I]; [left; exact E|right; right; exact I].
Qed.

(** keys of a heap *)
Definition keys {A} (l : list (nat * A)) : list nat := map fst l.

Lemma keys_nset_in {A} (l : list (nat * A)) k v v0 : nget l k = Some v0 -> keys (nset l k v) = keys l.
Proof.
  unfold keys. induction l as [|[k0 w] l IH]; cbn [nset nget map fst]; [discriminate|].
  destruct (Nat.eqb k k0) eqn:E; cbn [map fst].
  - apply Nat.eqb_eq in E; subst k0. reflexivity.
  - intros H. rewrite (IH H). reflexivity.
Qed.

Lemma keys_nset_fresh {A} (l : list (nat * A)) k v : nget l k = None -> keys (nset l k v) = keys l ++ [k].
Proof.
  unfold keys. induction l as [|[k0 w] l IH]; cbn [nset nget map fst app]; [reflexivity|].
  destruct (Nat.eqb k k0) eqn:E; [discriminate|]. cbn [map fst]. intros H. rewrite (IH H). reflexivity.
Qed.

Lemma nget_none_keys {A} (l : list (nat * A)) k : nget l k = None -> ~ In k (keys l).
Proof.
  unfold keys. induction l as [|[k0 w] l IH]; cbn [nget map fst]; [intros _ []|].
  destruct (Nat.eqb k k0) eqn:E; [discriminate|]. intros H [H1|H1].
  - subst k0. rewrite Nat.eqb_refl in E. discriminate.
  - exact (IH H H1).
Qed.

Lemma nodup_nget {A} (l : list (nat * A)) k v : NoDup (keys l) -> In (k, v) l -> nget l k = Some v.
Proof.
  unfold keys. induction l as [|[k0 w] l IH]; cbn [nget map fst]; intros Hnd Hin; [destruct Hin|].
  inversion Hnd as [|? ? Hnot Hnd']; subst.
  destruct Hin as [Hin|Hin].
  - injection Hin as -> ->. rewrite Nat.eqb_refl. reflexivity.
  - destruct (Nat.eqb k k0) eqn:E.
    + apply Nat.eqb_eq in E; subst k0. exfalso. apply Hnot. apply in_map_iff. exists (k, v). split; [reflexivity|exact Hin].
    + exact (IH Hnd' Hin).
Qed.

(** ** What an own step of a command does to its record *)

Definition quiet_phase (ph : phase) : Prop :=
  match ph with PInstalled _ | PDone => False | _ => True end.

(** [own_rel st c cm e cm']: the record [cm] of command [c] becomes [cm'] by its own step [e] *)
Definition own_rel (st : state) (c : nat) (cm : cmd) (e : event) (cm' : cmd) : Prop :=
  c_drt cm' = c_drt cm /\
  ((c_phase cm' = c_phase cm /\ c_pending cm' = c_pending cm /\ c_repl cm' = c_repl cm) \/
   (exists lb rep sv, c_phase cm = PSlot lb rep /\ e_k e = KInstall sv true /\ c_phase cm' = PInstalled rep /\
      c_repl cm' = c_repl cm /\
      c_pending cm' = match rep with Some old => lb_targets st old | None => [] end) \/
   (exists old, c_phase cm = PInstalled (Some old) /\ c_phase cm' = PDone /\ cont_ok st c cm = true /\
      c_pending cm' = c_pending cm /\ c_repl cm' = c_repl cm) \/
   (c_pending cm' = c_pending cm /\ (in_drain_phase cm = true -> cont_ok st c cm = true) /\
    quiet_phase (c_phase cm') /\ forall old, c_phase cm <> PInstalled (Some old))).

Ltac own_rel_goal :=
  unfold own_rel;
  cbn [stepped set_pending set_disp set_new set_repl set_last set_alt
       c_phase c_kind c_issue c_dt c_drt c_new c_repl c_pending];
  split; [reflexivity|];
  first
    [ left; repeat split; congruence
    | right; left; eexists _, _, _; repeat split; (reflexivity || eassumption)
    | right; right; left; eexists; repeat split; (reflexivity || eassumption)
    | right; right; right; unfold in_drain_phase, quiet_phase;
      repeat match goal with H : c_phase _ = _ |- _ => rewrite H end; cbn [c_phase];
      repeat split; try exact I; try reflexivity; try (intros; discriminate); try (intros; assumption) ].

Lemma own_step_rel p st c cm e s' :
  own_step p st c cm e = Some s' ->
  cmds s' = cmds st \/ exists cm', cmds s' = nset (cmds st) c cm' /\ own_rel st c cm e cm'.
Proof.
  unfold own_step.
  destruct (own_time_ok st cm (e_t e)); cbn [negb]; [|discriminate].
  destruct (e_k e) eqn:Hk.
  all: try (inv_some; left; frame3).
  all: destruct (disp_ok st cm); cbn [negb]; [|discriminate].
  all: destruct (tc_ok st cm _ (e_t e)); cbn [negb]; [|discriminate].
  all: destruct (is_gate (c_phase cm) && negb (cont_ok st c cm)) eqn:Hg; [discriminate|].
  all: cbv zeta.
  all: destruct (c_phase cm) eqn:Hph; cbn [is_gate andb negb] in Hg; cbv beta iota.
  all: try (apply negb_false_iff in Hg).
  all: repeat match goal with
              | |- (match ?x with _ => _ end) = Some _ -> _ => destruct x eqn:?
              | |- (if ?x then _ else _) = Some _ -> _ => destruct x eqn:?
              end.
  all: try (inv_some; fail).
  all: inv_some.
  all: right; eexists; split;
       [unfold put; cbn [cmds upd_cmds upd_svcs];
        rewrite ?(proj1 (mark_disposed_frame _ _));
        try match goal with H : new_lb _ _ _ _ = Some _ |- _ => rewrite (proj1 (new_lb_frame _ _ _ _ _ H)) end;
        reflexivity|].
  all: repeat match goal with
              | H : _ && _ = true |- _ => apply andb_prop in H; destruct H
              end.
  all: try (own_rel_goal; fail).
  - (* KReturn from PInstalled: only with nothing replaced *)
    destruct replaced as [old|]; [|own_rel_goal].
    exfalso. unfold return_ok in H0.
    destruct r; destruct (is_deploy (c_kind cm)); destruct (is_pause_stop (c_kind cm)); discriminate.
  - destruct ok; own_rel_goal.
  - destruct (is_pause_stop (c_kind cm)); own_rel_goal.
Qed.

(** ** What one step of the view does to the command records and the open Drain calls *)

Definition same_core (cm cm' : cmd) : Prop :=
  c_phase cm' = c_phase cm /\ c_pending cm' = c_pending cm /\ c_repl cm' = c_repl cm /\ c_drt cm' = c_drt cm.

Lemma same_core_refl cm : same_core cm cm.
Proof. repeat split. Qed.

Lemma same_core_trans a b c : same_core a b -> same_core b c -> same_core a c.
Proof. unfold same_core. intros (A1 & A2 & A3 & A4) (B1 & B2 & B3 & B4). repeat split; congruence. Qed.

(** the same keys, every record the same up to its timing fields *)
Definition core_ext (l l' : list (nat * cmd)) : Prop :=
  keys l' = keys l /\
  forall c, match nget l c with
            | Some cm => exists cm', nget l' c = Some cm' /\ same_core cm cm'
            | None => nget l' c = None
            end.

Lemma core_ext_refl l : core_ext l l.
Proof. split; [reflexivity|]. intros c. destruct (nget l c) as [cm|]; [exists cm; split; [reflexivity|apply same_core_refl]|reflexivity]. Qed.

Lemma core_ext_trans a b c : core_ext a b -> core_ext b c -> core_ext a c.
Proof.
  intros [K1 H1] [K2 H2]. split; [congruence|]. intros k. specialize (H1 k).
  destruct (nget a k) as [cm|].
  - destruct H1 as (cm1 & G1 & S1). specialize (H2 k). rewrite G1 in H2. destruct H2 as (cm2 & G2 & S2).
    exists cm2. split; [exact G2|exact (same_core_trans _ _ _ S1 S2)].
  - specialize (H2 k). rewrite H1 in H2. exact H2.
Qed.

Lemma core_ext_nset l c cm cm' : nget l c = Some cm -> same_core cm cm' -> core_ext l (nset l c cm').
Proof.
  intros Hg Hs. split; [exact (keys_nset_in _ _ _ _ Hg)|].
  intros k. rewrite nget_nset. destruct (Nat.eqb k c) eqn:E.
  - apply Nat.eqb_eq in E; subst k. rewrite Hg. exists cm'. split; [reflexivity|exact Hs].
  - destruct (nget l k) as [cm0|]; [exists cm0; split; [reflexivity|apply same_core_refl]|reflexivity].
Qed.

Lemma notify_core st d t cs : notify st d t = Some cs -> core_ext (cmds st) cs.
Proof.
  unfold notify. generalize (cmds st) as l. generalize (d_owners d) as os.
  induction os as [|o os IH]; intros l; cbn [fold_left].
  - intros H; injection H as <-; apply core_ext_refl.
  - destruct (notify_one st d t (Some l) o) as [l1|] eqn:E.
    + intros H. eapply core_ext_trans; [|exact (IH _ H)].
      unfold notify_one in E. destruct (nget l (fst o)) as [cm|] eqn:Hg; [|injection E as <-; apply core_ext_refl].
      destruct (negb (in_drain_phase cm)); [injection E as <-; apply core_ext_refl|].
      destruct (parks st || _); [|discriminate]. injection E as <-.
      apply core_ext_nset with cm; [exact Hg|]. destruct (snd o); repeat split.
    + intros H. exfalso. clear -H. induction os as [|o' os IH]; cbn [fold_left] in H; [discriminate|]. apply IH; exact H.
Qed.

Lemma keys_clear_pending cs who t : keys (clear_pending cs who t) = keys cs.
Proof.
  unfold keys, clear_pending. rewrite map_map. apply map_ext. intros [c cm]. cbn [fst snd].
  destruct (nmem c who); reflexivity.
Qed.

(** the owners of a Drain call, as the step at its KDrainBegin records them *)
Definition begin_owners (s : state) (t : nat) (now timeout : N) : list (nat * bool) :=
  match candidates s t now timeout with
  | [] => []
  | [c] => [(c, certain s t c)]
  | cs => map (fun c => (c, false)) cs
  end.

Definition owners_sub (ds' ds : list (nat * drain)) : Prop :=
  forall g d', In (g, d') ds' -> exists d, In (g, d) ds /\ d_owners d' = d_owners d.

Lemma owners_sub_refl ds : owners_sub ds ds.
Proof. intros g d H. exists d. split; [exact H|reflexivity]. Qed.

Lemma owners_sub_trans a b c : owners_sub a b -> owners_sub b c -> owners_sub a c.
Proof.
  intros H1 H2 g d Hin. destruct (H1 _ _ Hin) as (d1 & I1 & E1). destruct (H2 _ _ I1) as (d2 & I2 & E2).
  exists d2. split; [exact I2|congruence].
Qed.

Lemma owners_sub_done ds t rs now : owners_sub (drains_done_req ds t rs now) ds.
Proof.
  intros g d' Hin. unfold drains_done_req in Hin. apply in_map_iff in Hin. destruct Hin as ([g0 d] & E & Hin).
  cbn [fst snd] in E. injection E as -> <-. exists d. split; [exact Hin|].
  unfold drain_done_req. destruct (_ && _); reflexivity.
Qed.

Lemma owners_sub_nset ds g d d' : nget ds g = Some d -> d_owners d' = d_owners d -> owners_sub (nset ds g d') ds.
Proof.
  intros Hg Ho g0 d0 Hin. apply In_nset in Hin. destruct Hin as [[-> ->]|Hin].
  - exists d. split; [exact (nget_In _ _ _ Hg)|exact Ho].
  - exists d0. split; [exact Hin|reflexivity].
Qed.

Inductive shape (s : state) (e : event) (s' : state) : Prop :=
| Sh_same : cmds s' = cmds s -> owners_sub (drains s') (drains s) -> shape s e s'
| Sh_own c cm cm' :
    e_by e = ACmd c -> nget (cmds s) c = Some cm -> cmds s' = nset (cmds s) c cm' -> own_rel s c cm e cm' ->
    drains s' = drains s -> (forall t o tm, e_k e <> KDrainBegin t o tm) -> shape s e s'
| Sh_new c cm' :
    nget (cmds s) c = None -> cmds s' = nset (cmds s) c cm' ->
    c_phase cm' = PNew -> c_pending cm' = [] -> c_repl cm' = None -> drains s' = drains s ->
    (forall t o tm, e_k e <> KDrainBegin t o tm) -> shape s e s'
| Sh_params c cm cm' dt drt fa :
    e_k e = KParams c dt drt fa -> nget (cmds s) c = Some cm -> c_phase cm = PNew -> cmds s' = nset (cmds s) c cm' ->
    c_phase cm' = PStart -> c_pending cm' = [] -> c_repl cm' = c_repl cm -> c_drt cm' = drt ->
    drains s' = drains s -> shape s e s'
| Sh_core c cm cm' :
    nget (cmds s) c = Some cm -> cmds s' = nset (cmds s) c cm' -> same_core cm cm' -> drains s' = drains s ->
    (forall t o tm, e_k e <> KDrainBegin t o tm) -> shape s e s'
| Sh_begin t orig timeout :
    e_k e = KDrainBegin t orig timeout ->
    cmds s' = clear_pending (cmds s) (candidates s t (e_t e) timeout) t ->
    (drains s' = drains s \/
     (orig <> TDraining /\ nget (drains s) (goid (e_by e)) = None /\
      drains s' = nset (drains s) (goid (e_by e))
                    (mkD t (e_t e) timeout None [] (e_t e) false None (begin_owners s t (e_t e) timeout)))) ->
    shape s e s'
| Sh_end d :
    nget (drains s) (goid (e_by e)) = Some d -> core_ext (cmds s) (cmds s') ->
    drains s' = ndel (drains s) (goid (e_by e)) -> shape s e s'.

Lemma shape_own p st0 x c cm e s' :
  nget (cmds st0) c = Some cm -> e_by e = ACmd c -> (forall t o tm, e_k e <> KDrainBegin t o tm) ->
  own_step p (upd_clock st0 x) c cm e = Some s' -> shape st0 e s'.
Proof.
  intros Hc Hby Hk H. destruct (own_step_frame _ _ _ _ _ _ H) as (_ & _ & Fd & _).
  destruct (own_step_rel _ _ _ _ _ _ H) as [E|(cm' & E & R)].
  - apply Sh_same; [exact E|]. rewrite Fd. apply owners_sub_refl.
  - eapply Sh_own; [exact Hby|exact Hc|exact E|exact R|exact Fd|exact Hk].
Qed.

Lemma shape_frame st0 x e s' :
  cmds s' = cmds (upd_clock st0 x) -> drains s' = drains (upd_clock st0 x) -> shape st0 e s'.
Proof. intros Hc Hd. apply Sh_same; [exact Hc|]. rewrite Hd. apply owners_sub_refl. Qed.

Lemma step_shape p st0 e s' : step_gen p st0 e = Some s' -> shape st0 e s'.
Proof.
  unfold step_gen.
  destruct (e_t e <? clock st0); [discriminate|].
  set (st := upd_clock st0 (e_t e)) in *. cbv zeta.
  assert (Hown : forall c cm, nget (cmds st0) c = Some cm -> e_by e = ACmd c -> (forall t o tm, e_k e <> KDrainBegin t o tm) ->
                              own_step p st c cm e = Some s' -> shape st0 e s').
  { intros c cm. apply shape_own. }
  assert (Hfr : forall s1, cmds s1 = cmds st -> drains s1 = drains st -> shape st0 e s1).
  { intros s1. apply shape_frame. }
  destruct (e_k e) eqn:Hk.
  all: try (destruct (e_by e) eqn:Hby;
            [inv_some; apply Hfr; reflexivity
            |destruct (nget (cmds st) c) eqn:Hc;
             [intros H; eapply Hown; [exact Hc|reflexivity|intros ? ? ?; discriminate|exact H]|inv_some; apply Hfr; reflexivity]
            |inv_some; apply Hfr; reflexivity|inv_some; apply Hfr; reflexivity]; fail).
  all: try (step_destruct; try (inv_some; fail); inv_some; apply Hfr; reflexivity).
  - (* KIssue *)
    destruct (nget (cmds st) c) eqn:Hc; [discriminate|]. inv_some.
    eapply Sh_new with (c := c); [exact Hc|reflexivity|reflexivity|reflexivity|reflexivity|reflexivity|intros ? ? ?; first [discriminate|rewrite Hk; discriminate]].
  - (* KParams *)
    destruct (nget (cmds st) c) as [cm|] eqn:Hc; [|discriminate].
    destruct (c_phase cm) eqn:Hph; try discriminate.
    destruct (own_time_ok st cm (e_t e)); [|discriminate]. inv_some.
    eapply Sh_params; [exact Hk|exact Hc|exact Hph|reflexivity|reflexivity|reflexivity|reflexivity|reflexivity|reflexivity].
  - (* KReturn *)
    destruct (nget (cmds st) c) as [cm|] eqn:Hc; [|discriminate].
    destruct (actor_eqb (e_by e) (ACmd c)) eqn:Ha; [|discriminate]. apply actor_eqb_eq in Ha.
    intros H. eapply Hown; [exact Hc|exact Ha|intros ? ? ?; first [discriminate|rewrite Hk; discriminate]|exact H].
  - (* KLbNew *)
    destruct (e_by e) eqn:Hby;
      [|destruct (nget (cmds st) c) eqn:Hc; [intros H; eapply Hown; [exact Hc|reflexivity|intros ? ? ?; first [discriminate|rewrite Hk; discriminate]|exact H]|inv_some]| |];
      intros H; destruct (new_lb_frame _ _ _ _ _ H) as (F1 & F2 & _); apply Hfr; assumption.
  - (* KLbDispose *)
    destruct (e_by e) eqn:Hby;
      [|destruct (nget (cmds st) c) eqn:Hc; [intros H; eapply Hown; [exact Hc|reflexivity|intros ? ? ?; first [discriminate|rewrite Hk; discriminate]|exact H]|inv_some]| |];
      inv_some; apply Hfr; frame3.
  - (* KEnd *)
    inv_some. apply Sh_same; [destruct (nget (tgts _) t); reflexivity|].
    cbn [drains upd_drains]. eapply owners_sub_trans; [apply owners_sub_done|].
    destruct (nget (tgts _) t); apply owners_sub_refl.
  - (* KWaiter *)
    destruct (nget (tgts st) t) as [x|]; [|discriminate].
    destruct (t_wait x); [discriminate|].
    destruct (nget (lbs st) (t_lb x)) as [l|]; [|discriminate].
    destruct (l_owner l) as [c|]; [|discriminate].
    destruct (nget (cmds st) c) as [cm|] eqn:Hc; [|discriminate].
    destruct (c_phase cm) eqn:Hph; try discriminate.
    destruct (_ && _); [|discriminate]. inv_some.
    eapply Sh_core with (c := c); [exact Hc|reflexivity|repeat split|reflexivity|intros ? ? ?; first [discriminate|rewrite Hk; discriminate]].
  - (* KProbeStop *)
    destruct (e_by e) eqn:Hby;
      [|destruct (nget (cmds st) c) eqn:Hc; [intros H; eapply Hown; [exact Hc|reflexivity|intros ? ? ?; first [discriminate|rewrite Hk; discriminate]|exact H]|inv_some]| |];
      inv_some; apply Hfr; frame3.
  - (* KStateSet: restore *)
    destruct (nget (drains st) (goid (e_by e))) as [d|] eqn:Hd; [|inv_some; apply Hfr; reflexivity].
    destruct (d_cancel d); [|discriminate]. destruct (tstate_eqb _ _) eqn:Hnd; [discriminate|]. destruct (_ && _); [|discriminate].
    destruct (notify st d (e_t e)) as [cs|] eqn:Hn; [|discriminate]. inv_some.
    eapply Sh_end; [exact Hd|exact (notify_core _ _ _ _ Hn)|reflexivity].
  - (* KDrainBegin *)
    destruct orig.
    all: try (destruct (nget (drains st) (goid (e_by e))) eqn:Hd; [discriminate|]).
    all: try (destruct (candidates st t (e_t e) timeout) as [|c0 [|c1 cs]] eqn:Hcand; [destruct (parks st); [|discriminate]|..]).
    all: inv_some.
    all: eapply Sh_begin;
           [exact Hk
           |first [reflexivity
                  |change (candidates st0 t (e_t e) timeout) with (candidates st t (e_t e) timeout); rewrite Hcand; reflexivity]|].
    all: try (left; reflexivity).
    all: right; (split; [discriminate|]); (split; [exact Hd|]);
         unfold begin_owners; change (candidates st0 t (e_t e) timeout) with (candidates st t (e_t e) timeout);
         rewrite Hcand; reflexivity.
  - (* KDrainSnapshot *)
    destruct (nget (drains st) (goid (e_by e))) as [d|] eqn:Hd; [|discriminate].
    destruct (d_snap d); [discriminate|]. destruct (_ && _); [|discriminate]. inv_some.
    apply Sh_same; [reflexivity|]. eapply owners_sub_nset; [exact Hd|reflexivity].
  - (* KDrainDeadline *)
    destruct (nget (drains st) (goid (e_by e))) as [d|] eqn:Hd; [|discriminate].
    destruct (d_snap d); [|discriminate]. destruct (d_cancel d); [discriminate|].
    destruct (_ && _); [|discriminate]. inv_some.
    apply Sh_same; [reflexivity|]. eapply owners_sub_nset; [exact Hd|reflexivity].
  - (* KDrainCancelRest *)
    destruct (nget (drains st) (goid (e_by e))) as [d|] eqn:Hd; [|discriminate].
    destruct (d_snap d) as [sn|]; [|discriminate]. destruct (d_cancel d); [discriminate|].
    destruct (_ && _); [|discriminate]. inv_some.
    apply Sh_same; [destruct (nget (tgts _) t); reflexivity|].
    unfold set_drain. cbn [drains upd_drains].
    assert (Hsub : forall rs, owners_sub (nset (drains_done_req (drains st) t rs (e_t e)) (goid (e_by e))
                     (mkD t (d_mark d) (d_timeout d) (Some sn) [] (e_t e) (d_hit d) (Some (e_t e)) (d_owners d))) (drains st)).
    { intros rs g0 d0 Hin. apply In_nset in Hin. destruct Hin as [[-> ->]|Hin].
      - exists d. split; [exact (nget_In _ _ _ Hd)|reflexivity].
      - exact (owners_sub_done _ _ _ _ _ _ Hin). }
    destruct (nget (tgts _) t); apply Hsub.
Qed.

(** ** Invariants *)

(** (K) no command id twice *)
Lemma NoDup_snoc {A} (l : list A) x : NoDup l -> ~ In x l -> NoDup (l ++ [x]).
Proof.
  induction l as [|y l IH]; cbn [app]; intros Hnd Hni.
  - constructor; [intros []|constructor].
  - inversion Hnd as [|? ? Hy Hl]; subst. constructor.
    + intros Hin. apply in_app_or in Hin. destruct Hin as [Hin|[->|[]]]; [exact (Hy Hin)|apply Hni; left; reflexivity].
    + apply IH; [exact Hl|intros Hin; apply Hni; right; exact Hin].
Qed.

Definition invK (s : state) : Prop := NoDup (keys (cmds s)).

Lemma shape_invK s e s' : shape s e s' -> invK s -> invK s'.
Proof.
  unfold invK. intros Hsh Hk.
  destruct Hsh as [Ec _|c cm cm' _ Hc Ec _ _ _|c cm' Hc Ec _ _ _ _ _|c cm cm' dt drt fa _ Hc _ Ec _ _ _ _ _
                  |c cm cm' Hc Ec _ _ _|t orig timeout _ Ec _|d _ [Ek _] _]; rewrite ?Ec.
  - exact Hk.
  - rewrite (keys_nset_in _ _ _ _ Hc). exact Hk.
  - rewrite (keys_nset_fresh _ _ _ Hc). apply NoDup_snoc; [exact Hk|exact (nget_none_keys _ _ Hc)].
  - rewrite (keys_nset_in _ _ _ _ Hc). exact Hk.
  - rewrite (keys_nset_in _ _ _ _ Hc). exact Hk.
  - rewrite keys_clear_pending. exact Hk.
  - rewrite Ek. exact Hk.
Qed.

(** (A) a command still expects Drain calls only while it is in its drain phase after an install *)
Definition pend_ok (cm : cmd) : Prop := c_pending cm = [] \/ exists old, c_phase cm = PInstalled (Some old).

Definition invA (s : state) : Prop := forall c cm, nget (cmds s) c = Some cm -> pend_ok cm.

Lemma cont_ok_spec st c cm :
  cont_ok st c cm = true -> c_pending cm = [] /\ forall g d, In (g, d) (drains st) -> owns c d = false.
Proof.
  unfold cont_ok. intros H. apply andb_prop in H. destruct H as [H1 H2]. split.
  - destruct (c_pending cm); [reflexivity|discriminate].
  - intros g d Hin. rewrite forallb_forall in H2. specialize (H2 _ Hin). cbn [snd] in H2.
    destruct (owns c d); [discriminate|reflexivity].
Qed.

Lemma pend_ok_core cm cm' : same_core cm cm' -> pend_ok cm -> pend_ok cm'.
Proof. intros (P & Q & _ & _) [H|(old & H)]; [left; congruence|right; exists old; congruence]. Qed.

Lemma own_rel_pend st c cm e cm' : own_rel st c cm e cm' -> pend_ok cm -> pend_ok cm'.
Proof.
  intros (_ & [(P & Q & _)|[(lb & rep & sv & P & _ & P' & _ & Q)|[(old & P & P' & C & Q & _)|(Q & _ & _ & N)]]]) Hok.
  - destruct Hok as [H|(old & H)]; [left; congruence|right; exists old; congruence].
  - destruct rep as [old|]; [right; exists old; exact P'|left; exact Q].
  - left. rewrite Q. exact (proj1 (cont_ok_spec _ _ _ C)).
  - destruct Hok as [H|(old & H)]; [left; congruence|exfalso; exact (N _ H)].
Qed.

Lemma shape_invA s e s' : shape s e s' -> invA s -> invA s'.
Proof.
  intros Hsh HA k cmk.
  destruct Hsh as [Ec _|c cm cm' _ Hc Ec R _ _|c cm' Hc Ec P Q _ _ _|c cm cm' dt drt fa _ Hc _ Ec P Q _ _ _
                  |c cm cm' Hc Ec R _ _|t orig timeout _ Ec _|d _ [_ Ex] _]; rewrite ?Ec.
  - apply HA.
  - rewrite nget_nset. destruct (Nat.eqb k c) eqn:E; [|apply HA].
    intros H; injection H as <-. exact (own_rel_pend _ _ _ _ _ R (HA _ _ Hc)).
  - rewrite nget_nset. destruct (Nat.eqb k c) eqn:E; [|apply HA]. intros H; injection H as <-. left; exact Q.
  - rewrite nget_nset. destruct (Nat.eqb k c) eqn:E; [|apply HA]. intros H; injection H as <-. left; exact Q.
  - rewrite nget_nset. destruct (Nat.eqb k c) eqn:E; [|apply HA].
    intros H; injection H as <-. exact (pend_ok_core _ _ R (HA _ _ Hc)).
  - rewrite nget_clear_pending. destruct (nget (cmds s) k) as [cm|] eqn:Hg; [|discriminate].
    intros H; injection H as <-. specialize (HA _ _ Hg). destruct (nmem k _); [|exact HA].
    destruct HA as [H|(old & H)]; [left; cbn; rewrite H; reflexivity|right; exists old; exact H].
  - intros Hg. specialize (Ex k). destruct (nget (cmds s) k) as [cm|] eqn:Hg0.
    + destruct Ex as (cm' & G & S). rewrite G in Hg; injection Hg as <-. exact (pend_ok_core _ _ S (HA _ _ Hg0)).
    + rewrite Ex in Hg; discriminate.
Qed.

(** (B) an open Drain call is certainly owned only by commands in their drain phase *)
Definition invB (s : state) : Prop :=
  forall g d c, In (g, d) (drains s) -> owns c d = true ->
  exists cm, nget (cmds s) c = Some cm /\ in_drain_phase cm = true.

Lemma owns_owners c d d' : d_owners d' = d_owners d -> owns c d' = owns c d.
Proof. unfold owns. intros ->. reflexivity. Qed.

Lemma in_drain_core cm cm' : same_core cm cm' -> in_drain_phase cm' = in_drain_phase cm.
Proof. intros (P & _). unfold in_drain_phase. rewrite P. reflexivity. Qed.

Lemma owns_all_false c cs d :
  d_owners d = map (fun c0 : nat => (c0, false)) cs -> owns c d = false.
Proof.
  unfold owns. intros ->. induction cs as [|c0 cs IH]; cbn [map existsb fst snd]; [reflexivity|].
  rewrite andb_false_r. exact IH.
Qed.

Lemma certain_drain_phase s t c :
  invA s -> certain s t c = true -> exists cm, nget (cmds s) c = Some cm /\ in_drain_phase cm = true.
Proof.
  unfold certain. intros HA H. destruct (nget (cmds s) c) as [cm|] eqn:Hc; [|discriminate].
  exists cm. split; [reflexivity|]. unfold in_drain_phase.
  destruct (HA _ _ Hc) as [P|(old & P)].
  - rewrite P in H. destruct (c_phase cm); try discriminate. reflexivity.
  - rewrite P. reflexivity.
Qed.

Lemma begin_owners_certain s t now timeout c d :
  d_owners d = begin_owners s t now timeout -> owns c d = true -> certain s t c = true.
Proof.
  unfold begin_owners. destruct (candidates s t now timeout) as [|c0 [|c1 cs]] eqn:Hc; intros Ho.
  - unfold owns. rewrite Ho. discriminate.
  - unfold owns. rewrite Ho. cbn [existsb fst snd]. rewrite orb_false_r. intros H.
    apply andb_prop in H. destruct H as [H1 H2]. apply Nat.eqb_eq in H1. subst c0. exact H2.
  - rewrite (owns_all_false c _ d Ho). discriminate.
Qed.

Lemma shape_invB s e s' : shape s e s' -> invA s -> invB s -> invB s'.
Proof.
  intros Hsh HA HB g d' k Hin Ho.
  destruct Hsh as [Ec Hs|c cm cm' _ Hc Ec R Ed _|c cm' Hc Ec _ _ _ Ed _|c cm cm' dt drt fa _ Hc P Ec _ _ _ _ Ed
                  |c cm cm' Hc Ec R Ed _|t orig timeout _ Ec Hd|d _ [_ Ex] Ed]; rewrite ?Ec.
  - destruct (Hs _ _ Hin) as (d & Hin0 & Eo). rewrite (owns_owners k _ _ Eo) in Ho. exact (HB _ _ _ Hin0 Ho).
  - rewrite Ed in Hin. destruct (HB _ _ _ Hin Ho) as (cmk & Hk & Hph).
    rewrite nget_nset. destruct (Nat.eqb k c) eqn:E; [|exists cmk; split; assumption].
    apply Nat.eqb_eq in E; subst k. rewrite Hc in Hk; injection Hk as <-.
    exists cm'. split; [reflexivity|].
    destruct R as (_ & [(P & _)|[(lb & rep & sv & P & _)|[(old & _ & _ & C & _)|(_ & C & _)]]]).
    + unfold in_drain_phase in *. rewrite P. exact Hph.
    + unfold in_drain_phase in Hph. rewrite P in Hph. discriminate.
    + rewrite (proj2 (cont_ok_spec _ _ _ C) _ _ Hin) in Ho. discriminate.
    + rewrite (proj2 (cont_ok_spec _ _ _ (C Hph)) _ _ Hin) in Ho. discriminate.
  - rewrite Ed in Hin. destruct (HB _ _ _ Hin Ho) as (cmk & Hk & Hph).
    rewrite nget_nset. destruct (Nat.eqb k c) eqn:E; [|exists cmk; split; assumption].
    apply Nat.eqb_eq in E; subst k. rewrite Hc in Hk; discriminate.
  - rewrite Ed in Hin. destruct (HB _ _ _ Hin Ho) as (cmk & Hk & Hph).
    rewrite nget_nset. destruct (Nat.eqb k c) eqn:E; [|exists cmk; split; assumption].
    apply Nat.eqb_eq in E; subst k. rewrite Hc in Hk; injection Hk as <-.
    unfold in_drain_phase in Hph. rewrite P in Hph. discriminate.
  - rewrite Ed in Hin. destruct (HB _ _ _ Hin Ho) as (cmk & Hk & Hph).
    rewrite nget_nset. destruct (Nat.eqb k c) eqn:E; [|exists cmk; split; assumption].
    apply Nat.eqb_eq in E; subst k. rewrite Hc in Hk; injection Hk as <-.
    exists cm'. split; [reflexivity|]. rewrite (in_drain_core _ _ R). exact Hph.
  - assert (Hold : exists cmk, nget (cmds s) k = Some cmk /\ in_drain_phase cmk = true).
    { destruct Hd as [Ed|(_ & _ & Ed)]; rewrite Ed in Hin; [exact (HB _ _ _ Hin Ho)|].
      apply In_nset in Hin. destruct Hin as [[_ ->]|Hin]; [|exact (HB _ _ _ Hin Ho)].
      apply certain_drain_phase with t; [exact HA|].
      eapply begin_owners_certain; [|exact Ho]. reflexivity. }
    destruct Hold as (cmk & Hk & Hph). rewrite nget_clear_pending, Hk. eexists. split; [reflexivity|].
    destruct (nmem k _); [|exact Hph]. exact Hph.
  - rewrite Ed in Hin. apply In_ndel in Hin. destruct (HB _ _ _ Hin Ho) as (cmk & Hk & Hph).
    specialize (Ex k). rewrite Hk in Ex. destruct Ex as (cm' & G & S). exists cm'. split; [exact G|].
    rewrite (in_drain_core _ _ S). exact Hph.
Qed.

Definition invKAB (s : state) : Prop := invK s /\ invA s /\ invB s.

Lemma invKAB_init : invKAB init.
Proof.
  split; [constructor|]. split.
  - intros c cm H; discriminate.
  - intros g d c [].
Qed.

Lemma step_invKAB p s e s' : invKAB s -> step_gen p s e = Some s' -> invKAB s'.
Proof.
  intros (HK & HA & HB) Hs. pose proof (step_shape _ _ _ _ Hs) as Hsh.
  split; [exact (shape_invK _ _ _ Hsh HK)|]. split; [exact (shape_invA _ _ _ Hsh HA)|exact (shape_invB _ _ _ Hsh HA HB)].
Qed.

Lemma run_invKAB p tr s s' : invKAB s -> run (step_gen p) s tr = Some s' -> invKAB s'.
Proof. apply run_inv. intros s0 e s1 H Hs. exact (step_invKAB _ _ _ _ H Hs). Qed.

(** ** At a return *)

Lemma return_phase p s e s' c r :
  step_gen p s e = Some s' -> e_k e = KReturn c r ->
  exists cm, nget (cmds s) c = Some cm /\ e_by e = ACmd c /\
             (in_drain_phase cm = false \/ cont_ok s c cm = true) /\
             return_ok p (c_kind cm) (match c_phase cm with PGate => PAfter | x => x end) r = true.
Proof.
  intros Hs Hk. unfold step_gen in Hs. destruct (e_t e <? clock s); [discriminate|]. cbv zeta in Hs. rewrite Hk in Hs.
  cbn [cmds upd_clock] in Hs. destruct (nget (cmds s) c) as [cm|] eqn:Hc; [|discriminate].
  destruct (actor_eqb (e_by e) (ACmd c)) eqn:Ha; [|discriminate]. apply actor_eqb_eq in Ha.
  exists cm. split; [reflexivity|]. split; [exact Ha|].
  unfold own_step in Hs.
  destruct (own_time_ok _ cm (e_t e)); cbn [negb] in Hs; [|discriminate]. rewrite Hk in Hs.
  destruct (disp_ok _ cm); cbn [negb] in Hs; [|discriminate].
  destruct (tc_ok _ cm _ _); cbn [negb] in Hs; [|discriminate].
  destruct (is_gate (c_phase cm) && negb (cont_ok (upd_clock s (e_t e)) c cm)) eqn:Hg; [discriminate|].
  change (cont_ok (upd_clock s (e_t e)) c cm) with (cont_ok s c cm) in Hg.
  cbv zeta in Hs. rewrite Nat.eqb_refl in Hs. cbn [andb] in Hs.
  destruct (return_ok p (c_kind cm) _ r) eqn:Hr; [|discriminate]. split; [|reflexivity]. clear Hs.
  unfold in_drain_phase.
  destruct (c_phase cm) as [| | | | | | | | | |[x|]| | | |] eqn:P; cbn [is_gate andb] in Hg;
    try (left; reflexivity).
  - exfalso. unfold return_ok in Hr.
    destruct r; destruct (is_deploy (c_kind cm)); destruct (is_pause_stop (c_kind cm)); discriminate.
  - right. apply negb_false_iff in Hg. exact Hg.
Qed.

(** when a command returns, no open Drain call is certainly its own *)
Lemma return_no_open_drain p s e s' c r :
  invKAB s -> step_gen p s e = Some s' -> e_k e = KReturn c r ->
  forall g d, In (g, d) (drains s) -> owns c d = false.
Proof.
  intros (_ & _ & HB) Hs Hk g d Hin.
  destruct (return_phase _ _ _ _ _ _ Hs Hk) as (cm & Hc & _ & Hph & _).
  destruct (owns c d) eqn:Ho; [|reflexivity].
  destruct (HB _ _ _ Hin Ho) as (cm0 & Hc0 & Hd). rewrite Hc in Hc0; injection Hc0 as <-.
  destruct Hph as [Hn|Hc1]; [rewrite Hn in Hd; discriminate|].
  rewrite (proj2 (cont_ok_spec _ _ _ Hc1) _ _ Hin) in Ho. discriminate.
Qed.

(** ** History: the Drain calls a redeploy has begun since its install *)

Definition done_phase (ph : phase) : Prop :=
  match ph with PInstalled _ | PDone => True | _ => False end.

Lemma quiet_not_done ph : quiet_phase ph -> done_phase ph -> False.
Proof. destruct ph; cbn; auto. Qed.

(** a Drain call of [t] that began for command [c]: an event [eD] of [p2]; in the state [sD]
    before it (the events [before] and those of [p2] up to [eD] have run) [c] was among the
    candidates and still expected the Drain of [t] *)
Definition begun_for (p : bool) (before p2 : trace) (c t : nat) (drt : N) : Prop :=
  exists m1 eD m2 orig sD, p2 = m1 ++ eD :: m2 /\ e_k eD = KDrainBegin t orig drt /\
    run (step_gen p) init (before ++ m1) = Some sD /\
    nmem c (candidates sD t (e_t eD) drt) = true /\ certain sD t c = true.

(** [c] has installed (event [eI] of [pre]); of the targets [ts], for those not in [pend]
    a Drain call with timeout [drt] has begun for [c] since *)
Definition hwit (p : bool) (pre : trace) (c : nat) (ts pend : list nat) (drt : N) : Prop :=
  exists p1 eI p2 sv, pre = p1 ++ eI :: p2 /\ e_by eI = ACmd c /\ e_k eI = KInstall sv true /\
    forall t, In t ts -> nmem t pend = true \/ begun_for p (p1 ++ [eI]) p2 c t drt.

Definition hist (p : bool) (pre : trace) (s : state) : Prop :=
  forall c cm old, nget (cmds s) c = Some cm -> c_repl cm = Some (Some old) -> done_phase (c_phase cm) ->
  hwit p pre c (lb_targets s old) (c_pending cm) (c_drt cm).

Lemma hwit_more p pre s e c ts pend pend' drt :
  run (step_gen p) init pre = Some s ->
  hwit p pre c ts pend drt ->
  (forall t, nmem t pend = true -> nmem t pend' = true \/
     exists orig, e_k e = KDrainBegin t orig drt /\ nmem c (candidates s t (e_t e) drt) = true /\ certain s t c = true) ->
  hwit p (pre ++ [e]) c ts pend' drt.
Proof.
  intros Hrun (p1 & eI & p2 & sv & -> & Hby & Hk & Hall) Hp.
  exists p1, eI, (p2 ++ [e]), sv. split; [rewrite <- app_assoc; reflexivity|]. split; [exact Hby|]. split; [exact Hk|].
  intros t Ht. destruct (Hall t Ht) as [Hm|(m1 & eD & m2 & orig & sD & E & HkD & RD & HcD & HceD)].
  - destruct (Hp t Hm) as [Hm'|(orig & HkD & HcD & HceD)]; [left; exact Hm'|].
    right. exists p2, e, [], orig, s. split; [reflexivity|]. split; [exact HkD|]. split; [|split; assumption].
    rewrite <- app_assoc. exact Hrun.
  - right. exists m1, eD, (m2 ++ [e]), orig, sD. split; [rewrite E, <- app_assoc; reflexivity|].
    split; [exact HkD|]. split; [exact RD|split; assumption].
Qed.

Lemma hwit_install p pre e c ts drt sv :
  e_by e = ACmd c -> e_k e = KInstall sv true -> hwit p (pre ++ [e]) c ts ts drt.
Proof.
  intros Hby Hk. exists pre, e, [], sv. split; [reflexivity|]. split; [exact Hby|]. split; [exact Hk|].
  intros t Ht. left. apply nmem_In. exact Ht.
Qed.

Lemma drain_candidate_drt s t now timeout cm : drain_candidate s t now timeout cm = true -> c_drt cm = timeout.
Proof.
  unfold drain_candidate. intros H. apply andb_prop in H. destruct H as [H _]. apply andb_prop in H. destruct H as [H _].
  apply N.eqb_eq in H. exact H.
Qed.

Lemma candidates_drt s t now timeout c cm :
  invK s -> nget (cmds s) c = Some cm -> nmem c (candidates s t now timeout) = true -> c_drt cm = timeout.
Proof.
  intros HK Hc Hm. apply nmem_In in Hm. unfold candidates in Hm. apply in_map_iff in Hm.
  destruct Hm as ([c0 cm0] & E & Hin). cbn [fst] in E. subst c0. apply filter_In in Hin. destruct Hin as [Hin Hd].
  cbn [snd] in Hd. rewrite (nodup_nget _ _ _ HK Hin) in Hc. injection Hc as <-.
  exact (drain_candidate_drt _ _ _ _ _ Hd).
Qed.

Lemma step_hist p pre s e s' :
  run (step_gen p) init pre = Some s ->
  dinv s -> invK s -> hist p pre s -> step_gen p s e = Some s' -> hist p (pre ++ [e]) s'.
Proof.
  intros Hrun [Hok Hall] HK Hh Hs. pose proof (step_ext _ _ _ _ Hs) as Hext. pose proof (step_shape _ _ _ _ Hs) as Hsh.
  (* an old record that is carried over, its pending list possibly shrunk by a Drain call that begins now *)
  assert (Hkeep : forall c cm old pend',
             nget (cmds s) c = Some cm -> c_repl cm = Some (Some old) -> done_phase (c_phase cm) ->
             (forall t, nmem t (c_pending cm) = true -> nmem t pend' = true \/
                exists orig, e_k e = KDrainBegin t orig (c_drt cm) /\
                             nmem c (candidates s t (e_t e) (c_drt cm)) = true /\ certain s t c = true) ->
             hwit p (pre ++ [e]) c (lb_targets s' old) pend' (c_drt cm)).
  { intros c cm old pend' Hc Hr Hd Hp.
    pose proof (all_nget _ _ _ _ Hall Hc) as (_ & Hhas & _).
    rewrite (lb_targets_ext _ _ _ Hext (Hhas _ Hr)).
    eapply hwit_more; [exact Hrun|exact (Hh _ _ _ Hc Hr Hd)|exact Hp]. }
  assert (Hkeep0 : forall c cm old,
             nget (cmds s) c = Some cm -> c_repl cm = Some (Some old) -> done_phase (c_phase cm) ->
             hwit p (pre ++ [e]) c (lb_targets s' old) (c_pending cm) (c_drt cm)).
  { intros c cm old Hc Hr Hd. apply Hkeep; try assumption. intros t Ht; left; exact Ht. }
  intros k cmk old.
  destruct Hsh as [Ec _|c cm cm' Hby Hc Ec R _ _|c cm' Hc Ec _ _ Q _ _|c cm cm' dt drt fa _ Hc _ Ec P _ _ _ _
                  |c cm cm' Hc Ec R _ _|t orig timeout Hk Ec _|d _ [_ Ex] _]; rewrite ?Ec.
  - apply Hkeep0.
  - rewrite nget_nset. destruct (Nat.eqb k c) eqn:E; [|apply Hkeep0].
    apply Nat.eqb_eq in E; subst k. intros H; injection H as <-. intros Hr Hd.
    destruct R as (Edrt & [(P & Q & Rp)|[(lb & rep & sv & P & Hki & P' & Rp & Q)|[(old0 & P & P' & C & Q & Rp)|(_ & _ & Qp & _)]]]).
    + rewrite Q, Edrt. apply Hkeep0; [exact Hc|congruence|rewrite <- P; exact Hd].
    + pose proof (all_nget _ _ _ _ Hall Hc) as (_ & Hhas & Hph). rewrite P in Hph. destruct Hph as [_ Hrep].
      assert (rep = Some old) by congruence. subst rep. rewrite Q.
      rewrite (lb_targets_ext _ _ _ Hext (Hhas _ (eq_trans (eq_sym Rp) Hr))).
      apply hwit_install with sv; assumption.
    + rewrite Q, Edrt. apply Hkeep0; [exact Hc|congruence|rewrite P; exact I].
    + exfalso. exact (quiet_not_done _ Qp Hd).
  - rewrite nget_nset. destruct (Nat.eqb k c) eqn:E; [|apply Hkeep0].
    intros H; injection H as <-. intros Hr. rewrite Q in Hr. discriminate.
  - rewrite nget_nset. destruct (Nat.eqb k c) eqn:E; [|apply Hkeep0].
    intros H; injection H as <-. intros _ Hd. rewrite P in Hd. destruct Hd.
  - rewrite nget_nset. destruct (Nat.eqb k c) eqn:E; [|apply Hkeep0].
    apply Nat.eqb_eq in E; subst k. intros H; injection H as <-. intros Hr Hd.
    destruct R as (P & Q & Rp & Edrt). rewrite Q, Edrt. apply Hkeep0; [exact Hc|congruence|rewrite <- P; exact Hd].
  - rewrite nget_clear_pending. destruct (nget (cmds s) k) as [cm|] eqn:Hg; [|discriminate].
    intros H; injection H as <-.
    destruct (nmem k (candidates s t (e_t e) timeout)) eqn:Hm; [|apply Hkeep0; exact Hg].
    cbn [set_pending c_repl c_phase c_pending c_drt]. intros Hr Hd.
    change (c_drt (set_pending cm (nremove t (c_pending cm)))) with (c_drt cm).
    apply Hkeep; try assumption.
    intros t0 Ht0. destruct (Nat.eq_dec t0 t) as [->|Hne].
    + right. exists orig. rewrite (candidates_drt _ _ _ _ _ _ HK Hg Hm). split; [exact Hk|]. split; [exact Hm|].
      unfold certain. rewrite Hg. destruct (c_phase cm); try exact Ht0. reflexivity.
    + left. apply nmem_nremove_other; assumption.
  - intros Hg. specialize (Ex k). destruct (nget (cmds s) k) as [cm|] eqn:Hg0.
    + destruct Ex as (cm' & G & (P & Q & Rp & Edrt)). rewrite G in Hg; injection Hg as <-. intros Hr Hd.
      rewrite Q, Edrt. apply Hkeep0; [exact Hg0|congruence|rewrite <- P; exact Hd].
    + rewrite Ex in Hg; discriminate.
Qed.

Lemma hist_init p : hist p [] init.
Proof. intros c cm old H; discriminate. Qed.

Lemma run_hist p tr pre s s' :
  run (step_gen p) init pre = Some s ->
  dinv s -> invKAB s -> hist p pre s -> run (step_gen p) s tr = Some s' -> hist p (pre ++ tr) s'.
Proof.
  revert pre s; induction tr as [|e tr IH]; intros pre s Hrun Hd Hk Hh; cbn [run].
  - intros E; injection E as <-. rewrite app_nil_r. exact Hh.
  - destruct (step_gen p s e) as [s1|] eqn:E; [|discriminate]. intros R.
    change (e :: tr) with ([e] ++ tr). rewrite app_assoc. apply IH with s1; [| | | |exact R].
    + rewrite run_app, Hrun. cbn [run]. rewrite E. reflexivity.
    + exact (step_dinv _ _ _ _ Hd E).
    + exact (step_invKAB _ _ _ _ Hk E).
    + exact (step_hist _ _ _ _ _ Hrun Hd (proj1 Hk) Hh E).
Qed.

(** ** Reading the trace: durations, replaced balancer, its targets *)

Lemma params_drt p pre s1 eP c dt drt fa :
  run (step_gen p) init pre = Some s1 -> In eP pre -> e_k eP = KParams c dt drt fa ->
  exists cm, nget (cmds s1) c = Some cm /\ c_drt cm = drt.
Proof.
  intros Hrun Hin HP. apply in_split in Hin. destruct Hin as (a & b & ->).
  change (a ++ eP :: b) with (a ++ [eP] ++ b) in Hrun.
  destruct (run_prefix _ _ _ _ _ Hrun) as (s0 & R0 & Hrun1).
  destruct (run_prefix _ _ _ _ _ Hrun1) as (s2 & R1 & R2).
  cbn [run] in R1. destruct (step_gen p s0 eP) as [s2'|] eqn:E; [|discriminate]. injection R1 as ->.
  unfold step_gen in E. destruct (e_t eP <? clock s0); [discriminate|]. cbv zeta in E. rewrite HP in E.
  destruct (nget (cmds (upd_clock s0 (e_t eP))) c) as [cm|]; [|discriminate].
  destruct (c_phase cm); try discriminate. destruct (own_time_ok _ _ _); [|discriminate]. injection E as <-.
  assert (G : nget (cmds (put (upd_clock s0 (e_t eP)) c
                (mkC (c_kind cm) (c_issue cm) dt drt PStart (e_t eP) None (e_t eP) [] None (c_new cm) (c_repl cm)))) c
              = Some (mkC (c_kind cm) (c_issue cm) dt drt PStart (e_t eP) None (e_t eP) [] None (c_new cm) (c_repl cm)))
    by (cbn [cmds put upd_cmds]; apply nget_nset_same).
  destruct (run_keeps _ _ _ _ R2 _ _ G) as (cm2 & G2 & L). exists cm2. split; [exact G2|].
  destruct L as (_ & _ & L3 & _). destruct L3 as (_ & L4 & _); [cbn; discriminate|]. exact L4.
Qed.

Lemma slot_repl p pre s1 eS c svc ro lb old :
  run (step_gen p) init pre = Some s1 -> In eS pre -> e_by eS = ACmd c -> e_k eS = KSlot svc ro lb (Some old) ->
  exists cm, nget (cmds s1) c = Some cm /\ c_repl cm = Some (Some old).
Proof.
  intros Hrun Hin Hby HS. apply in_split in Hin. destruct Hin as (a & b & ->).
  change (a ++ eS :: b) with (a ++ [eS] ++ b) in Hrun.
  destruct (run_prefix _ _ _ _ _ Hrun) as (s0 & R0 & Hrun1).
  destruct (run_prefix _ _ _ _ _ Hrun1) as (s2 & R1 & R2).
  cbn [run] in R1. destruct (step_gen p s0 eS) as [s2'|] eqn:E; [|discriminate]. injection R1 as ->.
  destruct (slot_by_cmd _ _ _ _ _ _ _ _ _ E Hby HS) as (cm1 & G1 & N1).
  destruct (run_keeps _ _ _ _ R2 _ _ G1) as (cm2 & G2 & L). exists cm2. split; [exact G2|].
  destruct L as (_ & _ & _ & _ & L5 & _). exact (L5 _ N1).
Qed.

Lemma new_lb_targets st lb ts o st1 : new_lb st lb ts o = Some st1 -> lb_targets st1 lb = ts /\ has_lb st1 lb.
Proof.
  unfold new_lb. destruct (nget (lbs st) lb); [discriminate|]. destruct (existsb _ ts); [discriminate|].
  intros H; injection H as <-. unfold lb_targets, has_lb. cbn [lbs upd_lbs upd_tgts]. rewrite nget_nset_same.
  split; [reflexivity|discriminate].
Qed.

Lemma lbnew_targets_step p s e s1 lb ts :
  step_gen p s e = Some s1 -> e_k e = KLbNew lb ts -> lb_targets s1 lb = ts /\ has_lb s1 lb.
Proof.
  intros H Hk. destruct (e_by e) eqn:Hby.
  2: { destruct (lbnew_by_cmd _ _ _ _ _ _ _ H Hby Hk) as (_ & _ & _ & T & Hh). split; assumption. }
  all: unfold step_gen in H; destruct (e_t e <? clock s); [discriminate|]; cbv zeta in H; rewrite Hk, Hby in H;
       exact (new_lb_targets _ _ _ _ _ H).
Qed.

Lemma lbnew_targets p pre s1 eN lb ts :
  run (step_gen p) init pre = Some s1 -> In eN pre -> e_k eN = KLbNew lb ts -> lb_targets s1 lb = ts.
Proof.
  intros Hrun Hin HN. apply in_split in Hin. destruct Hin as (a & b & ->).
  change (a ++ eN :: b) with (a ++ [eN] ++ b) in Hrun.
  destruct (run_prefix _ _ _ _ _ Hrun) as (s0 & R0 & Hrun1).
  destruct (run_prefix _ _ _ _ _ Hrun1) as (s2 & R1 & R2).
  cbn [run] in R1. destruct (step_gen p s0 eN) as [s2'|] eqn:E; [|discriminate]. injection R1 as ->.
  destruct (lbnew_targets_step _ _ _ _ _ _ E HN) as [T Hh].
  rewrite (lb_targets_ext _ _ _ (run_ext _ _ _ _ R2) Hh). exact T.
Qed.

(** ** (T1 i) a redeploy that returns Ok has begun a Drain call, with its own drain
       timeout, for every target of the balancer it replaced — after its install *)

Lemma deploy_return_phase p s e s' c cm old :
  dinv s -> step_gen p s e = Some s' -> e_k e = KReturn c CROk ->
  nget (cmds s) c = Some cm -> c_repl cm = Some (Some old) -> c_phase cm = PDone.
Proof.
  intros [_ Hall] Hs Hk Hc Hr.
  destruct (return_phase _ _ _ _ _ _ Hs Hk) as (cm0 & Hc0 & _ & _ & Hro). rewrite Hc in Hc0; injection Hc0 as <-.
  pose proof (all_nget _ _ _ _ Hall Hc) as (_ & _ & Hph).
  unfold return_ok in Hro.
  destruct (c_phase cm) as [| | | | | | | | | |[x|]| | | |] eqn:P;
    destruct (is_deploy (c_kind cm)); destruct (is_pause_stop (c_kind cm)); try discriminate; try reflexivity;
    try congruence;
    try (match type of Hph with _ /\ _ => destruct Hph as [_ Hph]; congruence end).
Qed.

Lemma deploy_return_drains_begun_gen p pre eR post s c eP dt drt fa eS svc ro lb old eN ts :
  run (step_gen p) init (pre ++ eR :: post) = Some s ->
  e_k eR = KReturn c CROk ->
  In eP pre -> e_k eP = KParams c dt drt fa ->
  In eS pre -> e_by eS = ACmd c -> e_k eS = KSlot svc ro lb (Some old) ->
  In eN pre -> e_k eN = KLbNew old ts ->
  exists p1 eI p2 sv, pre = p1 ++ eI :: p2 /\ e_by eI = ACmd c /\ e_k eI = KInstall sv true /\
    forall t, In t ts ->
      exists m1 eD m2 orig sD, p2 = m1 ++ eD :: m2 /\ e_k eD = KDrainBegin t orig drt /\
        run (step_gen p) init (p1 ++ eI :: m1) = Some sD /\
        nmem c (candidates sD t (e_t eD) drt) = true /\ certain sD t c = true.
Proof.
  intros Hrun HR HinP HP HinS HbyS HS HinN HN.
  change (pre ++ eR :: post) with (pre ++ [eR] ++ post) in Hrun.
  destruct (run_prefix _ _ _ _ _ Hrun) as (s1 & R0 & Hrun1).
  destruct (run_prefix _ _ _ _ _ Hrun1) as (s2 & R1 & _).
  cbn [run] in R1. destruct (step_gen p s1 eR) as [s2'|] eqn:E; [|discriminate]. clear R1.
  assert (D1 : dinv s1) by (eapply run_dinv; [apply dinv_init|exact R0]).
  assert (K1 : invKAB s1) by (eapply run_invKAB; [apply invKAB_init|exact R0]).
  pose proof (run_hist p _ [] _ _ eq_refl dinv_init invKAB_init (hist_init p) R0) as H1. cbn [app] in H1.
  destruct (slot_repl _ _ _ _ _ _ _ _ _ R0 HinS HbyS HS) as (cm & Hc & Hr).
  destruct (params_drt _ _ _ _ _ _ _ _ R0 HinP HP) as (cm0 & Hc0 & Hdrt). rewrite Hc in Hc0; injection Hc0 as <-.
  pose proof (deploy_return_phase _ _ _ _ _ _ _ D1 E HR Hc Hr) as Hph.
  assert (Hd : done_phase (c_phase cm)) by (rewrite Hph; exact I).
  destruct (H1 _ _ _ Hc Hr Hd) as (p1 & eI & p2 & sv & Epre & HbyI & HkI & Hall).
  exists p1, eI, p2, sv. repeat split; try assumption.
  intros t Ht. rewrite (lbnew_targets _ _ _ _ _ _ R0 HinN HN) in Hall.
  destruct (Hall t Ht) as [Hm|(m1 & eD & m2 & orig & sD & E2 & HkD & RD & HcD & HceD)].
  - exfalso. destruct (proj1 (proj2 K1) _ _ Hc) as [Pe|(o & Po)]; [rewrite Pe in Hm; discriminate|congruence].
  - exists m1, eD, m2, orig, sD. rewrite <- Hdrt. rewrite <- app_assoc in RD. repeat split; assumption.
Qed.

(** ** (T1 ii / T2) following one Drain call forward through the trace *)

(** the open Drain call [d] of goroutine [g] after a step that does not end it *)
Definition dkeep (e : event) (g : nat) (d d' : drain) : Prop :=
  d_owners d' = d_owners d /\ d_t d' = d_t d /\
  (d_cancel d = None -> d_cancel d' <> None -> goid (e_by e) = g /\ e_k e = KDrainCancelRest (d_t d)) /\
  (goid (e_by e) = g -> forall t o n, e_k e <> KStateSet t o n).

Lemma dkeep_refl e g d : (goid (e_by e) = g -> forall t o n, e_k e <> KStateSet t o n) -> dkeep e g d d.
Proof. intros H. split; [reflexivity|]. split; [reflexivity|]. split; [intros Hn Hs; contradiction|exact H]. Qed.

Lemma nget_done_req ds t rs now g :
  nget (drains_done_req ds t rs now) g =
  match nget ds g with Some d => Some (drain_done_req t rs now d) | None => None end.
Proof.
  unfold drains_done_req. induction ds as [|[g0 d0] ds IH]; cbn [map nget fst snd]; [reflexivity|].
  destruct (Nat.eqb g g0); [reflexivity|exact IH].
Qed.

Lemma done_req_fields t rs now d :
  d_owners (drain_done_req t rs now d) = d_owners d /\ d_t (drain_done_req t rs now d) = d_t d /\
  d_cancel (drain_done_req t rs now d) = d_cancel d.
Proof. unfold drain_done_req. destruct (_ && _); repeat split. Qed.

Lemma tdrain_fwd p st0 e s' g d :
  step_gen p st0 e = Some s' -> nget (drains st0) g = Some d ->
  (exists d', nget (drains s') g = Some d' /\ dkeep e g d d') \/
  (goid (e_by e) = g /\ d_cancel d <> None /\ exists o n, e_k e = KStateSet (d_t d) o n /\ n <> TDraining).
Proof.
  intros Hs Hd. revert Hs. unfold step_gen.
  destruct (e_t e <? clock st0); [discriminate|].
  change (drains st0) with (drains (upd_clock st0 (e_t e))) in Hd.
  set (st := upd_clock st0 (e_t e)) in *. cbv zeta.
  assert (Hfr : forall s1, drains s1 = drains st -> (forall t o n, e_k e <> KStateSet t o n) ->
                           (exists d', nget (drains s1) g = Some d' /\ dkeep e g d d') \/
                           (goid (e_by e) = g /\ d_cancel d <> None /\ exists o n, e_k e = KStateSet (d_t d) o n /\ n <> TDraining)).
  { intros s1 E Hk. left. exists d. split; [rewrite E; exact Hd|]. apply dkeep_refl. intros _; exact Hk. }
  assert (Hown : forall c cm, own_step p st c cm e = Some s' -> (forall t o n, e_k e <> KStateSet t o n) ->
                              (exists d', nget (drains s') g = Some d' /\ dkeep e g d d') \/
                              (goid (e_by e) = g /\ d_cancel d <> None /\ exists o n, e_k e = KStateSet (d_t d) o n /\ n <> TDraining)).
  { intros c cm H Hk. destruct (own_step_frame _ _ _ _ _ _ H) as (_ & _ & F & _). exact (Hfr _ F Hk). }
  destruct (e_k e) eqn:Hk.
  all: try (destruct (e_by e) eqn:Hby;
            [inv_some; apply Hfr; first [reflexivity|intros ? ? ?; discriminate]
            |destruct (nget (cmds st) c) eqn:Hc;
             [intros H; eapply Hown; [exact H|intros ? ? ?; discriminate]|inv_some; apply Hfr; first [reflexivity|intros ? ? ?; discriminate]]
            |inv_some; apply Hfr; first [reflexivity|intros ? ? ?; discriminate]
            |inv_some; apply Hfr; first [reflexivity|intros ? ? ?; discriminate]]; fail).
  all: try (step_destruct; try (inv_some; fail); inv_some; apply Hfr; first [reflexivity|intros ? ? ?; discriminate]).
  - (* KReturn *)
    destruct (nget (cmds st) c) as [cm|]; [|discriminate].
    destruct (actor_eqb (e_by e) (ACmd c)); [|discriminate].
    intros H. eapply Hown; [exact H|intros ? ? ?; discriminate].
  - (* KLbNew *)
    destruct (e_by e) eqn:Hby;
      [|destruct (nget (cmds st) c) eqn:Hc; [intros H; eapply Hown; [exact H|intros ? ? ?; discriminate]|inv_some]| |];
      intros H; destruct (new_lb_frame _ _ _ _ _ H) as (_ & F2 & _); apply Hfr; first [exact F2|intros ? ? ?; discriminate].
  - (* KLbDispose *)
    destruct (e_by e) eqn:Hby;
      [|destruct (nget (cmds st) c) eqn:Hc; [intros H; eapply Hown; [exact H|intros ? ? ?; discriminate]|inv_some]| |];
      inv_some; apply Hfr; first [exact (proj1 (proj2 (mark_disposed_frame _ _)))|intros ? ? ?; discriminate].
  - (* KEnd *)
    inv_some. left. eexists. split.
    + cbn [drains upd_drains]. rewrite nget_done_req.
      match goal with |- context [match nget (drains ?X) g with _ => _ end] =>
        assert (E : nget (drains X) g = Some d) by (destruct (nget (tgts _) t); exact Hd); rewrite E end.
      reflexivity.
    + destruct (done_req_fields t [r] (e_t e) d) as (F1 & F2 & F3). unfold dkeep. rewrite F1, F2, F3.
      split; [reflexivity|]. split; [reflexivity|]. split; [intros Hn Hs; contradiction|].
      intros _ ? ? ?. rewrite Hk. discriminate.
  - (* KProbeStop *)
    destruct (e_by e) eqn:Hby;
      [|destruct (nget (cmds st) c) eqn:Hc; [intros H; eapply Hown; [exact H|intros ? ? ?; discriminate]|inv_some]| |];
      inv_some; apply Hfr; first [exact (proj1 (proj2 (set_probing_frame _ _ _)))|intros ? ? ?; discriminate].
  - (* KStateSet *)
    destruct (Nat.eq_dec (goid (e_by e)) g) as [Eg|Ng].
    + rewrite Eg, Hd. destruct (d_cancel d) as [ct|] eqn:Hct; [|discriminate].
      destruct (tstate_eqb new TDraining) eqn:Hnd; [discriminate|].
      destruct (_ && _) eqn:Hcond; [|discriminate]. intros _. right.
      apply andb_prop in Hcond. destruct Hcond as [Ht _]. apply Nat.eqb_eq in Ht.
      split; [reflexivity|]. split; [discriminate|]. exists orig, new. rewrite Ht. split; [reflexivity|].
      intros En. rewrite En in Hnd. discriminate Hnd.
    + destruct (nget (drains st) (goid (e_by e))) as [d0|] eqn:Hd0.
      * destruct (d_cancel d0); [|discriminate]. destruct (tstate_eqb _ _) eqn:Hnd; [discriminate|]. destruct (_ && _); [|discriminate].
        destruct (notify st d0 (e_t e)) as [cs|]; [|discriminate]. inv_some.
        left. exists d. split; [cbn [drains upd_drains]; rewrite nget_ndel_other; [exact Hd|intros E; apply Ng; symmetry; exact E]|].
        apply dkeep_refl. intros E; contradiction.
      * inv_some. left. exists d. split; [exact Hd|]. apply dkeep_refl. intros E; contradiction.
  - (* KDrainBegin *)
    destruct orig.
    all: try (inv_some; apply Hfr; first [reflexivity|intros ? ? ?; discriminate]).
    all: destruct (nget (drains st) (goid (e_by e))) eqn:Hd0; [discriminate|].
    all: assert (Ng : g <> goid (e_by e)) by (intros E; rewrite <- E in Hd0; rewrite Hd in Hd0; discriminate).
    all: destruct (candidates st t (e_t e) timeout) as [|c0 [|c1 cs]]; [destruct (parks st); [|discriminate]|..]; inv_some.
    all: left; exists d; (split; [cbn [drains set_drain upd_drains upd_cmds]; rewrite nget_nset_other; [exact Hd|exact Ng]|]).
    all: apply dkeep_refl; intros _ ? ? ?; rewrite Hk; discriminate.
  - (* KDrainSnapshot *)
    destruct (nget (drains st) (goid (e_by e))) as [d0|] eqn:Hd0; [|discriminate].
    destruct (d_snap d0); [discriminate|]. destruct (_ && _) eqn:Hcond; [|discriminate]. inv_some.
    apply andb_prop in Hcond. destruct Hcond as [Ht _]. apply Nat.eqb_eq in Ht.
    left. cbn [drains set_drain upd_drains]. rewrite nget_nset.
    destruct (Nat.eqb g (goid (e_by e))) eqn:Eg.
    + apply Nat.eqb_eq in Eg. rewrite <- Eg in Hd0. rewrite Hd in Hd0. injection Hd0 as <-.
      eexists. split; [reflexivity|]. unfold dkeep. cbn [d_owners d_t d_cancel].
      split; [reflexivity|]. split; [symmetry; exact Ht|]. split; [intros _ Hs; contradiction|].
      intros _ ? ? ?. rewrite Hk. discriminate.
    + exists d. split; [exact Hd|]. apply dkeep_refl. intros _ ? ? ?. rewrite Hk. discriminate.
  - (* KDrainDeadline *)
    destruct (nget (drains st) (goid (e_by e))) as [d0|] eqn:Hd0; [|discriminate].
    destruct (d_snap d0); [|discriminate]. destruct (d_cancel d0); [discriminate|].
    destruct (_ && _) eqn:Hcond; [|discriminate]. inv_some.
    apply andb_prop in Hcond. destruct Hcond as [Ht _]. apply andb_prop in Ht. destruct Ht as [Ht _]. apply Nat.eqb_eq in Ht.
    left. cbn [drains set_drain upd_drains]. rewrite nget_nset.
    destruct (Nat.eqb g (goid (e_by e))) eqn:Eg.
    + apply Nat.eqb_eq in Eg. rewrite <- Eg in Hd0. rewrite Hd in Hd0. injection Hd0 as <-.
      eexists. split; [reflexivity|]. unfold dkeep. cbn [d_owners d_t d_cancel].
      split; [reflexivity|]. split; [symmetry; exact Ht|]. split; [intros _ Hs; contradiction|].
      intros _ ? ? ?. rewrite Hk. discriminate.
    + exists d. split; [exact Hd|]. apply dkeep_refl. intros _ ? ? ?. rewrite Hk. discriminate.
  - (* KDrainCancelRest *)
    destruct (nget (drains st) (goid (e_by e))) as [d0|] eqn:Hd0; [|discriminate].
    destruct (d_snap d0) as [sn|]; [|discriminate]. destruct (d_cancel d0); [discriminate|].
    destruct (_ && _) eqn:Hcond; [|discriminate]. inv_some.
    apply andb_prop in Hcond. destruct Hcond as [Ht _]. apply andb_prop in Ht. destruct Ht as [Ht _]. apply Nat.eqb_eq in Ht.
    left. unfold set_drain. cbn [drains upd_drains]. rewrite nget_nset.
    destruct (Nat.eqb g (goid (e_by e))) eqn:Eg.
    + apply Nat.eqb_eq in Eg. rewrite <- Eg in Hd0. rewrite Hd in Hd0. injection Hd0 as <-.
      eexists. split; [reflexivity|]. unfold dkeep. cbn [d_owners d_t d_cancel].
      split; [reflexivity|]. split; [symmetry; exact Ht|]. split.
      * intros _ _. split; [symmetry; exact Eg|]. rewrite Hk, Ht. reflexivity.
      * intros _ ? ? ?. rewrite Hk. discriminate.
    + rewrite nget_done_req.
      match goal with |- context [match nget (drains ?X) g with _ => _ end] =>
        assert (E2 : nget (drains X) g = Some d) by (destruct (nget (tgts _) t); exact Hd); rewrite E2 end.
      eexists. split; [reflexivity|].
      match goal with |- dkeep _ _ _ (drain_done_req ?a ?b ?c _) => destruct (done_req_fields a b c d) as (F1 & F2 & F3) end.
      unfold dkeep. rewrite F1, F2, F3.
      split; [reflexivity|]. split; [reflexivity|]. split; [intros Hn Hs; contradiction|].
      intros _ ? ? ?. rewrite Hk. discriminate.
Qed.

(** no state-set by goroutine [g] among these events *)
Definition no_stateset_by (g : nat) (tr : trace) : Prop :=
  forall e', In e' tr -> goid (e_by e') = g -> forall t o n, e_k e' <> KStateSet t o n.

(** the Drain call of [g] open in [s] is still open after [tr] — or [tr] contains its end:
    the first state-set by [g], on the call's target, after its "cancel the rest", and it
    sets a state other than "draining" (a restore, not a mark) *)
Definition ended_in (g t : nat) (need_cancel : Prop) (tr : trace) : Prop :=
  exists q1 eE q2 o n, tr = q1 ++ eE :: q2 /\ goid (e_by eE) = g /\ e_k eE = KStateSet t o n /\ n <> TDraining /\
    no_stateset_by g q1 /\
    (need_cancel -> exists eC, In eC q1 /\ goid (e_by eC) = g /\ e_k eC = KDrainCancelRest t).

Lemma tdrain_run p tr s s' g d :
  run (step_gen p) s tr = Some s' -> nget (drains s) g = Some d ->
  (exists d', nget (drains s') g = Some d' /\ d_owners d' = d_owners d /\ d_t d' = d_t d) \/
  ended_in g (d_t d) (d_cancel d = None) tr.
Proof.
  revert s d; induction tr as [|e tr IH]; intros s d; cbn [run].
  - intros E Hd; injection E as <-. left. exists d. repeat split. exact Hd.
  - destruct (step_gen p s e) as [s1|] eqn:E; [|discriminate]. intros R Hd.
    destruct (tdrain_fwd _ _ _ _ _ _ E Hd) as [(d1 & Hd1 & Ho & Ht & Hc & Hns)|(Hg & Hc & o & n & Hk & Hnn)].
    + destruct (IH _ _ R Hd1) as [(d' & Hd' & Ho' & Ht')|(q1 & eE & q2 & o & n & -> & Hg & Hk & Hnn & Hno & Hcr)].
      * left. exists d'. split; [exact Hd'|]. split; congruence.
      * right. exists (e :: q1), eE, q2, o, n. split; [reflexivity|]. split; [exact Hg|]. split; [congruence|].
        split; [exact Hnn|]. split.
        -- intros e' [<-|Hin]; [exact Hns|exact (Hno _ Hin)].
        -- intros Hnone. destruct (d_cancel d1) as [ct|] eqn:Hc1.
           ++ destruct (Hc Hnone) as [Hge Hke]; [discriminate|]. exists e. split; [left; reflexivity|]. split; assumption.
           ++ destruct (Hcr eq_refl) as (eC & Hin & HgC & HkC). exists eC. split; [right; exact Hin|]. split; [exact HgC|congruence].
    + right. exists [], e, tr, o, n. split; [reflexivity|]. split; [exact Hg|]. split; [exact Hk|]. split; [exact Hnn|]. split.
      * intros e' [].
      * intros Hnone; contradiction.
Qed.

(** a Drain call that begins on a target that is not yet draining is opened with the owners the view infers *)
Lemma begin_opens p s e s' t orig timeout :
  step_gen p s e = Some s' -> e_k e = KDrainBegin t orig timeout -> orig <> TDraining ->
  nget (drains s') (goid (e_by e)) =
  Some (mkD t (e_t e) timeout None [] (e_t e) false None (begin_owners s t (e_t e) timeout)).
Proof.
  intros Hs Hk Ho. unfold step_gen in Hs. destruct (e_t e <? clock s); [discriminate|]. cbv zeta in Hs. rewrite Hk in Hs.
  unfold begin_owners. change (candidates s t (e_t e) timeout) with (candidates (upd_clock s (e_t e)) t (e_t e) timeout).
  change (certain s t) with (certain (upd_clock s (e_t e)) t).
  destruct orig; [|contradiction Ho; reflexivity| |].
  all: destruct (nget (drains (upd_clock s (e_t e))) (goid (e_by e))); [discriminate|].
  all: destruct (candidates (upd_clock s (e_t e)) t (e_t e) timeout) as [|c0 [|c1 cs]];
       [destruct (parks (upd_clock s (e_t e))); [|discriminate]|..]; injection Hs as <-.
  all: cbn [drains set_drain upd_drains upd_cmds]; apply nget_nset_same.
Qed.

(** (T1 ii / T2) the Drain calls a returning command certainly started have ended *)
Lemma owned_drain_ended_gen p pre eR post s c r p1 eB p2 sB t orig timeout :
  run (step_gen p) init (pre ++ eR :: post) = Some s -> e_k eR = KReturn c r ->
  pre = p1 ++ eB :: p2 -> run (step_gen p) init p1 = Some sB ->
  e_k eB = KDrainBegin t orig timeout -> orig <> TDraining ->
  In (c, true) (begin_owners sB t (e_t eB) timeout) ->
  ended_in (goid (e_by eB)) t True p2.
Proof.
  intros Hrun HR -> RB HB Ho Hown.
  replace ((p1 ++ eB :: p2) ++ eR :: post) with (p1 ++ [eB] ++ p2 ++ [eR] ++ post) in Hrun
    by (rewrite <- app_assoc; reflexivity).
  destruct (run_prefix _ _ _ _ _ Hrun) as (s0 & R0 & Hrun1). rewrite RB in R0; injection R0 as <-.
  destruct (run_prefix _ _ _ _ _ Hrun1) as (sB' & R1 & Hrun2).
  destruct (run_prefix _ _ _ _ _ Hrun2) as (s1 & R2 & Hrun3).
  destruct (run_prefix _ _ _ _ _ Hrun3) as (s2 & R3 & _).
  cbn [run] in R1. destruct (step_gen p sB eB) as [x|] eqn:EB; [|discriminate]. injection R1 as ->.
  cbn [run] in R3. destruct (step_gen p s1 eR) as [x|] eqn:ER; [|discriminate]. clear R3.
  pose proof (begin_opens _ _ _ _ _ _ _ EB HB Ho) as Hopen.
  destruct (tdrain_run _ _ _ _ _ _ R2 Hopen) as [(d' & Hd' & Ho' & _)|Hend].
  - exfalso. cbn [d_owners] in Ho'.
    assert (K1 : invKAB s1).
    { eapply run_invKAB; [|exact R2]. eapply step_invKAB; [|exact EB]. eapply run_invKAB; [apply invKAB_init|exact RB]. }
    pose proof (return_no_open_drain _ _ _ _ _ _ K1 ER HR _ _ (nget_In _ _ _ Hd')) as Hno.
    unfold owns in Hno. rewrite Ho' in Hno.
    assert (Hyes : existsb (fun o => Nat.eqb (fst o) c && snd o) (begin_owners sB t (e_t eB) timeout) = true).
    { apply existsb_exists. exists (c, true). split; [exact Hown|]. cbn [fst snd]. rewrite Nat.eqb_refl. reflexivity. }
    rewrite Hyes in Hno. discriminate.
  - cbn [d_t d_cancel] in Hend. destruct Hend as (q1 & eE & q2 & o & n & E & Hg & Hk & Hnn & Hno & Hcr).
    exists q1, eE, q2, o, n. split; [exact E|]. split; [exact Hg|]. split; [exact Hk|]. split; [exact Hnn|].
    split; [exact Hno|]. intros _. exact (Hcr eq_refl).
Qed.

Lemma begin_owners_single s t now timeout c :
  candidates s t now timeout = [c] -> certain s t c = true -> In (c, true) (begin_owners s t now timeout).
Proof. intros Hc Hcert. unfold begin_owners. rewrite Hc, Hcert. left; reflexivity. Qed.

(** ** (T3) jointly with the request-level view M5full: when a Drain call that a returning
       command certainly started ended, the requests of its snapshot had left the in-flight
       set of the target or been cancelled *)

Lemma joint_settled_gen p pre eR post st sf c r p1 eB p2 sB t orig timeout :
  run (step_gen p) init (pre ++ eR :: post) = Some st ->
  run M5full.step M5full.init (pre ++ eR :: post) = Some sf ->
  e_k eR = KReturn c r -> pre = p1 ++ eB :: p2 -> run (step_gen p) init p1 = Some sB ->
  e_k eB = KDrainBegin t orig timeout -> orig <> TDraining ->
  In (c, true) (begin_owners sB t (e_t eB) timeout) ->
  exists q1 eE q2 o n fs x d sn,
    p2 = q1 ++ eE :: q2 /\ goid (e_by eE) = goid (e_by eB) /\ e_k eE = KStateSet t o n /\ n <> TDraining /\
    no_stateset_by (goid (e_by eB)) q1 /\
    run M5full.step M5full.init (p1 ++ eB :: q1) = Some fs /\
    nget (M5full.targets fs) t = Some x /\ nget (M5full.t_drains x) (goid (e_by eB)) = Some d /\
    M5full.d_cancelled d = true /\ M5full.d_snap d = Some sn /\
    (forall rq, In rq sn -> ~ In rq (M5full.t_inflight x) \/ M5fullFacts.cancelled fs rq = true) /\
    (exists es rs, In es q1 /\ goid (e_by es) = goid (e_by eB) /\ e_k es = KDrainSnapshot t rs /\ map fst rs = sn) /\
    (exists f1 x1, run M5full.step M5full.init pre = Some f1 /\ nget (M5full.targets f1) t = Some x1 /\
       forall rq, In rq sn -> ~ In rq (M5full.t_inflight x1) \/ M5fullFacts.cancelled f1 rq = true).
Proof.
  intros Hrt Hrf HR Epre RB HB Ho Hown.
  destruct (owned_drain_ended_gen _ _ _ _ _ _ _ _ _ _ _ _ _ _ Hrt HR Epre RB HB Ho Hown)
    as (q1 & eE & q2 & o & n & Ep2 & HgE & HkE & HnE & Hno & Hcr).
  destruct (Hcr I) as (eC & HinC & HgC & HkC).
  exists q1, eE, q2, o, n.
  (* the run of the request-level view up to the end event, and on to the return *)
  subst pre p2.
  replace ((p1 ++ eB :: q1 ++ eE :: q2) ++ eR :: post) with ((p1 ++ [eB]) ++ q1 ++ (eE :: q2) ++ (eR :: post)) in Hrf
    by (rewrite <- !app_assoc; cbn [app]; rewrite <- app_assoc; reflexivity).
  destruct (run_prefix _ _ _ _ _ Hrf) as (fB & RfB & Hrf1).
  destruct (run_prefix _ _ _ _ _ Hrf1) as (fs & Rfs & Hrf2).
  destruct (run_prefix _ _ _ _ _ Hrf2) as (f1 & Rf1 & _).
  pose proof (M5fullDrain.invBDE_run _ _ RfB) as IB.
  destruct (run_prefix _ _ _ _ _ RfB) as (f0 & Rf0 & Rf1').
  cbn [run] in Rf1'. destruct (M5full.step f0 eB) as [fB'|] eqn:EfB; [|discriminate]. injection Rf1' as ->.
  destruct (M5fullDrainFwd.fbegin_opens _ _ _ _ _ _ EfB HB Ho) as (x0 & Hx0 & Hd0).
  destruct (M5fullDrainFwd.fdrain_run _ _ _ _ _ _ _ IB Rfs Hx0 Hd0 Hno) as (x & d & Hx & Hd & _ & Hcan & Hsnap).
  assert (Rall : run M5full.step M5full.init (p1 ++ eB :: q1) = Some fs).
  { change (p1 ++ eB :: q1) with (p1 ++ [eB] ++ q1). rewrite app_assoc, run_app, RfB. exact Rfs. }
  assert (Rpre : run M5full.step M5full.init (p1 ++ eB :: q1 ++ eE :: q2) = Some f1).
  { change (p1 ++ eB :: q1 ++ eE :: q2) with (p1 ++ [eB] ++ q1 ++ (eE :: q2)).
    rewrite app_assoc, run_app, RfB, run_app, Rfs. exact Rf1. }
  assert (Hc : M5full.d_cancelled d = true) by exact (Hcan _ HinC HgC HkC).
  destruct (M5fullDrain.invBDE_run _ _ Rall) as (_ & HD & HE).
  destruct (HE _ _ _ _ Hx (M5fullFacts.nget_In _ _ _ _ Hd) Hc) as (sn & Hsn & Hall).
  exists fs, x, d, sn. repeat split; try assumption.
  - destruct (Hsnap _ Hsn) as [Hbad|(es & rs & Hin & Hg & Hk & Hm)]; [discriminate Hbad|].
    exists es, rs. repeat split; assumption.
  - (* settled stays settled up to the return *)
    assert (Hx1 : exists x1, nget (M5full.targets f1) t = Some x1).
    { clear -Rf1 Hx. revert fs x Rf1 Hx. generalize (eE :: q2) as tr. induction tr as [|e tr IH]; intros fs x R Hx; cbn [run] in R.
      - injection R as <-. eauto.
      - destruct (M5full.step fs e) as [s1|] eqn:E; [|discriminate].
        destruct (M5fullInv.step_tgt_fwd _ _ _ _ _ E Hx) as (x' & Hx' & _). exact (IH _ _ R Hx'). }
    destruct Hx1 as (x1 & Hx1). exists f1, x1. split; [exact Rpre|]. split; [exact Hx1|].
    intros rq Hrq.
    destruct (HD _ _ _ _ _ _ Hx (M5fullFacts.nget_In _ _ _ _ Hd) Hsn Hrq) as (ph & Hph & Hpc).
    destruct (M5fullDrainFwd.run_settled _ _ _ _ _ _ _ Rf1 Hx Hph Hpc (Hall _ Hrq)) as (x1' & Hx1' & Hset).
    rewrite Hx1 in Hx1'. injection Hx1' as <-. exact Hset.
Qed.

(** ** The statements of props/C03cmd.v (for the repaired rules, [step]) *)

Lemma return_no_open_drain_trace pre eR post s c r s1 :
  run step init (pre ++ eR :: post) = Some s -> e_k eR = KReturn c r -> run step init pre = Some s1 ->
  forall g d, nget (drains s1) g = Some d -> owns c d = false.
Proof.
  intros Hrun HR R0 g d Hd.
  change (pre ++ eR :: post) with (pre ++ [eR] ++ post) in Hrun.
  destruct (run_prefix _ _ _ _ _ Hrun) as (s1' & R0' & Hrun1). rewrite R0 in R0'; injection R0' as <-.
  destruct (run_prefix _ _ _ _ _ Hrun1) as (s2 & R1 & _).
  cbn [run] in R1. destruct (step s1 eR) as [s2'|] eqn:E; [|discriminate].
  assert (K1 : invKAB s1) by (eapply run_invKAB; [apply invKAB_init|exact R0]).
  exact (return_no_open_drain _ _ _ _ _ _ K1 E HR _ _ (nget_In _ _ _ Hd)).
Qed.

Lemma issue_kind p pre s1 eI c k name :
  run (step_gen p) init pre = Some s1 -> In eI pre -> e_k eI = KIssue c k name ->
  exists cm, nget (cmds s1) c = Some cm /\ c_kind cm = k.
Proof.
  intros Hrun Hin HI. apply in_split in Hin. destruct Hin as (a & b & ->).
  change (a ++ eI :: b) with (a ++ [eI] ++ b) in Hrun.
  destruct (run_prefix _ _ _ _ _ Hrun) as (s0 & R0 & Hrun1).
  destruct (run_prefix _ _ _ _ _ Hrun1) as (s2 & R1 & R2).
  cbn [run] in R1. destruct (step_gen p s0 eI) as [s2'|] eqn:E; [|discriminate]. injection R1 as ->.
  unfold step_gen in E. destruct (e_t eI <? clock s0); [discriminate|]. cbv zeta in E. rewrite HI in E.
  destruct (nget (cmds (upd_clock s0 (e_t eI))) c); [discriminate|]. injection E as <-.
  assert (G : nget (cmds (put (upd_clock s0 (e_t eI)) c (mkC k (e_t eI) 0 0 PNew (e_t eI) None (e_t eI) [] None None None))) c
              = Some (mkC k (e_t eI) 0 0 PNew (e_t eI) None (e_t eI) [] None None None))
    by (cbn [cmds put upd_cmds]; apply nget_nset_same).
  destruct (run_keeps _ _ _ _ R2 _ _ G) as (cm2 & G2 & L). exists cm2. split; [exact G2|].
  destruct L as (L1 & _). exact L1.
Qed.

(** a pause / stop that is the only candidate of a Drain call certainly owns it *)
Lemma pause_stop_certain s t now timeout c cm :
  invK s -> nget (cmds s) c = Some cm -> is_pause_stop (c_kind cm) = true ->
  candidates s t now timeout = [c] -> certain s t c = true.
Proof.
  intros HK Hc Hps Hcand.
  assert (Hin : In c (candidates s t now timeout)) by (rewrite Hcand; left; reflexivity).
  unfold candidates in Hin. apply in_map_iff in Hin. destruct Hin as ([c0 cm0] & E & Hin). cbn [fst] in E. subst c0.
  apply filter_In in Hin. destruct Hin as [Hin Hd]. cbn [snd] in Hd.
  rewrite (nodup_nget _ _ _ HK Hin) in Hc. injection Hc as ->.
  unfold certain. rewrite (nodup_nget _ _ _ HK Hin).
  unfold drain_candidate in Hd. apply andb_prop in Hd. destruct Hd as [_ Hd].
  destruct (c_phase cm) as [| | | | | | | | | |[x|]| | | |]; try discriminate; try reflexivity.
  apply andb_prop in Hd. destruct Hd as [Hd _].
  destruct (c_kind cm); discriminate.
Qed.

Lemma deploy_return_drains_begun pre eR post s c eP dt drt fa eS svc ro lb old eN ts :
  run step init (pre ++ eR :: post) = Some s ->
  e_k eR = KReturn c CROk ->
  In eP pre -> e_k eP = KParams c dt drt fa ->
  In eS pre -> e_by eS = ACmd c -> e_k eS = KSlot svc ro lb (Some old) ->
  In eN pre -> e_k eN = KLbNew old ts ->
  exists p1 eI p2 sv, pre = p1 ++ eI :: p2 /\ e_by eI = ACmd c /\ e_k eI = KInstall sv true /\
    forall t, In t ts ->
      exists m1 eD m2 orig sD, p2 = m1 ++ eD :: m2 /\ e_k eD = KDrainBegin t orig drt /\
        run step init (p1 ++ eI :: m1) = Some sD /\
        nmem c (candidates sD t (e_t eD) drt) = true /\ certain sD t c = true.
Proof. exact (deploy_return_drains_begun_gen false pre eR post s c eP dt drt fa eS svc ro lb old eN ts). Qed.

Lemma owned_drain_ended pre eR post s c r p1 eB p2 sB t orig timeout :
  run step init (pre ++ eR :: post) = Some s -> e_k eR = KReturn c r ->
  pre = p1 ++ eB :: p2 -> run step init p1 = Some sB ->
  e_k eB = KDrainBegin t orig timeout -> orig <> TDraining ->
  candidates sB t (e_t eB) timeout = [c] -> certain sB t c = true ->
  exists q1 eE q2 o n, p2 = q1 ++ eE :: q2 /\ goid (e_by eE) = goid (e_by eB) /\ e_k eE = KStateSet t o n /\ n <> TDraining /\
    (forall e', In e' q1 -> goid (e_by e') = goid (e_by eB) -> forall t' o' n', e_k e' <> KStateSet t' o' n') /\
    (exists eC, In eC q1 /\ goid (e_by eC) = goid (e_by eB) /\ e_k eC = KDrainCancelRest t).
Proof.
  intros Hrun HR Epre RB HB Ho Hcand Hcert.
  destruct (owned_drain_ended_gen false _ _ _ _ _ _ _ _ _ _ _ _ _ Hrun HR Epre RB HB Ho (begin_owners_single _ _ _ _ _ Hcand Hcert))
    as (q1 & eE & q2 & o & n & E & Hg & Hk & Hnn & Hno & Hcr).
  exists q1, eE, q2, o, n. split; [exact E|]. split; [exact Hg|]. split; [exact Hk|]. split; [exact Hnn|].
  split; [exact Hno|]. exact (Hcr I).
Qed.

(** pause / stop: the command is the only candidate — that suffices *)
Lemma pause_stop_drain_ended pre eR post s c r eI k name p1 eB p2 sB t orig timeout :
  run step init (pre ++ eR :: post) = Some s -> e_k eR = KReturn c r ->
  pre = p1 ++ eB :: p2 -> run step init p1 = Some sB ->
  In eI p1 -> e_k eI = KIssue c k name -> is_pause_stop k = true ->
  e_k eB = KDrainBegin t orig timeout -> orig <> TDraining ->
  candidates sB t (e_t eB) timeout = [c] ->
  exists q1 eE q2 o n, p2 = q1 ++ eE :: q2 /\ goid (e_by eE) = goid (e_by eB) /\ e_k eE = KStateSet t o n /\ n <> TDraining /\
    (forall e', In e' q1 -> goid (e_by e') = goid (e_by eB) -> forall t' o' n', e_k e' <> KStateSet t' o' n') /\
    (exists eC, In eC q1 /\ goid (e_by eC) = goid (e_by eB) /\ e_k eC = KDrainCancelRest t).
Proof.
  intros Hrun HR Epre RB HinI HI Hps HB Ho Hcand.
  destruct (issue_kind _ _ _ _ _ _ _ RB HinI HI) as (cm & Hc & Hk).
  assert (KB : invKAB sB) by (eapply run_invKAB; [apply invKAB_init|exact RB]).
  assert (Hcert : certain sB t c = true).
  { eapply pause_stop_certain; [exact (proj1 KB)|exact Hc|rewrite Hk; exact Hps|exact Hcand]. }
  exact (owned_drain_ended _ _ _ _ _ _ _ _ _ _ _ _ _ Hrun HR Epre RB HB Ho Hcand Hcert).
Qed.

Lemma joint_settled pre eR post st sf c r p1 eB p2 sB t orig timeout :
  run step init (pre ++ eR :: post) = Some st ->
  run M5full.step M5full.init (pre ++ eR :: post) = Some sf ->
  e_k eR = KReturn c r -> pre = p1 ++ eB :: p2 -> run step init p1 = Some sB ->
  e_k eB = KDrainBegin t orig timeout -> orig <> TDraining ->
  candidates sB t (e_t eB) timeout = [c] -> certain sB t c = true ->
  exists q1 eE q2 o n fs x d sn,
    p2 = q1 ++ eE :: q2 /\ goid (e_by eE) = goid (e_by eB) /\ e_k eE = KStateSet t o n /\ n <> TDraining /\
    (forall e', In e' q1 -> goid (e_by e') = goid (e_by eB) -> forall t' o' n', e_k e' <> KStateSet t' o' n') /\
    run M5full.step M5full.init (p1 ++ eB :: q1) = Some fs /\
    nget (M5full.targets fs) t = Some x /\ nget (M5full.t_drains x) (goid (e_by eB)) = Some d /\
    M5full.d_cancelled d = true /\ M5full.d_snap d = Some sn /\
    (forall rq, In rq sn -> ~ In rq (M5full.t_inflight x) \/ M5fullFacts.cancelled fs rq = true) /\
    (exists es rs, In es q1 /\ goid (e_by es) = goid (e_by eB) /\ e_k es = KDrainSnapshot t rs /\ map fst rs = sn) /\
    (exists f1 x1, run M5full.step M5full.init pre = Some f1 /\ nget (M5full.targets f1) t = Some x1 /\
       forall rq, In rq sn -> ~ In rq (M5full.t_inflight x1) \/ M5fullFacts.cancelled f1 rq = true).
Proof.
  intros Hrt Hrf HR Epre RB HB Ho Hcand Hcert.
  exact (joint_settled_gen false _ _ _ _ _ _ _ _ _ _ _ _ _ _ Hrt Hrf HR Epre RB HB Ho (begin_owners_single _ _ _ _ _ Hcand Hcert)).
Qed.

(** (T1) together: a redeploy that returns Ok has, after its install, begun a Drain call for
    every target of the replaced balancer, as a candidate that still expected that Drain; and where
    it was the only candidate and the target was not already draining, that call has ended *)
Lemma deploy_return_drains_done pre eR post s c eP dt drt fa eS svc ro lb old eN ts :
  run step init (pre ++ eR :: post) = Some s ->
  e_k eR = KReturn c CROk ->
  In eP pre -> e_k eP = KParams c dt drt fa ->
  In eS pre -> e_by eS = ACmd c -> e_k eS = KSlot svc ro lb (Some old) ->
  In eN pre -> e_k eN = KLbNew old ts ->
  exists p1 eI p2 sv, pre = p1 ++ eI :: p2 /\ e_by eI = ACmd c /\ e_k eI = KInstall sv true /\
    forall t, In t ts ->
      exists m1 eD m2 orig sD, p2 = m1 ++ eD :: m2 /\ e_k eD = KDrainBegin t orig drt /\
        run step init (p1 ++ eI :: m1) = Some sD /\
        nmem c (candidates sD t (e_t eD) drt) = true /\ certain sD t c = true /\
        (orig <> TDraining -> candidates sD t (e_t eD) drt = [c] ->
         exists q1 eE q2 o n, m2 = q1 ++ eE :: q2 /\ goid (e_by eE) = goid (e_by eD) /\ e_k eE = KStateSet t o n /\ n <> TDraining /\
           (forall e', In e' q1 -> goid (e_by e') = goid (e_by eD) -> forall t' o' n', e_k e' <> KStateSet t' o' n') /\
           (exists eC, In eC q1 /\ goid (e_by eC) = goid (e_by eD) /\ e_k eC = KDrainCancelRest t)).
Proof.
  intros Hrun HR HinP HP HinS HbyS HS HinN HN.
  destruct (deploy_return_drains_begun _ _ _ _ _ _ _ _ _ _ _ _ _ _ _ _ Hrun HR HinP HP HinS HbyS HS HinN HN)
    as (p1 & eI & p2 & sv & Epre & HbyI & HkI & Hall).
  exists p1, eI, p2, sv. repeat split; try assumption.
  intros t Ht. destruct (Hall t Ht) as (m1 & eD & m2 & orig & sD & E2 & HkD & RD & HcD & HceD).
  exists m1, eD, m2, orig, sD. repeat split; try assumption.
  intros Ho Hcand.
  assert (Epre' : pre = (p1 ++ eI :: m1) ++ eD :: m2) by (rewrite Epre, E2, <- app_assoc; reflexivity).
  exact (owned_drain_ended _ _ _ _ _ _ _ _ _ _ _ _ _ Hrun HR Epre' RD HkD Ho Hcand HceD).
Qed.
