(** C04cmdLink.v — the sequential machine M4 (model/Seq.v) satisfies the
    commanded-table routing monitor of corr/C04cmd.v.

    The monitor [c04_cmd_ok] rebuilds, from the observed history alone, the
    list [l] of commanded services (name, hosts, prefixes and targets of the
    last successful deploy) and demands of every answer that it is the routing
    rule's choice for [cmd_table l].  The invariant proved here: on a history
    of TLS-less deploys (with at least one target), removes and restarts, the
    commanded list and the services of the model state agree ENTRY BY ENTRY
    AND IN THE SAME ORDER ([Rel], a [Forall2]): same name, hosts, prefixes,
    active targets = commanded targets, no TLS, running, no rollout slot.
    Hence [cmd_table l = table_of (st_services st)] (no permutation argument
    is needed) and [serve] answers what [c04_cmd_req_ok] demands.

    Two restrictions are necessary and are proved necessary below
    ([c04_cmd_monitor_of_model_refuted], [c04_cmd_needs_targets]):
    the requests of the matrix arrive without TLS (a TLS request to a TLS-less
    service is answered 503) and every deploy names at least one target (the
    model accepts an empty target list and then answers 503). *)
From KP Require Import model.Base model.ServiceMap model.Seq corr.M4corr corr.C04cmd
  proofs.SeqFacts proofs.SeqInv proofs.M4Link.
From KP Require proofs.ServiceMapFacts.
Local Open Scope N_scope.

(** ** The histories the monitor is meant for *)

Definition nonempty {A} (l : list A) : bool := match l with [] => false | _ => true end.

(** A deploy without TLS naming at least one target (everything else — TLS
    redirect flag, certificate paths, error pages readable or not, strip,
    target options, validity and health of the targets — is free: such deploys
    may fail with EPages, EInvalidTarget, EUnhealthy, EHostInUse), a remove, or
    a restart. *)
Definition plain_cmd (c : cmd) : bool :=
  match c with
  | Deploy _ o _ ts => negb (o_tls o) && nonempty ts
  | Remove _ => true
  | Restart => true
  | _ => false
  end.

Definition plain_historyb (cs : list cmd) : bool := forallb plain_cmd cs.
Definition plain_history (cs : list cmd) : Prop := plain_historyb cs = true.

(** The same, readably. *)
Definition plain_cmd_P (c : cmd) : Prop :=
  match c with
  | Deploy _ o _ ts => o_tls o = false /\ ts <> []
  | Remove _ => True
  | Restart => True
  | _ => False
  end.

Lemma plain_cmd_iff c : plain_cmd c = true <-> plain_cmd_P c.
Proof.
  destruct c as [name o t ts| | | | | | |name|]; cbn [plain_cmd plain_cmd_P];
    try (split; [discriminate|contradiction]); try (split; auto).
  - intros H. apply andb_true_iff in H. destruct H as [H1 H2]. apply negb_true_iff in H1.
    split; [exact H1|]. destruct ts; [discriminate|discriminate].
  - intros [H1 H2]. rewrite H1. destruct ts; [contradiction|reflexivity].
Qed.

Lemma plain_history_iff cs : plain_history cs <-> Forall plain_cmd_P cs.
Proof.
  unfold plain_history, plain_historyb. rewrite forallb_forall, Forall_forall.
  split; intros H c Hc; apply plain_cmd_iff; now apply H.
Qed.

(** The request matrix is sent over plain HTTP. *)
Definition plain_requestsb (reqs : list request) : bool := forallb (fun q => negb (q_tls q)) reqs.
Definition plain_requests (reqs : list request) : Prop := plain_requestsb reqs = true.

(** ** The invariant *)

Record svrel (c : cmd_svc) (s : service) : Prop := mkSvrel {
  sr_name : s_name s = cs_name c;
  sr_hosts : o_hosts (s_opts s) = cs_hosts c;
  sr_prefixes : o_prefixes (s_opts s) = cs_prefixes c;
  sr_active : s_active s = cs_targets c;
  sr_nonempty : cs_targets c <> [];
  sr_tls : o_tls (s_opts s) = false;
  sr_running : p_state (s_pause s) = Running;
  sr_rollout : s_rollout s = None }.

Definition Rel (l : list cmd_svc) (svcs : list service) : Prop := Forall2 svrel l svcs.

Lemma Rel_table l svcs : Rel l svcs -> cmd_table l = table_of svcs.
Proof.
  unfold cmd_table, table_of.
  induction 1 as [|c s l svcs Hcs Hl IH]; cbn [map]; [reflexivity|].
  rewrite IH. unfold bi_of. now rewrite (sr_name _ _ Hcs), (sr_hosts _ _ Hcs), (sr_prefixes _ _ Hcs).
Qed.

Lemma Rel_remove l svcs n : Rel l svcs -> Rel (cs_remove n l) (svc_remove svcs n).
Proof.
  unfold cs_remove.
  induction 1 as [|c s l svcs Hcs Hl IH]; cbn [filter svc_remove]; [constructor|].
  rewrite (sr_name _ _ Hcs). destruct (str_eqb (cs_name c) n); cbn [negb]; [exact IH|].
  now constructor.
Qed.

Lemma Rel_get l svcs n : Rel l svcs ->
  match find (fun c => str_eqb (cs_name c) n) l, svc_get svcs n with
  | Some c, Some s => svrel c s
  | None, None => True
  | _, _ => False
  end.
Proof.
  induction 1 as [|c s l svcs Hcs Hl IH]; cbn [find svc_get]; [exact I|].
  rewrite (sr_name _ _ Hcs). destruct (str_eqb (cs_name c) n); [exact Hcs|exact IH].
Qed.

Lemma Rel_tls l svcs : Rel l svcs -> Forall (fun s => o_tls (s_opts s) = false) svcs.
Proof.
  induction 1 as [|c s l svcs Hcs Hl IH]; constructor; [apply (sr_tls _ _ Hcs)|exact IH].
Qed.

(** *** sync_tls keeps the relation: nobody has TLS, so nobody inherits it *)

Lemma tls_src_false l h :
  Forall (fun s => o_tls (s_opts s) = false) l -> fst (tls_src l h) = false.
Proof.
  intros H. unfold tls_src.
  destruct (service_for _ _ _) as [[n p]|]; [|reflexivity].
  destruct (svc_get l n) as [r|] eqn:Eg; [|reflexivity].
  apply svc_get_some in Eg. destruct Eg as [Hin _]. rewrite Forall_forall in H.
  cbn [fst]. now apply H.
Qed.

Lemma svrel_sync_one src c s :
  (forall h, fst (src h) = false) -> svrel c s -> svrel c (sync_one src s).
Proof.
  intros Hsrc H. unfold sync_one. destruct (serves_root s); [exact H|].
  pose proof (Hsrc (first_host s)) as Hf. destruct (src (first_host s)) as [a b].
  cbn [fst] in Hf. subst a.
  destruct H as [H1 H2 H3 H4 H5 H6 H7 H8].
  constructor; cbn; try reflexivity; assumption.
Qed.

Lemma Rel_sync l svcs : Rel l svcs -> Rel l (sync_tls svcs).
Proof.
  intros H. rewrite sync_tls_eq.
  assert (Hsrc : forall h, fst (tls_src svcs h) = false)
    by (intros h; apply tls_src_false; now apply (Rel_tls l)).
  revert Hsrc. generalize (tls_src svcs). intros src Hsrc.
  induction H as [|c s l svcs Hcs Hl IH]; cbn [map]; constructor; [|exact IH].
  now apply svrel_sync_one.
Qed.

Lemma Rel_install l svcs c s :
  Rel l svcs -> svrel c s -> Rel (cs_remove (cs_name c) l ++ [c]) (install svcs s).
Proof.
  intros Hl Hcs. unfold install, svc_set. apply Rel_sync.
  apply Forall2_app.
  - rewrite (sr_name _ _ Hcs). now apply Rel_remove.
  - constructor; [exact Hcs|constructor].
Qed.

(** ** One command *)

(** [cmd_apply] reads the result and the command of the observation only. *)
Definition apply_rc (l : list cmd_svc) (r : res_obs) (c : cmd) : list cmd_svc :=
  cmd_apply l (mkStep c r [] None [] []).

Lemma cmd_apply_state_obs ig st c r reqs l :
  cmd_apply l (state_obs ig st c r reqs) = apply_rc l (res_obs_of r) c.
Proof. reflexivity. Qed.

Lemma nonempty_map {A B} (f : A -> B) (l : list A) : nonempty l = true -> map f l <> [].
Proof. destruct l; [discriminate|]. intros _. discriminate. Qed.

Lemma exec_deploy_rel st l name o t targets :
  Rel l (st_services st) -> o_tls o = false -> nonempty targets = true ->
  Rel (apply_rc l (res_obs_of (fst (exec fixed st (Deploy name o t targets)))) (Deploy name o t targets))
      (st_services (snd (exec fixed st (Deploy name o t targets)))).
Proof.
  intros HR Htls Hne. cbn [exec].
  destruct (init_check fixed (normalize o)) as [e|]; [exact HR|].
  rewrite deploy_into_fixed. cbv zeta.
  destruct (negb (forallb valid_target_name _)); [exact HR|].
  destruct (negb (forallb tg_healthy _)); [exact HR|].
  destruct (conflicts _ _ _ _); [exact HR|].
  cbn [fst snd res_obs_of save st_services].
  unfold apply_rc, cmd_apply. cbn [so_result so_cmd].
  set (c := mkCS name (normalize_hosts (o_hosts o)) (normalize_prefixes (o_prefixes o)) (map tg_name targets)).
  change (cs_remove name l) with (cs_remove (cs_name c) l).
  apply Rel_install; [exact HR|].
  pose proof (Rel_get l (st_services st) name HR) as Hg.
  destruct (svc_get (st_services st) name) as [old|].
  - destruct (find _ l) as [c0|]; [|contradiction].
    constructor; cbn; try reflexivity; try assumption.
    + now apply nonempty_map.
    + apply (sr_running _ _ Hg).
    + apply (sr_rollout _ _ Hg).
  - constructor; cbn; try reflexivity; try assumption.
    now apply nonempty_map.
Qed.

Lemma exec_remove_rel st l name :
  Rel l (st_services st) ->
  Rel (apply_rc l (res_obs_of (fst (exec fixed st (Remove name)))) (Remove name))
      (st_services (snd (exec fixed st (Remove name)))).
Proof.
  intros HR. cbn [exec].
  destruct (svc_get (st_services st) name) as [s|]; [|exact HR].
  cbn [fst snd res_obs_of save st_services]. unfold apply_rc, cmd_apply. cbn [so_result so_cmd].
  apply Rel_sync. now apply Rel_remove.
Qed.

Lemma exec_restart_rel st l :
  Inv st -> Rel l (st_services st) ->
  Rel (apply_rc l (res_obs_of (fst (exec fixed st Restart))) Restart)
      (st_services (snd (exec fixed st Restart))).
Proof.
  intros HI HR. cbn [exec fst snd]. rewrite restart_fixed by exact HI. exact HR.
Qed.

Lemma step_rel st l c :
  Inv st -> Rel l (st_services st) -> plain_cmd c = true ->
  Rel (apply_rc l (res_obs_of (fst (exec fixed st c))) c) (st_services (snd (exec fixed st c))).
Proof.
  intros HI HR Hc. destruct c as [name o t targets| | | | | | |name|]; try discriminate Hc.
  - cbn [plain_cmd] in Hc. apply andb_true_iff in Hc. destruct Hc as [Htls Hne].
    apply negb_true_iff in Htls. now apply exec_deploy_rel.
  - now apply exec_remove_rel.
  - now apply exec_restart_rel.
Qed.

(** ** One request *)

(** The name chosen by the routing rule is the name of a table entry. *)
Lemma route_some_in_table t host path n p :
  route t host path = Some (n, p) -> In n (map bi_name t).
Proof.
  unfold route, service_for.
  destruct (best_match _ _ _) as [[p' n']|] eqn:E; [|discriminate].
  intros H. inversion H; subst. apply best_match_in in E.
  destruct E as [E|[E _]]; [discriminate|].
  apply in_bindings_for in E. destruct E as (b & Hb & Hn & _).
  apply in_map_iff. now exists b.
Qed.

Lemma names_table_of svcs : map bi_name (table_of svcs) = names svcs.
Proof. unfold table_of, names. rewrite map_map. reflexivity. Qed.

Lemma mem_str_hd ts : ts <> [] -> mem_str (hd [] ts) ts = true.
Proof. destruct ts as [|x r]; [contradiction|]. intros _. cbn. now rewrite str_eqb_refl. Qed.

Lemma serve_ok ig st l q :
  Rel l (st_services st) -> q_tls q = false ->
  c04_cmd_req_ok l q (resp_obs_of (serve ig st q)) = true.
Proof.
  intros HR Hq. unfold c04_cmd_req_ok, serve. rewrite (Rel_table _ _ HR).
  destruct (route _ _ _) as [[n p]|] eqn:Er; [|reflexivity].
  apply route_some_in_table in Er. rewrite names_table_of in Er.
  pose proof (Rel_get l (st_services st) n HR) as Hg.
  destruct (svc_get (st_services st) n) as [s|] eqn:Es.
  - destruct (find _ l) as [c|]; [|contradiction].
    rewrite (sr_tls _ _ Hg), Hq, (sr_running _ _ Hg), (sr_rollout _ _ Hg), (sr_active _ _ Hg).
    cbn [andb negb].
    pose proof (sr_nonempty _ _ Hg) as Hne.
    destruct (cs_targets c) as [|x r] eqn:Et; [contradiction|].
    cbn [resp_obs_of ro_status ro_served_by hd]. rewrite <- Et. cbn [mem_str].
    rewrite Et. cbn [mem_str]. now rewrite str_eqb_refl.
  - exfalso. apply svc_get_none in Es. contradiction.
Qed.

Lemma answers_ok ig st l reqs :
  Rel l (st_services st) -> plain_requests reqs ->
  forallb (fun qo => c04_cmd_req_ok l (fst qo) (snd qo)) (answers ig st reqs) = true.
Proof.
  intros HR. unfold plain_requests, plain_requestsb, answers.
  induction reqs as [|q reqs IH]; cbn [forallb map fst snd]; [reflexivity|].
  intros H. apply andb_true_iff in H. destruct H as [Hq Hr]. apply negb_true_iff in Hq.
  rewrite (serve_ok ig st l q HR Hq). now apply IH.
Qed.

(** ** Whole histories *)

Lemma c04_cmd_from_model ig reqs cs : forall st l,
  Inv st -> Rel l (st_services st) -> plain_history cs -> plain_requests reqs ->
  c04_cmd_from l (model_history_from ig fixed st cs reqs) = true.
Proof.
  unfold plain_history, plain_historyb.
  induction cs as [|c cs IH]; intros st l HI HR Hcs Hq; [reflexivity|].
  cbn [forallb] in Hcs. apply andb_true_iff in Hcs. destruct Hcs as [Hc Hcs].
  rewrite model_history_cons. cbn [c04_cmd_from]. rewrite cmd_apply_state_obs.
  pose proof (step_rel st l c HI HR Hc) as HR'.
  cbn [so_requests state_obs]. rewrite (answers_ok ig _ _ reqs HR' Hq). cbn [andb].
  apply IH; [now apply exec_inv|exact HR'|exact Hcs|exact Hq].
Qed.

(** The link, for request matrices sent over plain HTTP. *)
Lemma c04_cmd_of_model ig cs reqs :
  plain_history cs -> plain_requests reqs ->
  c04_cmd_ok (model_history ig fixed cs reqs) = true.
Proof.
  intros Hcs Hq. unfold c04_cmd_ok, model_history.
  apply c04_cmd_from_model; [apply Inv_init|constructor|exact Hcs|exact Hq].
Qed.

(** ** Histories with a request matrix of their own at every step

    (The C04 generator sends the matrix after the last command only.) *)
Fixpoint model_history_steps_from (ig : rollctl -> str -> bool) (v : variant) (st : state)
         (crs : list (cmd * list request)) : list step_obs :=
  match crs with
  | [] => []
  | cr :: r => let '(st', o) := model_obs ig v st (fst cr) (snd cr) in
               o :: model_history_steps_from ig v st' r
  end.

Definition model_history_steps (ig : rollctl -> str -> bool) (v : variant) (crs : list (cmd * list request))
  : list step_obs := model_history_steps_from ig v init_state crs.

Lemma model_history_steps_cons ig v st c reqs crs :
  model_history_steps_from ig v st ((c, reqs) :: crs) =
  state_obs ig (snd (exec v st c)) c (fst (exec v st c)) reqs ::
  model_history_steps_from ig v (snd (exec v st c)) crs.
Proof. cbn [model_history_steps_from fst snd]. unfold model_obs. now destruct (exec v st c). Qed.

(** [model_history] is the case of the same matrix at every step. *)
Lemma model_history_as_steps ig v reqs cs : forall st,
  model_history_from ig v st cs reqs = model_history_steps_from ig v st (map (fun c => (c, reqs)) cs).
Proof.
  induction cs as [|c cs IH]; intros st; [reflexivity|].
  cbn [map]. rewrite model_history_cons, model_history_steps_cons. now rewrite IH.
Qed.

Lemma c04_cmd_from_model_steps ig crs : forall st l,
  Inv st -> Rel l (st_services st) ->
  plain_history (map fst crs) -> forallb plain_requestsb (map snd crs) = true ->
  c04_cmd_from l (model_history_steps_from ig fixed st crs) = true.
Proof.
  unfold plain_history, plain_historyb.
  induction crs as [|[c reqs] crs IH]; intros st l HI HR Hcs Hq; [reflexivity|].
  cbn [map fst snd forallb] in Hcs, Hq.
  apply andb_true_iff in Hcs. destruct Hcs as [Hc Hcs].
  apply andb_true_iff in Hq. destruct Hq as [Hq Hqs].
  rewrite model_history_steps_cons. cbn [c04_cmd_from]. rewrite cmd_apply_state_obs.
  pose proof (step_rel st l c HI HR Hc) as HR'.
  cbn [so_requests state_obs]. rewrite (answers_ok ig _ _ reqs HR' Hq). cbn [andb].
  apply IH; [now apply exec_inv|exact HR'|exact Hcs|exact Hqs].
Qed.

Lemma c04_cmd_of_model_steps ig crs :
  plain_history (map fst crs) -> forallb plain_requestsb (map snd crs) = true ->
  c04_cmd_ok (model_history_steps ig fixed crs) = true.
Proof.
  intros Hcs Hq. unfold c04_cmd_ok, model_history_steps.
  apply c04_cmd_from_model_steps; [apply Inv_init|constructor|exact Hcs|exact Hq].
Qed.

(** ** The invariant, stated for whole histories

    The commanded list after a history, and its table. *)
Definition cmd_list_from (l : list cmd_svc) (h : list step_obs) : list cmd_svc := fold_left cmd_apply h l.
Definition cmd_list_of (h : list step_obs) : list cmd_svc := cmd_list_from [] h.

Lemma cmd_list_model ig reqs cs : forall st l,
  Inv st -> Rel l (st_services st) -> plain_history cs ->
  Rel (cmd_list_from l (model_history_from ig fixed st cs reqs)) (st_services (exec_all fixed st cs)).
Proof.
  unfold plain_history, plain_historyb.
  induction cs as [|c cs IH]; intros st l HI HR Hcs; [exact HR|].
  cbn [forallb] in Hcs. apply andb_true_iff in Hcs. destruct Hcs as [Hc Hcs].
  rewrite model_history_cons. cbn [cmd_list_from fold_left exec_all]. rewrite cmd_apply_state_obs.
  apply IH; [now apply exec_inv|now apply step_rel|exact Hcs].
Qed.

(** After a plain history the commanded table IS the model's table (same
    order), every commanded service is deployed with exactly the commanded
    targets, running, without TLS. *)
Lemma cmd_list_of_model ig cs reqs :
  plain_history cs ->
  Rel (cmd_list_of (model_history ig fixed cs reqs)) (st_services (exec_all fixed init_state cs)).
Proof. intros H. apply cmd_list_model; [apply Inv_init|constructor|exact H]. Qed.

Lemma cmd_table_of_model ig cs reqs :
  plain_history cs ->
  cmd_table (cmd_list_of (model_history ig fixed cs reqs)) =
  table_of (st_services (exec_all fixed init_state cs)).
Proof. intros H. apply Rel_table. now apply cmd_list_of_model. Qed.

Lemma cmd_targets_of_model ig cs reqs n c :
  plain_history cs ->
  find (fun c => str_eqb (cs_name c) n) (cmd_list_of (model_history ig fixed cs reqs)) = Some c ->
  exists s, svc_get (st_services (exec_all fixed init_state cs)) n = Some s /\
            s_active s = cs_targets c /\ cs_targets c <> [] /\
            o_tls (s_opts s) = false /\ p_state (s_pause s) = Running /\ s_rollout s = None.
Proof.
  intros H Hf. pose proof (Rel_get _ _ n (cmd_list_of_model ig cs reqs H)) as Hg.
  rewrite Hf in Hg. destruct (svc_get _ n) as [s|]; [|contradiction].
  exists s. destruct Hg. auto 10.
Qed.

(** ** The statement without the restriction on the requests is false, and
    so is the one without the restriction on the targets *)

Definition rf_opts : sopts := mkSopts [] [] false false CertNone PagesNone false.
Definition rf_cs : list cmd := [Deploy (bs "web") rf_opts (mkTopts (bs "/up") 0) [mkTgt (bs "web-1") true]].
Definition rf_tls_req : request := mkReq (bs "example.com") (bs "/") (bs "/") true true None.
Definition rf_req : request := mkReq (bs "example.com") (bs "/") (bs "/") true false None.
Definition rf_ig (_ : rollctl) (_ : str) : bool := false.

(** A request arriving over TLS for a service deployed without TLS is
    answered 503 by the model (and by the proxy); the monitor demands 200. *)
Lemma c04_cmd_of_model_refuted :
  exists ig cs reqs, plain_history cs /\ c04_cmd_ok (model_history ig fixed cs reqs) = false.
Proof. exists rf_ig, rf_cs, [rf_tls_req]. split; vm_compute; reflexivity. Qed.

(** A deploy with an empty target list succeeds in the model; the service then
    answers 503 (no targets); the monitor demands 200 from a commanded target. *)
Lemma c04_cmd_needs_targets :
  exists ig cs reqs,
    forallb (fun c => match c with Deploy _ o _ _ => negb (o_tls o) | _ => true end) cs = true /\
    plain_requests reqs /\ c04_cmd_ok (model_history ig fixed cs reqs) = false.
Proof.
  exists rf_ig, [Deploy (bs "web") rf_opts (mkTopts (bs "/up") 0) []], [rf_req].
  repeat split; vm_compute; reflexivity.
Qed.

(** ** The commanded table and the declarative routing specification *)

Definition cmd_norm (l : list cmd_svc) : Prop :=
  Forall (fun c => Forall ServiceMapFacts.normalised (cs_prefixes c)) l.

Lemma cmd_norm_table l : cmd_norm l -> ServiceMapFacts.norm_table (cmd_table l).
Proof.
  intros H s p Hs Hp. unfold cmd_table in Hs. apply in_map_iff in Hs. destruct Hs as (c & <- & Hc).
  unfold cmd_norm in H. rewrite Forall_forall in H. specialize (H c Hc).
  rewrite Forall_forall in H. now apply H.
Qed.

Lemma normalize_prefixes_normalised ps : Forall ServiceMapFacts.normalised (normalize_prefixes ps).
Proof.
  destruct ps as [|p ps]; cbn [normalize_prefixes].
  - constructor; [apply ServiceMapFacts.root_normalised|constructor].
  - apply Forall_forall. intros x Hx. apply in_map_iff in Hx. destruct Hx as (y & <- & _). now exists y.
Qed.

Lemma cmd_norm_remove n l : cmd_norm l -> cmd_norm (cs_remove n l).
Proof.
  unfold cmd_norm, cs_remove. rewrite !Forall_forall. intros H c Hc. apply filter_In in Hc. now apply H.
Qed.

Lemma cmd_apply_norm l o : cmd_norm l -> cmd_norm (cmd_apply l o).
Proof.
  intros H. unfold cmd_apply. destruct (so_result o); try exact H.
  destruct (so_cmd o) as [name op t ts| | | | | | |name|]; try exact H.
  - unfold cmd_norm. apply Forall_app. split; [now apply cmd_norm_remove|].
    constructor; [|constructor]. apply normalize_prefixes_normalised.
  - now apply cmd_norm_remove.
Qed.

(** Whatever was observed (any history, of the model or of the proxy): the
    commanded list has normalised prefixes. *)
Lemma cmd_list_norm h : forall l, cmd_norm l -> cmd_norm (cmd_list_from l h).
Proof.
  induction h as [|o h IH]; intros l Hl; [exact Hl|]. cbn [cmd_list_from fold_left].
  apply IH. now apply cmd_apply_norm.
Qed.

Lemma cmd_list_of_norm h : cmd_norm (cmd_list_of h).
Proof. apply cmd_list_norm. constructor. Qed.

(** The monitor's routing choice is the declarative one ([route_spec] of
    props/C04.v, on the host key of the Host header); with pair-wise distinct
    ownership it is the only answer meeting the specification. *)
Lemma cmd_route_is_spec l host path :
  cmd_norm l ->
  ServiceMapFacts.route_spec (cmd_table l) (request_host_key host) path (route (cmd_table l) host path) /\
  (route (cmd_table l) host path = None <->
   forall lv, ServiceMapFacts.level_of (cmd_table l) (request_host_key host) lv ->
     forall p n, ~ ServiceMapFacts.candidate (cmd_table l) lv path p n) /\
  (pair_owned_once (cmd_table l) = true ->
   forall r, ServiceMapFacts.route_spec (cmd_table l) (request_host_key host) path r ->
     r = route (cmd_table l) host path).
Proof.
  intros H. exact (ServiceMapFacts.route_spec_full (cmd_table l) (request_host_key host) path (cmd_norm_table l H)).
Qed.

(** On model histories the commanded table has pair-wise distinct ownership. *)
Lemma cmd_table_owned_once ig cs reqs :
  plain_history cs ->
  pair_owned_once (cmd_table (cmd_list_of (model_history ig fixed cs reqs))) = true.
Proof.
  intros H. rewrite (cmd_table_of_model ig cs reqs H).
  apply (ServiceMapFacts.reachable_wf fixed cs).
Qed.
