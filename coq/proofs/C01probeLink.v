(** C01probeLink.v — the monitor corr/C01probe.c01_probe_backed_ok decides exactly the
    counting specification of the same file (Part 1): soundness, completeness, and the
    agreement of [c01_probe_backed_fail_at] with it.  Statements: props/C01probe.v.

    Method: [agrees pre m] — after the prefix [pre] the monitor's tables ARE the
    specification's functions of [pre] ([name_of], the four counts), every applied
    target of [pre] has a name in [pre], and the inequalities hold.  It is kept by
    every accepted step ([step_agrees]); a step is refused only if the specification
    fails on the extended prefix ([step_defined]). *)
From KP Require Import model.Base model.Trace corr.C01probe.
Local Open Scope nat_scope.

(** ** Strings, association lists, run *)

Lemma byte_eqb_eq a b : byte_eqb a b = true <-> a = b.
Proof. unfold byte_eqb. split; [apply Byte.byte_dec_bl | apply Byte.byte_dec_lb]. Qed.

Lemma str_eqb_eq a b : str_eqb a b = true <-> a = b.
Proof.
  revert b. induction a as [|x a IH]; intros [|y b]; cbn; split; try congruence; try reflexivity.
  - rewrite andb_true_iff, byte_eqb_eq, IH. intros [-> ->]. reflexivity.
  - intros H. inversion H; subst. rewrite andb_true_iff, byte_eqb_eq, IH. auto.
Qed.

Lemma str_eqb_refl a : str_eqb a a = true.
Proof. now apply str_eqb_eq. Qed.

Lemma str_eqb_neq a b : str_eqb a b = false <-> a <> b.
Proof.
  split.
  - intros H E. apply str_eqb_eq in E. congruence.
  - intros H. destruct (str_eqb a b) eqn:E; [|reflexivity]. apply str_eqb_eq in E. contradiction.
Qed.

Lemma sget_sincr l k q : sget (sincr l k) q = if str_eqb q k then S (sget l q) else sget l q.
Proof.
  induction l as [|[k' v] r IH]; cbn [sincr sget].
  - destruct (str_eqb q k); reflexivity.
  - destruct (str_eqb k k') eqn:Ekk.
    + apply str_eqb_eq in Ekk. subst k'. cbn [sget].
      destruct (str_eqb q k); reflexivity.
    + cbn [sget]. rewrite IH.
      destruct (str_eqb q k') eqn:Eqk; [|reflexivity].
      destruct (str_eqb q k) eqn:Eq2; [|reflexivity].
      apply str_eqb_eq in Eqk. apply str_eqb_eq in Eq2. subst. rewrite str_eqb_refl in Ekk. discriminate.
Qed.

Lemma nget_nset {A} (l : list (nat * A)) k v q :
  nget (nset l k v) q = if Nat.eqb q k then Some v else nget l q.
Proof.
  induction l as [|[k' v'] r IH]; cbn [nset nget].
  - reflexivity.
  - destruct (Nat.eqb k k') eqn:Ekk.
    + apply Nat.eqb_eq in Ekk. subst k'. cbn [nget]. destruct (Nat.eqb q k); reflexivity.
    + cbn [nget]. rewrite IH.
      destruct (Nat.eqb q k') eqn:Eqk; [|reflexivity].
      destruct (Nat.eqb q k) eqn:Eq2; [|reflexivity].
      apply Nat.eqb_eq in Eqk. apply Nat.eqb_eq in Eq2. subst. rewrite Nat.eqb_refl in Ekk. discriminate.
Qed.

Lemma run_app {St} (f : St -> event -> option St) a : forall s b,
  run f s (a ++ b) = match run f s a with Some s' => run f s' b | None => None end.
Proof.
  induction a as [|e a IH]; intros s b; cbn [app run]; [reflexivity|].
  destruct (f s e) as [s'|]; [apply IH|reflexivity].
Qed.

Lemma first_reject_run {St} (f : St -> event -> option St) tr : forall s i,
  first_reject f s tr i = None <-> run f s tr <> None.
Proof.
  induction tr as [|e r IH]; intros s i; cbn [first_reject run].
  - split; [discriminate|reflexivity].
  - destruct (f s e) as [s'|]; [apply IH|]. split; [discriminate|congruence].
Qed.

(** the rejected event and the state before it *)
Lemma first_reject_split {St} (f : St -> event -> option St) tr : forall s i j,
  first_reject f s tr i = Some j ->
  exists pre e post s', tr = pre ++ e :: post /\ j = i + length pre /\
                        run f s pre = Some s' /\ f s' e = None.
Proof.
  induction tr as [|e r IH]; intros s i j H; cbn [first_reject] in H; [discriminate|].
  destruct (f s e) as [s1|] eqn:Ef.
  - destruct (IH s1 (S i) j H) as (pre & e' & post & s' & -> & -> & Hr & Hf).
    exists (e :: pre), e', post, s'. cbn [app run length]. rewrite Ef.
    repeat split; [lia|exact Hr|exact Hf].
  - injection H as <-. exists [], e, r, s. cbn [app run length].
    repeat split; [lia|exact Ef].
Qed.

(** ** The specification, one event at a time *)

Lemma name_of_app a b t :
  name_of (a ++ b) t = match name_of a t with Some n => Some n | None => name_of b t end.
Proof.
  induction a as [|e a IH]; cbn [app name_of]; [reflexivity|].
  destruct (e_k e); try exact IH.
  destruct (Nat.eqb t t0); [reflexivity|exact IH].
Qed.

Lemma name_of_stable a b t n : name_of a t = Some n -> name_of (a ++ b) t = Some n.
Proof. intros H. rewrite name_of_app, H. reflexivity. Qed.

Definition bnat (b : bool) : nat := if b then 1 else 0.

Lemma count_filter_snoc (p : event -> bool) pre e :
  length (filter p (pre ++ [e])) = length (filter p pre) + bnat (p e).
Proof.
  rewrite filter_app, app_length. cbn [filter]. destruct (p e); reflexivity.
Qed.

(** every target that has a result in [pre] has a name in [pre] *)
Definition named (pre : trace) : Prop :=
  forall e t ok p q, In e pre -> e_k e = KProbeApply t ok p q -> name_of pre t <> None.

Lemma result_for_stable b pre x n e : named pre -> In e pre ->
  result_for b (pre ++ x) n e = result_for b pre n e.
Proof.
  intros Hn Hin. unfold result_for. destruct (e_k e) eqn:Ek; try reflexivity.
  destruct (name_of pre t) as [m|] eqn:En.
  - rewrite (name_of_stable pre x t m En). reflexivity.
  - exfalso. exact (Hn e t ok prev new Hin Ek En).
Qed.

Lemma applied_snoc b pre e n : named pre ->
  length (filter (result_for b (pre ++ [e]) n) (pre ++ [e])) =
  length (filter (result_for b pre n) pre) + bnat (result_for b (pre ++ [e]) n e).
Proof.
  intros Hn. rewrite count_filter_snoc. f_equal. f_equal.
  apply filter_ext_in. intros a Ha. apply result_for_stable; assumption.
Qed.

(** ** The invariant *)

Definition sent_tab (m : pbmon) (b : bool) := if b then pb_sent_ok m else pb_sent m.
Definition app_tab (m : pbmon) (b : bool) := if b then pb_app_ok m else pb_app m.
Definition n_sent (b : bool) (n : str) (pre : trace) := length (filter (probe_sent_to b n) pre).
Definition n_app (b : bool) (n : str) (pre : trace) := length (filter (result_for b pre n) pre).

Record agrees (pre : trace) (m : pbmon) : Prop := mkAg {
  ag_names : forall t, nget (pb_names m) t = name_of pre t;
  ag_sent : forall b n, sget (sent_tab m b) n = n_sent b n pre;
  ag_app : forall b n, sget (app_tab m b) n = n_app b n pre;
  ag_named : named pre;
  ag_le : forall b n, n_app b n pre <= n_sent b n pre
}.

Lemma agrees_init : agrees [] pb_init.
Proof.
  constructor.
  - reflexivity.
  - intros [|] n; reflexivity.
  - intros [|] n; reflexivity.
  - intros e t ok p q [].
  - intros b n. cbn. lia.
Qed.

Lemma named_snoc_other pre e : named pre ->
  (forall t ok p q, e_k e = KProbeApply t ok p q -> name_of (pre ++ [e]) t <> None) ->
  named (pre ++ [e]).
Proof.
  intros Hn He a t ok p q Hin Ek. apply in_app_or in Hin. destruct Hin as [Hin|[<-|[]]].
  - destruct (name_of pre t) as [m|] eqn:En.
    + rewrite (name_of_stable pre [e] t m En). discriminate.
    + exfalso. exact (Hn a t ok p q Hin Ek En).
  - exact (He t ok p q Ek).
Qed.

(** an event that is none of KTargetName / KProbeSent / KProbeApply *)
Definition relevant (e : event) : bool :=
  match e_k e with
  | KTargetName _ _ | KProbeSent _ _ | KProbeApply _ _ _ _ => true
  | _ => false
  end.

Lemma irrelevant_step m e : relevant e = false -> pb_step m e = Some m.
Proof. unfold relevant, pb_step. destruct (e_k e); try reflexivity; discriminate. Qed.

Lemma agrees_irrelevant pre m e : relevant e = false -> agrees pre m -> agrees (pre ++ [e]) m.
Proof.
  intros Hr [A1 A2 A3 A4 A5].
  assert (Hname : forall t, name_of (pre ++ [e]) t = name_of pre t).
  { intros t. rewrite name_of_app. destruct (name_of pre t); [reflexivity|].
    unfold relevant in Hr. cbn [name_of]. destruct (e_k e); try reflexivity; discriminate. }
  assert (Hs : forall b n, n_sent b n (pre ++ [e]) = n_sent b n pre).
  { intros b n. unfold n_sent. rewrite count_filter_snoc.
    unfold relevant in Hr. unfold probe_sent_to. destruct (e_k e); try discriminate; cbn [bnat]; lia. }
  assert (Ha : forall b n, n_app b n (pre ++ [e]) = n_app b n pre).
  { intros b n. unfold n_app. rewrite (applied_snoc b pre e n A4).
    unfold relevant in Hr. unfold result_for. destruct (e_k e); try discriminate; cbn [bnat]; lia. }
  constructor.
  - intros t. rewrite Hname. apply A1.
  - intros b n. rewrite Hs. apply A2.
  - intros b n. rewrite Ha. apply A3.
  - apply named_snoc_other; [exact A4|]. intros t ok p q Ek.
    unfold relevant in Hr. rewrite Ek in Hr. discriminate.
  - intros b n. rewrite Hs, Ha. apply A5.
Qed.

(** the three relevant kinds, on the specification side *)

Lemma spec_target_name pre e t n : e_k e = KTargetName t n ->
  (forall q, name_of (pre ++ [e]) q =
             match name_of pre q with Some x => Some x | None => if Nat.eqb q t then Some n else None end) /\
  (forall b x, n_sent b x (pre ++ [e]) = n_sent b x pre) /\
  (named pre -> forall b x, n_app b x (pre ++ [e]) = n_app b x pre).
Proof.
  intros Ek. split; [|split].
  - intros q. rewrite name_of_app. cbn [name_of]. rewrite Ek. reflexivity.
  - intros b x. unfold n_sent. rewrite count_filter_snoc. unfold probe_sent_to. rewrite Ek. cbn [bnat]. lia.
  - intros Hn b x. unfold n_app. rewrite (applied_snoc b pre e x Hn).
    unfold result_for. rewrite Ek. cbn [bnat]. lia.
Qed.

Lemma spec_probe_sent pre e n ok : e_k e = KProbeSent n ok ->
  (forall q, name_of (pre ++ [e]) q = name_of pre q) /\
  (forall b x, n_sent b x (pre ++ [e]) = n_sent b x pre + bnat (str_eqb n x && (negb b || ok))) /\
  (named pre -> forall b x, n_app b x (pre ++ [e]) = n_app b x pre).
Proof.
  intros Ek. split; [|split].
  - intros q. rewrite name_of_app. cbn [name_of]. rewrite Ek. destruct (name_of pre q); reflexivity.
  - intros b x. unfold n_sent. rewrite count_filter_snoc. unfold probe_sent_to. rewrite Ek. reflexivity.
  - intros Hn b x. unfold n_app. rewrite (applied_snoc b pre e x Hn).
    unfold result_for. rewrite Ek. cbn [bnat]. lia.
Qed.

Lemma spec_probe_apply pre e t ok p q n : e_k e = KProbeApply t ok p q -> name_of pre t = Some n ->
  (forall q, name_of (pre ++ [e]) q = name_of pre q) /\
  (forall b x, n_sent b x (pre ++ [e]) = n_sent b x pre) /\
  (named pre -> forall b x, n_app b x (pre ++ [e]) = n_app b x pre + bnat (str_eqb n x && (negb b || ok))).
Proof.
  intros Ek En. split; [|split].
  - intros q0. rewrite name_of_app. cbn [name_of]. rewrite Ek. destruct (name_of pre q0); reflexivity.
  - intros b x. unfold n_sent. rewrite count_filter_snoc. unfold probe_sent_to. rewrite Ek. cbn [bnat]. lia.
  - intros Hn b x. unfold n_app. rewrite (applied_snoc b pre e x Hn).
    unfold result_for. rewrite Ek, (name_of_stable pre [e] t n En). reflexivity.
Qed.

(** the same additions on the monitor's tables *)
Lemma sget_sincr_bnat l k q : sget (sincr l k) q = sget l q + bnat (str_eqb k q).
Proof.
  rewrite sget_sincr. destruct (str_eqb q k) eqn:E.
  - apply str_eqb_eq in E. subst. rewrite str_eqb_refl. cbn [bnat]. lia.
  - apply str_eqb_neq in E. assert (E2 : str_eqb k q = false) by (apply str_eqb_neq; congruence).
    rewrite E2. cbn [bnat]. lia.
Qed.

Lemma step_agrees pre m e m' : agrees pre m -> pb_step m e = Some m' -> agrees (pre ++ [e]) m'.
Proof.
  intros Hag Hstep.
  destruct (relevant e) eqn:Hrel.
  2:{ rewrite (irrelevant_step m e Hrel) in Hstep. injection Hstep as <-.
      apply agrees_irrelevant; assumption. }
  destruct Hag as [A1 A2 A3 A4 A5].
  unfold relevant in Hrel. unfold pb_step in Hstep.
  destruct (e_k e) eqn:Ek; try discriminate Hrel; clear Hrel.
  - (* KProbeSent *)
    rename target_name into n, outcome_ok into ok.
    injection Hstep as <-.
    destruct (spec_probe_sent pre e n ok Ek) as (S1 & S2 & S3). specialize (S3 A4).
    constructor; cbn [pb_names].
    + intros q. rewrite S1. apply A1.
    + intros b x. rewrite S2, <- (A2 b x).
      destruct b; cbn [sent_tab pb_sent pb_sent_ok negb orb].
      * destruct ok; [rewrite sget_sincr_bnat, andb_true_r; reflexivity|].
        rewrite andb_false_r. cbn [bnat]. lia.
      * rewrite sget_sincr_bnat, andb_true_r. reflexivity.
    + intros b x. rewrite S3, <- (A3 b x). destruct b; reflexivity.
    + apply named_snoc_other; [exact A4|]. intros t ok' p q Ek'. rewrite Ek in Ek'. discriminate.
    + intros b x. rewrite S2, S3. specialize (A5 b x). lia.
  - (* KProbeApply *)
    destruct (nget (pb_names m) t) as [n|] eqn:En; [|discriminate].
    rewrite A1 in En.
    destruct (spec_probe_apply pre e t ok prev new n Ek En) as (S1 & S2 & S3). specialize (S3 A4).
    destruct (S (sget (pb_app m) n) <=? sget (pb_sent m) n) eqn:C1; [|discriminate].
    apply Nat.leb_le in C1. cbn [andb] in Hstep.
    destruct (negb ok || (S (sget (pb_app_ok m) n) <=? sget (pb_sent_ok m) n)) eqn:C2; [|discriminate].
    injection Hstep as <-.
    constructor; cbn [pb_names].
    + intros q. rewrite S1. apply A1.
    + intros b x. rewrite S2, <- (A2 b x). destruct b; reflexivity.
    + intros b x. rewrite S3, <- (A3 b x).
      destruct b; cbn [app_tab pb_app pb_app_ok negb orb].
      * destruct ok; [rewrite sget_sincr_bnat, andb_true_r; reflexivity|].
        rewrite andb_false_r. cbn [bnat]. lia.
      * rewrite sget_sincr_bnat, andb_true_r. reflexivity.
    + apply named_snoc_other; [exact A4|]. intros t' ok' p q Ek'.
      rewrite Ek in Ek'. injection Ek' as <- <- <- <-.
      rewrite (name_of_stable pre [e] t n En). discriminate.
    + intros b x. rewrite S2, S3.
      destruct (str_eqb n x) eqn:Enx.
      2:{ cbn [andb bnat]. specialize (A5 b x). lia. }
      apply str_eqb_eq in Enx. subst x. cbn [andb].
      destruct b; cbn [negb orb].
      * destruct ok; cbn [bnat]; [|specialize (A5 true n); lia].
        cbn [negb orb] in C2. apply Nat.leb_le in C2.
        rewrite <- (A3 true n), <- (A2 true n). cbn [app_tab sent_tab]. lia.
      * cbn [bnat]. rewrite <- (A3 false n), <- (A2 false n). cbn [app_tab sent_tab]. lia.
  - (* KTargetName *)
    rename t into t0, name into n.
    destruct (spec_target_name pre e t0 n Ek) as (S1 & S2 & S3). specialize (S3 A4).
    assert (Hnames : forall q, nget (pb_names m') q = name_of (pre ++ [e]) q).
    { intros q. rewrite S1, <- (A1 q).
      destruct (nget (pb_names m) t0) as [x0|] eqn:E0.
      - injection Hstep as <-. destruct (nget (pb_names m) q) eqn:Eq; [reflexivity|].
        destruct (Nat.eqb q t0) eqn:Eqt; [|reflexivity].
        apply Nat.eqb_eq in Eqt. subst q. congruence.
      - injection Hstep as <-. cbn [pb_names]. rewrite nget_nset.
        destruct (Nat.eqb q t0) eqn:Eqt.
        + apply Nat.eqb_eq in Eqt. subst q. rewrite E0. reflexivity.
        + destruct (nget (pb_names m) q); reflexivity. }
    assert (Htabs : sent_tab m' = sent_tab m /\ app_tab m' = app_tab m).
    { destruct (nget (pb_names m) t0); injection Hstep as <-; split; reflexivity. }
    destruct Htabs as [T1 T2].
    constructor.
    + exact Hnames.
    + intros b x. rewrite T1, S2. apply A2.
    + intros b x. rewrite T2, S3. apply A3.
    + apply named_snoc_other; [exact A4|]. intros t' ok' p q Ek'. rewrite Ek in Ek'. discriminate.
    + intros b x. rewrite S2, S3. apply A5.
Qed.

Lemma run_agrees : forall pre m, run pb_step pb_init pre = Some m -> agrees pre m.
Proof.
  induction pre as [|e pre IH] using rev_ind; intros m Hrun.
  - cbn in Hrun. injection Hrun as <-. exact agrees_init.
  - rewrite run_app in Hrun. destruct (run pb_step pb_init pre) as [m0|] eqn:Hr0; [|discriminate].
    cbn [run] in Hrun. destruct (pb_step m0 e) as [m1|] eqn:Hs; [|discriminate].
    injection Hrun as <-. exact (step_agrees pre m0 e m1 (IH m0 eq_refl) Hs).
Qed.

(** ** Soundness *)

Lemma probe_backed_sound : forall tr, c01_probe_backed_ok tr = true ->
  forall pre post, tr = pre ++ post ->
  forall n, count_applied n pre <= count_sent n pre /\ count_applied_ok n pre <= count_sent_ok n pre.
Proof.
  intros tr Hok pre post -> n. unfold c01_probe_backed_ok in Hok. rewrite run_app in Hok.
  destruct (run pb_step pb_init pre) as [m|] eqn:Hr; [|discriminate].
  destruct (run_agrees pre m Hr) as [_ _ _ _ A5].
  split; [exact (A5 false n)|exact (A5 true n)].
Qed.

(** under the monitor, every result is for a target that already has its name *)
Lemma probe_backed_named : forall tr, c01_probe_backed_ok tr = true ->
  forall pre e post t ok p q, tr = pre ++ e :: post -> e_k e = KProbeApply t ok p q ->
  name_of pre t <> None.
Proof.
  intros tr Hok pre e post t ok p q -> Ek. unfold c01_probe_backed_ok in Hok. rewrite run_app in Hok.
  destruct (run pb_step pb_init pre) as [m|] eqn:Hr; [|discriminate].
  destruct (run_agrees pre m Hr) as [A1 _ _ _ _].
  cbn [run] in Hok. unfold pb_step in Hok. rewrite Ek, A1 in Hok.
  destruct (name_of pre t); [discriminate|discriminate].
Qed.

(** ** Completeness *)

(** a step is refused only for a result without a name or a result that breaks a count *)
Lemma step_defined pre m e : agrees pre m ->
  (forall t ok p q, e_k e = KProbeApply t ok p q -> name_of pre t <> None) ->
  (forall n, count_applied n (pre ++ [e]) <= count_sent n (pre ++ [e]) /\
             count_applied_ok n (pre ++ [e]) <= count_sent_ok n (pre ++ [e])) ->
  pb_step m e <> None.
Proof.
  intros [A1 A2 A3 A4 A5] Hname Hle.
  unfold pb_step. destruct (e_k e) eqn:Ek; try discriminate.
  - destruct (nget (pb_names m) t) as [n|] eqn:En.
    2:{ rewrite A1 in En. exfalso. exact (Hname t ok prev new eq_refl En). }
    rewrite A1 in En.
    destruct (spec_probe_apply pre e t ok prev new n Ek En) as (_ & S2 & S3). specialize (S3 A4).
    destruct (Hle n) as [L1 L2].
    change (n_app false n (pre ++ [e]) <= n_sent false n (pre ++ [e])) in L1.
    change (n_app true n (pre ++ [e]) <= n_sent true n (pre ++ [e])) in L2.
    rewrite S2, S3, str_eqb_refl in L1, L2. cbn [andb negb orb bnat] in L1, L2.
    rewrite <- (A3 false n), <- (A2 false n) in L1. cbn [app_tab sent_tab] in L1.
    assert (C1 : (S (sget (pb_app m) n) <=? sget (pb_sent m) n) = true) by (apply Nat.leb_le; lia).
    rewrite C1. cbn [andb].
    destruct ok; cbn [negb orb]; [|discriminate].
    cbn [bnat] in L2. rewrite <- (A3 true n), <- (A2 true n) in L2. cbn [app_tab sent_tab] in L2.
    assert (C2 : (S (sget (pb_app_ok m) n) <=? sget (pb_sent_ok m) n) = true) by (apply Nat.leb_le; lia).
    rewrite C2. discriminate.
  - destruct (nget (pb_names m) t); discriminate.
Qed.

Lemma probe_backed_complete : forall tr,
  (forall pre post, tr = pre ++ post ->
     forall n, count_applied n pre <= count_sent n pre /\ count_applied_ok n pre <= count_sent_ok n pre) ->
  (forall pre e post t ok p q, tr = pre ++ e :: post -> e_k e = KProbeApply t ok p q -> name_of pre t <> None) ->
  c01_probe_backed_ok tr = true.
Proof.
  intros tr Hle Hname.
  assert (Hpre : forall pre post, tr = pre ++ post -> run pb_step pb_init pre <> None).
  { induction pre as [|e pre IH] using rev_ind; intros post Htr.
    - cbn. discriminate.
    - rewrite <- app_assoc in Htr. cbn [app] in Htr.
      rewrite run_app. destruct (run pb_step pb_init pre) as [m|] eqn:Hr.
      2:{ exact (IH (e :: post) Htr). }
      cbn [run].
      assert (Hs : pb_step m e <> None).
      { apply (step_defined pre m e (run_agrees pre m Hr)).
        - intros t ok p q Ek. exact (Hname pre e post t ok p q Htr Ek).
        - apply (Hle (pre ++ [e]) post). rewrite <- app_assoc. exact Htr. }
      destruct (pb_step m e); [discriminate|exact Hs]. }
  unfold c01_probe_backed_ok. specialize (Hpre tr [] (eq_sym (app_nil_r tr))).
  destruct (run pb_step pb_init tr); [reflexivity|congruence].
Qed.

(** ** The diagnostic index *)

Lemma probe_backed_fail_at_none tr : c01_probe_backed_fail_at tr = None <-> c01_probe_backed_ok tr = true.
Proof.
  unfold c01_probe_backed_fail_at, c01_probe_backed_ok. rewrite first_reject_run.
  destruct (run pb_step pb_init tr); split; congruence.
Qed.

(** what a failure index points at: the first result that has no name yet or that is
    not backed — everything before it satisfies the specification *)
Lemma probe_backed_fail_at_some tr i : c01_probe_backed_fail_at tr = Some i ->
  exists pre e post t ok p q,
    tr = pre ++ e :: post /\ i = length pre /\ e_k e = KProbeApply t ok p q /\
    c01_probe_backed_ok pre = true /\
    (name_of pre t = None \/
     exists n, name_of pre t = Some n /\
       (count_sent n pre <= count_applied n pre \/ (ok = true /\ count_sent_ok n pre <= count_applied_ok n pre))).
Proof.
  unfold c01_probe_backed_fail_at. intros H.
  destruct (first_reject_split pb_step tr pb_init 0 i H) as (pre & e & post & m & Htr & Hi & Hr & Hs).
  destruct (run_agrees pre m Hr) as [A1 A2 A3 A4 A5].
  unfold pb_step in Hs. destruct (e_k e) eqn:Ek; try discriminate Hs.
  2:{ destruct (nget (pb_names m) t); discriminate Hs. }
  exists pre, e, post, t, ok, prev, new.
  split; [exact Htr|]. split; [lia|]. split; [exact Ek|].
  split; [unfold c01_probe_backed_ok; rewrite Hr; reflexivity|].
  rewrite A1 in Hs. destruct (name_of pre t) as [n|] eqn:En; [right|left; reflexivity].
  exists n. split; [reflexivity|].
  pose proof (A2 false n) as B1. pose proof (A2 true n) as B2.
  pose proof (A3 false n) as B3. pose proof (A3 true n) as B4.
  cbn [sent_tab app_tab] in B1, B2, B3, B4.
  change (n_sent false n pre) with (count_sent n pre) in B1.
  change (n_sent true n pre) with (count_sent_ok n pre) in B2.
  change (n_app false n pre) with (count_applied n pre) in B3.
  change (n_app true n pre) with (count_applied_ok n pre) in B4.
  destruct (S (sget (pb_app m) n) <=? sget (pb_sent m) n) eqn:C1.
  - cbn [andb] in Hs. destruct ok; cbn [negb orb] in Hs; [|discriminate Hs].
    destruct (S (sget (pb_app_ok m) n) <=? sget (pb_sent_ok m) n) eqn:C2; [discriminate Hs|].
    apply Nat.leb_gt in C2. right. split; [reflexivity|lia].
  - apply Nat.leb_gt in C1. left. lia.
Qed.
