(** M5timeFacts5.v — how targets and balancers evolve (a stopped loop stays stopped). *)
From Coq Require Import ZifyN ZifyNat ZifyBool.
From KP Require Import model.Base model.Trace model.M5time proofs.M5timeFacts proofs.M5timeFacts2 proofs.M5timeFacts3 proofs.M5timeFacts4.
Local Open Scope N_scope.

(** ** How targets and balancers evolve *)

Definition known (s : state) (t : nat) : Prop := nget (tgts s) t <> None.
Definition has_lb (s : state) (lb : nat) : Prop := nget (lbs s) lb <> None.

Definition ext (s s' : state) : Prop :=
  (forall t, known s t -> known s' t /\ (tgt_probing s' t = true -> tgt_probing s t = true)) /\
  (forall lb l, nget (lbs s) lb = Some l ->
     exists l', nget (lbs s') lb = Some l' /\ l_targets l' = l_targets l /\ l_owner l' = l_owner l) /\
  (forall lb l', nget (lbs s') lb = Some l' ->
     (exists l, nget (lbs s) lb = Some l /\ l_targets l' = l_targets l) \/
     (forall t, In t (l_targets l') -> known s' t)).

Lemma ext_refl s : ext s s.
Proof. split; [intros t H; split; auto|split; [intros lb l H; exists l; auto|intros lb l H; left; exists l; auto]]. Qed.

Lemma ext_trans a b c : ext a b -> ext b c -> ext a c.
Proof.
  intros (A1 & A2 & A3) (B1 & B2 & B3). split; [|split].
  - intros t H. destruct (A1 _ H) as [K1 P1]. destruct (B1 _ K1) as [K2 P2]. split; auto.
  - intros lb l H. destruct (A2 _ _ H) as (l1 & H1 & T1 & O1). destruct (B2 _ _ H1) as (l2 & H2 & T2 & O2).
    exists l2; repeat split; congruence.
  - intros lb l2 H. destruct (B3 _ _ H) as [(l1 & H1 & T1)|K]; [|right; exact K].
    destruct (A3 _ _ H1) as [(l0 & H0 & T0)|K].
    + left. exists l0; split; [exact H0|congruence].
    + right. intros t Ht. rewrite T1 in Ht. exact (proj1 (B1 _ (K _ Ht))).
Qed.

(** only the tgts / lbs fields matter *)
Lemma ext_fields s s' : tgts s' = tgts s -> lbs s' = lbs s -> ext s s'.
Proof.
  intros Ht Hl. unfold ext, known, tgt_probing. rewrite Ht, Hl.
  split; [intros t H; split; auto|split; [intros lb l H; exists l; auto|intros lb l H; left; exists l; auto]].
Qed.

Lemma ext_congr s s1 s' : tgts s' = tgts s1 -> lbs s' = lbs s1 -> ext s s1 -> ext s s'.
Proof. intros Ht Hl H. eapply ext_trans; [exact H|]. apply ext_fields; assumption. Qed.

(** updating one known target without switching its loop on *)
Lemma ext_tgt st t x x' :
  nget (tgts st) t = Some x -> (t_probing x' = true -> t_probing x = true) ->
  ext st (upd_tgts st (nset (tgts st) t x')).
Proof.
  intros Hx Hp. split.
  - intros t0 H. unfold known, tgt_probing in *. cbn [tgts upd_tgts]. rewrite nget_nset.
    destruct (Nat.eqb t0 t) eqn:E.
    + apply Nat.eqb_eq in E; subst t0. rewrite Hx. split; [discriminate|exact Hp].
    + split; auto.
  - split; [intros lb l H; exists l; auto|intros lb l H; left; exists l; auto].
Qed.

Lemma ext_set_probing st t : ext st (set_probing st t false).
Proof.
  unfold set_probing. destruct (nget (tgts st) t) as [x|] eqn:Hx; [|apply ext_refl].
  apply ext_tgt with x; [exact Hx|]. cbn. discriminate.
Qed.

Lemma ext_mark_disposed st lb : ext st (mark_disposed st lb).
Proof.
  unfold mark_disposed. destruct (nget (lbs st) lb) as [l|] eqn:Hl; [|apply ext_refl].
  split; [intros t H; split; auto|split].
  - intros lb0 l0 H. cbn [lbs upd_lbs]. rewrite nget_nset. destruct (Nat.eqb lb0 lb) eqn:E.
    + apply Nat.eqb_eq in E; subst lb0. rewrite Hl in H; injection H as <-. eexists; split; [reflexivity|split; reflexivity].
    + exists l0; auto.
  - intros lb0 l0. cbn [lbs upd_lbs]. rewrite nget_nset. destruct (Nat.eqb lb0 lb) eqn:E.
    + apply Nat.eqb_eq in E; subst lb0. intros H; injection H as <-. left. exists l; split; [exact Hl|reflexivity].
    + intros H; left; exists l0; auto.
Qed.

Lemma nget_fold_fresh (ts : list nat) (lb : nat) (acc : list (nat * tgt)) t :
  nmem t ts = false ->
  nget (fold_left (fun acc t => nset acc t (mkT lb true None [] [])) ts acc) t = nget acc t.
Proof.
  revert acc; induction ts as [|t0 ts IH]; intros acc H; cbn [fold_left]; [reflexivity|].
  unfold nmem in H. cbn [existsb] in H. apply orb_false_iff in H. destruct H as [H1 H2].
  rewrite IH; [|exact H2]. rewrite nget_nset, H1. reflexivity.
Qed.

Lemma nget_fold_in (ts : list nat) (lb : nat) (acc : list (nat * tgt)) t :
  nget acc t <> None \/ In t ts ->
  nget (fold_left (fun acc t => nset acc t (mkT lb true None [] [])) ts acc) t <> None.
Proof.
  revert acc; induction ts as [|t0 ts IH]; intros acc H; cbn [fold_left].
  - destruct H as [H|[]]; exact H.
  - apply IH. destruct H as [H|[H|H]].
    + left. rewrite nget_nset. destruct (Nat.eqb t t0); [discriminate|exact H].
    + subst t0. left. rewrite nget_nset_same. discriminate.
    + right; exact H.
Qed.

Lemma new_lb_ext st lb ts o st1 : new_lb st lb ts o = Some st1 -> ext st st1.
Proof.
  unfold new_lb. destruct (nget (lbs st) lb) eqn:Hlb; [discriminate|].
  destruct (existsb _ ts) eqn:Hex; [discriminate|]. intros H; injection H as <-.
  split.
  - intros t H. unfold known, tgt_probing in *. cbn [tgts upd_lbs upd_tgts].
    assert (Hn : nmem t ts = false).
    { destruct (nmem t ts) eqn:Hm; [|reflexivity]. exfalso.
      unfold nmem in Hm. apply existsb_exists in Hm. destruct Hm as (t' & Hin & Heq). apply Nat.eqb_eq in Heq; subst t'.
      assert (X : existsb (fun t0 => match nget (tgts st) t0 with Some _ => true | None => false end) ts = true).
      { apply existsb_exists. exists t; split; [exact Hin|]. destruct (nget (tgts st) t); [reflexivity|contradiction]. }
      rewrite X in Hex; discriminate. }
    rewrite nget_fold_fresh; [|exact Hn]. split; auto.
  - split.
    + intros lb0 l H. cbn [lbs upd_lbs upd_tgts]. rewrite nget_nset. destruct (Nat.eqb lb0 lb) eqn:E.
      * apply Nat.eqb_eq in E; subst lb0. rewrite Hlb in H; discriminate.
      * exists l; auto.
    + intros lb0 l'. cbn [lbs upd_lbs upd_tgts]. rewrite nget_nset. destruct (Nat.eqb lb0 lb) eqn:E.
      * intros H; injection H as <-. right. cbn [l_targets]. intros t Ht. unfold known. cbn [tgts upd_lbs upd_tgts].
        apply nget_fold_in. right; exact Ht.
      * intros H; left; exists l'; auto.
Qed.

Lemma own_step_ext p st c cm e s' : own_step p st c cm e = Some s' -> ext st s'.
Proof.
  unfold own_step.
  destruct (own_time_ok st cm (e_t e)); cbn [negb]; [|discriminate].
  destruct (e_k e) eqn:Hk.
  all: try (inv_some; apply ext_set_probing).
  all: destruct (disp_ok st cm); cbn [negb]; [|discriminate].
  all: destruct (tc_ok st cm _ (e_t e)); cbn [negb]; [|discriminate].
  all: destruct (is_gate (c_phase cm) && negb (cont_ok st c cm)); [discriminate|].
  all: cbv zeta.
  all: destruct (c_phase cm) eqn:Hph; cbn [is_gate].
  all: repeat match goal with
              | |- (match ?x with _ => _ end) = Some _ -> _ => destruct x eqn:?
              | |- (if ?x then _ else _) = Some _ -> _ => destruct x eqn:?
              end.
  all: try (inv_some; fail).
  all: inv_some.
  all: unfold put; (eapply ext_congr; [reflexivity|reflexivity|]).
  all: first [apply ext_refl | apply ext_mark_disposed | apply ext_fields; reflexivity
             | eapply ext_trans; [eapply new_lb_ext; eassumption|apply ext_fields; reflexivity]].
Qed.

Lemma step_ext p st0 e s' : step_gen p st0 e = Some s' -> ext st0 s'.
Proof.
  unfold step_gen.
  destruct (e_t e <? clock st0); [discriminate|].
  intros H. apply ext_trans with (upd_clock st0 (e_t e)); [apply ext_fields; reflexivity|]. revert H.
  set (st := upd_clock st0 (e_t e)) in *. clearbody st. cbv zeta.
  destruct (e_k e) eqn:Hk.
  all: try (destruct (e_by e) eqn:Hby;
            [inv_some; apply ext_refl
            |destruct (nget (cmds st) c) eqn:Hc; [intros H; eapply own_step_ext; eassumption|inv_some; apply ext_refl]
            |inv_some; apply ext_refl|inv_some; apply ext_refl]; fail).
  all: try (step_destruct; try (inv_some; fail); inv_some; apply ext_fields; reflexivity).
  - destruct (nget (cmds st) c) as [cm|]; [|discriminate].
    destruct (actor_eqb (e_by e) (ACmd c)); [|discriminate]. intros H; exact (own_step_ext _ _ _ _ _ _ H).
  - destruct (e_by e); [|destruct (nget (cmds st) c) eqn:Hc; [intros H; exact (own_step_ext _ _ _ _ _ _ H)|inv_some; apply ext_refl]| |];
      intros H; exact (new_lb_ext _ _ _ _ _ H).
  - destruct (e_by e); [|destruct (nget (cmds st) c) eqn:Hc; [intros H; exact (own_step_ext _ _ _ _ _ _ H)|inv_some; apply ext_refl]| |];
      inv_some; apply ext_mark_disposed.
  - (* KClaim *)
    destruct (nget (tgts st) t) as [x|] eqn:Hx; inv_some; [|apply ext_refl].
    apply ext_tgt with x; [exact Hx|cbn; auto].
  - (* KEnd *)
    inv_some. destruct (nget (tgts st) t) as [x|] eqn:Hx.
    + eapply ext_congr; [reflexivity|reflexivity|]. apply ext_tgt with x; [exact Hx|cbn; auto].
    + apply ext_fields; reflexivity.
  - (* KWaiter *)
    destruct (nget (tgts st) t) as [x|] eqn:Hx; [|discriminate].
    step_destruct; try (inv_some; fail). inv_some.
    unfold put. eapply ext_congr; [reflexivity|reflexivity|].
    apply ext_tgt with x; [exact Hx|]. cbn. intros H; apply andb_prop in H; tauto.
  - destruct (e_by e); [|destruct (nget (cmds st) c) eqn:Hc; [intros H; exact (own_step_ext _ _ _ _ _ _ H)|inv_some; apply ext_refl]| |];
      inv_some; apply ext_set_probing.
  - (* cancel-rest *)
    step_destruct; try (inv_some; fail). inv_some. unfold set_drain.
    destruct (nget (tgts st) t) as [x|] eqn:Hx; [|apply ext_fields; reflexivity].
    eapply ext_trans; [apply ext_tgt with (x := x) (x' := mkT (t_lb x) (t_probing x) (t_wait x) (t_inflight x)
                          (filter (fun r => nmem r (t_inflight x)) l ++ t_cancelled x)); [exact Hx|cbn; auto]|].
    apply ext_fields; reflexivity.
Qed.
