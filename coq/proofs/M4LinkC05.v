(** M4LinkC05.v — Part 3 of the M4 link: the C05 monitor of corr/M4corr.v is
    true on every history the model produces (either variant). *)
From KP Require Import model.Base model.ServiceMap model.Seq corr.M4corr
  proofs.ServiceMapFacts proofs.M4Link proofs.M4LinkSort.
From KP Require proofs.SeqInv.
From Coq Require Import Permutation.

(** [pair_owned_once] only looks at which services are in the table... *)
Lemma pair_owned_once_perm t1 t2 : Permutation t1 t2 -> pair_owned_once t1 = pair_owned_once t2.
Proof.
  intros P. apply Bool.eq_true_iff_eq. rewrite !pair_owned_once_iff.
  assert (Hb : forall h p n, binds t1 h p n <-> binds t2 h p n).
  { intros h p n. unfold binds. split; intros (s & Hs & H); exists s; (split; [|exact H]).
    - eapply Permutation_in; eauto.
    - eapply Permutation_in; [apply Permutation_sym|]; eauto. }
  unfold owned_once. split; intros H h p n1 n2 B1 B2; apply (H h p n1 n2); now apply Hb.
Qed.

(** ...and only at their names, hosts and prefixes: the table read from a
    state file is the table of the saved services. *)
Lemma snap_table_snap_of l : snap_table (map snap_of l) = table_of l.
Proof. unfold snap_table, table_of. rewrite map_map. apply map_ext. reflexivity. Qed.

Lemma snap_table_sorted l :
  pair_owned_once (snap_table (sort_by sn_name (map snap_of l))) = pair_owned_once (table_of l).
Proof.
  rewrite <- snap_table_snap_of. apply pair_owned_once_perm.
  unfold snap_table. apply Permutation_map, sort_by_perm.
Qed.

Lemma c05_step_model ig st c r reqs :
  (forall saved, st_disk st = Some saved -> pair_owned_once (table_of saved) = true) ->
  c05_step_ok (state_obs ig st c r reqs) = true.
Proof.
  intros H. unfold c05_step_ok. cbn [so_snapshot state_obs]. unfold snapshot_of.
  destruct (st_disk st) as [saved|]; [|reflexivity].
  rewrite snap_table_sorted. now apply H.
Qed.

Lemma c05_from ig v reqs cs : forall cs0,
  c05_ok (model_history_from ig v (exec_all v init_state cs0) cs reqs) = true.
Proof.
  induction cs as [|c cs IH]; intros cs0; [reflexivity|].
  rewrite model_history_cons. unfold c05_ok in *. cbn [forallb].
  replace (snd (exec v (exec_all v init_state cs0) c)) with (exec_all v init_state (cs0 ++ [c]))
    by (now rewrite SeqInv.exec_all_app).
  rewrite IH, Bool.andb_true_r. apply c05_step_model.
  intros saved Hd. destruct (reachable_ok v (cs0 ++ [c])) as (_ & _ & H). now apply H.
Qed.

Lemma c05_of_model ig v cs reqs : c05_ok (model_history ig v cs reqs) = true.
Proof. exact (c05_from ig v reqs cs []). Qed.
