(** M5pathFacts.v — facts about the routing / balancer / drain view
    (model/M5path.v) behind props/C07.v. *)
From KP Require Import model.Base model.Trace model.M5path proofs.M5gateFacts.
Local Open Scope N_scope.

(** * Strings as keys *)

Lemma seqb_eq (a b : str) : str_eqb a b = true <-> a = b.
Proof.
  revert b. induction a as [|x a IH]; intros [|y b]; cbn; split; intros H; try discriminate; auto.
  - apply andb_true_iff in H as [H1 H2]. unfold byte_eqb in H1. apply Byte.byte_dec_bl in H1.
    apply IH in H2. now subst.
  - injection H as -> ->. apply andb_true_iff. split; [apply Byte.byte_dec_lb; reflexivity|now apply IH].
Qed.

Lemma seqb_refl a : str_eqb a a = true.
Proof. now apply seqb_eq. Qed.

Lemma seqb_neq a b : str_eqb a b = false <-> a <> b.
Proof.
  split.
  - intros H E. apply seqb_eq in E. congruence.
  - intros H. destruct (str_eqb a b) eqn:E; [|reflexivity]. apply seqb_eq in E. contradiction.
Qed.

Lemma sget_sset {A} (l : list (str * A)) k k' v :
  sget (sset l k v) k' = if str_eqb k' k then Some v else sget l k'.
Proof.
  induction l as [|[k0 v0] l IH]; cbn [sset sget].
  - reflexivity.
  - destruct (str_eqb k k0) eqn:E; cbn [sget].
    + apply seqb_eq in E. subst k0. now destruct (str_eqb k' k).
    + destruct (str_eqb k' k0) eqn:E0.
      * apply seqb_eq in E0. subst k0. destruct (str_eqb k' k) eqn:E1; [|reflexivity].
        apply seqb_eq in E1. subst. rewrite seqb_refl in E. discriminate.
      * exact IH.
Qed.

Lemma sget_sdel {A} (l : list (str * A)) k k' :
  sget (sdel l k) k' = if str_eqb k' k then None else sget l k'.
Proof.
  induction l as [|[k0 v0] l IH]; cbn [sdel sget].
  - now destruct (str_eqb k' k).
  - destruct (str_eqb k k0) eqn:E; cbn [sget].
    + apply seqb_eq in E. subst k0. rewrite IH. now destruct (str_eqb k' k).
    + rewrite IH. destruct (str_eqb k' k0) eqn:E0; [|reflexivity].
      apply seqb_eq in E0. subst k0. destruct (str_eqb k' k) eqn:E1; [|reflexivity].
      apply seqb_eq in E1. subst. rewrite seqb_refl in E. discriminate.
Qed.

(** * Cracking one step *)

Ltac crack H :=
  unfold pstep in H;
  repeat match type of H with
         | context [match ?x with _ => _ end] => destruct x eqn:?
         | context [if ?x then _ else _] => destruct x eqn:?
         end;
  try discriminate; try (injection H as <-).

(** * Names never change *)

Lemma pstep_name_mono s e s' x n :
  pstep s e = Some s' -> nget (p_name s) x = Some n -> nget (p_name s') x = Some n.
Proof.
  intros H Hx. crack H; cbn; auto.
  rewrite nget_nset. destruct (Nat.eqb x svc) eqn:E; [|exact Hx]. apply Nat.eqb_eq in E. subst. congruence.
Qed.

Lemma run_name_mono l : forall s s' x n,
  run pstep s l = Some s' -> nget (p_name s) x = Some n -> nget (p_name s') x = Some n.
Proof.
  induction l as [|e l IH]; intros s s' x n Hrun Hx; cbn [run] in Hrun.
  - injection Hrun as <-. exact Hx.
  - destruct (pstep s e) as [s1|] eqn:E; [|discriminate]. eapply IH; [exact Hrun|].
    eapply pstep_name_mono; eassumption.
Qed.

(** * The installed object of a name changes only by an install / removal under that name *)

Definition reinstalls (e : event) (svc : nat) : Prop := e_k e = KInstall svc true \/ e_k e = KRemoved svc.

Lemma pstep_installed_other s e s' n :
  pstep s e = Some s' ->
  (forall svc, reinstalls e svc -> nget (p_name s) svc <> Some n) ->
  installed s' n = installed s n.
Proof.
  intros H Hn. unfold reinstalls in Hn. crack H; unfold installed; cbn; auto.
  all: try (rewrite sget_sset; destruct (str_eqb n s0) eqn:E; [|reflexivity];
            apply seqb_eq in E; subst; exfalso; eapply Hn; [left; reflexivity|assumption]).
  rewrite sget_sdel. destruct (str_eqb n s0) eqn:E; [|reflexivity].
  apply seqb_eq in E. subst. exfalso. eapply Hn; [right; reflexivity|assumption].
Qed.

Lemma pstep_reinstall_named s e s' svc :
  pstep s e = Some s' -> reinstalls e svc -> exists m, nget (p_name s) svc = Some m.
Proof.
  intros H [Hk|Hk]; unfold pstep in H; rewrite Hk in H.
  - destruct (nget (p_name s) svc) as [m|]; [eauto|discriminate].
  - destruct (nget (p_name s) svc) as [m|]; [eauto|discriminate].
Qed.

(** A request goes on with the object it was routed to; if no other object was
    installed under the service's name (and the service was not removed)
    between the routing and the pick, that object is still the installed one
    and the picked balancer is one of its balancers at that moment. *)
Lemma installed_kept mid : forall s1 tail s svc n,
  run pstep s1 (mid ++ tail) = Some s ->
  nget (p_name s1) svc = Some n -> installed s1 n = Some svc ->
  (forall e svc', In e mid -> reinstalls e svc' -> name_of s svc' <> name_of s svc) ->
  exists s2, run pstep s1 mid = Some s2 /\ run pstep s2 tail = Some s /\
             nget (p_name s2) svc = Some n /\ installed s2 n = Some svc.
Proof.
  induction mid as [|e mid IH]; intros s1 tail s svc n Hrun Hname Hinst Hno.
  - exists s1. cbn [app] in Hrun. cbn [run]. auto.
  - cbn [app run] in Hrun. destruct (pstep s1 e) as [sx|] eqn:E; [|discriminate].
    assert (Hname' : nget (p_name sx) svc = Some n) by (eapply pstep_name_mono; eassumption).
    assert (Hfin : name_of s svc = n).
    { unfold name_of. now rewrite (run_name_mono _ _ _ _ _ Hrun Hname'). }
    assert (Hinst' : installed sx n = Some svc).
    { rewrite (pstep_installed_other _ _ _ n E); [exact Hinst|].
      intros svc' Hre Hm. apply (Hno e svc' (or_introl eq_refl) Hre). rewrite Hfin.
      unfold name_of. erewrite run_name_mono; [reflexivity|exact Hrun|].
      eapply pstep_name_mono; eassumption. }
    destruct (IH sx tail s svc n Hrun Hname' Hinst') as (s2 & R1 & R2 & N2 & I2).
    { intros e' svc' Hin. apply Hno. now right. }
    exists s2. cbn [run]. rewrite E. auto.
Qed.

Lemma in_slot_balancers s svc lb : in_slot (slots_of s svc) lb = true -> In lb (balancers s svc).
Proof.
  unfold in_slot, balancers. destruct (slots_of s svc) as [[a|] [b|]]; cbn [fst snd]; intros H;
    repeat match goal with
           | H : (_ || _) = true |- _ => apply orb_true_iff in H as [H|H]
           | H : Nat.eqb _ _ = true |- _ => apply Nat.eqb_eq in H; subst
           end; try discriminate; cbn; auto.
Qed.

Theorem pick_current pre mid post e1 e2 r svc lb s :
  run pstep pinit (pre ++ e1 :: mid ++ e2 :: post) = Some s ->
  e_k e1 = KRouted r (Some svc) -> e_k e2 = KPick r svc (Some lb) ->
  (forall e svc', In e mid -> reinstalls e svc' -> name_of s svc' <> name_of s svc) ->
  exists s2 n, run pstep pinit (pre ++ e1 :: mid) = Some s2 /\
               nget (p_name s2) svc = Some n /\ installed s2 n = Some svc /\ In lb (balancers s2 svc).
Proof.
  intros Hrun K1 K2 Hno. apply run_split in Hrun as (s0 & s1 & R0 & S1 & Hrun).
  assert (H1 : exists n, nget (p_name s1) svc = Some n /\ installed s1 n = Some svc).
  { unfold pstep in S1. rewrite K1 in S1. destruct (nget (p_req s0) r); [discriminate|].
    destruct (nget (p_name s0) svc) as [n|] eqn:En; [|discriminate].
    destruct (installed s0 n) as [x|] eqn:Ei; [|discriminate].
    destruct (Nat.eqb x svc) eqn:Ex; [|discriminate]. apply Nat.eqb_eq in Ex. subst x.
    injection S1 as <-. exists n. split; assumption. }
  destruct H1 as (n & Hname & Hinst).
  destruct (installed_kept mid s1 (e2 :: post) s svc n Hrun Hname Hinst Hno) as (s2 & R1 & R2 & N2 & I2).
  exists s2, n. split.
  { rewrite run_app, R0. cbn [run]. now rewrite S1. }
  split; [exact N2|]. split; [exact I2|].
  cbn [run] in R2. destruct (pstep s2 e2) as [s3|] eqn:S3; [|discriminate].
  unfold pstep in S3. rewrite K2 in S3. destruct (nget (p_req s2) r) as [q|]; [|discriminate].
  destruct (Nat.eqb (pr_svc q) svc && in_slot (slots_of s2 svc) lb && onat_eq (pr_lb q) None) eqn:Ec; [|discriminate].
  apply andb_true_iff in Ec as [Ec _]. apply andb_true_iff in Ec as [_ Ec]. now apply in_slot_balancers.
Qed.

(** * A draining target was marked, and marks happen only in a drain phase *)

(** events that take target [t] out of the draining state *)
Definition undrains (t : nat) (e : event) : Prop :=
  (exists o n, e_k e = KStateSet t o n /\ n <> TDraining) \/
  (exists ok p n, e_k e = KProbeApply t ok p n /\ n <> TDraining).

Definition no_return (c : nat) (l : trace) : Prop := Forall (fun e => forall res, e_k e <> KReturn c res) l.

(** history (newest first) form *)
Definition marked (h : trace) (t : nat) : Prop :=
  exists b ev a o, h = b ++ ev :: a /\ e_k ev = KStateSet t o TDraining /\ Forall (fun e => ~ undrains t e) b.

Definition drain_phase (h : trace) (c : nat) (cause : dcause) : Prop :=
  match cause with
  | DPause svc =>
    exists b ev a sa n pc st ch,
      h = b ++ ev :: a /\ e_k ev = KGateSet pc st ch /\ st <> GRunning /\ e_by ev = ACmd c /\ no_return c b /\
      run pstep pinit (rev a) = Some sa /\ nget (p_cmd sa) c = Some n /\ installed sa n = Some svc
  | DDeploy lb =>
    exists b ev a sa svc,
      h = b ++ ev :: a /\ e_k ev = KInstall svc true /\ e_by ev = ACmd c /\ no_return c b /\
      run pstep pinit (rev a) = Some sa /\ nget (p_repl sa) c = Some lb
  end.

Record PInv (h : trace) (s : pst) : Prop := {
  pi_run : run pstep pinit (rev h) = Some s;
  pi_marked : forall t, tstate_of s t = TDraining -> marked h t;
  pi_drain : forall c cause, In (c, cause) (p_drain s) -> drain_phase h c cause
}.

Lemma In_nset {A} (l : list (nat * A)) k v k' v' :
  In (k', v') (nset l k v) -> (k' = k /\ v' = v) \/ In (k', v') l.
Proof.
  induction l as [|[k0 v0] l IH]; cbn [nset].
  - intros [H|[]]. injection H as <- <-. now left.
  - destruct (Nat.eqb k k0) eqn:E.
    + intros [H|H]; [injection H as <- <-; now left|right; now right].
    + intros [H|H]; [right; now left|]. apply IH in H as [H|H]; [now left|right; now right].
Qed.

Lemma In_ndel {A} (l : list (nat * A)) k k' v' : In (k', v') (ndel l k) -> In (k', v') l /\ k' <> k.
Proof.
  unfold ndel. rewrite filter_In. cbn [fst]. intros [H1 H2]. split; [exact H1|].
  apply negb_true_iff, Nat.eqb_neq in H2. congruence.
Qed.

Lemma pstep_ts_other s e s' :
  pstep s e = Some s' ->
  (forall t o n, e_k e <> KStateSet t o n) -> (forall t ok p n, e_k e <> KProbeApply t ok p n) ->
  p_ts s' = p_ts s.
Proof.
  intros H H1 H2. crack H; cbn; try reflexivity.
  all: try (exfalso; eapply H1; reflexivity); try (exfalso; eapply H2; reflexivity).
Qed.

Lemma pstep_drain_other s e s' :
  pstep s e = Some s' ->
  (forall pc st ch, e_k e <> KGateSet pc st ch) -> (forall svc ok, e_k e <> KInstall svc ok) ->
  (forall c res, e_k e <> KReturn c res) ->
  p_drain s' = p_drain s.
Proof.
  intros H H1 H2 H3. crack H; cbn; try reflexivity.
  all: try (exfalso; eapply H1; reflexivity); try (exfalso; eapply H2; reflexivity);
    try (exfalso; eapply H3; reflexivity).
Qed.

Lemma marked_cons h t e : marked h t -> ~ undrains t e -> marked (e :: h) t.
Proof.
  intros (b & ev & a & o & -> & Hk & Hb) Hn. exists (e :: b), ev, a, o.
  split; [reflexivity|]. split; [exact Hk|]. now constructor.
Qed.

Lemma drain_phase_cons h c cause e :
  drain_phase h c cause -> (forall res, e_k e <> KReturn c res) -> drain_phase (e :: h) c cause.
Proof.
  intros H Hn. destruct cause as [svc|lb]; cbn [drain_phase] in *.
  - destruct H as (b & ev & a & sa & n & pc & st & ch & -> & H1 & H2 & H3 & H4 & H5).
    exists (e :: b), ev, a, sa, n, pc, st, ch. split; [reflexivity|]. repeat (split; [assumption|]).
    split; [now constructor|exact H5].
  - destruct H as (b & ev & a & sa & svc & -> & H1 & H2 & H3 & H4).
    exists (e :: b), ev, a, sa, svc. split; [reflexivity|]. repeat (split; [assumption|]).
    split; [now constructor|exact H4].
Qed.

Lemma tstate_of_upd s t v t' :
  tstate_of (upd_ts s (nset (p_ts s) t v)) t' = if Nat.eqb t' t then v else tstate_of s t'.
Proof. unfold tstate_of. cbn [upd_ts p_ts]. rewrite nget_nset. now destruct (Nat.eqb t' t). Qed.

Lemma marked_step h s e s' t :
  PInv h s -> pstep s e = Some s' -> tstate_of s' t = TDraining -> marked (e :: h) t.
Proof.
  intros HP Hstep Ht.
  destruct (e_k e) eqn:Hk;
    try (apply marked_cons;
         [apply (pi_marked _ _ HP); unfold tstate_of in *;
          rewrite <- (pstep_ts_other _ _ _ Hstep) by (intros; rewrite Hk; discriminate); exact Ht
         |intros [(o1 & n1 & Hk' & _)|(ok1 & p1 & n1 & Hk' & _)]; rewrite Hk in Hk'; discriminate]).
  - (* probe apply *)
    unfold pstep in Hstep. rewrite Hk in Hstep.
    destruct (tstate_eqb new _) eqn:Enew; [|discriminate]. injection Hstep as <-.
    rewrite tstate_of_upd in Ht. destruct (Nat.eqb t t0) eqn:E.
    + apply Nat.eqb_eq in E. subst t0 new.
      assert (Hcur : tstate_of s t = TDraining).
      { destruct ok; [discriminate|]. destruct (tstate_of s t); try discriminate. reflexivity. }
      apply marked_cons; [now apply (pi_marked _ _ HP)|].
      intros [(o1 & n1 & Hk' & _)|(ok1 & p1 & n1 & Hk' & Hn)]; rewrite Hk in Hk'; [discriminate|].
      inversion Hk'; subst. contradiction.
    + apply marked_cons; [now apply (pi_marked _ _ HP)|].
      intros [(o1 & n1 & Hk' & _)|(ok1 & p1 & n1 & Hk' & Hn)]; rewrite Hk in Hk'; [discriminate|].
      inversion Hk'; subst. now rewrite Nat.eqb_refl in E.
  - (* state set *)
    unfold pstep in Hstep. rewrite Hk in Hstep.
    destruct (tstate_eqb orig (tstate_of s t0)); [|discriminate].
    assert (Hs' : s' = upd_ts s (nset (p_ts s) t0 new)).
    { destruct new; try (injection Hstep as <-; reflexivity).
      destruct (existsb _ _); [|discriminate]. injection Hstep as <-. reflexivity. }
    subst s'. rewrite tstate_of_upd in Ht. destruct (Nat.eqb t t0) eqn:E.
    + apply Nat.eqb_eq in E. subst t0 new. exists [], e, h, orig. split; [reflexivity|]. split; [exact Hk|constructor].
    + apply marked_cons; [now apply (pi_marked _ _ HP)|].
      intros [(o1 & n1 & Hk' & _)|(ok1 & p1 & n1 & Hk' & Hn)]; rewrite Hk in Hk'; [|discriminate].
      inversion Hk'; subst. now rewrite Nat.eqb_refl in E.
Qed.

Lemma run_snoc {St} (step : St -> event -> option St) s0 l e s s' :
  run step s0 l = Some s -> step s e = Some s' -> run step s0 (l ++ [e]) = Some s'.
Proof. intros H1 H2. rewrite run_app, H1. cbn [run]. now rewrite H2. Qed.

Lemma PInv_step h s e s' : PInv h s -> pstep s e = Some s' -> PInv (e :: h) s'.
Proof.
  intros HP Hstep. split.
  - cbn [rev]. eapply run_snoc; [apply (pi_run _ _ HP)|exact Hstep].
  - intros t Ht. eapply marked_step; eassumption.
  - intros c cause Hin.
    destruct (e_k e) eqn:Hk;
      try (rewrite (pstep_drain_other _ _ _ Hstep) in Hin by (intros; rewrite Hk; discriminate);
           apply drain_phase_cons; [now apply (pi_drain _ _ HP)|intros; rewrite Hk; discriminate]).
    + (* return *)
      unfold pstep in Hstep. rewrite Hk in Hstep. injection Hstep as <-. cbn [upd_drain p_drain] in Hin.
      apply In_ndel in Hin as [Hin Hne]. apply drain_phase_cons; [now apply (pi_drain _ _ HP)|].
      intros res. rewrite Hk. congruence.
    + (* install *)
      unfold pstep in Hstep. rewrite Hk in Hstep. destruct ok.
      * destruct (nget (p_name s) svc) as [n|]; [|discriminate].
        destruct (e_by e) as [|c0| |] eqn:Eby;
          try (injection Hstep as <-; cbn in Hin; apply drain_phase_cons;
               [now apply (pi_drain _ _ HP)|intros; rewrite Hk; discriminate]).
        destruct (nget (p_repl s) c0) as [rep|] eqn:Erep;
          [|injection Hstep as <-; cbn in Hin; apply drain_phase_cons;
            [now apply (pi_drain _ _ HP)|intros; rewrite Hk; discriminate]].
        injection Hstep as <-. cbn [upd_drain p_drain upd_inst] in Hin. apply In_nset in Hin as [[-> ->]|Hin].
        -- cbn [drain_phase]. exists [], e, h, s, svc. split; [reflexivity|]. split; [exact Hk|]. split; [exact Eby|].
           split; [constructor|]. split; [apply (pi_run _ _ HP)|exact Erep].
        -- apply drain_phase_cons; [now apply (pi_drain _ _ HP)|intros; rewrite Hk; discriminate].
      * injection Hstep as <-. apply drain_phase_cons; [now apply (pi_drain _ _ HP)|intros; rewrite Hk; discriminate].
    + (* gate set *)
      unfold pstep in Hstep. rewrite Hk in Hstep.
      assert (Hold : In (c, cause) (p_drain s) -> drain_phase (e :: h) c cause).
      { intros Hin'. apply drain_phase_cons; [now apply (pi_drain _ _ HP)|intros; rewrite Hk; discriminate]. }
      destruct st; [injection Hstep as <-; now apply Hold| |].
      * destruct (e_by e) as [|c0| |] eqn:Eby; try (injection Hstep as <-; now apply Hold).
        destruct (nget (p_cmd s) c0) as [n|] eqn:En; [|discriminate].
        destruct (installed s n) as [svc|] eqn:Ei; [|discriminate]. injection Hstep as <-.
        cbn [upd_drain p_drain] in Hin. apply In_nset in Hin as [[-> ->]|Hin]; [|now apply Hold].
        cbn [drain_phase]. exists [], e, h, s, n, pc, GPaused, chan. split; [reflexivity|]. split; [exact Hk|].
        split; [discriminate|]. split; [exact Eby|]. split; [constructor|]. split; [apply (pi_run _ _ HP)|]. split; assumption.
      * destruct (e_by e) as [|c0| |] eqn:Eby; try (injection Hstep as <-; now apply Hold).
        destruct (nget (p_cmd s) c0) as [n|] eqn:En; [|discriminate].
        destruct (installed s n) as [svc|] eqn:Ei; [|discriminate]. injection Hstep as <-.
        cbn [upd_drain p_drain] in Hin. apply In_nset in Hin as [[-> ->]|Hin]; [|now apply Hold].
        cbn [drain_phase]. exists [], e, h, s, n, pc, GStopped, chan. split; [reflexivity|]. split; [exact Hk|].
        split; [discriminate|]. split; [exact Eby|]. split; [constructor|]. split; [apply (pi_run _ _ HP)|]. split; assumption.
Qed.

Lemma PInv_init : PInv [] pinit.
Proof.
  split.
  - reflexivity.
  - intros t. cbn. discriminate.
  - intros c cause [].
Qed.

Lemma PInv_run tr s : run pstep pinit tr = Some s -> PInv (rev tr) s.
Proof.
  apply (run_inv pstep pinit PInv); [apply PInv_init|]. intros h s0 e s' HP Hs. eapply PInv_step; eassumption.
Qed.

(** * Trace-order statements *)

Lemma rev_eq_split {A} (l : list A) b x a : rev l = b ++ x :: a -> l = rev a ++ x :: rev b.
Proof. intros H. rewrite <- (rev_involutive l), H. apply rev_split2. Qed.

(** A claim is refused only by a target that was marked draining earlier and
    has not been taken out of that state since. *)
Theorem refusal_needs_mark pre e post s t r :
  run pstep pinit (pre ++ e :: post) = Some s -> e_k e = KClaimRefused t r ->
  exists a ev b o, pre = a ++ ev :: b /\ e_k ev = KStateSet t o TDraining /\ Forall (fun x => ~ undrains t x) b.
Proof.
  intros Hrun Hk. apply run_split in Hrun as (s1 & s2 & R1 & S & _).
  assert (Ht : tstate_of s1 t = TDraining).
  { unfold pstep in S. rewrite Hk in S. destruct (nget (p_req s1) r); [|discriminate].
    destruct (onat_eq _ _ && tstate_eqb (tstate_of s1 t) TDraining) eqn:E; [|discriminate].
    apply andb_true_iff in E as [_ E]. destruct (tstate_of s1 t); try discriminate. reflexivity. }
  destruct (pi_marked _ _ (PInv_run _ _ R1) t Ht) as (b & ev & a & o & Hh & Hev & Hb).
  exists (rev a), ev, (rev b), o. split; [now apply rev_eq_split|]. split; [exact Hev|now apply Forall_rev].
Qed.

(** the drain phase of a command, in trace order: [pre] is the trace so far *)
Definition in_drain_phase (pre : trace) (c : nat) (cause : dcause) : Prop :=
  match cause with
  | DPause svc =>
    exists a ev b sa n pc st ch,
      pre = a ++ ev :: b /\ e_k ev = KGateSet pc st ch /\ st <> GRunning /\ e_by ev = ACmd c /\ no_return c b /\
      run pstep pinit a = Some sa /\ nget (p_cmd sa) c = Some n /\ installed sa n = Some svc
  | DDeploy lb =>
    exists a ev b sa svc,
      pre = a ++ ev :: b /\ e_k ev = KInstall svc true /\ e_by ev = ACmd c /\ no_return c b /\
      run pstep pinit a = Some sa /\ nget (p_repl sa) c = Some lb
  end.

Lemma drain_phase_fwd pre c cause : drain_phase (rev pre) c cause -> in_drain_phase pre c cause.
Proof.
  destruct cause as [svc|lb]; cbn [drain_phase in_drain_phase].
  - intros (b & ev & a & sa & n & pc & st & ch & Hh & H1 & H2 & H3 & H4 & H5 & H6).
    exists (rev a), ev, (rev b), sa, n, pc, st, ch. split; [now apply rev_eq_split|].
    repeat (split; [assumption|]). split; [now apply Forall_rev|]. split; assumption.
  - intros (b & ev & a & sa & svc & Hh & H1 & H2 & H3 & H4 & H5).
    exists (rev a), ev, (rev b), sa, svc. split; [now apply rev_eq_split|].
    repeat (split; [assumption|]). split; [now apply Forall_rev|]. split; assumption.
Qed.

(** A target is marked draining only in the drain phase of a command: after a
    pause / stop has set the gate (and before it returns), the target being in a
    balancer of the object that was installed under the command's name; or
    after a deploy has installed its object (and before it returns), the
    target being in the balancer that deploy replaced. *)
Theorem mark_in_drain_phase pre e post s t o :
  run pstep pinit (pre ++ e :: post) = Some s -> e_k e = KStateSet t o TDraining ->
  exists s1 c cause, run pstep pinit pre = Some s1 /\ covers s1 cause t = true /\ in_drain_phase pre c cause.
Proof.
  intros Hrun Hk. apply run_split in Hrun as (s1 & s2 & R1 & S & _).
  unfold pstep in S. rewrite Hk in S. destruct (tstate_eqb o (tstate_of s1 t)); [|discriminate].
  destruct (existsb (fun cc => covers s1 (snd cc) t) (p_drain s1)) eqn:E; [|discriminate].
  apply existsb_exists in E as ([c cause] & Hin & Hc). cbn [snd] in Hc.
  exists s1, c, cause. split; [exact R1|]. split; [exact Hc|].
  apply drain_phase_fwd. apply (pi_drain _ _ (PInv_run _ _ R1)). exact Hin.
Qed.

(** * Both views *)

From KP Require Import model.M5gate.

Definition accepted (tr : trace) : Prop := gate_accepts tr = true /\ path_accepts tr = true.

(** Events of the kinds the driver drops are ignored by both acceptors. *)
Lemma unkept_ignored e : kept e = false -> (forall s, gstep s e = Some s) /\ (forall s, pstep s e = Some s).
Proof.
  unfold kept, gstep, pstep. destruct (e_k e); try discriminate; intros _; split; reflexivity.
Qed.

Lemma run_filter_kept {St} (step : St -> event -> option St) :
  (forall e, kept e = false -> forall s, step s e = Some s) ->
  forall tr s, run step s (filter kept tr) = run step s tr.
Proof.
  intros Hig tr. induction tr as [|e tr IH]; intros s; cbn [filter run]; [reflexivity|].
  destruct (kept e) eqn:E; cbn [run].
  - destruct (step s e); [apply IH|reflexivity].
  - rewrite (Hig e E s). apply IH.
Qed.

Theorem accepted_filter_kept tr :
  gate_accepts (filter kept tr) = gate_accepts tr /\ path_accepts (filter kept tr) = path_accepts tr.
Proof.
  unfold gate_accepts, path_accepts. split.
  - rewrite (run_filter_kept gstep); [reflexivity|]. intros e E. apply (unkept_ignored e E).
  - rewrite (run_filter_kept pstep); [reflexivity|]. intros e E. apply (unkept_ignored e E).
Qed.

Lemma path_accepts_run tr : path_accepts tr = true -> exists s, run pstep pinit tr = Some s.
Proof. unfold path_accepts. destruct (run pstep pinit tr) as [s|]; [eauto|discriminate]. Qed.

Lemma gate_accepts_run tr : gate_accepts tr = true -> exists s, run gstep ginit tr = Some s.
Proof. unfold gate_accepts. destruct (run gstep ginit tr) as [s|]; [eauto|discriminate]. Qed.

(** The anatomy of a refusal: the target was marked draining earlier (and has
    stayed so), in the drain phase of a pause / stop / deploy command; and the
    gate had let the request pass before. *)
Theorem refusal_anatomy tr pre e post t r :
  accepted tr -> tr = pre ++ e :: post -> e_k e = KClaimRefused t r ->
  (exists a ev b o, pre = a ++ ev :: b /\ e_k ev = KStateSet t o TDraining /\ Forall (fun x => ~ undrains t x) b /\
                    exists s1 c cause, run pstep pinit a = Some s1 /\ covers s1 cause t = true /\ in_drain_phase a c cause) /\
  (exists ev svc, In ev pre /\ e_k ev = KGateResult r svc AProceed).
Proof.
  intros [Hg Hp] -> Hk. apply path_accepts_run in Hp as (sp & Hp). apply gate_accepts_run in Hg as (sg & Hg). split.
  - destruct (refusal_needs_mark _ _ _ _ _ _ Hp Hk) as (a & ev & b & o & -> & Hev & Hb).
    exists a, ev, b, o. split; [reflexivity|]. split; [exact Hev|]. split; [exact Hb|].
    rewrite <- app_assoc in Hp. cbn [app] in Hp. eapply mark_in_drain_phase; eassumption.
  - eapply path_after_proceed; [exact Hg| |]; unfold is_path, req_of; now rewrite Hk.
Qed.

(** Outside the two windows there is no refusal: if (D3 / D2 window) no request
    gets "proceed" from the gate, then has the target it is going to claim marked
    draining, then claims it; and (overlap) no request gets "proceed" from the
    gate while the target it then claims is marked draining - then no claim is
    refused at all. *)
Theorem no_refusal_outside tr :
  accepted tr ->
  (forall p1 ev1 p2 ev2 p3 ev3 p4 r svc t o,
      tr = p1 ++ ev1 :: p2 ++ ev2 :: p3 ++ ev3 :: p4 ->
      e_k ev1 = KGateResult r svc AProceed -> e_k ev2 = KStateSet t o TDraining -> e_k ev3 = KClaimRefused t r -> False) ->
  (forall p1 ev2 p2 ev1 p3 ev3 p4 r svc t o,
      tr = p1 ++ ev2 :: p2 ++ ev1 :: p3 ++ ev3 :: p4 ->
      e_k ev2 = KStateSet t o TDraining -> Forall (fun x => ~ undrains t x) (p2 ++ ev1 :: p3) ->
      e_k ev1 = KGateResult r svc AProceed -> e_k ev3 = KClaimRefused t r -> False) ->
  forall e t r, In e tr -> e_k e <> KClaimRefused t r.
Proof.
  intros Hacc H1 H2 e t r Hin Hk. apply in_split in Hin as (pre & post & Htr).
  destruct (refusal_anatomy tr pre e post t r Hacc Htr Hk) as [(a & ev & b & o & Hpre & Hev & Hb & _) (ev1 & svc & Hin1 & Hk1)].
  subst pre. apply in_app_or in Hin1 as [Hin1|[<-|Hin1]].
  - apply in_split in Hin1 as (p1 & p2 & ->).
    eapply (H1 p1 ev1 p2 ev b e post r svc t o); try eassumption.
    rewrite Htr. repeat first [rewrite <- app_assoc|progress cbn [app]]. reflexivity.
  - rewrite Hev in Hk1. discriminate.
  - apply in_split in Hin1 as (p2 & p3 & ->).
    eapply (H2 a ev p2 ev1 p3 e post r svc t o); try eassumption.
    rewrite Htr. repeat first [rewrite <- app_assoc|progress cbn [app]]. reflexivity.
Qed.
