(** C10healthLink.v — rollout histories with health changes (corr/C10health.v):
    the model [hrun2] is the property's reading [spec_run2]; the reading itself,
    characterised; the decision does not depend on health.

    The invariant is the one of proofs/RolloutFacts.v ([related s ss]: same
    active deployment, same controller/split, rollout slot = rollout targets);
    the health flags are carried along unchanged on both sides because both
    machines update them by the same function of the command alone. *)
From KP Require Import model.Base model.Rollout corr.C10corr corr.C10health proofs.RolloutFacts.
Local Open Scope N_scope.

(** ** The flags are a function of the commands alone *)

Definition flags_step (f : flags) (c : hcmd2) : flags :=
  match c with
  | HHealth rs h => if rs then mkFl (act_ok f) h else mkFl h (roll_ok f)
  | HPlain c => flags_after f c
  end.

Definition flags_end (f : flags) (cmds : list hcmd2) : flags := fold_left flags_step cmds f.

(** The history with the health events erased. *)
Definition plain_of (cmds : list hcmd2) : list hcmd :=
  flat_map (fun c => match c with HPlain c => [c] | HHealth _ _ => [] end) cmds.

(** State (and flags) after a history, both machines. *)
Definition hend2 (sf : svc * flags) (cmds : list hcmd2) : svc * flags :=
  fold_left (fun sf c => fst (hstep2 sf c)) cmds sf.
Definition spec_end2 (sf : spec_state * flags) (cmds : list hcmd2) : spec_state * flags :=
  fold_left (fun sf c => fst (spec_step2 sf c)) cmds sf.

(** The side the implementation model sends a request to in a state. *)
Definition model_side (s : svc) (lines : list str) : side := pick (has_rollout_slot s) (sv_ctrl s) lines.

(** The deployment a side's targets belong to, in the property's reading. *)
Definition side_targets (s : spec_state) (sd : side) : nat :=
  match sd, ss_targets s with
  | Rollout, Some r => r
  | _, _ => ss_active s
  end.

(** ** One step *)

Lemma hstep2_plain s f c :
  hstep2 (s, f) (HPlain c) =
  ((fst (hstep s c), flags_after f c),
   match c with
   | HRequest lines => if side_ok f (model_side s lines) then x_of (snd (hstep s c)) else XStatus 503
   | _ => x_of (snd (hstep s c))
   end).
Proof. cbn [hstep2]. destruct (hstep s c) as [s' o]. reflexivity. Qed.

Lemma spec_step2_plain s f c :
  spec_step2 (s, f) (HPlain c) =
  ((fst (spec_step s c), flags_after f c),
   match c with
   | HRequest lines => if side_ok f (spec_side s lines) then x_of (snd (spec_step s c)) else XStatus 503
   | _ => x_of (snd (spec_step s c))
   end).
Proof. cbn [spec_step2]. destruct (spec_step s c) as [s' o]. reflexivity. Qed.

Lemma hstep2_health s f rs h :
  hstep2 (s, f) (HHealth rs h) = ((s, flags_step f (HHealth rs h)), XOk).
Proof. reflexivity. Qed.

Lemma spec_step2_health s f rs h :
  spec_step2 (s, f) (HHealth rs h) = ((s, flags_step f (HHealth rs h)), XOk).
Proof. reflexivity. Qed.

(** Under the invariant the two machines decide for the same side. *)
Lemma related_side s ss lines : related s ss -> model_side s lines = spec_side ss lines.
Proof.
  intros (Ha & Hc & Hr). unfold model_side, spec_side, has_rollout_slot, pick. rewrite Hr, Hc.
  destruct (ss_targets ss) as [r|]; destruct (ss_split ss) as [c|]; reflexivity.
Qed.

Lemma step2_related s ss f c : related s ss ->
  related (fst (fst (hstep2 (s, f) c))) (fst (fst (spec_step2 (ss, f) c))) /\
  snd (fst (hstep2 (s, f) c)) = snd (fst (spec_step2 (ss, f) c)) /\
  snd (hstep2 (s, f) c) = snd (spec_step2 (ss, f) c).
Proof.
  intros HR. destruct c as [c|rs h].
  - rewrite hstep2_plain, spec_step2_plain. cbn [fst snd].
    destruct (step_related s ss c HR) as [HR' Ho]. split; [exact HR'|]. split; [reflexivity|].
    rewrite Ho. destruct c as [id|id|p allow| | |lines]; try reflexivity.
    now rewrite (related_side s ss lines HR).
  - rewrite hstep2_health, spec_step2_health. cbn [fst snd]. auto.
Qed.

(** ** Whole histories: the model is the property's reading *)

Lemma run2_related : forall cmds s ss f, related s ss -> hrun2 (s, f) cmds = spec_run2 (ss, f) cmds.
Proof.
  induction cmds as [|c cmds IH]; intros s ss f HR; cbn [hrun2 spec_run2]; [reflexivity|].
  destruct (step2_related s ss f c HR) as (HR' & Hf & Hx).
  destruct (hstep2 (s, f) c) as [[s1 f1] x]. destruct (spec_step2 (ss, f) c) as [[ss1 f1'] x'].
  cbn [fst snd] in *. subst f1' x'. f_equal. now apply IH.
Qed.

Lemma model_is_spec2 id f cmds : hrun2 (init_svc id, f) cmds = spec_run2 (init_spec id, f) cmds.
Proof. apply run2_related, init_related. Qed.

Lemma list_eqb_xobs_refl l : list_eqb xobs_eqb l l = true.
Proof.
  induction l as [|x l IH]; cbn [list_eqb]; [reflexivity|]. rewrite IH, Bool.andb_true_r.
  destruct x as [| | |i|c]; cbn [xobs_eqb]; try reflexivity; [apply Nat.eqb_refl|apply N.eqb_refl].
Qed.

Lemma agree2_monitor2 id cmds o : hist_agree2 id cmds o = true -> hist_monitor2 id cmds o = true.
Proof. unfold hist_agree2, hist_monitor2. now rewrite model_is_spec2. Qed.

Lemma agree2_eq_monitor2 id cmds o : hist_agree2 id cmds o = hist_monitor2 id cmds o.
Proof. unfold hist_agree2, hist_monitor2. now rewrite model_is_spec2. Qed.

(** The model's own answers pass the monitor. *)
Lemma monitor2_of_model id cmds : hist_monitor2 id cmds (hrun2 (init_svc id, mkFl true true) cmds) = true.
Proof. unfold hist_monitor2. rewrite model_is_spec2. apply list_eqb_xobs_refl. Qed.

(** ** States after a prefix *)

Lemma spec_run_app : forall a s b,
  spec_run s (a ++ b) =
  (fst (spec_run (fst (spec_run s a)) b), snd (spec_run s a) ++ snd (spec_run (fst (spec_run s a)) b)).
Proof.
  induction a as [|c a IH]; intros s b; cbn [app spec_run fst snd].
  - now destruct (spec_run s b).
  - destruct (spec_step s c) as [s1 o]. rewrite IH.
    destruct (spec_run s1 a) as [s2 os]. cbn [fst snd]. reflexivity.
Qed.

Lemma spec_run_length : forall cs s, length (snd (spec_run s cs)) = length cs.
Proof.
  induction cs as [|c cs IH]; intros s; cbn [spec_run]; [reflexivity|].
  destruct (spec_step s c) as [s1 o]. specialize (IH s1). destruct (spec_run s1 cs) as [s2 os].
  cbn [snd length] in *. now rewrite IH.
Qed.

Lemma spec_run2_app : forall a sf b,
  spec_run2 sf (a ++ b) = spec_run2 sf a ++ spec_run2 (spec_end2 sf a) b.
Proof.
  induction a as [|c a IH]; intros sf b; cbn [app spec_run2]; [reflexivity|].
  unfold spec_end2. cbn [fold_left]. destruct (spec_step2 sf c) as [sf' x]. cbn [fst app]. f_equal. apply IH.
Qed.

Lemma spec_run2_length : forall cmds sf, length (spec_run2 sf cmds) = length cmds.
Proof.
  induction cmds as [|c cmds IH]; intros sf; cbn [spec_run2]; [reflexivity|].
  destruct (spec_step2 sf c) as [sf' x]. cbn [length]. now rewrite IH.
Qed.

Lemma plain_of_app a b : plain_of (a ++ b) = plain_of a ++ plain_of b.
Proof. unfold plain_of. apply flat_map_app. Qed.

(** The state component ignores health events and flags; the flags ignore the state. *)
Lemma spec_end2_split : forall cmds s f,
  spec_end2 (s, f) cmds = (fst (spec_run s (plain_of cmds)), flags_end f cmds).
Proof.
  induction cmds as [|c cmds IH]; intros s f; [reflexivity|].
  unfold spec_end2, flags_end. cbn [fold_left]. destruct c as [c|rs h].
  - rewrite spec_step2_plain. cbn [fst]. fold (spec_end2 (fst (spec_step s c), flags_after f c) cmds).
    rewrite IH. cbn [plain_of flat_map app spec_run flags_step].
    destruct (spec_step s c) as [s1 o]. cbn [fst].
    change (flat_map _ cmds) with (plain_of cmds).
    destruct (spec_run s1 (plain_of cmds)) as [s2 os]. reflexivity.
  - rewrite spec_step2_health. cbn [fst]. fold (spec_end2 (s, flags_step f (HHealth rs h)) cmds).
    rewrite IH. reflexivity.
Qed.

Lemma hend2_split : forall cmds s f,
  hend2 (s, f) cmds = (fst (hrun s (plain_of cmds)), flags_end f cmds).
Proof.
  induction cmds as [|c cmds IH]; intros s f; [reflexivity|].
  unfold hend2, flags_end. cbn [fold_left]. destruct c as [c|rs h].
  - rewrite hstep2_plain. cbn [fst]. fold (hend2 (fst (hstep s c), flags_after f c) cmds).
    rewrite IH. cbn [plain_of flat_map app hrun flags_step].
    destruct (hstep s c) as [s1 o]. cbn [fst].
    change (flat_map _ cmds) with (plain_of cmds).
    destruct (hrun s1 (plain_of cmds)) as [s2 os]. reflexivity.
  - rewrite hstep2_health. cbn [fst]. fold (hend2 (s, flags_step f (HHealth rs h)) cmds).
    rewrite IH. reflexivity.
Qed.

Lemma run_state_related : forall cs s ss, related s ss -> related (fst (hrun s cs)) (fst (spec_run ss cs)).
Proof.
  induction cs as [|c cs IH]; intros s ss HR; cbn [hrun spec_run]; [exact HR|].
  destruct (step_related s ss c HR) as [HR' _].
  destruct (hstep s c) as [s1 o]. destruct (spec_step ss c) as [ss1 o']. cbn [fst] in HR'.
  specialize (IH s1 ss1 HR'). destruct (hrun s1 cs) as [s2 os]. destruct (spec_run ss1 cs) as [ss2 os'].
  exact IH.
Qed.

(** ** The answer to one request of a history *)

Lemma nth_app_here {A} (a : list A) x b d : nth (length a) (a ++ x :: b) d = x.
Proof. rewrite app_nth2 by apply le_n. now rewrite Nat.sub_diag. Qed.

(** the request after [pre]: its state is the state of the health-free history,
    its flags are [flags_end] *)
Lemma request_answer2 id f0 pre lines post :
  let s := fst (spec_run (init_spec id) (plain_of pre)) in
  let f := flags_end f0 pre in
  nth (length pre) (spec_run2 (init_spec id, f0) (pre ++ HPlain (HRequest lines) :: post)) XOk =
  if side_ok f (spec_side s lines) then XServed (side_targets s (spec_side s lines)) else XStatus 503.
Proof.
  cbv zeta. rewrite spec_run2_app. rewrite <- (spec_run2_length pre (init_spec id, f0)).
  cbn [spec_run2]. rewrite spec_end2_split, spec_step2_plain. rewrite nth_app_here.
  destruct (side_ok _ _); [|reflexivity].
  unfold spec_side, side_targets. cbn [spec_step snd x_of].
  destruct (ss_targets _) as [r|]; [|reflexivity]. destruct (ss_split _) as [c|]; [|reflexivity].
  now destruct (uses_rollout c lines).
Qed.

(** the same request in the health-free history *)
Lemma request_answer_plain id pre lines post :
  let s := fst (spec_run (init_spec id) (plain_of pre)) in
  nth (length (plain_of pre))
      (snd (spec_run (init_spec id) (plain_of (pre ++ HPlain (HRequest lines) :: post)))) OOk =
  OServed (side_targets s (spec_side s lines)).
Proof.
  cbv zeta. rewrite plain_of_app, spec_run_app. cbn [snd].
  rewrite <- (spec_run_length (plain_of pre) (init_spec id)).
  cbn [plain_of flat_map app]. change (flat_map _ post) with (plain_of post).
  cbn [spec_run]. set (s := fst (spec_run (init_spec id) (plain_of pre))).
  cbn [spec_step]. destruct (spec_run s (plain_of post)) as [s2 os]. cbn [snd]. rewrite nth_app_here.
  unfold spec_side, side_targets.
  destruct (ss_targets s) as [r|]; [|reflexivity]. destruct (ss_split s) as [c|]; [|reflexivity].
  now destruct (uses_rollout c lines).
Qed.

Lemma request_503_iff id f0 pre lines post :
  let s := fst (spec_run (init_spec id) (plain_of pre)) in
  let f := flags_end f0 pre in
  nth (length pre) (spec_run2 (init_spec id, f0) (pre ++ HPlain (HRequest lines) :: post)) XOk = XStatus 503
  <-> side_ok f (spec_side s lines) = false.
Proof.
  cbv zeta. rewrite request_answer2. destruct (side_ok _ _); split; intros H; try reflexivity; discriminate.
Qed.

Lemma request_healthy_is_plain id f0 pre lines post :
  let s := fst (spec_run (init_spec id) (plain_of pre)) in
  let f := flags_end f0 pre in
  side_ok f (spec_side s lines) = true ->
  nth (length pre) (spec_run2 (init_spec id, f0) (pre ++ HPlain (HRequest lines) :: post)) XOk =
  x_of (nth (length (plain_of pre))
            (snd (spec_run (init_spec id) (plain_of (pre ++ HPlain (HRequest lines) :: post)))) OOk).
Proof.
  cbv zeta. intros H. rewrite request_answer2, request_answer_plain, H. reflexivity.
Qed.

(** never the other side: an answer from a backend comes from the chosen side's targets *)
Lemma request_never_other_side id f0 pre lines post k :
  let s := fst (spec_run (init_spec id) (plain_of pre)) in
  nth (length pre) (spec_run2 (init_spec id, f0) (pre ++ HPlain (HRequest lines) :: post)) XOk = XServed k ->
  k = side_targets s (spec_side s lines).
Proof.
  cbv zeta. rewrite request_answer2. destruct (side_ok _ _); intros H; [|discriminate]. now injection H as <-.
Qed.

(** ** Histories without health events *)

Definition all_ok (f : flags) : Prop := act_ok f = true /\ roll_ok f = true.

Lemma all_ok_after f c : all_ok f -> all_ok (flags_after f c).
Proof. intros [H1 H2]. destruct c; cbn [flags_after]; split; cbn; auto. Qed.

Lemma side_ok_all f sd : all_ok f -> side_ok f sd = true.
Proof. intros [H1 H2]. now destruct sd. Qed.

Lemma spec_run2_plain : forall cs s f, all_ok f ->
  spec_run2 (s, f) (map HPlain cs) = map x_of (snd (spec_run s cs)).
Proof.
  induction cs as [|c cs IH]; intros s f Hf; [reflexivity|].
  cbn [map spec_run2 spec_run]. rewrite spec_step2_plain.
  specialize (IH (fst (spec_step s c)) (flags_after f c) (all_ok_after f c Hf)).
  destruct (spec_step s c) as [s1 o]. cbn [fst snd] in *.
  destruct (spec_run s1 cs) as [s2 os]. cbn [snd map] in *. rewrite IH. f_equal.
  destruct c; try reflexivity. now rewrite side_ok_all.
Qed.

Lemma hist_spec2_plain id cs :
  spec_run2 (init_spec id, mkFl true true) (map HPlain cs) = hist_spec id cs.
Proof. apply spec_run2_plain. split; reflexivity. Qed.

Lemma hist_monitor2_plain id cs o : hist_monitor2 id (map HPlain cs) o = hist_monitor id cs o.
Proof. unfold hist_monitor2, hist_monitor. now rewrite hist_spec2_plain. Qed.

(** ** The decision does not depend on health *)

(** Two histories with the same commands and ANY health events, started with
    any flags: the model is in the same rollout state, so it sends every
    request to the same side — the side of the property's reading. *)
Lemma side_health_free id f1 f2 pre1 pre2 lines :
  plain_of pre1 = plain_of pre2 ->
  model_side (fst (hend2 (init_svc id, f1) pre1)) lines = model_side (fst (hend2 (init_svc id, f2) pre2)) lines.
Proof. intros H. rewrite !hend2_split. cbn [fst]. now rewrite H. Qed.

Lemma side_is_spec_side id f pre lines :
  model_side (fst (hend2 (init_svc id, f) pre)) lines =
  spec_side (fst (spec_run (init_spec id) (plain_of pre))) lines.
Proof.
  rewrite hend2_split. cbn [fst]. apply related_side. apply run_state_related, init_related.
Qed.

Lemma spec_side_flags_free id f1 f2 pre1 pre2 lines :
  plain_of pre1 = plain_of pre2 ->
  spec_side (fst (spec_end2 (init_spec id, f1) pre1)) lines = spec_side (fst (spec_end2 (init_spec id, f2) pre2)) lines.
Proof. intros H. rewrite !spec_end2_split. cbn [fst]. now rewrite H. Qed.

(** [spec_side], readably (the C10 sentence). *)
Lemma spec_side_rollout_iff s lines :
  spec_side s lines = Rollout <->
  exists r c, ss_targets s = Some r /\ ss_split s = Some c /\ uses_rollout c lines = true.
Proof.
  unfold spec_side. split.
  - destruct (ss_targets s) as [r|]; [|discriminate]. destruct (ss_split s) as [c|]; [|discriminate].
    destruct (uses_rollout c lines) eqn:E; [|discriminate]. intros _. now exists r, c.
  - intros (r & c & -> & -> & ->). reflexivity.
Qed.
