(** ServiceMapFacts.v — proofs about model/ServiceMap.v and the table part of
    model/Seq.v (properties C04 routing and C05 ownership). *)
From KP Require Import model.Base model.ServiceMap model.Seq.
From Coq Require Import Permutation Sorted.
From Coq Require Import ZifyN ZifyNat ZifyBool.

(** * Part 1: byte strings *)

Lemma byte_eqb_eq a b : byte_eqb a b = true <-> a = b.
Proof.
  unfold byte_eqb. split; [apply Byte.byte_dec_bl|apply Byte.byte_dec_lb].
Qed.

Lemma byte_eqb_refl a : byte_eqb a a = true.
Proof. apply byte_eqb_eq. reflexivity. Qed.

Lemma byte_eqb_neq a b : byte_eqb a b = false <-> a <> b.
Proof.
  split.
  - intros H E. apply byte_eqb_eq in E. congruence.
  - intros H. destruct (byte_eqb a b) eqn:E; [|reflexivity].
    apply byte_eqb_eq in E. contradiction.
Qed.

Lemma str_eqb_eq : forall a b, str_eqb a b = true <-> a = b.
Proof.
  induction a as [|x a IH]; intros [|y b]; cbn; split; intros H;
    try reflexivity; try discriminate.
  - apply andb_true_iff in H as [H1 H2]. apply byte_eqb_eq in H1. apply IH in H2. congruence.
  - inversion H; subst. rewrite byte_eqb_refl. apply IH. reflexivity.
Qed.

Lemma str_eqb_refl a : str_eqb a a = true.
Proof. apply str_eqb_eq. reflexivity. Qed.

Lemma str_eqb_neq a b : str_eqb a b = false <-> a <> b.
Proof.
  split.
  - intros H E. apply str_eqb_eq in E. congruence.
  - intros H. destruct (str_eqb a b) eqn:E; [|reflexivity].
    apply str_eqb_eq in E. contradiction.
Qed.

Lemma str_eq_dec (a b : str) : a = b \/ a <> b.
Proof.
  destruct (str_eqb a b) eqn:E; [left; now apply str_eqb_eq|right; now apply str_eqb_neq].
Qed.

Lemma mem_str_In x l : mem_str x l = true <-> In x l.
Proof.
  induction l as [|y l IH]; cbn.
  - split; [discriminate|tauto].
  - rewrite orb_true_iff, IH, str_eqb_eq. split; intros [H|H]; auto.
Qed.

Lemma has_prefix_iff : forall p s, has_prefix s p = true <-> exists r, s = p ++ r.
Proof.
  induction p as [|y p IH]; intros [|x s]; cbn.
  - split; [intros _; now exists []|reflexivity].
  - split; [intros _; now exists (x :: s)|reflexivity].
  - split; [discriminate|intros [r Hr]; discriminate].
  - rewrite andb_true_iff, byte_eqb_eq, IH. split.
    + intros [-> [r ->]]. now exists r.
    + intros [r Hr]. inversion Hr; subst. split; [reflexivity|now exists r].
Qed.

(** Two prefixes of one string that have the same length are equal. *)
Lemma app_eq_length {A} : forall (a b r1 r2 : list A),
  a ++ r1 = b ++ r2 -> length a = length b -> a = b.
Proof.
  induction a as [|x a IH]; intros [|y b] r1 r2 H L; cbn in *; try discriminate.
  - reflexivity.
  - inversion H; subst. f_equal. eapply IH; eauto.
Qed.

Lemma has_suffix_iff s c : has_suffix s [c] = true <-> exists r, s = r ++ [c].
Proof.
  unfold has_suffix. rewrite has_prefix_iff. cbn. split.
  - intros [r Hr]. exists (rev r).
    rewrite <- (rev_involutive s), Hr. cbn. reflexivity.
  - intros [r ->]. exists (rev r). rewrite rev_app_distr. reflexivity.
Qed.

(** ** index_byte *)

Lemma index_byte_none s c : index_byte s c = None <-> ~ In c s.
Proof.
  induction s as [|x s IH]; cbn.
  - tauto.
  - destruct (byte_eqb x c) eqn:E.
    + apply byte_eqb_eq in E. split; [discriminate|intros H; exfalso; apply H; auto].
    + apply byte_eqb_neq in E. destruct (index_byte s c) as [n|].
      * split; [discriminate|]. intros H. exfalso. apply H. right.
        destruct (in_dec Byte.byte_eq_dec c s) as [Hi|Hn]; [exact Hi|].
        apply IH in Hn. discriminate.
      * split; [|reflexivity]. intros _ [H|H]; [congruence|].
        now apply IH in H.
Qed.

Lemma index_byte_app a c b : ~ In c a -> index_byte (a ++ c :: b) c = Some (length a).
Proof.
  induction a as [|x a IH]; intros Hn; cbn.
  - now rewrite byte_eqb_refl.
  - assert (E : byte_eqb x c = false) by (apply byte_eqb_neq; intros ->; apply Hn; now left).
    rewrite E, IH; [reflexivity|]. intros H; apply Hn; now right.
Qed.

Lemma index_byte_some : forall s c k, index_byte s c = Some k ->
  exists a b, s = a ++ c :: b /\ ~ In c a /\ length a = k.
Proof.
  induction s as [|x s IH]; intros c k H; cbn in H; [discriminate|].
  destruct (byte_eqb x c) eqn:E.
  - apply byte_eqb_eq in E. subst. inversion H; subst.
    exists [], s. repeat split. tauto.
  - apply byte_eqb_neq in E. destruct (index_byte s c) as [n|] eqn:En; [|discriminate].
    inversion H; subst. destruct (IH c n En) as (a & b & -> & Hn & Hl).
    exists (x :: a), b. repeat split; cbn; [|now rewrite Hl].
    intros [H1|H1]; [congruence|tauto].
Qed.

Lemma contains_byte_false s c : contains_byte s c = false <-> ~ In c s.
Proof.
  unfold contains_byte. rewrite <- index_byte_none.
  destruct (index_byte s c); split; congruence.
Qed.

Lemma contains_byte_true s c : contains_byte s c = true <-> In c s.
Proof.
  destruct (contains_byte s c) eqn:E.
  - split; [|reflexivity]. intros _.
    destruct (in_dec Byte.byte_eq_dec c s) as [Hi|Hn]; [exact Hi|].
    apply contains_byte_false in Hn. congruence.
  - apply contains_byte_false in E. split; [discriminate|tauto].
Qed.

(** ** last_index_byte *)

Lemma last_index_aux_app : forall a b c i acc,
  last_index_byte_aux (a ++ b) c i acc =
  last_index_byte_aux b c (i + length a) (last_index_byte_aux a c i acc).
Proof.
  induction a as [|x a IH]; intros b c i acc; cbn.
  - now rewrite Nat.add_0_r.
  - rewrite IH. now rewrite Nat.add_succ_r.
Qed.

Lemma last_index_aux_absent : forall s c i acc, ~ In c s -> last_index_byte_aux s c i acc = acc.
Proof.
  induction s as [|x s IH]; intros c i acc Hn; cbn; [reflexivity|].
  assert (E : byte_eqb x c = false) by (apply byte_eqb_neq; intros ->; apply Hn; now left).
  rewrite E. apply IH. intros H; apply Hn; now right.
Qed.

(** The last [c] of [a ++ c :: b] is at [length a] when [b] has none. *)
Lemma last_index_byte_app a c b : ~ In c b -> last_index_byte (a ++ c :: b) c = Some (length a).
Proof.
  intros Hn. unfold last_index_byte. rewrite last_index_aux_app. cbn.
  rewrite byte_eqb_refl. now apply last_index_aux_absent.
Qed.

(** ** trim_byte / normalize_prefix *)

Lemma drop_while_head c : forall s y r, drop_while_eq c s = y :: r -> y <> c.
Proof.
  induction s as [|x s IH]; intros y r H; cbn in H; [discriminate|].
  destruct (byte_eqb x c) eqn:E.
  - eapply IH; eauto.
  - inversion H; subst. now apply byte_eqb_neq.
Qed.

Definition normalised (p : str) : Prop := exists x, p = normalize_prefix x.

(** A normalised prefix is "/" or "/q" with [q] non-empty and no trailing slash. *)
Lemma normalised_cases p : normalised p ->
  p = root_path \/
  (has_suffix p [slash] = false /\ exists q, q <> [] /\ p = slash :: q).
Proof.
  intros [x ->]. unfold normalize_prefix, trim_byte.
  destruct (drop_while_eq slash (rev (drop_while_eq slash x))) as [|y r] eqn:E.
  - left. reflexivity.
  - right. apply drop_while_head in E. split.
    + unfold has_suffix.
      change (rev (slash :: rev (y :: r))) with (rev (rev (y :: r)) ++ [slash]).
      rewrite rev_involutive. cbn.
      apply byte_eqb_neq in E. now rewrite E.
    + exists (rev (y :: r)). split; [|reflexivity].
      cbn. intros H. apply app_eq_nil in H as [_ H]. discriminate.
Qed.

Lemma root_normalised : normalised root_path.
Proof. exists []. reflexivity. Qed.

Lemma ets_root : ensure_trailing_slash root_path = root_path.
Proof. reflexivity. Qed.

Lemma ets_nonroot p : has_suffix p [slash] = false -> ensure_trailing_slash p = p ++ [slash].
Proof. intros H. unfold ensure_trailing_slash. now rewrite H. Qed.

Lemma ets_idem p : ensure_trailing_slash (ensure_trailing_slash p) = ensure_trailing_slash p.
Proof.
  destruct (has_suffix p [slash]) eqn:E.
  - unfold ensure_trailing_slash. rewrite E. now rewrite E.
  - rewrite (ets_nonroot p E).
    assert (H : has_suffix (p ++ [slash]) [slash] = true) by (apply has_suffix_iff; now exists p).
    unfold ensure_trailing_slash. now rewrite H.
Qed.

(** * Part 2: prefix matching on segment boundaries *)

(** Declarative reading of
    [HasPrefix(EnsureTrailingSlash(path), EnsureTrailingSlash(prefix))]. *)
Definition seg_match (path p : str) : Prop :=
  (p = root_path /\ (path = [] \/ exists r, path = slash :: r)) \/
  path = p \/
  exists r, path = p ++ slash :: r.

Lemma prefix_matches_root path :
  prefix_matches path root_path = true <-> path = [] \/ exists r, path = slash :: r.
Proof.
  unfold prefix_matches. rewrite ets_root, has_prefix_iff. unfold root_path.
  destruct path as [|b r].
  - split; [intros _; now left|intros _; now exists []].
  - unfold ensure_trailing_slash. destruct (has_suffix (b :: r) [slash]).
    + split.
      * intros [r0 H]. inversion H; subst. right. now exists r0.
      * intros [H|[r0 H]]; [discriminate|]. inversion H; subst. now exists r0.
    + split.
      * intros [r0 H]. inversion H; subst. right. now exists r.
      * intros [H|[r0 H]]; [discriminate|]. inversion H; subst. now exists (r0 ++ [slash]).
Qed.

Lemma has_prefix_snoc (a b : str) c :
  has_prefix (a ++ [c]) (b ++ [c]) = true <-> a = b \/ exists r, a = b ++ c :: r.
Proof.
  rewrite has_prefix_iff. split.
  - intros [r Hr]. destruct r as [|x r].
    + rewrite app_nil_r in Hr. apply app_inj_tail in Hr as [H _]. now left.
    + destruct (exists_last (l := x :: r)) as (l' & z & El); [discriminate|].
      rewrite El in Hr. rewrite !app_assoc in Hr. apply app_inj_tail in Hr as [H _].
      right. exists l'. rewrite H. now rewrite <- app_assoc.
  - intros [->|[r ->]].
    + exists []. now rewrite app_nil_r.
    + exists (r ++ [c]). rewrite <- !app_assoc. reflexivity.
Qed.

Lemma prefix_matches_nonroot path p : has_suffix p [slash] = false ->
  prefix_matches path p = true <-> path = p \/ exists r, path = p ++ slash :: r.
Proof.
  intros Hp. unfold prefix_matches. rewrite (ets_nonroot p Hp).
  destruct (has_suffix path [slash]) eqn:E.
  - assert (H : ensure_trailing_slash path = path)
      by (unfold ensure_trailing_slash; now rewrite E).
    rewrite H, has_prefix_iff. split.
    + intros [r ->]. right. exists r. now rewrite <- app_assoc.
    + intros [->|[r ->]]; [congruence|]. exists r. now rewrite <- app_assoc.
  - rewrite (ets_nonroot path E). apply has_prefix_snoc.
Qed.

(** The code's test is the segment-boundary test, for every normalised prefix
    and EVERY path (rooted or not). *)
Lemma prefix_matches_seg path p :
  normalised p -> prefix_matches path p = true <-> seg_match path p.
Proof.
  intros Hn. destruct (normalised_cases p Hn) as [->|(Hs & q & Hq & ->)].
  - rewrite prefix_matches_root. unfold seg_match. split.
    + intros H. left. now split.
    + intros [[_ H]|[H|[r H]]]; [exact H| |]; right;
        [exists []|exists (slash :: r)]; exact H.
  - rewrite (prefix_matches_nonroot _ _ Hs). unfold seg_match. split.
    + intros H. now right.
    + intros [[H _]|H]; [|exact H]. inversion H; subst; congruence.
Qed.

(** For a rooted path the side condition of the "/" case is vacuous. *)
Lemma seg_match_rooted r p :
  seg_match (slash :: r) p <->
  p = root_path \/ slash :: r = p \/ exists r', slash :: r = p ++ slash :: r'.
Proof.
  unfold seg_match. split.
  - intros [[H _]|H]; [now left|now right].
  - intros [H|H]; [left; split; [exact H|right; now exists r]|now right].
Qed.

(** A path that is neither empty nor rooted ("*", "foo") matches nothing; the
    empty path matches only "/". *)
Lemma seg_match_path_shape path p :
  normalised p -> seg_match path p -> path = [] \/ exists r, path = slash :: r.
Proof.
  intros Hn [[_ H]|[H|[r H]]]; [exact H| |]; right;
    destruct (normalised_cases p Hn) as [->|(_ & q & _ & ->)]; subst; unfold root_path; cbn; eauto.
Qed.

Lemma seg_match_empty_path p : normalised p -> seg_match [] p <-> p = root_path.
Proof.
  intros Hn. split.
  - intros [[H _]|[H|[r H]]]; [exact H| |].
    + destruct (normalised_cases p Hn) as [->|(_ & q & _ & ->)]; [reflexivity|discriminate].
    + destruct p; discriminate.
  - intros ->. left. split; [reflexivity|now left].
Qed.

(** Trailing slashes: a path and the same path with one "/" appended (when it
    had none) are matched identically, by any prefix. *)
Lemma prefix_matches_ets path p :
  prefix_matches (ensure_trailing_slash path) p = prefix_matches path p.
Proof. unfold prefix_matches. now rewrite ets_idem. Qed.

Lemma prefix_matches_trailing_slash path p :
  has_suffix path [slash] = false ->
  prefix_matches (path ++ [slash]) p = prefix_matches path p.
Proof. intros H. rewrite <- (ets_nonroot path H). apply prefix_matches_ets. Qed.

(** Key lemma: two normalised prefixes of equal length matching one path are equal. *)
Lemma match_same_length path p1 p2 :
  normalised p1 -> normalised p2 ->
  prefix_matches path p1 = true -> prefix_matches path p2 = true ->
  length p1 = length p2 -> p1 = p2.
Proof.
  intros N1 N2 M1 M2 L.
  destruct (normalised_cases p1 N1) as [->|(S1 & q1 & Q1 & E1)];
  destruct (normalised_cases p2 N2) as [->|(S2 & q2 & Q2 & E2)].
  - reflexivity.
  - subst. cbn in L. destruct q2; [congruence|discriminate].
  - subst. cbn in L. destruct q1; [congruence|discriminate].
  - unfold prefix_matches in *.
    rewrite (ets_nonroot _ S1) in M1. rewrite (ets_nonroot _ S2) in M2.
    apply has_prefix_iff in M1 as [r1 H1]. apply has_prefix_iff in M2 as [r2 H2].
    rewrite H1 in H2. apply app_eq_length in H2.
    + now apply app_inj_tail in H2 as [H _].
    + rewrite !app_length. cbn. lia.
Qed.

(** * Part 3: tables *)

(** [binds t h p n]: service [n] of table [t] lists host [h] and prefix [p]. *)
Definition binds (t : table) (h p n : str) : Prop :=
  exists s, In s t /\ bi_name s = n /\ In h (bi_hosts s) /\ In p (bi_prefixes s).

Lemma in_triples t h p n : In (h, p, n) (triples t) <-> binds t h p n.
Proof.
  unfold triples, binds. rewrite in_flat_map. split.
  - intros (s & Hs & H). apply in_flat_map in H as (h' & Hh & H).
    apply in_map_iff in H as (p' & E & Hp). inversion E; subst. exists s. auto.
  - intros (s & Hs & <- & Hh & Hp). exists s. split; [exact Hs|].
    apply in_flat_map. exists h. split; [exact Hh|]. apply in_map_iff. exists p. auto.
Qed.

Lemma in_bindings_for t h p n : In (p, n) (bindings_for t h) <-> binds t h p n.
Proof.
  unfold bindings_for, binds. rewrite in_flat_map. split.
  - intros (s & Hs & H). apply in_flat_map in H as (h' & Hh & H).
    destruct (str_eqb h' h) eqn:E; [|destruct H]. apply str_eqb_eq in E; subst.
    apply in_map_iff in H as (p' & E & Hp). inversion E; subst. exists s; auto.
  - intros (s & Hs & <- & Hh & Hp). exists s. split; [exact Hs|].
    apply in_flat_map. exists h. split; [exact Hh|]. rewrite str_eqb_refl.
    apply in_map_iff. exists p; auto.
Qed.

Definition lists_host (t : table) (h : str) : Prop := exists s, In s t /\ In h (bi_hosts s).

Lemma host_bound_iff t h : host_bound t h = true <-> lists_host t h.
Proof.
  unfold host_bound, lists_host. rewrite existsb_exists.
  split; intros (s & Hs & H); exists s; (split; [exact Hs|]); now apply mem_str_In.
Qed.

(** Unique ownership, as a proposition. *)
Definition owned_once (t : table) : Prop :=
  forall h p n1 n2, binds t h p n1 -> binds t h p n2 -> n1 = n2.

Lemma pair_owned_once_iff t : pair_owned_once t = true <-> owned_once t.
Proof.
  unfold pair_owned_once, owned_once. rewrite forallb_forall. split.
  - intros H h p n1 n2 B1 B2. apply in_triples in B1, B2.
    specialize (H _ B1). rewrite forallb_forall in H. specialize (H _ B2). cbn in H.
    rewrite !str_eqb_refl in H. cbn in H. now apply str_eqb_eq.
  - intros H [[h1 p1] n1] I1. apply forallb_forall. intros [[h2 p2] n2] I2.
    destruct (str_eqb h1 h2 && str_eqb p1 p2) eqn:E; [|reflexivity]. cbn.
    apply andb_true_iff in E as [E1 E2]. apply str_eqb_eq in E1, E2. subst.
    apply str_eqb_eq. apply in_triples in I1, I2. eapply H; eauto.
Qed.

Definition norm_table (t : table) : Prop :=
  forall s p, In s t -> In p (bi_prefixes s) -> normalised p.

Lemma binds_normalised t h p n : norm_table t -> binds t h p n -> normalised p.
Proof. intros Hn (s & Hs & _ & _ & Hp). eapply Hn; eauto. Qed.

(** ** Host level *)

(** "*" + the host from its first '.', when that '.' is not the first byte. *)
Definition wildcard_of (host w : str) : Prop :=
  exists a b, host = a ++ dot :: b /\ a <> [] /\ ~ In dot a /\ w = star :: dot :: b.

Lemma skipn_length_app {A} (a b : list A) : skipn (length a) (a ++ b) = b.
Proof. induction a as [|x a IH]; [reflexivity|exact IH]. Qed.

Lemma firstn_length_app {A} (a b : list A) : firstn (length a) (a ++ b) = a.
Proof. induction a as [|x a IH]; [reflexivity|cbn; now rewrite IH]. Qed.

Lemma wildcard_key_iff host w : wildcard_key host = Some w <-> wildcard_of host w.
Proof.
  unfold wildcard_key, wildcard_of. split.
  - destruct (index_byte host dot) as [[|n]|] eqn:E; try discriminate.
    intros H; injection H as <-.
    apply index_byte_some in E as (a & b & -> & Hn & Hl). exists a, b. repeat split; auto.
    + intros ->; discriminate.
    + change (star :: skipn (S n) (a ++ dot :: b) = star :: dot :: b).
      rewrite <- Hl. now rewrite skipn_length_app.
  - intros (a & b & -> & Ha & Hn & ->). rewrite (index_byte_app a dot b Hn).
    destruct a as [|x a]; [congruence|]. cbn [length].
    change (S (length a)) with (length (x :: a)). now rewrite skipn_length_app.
Qed.

(** The level at which a host key is looked up. *)
Definition level_of (t : table) (host l : str) : Prop :=
  (lists_host t host /\ l = host) \/
  (~ lists_host t host /\ exists w, wildcard_of host w /\ lists_host t w /\ l = w) \/
  (~ lists_host t host /\ (forall w, wildcard_of host w -> ~ lists_host t w) /\ l = []).

Lemma host_level_spec t host : level_of t host (host_level t host).
Proof.
  unfold level_of, host_level. destruct (host_bound t host) eqn:E.
  - left. split; [now apply host_bound_iff|reflexivity].
  - assert (Hn : ~ lists_host t host) by (intros H; apply host_bound_iff in H; congruence).
    right. destruct (wildcard_key host) as [w|] eqn:Ew.
    + destruct (host_bound t w) eqn:Eb.
      * left. split; [exact Hn|]. exists w. split; [now apply wildcard_key_iff|].
        split; [now apply host_bound_iff|reflexivity].
      * right. split; [exact Hn|]. split; [|reflexivity]. intros w' Hw' Hl.
        apply wildcard_key_iff in Hw'. rewrite Ew in Hw'. inversion Hw'; subst.
        apply host_bound_iff in Hl. congruence.
    + right. split; [exact Hn|]. split; [|reflexivity]. intros w' Hw' _.
      apply wildcard_key_iff in Hw'. congruence.
Qed.

Lemma level_of_fun t host l1 l2 : level_of t host l1 -> level_of t host l2 -> l1 = l2.
Proof.
  intros [[A1 ->]|[(A1 & w1 & W1 & L1 & ->)|(A1 & F1 & ->)]]
         [[A2 ->]|[(A2 & w2 & W2 & L2 & ->)|(A2 & F2 & ->)]];
    try reflexivity; try contradiction.
  - apply wildcard_key_iff in W1, W2. congruence.
  - exfalso. eapply F2; eauto.
  - exfalso. eapply F1; eauto.
Qed.

Lemma level_of_iff t host l : level_of t host l <-> l = host_level t host.
Proof.
  split.
  - intros H. eapply level_of_fun; [exact H|apply host_level_spec].
  - intros ->. apply host_level_spec.
Qed.

(** * Part 4: routing *)

(** A binding of level [l] that matches [path]. *)
Definition candidate (t : table) (l path p n : str) : Prop :=
  binds t l p n /\ seg_match path p.

(** Declarative routing: [Some (owner, prefix)] or [None] (404). *)
Definition route_spec (t : table) (host path : str) (r : option (str * str)) : Prop :=
  exists l, level_of t host l /\
  match r with
  | Some (n, p) => candidate t l path p n /\
                   forall p' n', candidate t l path p' n' -> length p' <= length p
  | None => forall p n, ~ candidate t l path p n
  end.

Lemma candidate_iff t l path p n : norm_table t ->
  candidate t l path p n <-> In (p, n) (bindings_for t l) /\ prefix_matches path p = true.
Proof.
  intros Hn. unfold candidate. rewrite in_bindings_for. split; intros [B M]; (split; [exact B|]);
    apply (prefix_matches_seg path p (binds_normalised _ _ _ _ Hn B)); exact M.
Qed.

Lemma best_match_spec path : forall bs best,
  match best_match path bs best with
  | Some (p, n) =>
      ((In (p, n) bs /\ prefix_matches path p = true) \/ best = Some (p, n)) /\
      (forall p' n', In (p', n') bs -> prefix_matches path p' = true -> length p' <= length p) /\
      (forall bp bn, best = Some (bp, bn) -> length bp <= length p)
  | None => best = None /\ forall p' n', In (p', n') bs -> prefix_matches path p' = false
  end.
Proof.
  induction bs as [|[p n] r IH]; intros best; cbn [best_match].
  - destruct best as [[bp bn]|].
    + split; [now right|]. split; [intros p' n' []|]. intros bp' bn' H. inversion H; subst. lia.
    + split; [reflexivity|intros p' n' []].
  - destruct (prefix_matches path p) eqn:E.
    + destruct best as [[bp bn]|].
      * destruct (Nat.ltb (length bp) (length p)) eqn:El.
        -- specialize (IH (Some (p, n))). destruct (best_match path r (Some (p, n))) as [[p0 n0]|].
           ++ destruct IH as (I & Mx & Mb). specialize (Mb p n eq_refl). split; [|split].
              ** destruct I as [[I M]|I]; [left; split; [now right|exact M]|].
                 inversion I; subst. left. split; [now left|exact E].
              ** intros p' n' [H|H] Hm; [inversion H; subst; exact Mb|eauto].
              ** intros bp' bn' H. inversion H; subst. lia.
           ++ destruct IH as [IH _]. discriminate.
        -- specialize (IH (Some (bp, bn))).
           destruct (best_match path r (Some (bp, bn))) as [[p0 n0]|].
           ++ destruct IH as (I & Mx & Mb). specialize (Mb bp bn eq_refl). split; [|split].
              ** destruct I as [[I M]|I]; [left; split; [now right|exact M]|now right].
              ** intros p' n' [H|H] Hm; [inversion H; subst; lia|eauto].
              ** intros bp' bn' H. inversion H; subst. exact Mb.
           ++ destruct IH as [IH _]. discriminate.
      * specialize (IH (Some (p, n))). destruct (best_match path r (Some (p, n))) as [[p0 n0]|].
        -- destruct IH as (I & Mx & Mb). specialize (Mb p n eq_refl). split; [|split].
           ++ destruct I as [[I M]|I]; [left; split; [now right|exact M]|].
              inversion I; subst. left. split; [now left|exact E].
           ++ intros p' n' [H|H] Hm; [inversion H; subst; exact Mb|eauto].
           ++ intros bp' bn' H. discriminate.
        -- destruct IH as [IH _]. discriminate.
    + specialize (IH best). destruct (best_match path r best) as [[p0 n0]|].
      * destruct IH as (I & Mx & Mb). split; [|split].
        -- destruct I as [[I M]|I]; [left; split; [now right|exact M]|now right].
        -- intros p' n' [H|H] Hm; [inversion H; subst; congruence|eauto].
        -- exact Mb.
      * destruct IH as [IH Hf]. split; [exact IH|].
        intros p' n' [H|H]; [inversion H; subst; exact E|eauto].
Qed.

(** [service_for] meets the declarative specification (no ownership needed). *)
Lemma service_for_spec t host path :
  norm_table t -> route_spec t host path (service_for t host path).
Proof.
  intros Hn. exists (host_level t host). split; [apply host_level_spec|].
  unfold service_for.
  pose proof (best_match_spec path (bindings_for t (host_level t host)) None) as H.
  destruct (best_match path (bindings_for t (host_level t host)) None) as [[p n]|].
  - destruct H as ([[Hi Hm]|Hb] & Hmax & _); [|discriminate]. split.
    + apply candidate_iff; auto.
    + intros p' n' Hc. apply candidate_iff in Hc as [Hi' Hm']; eauto.
  - destruct H as [_ H]. intros p n Hc. apply candidate_iff in Hc as [Hi Hm]; [|exact Hn].
    rewrite (H _ _ Hi) in Hm. discriminate.
Qed.

(** The specification determines the answer, under unique ownership. *)
Lemma route_spec_unique t host path r1 r2 :
  owned_once t -> norm_table t ->
  route_spec t host path r1 -> route_spec t host path r2 -> r1 = r2.
Proof.
  intros Ho Hn (l1 & L1 & H1) (l2 & L2 & H2).
  assert (El : l2 = l1) by eauto using level_of_fun. subst l2.
  destruct r1 as [[n1 p1]|], r2 as [[n2 p2]|].
  - destruct H1 as [C1 M1], H2 as [C2 M2].
    assert (L : length p1 = length p2) by (apply Nat.le_antisymm; eauto).
    assert (Ep : p1 = p2).
    { apply candidate_iff in C1 as [B1 S1]; [|exact Hn].
      apply candidate_iff in C2 as [B2 S2]; [|exact Hn].
      apply in_bindings_for in B1, B2.
      eapply match_same_length; eauto using binds_normalised. }
    subst. destruct C1 as [B1 _], C2 as [B2 _]. f_equal. f_equal. eapply Ho; eauto.
  - exfalso. destruct H1 as [C1 _]. eapply H2; eauto.
  - exfalso. destruct H2 as [C2 _]. eapply H1; eauto.
  - reflexivity.
Qed.

(** Two matching bindings of equal prefix length at one level coincide. *)
Lemma candidate_tie t l path p1 n1 p2 n2 :
  owned_once t -> norm_table t ->
  candidate t l path p1 n1 -> candidate t l path p2 n2 -> length p1 = length p2 ->
  p1 = p2 /\ n1 = n2.
Proof.
  intros Ho Hn C1 C2 L.
  assert (Ep : p1 = p2).
  { apply candidate_iff in C1 as [B1 S1]; [|exact Hn].
    apply candidate_iff in C2 as [B2 S2]; [|exact Hn].
    apply in_bindings_for in B1, B2. eapply match_same_length; eauto using binds_normalised. }
  subst. split; [reflexivity|]. destruct C1 as [B1 _], C2 as [B2 _]. eapply Ho; eauto.
Qed.

Lemma service_for_none_iff t host path : norm_table t ->
  service_for t host path = None <->
  forall l, level_of t host l -> forall p n, ~ candidate t l path p n.
Proof.
  intros Hn. pose proof (service_for_spec t host path Hn) as (l & L & H). split.
  - intros E l' L' p n. rewrite E in H. rewrite (level_of_fun _ _ _ _ L' L). apply H.
  - intros Hno. destruct (service_for t host path) as [[n p]|]; [|reflexivity].
    exfalso. destruct H as [C _]. eapply Hno; eauto.
Qed.

(** ** The code's literal algorithm *)

Definition longer_first (a b : str * str) : Prop := length (fst b) <= length (fst a).

(** Sorted by descending prefix length; ties in any order. *)
Definition desc_sorted (bs : list (str * str)) : Prop := Sorted longer_first bs.

Lemma longer_first_trans : Relations_1.Transitive longer_first.
Proof. intros a b c. unfold longer_first. lia. Qed.

Lemma first_match_spec path : forall bs, StronglySorted longer_first bs ->
  match first_match path bs with
  | Some (n, p) => In (p, n) bs /\ prefix_matches path p = true /\
      forall p' n', In (p', n') bs -> prefix_matches path p' = true -> length p' <= length p
  | None => forall p' n', In (p', n') bs -> prefix_matches path p' = false
  end.
Proof.
  induction bs as [|[p n] r IH]; intros Hs; cbn [first_match].
  - intros p' n' [].
  - apply StronglySorted_inv in Hs as [Hs Hf]. destruct (prefix_matches path p) eqn:E.
    + split; [now left|]. split; [exact E|]. intros p' n' [H|H] _.
      * inversion H; subst; lia.
      * rewrite Forall_forall in Hf. apply (Hf _ H).
    + specialize (IH Hs). destruct (first_match path r) as [[n0 p0]|].
      * destruct IH as (I & M & Mx). split; [now right|]. split; [exact M|].
        intros p' n' [H|H] Hm; [inversion H; subst; congruence|eauto].
      * intros p' n' [H|H]; [inversion H; subst; exact E|eauto].
Qed.

Lemma first_match_route_spec t host path bs :
  norm_table t ->
  Permutation bs (bindings_for t (host_level t host)) -> desc_sorted bs ->
  route_spec t host path (first_match path bs).
Proof.
  intros Hn Hp Hs. exists (host_level t host). split; [apply host_level_spec|].
  apply (Sorted_StronglySorted longer_first_trans) in Hs.
  pose proof (first_match_spec path bs Hs) as H.
  assert (Hin : forall x, In x bs <-> In x (bindings_for t (host_level t host))).
  { intros x. split; apply Permutation_in; [exact Hp|now apply Permutation_sym]. }
  destruct (first_match path bs) as [[n p]|].
  - destruct H as (I & M & Mx). split.
    + apply candidate_iff; [exact Hn|]. split; [now apply Hin|exact M].
    + intros p' n' Hc. apply candidate_iff in Hc as [I' M']; [|exact Hn].
      apply Hin in I'. eauto.
  - intros p n Hc. apply candidate_iff in Hc as [I' M']; [|exact Hn].
    apply Hin in I'. rewrite (H _ _ I') in M'. discriminate.
Qed.

Lemma first_match_service_for t host path bs :
  owned_once t -> norm_table t ->
  Permutation bs (bindings_for t (host_level t host)) -> desc_sorted bs ->
  first_match path bs = service_for t host path.
Proof.
  intros Ho Hn Hp Hs. apply (route_spec_unique t host path _ _ Ho Hn).
  - now apply first_match_route_spec.
  - now apply service_for_spec.
Qed.

(** ** Independence of the table order *)

Definition same_services (t1 t2 : table) : Prop := forall s, In s t1 <-> In s t2.

Lemma binds_ext t1 t2 h p n : same_services t1 t2 -> binds t1 h p n -> binds t2 h p n.
Proof. intros E (s & Hs & H). exists s. split; [now apply E|exact H]. Qed.

Lemma lists_host_ext t1 t2 h : same_services t1 t2 -> lists_host t1 h -> lists_host t2 h.
Proof. intros E (s & Hs & H). exists s. split; [now apply E|exact H]. Qed.

Lemma same_services_sym t1 t2 : same_services t1 t2 -> same_services t2 t1.
Proof. intros E s. symmetry. apply E. Qed.

Lemma level_of_ext t1 t2 host l : same_services t1 t2 -> level_of t1 host l -> level_of t2 host l.
Proof.
  intros E. pose proof (same_services_sym _ _ E) as E'.
  intros [[A ->]|[(A & w & W & L & ->)|(A & F & ->)]].
  - left. split; [eauto using lists_host_ext|reflexivity].
  - right; left. split; [intros H; apply A; eauto using lists_host_ext|].
    exists w. split; [exact W|]. split; [eauto using lists_host_ext|reflexivity].
  - right; right. split; [intros H; apply A; eauto using lists_host_ext|]. split; [|reflexivity].
    intros w W H. apply (F w W). eauto using lists_host_ext.
Qed.

Lemma route_spec_ext t1 t2 host path r :
  same_services t1 t2 -> route_spec t1 host path r -> route_spec t2 host path r.
Proof.
  intros E (l & L & H). pose proof (same_services_sym _ _ E) as E'.
  exists l. split; [eauto using level_of_ext|].
  destruct r as [[n p]|].
  - destruct H as [[B S] M]. split; [split; eauto using binds_ext|].
    intros p' n' [B' S']. apply (M p' n'). split; eauto using binds_ext.
  - intros p n [B S]. apply (H p n). split; eauto using binds_ext.
Qed.

Lemma norm_table_ext t1 t2 : same_services t1 t2 -> norm_table t1 -> norm_table t2.
Proof. intros E H s p Hs Hp. apply (H s p); [now apply E|exact Hp]. Qed.

Lemma owned_once_ext t1 t2 : same_services t1 t2 -> owned_once t1 -> owned_once t2.
Proof.
  intros E H h p n1 n2 B1 B2. apply same_services_sym in E.
  eapply H; eauto using binds_ext.
Qed.

Lemma service_for_ext t1 t2 host path :
  same_services t1 t2 -> owned_once t1 -> norm_table t1 ->
  service_for t1 host path = service_for t2 host path.
Proof.
  intros E Ho Hn. apply (route_spec_unique t1 host path _ _ Ho Hn).
  - now apply service_for_spec.
  - apply (route_spec_ext t2 t1); [now apply same_services_sym|].
    apply service_for_spec. eauto using norm_table_ext.
Qed.

Lemma Permutation_same_services t1 t2 : Permutation t1 t2 -> same_services t1 t2.
Proof. intros P s. split; apply Permutation_in; [exact P|now apply Permutation_sym]. Qed.

(** * Part 5: the host key (port stripping) *)

Lemma split_host_port_plain hp : hd_error hp <> Some x5b ->
  split_host_port hp =
  match last_index_byte hp colon with
  | None => None
  | Some i =>
    let host := firstn i hp in
    if contains_byte host colon then None
    else if contains_byte hp x5b || contains_byte hp x5d then None else Some host
  end.
Proof.
  intros H. unfold split_host_port. destruct (last_index_byte hp colon) as [i|]; [|reflexivity].
  destruct hp as [|b r]; [reflexivity|]. destruct b; try reflexivity. exfalso; apply H; reflexivity.
Qed.

Lemma split_host_port_bracket r :
  split_host_port (x5b :: r) =
  match last_index_byte (x5b :: r) colon with
  | None => None
  | Some i =>
    match index_byte (x5b :: r) x5d with
    | None => None
    | Some e =>
      if Nat.eqb (S e) i then
        if contains_byte (skipn 1 (x5b :: r)) x5b || contains_byte (skipn (S e) (x5b :: r)) x5d
        then None else Some (firstn (e - 1) (skipn 1 (x5b :: r)))
      else None
    end
  end.
Proof. reflexivity. Qed.

(** Bytes that may not occur in a plain host or in a port. *)
Definition plain (s : str) : Prop := ~ In colon s /\ ~ In x5b s /\ ~ In x5d s.

Lemma split_host_port_host_port h port :
  h <> [] -> plain h -> plain port -> split_host_port (h ++ colon :: port) = Some h.
Proof.
  intros Hne (Hc & Hl & Hr) (Pc & Pl & Pr).
  rewrite split_host_port_plain.
  - rewrite (last_index_byte_app h colon port Pc). cbn zeta.
    rewrite firstn_length_app.
    assert (E1 : contains_byte h colon = false) by now apply contains_byte_false.
    assert (E2 : contains_byte (h ++ colon :: port) x5b = false).
    { apply contains_byte_false. intros H. apply in_app_or in H as [H|[H|H]]; auto. discriminate. }
    assert (E3 : contains_byte (h ++ colon :: port) x5d = false).
    { apply contains_byte_false. intros H. apply in_app_or in H as [H|[H|H]]; auto. discriminate. }
    now rewrite E1, E2, E3.
  - destruct h as [|b h]; [congruence|]. cbn. intros H. inversion H; subst. apply Hl. now left.
Qed.

(** host:port -> host *)
Lemma request_host_key_port h port :
  h <> [] -> plain h -> plain port -> request_host_key (h ++ colon :: port) = h.
Proof.
  intros Hne Hh Hp. unfold request_host_key.
  rewrite (index_byte_app h colon port (proj1 Hh)).
  rewrite (split_host_port_host_port h port Hne Hh Hp).
  assert (E : contains_byte h colon = false) by (apply contains_byte_false; apply Hh).
  rewrite E. destruct h; [congruence|reflexivity].
Qed.

Lemma request_host_key_pinned_port h port :
  h <> [] -> plain h -> plain port -> request_host_key_pinned (h ++ colon :: port) = h.
Proof.
  intros Hne Hh Hp. unfold request_host_key_pinned.
  rewrite (index_byte_app h colon port (proj1 Hh)).
  rewrite (split_host_port_host_port h port Hne Hh Hp).
  destruct h; [congruence|reflexivity].
Qed.

(** no colon -> unchanged *)
Lemma request_host_key_no_colon h : ~ In colon h -> request_host_key h = h.
Proof.
  intros H. unfold request_host_key. apply index_byte_none in H. now rewrite H.
Qed.

(** leading colon (":80") -> unchanged: [strings.Index(host, ":") > 0] fails *)
Lemma request_host_key_leading_colon r : request_host_key (colon :: r) = colon :: r.
Proof. reflexivity. Qed.

Lemma digits_plain port : forallb is_digit port = true -> plain port.
Proof.
  intros H. rewrite forallb_forall in H.
  repeat split; intros Hi; apply H in Hi; vm_compute in Hi; discriminate.
Qed.

Lemma last_index_aux_bound : forall s c k acc i,
  last_index_byte_aux s c k acc = Some i -> acc = Some i \/ (k <= i < k + length s).
Proof.
  induction s as [|x s IH]; intros c k acc i H; cbn in H.
  - now left.
  - apply IH in H as [H|H].
    + destruct (byte_eqb x c); [|now left]. inversion H; subst. right. cbn. lia.
    + right. cbn. lia.
Qed.

Lemma last_index_byte_bound s c i : last_index_byte s c = Some i -> i < length s.
Proof.
  intros H. apply last_index_aux_bound in H as [H|H]; [discriminate|lia].
Qed.

Lemma index_byte_S x r c : x <> c -> In c r -> exists k, index_byte (x :: r) c = Some (S k).
Proof.
  intros Hx Hi. cbn. apply byte_eqb_neq in Hx. rewrite Hx.
  destruct (index_byte r c) as [n|] eqn:E; [now exists n|].
  apply index_byte_none in E. contradiction.
Qed.

(** net.SplitHostPort strips the brackets of "[a]:port". *)
Lemma split_host_port_bracket_port a port :
  ~ In x5b a -> ~ In x5d a -> plain port ->
  split_host_port (x5b :: a ++ x5d :: colon :: port) = Some a.
Proof.
  intros Hl Hr (Pc & Pl & Pr).
  rewrite split_host_port_bracket.
  replace (x5b :: a ++ x5d :: colon :: port) with ((x5b :: a ++ [x5d]) ++ colon :: port)
    by (cbn; now rewrite <- app_assoc).
  rewrite (last_index_byte_app _ colon port Pc).
  replace ((x5b :: a ++ [x5d]) ++ colon :: port) with ((x5b :: a) ++ x5d :: colon :: port)
    by (cbn; now rewrite <- app_assoc).
  rewrite index_byte_app.
  2:{ intros [H|H]; [discriminate|contradiction]. }
  assert (E : Nat.eqb (S (length (x5b :: a))) (length (x5b :: a ++ [x5d])) = true).
  { apply Nat.eqb_eq. cbn. rewrite app_length. cbn. lia. }
  rewrite E.
  change (skipn 1 ((x5b :: a) ++ x5d :: colon :: port)) with (a ++ x5d :: colon :: port).
  assert (Es : skipn (S (length (x5b :: a))) ((x5b :: a) ++ x5d :: colon :: port) = colon :: port).
  { replace ((x5b :: a) ++ x5d :: colon :: port) with (((x5b :: a) ++ [x5d]) ++ colon :: port)
      by (now rewrite <- app_assoc).
    replace (S (length (x5b :: a))) with (length ((x5b :: a) ++ [x5d]))
      by (rewrite app_length; cbn; lia).
    apply skipn_length_app. }
  rewrite Es.
  assert (E1 : contains_byte (a ++ x5d :: colon :: port) x5b = false).
  { apply contains_byte_false. intros H. apply in_app_or in H as [H|[H|[H|H]]]; auto; discriminate. }
  assert (E2 : contains_byte (colon :: port) x5d = false).
  { apply contains_byte_false. intros [H|H]; [discriminate|auto]. }
  rewrite E1, E2. cbn [orb length]. rewrite Nat.sub_succ, Nat.sub_0_r.
  now rewrite firstn_length_app.
Qed.

Lemma index_colon_bracket_port a port :
  exists k, index_byte (x5b :: a ++ x5d :: colon :: port) colon = Some (S k).
Proof.
  apply index_byte_S; [discriminate|]. apply in_or_app. right. right. now left.
Qed.

(** "[a]:port" with a ':' in [a] (an IPv6 literal): the brackets are put back. *)
Lemma request_host_key_bracket_port a port :
  In colon a -> ~ In x5b a -> ~ In x5d a -> plain port ->
  request_host_key (x5b :: a ++ x5d :: colon :: port) = x5b :: a ++ [x5d].
Proof.
  intros Hc Hl Hr Hp. unfold request_host_key.
  destruct (index_colon_bracket_port a port) as [k ->].
  rewrite (split_host_port_bracket_port a port Hl Hr Hp).
  apply contains_byte_true in Hc. now rewrite Hc.
Qed.

(** "[a]:port" without ':' in [a] ("[abc]:80"): looked up as "a", brackets dropped. *)
Lemma request_host_key_bracket_port_no_colon a port :
  ~ In colon a -> ~ In x5b a -> ~ In x5d a -> plain port ->
  request_host_key (x5b :: a ++ x5d :: colon :: port) = a.
Proof.
  intros Hc Hl Hr Hp. unfold request_host_key.
  destruct (index_colon_bracket_port a port) as [k ->].
  rewrite (split_host_port_bracket_port a port Hl Hr Hp).
  apply contains_byte_false in Hc. now rewrite Hc.
Qed.

(** The tree as given dropped the brackets in both cases. *)
Lemma request_host_key_pinned_bracket_port a port :
  ~ In x5b a -> ~ In x5d a -> plain port ->
  request_host_key_pinned (x5b :: a ++ x5d :: colon :: port) = a.
Proof.
  intros Hl Hr Hp. unfold request_host_key_pinned.
  destruct (index_colon_bracket_port a port) as [k ->].
  now rewrite (split_host_port_bracket_port a port Hl Hr Hp).
Qed.

(** "[a]" without a port does not split: it keeps its brackets, whatever [a] is. *)
Lemma split_host_port_bracket_no_port a :
  ~ In x5d a -> split_host_port (x5b :: a ++ [x5d]) = None.
Proof.
  intros Hr. rewrite split_host_port_bracket.
  destruct (last_index_byte (x5b :: a ++ [x5d]) colon) as [i|] eqn:Ei; [|reflexivity].
  apply last_index_byte_bound in Ei.
  change (x5b :: a ++ [x5d]) with ((x5b :: a) ++ [x5d]) at 1.
  rewrite index_byte_app.
  2:{ intros [H|H]; [discriminate|contradiction]. }
  assert (E : Nat.eqb (S (length (x5b :: a))) i = false).
  { apply Nat.eqb_neq. cbn in *. rewrite app_length in Ei. cbn in Ei. lia. }
  now rewrite E.
Qed.

Lemma request_host_key_bracket_no_port a :
  ~ In x5d a -> request_host_key (x5b :: a ++ [x5d]) = x5b :: a ++ [x5d].
Proof.
  intros Hr. unfold request_host_key.
  destruct (index_byte (x5b :: a ++ [x5d]) colon) as [[|k]|]; try reflexivity.
  now rewrite (split_host_port_bracket_no_port a Hr).
Qed.

Lemma request_host_key_pinned_bracket_no_port a :
  ~ In x5d a -> request_host_key_pinned (x5b :: a ++ [x5d]) = x5b :: a ++ [x5d].
Proof.
  intros Hr. unfold request_host_key_pinned.
  destruct (index_byte (x5b :: a ++ [x5d]) colon) as [[|k]|]; try reflexivity.
  now rewrite (split_host_port_bracket_no_port a Hr).
Qed.

(** The port of an IPv6 literal is ignored: both forms give the bracketed key. *)
Lemma port_ignored_ipv6 a port :
  In colon a -> ~ In x5b a -> ~ In x5d a -> plain port ->
  request_host_key (x5b :: a ++ x5d :: colon :: port) = x5b :: a ++ [x5d] /\
  request_host_key (x5b :: a ++ [x5d]) = x5b :: a ++ [x5d].
Proof.
  intros Hc Hl Hr Hp. split; [now apply request_host_key_bracket_port|].
  now apply request_host_key_bracket_no_port.
Qed.

(** In the tree as given the two forms of one IPv6 authority had different keys. *)
Lemma refuted_pinned_ipv6 : exists a port,
  request_host_key_pinned (x5b :: a ++ x5d :: colon :: port) <>
  request_host_key_pinned (x5b :: a ++ [x5d]).
Proof. exists (bs "::1"), (bs "80"). vm_compute. discriminate. Qed.

(** ... for every bracketed literal, in fact. *)
Lemma pinned_ipv6_always_differs a port :
  ~ In x5b a -> ~ In x5d a -> plain port ->
  request_host_key_pinned (x5b :: a ++ x5d :: colon :: port) <>
  request_host_key_pinned (x5b :: a ++ [x5d]).
Proof.
  intros Hl Hr Hp. rewrite (request_host_key_pinned_bracket_port a port Hl Hr Hp).
  rewrite (request_host_key_pinned_bracket_no_port a Hr). intros H.
  apply (f_equal (@length byte)) in H. cbn in H. rewrite app_length in H. cbn in H. lia.
Qed.

(** * Part 6: ownership under Set / Remove / CheckAvailability *)

Lemma in_tbl_remove t n s : In s (tbl_remove t n) <-> In s t /\ bi_name s <> n.
Proof.
  induction t as [|x t IH]; cbn.
  - tauto.
  - destruct (str_eqb (bi_name x) n) eqn:E.
    + apply str_eqb_eq in E. rewrite IH. split.
      * intros [H1 H2]. auto.
      * intros [[H1|H1] H2]; [subst; contradiction|auto].
    + apply str_eqb_neq in E. cbn. rewrite IH. split.
      * intros [H|[H1 H2]]; [subst; auto|auto].
      * intros [[H1|H1] H2]; auto.
Qed.

Lemma binds_tbl_remove t name h p n :
  binds (tbl_remove t name) h p n <-> binds t h p n /\ n <> name.
Proof.
  unfold binds. split.
  - intros (s & Hs & Hn & H). apply in_tbl_remove in Hs as [Hs Hne]. split; [exists s; auto|congruence].
  - intros [(s & Hs & Hn & H) Hne]. exists s. split; [|auto]. apply in_tbl_remove. split; [exact Hs|congruence].
Qed.

Lemma binds_app t1 t2 h p n : binds (t1 ++ t2) h p n <-> binds t1 h p n \/ binds t2 h p n.
Proof.
  unfold binds. split.
  - intros (s & Hs & H). apply in_app_or in Hs as [Hs|Hs]; [left|right]; exists s; auto.
  - intros [(s & Hs & H)|(s & Hs & H)]; exists s; (split; [apply in_or_app; auto|exact H]).
Qed.

Lemma binds_single b h p n :
  binds [b] h p n <-> n = bi_name b /\ In h (bi_hosts b) /\ In p (bi_prefixes b).
Proof.
  unfold binds. split.
  - intros (s & [<-|[]] & <- & H). auto.
  - intros (-> & H). exists b. split; [now left|auto].
Qed.

Lemma binds_tbl_set t b h p n :
  binds (tbl_set t b) h p n <->
  (n = bi_name b /\ In h (bi_hosts b) /\ In p (bi_prefixes b)) \/
  (n <> bi_name b /\ binds t h p n).
Proof.
  unfold tbl_set. rewrite binds_app, binds_tbl_remove, binds_single. tauto.
Qed.

Lemma conflicts_iff t name hs ps :
  conflicts t name hs ps = true <->
  exists h p n, In h hs /\ In p ps /\ binds t h p n /\ n <> name.
Proof.
  unfold conflicts. rewrite existsb_exists. split.
  - intros (h & Hh & H). apply existsb_exists in H as (p & Hp & H).
    apply existsb_exists in H as ([p' n] & Hb & H). cbn in H.
    apply andb_true_iff in H as [E1 E2]. apply str_eqb_eq in E1. subst p'.
    apply negb_true_iff in E2. apply str_eqb_neq in E2.
    exists h, p, n. repeat split; auto. now apply in_bindings_for.
  - intros (h & p & n & Hh & Hp & B & Hne). exists h. split; [exact Hh|].
    apply existsb_exists. exists p. split; [exact Hp|].
    apply existsb_exists. exists (p, n). split; [now apply in_bindings_for|].
    cbn. rewrite str_eqb_refl. cbn. apply negb_true_iff. now apply str_eqb_neq.
Qed.

Lemma conflicts_false_iff t name hs ps :
  conflicts t name hs ps = false <->
  forall h p n, In h hs -> In p ps -> binds t h p n -> n = name.
Proof.
  split.
  - intros E h p n Hh Hp B. destruct (str_eq_dec n name) as [H|H]; [exact H|].
    assert (C : conflicts t name hs ps = true) by (apply conflicts_iff; exists h, p, n; auto).
    congruence.
  - intros H. destruct (conflicts t name hs ps) eqn:E; [|reflexivity].
    apply conflicts_iff in E as (h & p & n & Hh & Hp & B & Hne). exfalso. eauto.
Qed.

(** ** Well-formed tables *)

Definition wf_bi (b : binding_info) : Prop :=
  bi_hosts b <> [] /\ bi_prefixes b <> [] /\ Forall normalised (bi_prefixes b).

Definition tbl_ok (t : table) : Prop :=
  owned_once t /\ NoDup (map bi_name t) /\ Forall wf_bi t.

Lemma tbl_ok_norm t : tbl_ok t -> norm_table t.
Proof.
  intros (_ & _ & Hw) s p Hs Hp. rewrite Forall_forall in Hw.
  destruct (Hw s Hs) as (_ & _ & Hf). rewrite Forall_forall in Hf. auto.
Qed.

Lemma tbl_ok_nil : tbl_ok [].
Proof.
  split; [|split]; [|constructor|constructor].
  intros h p n1 n2 (s & [] & _).
Qed.

Lemma names_tbl_remove_notin t n : ~ In n (map bi_name (tbl_remove t n)).
Proof.
  intros H. apply in_map_iff in H as (s & E & Hs). apply in_tbl_remove in Hs as [_ Hne]. congruence.
Qed.

Lemma names_tbl_remove_nodup t n : NoDup (map bi_name t) -> NoDup (map bi_name (tbl_remove t n)).
Proof.
  induction t as [|x t IH]; cbn; intros H; [constructor|].
  inversion H as [|? ? Hn Hd]; subst. destruct (str_eqb (bi_name x) n); [auto|].
  cbn. constructor; [|auto]. intros Hi. apply Hn.
  apply in_map_iff in Hi as (s & E & Hs). apply in_tbl_remove in Hs as [Hs _].
  apply in_map_iff. exists s. auto.
Qed.

Lemma NoDup_snoc {A} (l : list A) x : NoDup l -> ~ In x l -> NoDup (l ++ [x]).
Proof.
  intros Hd Hn. apply (NoDup_Add (a := x) (l := l)).
  - rewrite <- (app_nil_r l) at 1. apply Add_app.
  - auto.
Qed.

Lemma tbl_remove_ok t n : tbl_ok t -> tbl_ok (tbl_remove t n).
Proof.
  intros (Ho & Hd & Hw). split; [|split].
  - intros h p n1 n2 B1 B2. apply binds_tbl_remove in B1 as [B1 _], B2 as [B2 _]. eauto.
  - now apply names_tbl_remove_nodup.
  - rewrite Forall_forall in *. intros s Hs. apply in_tbl_remove in Hs as [Hs _]. auto.
Qed.

Lemma tbl_set_ok t b :
  tbl_ok t -> wf_bi b -> conflicts t (bi_name b) (bi_hosts b) (bi_prefixes b) = false ->
  tbl_ok (tbl_set t b).
Proof.
  intros (Ho & Hd & Hw) Hb Hc. rewrite conflicts_false_iff in Hc. split; [|split].
  - intros h p n1 n2 B1 B2. apply binds_tbl_set in B1, B2.
    destruct B1 as [(-> & Hh1 & Hp1)|[N1 B1]], B2 as [(-> & Hh2 & Hp2)|[N2 B2]].
    + reflexivity.
    + symmetry. eauto.
    + eauto.
    + eauto.
  - unfold tbl_set. rewrite map_app. cbn. apply NoDup_snoc.
    + now apply names_tbl_remove_nodup.
    + apply names_tbl_remove_notin.
  - unfold tbl_set. apply Forall_app. split; [|now constructor].
    rewrite Forall_forall in *. intros s Hs. apply in_tbl_remove in Hs as [Hs _]. auto.
Qed.

Lemma tbl_remove_absent t n : ~ In n (map bi_name t) -> tbl_remove t n = t.
Proof.
  induction t as [|x t IH]; cbn; intros H; [reflexivity|].
  destruct (str_eqb (bi_name x) n) eqn:E.
  - apply str_eqb_eq in E. exfalso. apply H. now left.
  - f_equal. apply IH. intros Hi. apply H. now right.
Qed.

(** ** Lists of services *)

Lemma names_table_of svcs : map bi_name (table_of svcs) = map s_name svcs.
Proof. unfold table_of. rewrite map_map. reflexivity. Qed.

Lemma table_of_app a b : table_of (a ++ b) = table_of a ++ table_of b.
Proof. apply map_app. Qed.

Lemma table_of_svc_remove svcs n : table_of (svc_remove svcs n) = tbl_remove (table_of svcs) n.
Proof.
  unfold table_of. induction svcs as [|s r IH]; cbn; [reflexivity|].
  destruct (str_eqb (s_name s) n); cbn; now rewrite IH.
Qed.

Lemma table_of_svc_set svcs s : table_of (svc_set svcs s) = tbl_set (table_of svcs) (bi_of s).
Proof. unfold svc_set, tbl_set. rewrite table_of_app, table_of_svc_remove. reflexivity. Qed.

(** syncTLSOptionsFromRootDomain touches TLS flags only. *)
Lemma table_of_sync_tls svcs : table_of (sync_tls svcs) = table_of svcs.
Proof.
  unfold sync_tls, table_of. rewrite map_map. apply map_ext. intros s.
  destruct (serves_root s); [reflexivity|].
  match goal with |- context [let '(a, b) := ?X in _] => destruct X as [tls redir] end.
  reflexivity.
Qed.

Lemma table_of_install svcs s : table_of (install svcs s) = tbl_set (table_of svcs) (bi_of s).
Proof. unfold install. now rewrite table_of_sync_tls, table_of_svc_set. Qed.

Lemma svc_get_some svcs n s : svc_get svcs n = Some s -> In s svcs /\ s_name s = n.
Proof.
  induction svcs as [|x r IH]; cbn; [discriminate|].
  destruct (str_eqb (s_name x) n) eqn:E.
  - intros H; inversion H; subst. apply str_eqb_eq in E. auto.
  - intros H. apply IH in H as [H1 H2]. auto.
Qed.

Lemma svc_get_none svcs n : svc_get svcs n = None -> ~ In n (map s_name svcs).
Proof.
  induction svcs as [|x r IH]; cbn; [tauto|].
  destruct (str_eqb (s_name x) n) eqn:E; [discriminate|].
  apply str_eqb_neq in E. intros H [H1|H1]; [contradiction|]. now apply IH.
Qed.

Lemma map_replace_absent n s' r :
  ~ In n (map s_name r) -> map (fun x => if str_eqb (s_name x) n then s' else x) r = r.
Proof.
  induction r as [|x r IH]; cbn; intros H; [reflexivity|].
  destruct (str_eqb (s_name x) n) eqn:E.
  - apply str_eqb_eq in E. exfalso. apply H. now left.
  - f_equal. apply IH. intros Hi. apply H. now right.
Qed.

(** Replacing a service by one with the same name, hosts and prefixes. *)
Lemma table_of_replace svcs name s s' :
  NoDup (map s_name svcs) -> svc_get svcs name = Some s -> bi_of s' = bi_of s ->
  table_of (map (fun x => if str_eqb (s_name x) (s_name s') then s' else x) svcs) = table_of svcs.
Proof.
  intros Hd Hg Hb. assert (En : s_name s' = s_name s) by (apply (f_equal bi_name) in Hb; exact Hb).
  rewrite En. clear En.
  induction svcs as [|x r IH]; [discriminate|]. cbn in Hg. inversion Hd as [|? ? Hn Hd']; subst.
  destruct (str_eqb (s_name x) name) eqn:E.
  - inversion Hg; subst x. cbn. rewrite str_eqb_refl. rewrite map_replace_absent by exact Hn.
    cbn. now rewrite Hb.
  - destruct (svc_get_some _ _ _ Hg) as [_ Es]. cbn. rewrite Es, E. cbn. f_equal.
    rewrite <- Es. now apply IH.
Qed.

(** ** Restore *)

Lemma restore_svc_bi v s s' : restore_svc v s = Some s' -> bi_of s' = bi_of s.
Proof.
  unfold restore_svc. destruct (init_check v (s_opts s)); [discriminate|].
  intros H; inversion H; subst. reflexivity.
Qed.

Lemma restore_all_table v : forall saved svcs,
  restore_all v saved = Some svcs -> table_of svcs = table_of saved.
Proof.
  induction saved as [|s r IH]; cbn; intros svcs H.
  - inversion H; subst. reflexivity.
  - destruct (restore_svc v s) as [s'|] eqn:E1; [|discriminate].
    destruct (restore_all v r) as [r'|] eqn:E2; [|discriminate].
    inversion H; subst. change (bi_of s' :: table_of r' = bi_of s :: table_of r).
    now rewrite (restore_svc_bi _ _ _ E1), (IH _ eq_refl).
Qed.

Lemma fold_set_table : forall svcs acc,
  NoDup (map s_name acc ++ map s_name svcs) ->
  table_of (fold_left (fun acc s => sync_tls (svc_set acc s)) svcs acc) = table_of acc ++ table_of svcs.
Proof.
  induction svcs as [|s r IH]; intros acc Hd; cbn.
  - now rewrite app_nil_r.
  - cbn in Hd. pose proof (NoDup_remove_2 _ _ _ Hd) as Hn.
    assert (Et : table_of (sync_tls (svc_set acc s)) = table_of acc ++ [bi_of s]).
    { rewrite table_of_sync_tls, table_of_svc_set. unfold tbl_set. rewrite tbl_remove_absent; [reflexivity|].
      rewrite names_table_of. cbn. intros H. apply Hn. apply in_or_app. now left. }
    rewrite IH.
    + rewrite Et, <- app_assoc. reflexivity.
    + rewrite <- (names_table_of (sync_tls (svc_set acc s))), Et, map_app, names_table_of. cbn.
      rewrite <- app_assoc. exact Hd.
Qed.

(** ** The state invariant *)

Definition svcs_ok (svcs : list service) : Prop := tbl_ok (table_of svcs).

Definition st_inv (st : state) : Prop :=
  svcs_ok (st_services st) /\ forall saved, st_disk st = Some saved -> svcs_ok saved.

Lemma st_inv_init : st_inv init_state.
Proof. split; [apply tbl_ok_nil|discriminate]. Qed.

Lemma st_inv_save st : svcs_ok (st_services st) -> st_inv (save st).
Proof. intros H. split; [exact H|]. cbn. intros saved E. inversion E; subst. exact H. Qed.

Lemma svcs_ok_nodup svcs : svcs_ok svcs -> NoDup (map s_name svcs).
Proof. intros (_ & H & _). now rewrite names_table_of in H. Qed.

Lemma normalize_wf name o : wf_bi (mkBI name (o_hosts (normalize o)) (o_prefixes (normalize o))).
Proof.
  unfold wf_bi, normalize; cbn. split; [|split].
  - destruct (o_hosts o); cbn; discriminate.
  - destruct (o_prefixes o); cbn; discriminate.
  - unfold normalize_prefixes. destruct (o_prefixes o) as [|p ps].
    + constructor; [apply root_normalised|constructor].
    + apply Forall_forall. intros x Hx. apply in_map_iff in Hx as (y & <- & _). now exists y.
Qed.

Lemma restart_table v st saved :
  st_disk st = Some saved -> svcs_ok saved ->
  st_services (restart v st) = [] \/ table_of (st_services (restart v st)) = table_of saved.
Proof.
  intros Ed Hs. unfold restart. rewrite Ed.
  destruct (restore_all v saved) as [svcs|] eqn:Er; [|now left].
  right. cbn. rewrite fold_set_table.
  - cbn. now apply restore_all_table in Er.
  - cbn. rewrite <- names_table_of, (restore_all_table _ _ _ Er), names_table_of.
    now apply svcs_ok_nodup.
Qed.

Lemma restart_disk v st : st_disk (restart v st) = st_disk st.
Proof.
  unfold restart. destruct (st_disk st) as [saved|] eqn:E; [|reflexivity].
  destruct (restore_all v saved); reflexivity.
Qed.

Lemma restart_inv v st : st_inv st -> st_inv (restart v st).
Proof.
  intros [Hs Hd]. split.
  - destruct (st_disk st) as [saved|] eqn:E.
    + destruct (restart_table v st saved E (Hd _ eq_refl)) as [H|H].
      * unfold svcs_ok. rewrite H. apply tbl_ok_nil.
      * unfold svcs_ok. rewrite H. now apply Hd.
    + unfold restart. rewrite E. apply tbl_ok_nil.
  - rewrite restart_disk. exact Hd.
Qed.

(** ** deployTargetsIntoService *)

Definition early_ok (targets : list tgt_in) : bool :=
  forallb valid_target_name (map tg_name targets) && forallb tg_healthy targets.

Lemma deploy_into_cases v st s slot targets :
  let r := deploy_into v st s slot targets in
  let c := conflicts (table_of (st_services st)) (s_name s) (o_hosts (s_opts s)) (o_prefixes (s_opts s)) in
  (early_ok targets = false /\ snd r = st /\ (fst r = Err EInvalidTarget \/ fst r = Err EUnhealthy)) \/
  (early_ok targets = true /\ c = true /\ fst r = Err EHostInUse /\
     st_services (snd r) = st_services st /\ st_disk (snd r) = Some (st_services st)) \/
  (early_ok targets = true /\ c = false /\ fst r = Ok /\
     exists s', bi_of s' = bi_of s /\ st_services (snd r) = install (st_services st) s' /\
                st_disk (snd r) = Some (install (st_services st) s')).
Proof.
  cbv zeta. unfold deploy_into, early_ok.
  destruct (forallb valid_target_name (map tg_name targets)); cbn [negb andb]; [|left; auto].
  destruct (forallb tg_healthy targets); cbn [negb]; [|left; auto].
  right.
  destruct (conflicts (table_of (st_services st)) (s_name s) (o_hosts (s_opts s)) (o_prefixes (s_opts s))).
  - left. repeat split.
  - right. repeat split. eexists. split; [|split; reflexivity]. destruct slot; reflexivity.
Qed.

Lemma deploy_into_inv v st s slot targets :
  st_inv st -> wf_bi (bi_of s) -> st_inv (snd (deploy_into v st s slot targets)).
Proof.
  intros Hi Hw. pose proof (deploy_into_cases v st s slot targets) as H. cbv zeta in H.
  destruct H as [(_ & -> & _)|[(_ & _ & _ & Es & Ed)|(_ & Ec & _ & s' & Eb & Es & Ed)]].
  - exact Hi.
  - destruct Hi as [Hs _]. split; [unfold svcs_ok; rewrite Es; exact Hs|].
    intros saved E. rewrite Ed in E. inversion E; subst. exact Hs.
  - destruct Hi as [Hs _].
    assert (Hok : svcs_ok (install (st_services st) s')).
    { unfold svcs_ok. rewrite table_of_install, Eb. apply tbl_set_ok; auto. }
    split; [rewrite Es; exact Hok|]. intros saved E. rewrite Ed in E. inversion E; subst. exact Hok.
Qed.

Lemma replace_svc_inv st name s s' :
  st_inv st -> svc_get (st_services st) name = Some s -> bi_of s' = bi_of s ->
  st_inv (save (replace_svc st s')).
Proof.
  intros [Hs _] Hg Hb. apply st_inv_save. unfold svcs_ok. cbn.
  rewrite (table_of_replace _ name s s'); auto. now apply svcs_ok_nodup.
Qed.

Lemma set_pause_state_bi s new msg s' : set_pause_state s new msg = Some s' -> bi_of s' = bi_of s.
Proof.
  unfold set_pause_state. destruct (_ && _); [discriminate|]. intros H; inversion H; reflexivity.
Qed.

Lemma exec_inv v st c : st_inv st -> st_inv (snd (exec v st c)).
Proof.
  intros Hi. pose proof Hi as [Hs Hd]. destruct c as [name o t tg|name tg|name pct al|name|name fa|name msg|name|name|]; cbn [exec].
  - destruct (init_check v (normalize o)); [exact Hi|].
    apply deploy_into_inv; [exact Hi|].
    destruct (svc_get (st_services st) name); apply normalize_wf.
  - destruct (svc_get (st_services st) name) as [s|] eqn:E; [|exact Hi].
    apply deploy_into_inv; [exact Hi|].
    destruct Hs as (_ & _ & Hw). rewrite Forall_forall in Hw. apply Hw.
    apply in_map. now apply svc_get_some in E as [E _].
  - unfold on_service. destruct (svc_get (st_services st) name) as [s|] eqn:E; [|now apply st_inv_save].
    destruct (s_rollout s); [|now apply st_inv_save].
    eapply replace_svc_inv; eauto.
  - unfold on_service. destruct (svc_get (st_services st) name) as [s|] eqn:E; [|now apply st_inv_save].
    eapply replace_svc_inv; eauto.
  - unfold on_service. destruct (svc_get (st_services st) name) as [s|] eqn:E; [|now apply st_inv_save].
    eapply replace_svc_inv; eauto.
  - unfold on_service. destruct (svc_get (st_services st) name) as [s|] eqn:E; [|now apply st_inv_save].
    destruct (set_pause_state s Stopped msg) as [s'|] eqn:Ep; [|exact Hi].
    eapply replace_svc_inv; eauto using set_pause_state_bi.
  - unfold on_service. destruct (svc_get (st_services st) name) as [s|] eqn:E; [|now apply st_inv_save].
    destruct (set_pause_state s Running []) as [s'|] eqn:Ep; [|exact Hi].
    eapply replace_svc_inv; eauto using set_pause_state_bi.
  - destruct (svc_get (st_services st) name) as [s|] eqn:E; [|now apply st_inv_save].
    apply st_inv_save. unfold svcs_ok. cbn. rewrite table_of_sync_tls, table_of_svc_remove.
    now apply tbl_remove_ok.
  - now apply restart_inv.
Qed.

Lemma exec_all_inv v : forall cs st, st_inv st -> st_inv (exec_all v st cs).
Proof.
  induction cs as [|c cs IH]; intros st Hi; cbn; [exact Hi|]. apply IH. now apply exec_inv.
Qed.

Lemma reachable_inv v cs : st_inv (exec_all v init_state cs).
Proof. apply exec_all_inv. apply st_inv_init. Qed.

(** * Part 7: the statements used by props/C04.v and props/C05.v *)

(** ** Deploy and Remove, characterised *)

Definition new_bi (name : str) (o : sopts) : binding_info :=
  mkBI name (o_hosts (normalize o)) (o_prefixes (normalize o)).

Lemma deploy_exec_cases v st name o t targets :
  let r := exec v st (Deploy name o t targets) in
  let T := table_of (st_services st) in
  let c := conflicts T name (o_hosts (normalize o)) (o_prefixes (normalize o)) in
  (exists e, init_check v (normalize o) = Some e /\ r = (Err e, st)) \/
  (init_check v (normalize o) = None /\ early_ok targets = false /\ snd r = st /\
     (fst r = Err EInvalidTarget \/ fst r = Err EUnhealthy)) \/
  (init_check v (normalize o) = None /\ early_ok targets = true /\ c = true /\
     fst r = Err EHostInUse /\ st_services (snd r) = st_services st) \/
  (init_check v (normalize o) = None /\ early_ok targets = true /\ c = false /\
     fst r = Ok /\ table_of (st_services (snd r)) = tbl_set T (new_bi name o)).
Proof.
  cbv zeta. cbn [exec]. destruct (init_check v (normalize o)) as [e|]; [left; eauto|]. right.
  set (s := match svc_get (st_services st) name with
            | Some old => mkSvc name (normalize o) t (s_active old) (s_rollout old) (s_pause old)
                                (s_roll old) (wants_cert v (normalize o))
            | None => mkSvc name (normalize o) t [] None pause_new None (wants_cert v (normalize o))
            end).
  assert (En : s_name s = name) by (unfold s; destruct (svc_get (st_services st) name); reflexivity).
  assert (Eo : s_opts s = normalize o) by (unfold s; destruct (svc_get (st_services st) name); reflexivity).
  assert (Eb : bi_of s = new_bi name o) by (unfold bi_of, new_bi; now rewrite En, Eo).
  pose proof (deploy_into_cases v st s false targets) as H. cbv zeta in H. rewrite En, Eo in H.
  destruct H as [(H1 & H2 & H3)|[(H1 & H2 & H3 & H4 & _)|(H1 & H2 & H3 & s' & Hb & Hs & _)]].
  - left. auto.
  - right; left. auto.
  - right; right. repeat split; auto. rewrite Hs, table_of_install, Hb, Eb. reflexivity.
Qed.

Lemma deploy_ok_inv v st name o t targets :
  fst (exec v st (Deploy name o t targets)) = Ok ->
  init_check v (normalize o) = None /\ early_ok targets = true /\
  conflicts (table_of (st_services st)) name (o_hosts (normalize o)) (o_prefixes (normalize o)) = false /\
  table_of (st_services (snd (exec v st (Deploy name o t targets)))) =
    tbl_set (table_of (st_services st)) (new_bi name o).
Proof.
  intros Hok. pose proof (deploy_exec_cases v st name o t targets) as H. cbv zeta in H.
  destruct H as [(e & _ & H)|[(_ & _ & _ & [H|H])|[(_ & _ & _ & H & _)|(H1 & H2 & H3 & _ & H4)]]];
    try (rewrite H in Hok; discriminate).
  auto.
Qed.

Lemma early_ok_iff targets :
  early_ok targets = true <->
  forallb valid_target_name (map tg_name targets) = true /\ forallb tg_healthy targets = true.
Proof. unfold early_ok. apply andb_true_iff. Qed.

(** A deploy whose earlier phases pass is decided by the ownership test alone. *)
Lemma deploy_decided v st name o t targets :
  init_check v (normalize o) = None ->
  forallb valid_target_name (map tg_name targets) = true -> forallb tg_healthy targets = true ->
  let r := fst (exec v st (Deploy name o t targets)) in
  let foreign := exists h p n, In h (o_hosts (normalize o)) /\ In p (o_prefixes (normalize o)) /\
                   In (h, p, n) (triples (table_of (st_services st))) /\ n <> name in
  (foreign -> r = Err EHostInUse) /\ (~ foreign -> r = Ok).
Proof.
  intros Hi Hv Hh. cbv zeta.
  assert (He : early_ok targets = true) by (apply early_ok_iff; auto).
  pose proof (deploy_exec_cases v st name o t targets) as H. cbv zeta in H.
  destruct H as [(e & H & _)|[(_ & H & _)|[(_ & _ & Hc & Hr & _)|(_ & _ & Hc & Hr & _)]]];
    try congruence.
  - split; [auto|]. intros Hn. exfalso. apply Hn. apply conflicts_iff in Hc as (h & p & n & H1 & H2 & H3 & H4).
    exists h, p, n. repeat split; auto. now apply in_triples.
  - split; [|auto]. intros (h & p & n & H1 & H2 & H3 & H4). exfalso.
    rewrite conflicts_false_iff in Hc. apply H4. apply (Hc h p n H1 H2). now apply in_triples.
Qed.

Lemma deploy_conflict_rejected v st name o t targets h p n :
  init_check v (normalize o) = None ->
  forallb valid_target_name (map tg_name targets) = true -> forallb tg_healthy targets = true ->
  In h (o_hosts (normalize o)) -> In p (o_prefixes (normalize o)) ->
  In (h, p, n) (triples (table_of (st_services st))) -> n <> name ->
  fst (exec v st (Deploy name o t targets)) = Err EHostInUse /\
  st_services (snd (exec v st (Deploy name o t targets))) = st_services st.
Proof.
  intros Hi Hv Hh H1 H2 H3 H4.
  assert (He : early_ok targets = true) by (apply early_ok_iff; auto).
  assert (Hc : conflicts (table_of (st_services st)) name (o_hosts (normalize o)) (o_prefixes (normalize o)) = true).
  { apply conflicts_iff. exists h, p, n. repeat split; auto. now apply in_triples. }
  pose proof (deploy_exec_cases v st name o t targets) as H. cbv zeta in H.
  destruct H as [(e & H & _)|[(_ & H & _)|[(_ & _ & _ & Hr & Hs)|(_ & _ & Hc' & _)]]]; try congruence.
  auto.
Qed.

Lemma deploy_moves v st name o t targets st' :
  exec v st (Deploy name o t targets) = (Ok, st') ->
  forall h p n, In (h, p, n) (triples (table_of (st_services st'))) <->
    (n = name /\ In h (o_hosts (normalize o)) /\ In p (o_prefixes (normalize o))) \/
    (n <> name /\ In (h, p, n) (triples (table_of (st_services st)))).
Proof.
  intros E h p n. assert (Hok : fst (exec v st (Deploy name o t targets)) = Ok) by now rewrite E.
  destruct (deploy_ok_inv _ _ _ _ _ _ Hok) as (_ & _ & _ & Ht). rewrite E in Ht. cbn in Ht.
  rewrite !in_triples, Ht, binds_tbl_set. reflexivity.
Qed.

Lemma remove_ok_inv v st name :
  fst (exec v st (Remove name)) = Ok ->
  table_of (st_services (snd (exec v st (Remove name)))) = tbl_remove (table_of (st_services st)) name.
Proof.
  cbn [exec]. destruct (svc_get (st_services st) name); [|discriminate]. intros _. cbn.
  now rewrite table_of_sync_tls, table_of_svc_remove.
Qed.

Lemma remove_releases v st name st' :
  exec v st (Remove name) = (Ok, st') ->
  forall h p n, In (h, p, n) (triples (table_of (st_services st'))) <->
    n <> name /\ In (h, p, n) (triples (table_of (st_services st))).
Proof.
  intros E h p n. assert (Hok : fst (exec v st (Remove name)) = Ok) by now rewrite E.
  pose proof (remove_ok_inv _ _ _ Hok) as Ht. rewrite E in Ht. cbn in Ht.
  rewrite !in_triples, Ht, binds_tbl_remove. tauto.
Qed.

Lemma remove_then_deploy v st name st1 name2 o t targets :
  exec v st (Remove name) = (Ok, st1) ->
  init_check v (normalize o) = None ->
  forallb valid_target_name (map tg_name targets) = true -> forallb tg_healthy targets = true ->
  (forall h p n, In h (o_hosts (normalize o)) -> In p (o_prefixes (normalize o)) ->
     In (h, p, n) (triples (table_of (st_services st))) -> n = name \/ n = name2) ->
  fst (exec v st1 (Deploy name2 o t targets)) = Ok.
Proof.
  intros E Hi Hv Hh Hfree.
  apply (deploy_decided v st1 name2 o t targets Hi Hv Hh).
  intros (h & p & n & H1 & H2 & H3 & H4).
  apply (remove_releases _ _ _ _ E) in H3 as [H5 H3].
  destruct (Hfree h p n H1 H2 H3); contradiction.
Qed.

Lemma one_winner_half v st n1 o1 t1 tg1 n2 o2 t2 tg2 h p :
  n1 <> n2 ->
  In h (o_hosts (normalize o1)) -> In p (o_prefixes (normalize o1)) ->
  In h (o_hosts (normalize o2)) -> In p (o_prefixes (normalize o2)) ->
  fst (exec v st (Deploy n1 o1 t1 tg1)) = Ok ->
  fst (exec v st (Deploy n2 o2 t2 tg2)) = Ok ->
  let st1 := snd (exec v st (Deploy n1 o1 t1 tg1)) in
  fst (exec v st1 (Deploy n2 o2 t2 tg2)) = Err EHostInUse /\
  st_services (snd (exec v st1 (Deploy n2 o2 t2 tg2))) = st_services st1.
Proof.
  intros Hne H1 H2 H3 H4 Ok1 Ok2. cbv zeta.
  destruct (deploy_ok_inv _ _ _ _ _ _ Ok1) as (_ & _ & _ & Ht).
  destruct (deploy_ok_inv _ _ _ _ _ _ Ok2) as (Hi & He & _ & _).
  apply early_ok_iff in He as [Hv Hh].
  apply (deploy_conflict_rejected _ _ _ _ _ _ h p n1); auto.
  apply in_triples. rewrite Ht. apply binds_tbl_set. left. auto.
Qed.

(** ** Reachable states *)

Lemma reachable_ok v cs :
  let st := exec_all v init_state cs in
  pair_owned_once (table_of (st_services st)) = true /\
  NoDup (map s_name (st_services st)) /\
  (forall saved, st_disk st = Some saved ->
     pair_owned_once (table_of saved) = true /\ NoDup (map s_name saved)).
Proof.
  cbv zeta. destruct (reachable_inv v cs) as [Hs Hd]. split; [|split].
  - apply pair_owned_once_iff. apply Hs.
  - now apply svcs_ok_nodup.
  - intros saved E. specialize (Hd _ E). split; [apply pair_owned_once_iff; apply Hd|now apply svcs_ok_nodup].
Qed.

Lemma reachable_wf v cs :
  let t := table_of (st_services (exec_all v init_state cs)) in
  pair_owned_once t = true /\ norm_table t /\
  (forall s, In s t -> bi_hosts s <> [] /\ bi_prefixes s <> []).
Proof.
  cbv zeta. destruct (reachable_inv v cs) as [Hs _]. split; [|split].
  - apply pair_owned_once_iff. apply Hs.
  - now apply tbl_ok_norm.
  - destruct Hs as (_ & _ & Hw). rewrite Forall_forall in Hw. intros s Hi.
    destruct (Hw s Hi) as (H1 & H2 & _). auto.
Qed.

(** ** C04 statements *)

Lemma route_spec_full t host path :
  norm_table t ->
  route_spec t host path (service_for t host path) /\
  (service_for t host path = None <->
   forall l, level_of t host l -> forall p n, ~ candidate t l path p n) /\
  (pair_owned_once t = true ->
   forall r, route_spec t host path r -> r = service_for t host path).
Proof.
  intros Hn. split; [now apply service_for_spec|]. split; [now apply service_for_none_iff|].
  intros Ho r Hr. apply pair_owned_once_iff in Ho.
  apply (route_spec_unique t host path _ _ Ho Hn Hr). now apply service_for_spec.
Qed.

Lemma tie_unique t l path p1 n1 p2 n2 :
  pair_owned_once t = true -> norm_table t ->
  candidate t l path p1 n1 -> candidate t l path p2 n2 -> length p1 = length p2 ->
  p1 = p2 /\ n1 = n2.
Proof. intros Ho. apply pair_owned_once_iff in Ho. now apply candidate_tie. Qed.

(** Any list holding exactly the bindings of the level, sorted by descending
    prefix length, gives the same first match. *)
Lemma impl_order_free_set t host path bs :
  pair_owned_once t = true -> norm_table t ->
  (forall p n, In (p, n) bs <-> binds t (host_level t host) p n) -> desc_sorted bs ->
  first_match path bs = service_for t host path.
Proof.
  intros Ho Hn Hin Hs. apply pair_owned_once_iff in Ho.
  apply (route_spec_unique t host path _ _ Ho Hn); [|now apply service_for_spec].
  exists (host_level t host). split; [apply host_level_spec|].
  apply (Sorted_StronglySorted longer_first_trans) in Hs.
  pose proof (first_match_spec path bs Hs) as H.
  destruct (first_match path bs) as [[n p]|].
  - destruct H as (I & M & Mx). split.
    + apply candidate_iff; [exact Hn|]. split; [apply in_bindings_for; now apply Hin|exact M].
    + intros p' n' Hc. apply candidate_iff in Hc as [I' M']; [|exact Hn].
      apply in_bindings_for, Hin in I'. eauto.
  - intros p n Hc. apply candidate_iff in Hc as [I' M']; [|exact Hn].
    apply in_bindings_for, Hin in I'. rewrite (H _ _ I') in M'. discriminate.
Qed.

Lemma impl_order_free t host path bs :
  pair_owned_once t = true -> norm_table t ->
  Permutation bs (bindings_for t (host_level t host)) -> desc_sorted bs ->
  first_match path bs = service_for t host path.
Proof.
  intros Ho Hn Hp Hs. apply pair_owned_once_iff in Ho. now apply first_match_service_for.
Qed.

Lemma table_order_free t1 t2 :
  Permutation t1 t2 -> pair_owned_once t1 = true -> norm_table t1 ->
  forall host path,
    service_for t1 host path = service_for t2 host path /\ route t1 host path = route t2 host path.
Proof.
  intros P Ho Hn host path. apply pair_owned_once_iff in Ho.
  apply Permutation_same_services in P. unfold route.
  split; now apply service_for_ext.
Qed.

Lemma history_free v1 v2 cs1 cs2 :
  Permutation (table_of (st_services (exec_all v1 init_state cs1)))
              (table_of (st_services (exec_all v2 init_state cs2))) ->
  forall host_header path,
    route (table_of (st_services (exec_all v1 init_state cs1))) host_header path =
    route (table_of (st_services (exec_all v2 init_state cs2))) host_header path.
Proof.
  intros P hh path. destruct (reachable_wf v1 cs1) as (Ho & Hn & _).
  now apply table_order_free.
Qed.

Lemma port_ignored h port :
  h <> [] -> plain h -> forallb is_digit port = true ->
  request_host_key (h ++ colon :: port) = h /\ request_host_key h = h.
Proof.
  intros Hne Hp Hd. split.
  - apply request_host_key_port; auto. now apply digits_plain.
  - apply request_host_key_no_colon. apply Hp.
Qed.
