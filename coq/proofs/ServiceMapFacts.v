(** ServiceMapFacts.v — proofs about model/ServiceMap.v and the table part of
    model/Seq.v (properties C04 routing and C05 ownership). *)
From KP Require Import model.Base model.ServiceMap model.Seq.
From Coq Require Import Permutation Sorted.
From Coq Require Import ZifyN ZifyNat ZifyBool.

(** * Part 1: byte strings *)

Lemma byte_eqb_eq a b : byte_eqb a b = true <-> a = b.
Proof.
  unfold byte_eqb. split; [apply Byte.byte_dec_bl|apply Byte.byte_dec_lb].
Qed.

Lemma byte_eqb_refl a : byte_eqb a a = true.
Proof. apply byte_eqb_eq. reflexivity. Qed.

Lemma byte_eqb_neq a b : byte_eqb a b = false <-> a <> b.
Proof.
  split.
  - intros H E. apply byte_eqb_eq in E. congruence.
  - intros H. destruct (byte_eqb a b) eqn:E; [|reflexivity].
    apply byte_eqb_eq in E. contradiction.
Qed.

Lemma str_eqb_eq : forall a b, str_eqb a b = true <-> a = b.
Proof.
  induction a as [|x a IH]; intros [|y b]; cbn; split; intros H;
    try reflexivity; try discriminate.
  - apply andb_true_iff in H as [H1 H2]. apply byte_eqb_eq in H1. apply IH in H2. congruence.
  - inversion H; subst. rewrite byte_eqb_refl. apply IH. reflexivity.
Qed.

Lemma str_eqb_refl a : str_eqb a a = true.
Proof. apply str_eqb_eq. reflexivity. Qed.

Lemma str_eqb_neq a b : str_eqb a b = false <-> a <> b.
Proof.
  split.
  - intros H E. apply str_eqb_eq in E. congruence.
  - intros H. destruct (str_eqb a b) eqn:E; [|reflexivity].
    apply str_eqb_eq in E. contradiction.
Qed.

Lemma str_eq_dec (a b : str) : a = b \/ a <> b.
Proof.
  destruct (str_eqb a b) eqn:E; [left; now apply str_eqb_eq|right; now apply str_eqb_neq].
Qed.

Lemma mem_str_In x l : mem_str x l = true <-> In x l.
Proof.
  induction l as [|y l IH]; cbn.
  - split; [discriminate|tauto].
  - rewrite orb_true_iff, IH, str_eqb_eq. split; intros [H|H]; auto.
Qed.

Lemma has_prefix_iff : forall p s, has_prefix s p = true <-> exists r, s = p ++ r.
Proof.
  induction p as [|y p IH]; intros s; cbn.
  - split; [intros _; now exists s|intros _; destruct s; reflexivity].
  - destruct s as [|x s].
    + split; [discriminate|intros [r Hr]; discriminate].
    + rewrite andb_true_iff, byte_eqb_eq, IH. split.
      * intros [-> [r ->]]. now exists r.
      * intros [r Hr]. inversion Hr; subst. split; [reflexivity|now exists r].
Qed.

(** Two prefixes of one string that have the same length are equal. *)
Lemma app_eq_length {A} : forall (a b r1 r2 : list A),
  a ++ r1 = b ++ r2 -> length a = length b -> a = b.
Proof.
  induction a as [|x a IH]; intros [|y b] r1 r2 H L; cbn in *; try discriminate.
  - reflexivity.
  - inversion H; subst. f_equal. eapply IH; eauto.
Qed.

Lemma has_suffix_iff s c : has_suffix s [c] = true <-> exists r, s = r ++ [c].
Proof.
  unfold has_suffix. rewrite has_prefix_iff. cbn. split.
  - intros [r Hr]. exists (rev r).
    rewrite <- (rev_involutive s), Hr. cbn. reflexivity.
  - intros [r ->]. exists (rev r). rewrite rev_app_distr. reflexivity.
Qed.

(** ** index_byte *)

Lemma index_byte_none s c : index_byte s c = None <-> ~ In c s.
Proof.
  induction s as [|x s IH]; cbn.
  - tauto.
  - destruct (byte_eqb x c) eqn:E.
    + apply byte_eqb_eq in E. split; [discriminate|intros H; exfalso; apply H; auto].
    + apply byte_eqb_neq in E. destruct (index_byte s c) as [n|].
      * split; [discriminate|]. intros H. exfalso. apply H. right.
        destruct (in_dec Byte.byte_eq_dec c s) as [Hi|Hn]; [exact Hi|].
        apply IH in Hn. discriminate.
      * split; [|reflexivity]. intros _ [H|H]; [congruence|].
        now apply IH in H.
Qed.

Lemma index_byte_app a c b : ~ In c a -> index_byte (a ++ c :: b) c = Some (length a).
Proof.
  induction a as [|x a IH]; intros Hn; cbn.
  - now rewrite byte_eqb_refl.
  - assert (E : byte_eqb x c = false) by (apply byte_eqb_neq; intros ->; apply Hn; now left).
    rewrite E, IH; [reflexivity|]. intros H; apply Hn; now right.
Qed.

Lemma index_byte_some : forall s c k, index_byte s c = Some k ->
  exists a b, s = a ++ c :: b /\ ~ In c a /\ length a = k.
Proof.
  induction s as [|x s IH]; intros c k H; cbn in H; [discriminate|].
  destruct (byte_eqb x c) eqn:E.
  - apply byte_eqb_eq in E. subst. inversion H; subst.
    exists [], s. repeat split. tauto.
  - apply byte_eqb_neq in E. destruct (index_byte s c) as [n|] eqn:En; [|discriminate].
    inversion H; subst. destruct (IH c n En) as (a & b & -> & Hn & Hl).
    exists (x :: a), b. repeat split; cbn; [|now rewrite Hl].
    intros [H1|H1]; [congruence|tauto].
Qed.

Lemma contains_byte_false s c : contains_byte s c = false <-> ~ In c s.
Proof.
  unfold contains_byte. rewrite <- index_byte_none.
  destruct (index_byte s c); split; congruence.
Qed.

Lemma contains_byte_true s c : contains_byte s c = true <-> In c s.
Proof.
  destruct (contains_byte s c) eqn:E.
  - split; [|reflexivity]. intros _.
    destruct (in_dec Byte.byte_eq_dec c s) as [Hi|Hn]; [exact Hi|].
    apply contains_byte_false in Hn. congruence.
  - apply contains_byte_false in E. split; [discriminate|tauto].
Qed.

(** ** last_index_byte *)

Lemma last_index_aux_app : forall a b c i acc,
  last_index_byte_aux (a ++ b) c i acc =
  last_index_byte_aux b c (i + length a) (last_index_byte_aux a c i acc).
Proof.
  induction a as [|x a IH]; intros b c i acc; cbn.
  - now rewrite Nat.add_0_r.
  - rewrite IH. now rewrite Nat.add_succ_r.
Qed.

Lemma last_index_aux_absent : forall s c i acc, ~ In c s -> last_index_byte_aux s c i acc = acc.
Proof.
  induction s as [|x s IH]; intros c i acc Hn; cbn; [reflexivity|].
  assert (E : byte_eqb x c = false) by (apply byte_eqb_neq; intros ->; apply Hn; now left).
  rewrite E. apply IH. intros H; apply Hn; now right.
Qed.

(** The last [c] of [a ++ c :: b] is at [length a] when [b] has none. *)
Lemma last_index_byte_app a c b : ~ In c b -> last_index_byte (a ++ c :: b) c = Some (length a).
Proof.
  intros Hn. unfold last_index_byte. rewrite last_index_aux_app. cbn.
  rewrite byte_eqb_refl. now apply last_index_aux_absent.
Qed.

(** ** trim_byte / normalize_prefix *)

Lemma drop_while_head c : forall s y r, drop_while_eq c s = y :: r -> y <> c.
Proof.
  induction s as [|x s IH]; intros y r H; cbn in H; [discriminate|].
  destruct (byte_eqb x c) eqn:E.
  - eapply IH; eauto.
  - inversion H; subst. now apply byte_eqb_neq.
Qed.

Definition normalised (p : str) : Prop := exists x, p = normalize_prefix x.

(** A normalised prefix is "/" or "/q" with [q] non-empty and no trailing slash. *)
Lemma normalised_cases p : normalised p ->
  p = root_path \/
  (has_suffix p [slash] = false /\ exists q, q <> [] /\ p = slash :: q).
Proof.
  intros [x ->]. unfold normalize_prefix, trim_byte.
  destruct (drop_while_eq slash (rev (drop_while_eq slash x))) as [|y r] eqn:E.
  - left. reflexivity.
  - right. apply drop_while_head in E. split.
    + unfold has_suffix. cbn [rev]. rewrite rev_involutive. cbn.
      apply byte_eqb_neq in E. now rewrite E.
    + exists (rev (y :: r)). split; [|reflexivity].
      cbn. intros H. apply app_eq_nil in H as [_ H]. discriminate.
Qed.

Lemma root_normalised : normalised root_path.
Proof. exists []. reflexivity. Qed.

Lemma ets_root : ensure_trailing_slash root_path = root_path.
Proof. reflexivity. Qed.

Lemma ets_nonroot p : has_suffix p [slash] = false -> ensure_trailing_slash p = p ++ [slash].
Proof. intros H. unfold ensure_trailing_slash. now rewrite H. Qed.

Lemma ets_idem p : ensure_trailing_slash (ensure_trailing_slash p) = ensure_trailing_slash p.
Proof.
  unfold ensure_trailing_slash at 2. destruct (has_suffix p [slash]) eqn:E.
  - unfold ensure_trailing_slash. now rewrite E.
  - unfold ensure_trailing_slash.
    assert (H : has_suffix (p ++ [slash]) [slash] = true) by (apply has_suffix_iff; now exists p).
    now rewrite H.
Qed.
