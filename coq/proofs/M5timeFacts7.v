(** M5timeFacts7.v — no probes left behind: after a failed deploy, a successful redeploy, a remove. *)
From Coq Require Import ZifyN ZifyNat ZifyBool.
From KP Require Import model.Base model.Trace model.M5time proofs.M5timeFacts proofs.M5timeFacts2 proofs.M5timeFacts3 proofs.M5timeFacts4 proofs.M5timeFacts5 proofs.M5timeFacts6.
Local Open Scope N_scope.

(** ** No probes left behind *)

(** every accepted probe is owed to a live loop of a target of that name *)
Lemma probe_needs_live p s e s' n ok :
  step_gen p s e = Some s' -> e_k e = KProbeSent n ok ->
  exists t n', tgt_probing s t = true /\ nget (tnames s) t = Some n' /\ str_eqb n n' = true.
Proof.
  unfold step_gen. destruct (e_t e <? clock s); [discriminate|]. cbv zeta. intros H Hk. rewrite Hk in H.
  destruct (probe_live (upd_clock s (e_t e)) n) eqn:Hl; [|discriminate].
  unfold probe_live in Hl. apply existsb_exists in Hl. destruct Hl as ([t x] & Hin & Hc).
  cbn [fst snd] in Hc. apply andb_prop in Hc. destruct Hc as [Hp Hn].
  change (tnames (upd_clock s (e_t e))) with (tnames s) in Hn.
  change (tgt_probing (upd_clock s (e_t e)) t) with (tgt_probing s t) in Hp.
  destruct (nget (tnames s) t) as [n'|] eqn:Hnm; [|discriminate].
  exists t, n'. repeat split; assumption.
Qed.

Definition quiet_ts (s : state) (ts : list nat) : Prop := forall t, In t ts -> tgt_probing s t = false.

Lemma lb_quiet_ts s lb : lb_quiet s lb = true -> quiet_ts s (lb_targets s lb).
Proof.
  unfold lb_quiet, lb_targets, quiet_ts. destruct (nget (lbs s) lb) as [l|]; [|intros _ t []].
  intros H t Ht. rewrite forallb_forall in H. specialize (H _ Ht). destruct (tgt_probing s t); [discriminate|reflexivity].
Qed.

(** once quiet, quiet in every later state *)
Lemma quiet_forever s s' lb :
  lbs_ok s -> ext s s' -> lb_quiet s lb = true -> quiet_ts s' (lb_targets s lb).
Proof.
  intros Hok He Hq t Ht. unfold lb_targets in Ht.
  destruct (nget (lbs s) lb) as [l|] eqn:Hl; [|destruct Ht].
  assert (Hh : has_lb s lb) by (unfold has_lb; rewrite Hl; discriminate).
  pose proof (quiet_mono _ _ _ Hok He Hh Hq) as Hq'.
  destruct He as (_ & E2 & _). destruct (E2 _ _ Hl) as (l' & Hl' & T & _).
  apply lb_quiet_ts in Hq'. apply Hq'. unfold lb_targets. rewrite Hl', T. exact Ht.
Qed.

(** the return of a failed deploy: the balancer it created is quiet *)
Lemma failed_deploy_quiet st0 e s1 c code cm lb :
  dinv st0 -> step_gen false st0 e = Some s1 -> e_k e = KReturn c (CRErr code) ->
  nget (cmds st0) c = Some cm -> c_new cm = Some lb -> lb_quiet (upd_clock st0 (e_t e)) lb = true.
Proof.
  intros [Hok Hall] Hs Hk Hc Hn. pose proof (all_nget _ _ _ _ Hall Hc) as Hci.
  unfold step_gen in Hs. destruct (e_t e <? clock st0); [discriminate|]. cbv zeta in Hs. rewrite Hk in Hs.
  cbn [cmds upd_clock] in Hs. rewrite Hc in Hs.
  destruct (actor_eqb (e_by e) (ACmd c)); [|discriminate].
  unfold own_step in Hs.
  destruct (own_time_ok _ cm (e_t e)); cbn [negb] in Hs; [|discriminate]. rewrite Hk in Hs.
  destruct (disp_ok (upd_clock st0 (e_t e)) cm) eqn:Hdisp; cbn [negb] in Hs; [|discriminate].
  destruct (tc_ok _ cm _ _); cbn [negb] in Hs; [|discriminate].
  destruct (is_gate (c_phase cm) && _); [discriminate|].
  rewrite Nat.eqb_refl in Hs. cbn [andb] in Hs.
  destruct (return_ok false (c_kind cm) _ (CRErr code)) eqn:Hr; [|discriminate]. clear Hs.
  unfold cinv in Hci. destruct Hci as (_ & _ & Hph).
  unfold return_ok in Hr.
  destruct (c_phase cm) eqn:P; destruct (is_deploy (c_kind cm)); try discriminate;
    try (destruct Hph as [Hph ?]; congruence).
  all: destruct Hph as (lb' & Hn' & Hd); assert (lb' = lb) by congruence; subst lb';
       eapply disp_quiet; [exact Hdisp|]; destruct Hd as [D|Q]; [left; exact D|right; exact Q].
Qed.

(** the Ok return of a deploy that replaced a balancer: that balancer is quiet *)
Lemma redeploy_quiet p st0 e s1 c cm old :
  dinv st0 -> step_gen p st0 e = Some s1 -> e_k e = KReturn c CROk ->
  nget (cmds st0) c = Some cm -> c_repl cm = Some (Some old) -> lb_quiet (upd_clock st0 (e_t e)) old = true.
Proof.
  intros [Hok Hall] Hs Hk Hc Hn. pose proof (all_nget _ _ _ _ Hall Hc) as Hci.
  unfold step_gen in Hs. destruct (e_t e <? clock st0); [discriminate|]. cbv zeta in Hs. rewrite Hk in Hs.
  cbn [cmds upd_clock] in Hs. rewrite Hc in Hs.
  destruct (actor_eqb (e_by e) (ACmd c)); [|discriminate].
  unfold own_step in Hs.
  destruct (own_time_ok _ cm (e_t e)); cbn [negb] in Hs; [|discriminate]. rewrite Hk in Hs.
  destruct (disp_ok (upd_clock st0 (e_t e)) cm) eqn:Hdisp; cbn [negb] in Hs; [|discriminate].
  destruct (tc_ok _ cm _ _); cbn [negb] in Hs; [|discriminate].
  destruct (is_gate (c_phase cm) && _); [discriminate|].
  rewrite Nat.eqb_refl in Hs. cbn [andb] in Hs.
  destruct (return_ok p (c_kind cm) _ CROk) eqn:Hr; [|discriminate]. clear Hs.
  unfold cinv in Hci. destruct Hci as (_ & _ & Hph).
  unfold return_ok in Hr.
  destruct (c_phase cm) as [| | | | | | | | | |[x|]| | | |] eqn:P;
    destruct (is_deploy (c_kind cm)); destruct (is_pause_stop (c_kind cm)); try discriminate;
    try (destruct Hph as [_ Hph]; congruence); try congruence.
  all: destruct Hph as (o' & Hn' & Hd); assert (o' = old) by congruence; subst o';
       eapply disp_quiet; [exact Hdisp|]; destruct Hd as [D|Q]; [left; exact D|right; exact Q].
Qed.

Lemma lb_targets_ext s s' lb : ext s s' -> has_lb s lb -> lb_targets s' lb = lb_targets s lb.
Proof.
  intros (_ & E2 & _) H. unfold has_lb, lb_targets in *. destruct (nget (lbs s) lb) as [l|] eqn:Hl; [|contradiction].
  destruct (E2 _ _ Hl) as (l' & Hl' & T & _). rewrite Hl'. exact T.
Qed.

(** what the events of a command leave in its record *)
Lemma lbnew_by_cmd p s e s1 c lb ts :
  step_gen p s e = Some s1 -> e_by e = ACmd c -> e_k e = KLbNew lb ts ->
  exists cm', nget (cmds s1) c = Some cm' /\ c_new cm' = Some lb /\ lb_targets s1 lb = ts /\ has_lb s1 lb.
Proof.
  unfold step_gen. destruct (e_t e <? clock s); [discriminate|]. cbv zeta. intros H Hby Hk. rewrite Hk, Hby in H.
  destruct (nget (cmds (upd_clock s (e_t e))) c) as [cm|]; [|discriminate].
  unfold own_step in H. destruct (own_time_ok _ cm _); cbn [negb] in H; [|discriminate]. rewrite Hk in H.
  destruct (disp_ok _ cm); cbn [negb] in H; [|discriminate].
  destruct (tc_ok _ cm _ _); cbn [negb] in H; [|discriminate].
  destruct (is_gate (c_phase cm) && _); [discriminate|].
  destruct (c_phase cm); try discriminate.
  destruct (is_deploy (c_kind cm) && _); [|discriminate].
  destruct (new_lb _ lb ts (Some c)) as [st1|] eqn:Hn; [|discriminate]. injection H as <-.
  eexists. split; [unfold put; cbn [cmds upd_cmds]; apply nget_nset_same|]. split; [reflexivity|].
  unfold new_lb in Hn. destruct (nget (lbs (upd_clock s (e_t e))) lb); [discriminate|].
  destruct (existsb _ ts); [discriminate|]. injection Hn as <-.
  unfold lb_targets, has_lb, put. cbn [lbs upd_cmds upd_lbs upd_tgts]. rewrite nget_nset_same. split; [reflexivity|discriminate].
Qed.

Lemma slot_by_cmd p s e s1 c svc ro lb old :
  step_gen p s e = Some s1 -> e_by e = ACmd c -> e_k e = KSlot svc ro lb (Some old) ->
  exists cm', nget (cmds s1) c = Some cm' /\ c_repl cm' = Some (Some old).
Proof.
  unfold step_gen. destruct (e_t e <? clock s); [discriminate|]. cbv zeta. intros H Hby Hk. rewrite Hk, Hby in H.
  destruct (nget (cmds (upd_clock s (e_t e))) c) as [cm|]; [|discriminate].
  unfold own_step in H. destruct (own_time_ok _ cm _); cbn [negb] in H; [|discriminate]. rewrite Hk in H.
  destruct (disp_ok _ cm); cbn [negb] in H; [|discriminate].
  destruct (tc_ok _ cm _ _); cbn [negb] in H; [|discriminate].
  destruct (is_gate (c_phase cm) && _); [discriminate|].
  destruct (c_phase cm); try discriminate.
  destruct (_ && _); [|discriminate]. cbv zeta in H. injection H as <-.
  eexists. split; [unfold put; cbn [cmds upd_cmds upd_svcs]; apply nget_nset_same|]. reflexivity.
Qed.

Lemma removed_by_cmd p s e s1 c svc :
  step_gen p s e = Some s1 -> e_by e = ACmd c -> e_k e = KRemoved svc ->
  forall lb, In lb (svc_lbs s svc) -> lb_quiet (upd_clock s (e_t e)) lb = true.
Proof.
  unfold step_gen. destruct (e_t e <? clock s); [discriminate|]. cbv zeta. intros H Hby Hk. rewrite Hk, Hby in H.
  destruct (nget (cmds (upd_clock s (e_t e))) c) as [cm|]; [|discriminate].
  unfold own_step in H. destruct (own_time_ok _ cm _); cbn [negb] in H; [|discriminate]. rewrite Hk in H.
  destruct (disp_ok _ cm); cbn [negb] in H; [|discriminate].
  destruct (tc_ok _ cm _ _); cbn [negb] in H; [|discriminate].
  destruct (is_gate (c_phase cm) && _); [discriminate|].
  destruct (forallb _ (svc_lbs (upd_clock s (e_t e)) svc)) eqn:Hf; [|discriminate].
  intros lb Hin. rewrite forallb_forall in Hf. specialize (Hf lb Hin).
  unfold lb_dead in Hf. apply andb_prop in Hf. exact (proj1 Hf).
Qed.

Lemma run_prefix {St} (step : St -> event -> option St) s a b s' :
  run step s (a ++ b) = Some s' -> exists s1, run step s a = Some s1 /\ run step s1 b = Some s'.
Proof. rewrite run_app. destruct (run step s a) as [s1|]; [|discriminate]. intros H; exists s1; auto. Qed.

Lemma ext_clock s x : ext s (upd_clock s x).
Proof. apply ext_fields; reflexivity. Qed.

Lemma lbs_ok_clock s x : lbs_ok s -> lbs_ok (upd_clock s x).
Proof. intros H; exact H. Qed.

(** ** On the trace *)

(** a failed deploy: after its return no loop of the balancer it created is live, ever *)
Lemma no_probes_failed_deploy pre eN mid eR post s4 c lb ts code :
  run step init (pre ++ eN :: mid ++ eR :: post) = Some s4 ->
  e_by eN = ACmd c -> e_k eN = KLbNew lb ts -> e_k eR = KReturn c (CRErr code) ->
  quiet_ts s4 ts.
Proof.
  intros Hrun Hby HN HR.
  change (pre ++ eN :: mid ++ eR :: post) with (pre ++ [eN] ++ mid ++ [eR] ++ post) in Hrun.
  destruct (run_prefix _ _ _ _ _ Hrun) as (s0 & R0 & Hrun1).
  destruct (run_prefix _ _ _ _ _ Hrun1) as (s1 & R1 & Hrun2).
  destruct (run_prefix _ _ _ _ _ Hrun2) as (s2 & R2 & Hrun3).
  destruct (run_prefix _ _ _ _ _ Hrun3) as (s3 & R3 & R4).
  cbn [run] in R1. destruct (step s0 eN) as [s1'|] eqn:E1; [|discriminate]. injection R1 as ->.
  cbn [run] in R3. destruct (step s2 eR) as [s3'|] eqn:E3; [|discriminate]. injection R3 as ->.
  destruct (lbnew_by_cmd _ _ _ _ _ _ _ E1 Hby HN) as (cm1 & G1 & N1 & T1 & H1).
  destruct (run_keeps _ _ _ _ R2 _ _ G1) as (cm2 & G2 & L).
  assert (N2 : c_new cm2 = Some lb) by (destruct L as (_ & _ & _ & L4 & _); exact (L4 _ N1)).
  assert (D2 : dinv s2).
  { eapply run_dinv; [|exact R2]. eapply step_dinv; [|exact E1]. eapply run_dinv; [apply dinv_init|exact R0]. }
  pose proof (failed_deploy_quiet _ _ _ _ _ _ _ D2 E3 HR G2 N2) as Q.
  pose proof (run_ext _ _ _ _ R2) as X12.
  assert (X24 : ext (upd_clock s2 (e_t eR)) s4).
  { eapply ext_trans; [|exact (run_ext _ _ _ _ R4)].
    eapply ext_trans; [|exact (step_ext _ _ _ _ E3)]. apply ext_fields; reflexivity. }
  pose proof (quiet_forever _ _ _ (lbs_ok_clock _ _ (proj1 D2)) X24 Q) as QF.
  change (lb_targets (upd_clock s2 (e_t eR)) lb) with (lb_targets s2 lb) in QF.
  rewrite (lb_targets_ext _ _ _ X12 H1), T1 in QF. exact QF.
Qed.

(** a successful redeploy: after its return no loop of the replaced balancer is live, ever *)
Lemma no_probes_redeploy pre eS mid eR post s4 c svc ro lb old :
  run step init (pre ++ eS :: mid ++ eR :: post) = Some s4 ->
  e_by eS = ACmd c -> e_k eS = KSlot svc ro lb (Some old) -> e_k eR = KReturn c CROk ->
  exists s2, run step init (pre ++ eS :: mid) = Some s2 /\ quiet_ts s4 (lb_targets s2 old).
Proof.
  intros Hrun Hby HS HR.
  change (pre ++ eS :: mid ++ eR :: post) with (pre ++ [eS] ++ mid ++ [eR] ++ post) in Hrun.
  destruct (run_prefix _ _ _ _ _ Hrun) as (s0 & R0 & Hrun1).
  destruct (run_prefix _ _ _ _ _ Hrun1) as (s1 & R1 & Hrun2).
  destruct (run_prefix _ _ _ _ _ Hrun2) as (s2 & R2 & Hrun3).
  destruct (run_prefix _ _ _ _ _ Hrun3) as (s3 & R3 & R4).
  cbn [run] in R1. destruct (step s0 eS) as [s1'|] eqn:E1; [|discriminate]. injection R1 as ->.
  cbn [run] in R3. destruct (step s2 eR) as [s3'|] eqn:E3; [|discriminate]. injection R3 as ->.
  exists s2. split.
  { change (pre ++ eS :: mid) with (pre ++ [eS] ++ mid). rewrite run_app, R0, run_app. cbn [run]. rewrite E1. exact R2. }
  destruct (slot_by_cmd _ _ _ _ _ _ _ _ _ E1 Hby HS) as (cm1 & G1 & N1).
  destruct (run_keeps _ _ _ _ R2 _ _ G1) as (cm2 & G2 & L).
  assert (N2 : c_repl cm2 = Some (Some old)) by (destruct L as (_ & _ & _ & _ & L5 & _); exact (L5 _ N1)).
  assert (D2 : dinv s2).
  { eapply run_dinv; [|exact R2]. eapply step_dinv; [|exact E1]. eapply run_dinv; [apply dinv_init|exact R0]. }
  pose proof (redeploy_quiet _ _ _ _ _ _ _ D2 E3 HR G2 N2) as Q.
  assert (X24 : ext (upd_clock s2 (e_t eR)) s4).
  { eapply ext_trans; [|exact (run_ext _ _ _ _ R4)].
    eapply ext_trans; [|exact (step_ext _ _ _ _ E3)]. apply ext_fields; reflexivity. }
  exact (quiet_forever _ _ _ (lbs_ok_clock _ _ (proj1 D2)) X24 Q).
Qed.

(** a remove: from the removal on no loop of the balancers of the removed service is live, ever *)
Lemma no_probes_remove pre eX post s4 c svc :
  run step init (pre ++ eX :: post) = Some s4 ->
  e_by eX = ACmd c -> e_k eX = KRemoved svc ->
  exists s0, run step init pre = Some s0 /\
             forall lb, In lb (svc_lbs s0 svc) -> quiet_ts s4 (lb_targets s0 lb).
Proof.
  intros Hrun Hby HX.
  change (pre ++ eX :: post) with (pre ++ [eX] ++ post) in Hrun.
  destruct (run_prefix _ _ _ _ _ Hrun) as (s0 & R0 & Hrun1).
  destruct (run_prefix _ _ _ _ _ Hrun1) as (s1 & R1 & R2).
  cbn [run] in R1. destruct (step s0 eX) as [s1'|] eqn:E1; [|discriminate]. injection R1 as ->.
  exists s0. split; [exact R0|]. intros lb Hin.
  pose proof (removed_by_cmd _ _ _ _ _ _ E1 Hby HX lb Hin) as Q.
  assert (D0 : dinv s0) by (eapply run_dinv; [apply dinv_init|exact R0]).
  assert (X : ext (upd_clock s0 (e_t eX)) s4).
  { eapply ext_trans; [|exact (run_ext _ _ _ _ R2)].
    eapply ext_trans; [|exact (step_ext _ _ _ _ E1)]. apply ext_fields; reflexivity. }
  exact (quiet_forever _ _ _ (lbs_ok_clock _ _ (proj1 D0)) X Q).
Qed.

(** hence: a probe accepted later is owed to another target *)
Lemma later_probe_elsewhere pre e s ts n ok s' :
  run step init pre = Some s -> quiet_ts s ts -> step s e = Some s' -> e_k e = KProbeSent n ok ->
  exists t n', ~ In t ts /\ tgt_probing s t = true /\ nget (tnames s) t = Some n' /\ str_eqb n n' = true.
Proof.
  intros _ Hq Hs Hk. destruct (probe_needs_live _ _ _ _ _ _ Hs Hk) as (t & n' & Hp & Hn & He).
  exists t, n'. repeat split; try assumption. intros Hin. rewrite (Hq _ Hin) in Hp. discriminate.
Qed.
