(** M4LinkSort.v — facts about the canonical orderings of corr/M4corr.v
    ([str_leb], [insert_by], [sort_by], [dedup], [probed_of]) needed to link the
    M4 monitors to the model: sorting is a permutation, and lists with
    distinct keys that are permutations of each other sort to the same list. *)
From KP Require Import model.Base model.ServiceMap model.Seq corr.M4corr proofs.SeqFacts proofs.SeqInv.
From Coq Require Import Permutation ZifyN ZifyNat ZifyBool Lia.
Local Open Scope N_scope.

(** ** [str_leb] is a total order *)

Lemma byte_n_inj a b : byte_n a = byte_n b -> a = b.
Proof.
  unfold byte_n. intros H. pose proof (Byte.of_to_N a) as Ha. pose proof (Byte.of_to_N b) as Hb.
  rewrite H in Ha. congruence.
Qed.

Lemma str_leb_total a : forall b, str_leb a b = false -> str_leb b a = true.
Proof.
  induction a as [|x a IH]; intros [|y b]; cbn; try congruence.
  destruct (byte_n x <? byte_n y) eqn:E1; [discriminate|].
  destruct (byte_n y <? byte_n x) eqn:E2; [reflexivity|]. apply IH.
Qed.

Lemma str_leb_antisym a : forall b, str_leb a b = true -> str_leb b a = true -> a = b.
Proof.
  induction a as [|x a IH]; intros [|y b]; cbn; try congruence.
  destruct (byte_n x <? byte_n y) eqn:E1; destruct (byte_n y <? byte_n x) eqn:E2; try discriminate; try lia.
  intros H1 H2. f_equal; [apply byte_n_inj; lia|now apply IH].
Qed.

Lemma str_leb_trans a : forall b c, str_leb a b = true -> str_leb b c = true -> str_leb a c = true.
Proof.
  induction a as [|x a IH]; intros [|y b] [|z c]; cbn; try congruence.
  destruct (byte_n x <? byte_n y) eqn:E1; destruct (byte_n y <? byte_n x) eqn:E2;
  destruct (byte_n y <? byte_n z) eqn:E3; destruct (byte_n z <? byte_n y) eqn:E4;
  destruct (byte_n x <? byte_n z) eqn:E5; destruct (byte_n z <? byte_n x) eqn:E6;
    try discriminate; try reflexivity; try lia.
  apply IH.
Qed.

(** ** Insertion sort is a permutation *)

Section Sort.
Context {A : Type} (key : A -> str).

Lemma insert_by_perm x l : Permutation (insert_by key str_leb x l) (x :: l).
Proof.
  induction l as [|y l IH]; cbn; [apply Permutation_refl|].
  destruct (str_leb (key x) (key y)); [apply Permutation_refl|].
  eapply Permutation_trans; [apply perm_skip, IH|apply perm_swap].
Qed.

Lemma sort_by_cons x l : sort_by key (x :: l) = insert_by key str_leb x (sort_by key l).
Proof. reflexivity. Qed.

Lemma sort_by_perm l : Permutation (sort_by key l) l.
Proof.
  induction l as [|x l IH]; [constructor|]. rewrite sort_by_cons.
  eapply Permutation_trans; [apply insert_by_perm|now apply perm_skip].
Qed.

Lemma in_sort_by x l : In x (sort_by key l) <-> In x l.
Proof.
  split; apply Permutation_in; [apply sort_by_perm|apply Permutation_sym, sort_by_perm].
Qed.

(** Two insertions with different keys commute (no sortedness needed). *)
Lemma insert_by_comm x y : key x <> key y -> forall l,
  insert_by key str_leb x (insert_by key str_leb y l) = insert_by key str_leb y (insert_by key str_leb x l).
Proof.
  intros Hne.
  assert (Hxy : str_leb (key x) (key y) = negb (str_leb (key y) (key x))).
  { destruct (str_leb (key x) (key y)) eqn:E1, (str_leb (key y) (key x)) eqn:E2; try reflexivity.
    - exfalso. apply Hne. now apply str_leb_antisym.
    - apply str_leb_total in E1. congruence. }
  induction l as [|z l IH]; cbn [insert_by].
  - rewrite Hxy. destruct (str_leb (key y) (key x)); reflexivity.
  - destruct (str_leb (key y) (key z)) eqn:Eyz, (str_leb (key x) (key z)) eqn:Exz; cbn [insert_by].
    + rewrite Hxy, Eyz, Exz. destruct (str_leb (key y) (key x)); reflexivity.
    + rewrite Eyz, Exz.
      destruct (str_leb (key x) (key y)) eqn:E; [|reflexivity].
      rewrite (str_leb_trans _ _ _ E Eyz) in Exz. discriminate.
    + rewrite Eyz, Exz.
      destruct (str_leb (key y) (key x)) eqn:E; [|reflexivity].
      rewrite (str_leb_trans _ _ _ E Exz) in Eyz. discriminate.
    + rewrite Eyz, Exz. now rewrite IH.
Qed.

(** Permutations with distinct keys sort alike. *)
Lemma sort_by_unique l1 l2 :
  Permutation l1 l2 -> NoDup (map key l1) -> sort_by key l1 = sort_by key l2.
Proof.
  induction 1 as [|x l1 l2 Hp IH|x y l|l1 l2 l3 H12 IH12 H23 IH23]; intros Hn.
  - reflexivity.
  - rewrite !sort_by_cons. cbn [map] in Hn. inversion Hn; subst. now rewrite IH.
  - rewrite !sort_by_cons. apply insert_by_comm. cbn [map] in Hn. inversion Hn as [|? ? Hx Hl]; subst. cbn in Hx. intros E. apply Hx. now left.
  - rewrite IH12 by assumption. apply IH23.
    eapply Permutation_NoDup; [|exact Hn]. now apply Permutation_map.
Qed.
End Sort.

(** ** [dedup] and [count_str] *)

Lemma count_pos_in x l : 0 < count_str x l <-> In x l.
Proof.
  induction l as [|y l IH]; cbn [count_str In]; [split; [lia|tauto]|].
  destruct (str_eqb x y) eqn:E.
  - str_cases. subst. split; [auto|lia].
  - str_cases. rewrite N.add_0_l, IH. split; [auto|]. intros [H|H]; [congruence|assumption].
Qed.

Lemma in_dedup x l : In x (dedup l) <-> In x l.
Proof.
  induction l as [|y l IH]; cbn [dedup In]; [tauto|].
  destruct (mem_str y l) eqn:E.
  - rewrite IH. split; [auto|]. intros [<-|H]; [now apply mem_str_In|assumption].
  - cbn [In]. now rewrite IH.
Qed.

Lemma NoDup_dedup l : NoDup (dedup l).
Proof.
  induction l as [|y l IH]; cbn [dedup]; [constructor|].
  destruct (mem_str y l) eqn:E; [assumption|].
  constructor; [|assumption]. rewrite in_dedup. intros H. apply mem_str_In in H. congruence.
Qed.

Lemma meq_in a b : meq a b -> forall x, In x a <-> In x b.
Proof. intros H x. rewrite <- !count_pos_in, (H x). tauto. Qed.

(** The probed set only depends on the multiset of probe loops. *)
Definition probed_list (l : list str) : list (str * N) :=
  sort_by fst (map (fun x => (x, count_str x l)) (dedup l)).

Lemma probed_of_eq st : probed_of st = probed_list (st_probing st).
Proof. reflexivity. Qed.

Lemma probed_list_meq a b : meq a b -> probed_list a = probed_list b.
Proof.
  intros H. unfold probed_list.
  rewrite (map_ext (fun x => (x, count_str x a)) (fun x => (x, count_str x b))) by (intros x; now rewrite (H x)).
  apply sort_by_unique.
  - apply Permutation_map. apply NoDup_Permutation; [apply NoDup_dedup|apply NoDup_dedup|].
    intros x. rewrite !in_dedup. now apply meq_in.
  - rewrite map_map. cbn [fst]. rewrite map_id. apply NoDup_dedup.
Qed.

Lemma probed_of_meq st1 st2 : meq (st_probing st1) (st_probing st2) -> probed_of st1 = probed_of st2.
Proof. intros H. rewrite !probed_of_eq. now apply probed_list_meq. Qed.
