(** M5lbMon.v — the acceptor implies the monitors: every trace accepted by model/M5lb.v
    satisfies corr/C01corr.c01_ok and (without restores over a failed probe) corr/C09corr.c09_ok. *)
From KP Require Import model.Base model.Trace model.M5lb proofs.M5lbFacts proofs.M5lbHist proofs.M5lbC01 proofs.M5lbC09
  corr.C01corr corr.C09corr.
From Coq Require Import ZifyN ZifyNat ZifyBool.
Local Open Scope nat_scope.

(** * Where the targets and balancers of the next state come from *)

Lemma tgt_back : forall s e s' t x',
  step s e = Some s' -> nget (tgts s') t = Some x' ->
  (exists x, nget (tgts s) t = Some x /\ t_lb x = t_lb x' /\
     (t_pok x' = true -> t_pok x = true \/ exists prev new, e_k e = KProbeApply t true prev new) /\
     (t_st x' = t_st x \/ (exists ok prev, e_k e = KProbeApply t ok prev (t_st x')) \/ (exists orig, e_k e = KStateSet t orig (t_st x')))) \/
  (nget (tgts s) t = None /\ exists lb ts, e_k e = KLbNew lb ts /\ In t ts /\ t_lb x' = lb /\ t_pok x' = false /\ t_st x' = TAdding).
Proof.
  intros s [tm a k] s' t x' H Hx. destruct k; step_inv H; proj_simp;
    try (left; exists x'; repeat split; auto; fail).
  all: norm; try (left; exists x'; repeat split; auto; fail).
  all: try (split_ands; discriminate).
  all: try (left; eexists; split; [eassumption|]; proj_simp; repeat split; eauto 6; fail).
  all: try (split_ands; apply add_targets_inv in Hx; destruct Hx as [[Hin ->]|[Hin Hx]];
            [right; split; [match goal with Hf : forallb _ _ = true |- _ => rewrite forallb_forall in Hf; apply fresh_none; auto end|];
             do 2 eexists; repeat split; eauto
            |left; exists x'; repeat split; auto]; fail).
  all: left; eexists; split; [eassumption|]; proj_simp; split; [reflexivity|]; split;
       [ intros Hp; first [left; exact Hp | right; do 2 eexists; reflexivity]
       | right; first [left; do 2 eexists; reflexivity | right; eexists; reflexivity] ].
Qed.

Lemma bal_back : forall s e s' lb b',
  step s e = Some s' -> nget (bals s') lb = Some b' ->
  (exists b, nget (bals s) lb = Some b /\ b_ts b = b_ts b' /\
     (b_waited b' = b_waited b \/ exists v, e_k e = KDeployWaited lb v /\ b_waited b' = Some v /\ b_waited b = None) /\
     (b_rot b' = b_rot b \/ e_k e = KRotation lb (b_rot b')) /\
     (b_idx b' = b_idx b \/ exists t r, e_k e = KLbClaim lb (Some t) r /\ b_idx b' = next_idx (b_idx b) (length (b_rot b)))) \/
  (nget (bals s) lb = None /\ exists ts, e_k e = KLbNew lb ts /\ b_ts b' = ts /\ b_waited b' = None /\ b_rot b' = [] /\ b_idx b' = 0).
Proof.
  intros s [tm a k] s' lb b' H Hb. destruct k; step_inv H; proj_simp;
    try (left; exists b'; repeat split; auto; fail).
  all: norm; try (left; exists b'; repeat split; auto; fail).
  all: try (split_ands; discriminate).
  all: try (right; split_ands; split; [now apply fresh_none|]; eexists; repeat split; reflexivity).
  all: try (left; eexists; split; [eassumption|]; proj_simp; repeat split; eauto 7; fail).
  all: try (unmark; left; exists b0; split; [assumption|]; split; [congruence|]; split; [left; assumption|];
            split; left; assumption).
  all: left; eexists; split; [eassumption|]; proj_simp; split; [reflexivity|]; split; [|split].
  all: try (left; reflexivity).
  all: try (right; eexists; repeat split; eauto; fail).
  all: try (right; reflexivity).
  all: try (right; do 2 eexists; split; reflexivity).
Qed.


Lemma tgt_back_presumed : forall s e s' t x',
  step s e = Some s' -> nget (tgts s') t = Some x' -> t_presumed x' = true ->
  (exists x, nget (tgts s) t = Some x /\ t_presumed x = true) \/ e_k e = KStateSet t TAdding THealthy.
Proof.
  intros s [tm a k] s' t x' H Hx Hp. destruct k; step_inv H; proj_simp;
    try (left; exists x'; split; auto; fail).
  all: norm; try (left; exists x'; split; auto; fail).
  all: try (split_ands; discriminate).
  all: try (left; eexists; split; [eassumption|]; proj_simp; auto; fail).
  all: try (split_ands; apply add_targets_inv in Hx; destruct Hx as [[Hin ->]|[Hin Hx]];
            [discriminate|left; exists x'; split; auto]; fail).
  all: try (left; eexists; split; [eassumption|]; destruct ok; proj_simp; auto; fail).
  all: try (right; clear Heqb; split_ands; repeat match goal with H : tstate_eqb _ _ = true |- _ => apply tstate_eqb_eq in H end;
            subst; reflexivity).
Qed.

Lemma bal_back_flags : forall s e s' lb b',
  step s e = Some s' -> nget (bals s') lb = Some b' ->
  (exists b, nget (bals s) lb = Some b /\ b_cmd b' = b_cmd b /\
     (b_restored b' = true -> b_restored b = true \/
        exists sv act roll, e_k e = KRestored sv act roll /\ In lb (opt_list act ++ opt_list roll))) \/
  (nget (bals s) lb = None /\ exists ts, e_k e = KLbNew lb ts /\ b_cmd b' = is_cmd (e_by e) /\ b_restored b' = false).
Proof.
  intros s [tm a k] s' lb b' H Hb. destruct k; step_inv H; proj_simp;
    try (left; exists b'; repeat split; auto; fail).
  all: norm; try (left; exists b'; repeat split; auto; fail).
  all: try (split_ands; discriminate).
  all: try (right; split_ands; split; [now apply fresh_none|]; eexists; repeat split; reflexivity).
  all: try (left; eexists; split; [eassumption|]; proj_simp; repeat split; auto; fail).
  unmark. left. exists b0. repeat split; auto. intros Hr. destruct (Hrest Hr) as [Hr0|Hin]; auto.
  right. do 3 eexists. split; [reflexivity|]. exact Hin.
Qed.

Lemma step_lbnew_cmd : forall s tm a lb ts s',
  step s (mkEv tm a (KLbNew lb ts)) = Some s' -> is_cmd a = true ->
  exists b, nget (bals s') lb = Some b /\ b_cmd b = true.
Proof.
  intros s tm a lb ts s' H Ha. destruct a; try discriminate Ha.
  step_inv H; proj_simp; rewrite nget_nset_same; eexists; split; reflexivity.
Qed.

Lemma step_restored : forall s tm a sv act roll s',
  step s (mkEv tm a (KRestored sv act roll)) = Some s' ->
  is_cmd a = false /\ exists n, act = Some n /\ forallb (restorable s) (n :: opt_list roll) = true /\
    bals s' = mark_restored (n :: opt_list roll) (bals s) /\ tgts s' = tgts s.
Proof.
  intros s tm a sv act roll s' H. step_inv H; proj_simp. split_ands.
  split; [destruct a; try reflexivity; discriminate|]. eexists. repeat split; auto.
Qed.

(** * C01: the acceptor implies the monitor *)

Record R1 (s : state) (m : mon1) : Prop := mkR1 {
  r1_tlb : forall t x, nget (tgts s) t = Some x -> nget (m_tlb m) t = Some (t_lb x);
  r1_lbs : forall lb b, nget (bals s) lb = Some b -> nget (m_lbs m) lb = Some (b_ts b);
  r1_pok : forall t x, nget (tgts s) t = Some x -> t_pok x = true -> In t (m_pok m);
  r1_wok : forall lb b, nget (bals s) lb = Some b -> b_waited b = Some true -> In lb (m_wok m);
  r1_failed : forall lb, In lb (m_failed m) -> exists b, nget (bals s) lb = Some b /\ b_waited b = Some false;
  r1_claimed : forall t, In t (m_claimed m) -> exists x b, nget (tgts s) t = Some x /\ nget (bals s) (t_lb x) = Some b /\ bal_ready b
}.

(** the part of the relation that concerns restores *)
Record R1x (s : state) (m : mon1) : Prop := mkR1x {
  r1_lic : forall t x, nget (tgts s) t = Some x -> t_presumed x = true -> In t (m_lic m);
  r1_wok' : forall lb, In lb (m_wok m) -> exists b, nget (bals s) lb = Some b /\ b_waited b = Some true;
  r1_cmd : forall lb, In lb (m_cmd m) -> exists b, nget (bals s) lb = Some b /\ b_cmd b = true;
  r1_rest : forall lb b, nget (bals s) lb = Some b -> b_restored b = true -> In lb (m_rest m);
  r1_rest' : forall lb, In lb (m_rest m) -> exists b, nget (bals s) lb = Some b /\ b_restored b = true
}.

Lemma r1x_init : R1x init m1_init.
Proof. constructor; cbn; intros; try discriminate; contradiction. Qed.

(** how one monitor step changes the lists R1x speaks about *)
Definition lic_upd (e : event) (l : list nat) : list nat :=
  match e_k e with KStateSet t TAdding THealthy => t :: l | _ => l end.
Definition wok_upd (e : event) (l : list nat) : list nat :=
  match e_k e with KDeployWaited lb true => lb :: l | _ => l end.
Definition cmd_upd (e : event) (l : list nat) : list nat :=
  match e_k e with KLbNew lb _ => if is_cmd (e_by e) then lb :: l else l | _ => l end.
Definition rest_upd (e : event) (l : list nat) : list nat :=
  match e_k e with KRestored _ act roll => (opt_list act ++ opt_list roll) ++ l | _ => l end.

Lemma c01_step_upd : forall m e m', c01_step m e = Some m' ->
  m_lic m' = lic_upd e (m_lic m) /\ m_wok m' = wok_upd e (m_wok m) /\
  m_cmd m' = cmd_upd e (m_cmd m) /\ m_rest m' = rest_upd e (m_rest m).
Proof.
  intros m [tm a k] m' H. unfold c01_step, lic_upd, wok_upd, cmd_upd, rest_upd in *. cbn [e_k e_by] in *.
  destruct k; try (inversion H; subst; auto; fail);
  repeat match type of H with context [match ?x with _ => _ end] => destruct x end;
  try discriminate; inversion H; subst; cbn; auto.
Qed.

Lemma r1x_step : forall s e s' m m', Inv s -> R1x s m -> step s e = Some s' -> c01_step m e = Some m' -> R1x s' m'.
Proof.
  intros s e s' m m' HI HX H Hm. destruct (c01_step_upd _ _ _ Hm) as [E1 [E2 [E3 E4]]]. constructor.
  - (* lic *)
    intros t x' Hx Hp. rewrite E1. unfold lic_upd.
    destruct (tgt_back_presumed _ _ _ _ _ H Hx Hp) as [[x [Hx0 Hp0]]|Hk].
    + pose proof (r1_lic _ _ HX _ _ Hx0 Hp0) as Hin.
      destruct (e_k e); auto. destruct orig; auto. destruct new; auto. right; auto.
    + rewrite Hk. left. reflexivity.
  - (* wok' *)
    intros lb Hin. rewrite E2 in Hin. unfold wok_upd in Hin.
    assert (Hold : In lb (m_wok m) -> exists b, nget (bals s') lb = Some b /\ b_waited b = Some true).
    { intros H0. destruct (r1_wok' _ _ HX _ H0) as [b [Hb Hw]].
      destruct (bal_stable _ _ _ _ _ H Hb) as [b' [H1 [_ [_ H2]]]]. eauto. }
    destruct e as [tm a k]. cbn [e_k] in Hin. destruct k; auto. destruct ok; auto.
    destruct Hin as [<-|Hin]; auto.
    destruct (step_waited _ _ _ _ _ _ H) as [b [b' [_ [_ [Hb' [Hw' _]]]]]]. eauto.
  - (* cmd *)
    intros lb Hin. rewrite E3 in Hin. unfold cmd_upd in Hin.
    assert (Hold : In lb (m_cmd m) -> exists b, nget (bals s') lb = Some b /\ b_cmd b = true).
    { intros H0. destruct (r1_cmd _ _ HX _ H0) as [b [Hb Hc]].
      destruct (bal_flags_stable _ _ _ _ _ H Hb) as [b' [H1 [H2 _]]]. exists b'. split; congruence. }
    destruct e as [tm a k]. cbn [e_k e_by] in Hin. destruct k; auto.
    destruct (is_cmd a) eqn:Ea; auto. destruct Hin as [<-|Hin]; auto.
    eapply step_lbnew_cmd; eauto.
  - (* rest *)
    intros lb b' Hb Hr. rewrite E4. unfold rest_upd.
    destruct (bal_back_flags _ _ _ _ _ H Hb) as [[b [Hb0 [_ Hor]]]|[_ [ts [_ [_ Hf]]]]]; [|congruence].
    destruct (Hor Hr) as [Hr0|[sv [act [roll [Hk Hin]]]]].
    + pose proof (r1_rest _ _ HX _ _ Hb0 Hr0) as Hin. destruct (e_k e); auto. apply in_or_app. auto.
    + rewrite Hk. apply in_or_app. auto.
  - (* rest' *)
    intros lb Hin. rewrite E4 in Hin. unfold rest_upd in Hin.
    assert (Hold : In lb (m_rest m) -> exists b, nget (bals s') lb = Some b /\ b_restored b = true).
    { intros H0. destruct (r1_rest' _ _ HX _ H0) as [b [Hb Hr]].
      destruct (bal_flags_stable _ _ _ _ _ H Hb) as [b' [H1 [_ H2]]]. eauto. }
    destruct e as [tm a k]. cbn [e_k] in Hin. destruct k; auto.
    apply in_app_or in Hin. destruct Hin as [Hin|Hin]; auto.
    destruct (step_restored _ _ _ _ _ _ _ H) as [_ [n [-> [Hall [Hbals _]]]]]. rewrite Hbals.
    cbn [opt_list app] in Hin. eapply restored_ready; eauto.
Qed.

Lemma r1_init : R1 init m1_init.
Proof. constructor; cbn; intros; try discriminate; contradiction. Qed.

Lemma add_tlb_get : forall ts l lb t, nget (add_tlb l lb ts) t = if nmem t ts then Some lb else nget l t.
Proof.
  induction ts as [|t0 r IH]; intros l lb t; cbn [add_tlb].
  - reflexivity.
  - rewrite IH. unfold nmem. cbn [existsb]. fold (nmem t r). destruct (nmem t r) eqn:E.
    + now rewrite orb_true_r.
    + rewrite orb_false_r. now rewrite nget_nset.
Qed.

(** the parts of R1 that follow from stability alone *)
Lemma r1_failed_stable : forall s e s' m, step s e = Some s' -> R1 s m ->
  forall lb, In lb (m_failed m) -> exists b, nget (bals s') lb = Some b /\ b_waited b = Some false.
Proof.
  intros s e s' m H HR lb Hin. destruct (r1_failed _ _ HR _ Hin) as [b [Hb Hw]].
  destruct (bal_stable _ _ _ _ _ H Hb) as [b' [H1 [_ [_ H2]]]]. eauto.
Qed.

Lemma r1_claimed_stable : forall s e s' m, step s e = Some s' -> R1 s m ->
  forall t, In t (m_claimed m) -> exists x b, nget (tgts s') t = Some x /\ nget (bals s') (t_lb x) = Some b /\ bal_ready b.
Proof.
  intros s e s' m H HR t Hin. destruct (r1_claimed _ _ HR _ Hin) as [x [b [Hx [Hb Hw]]]].
  destruct (tgt_stable _ _ _ _ _ H Hx) as [x' [H1 [H2 _]]].
  destruct (bal_ready_stable _ _ _ _ _ H Hb Hw) as [b' [H3 [H4 _]]].
  exists x', b'. rewrite H2. auto.
Qed.

(** R1 is kept by every event the monitor ignores, given what changed *)
Lemma r1_keep : forall s e s' m,
  step s e = Some s' -> R1 s m ->
  (forall lb ts, e_k e <> KLbNew lb ts) ->
  (forall t prev new, e_k e <> KProbeApply t true prev new) ->
  (forall lb, e_k e <> KDeployWaited lb true) ->
  R1 s' m.
Proof.
  intros s e s' m H HR N1 N2 N3. constructor.
  - intros t x' Hx. destruct (tgt_back _ _ _ _ _ H Hx) as [[x [Hx0 [Hl _]]]|[_ [lb [ts [Hk _]]]]].
    + rewrite <- Hl. eapply (r1_tlb _ _ HR); eauto.
    + exfalso. eapply N1; eauto.
  - intros lb b' Hb. destruct (bal_back _ _ _ _ _ H Hb) as [[b [Hb0 [Hts _]]]|[_ [ts [Hk _]]]].
    + rewrite <- Hts. eapply (r1_lbs _ _ HR); eauto.
    + exfalso. eapply N1; eauto.
  - intros t x' Hx Hp. destruct (tgt_back _ _ _ _ _ H Hx) as [[x [Hx0 [_ [Hpk _]]]]|[_ [lb [ts [Hk _]]]]].
    + destruct (Hpk Hp) as [Hp0|[prev [new Hk]]].
      * eapply (r1_pok _ _ HR); eauto.
      * exfalso. eapply N2; eauto.
    + exfalso. eapply N1; eauto.
  - intros lb b' Hb Hw. destruct (bal_back _ _ _ _ _ H Hb) as [[b [Hb0 [_ [[Hw0|[v [Hk [Hv _]]]] _]]]]|[_ [ts [Hk _]]]].
    + eapply (r1_wok _ _ HR); eauto. congruence.
    + exfalso. rewrite Hw in Hv. inversion Hv; subst v. eapply N3; eauto.
    + exfalso. eapply N1; eauto.
  - eapply r1_failed_stable; eauto.
  - eapply r1_claimed_stable; eauto.
Qed.

Lemma restorable_m1 : forall s m lb, R1 s m -> R1x s m -> restorable s lb = true -> m1_restorable m lb = true.
Proof.
  intros s m lb HR HX H. destruct (restorable_spec _ _ H) as [b [Hb [Hc [_ [_ [Hw [Hp _]]]]]]].
  unfold m1_restorable. rewrite (r1_lbs _ _ HR _ _ Hb).
  assert (N1 : nmem lb (m_cmd m) = false).
  { apply nmem_false. intros Hin. destruct (r1_cmd _ _ HX _ Hin) as [b1 [Hb1 Hc1]]. congruence. }
  assert (N2 : nmem lb (m_wok m) = false).
  { apply nmem_false. intros Hin. destruct (r1_wok' _ _ HX _ Hin) as [b1 [Hb1 Hw1]]. congruence. }
  assert (N3 : nmem lb (m_failed m) = false).
  { apply nmem_false. intros Hin. destruct (r1_failed _ _ HR _ Hin) as [b1 [Hb1 Hw1]]. congruence. }
  rewrite N1, N2, N3. cbn [negb andb]. apply forallb_forall. intros t Hin. apply nmem_In.
  destruct (is_presumed_true _ _ (Hp _ Hin)) as [x [Hx Hpx]]. eapply (r1_lic _ _ HX); eauto.
Qed.

Lemma sim1_restored : forall s tm a sv act roll s' m, Inv s -> R1 s m -> R1x s m ->
  step s (mkEv tm a (KRestored sv act roll)) = Some s' ->
  exists m', c01_step m (mkEv tm a (KRestored sv act roll)) = Some m' /\ R1 s' m'.
Proof.
  intros s tm a sv act roll s' m HI HR HX H.
  assert (HR' : R1 s' m) by (eapply r1_keep; eauto; cbn; intros; discriminate).
  destruct (step_restored _ _ _ _ _ _ _ H) as [Ha [n [-> [Hall _]]]].
  unfold c01_step; cbn [e_k e_by opt_list app]. rewrite Ha. cbn [negb andb].
  assert (Hm : forallb (m1_restorable m) (n :: opt_list roll) = true).
  { apply forallb_forall. intros lb Hin. rewrite forallb_forall in Hall. apply (restorable_m1 s); auto. }
  rewrite Hm. eexists; split; [reflexivity|]. destruct HR'. constructor; auto.
Qed.

Lemma sim1 : forall s e s' m, Inv s -> R1 s m -> R1x s m -> step s e = Some s' ->
  exists m', c01_step m e = Some m' /\ R1 s' m'.
Proof.
  intros s [tm a k] s' m HI HR HX H.
  destruct k; try (exists m; split; [reflexivity|]; eapply r1_keep; eauto; cbn; intros; discriminate).
  - (* KDeployWaited *)
    destruct (step_waited _ _ _ _ _ _ H) as [b [b' [Hb [Hn [Hb' [Hw' _]]]]]].
    assert (Hnr : nmem lb (m_rest m) = false).
    { apply nmem_false. intros Hin. destruct (r1_rest' _ _ HX _ Hin) as [b1 [Hb1 Hr1]].
      destruct (step_waited_cmd _ _ _ _ _ _ HI H) as [b2 [Hb2 [_ Hr2]]]. congruence. }
    destruct ok; unfold c01_step; cbn [e_k]; rewrite Hnr; cbn [orb].
    + eexists; split; [reflexivity|]. constructor; cbn [m_tlb m_lbs m_pok m_lic m_wok m_failed m_claimed].
      * intros t x' Hx. destruct (tgt_back _ _ _ _ _ H Hx) as [[x [Hx0 [Hl _]]]|[_ [? [? [Hk _]]]]]; [|discriminate Hk].
        rewrite <- Hl. eapply (r1_tlb _ _ HR); eauto.
      * intros lb0 b0 Hb0. destruct (bal_back _ _ _ _ _ H Hb0) as [[b1 [Hb1 [Hts _]]]|[_ [? [Hk _]]]]; [|discriminate Hk].
        rewrite <- Hts. eapply (r1_lbs _ _ HR); eauto.
      * intros t x' Hx Hp. destruct (tgt_back _ _ _ _ _ H Hx) as [[x [Hx0 [_ [Hpk _]]]]|[_ [? [? [Hk _]]]]]; [|discriminate Hk].
        destruct (Hpk Hp) as [Hp0|[? [? Hk]]]; [|discriminate Hk]. eapply (r1_pok _ _ HR); eauto.
      * intros lb0 b0 Hb0 Hw0. destruct (bal_back _ _ _ _ _ H Hb0) as [[b1 [Hb1 [_ [[Hw1|[v [Hk _]]] _]]]]|[_ [? [Hk _]]]]; [| |discriminate Hk].
        -- right. eapply (r1_wok _ _ HR); eauto. congruence.
        -- cbn in Hk. inversion Hk; subst. left. reflexivity.
      * eapply r1_failed_stable; eauto.
      * eapply r1_claimed_stable; eauto.
    + assert (Hno : existsb (fun t => nmem t (m_claimed m)) match nget (m_lbs m) lb with Some ts => ts | None => [] end = false).
      { rewrite (r1_lbs _ _ HR _ _ Hb). destruct (existsb _ _) eqn:Ex; auto. exfalso.
        apply existsb_exists in Ex. destruct Ex as [t [Hin Hc]]. apply nmem_In in Hc.
        destruct (r1_claimed _ _ HR _ Hc) as [x [b1 [Hx [Hb1 Hw1]]]].
        destruct (i_ts _ HI _ _ _ Hb Hin) as [x2 [Hx2 Hl2]]. rewrite Hx in Hx2. inversion Hx2; subst x2.
        rewrite Hl2 in Hb1. rewrite Hb in Hb1. inversion Hb1; subst b1.
        destruct Hw1 as [Hw1|Hr1]; [congruence|].
        destruct (step_waited_cmd _ _ _ _ _ _ HI H) as [b2 [Hb2 [_ Hr2]]]. congruence. }
      rewrite Hno. eexists; split; [reflexivity|]. constructor; cbn [m_tlb m_lbs m_pok m_lic m_wok m_failed m_claimed].
      * intros t x' Hx. destruct (tgt_back _ _ _ _ _ H Hx) as [[x [Hx0 [Hl _]]]|[_ [? [? [Hk _]]]]]; [|discriminate Hk].
        rewrite <- Hl. eapply (r1_tlb _ _ HR); eauto.
      * intros lb0 b0 Hb0. destruct (bal_back _ _ _ _ _ H Hb0) as [[b1 [Hb1 [Hts _]]]|[_ [? [Hk _]]]]; [|discriminate Hk].
        rewrite <- Hts. eapply (r1_lbs _ _ HR); eauto.
      * intros t x' Hx Hp. destruct (tgt_back _ _ _ _ _ H Hx) as [[x [Hx0 [_ [Hpk _]]]]|[_ [? [? [Hk _]]]]]; [|discriminate Hk].
        destruct (Hpk Hp) as [Hp0|[? [? Hk]]]; [|discriminate Hk]. eapply (r1_pok _ _ HR); eauto.
      * intros lb0 b0 Hb0 Hw0. destruct (bal_back _ _ _ _ _ H Hb0) as [[b1 [Hb1 [_ [[Hw1|[v [Hk [Hv _]]]] _]]]]|[_ [? [Hk _]]]]; [| |discriminate Hk].
        -- eapply (r1_wok _ _ HR); eauto. congruence.
        -- cbn in Hk. inversion Hk; subst. congruence.
      * intros lb0 [<-|Hin]; [eauto|]. eapply r1_failed_stable; eauto.
      * eapply r1_claimed_stable; eauto.
  - (* KSlot *)
    destruct (step_slot _ _ _ _ _ _ _ _ H) as [b [Hb Hw]].
    unfold c01_step; cbn [e_k]. rewrite (proj2 (nmem_In _ _) (r1_wok _ _ HR _ _ Hb Hw)).
    exists m; split; [reflexivity|]. eapply r1_keep; eauto; cbn; intros; discriminate.
  - (* KRestored *)
    eapply sim1_restored; eauto.
  - (* KLbNew *)
    destruct (step_lbnew _ _ _ _ _ _ H) as [Hnone [Hfr [b0 [Hb0 [Hts0 [Hw0 _]]]]]].
    unfold c01_step; cbn [e_k]. eexists; split; [reflexivity|].
    constructor; cbn [m_tlb m_lbs m_pok m_lic m_wok m_failed m_claimed].
    * intros t x' Hx. rewrite add_tlb_get.
      destruct (tgt_back _ _ _ _ _ H Hx) as [[x [Hx0 [Hl _]]]|[_ [lb0 [ts0 [Hk [Hin [Hl _]]]]]]].
      -- destruct (nmem t targets) eqn:E; [apply nmem_In in E; rewrite (Hfr _ E) in Hx0; discriminate|].
         rewrite <- Hl. eapply (r1_tlb _ _ HR); eauto.
      -- cbn in Hk. inversion Hk; subst lb0 ts0. rewrite (proj2 (nmem_In _ _) Hin). congruence.
    * intros lb0 b1 Hb1. rewrite nget_nset.
      destruct (bal_back _ _ _ _ _ H Hb1) as [[b2 [Hb2 [Hts _]]]|[_ [ts0 [Hk [Hts _]]]]].
      -- destruct (Nat.eqb_spec lb0 lb) as [->|Hne]; [congruence|]. rewrite <- Hts. eapply (r1_lbs _ _ HR); eauto.
      -- cbn in Hk. inversion Hk; subst. rewrite Nat.eqb_refl. reflexivity.
    * intros t x' Hx Hp. destruct (tgt_back _ _ _ _ _ H Hx) as [[x [Hx0 [_ [Hpk _]]]]|[_ [? [? [_ [_ [_ [Hpf _]]]]]]]]; [|congruence].
      destruct (Hpk Hp) as [Hp0|[? [? Hk]]]; [|discriminate Hk]. eapply (r1_pok _ _ HR); eauto.
    * intros lb0 b1 Hb1 Hw1. destruct (bal_back _ _ _ _ _ H Hb1) as [[b2 [Hb2 [_ [[Hw2|[v [Hk _]]] _]]]]|[_ [? [_ [_ [Hwn _]]]]]]; [|discriminate Hk|congruence].
      eapply (r1_wok _ _ HR); eauto. congruence.
    * eapply r1_failed_stable; eauto.
    * eapply r1_claimed_stable; eauto.
  - (* KClaim *)
    destruct (step_claim _ _ _ _ _ _ H) as [p [x [Hp [Hc [Hx _]]]]].
    destruct (i_pend _ HI _ _ _ Hp Hc) as [b [Hb [Hw Hin]]].
    destruct (i_ts _ HI _ _ _ Hb Hin) as [x1 [Hx1 Hl1]]. rewrite Hx in Hx1. inversion Hx1; subst x1.
    unfold c01_step; cbn [e_k]. rewrite (r1_tlb _ _ HR _ _ Hx), Hl1, (r1_lbs _ _ HR _ _ Hb).
    assert (Hlic : nmem (p_lb p) (m_rest m)
                   || (forallb (fun t' => nmem t' (m_pok m)) (b_ts b) && nmem (p_lb p) (m_wok m) && negb (nmem (p_lb p) (m_failed m))) = true).
    { destruct Hw as [Hw|Hr].
      - assert (Hall : forallb (fun t' => nmem t' (m_pok m)) (b_ts b) = true).
        { apply forallb_forall. intros t' Hin'. destruct (i_ts _ HI _ _ _ Hb Hin') as [x' [Hx' _]].
          pose proof (i_waited _ HI _ _ _ _ Hb Hw Hin' Hx') as Hwt.
          pose proof (i_wsig _ HI _ _ Hx' Hwt) as Hsg.
          pose proof (i_sigpok _ HI _ _ Hx' (or_introl Hsg)) as Hpk.
          exact (proj2 (nmem_In _ _) (r1_pok _ _ HR _ _ Hx' Hpk)). }
        assert (Hnf : nmem (p_lb p) (m_failed m) = false).
        { apply nmem_false. intros Hf. destruct (r1_failed _ _ HR _ Hf) as [b1 [Hb1 Hw1]]. congruence. }
        rewrite Hall, Hnf, (proj2 (nmem_In _ _) (r1_wok _ _ HR _ _ Hb Hw)). apply orb_true_r.
      - rewrite (proj2 (nmem_In _ _) (r1_rest _ _ HX _ _ Hb Hr)). reflexivity. }
    rewrite Hlic. eexists; split; [reflexivity|].
    constructor; cbn [m_tlb m_lbs m_pok m_lic m_wok m_failed m_claimed].
    * intros t0 x' Hx0. destruct (tgt_back _ _ _ _ _ H Hx0) as [[x2 [Hx2 [Hl _]]]|[_ [? [? [Hk _]]]]]; [|discriminate Hk].
      rewrite <- Hl. eapply (r1_tlb _ _ HR); eauto.
    * intros lb0 b0 Hb0. destruct (bal_back _ _ _ _ _ H Hb0) as [[b1 [Hb1 [Hts _]]]|[_ [? [Hk _]]]]; [|discriminate Hk].
      rewrite <- Hts. eapply (r1_lbs _ _ HR); eauto.
    * intros t0 x' Hx0 Hp0. destruct (tgt_back _ _ _ _ _ H Hx0) as [[x2 [Hx2 [_ [Hpk _]]]]|[_ [? [? [Hk _]]]]]; [|discriminate Hk].
      destruct (Hpk Hp0) as [Hp1|[? [? Hk]]]; [|discriminate Hk]. eapply (r1_pok _ _ HR); eauto.
    * intros lb0 b0 Hb0 Hw0. destruct (bal_back _ _ _ _ _ H Hb0) as [[b1 [Hb1 [_ [[Hw1|[v [Hk _]]] _]]]]|[_ [? [Hk _]]]]; [|discriminate Hk|discriminate Hk].
      eapply (r1_wok _ _ HR); eauto. congruence.
    * eapply r1_failed_stable; eauto.
    * intros t0 [<-|Hin0]; [|eapply r1_claimed_stable; eauto].
      destruct (tgt_stable _ _ _ _ _ H Hx) as [x' [Hx' [Hl' _]]].
      destruct (bal_ready_stable _ _ _ _ _ H Hb Hw) as [b' [Hb' [Hw' _]]].
      exists x', b'. rewrite Hl', Hl1. auto.
  - (* KProbeApply *)
    unfold c01_step; cbn [e_k]. destruct ok.
    + eexists; split; [reflexivity|]. constructor; cbn [m_tlb m_lbs m_pok m_lic m_wok m_failed m_claimed].
      * intros t0 x' Hx0. destruct (tgt_back _ _ _ _ _ H Hx0) as [[x2 [Hx2 [Hl _]]]|[_ [? [? [Hk _]]]]]; [|discriminate Hk].
        rewrite <- Hl. eapply (r1_tlb _ _ HR); eauto.
      * intros lb0 b0 Hb0. destruct (bal_back _ _ _ _ _ H Hb0) as [[b1 [Hb1 [Hts _]]]|[_ [? [Hk _]]]]; [|discriminate Hk].
        rewrite <- Hts. eapply (r1_lbs _ _ HR); eauto.
      * intros t0 x' Hx0 Hp0. destruct (tgt_back _ _ _ _ _ H Hx0) as [[x2 [Hx2 [_ [Hpk _]]]]|[_ [? [? [Hk _]]]]]; [|discriminate Hk].
        destruct (Hpk Hp0) as [Hp1|[? [? Hk]]].
        -- right. eapply (r1_pok _ _ HR); eauto.
        -- cbn in Hk. inversion Hk; subst. left. reflexivity.
      * intros lb0 b0 Hb0 Hw0. destruct (bal_back _ _ _ _ _ H Hb0) as [[b1 [Hb1 [_ [[Hw1|[v [Hk _]]] _]]]]|[_ [? [Hk _]]]]; [|discriminate Hk|discriminate Hk].
        eapply (r1_wok _ _ HR); eauto. congruence.
      * eapply r1_failed_stable; eauto.
      * eapply r1_claimed_stable; eauto.
    + exists m; split; [reflexivity|]. eapply r1_keep; eauto; cbn; intros; discriminate.
  - (* KStateSet *)
    assert (HR' : R1 s' m) by (eapply r1_keep; eauto; cbn; intros; discriminate).
    unfold c01_step; cbn [e_k]. destruct orig; try (exists m; split; [reflexivity|exact HR']).
    destruct new; try (exists m; split; [reflexivity|exact HR']).
    eexists; split; [reflexivity|]. destruct HR'. constructor; auto.
Qed.


Theorem accepted_c01_ok : forall tr, accepted tr = true -> c01_ok tr = true.
Proof.
  intros tr H. unfold accepted in H. destruct (run step init tr) as [s|] eqn:E; [|discriminate].
  assert (G : forall tr s0 m0 s1, Inv s0 -> R1 s0 m0 -> R1x s0 m0 -> run step s0 tr = Some s1 -> exists m1, run c01_step m0 tr = Some m1).
  { clear. induction tr as [|e tr IH]; intros s0 m0 s1 HI HR HX Hrun; cbn in *.
    - eauto.
    - destruct (step s0 e) as [s2|] eqn:E; [|discriminate].
      destruct (sim1 _ _ _ _ HI HR HX E) as [m2 [Hm2 HR2]]. rewrite Hm2.
      apply (IH s2 m2 s1); [eapply inv_step; eauto|exact HR2|eapply r1x_step; eauto|exact Hrun]. }
  destruct (G _ _ _ _ inv_init r1_init r1x_init E) as [m1 Hm1]. unfold c01_ok. now rewrite Hm1.
Qed.


(** * C09: the acceptor implies the monitor (when no restore overrides a failed probe) *)

Lemma pend_back : forall s e s' r p' t,
  step s e = Some s' -> nget (pend s') r = Some p' -> p_choice p' = Some t ->
  nget (pend s) r = Some p' \/ e_k e = KLbClaim (p_lb p') (Some t) r.
Proof.
  intros s [tm a k] s' r p' t H Hp Hc. destruct k; step_inv H; proj_simp; auto.
  all: norm; auto; try discriminate.
  all: try (right; congruence).
  inj_some. right. reflexivity.
Qed.

Record R9 (s : state) (m : mon9) : Prop := mkR9 {
  r9_rot : forall lb b, nget (bals s) lb = Some b -> nget (q_rot m) lb = Some (b_rot b) /\ nget (q_idx m) lb = Some (b_idx b);
  r9_pf : forall t x, In t (q_pf m) -> nget (tgts s) t = Some x -> t_st x <> THealthy;
  r9_pend : forall r p t, nget (pend s) r = Some p -> p_choice p = Some t -> nget (q_pend m) r = Some (Some t)
}.

Lemma r9_init : R9 init m9_init.
Proof. constructor; cbn; intros; try discriminate; contradiction. Qed.

Lemma probe_next_false : forall st, probe_next st false <> THealthy.
Proof. intros []; cbn; discriminate. Qed.

Lemma sim9 : forall s e s' m pf', Inv s -> R9 s m -> step s e = Some s' -> rf_step (q_pf m) e = Some pf' ->
  exists m', c09_step m e = Some m' /\ R9 s' m' /\ q_pf m' = pf'.
Proof.
  intros s [tm a k] s' m pf' HI HR H Hrf.
  (* generic facts *)
  assert (Grot : forall m', q_rot m' = q_rot m -> q_idx m' = q_idx m ->
            (forall lb0 ts, k <> KLbNew lb0 ts) -> (forall lb0 hs, k <> KRotation lb0 hs) -> (forall lb0 t r, k <> KLbClaim lb0 (Some t) r) ->
            forall lb b, nget (bals s') lb = Some b -> nget (q_rot m') lb = Some (b_rot b) /\ nget (q_idx m') lb = Some (b_idx b)).
  { intros m' E1 E2 N1 N2 N3 lb b Hb. rewrite E1, E2.
    destruct (bal_back _ _ _ _ _ H Hb) as [[b0 [Hb0 [_ [_ [[Hr|Hr] [Hi|[t [r [Hi _]]]]]]]]]|[_ [ts [Hk _]]]]; cbn in *.
    - rewrite Hr, Hi. eapply (r9_rot _ _ HR); eauto.
    - exfalso; eapply N3; eauto.
    - exfalso; eapply N2; eauto.
    - exfalso; eapply N2; eauto.
    - exfalso; eapply N1; eauto. }
  assert (Gpf : forall m', q_pf m' = q_pf m ->
            (forall t ok prev new, k <> KProbeApply t ok prev new) -> (forall t orig new, k <> KStateSet t orig new) ->
            forall t x, In t (q_pf m') -> nget (tgts s') t = Some x -> t_st x <> THealthy).
  { intros m' E N1 N2 t x' Hin Hx. rewrite E in Hin.
    destruct (tgt_back _ _ _ _ _ H Hx) as [[x [Hx0 [_ [_ [Hst|[[ok [prev Hk]]|[orig Hk]]]]]]]|[_ [? [? [_ [_ [_ [_ Hst]]]]]]]]; cbn in *.
    - rewrite Hst. eapply (r9_pf _ _ HR); eauto.
    - exfalso; eapply N1; eauto.
    - exfalso; eapply N2; eauto.
    - rewrite Hst. discriminate. }
  assert (Gpend : forall m', q_pend m' = q_pend m -> (forall lb0 t r, k <> KLbClaim lb0 (Some t) r) ->
            forall r p t, nget (pend s') r = Some p -> p_choice p = Some t -> nget (q_pend m') r = Some (Some t)).
  { intros m' E N r p t Hp Hc. rewrite E. destruct (pend_back _ _ _ _ _ _ H Hp Hc) as [Hp0|Hk]; cbn in *.
    - eapply (r9_pend _ _ HR); eauto.
    - exfalso; eapply N; eauto. }
  destruct k; try (cbn in Hrf; inversion Hrf; subst pf'; exists m; split; [reflexivity|]; split; [|reflexivity];
                   constructor; [apply Grot|apply Gpf|apply Gpend]; auto; intros; discriminate).
  - (* KLbNew *)
    cbn in Hrf; inversion Hrf; subst pf'. unfold c09_step; cbn [e_k]. eexists; split; [reflexivity|]. split; [|reflexivity].
    constructor; cbn [q_rot q_idx q_pf q_pend].
    + intros lb0 b Hb. rewrite !nget_nset.
      destruct (bal_back _ _ _ _ _ H Hb) as [[b0 [Hb0 [_ [_ [[Hr|Hr] [Hi|[t [r [Hi _]]]]]]]]]|[_ [ts [Hk [_ [_ [Hr Hi]]]]]]]; cbn in *; try discriminate.
      * destruct (step_lbnew _ _ _ _ _ _ H) as [Hnone _].
        destruct (Nat.eqb_spec lb0 lb) as [->|Hne]; [congruence|]. rewrite Hr, Hi. eapply (r9_rot _ _ HR); eauto.
      * inversion Hk; subst. rewrite Nat.eqb_refl, Hr, Hi. auto.
    + apply (Gpf (mkM9 (nset (q_rot m) lb []) (nset (q_idx m) lb 0) (q_pf m) (q_pend m))); auto; intros; discriminate.
    + apply (Gpend (mkM9 (nset (q_rot m) lb []) (nset (q_idx m) lb 0) (q_pf m) (q_pend m))); auto; intros; discriminate.
  - (* KLbClaim *)
    cbn in Hrf; inversion Hrf; subst pf'. unfold c09_step; cbn [e_k]. destruct t as [t|].
    + destruct (step_lbclaim_some _ _ _ _ _ _ _ H) as [b [Hb [Hin [Hnth [b' [Hb' [Hrot' Hidx']]]]]]].
      destruct (r9_rot _ _ HR _ _ Hb) as [Q1 Q2]. rewrite Q1, Q2.
      assert (Hk : (0 <? length (b_rot b)) = true) by (apply Nat.ltb_lt; destruct (b_rot b); [destruct Hin|cbn; lia]).
      assert (Hq : opt_nat_eqb (nth_error (b_rot b) (next_idx (b_idx b) (length (b_rot b)))) (Some t) = true) by (apply opt_nat_eqb_eq; exact Hnth).
      rewrite Hk, Hq. cbn [andb].
      eexists; split; [reflexivity|]. split; [|reflexivity]. constructor; cbn [q_rot q_idx q_pf q_pend].
      * intros lb0 b0 Hb0. rewrite nget_nset.
        destruct (bal_back _ _ _ _ _ H Hb0) as [[b1 [Hb1 [_ [_ [[Hr|Hr] [Hi|[t1 [r1 [Hk1 Hi]]]]]]]]]|[_ [ts [Hk1 _]]]]; cbn in *; try discriminate.
        -- destruct (Nat.eqb_spec lb0 lb) as [->|Hne].
           ++ rewrite Hb' in Hb0. inversion Hb0; subst b0. rewrite Hb in Hb1. inversion Hb1; subst b1. rewrite Hrot'. auto.
           ++ rewrite Hr, Hi. eapply (r9_rot _ _ HR); eauto.
        -- inversion Hk1; subst. rewrite Nat.eqb_refl. rewrite Hb in Hb1. inversion Hb1; subst b1. rewrite Hr, Hi. auto.
      * apply (Gpf (mkM9 (q_rot m) (nset (q_idx m) lb (next_idx (b_idx b) (length (b_rot b)))) (q_pf m) (nset (q_pend m) r (Some t)))); auto; intros; discriminate.
      * intros r0 p t0 Hp Hc. rewrite nget_nset. destruct (pend_back _ _ _ _ _ _ H Hp Hc) as [Hp0|Hk0]; cbn in *.
        -- destruct (Nat.eqb_spec r0 r) as [->|Hne].
           ++ clear - H Hp Hc. step_inv H; proj_simp; rewrite nget_nset_same in Hp; inversion Hp; subst p; cbn in Hc; congruence.
           ++ eapply (r9_pend _ _ HR); eauto.
        -- inversion Hk0; subst. rewrite Nat.eqb_refl. reflexivity.
    + assert (Hb : exists b, nget (bals s) lb = Some b /\ b_rot b = []).
      { clear - H. step_inv H; eauto. }
      destruct Hb as [b [Hb Hr]]. destruct (r9_rot _ _ HR _ _ Hb) as [Q1 Q2]. rewrite Q1, Hr.
      eexists; split; [reflexivity|]. split; [|reflexivity]. constructor; cbn [q_rot q_idx q_pf q_pend].
      * apply (Grot (mkM9 (q_rot m) (q_idx m) (q_pf m) (nset (q_pend m) r None))); auto; intros; discriminate.
      * apply (Gpf (mkM9 (q_rot m) (q_idx m) (q_pf m) (nset (q_pend m) r None))); auto; intros; discriminate.
      * intros r0 p t0 Hp Hc. rewrite nget_nset. destruct (pend_back _ _ _ _ _ _ H Hp Hc) as [Hp0|Hk0]; cbn in *; [|discriminate].
        destruct (Nat.eqb_spec r0 r) as [->|Hne]; [|eapply (r9_pend _ _ HR); eauto].
        exfalso. clear - H Hp Hc. step_inv H; proj_simp; rewrite nget_nset_same in Hp; inversion Hp; subst p; discriminate.
  - (* KRotation *)
    cbn in Hrf; inversion Hrf; subst pf'. unfold c09_step; cbn [e_k].
    destruct (step_rotation _ _ _ _ _ _ H) as [b [b' [Hb [Hhs [Hb' [Hrot' Hts']]]]]].
    assert (Hno : existsb (fun t => nmem t (q_pf m)) healthy = false).
    { destruct (existsb _ _) eqn:Ex; auto. exfalso. apply existsb_exists in Ex. destruct Ex as [t [Hin Hpf]].
      apply nmem_In in Hpf. rewrite Hhs in Hin. destruct (healthy_of_In _ _ _ Hin) as [x [Hx Hst]].
      eapply (r9_pf _ _ HR); eauto. }
    rewrite Hno. eexists; split; [reflexivity|]. split; [|reflexivity]. constructor; cbn [q_rot q_idx q_pf q_pend].
    + intros lb0 b0 Hb0. rewrite nget_nset.
      destruct (bal_back _ _ _ _ _ H Hb0) as [[b1 [Hb1 [_ [_ [[Hr|Hr] [Hi|[t1 [r1 [Hk1 Hi]]]]]]]]]|[_ [ts [Hk1 _]]]]; cbn in *; try discriminate.
      * destruct (Nat.eqb_spec lb0 lb) as [->|Hne].
        -- rewrite Hb' in Hb0. inversion Hb0; subst b0. rewrite Hi. split; [congruence|]. eapply (r9_rot _ _ HR); eauto.
        -- rewrite Hr, Hi. eapply (r9_rot _ _ HR); eauto.
      * inversion Hr; subst. rewrite Nat.eqb_refl. rewrite Hi. split; auto. eapply (r9_rot _ _ HR); eauto.
    + apply (Gpf (mkM9 (nset (q_rot m) lb healthy) (q_idx m) (q_pf m) (q_pend m))); auto; intros; discriminate.
    + apply (Gpend (mkM9 (nset (q_rot m) lb healthy) (q_idx m) (q_pf m) (q_pend m))); auto; intros; discriminate.
  - (* KClaim *)
    cbn in Hrf; inversion Hrf; subst pf'. unfold c09_step; cbn [e_k].
    destruct (step_claim _ _ _ _ _ _ H) as [p [x [Hp [Hc _]]]].
    rewrite (r9_pend _ _ HR _ _ _ Hp Hc), Nat.eqb_refl.
    exists m; split; [reflexivity|]. split; [|reflexivity].
    constructor; [apply Grot|apply Gpf|apply Gpend]; auto; intros; discriminate.
  - (* KProbeApply *)
    destruct (step_probe _ _ _ _ _ _ _ _ H) as [x0 [x1 [Hx0 [Hnew [Hx1 Hst1]]]]].
    unfold c09_step; cbn [e_k]. destruct ok; cbn in Hrf; inversion Hrf; subst pf'.
    + eexists; split; [reflexivity|]. split; [|reflexivity]. constructor; cbn [q_rot q_idx q_pf q_pend].
      * apply (Grot (mkM9 (q_rot m) (q_idx m) (nremove t (q_pf m)) (q_pend m))); auto; intros; discriminate.
      * intros t0 x' Hin Hx. apply nremove_In in Hin. destruct Hin as [Hin Hne].
        destruct (tgt_back _ _ _ _ _ H Hx) as [[x [Hxx [_ [_ [Hst|[[ok [pv Hk]]|[og Hk]]]]]]]|[_ [? [? [Hk _]]]]]; cbn in *; try discriminate.
        -- rewrite Hst. eapply (r9_pf _ _ HR); eauto.
        -- inversion Hk; subst. congruence.
      * apply (Gpend (mkM9 (q_rot m) (q_idx m) (nremove t (q_pf m)) (q_pend m))); auto; intros; discriminate.
    + eexists; split; [reflexivity|]. split; [|reflexivity]. constructor; cbn [q_rot q_idx q_pf q_pend].
      * apply (Grot (mkM9 (q_rot m) (q_idx m) (t :: q_pf m) (q_pend m))); auto; intros; discriminate.
      * intros t0 x' Hin Hx. destruct (Nat.eq_dec t0 t) as [->|Hne].
        -- rewrite Hx1 in Hx. inversion Hx; subst x'. rewrite Hst1, Hnew. apply probe_next_false.
        -- destruct Hin as [Hin|Hin]; [congruence|].
           destruct (tgt_back _ _ _ _ _ H Hx) as [[x [Hxx [_ [_ [Hst|[[ok [pv Hk]]|[og Hk]]]]]]]|[_ [? [? [Hk _]]]]]; cbn in *; try discriminate.
           ++ rewrite Hst. eapply (r9_pf _ _ HR); eauto.
           ++ inversion Hk; subst. congruence.
      * apply (Gpend (mkM9 (q_rot m) (q_idx m) (t :: q_pf m) (q_pend m))); auto; intros; discriminate.
  - (* KStateSet *)
    unfold c09_step; cbn [e_k]. exists m; split; [reflexivity|].
    assert (Epf : pf' = q_pf m /\ (new = THealthy -> ~ In t (q_pf m))).
    { cbn in Hrf. destruct new; try (inversion Hrf; split; [reflexivity|discriminate]).
      destruct (nmem t (q_pf m)) eqn:E; [discriminate|]. inversion Hrf. split; auto. intros _. now apply nmem_false. }
    destruct Epf as [-> Hnh]. split; [|reflexivity].
    constructor; [apply Grot; auto; intros; discriminate| |apply Gpend; auto; intros; discriminate].
    intros t0 x' Hin Hx.
    destruct (tgt_back _ _ _ _ _ H Hx) as [[x [Hxx [_ [_ [Hst|[[ok [pv Hk]]|[og Hk]]]]]]]|[_ [? [? [Hk _]]]]]; cbn in *; try discriminate.
    + rewrite Hst. eapply (r9_pf _ _ HR); eauto.
    + inversion Hk; subst. intros Hh. apply Hnh; auto.
Qed.

Theorem accepted_c09_ok : forall tr, accepted tr = true -> c09_restore_free tr = true -> c09_ok tr = true.
Proof.
  intros tr H Hrf. unfold accepted in H. destruct (run step init tr) as [s|] eqn:E; [|discriminate].
  unfold c09_restore_free in Hrf. destruct (run rf_step [] tr) as [pfE|] eqn:F; [|discriminate].
  assert (G : forall tr s0 m0 s1 pf1, Inv s0 -> R9 s0 m0 -> run step s0 tr = Some s1 -> run rf_step (q_pf m0) tr = Some pf1 ->
              exists m1, run c09_step m0 tr = Some m1).
  { clear. induction tr as [|e tr IH]; intros s0 m0 s1 pf1 HI HR Hrun Hrf; cbn in *.
    - eauto.
    - destruct (step s0 e) as [s2|] eqn:E; [|discriminate].
      destruct (rf_step (q_pf m0) e) as [pf2|] eqn:F; [|discriminate].
      destruct (sim9 _ _ _ _ _ HI HR E F) as [m2 [Hm2 [HR2 Hpf2]]]. rewrite Hm2. subst pf2.
      apply (IH s2 m2 s1 pf1); [eapply inv_step; eauto|exact HR2|exact Hrun|exact Hrf]. }
  destruct (G _ _ _ _ _ inv_init r9_init E F) as [m1 Hm1]. unfold c09_ok. now rewrite Hm1.
Qed.


(** * C09: rebuild obligations *)

Lemma owe_step : forall s e s', step s e = Some s' -> ow_step (owe s) e = Some (owe s').
Proof.
  intros s [tm a k] s' H. unfold ow_step. cbn [e_k e_by].
  destruct k; step_inv H; proj_simp; try reflexivity.
  all: split_ands;
       match goal with H : negb (owes _ _) = true |- _ => apply negb_true_iff in H; rewrite H end;
       cbn [negb andb orb]; try reflexivity.
  all: match goal with H : tstate_eqb ?nw (probe_next ?st false) = true |- _ =>
         apply tstate_eqb_eq in H; rewrite H; destruct st; reflexivity end.
Qed.

Theorem accepted_c09_rebuild_ok : forall tr, accepted tr = true -> c09_rebuild_ok tr = true.
Proof.
  intros tr H. unfold accepted in H. destruct (run step init tr) as [s|] eqn:E; [|discriminate].
  assert (G : forall tr s0 s1, run step s0 tr = Some s1 -> run ow_step (owe s0) tr = Some (owe s1)).
  { clear. induction tr as [|e tr IH]; intros s0 s1 Hrun; cbn in *.
    - inversion Hrun; reflexivity.
    - destruct (step s0 e) as [s2|] eqn:E; [|discriminate]. rewrite (owe_step _ _ _ E). apply IH; auto. }
  unfold c09_rebuild_ok. change (@nil actor) with (owe init). rewrite (G _ _ _ E). reflexivity.
Qed.
