(** SnapFacts.v — invariants of the repaired snapshot view (model/M5snap.v) over
    all accepted traces, and the C12 statements derived from them. *)
From KP Require Import model.Base model.Trace model.M5snap.
From Coq Require Import ZifyNat ZifyBool.

(** ** Runs, prefixes *)

Lemma run_app : forall St (step : St -> event -> option St) a b s,
  run step s (a ++ b) = match run step s a with Some s' => run step s' b | None => None end.
Proof.
  intros St step a. induction a as [|e a IH]; intros b s; cbn [run app]; [reflexivity|].
  destruct (step s e) as [s'|]; [apply IH|reflexivity].
Qed.

Lemma run_snoc : forall St (step : St -> event -> option St) a e s s',
  run step s a = Some s' -> run step s (a ++ [e]) = step s' e.
Proof.
  intros St step a e s s' H. rewrite run_app, H. cbn [run]. destruct (step s' e); reflexivity.
Qed.

Lemma run_snoc_inv : forall St (step : St -> event -> option St) a e s s2,
  run step s (a ++ [e]) = Some s2 -> exists s1, run step s a = Some s1 /\ step s1 e = Some s2.
Proof.
  intros St step a e s s2 H. rewrite run_app in H. destruct (run step s a) as [s1|]; [|discriminate].
  exists s1. split; [reflexivity|]. cbn [run] in H. destruct (step s1 e); [exact H|discriminate].
Qed.

Lemma firstn_snoc_le : forall A (l : list A) x k, k <= length l -> firstn k (l ++ [x]) = firstn k l.
Proof.
  intros A l x k Hk. rewrite firstn_app. replace (k - length l) with 0 by lia. cbn [firstn]. apply app_nil_r.
Qed.

Lemma firstn_snoc_all : forall A (l : list A) x, firstn (length l) (l ++ [x]) = l.
Proof. intros A l x. rewrite firstn_snoc_le by lia. apply firstn_all. Qed.

Lemma run_prefix : forall St (step : St -> event -> option St) tr s s' k,
  run step s tr = Some s' -> exists sk, run step s (firstn k tr) = Some sk.
Proof.
  intros St step tr s s' k H. rewrite <- (firstn_skipn k tr) in H. rewrite run_app in H.
  destruct (run step s (firstn k tr)) as [sk|]; [eauto|discriminate].
Qed.

Lemma nth_error_snoc : forall A (l : list A) x t y,
  nth_error (l ++ [x]) t = Some y -> nth_error l t = Some y \/ (t = length l /\ y = x).
Proof.
  intros A l x t y H. destruct (Nat.lt_ge_cases t (length l)) as [Hlt|Hge].
  - left. rewrite nth_error_app1 in H by exact Hlt. exact H.
  - right. rewrite nth_error_app2 in H by exact Hge.
    destruct (t - length l) as [|n] eqn:E.
    + cbn in H. inversion H. split; [lia|reflexivity].
    + cbn in H. destruct n; discriminate.
Qed.

(** ** Who changed the configuration, and when *)

Definition changed_at (tr : trace) (t c : nat) (ch : chg) : Prop :=
  exists e, nth_error tr t = Some e /\ sev_change (read e) = Some (c, ch).

Lemma changed_at_lt : forall tr t c ch, changed_at tr t c ch -> t < length tr.
Proof. intros tr t c ch [e [H _]]. apply nth_error_Some. congruence. Qed.

Lemma changed_at_old : forall tr e t c ch, changed_at tr t c ch -> changed_at (tr ++ [e]) t c ch.
Proof.
  intros tr e t c ch [e0 [H1 H2]]. exists e0. split; [|exact H2].
  rewrite nth_error_app1; [exact H1|]. apply nth_error_Some. congruence.
Qed.

Lemma changed_at_snoc : forall tr e t c ch,
  changed_at (tr ++ [e]) t c ch ->
  changed_at tr t c ch \/ (t = length tr /\ sev_change (read e) = Some (c, ch)).
Proof.
  intros tr e t c ch [e0 [H1 H2]]. apply nth_error_snoc in H1. destruct H1 as [H1|[Ht He]].
  - left. exists e0. auto.
  - right. subst. auto.
Qed.

Definition pb (ch : chg) (p : nat * nat) : nat := match ch with ChSet => fst p | ChObj => snd p end.

Definition has_cmd (s : sstate) (c : nat) : Prop := exists x, In x (s_cmds s) /\ c_id x = c.

(** ** Lists of commands *)

Lemma find_cmd_some : forall cs c x, find_cmd cs c = Some x -> In x cs /\ c_id x = c.
Proof.
  intros cs c x H. unfold find_cmd in H. apply find_some in H. destruct H as [H1 H2].
  split; [exact H1|]. apply Nat.eqb_eq. exact H2.
Qed.

Lemma find_cmd_none : forall cs c x, find_cmd cs c = None -> In x cs -> c_id x <> c.
Proof.
  intros cs c x H Hin Heq. unfold find_cmd in H. eapply find_none in H; [|exact Hin].
  cbn in H. apply Nat.eqb_neq in H. contradiction.
Qed.

Lemma in_set_cmd : forall cs c st y, In y (set_cmd cs c st) ->
  exists x, In x cs /\ c_id y = c_id x /\ c_t0 y = c_t0 x /\
            ((c_id x = c /\ c_st y = st) \/ (c_id x <> c /\ y = x)).
Proof.
  intros cs c st y H. unfold set_cmd in H. apply in_map_iff in H. destruct H as [x [Hy Hx]].
  exists x. split; [exact Hx|]. destruct (Nat.eqb (c_id x) c) eqn:E; subst y.
  - apply Nat.eqb_eq in E. cbn. auto.
  - apply Nat.eqb_neq in E. auto.
Qed.

Lemma set_cmd_ids : forall cs c st, map c_id (set_cmd cs c st) = map c_id cs.
Proof.
  intros cs c st. unfold set_cmd. rewrite map_map. apply map_ext. intro x.
  destruct (Nat.eqb (c_id x) c); reflexivity.
Qed.

Lemma in_set_cmd_back : forall cs c st x, In x cs ->
  exists y, In y (set_cmd cs c st) /\ c_id y = c_id x /\ (c_id x = c -> c_st y = st) /\ (c_id x <> c -> y = x).
Proof.
  intros cs c st x H. unfold set_cmd.
  exists (if Nat.eqb (c_id x) c then mkC (c_id x) st (c_t0 x) else x). split.
  - apply in_map_iff. exists x. auto.
  - destruct (Nat.eqb (c_id x) c) eqn:E.
    + apply Nat.eqb_eq in E. cbn. repeat split; auto. intro; contradiction.
    + apply Nat.eqb_neq in E. repeat split; auto. intro; contradiction.
Qed.

Lemma in_del_cmd : forall cs c x, In x (del_cmd cs c) <-> In x cs /\ c_id x <> c.
Proof.
  intros cs c x. unfold del_cmd. rewrite filter_In. split; intros [H1 H2]; split; auto.
  - apply Nat.eqb_neq. destruct (Nat.eqb (c_id x) c); [discriminate|reflexivity].
  - apply Nat.eqb_neq in H2. rewrite H2. reflexivity.
Qed.

Lemma NoDup_map_filter : forall A B (f : A -> B) p l, NoDup (map f l) -> NoDup (map f (filter p l)).
Proof.
  intros A B f p l. induction l as [|a l IH]; intro H; cbn; [constructor|].
  inversion H as [|? ? Hn Hd]; subst. destruct (p a); cbn; [|auto].
  constructor; [|auto]. intro Hin. apply Hn. apply in_map_iff in Hin. destruct Hin as [x [Hx Hi]].
  apply filter_In in Hi. apply in_map_iff. exists x. tauto.
Qed.

Lemma NoDup_ids_eq : forall cs x y, NoDup (map c_id cs) -> In x cs -> In y cs -> c_id x = c_id y -> x = y.
Proof.
  intros cs. induction cs as [|a cs IH]; intros x y Hn Hx Hy Heq; [contradiction|].
  cbn in Hn. inversion Hn as [|? ? Hna Hd]; subst. destruct Hx as [Hx|Hx], Hy as [Hy|Hy]; subst.
  - reflexivity.
  - exfalso. apply Hna. rewrite Heq. apply in_map. exact Hy.
  - exfalso. apply Hna. rewrite <- Heq. apply in_map. exact Hx.
  - apply IH; auto.
Qed.

Lemma wstart_le : forall s x, In x (s_cmds s) -> wstart s <= c_t0 x.
Proof.
  intros s x. unfold wstart. generalize (s_now s) as n. induction (s_cmds s) as [|a l IH]; intros n H; [contradiction|].
  cbn. destruct H as [H|H]; [subst; lia|]. specialize (IH n H). lia.
Qed.

Lemma wstart_le_now : forall s, wstart s <= s_now s.
Proof.
  intros s. unfold wstart. induction (s_cmds s) as [|a l IH]; cbn; lia.
Qed.

Lemma wstart_nil : forall s, s_cmds s = [] -> wstart s = s_now s.
Proof. intros s H. unfold wstart. rewrite H. reflexivity. Qed.

(** ** The invariant of the repaired view *)

Definition writer_ok (tr : trace) (s : sstate) (w : writer) : Prop :=
  (exists x, In x (s_cmds s) /\ c_id x = w_cmd w /\ c_st x = CSaved) /\
  w_k1 w < s_now s /\ snd (s_prov s) <= w_k1 w /\
  (exists s1, snap_run Repaired (firstn (w_k1 w) tr) = Some s1 /\ w_set w = g_set (s_cfg s1)) /\
  (w_phase w = PWritten ->
     w_k1 w <= w_k2 w /\ w_k2 w < s_now s /\
     s_temp s = Some (Some (content_of w)) /\
     exists s2, snap_run Repaired (firstn (w_k2 w) tr) = Some s2 /\ w_objs w = g_objs (s_cfg s2)).

Definition writers_ok (tr : trace) (s : sstate) : Prop :=
  s_writers s = [] \/ exists w, s_writers s = [w] /\ writer_ok tr s w.

(** before this index, a saved command made all its changes *)
Definition sbound (s : sstate) (c : nat) : nat :=
  match find_writer (s_writers s) c with Some w => w_k1 w | None => fst (s_prov s) end.

Definition live_ok (tr : trace) (s : sstate) : Prop :=
  match s_live s with
  | DAbsent => s_done s = [] /\ s_prov s = (0, 0)
  | DFile x =>
    In x (s_done s) /\
    exists s1 s2, snap_run Repaired (firstn (fst (s_prov s)) tr) = Some s1 /\
                  snap_run Repaired (firstn (snd (s_prov s)) tr) = Some s2 /\
                  x = mkCfg (g_set (s_cfg s1)) (g_objs (s_cfg s2))
  | _ => False
  end.

Record Inv (tr : trace) (s : sstate) : Prop := mkInv {
  i_run : snap_run Repaired tr = Some s;
  i_now : s_now s = length tr;
  i_wr : writers_ok tr s;
  i_prov : fst (s_prov s) <= snd (s_prov s) /\ snd (s_prov s) <= s_now s;
  i_live : live_ok tr s;
  i_nodup : NoDup (map c_id (s_cmds s));
  i_ids : forall x, In x (s_cmds s) -> In (c_id x) (s_used s) /\ c_t0 x < s_now s;
  i_auth : forall t c ch, changed_at tr t c ch -> In c (s_used s);
  i_chg : forall t c ch, changed_at tr t c ch -> pb ch (s_prov s) <= t -> has_cmd s c;
  i_t0 : forall t c ch x, changed_at tr t c ch -> In x (s_cmds s) -> c_id x = c -> c_t0 x < t;
  i_saved : forall x t ch, In x (s_cmds s) -> changed_at tr t (c_id x) ch ->
            match c_st x with
            | CFresh => False
            | CDirty => True
            | CSaved => t < sbound s (c_id x)
            end
}.

Lemma inv_init : Inv [] snap_init.
Proof.
  constructor; cbn; try tauto; try lia.
  - left. reflexivity.
  - constructor.
  - intros t c ch [e [H _]]. destruct t; discriminate.
  - intros t c ch [e [H _]]. destruct t; discriminate.
Qed.

Ltac simp_s := cbn [tick with_cfg with_cmds with_disk s_now s_names s_cfg s_live s_prov s_temp s_writers
                    s_cmds s_used s_done fst snd] in *.

(** prefix runs do not see the new event *)
Lemma prefix_old : forall tr e k, k <= length tr ->
  snap_run Repaired (firstn k (tr ++ [e])) = snap_run Repaired (firstn k tr).
Proof. intros tr e k H. rewrite firstn_snoc_le by exact H. reflexivity. Qed.

Lemma writer_ok_frame : forall tr e s s' w,
  writer_ok tr s w -> s_now s = length tr ->
  s_now s' = S (s_now s) -> s_prov s' = s_prov s -> s_temp s' = s_temp s ->
  (forall x, In x (s_cmds s) -> c_st x = CSaved -> c_id x = w_cmd w ->
             exists y, In y (s_cmds s') /\ c_id y = c_id x /\ c_st y = CSaved) ->
  writer_ok (tr ++ [e]) s' w.
Proof.
  intros tr e s s' w [[x [Hx1 [Hx2 Hx3]]] [Hk1 [Hp [[s1 [Hs1 Hset]] Hw]]]] Hnow Hn' Hp' Ht' Hc.
  unfold writer_ok. rewrite Hn', Hp', Ht'. repeat split.
  - destruct (Hc x Hx1 Hx3 Hx2) as [y [Hy1 [Hy2 Hy3]]]. exists y. repeat split; auto. congruence.
  - lia.
  - exact Hp.
  - exists s1. split; [|exact Hset]. rewrite prefix_old by lia. exact Hs1.
  - apply Hw; assumption.
  - apply Hw in H. lia.
  - apply Hw; assumption.
  - apply Hw in H. destruct H as [_ [Hk2 [_ [s2 [Hs2 Ho]]]]]. exists s2. split; [|exact Ho].
    rewrite prefix_old by lia. exact Hs2.
Qed.

Lemma live_ok_frame : forall tr e s s',
  live_ok tr s -> s_now s = length tr -> snd (s_prov s) <= s_now s -> fst (s_prov s) <= snd (s_prov s) ->
  s_live s' = s_live s -> s_prov s' = s_prov s -> s_done s' = s_done s ->
  live_ok (tr ++ [e]) s'.
Proof.
  intros tr e s s' H Hnow Hp2 Hp1 Hl Hp Hd. unfold live_ok in *. rewrite Hl, Hp, Hd.
  destruct (s_live s); auto. destruct H as [Hin [s1 [s2 [H1 [H2 Hx]]]]]. split; [exact Hin|].
  exists s1, s2. rewrite !prefix_old by lia. auto.
Qed.

Lemma run_step_snoc : forall tr e s s0,
  snap_run Repaired tr = Some s -> core Repaired s (read e) = Some s0 ->
  snap_run Repaired (tr ++ [e]) = Some (tick s0).
Proof.
  intros tr e s s0 Hrun Hc. unfold snap_run in *. rewrite (run_snoc _ _ _ _ _ _ Hrun).
  unfold snap_step. rewrite Hc. reflexivity.
Qed.

Lemma writers_ok_frame : forall tr e s s',
  writers_ok tr s -> s_now s = length tr ->
  s_now s' = S (s_now s) -> s_prov s' = s_prov s -> s_temp s' = s_temp s -> s_writers s' = s_writers s ->
  (forall x w, In x (s_cmds s) -> c_st x = CSaved -> In w (s_writers s) -> c_id x = w_cmd w ->
               exists y, In y (s_cmds s') /\ c_id y = c_id x /\ c_st y = CSaved) ->
  writers_ok (tr ++ [e]) s'.
Proof.
  intros tr e s s' [H|[w [H Hw]]] Hnow Hn' Hp' Ht' Hw' Hc; unfold writers_ok; rewrite Hw'.
  - left. exact H.
  - right. exists w. split; [exact H|]. eapply writer_ok_frame; eauto.
    intros x Hx Hst Hid. apply (Hc x w); auto. rewrite H. left. reflexivity.
Qed.

(** an event that the view only counts *)
Lemma inv_quiet : forall tr e s s0,
  Inv tr s -> core Repaired s (read e) = Some s0 -> sev_change (read e) = None ->
  s_now s0 = s_now s -> s_cfg s0 = s_cfg s -> s_live s0 = s_live s -> s_prov s0 = s_prov s ->
  s_temp s0 = s_temp s -> s_writers s0 = s_writers s -> s_cmds s0 = s_cmds s -> s_used s0 = s_used s ->
  s_done s0 = s_done s ->
  Inv (tr ++ [e]) (tick s0).
Proof.
  intros tr e s s0 I Hc Hq Hn Hg Hl Hp Ht Hw Hcs Hu Hd.
  destruct I as [Irun Inow Iwr Iprov Ilive Indp Iids Iauth Ichg It0 Isaved].
  assert (Hold : forall t c ch, changed_at (tr ++ [e]) t c ch -> changed_at tr t c ch).
  { intros t c ch H. apply changed_at_snoc in H. destruct H as [H|[_ H]]; [exact H|congruence]. }
  constructor; simp_s.
  - eapply run_step_snoc; eauto.
  - rewrite app_length. cbn. lia.
  - eapply writers_ok_frame; eauto; simp_s; try congruence.
    intros x w Hx Hst _ _. exists x. rewrite Hcs. auto.
  - rewrite Hp, Hn. lia.
  - eapply live_ok_frame; eauto; simp_s; try tauto; try lia.
  - rewrite Hcs. exact Indp.
  - intros x Hx. rewrite Hcs in Hx. rewrite Hu, Hn. specialize (Iids x Hx). split; [tauto|lia].
  - intros t c ch H. rewrite Hu. eauto.
  - intros t c ch H Hb. rewrite Hp in Hb. apply Hold in H. destruct (Ichg t c ch H Hb) as [x [Hx1 Hx2]].
    exists x. simp_s. rewrite Hcs. auto.
  - intros t c ch x H Hx Hid. rewrite Hcs in Hx. eauto.
  - intros x t ch Hx H. rewrite Hcs in Hx. apply Hold in H. specialize (Isaved x t ch Hx H).
    unfold sbound in *. simp_s. rewrite Hw, Hp. exact Isaved.
Qed.

Lemma nmem_false : forall c l, nmem c l = false -> ~ In c l.
Proof.
  intros c l H Hin. unfold nmem in H. assert (existsb (Nat.eqb c) l = true).
  { apply existsb_exists. exists c. split; [exact Hin|apply Nat.eqb_refl]. }
  congruence.
Qed.


Lemma NoDup_snoc : forall A (l : list A) x, ~ In x l -> NoDup l -> NoDup (l ++ [x]).
Proof.
  intros A l x Hn Hd. induction l as [|a l IH]; cbn.
  - constructor; [intros []|constructor].
  - inversion Hd as [|? ? Ha Hl]; subst. constructor.
    + intro Hin. apply in_app_or in Hin. destruct Hin as [Hin|[Hin|[]]]; [contradiction|].
      subst. apply Hn. left. reflexivity.
    + apply IH; [|exact Hl]. intro H. apply Hn. right. exact H.
Qed.

Lemma inv_issue : forall tr e s s0 c,
  Inv tr s -> read e = VIssue c -> core Repaired s (VIssue c) = Some s0 -> Inv (tr ++ [e]) (tick s0).
Proof.
  intros tr e s s0 c I Hr Hc.
  assert (Hc' := Hc). rewrite <- Hr in Hc'.
  destruct I as [Irun Inow Iwr Iprov Ilive Indp Iids Iauth Ichg It0 Isaved].
  cbn [core] in Hc. destruct (nmem c (s_used s)) eqn:Hu; [discriminate|]. inversion Hc; subst s0; clear Hc.
  apply nmem_false in Hu.
  assert (Hold : forall t c' ch, changed_at (tr ++ [e]) t c' ch -> changed_at tr t c' ch).
  { intros t c' ch H. apply changed_at_snoc in H. destruct H as [H|[_ H]]; [exact H|]. rewrite Hr in H. discriminate. }
  assert (Hnew : ~ In c (map c_id (s_cmds s))).
  { intro H. apply in_map_iff in H. destruct H as [x [Hx1 Hx2]]. apply Hu. rewrite <- Hx1. apply Iids. exact Hx2. }
  constructor; simp_s.
  - eapply run_step_snoc; eauto.
  - rewrite app_length. cbn. lia.
  - eapply writers_ok_frame; eauto; simp_s; try reflexivity.
    intros x w Hx Hst _ _. exists x. split; [apply in_or_app; auto|auto].
  - lia.
  - eapply live_ok_frame; eauto; simp_s; try tauto; try lia.
  - rewrite map_app. cbn. apply NoDup_snoc; assumption.
  - intros x Hx. apply in_app_or in Hx. destruct Hx as [Hx|[Hx|[]]].
    + specialize (Iids x Hx). split; [right; tauto|lia].
    + subst x. cbn. split; [left; reflexivity|lia].
  - intros t c' ch H. right. eauto.
  - intros t c' ch H Hb. apply Hold in H. destruct (Ichg t c' ch H Hb) as [x [Hx1 Hx2]].
    exists x. simp_s. split; [apply in_or_app; auto|auto].
  - intros t c' ch x H Hx Hid. apply Hold in H. apply in_app_or in Hx. destruct Hx as [Hx|[Hx|[]]].
    + eauto.
    + subst x. cbn in Hid. subst c'. exfalso. apply Hu. eauto.
  - intros x t ch Hx H. apply Hold in H. apply in_app_or in Hx. destruct Hx as [Hx|[Hx|[]]].
    + specialize (Isaved x t ch Hx H). unfold sbound in *. simp_s. exact Isaved.
    + subst x. cbn in *. apply Hu. eauto.
Qed.

Lemma find_writer_none : forall ws c w, find_writer ws c = None -> In w ws -> w_cmd w <> c.
Proof.
  intros ws c w H Hin Heq. unfold find_writer in H. eapply find_none in H; [|exact Hin].
  cbn in H. apply Nat.eqb_neq in H. contradiction.
Qed.

Lemma find_writer_some : forall ws c w, find_writer ws c = Some w -> In w ws /\ w_cmd w = c.
Proof.
  intros ws c w H. unfold find_writer in H. apply find_some in H. destruct H as [H1 H2].
  split; [exact H1|]. apply Nat.eqb_eq. exact H2.
Qed.

Lemma pb_ge_fst : forall ch p, fst p <= snd p -> fst p <= pb ch p.
Proof. intros [|] p H; cbn; lia. Qed.

Lemma inv_return : forall tr e s s0 c,
  Inv tr s -> read e = VReturn c -> core Repaired s (VReturn c) = Some s0 -> Inv (tr ++ [e]) (tick s0).
Proof.
  intros tr e s s0 c I Hr Hc.
  assert (Hc' := Hc). rewrite <- Hr in Hc'.
  destruct I as [Irun Inow Iwr Iprov Ilive Indp Iids Iauth Ichg It0 Isaved].
  cbn [core] in Hc. destruct (find_cmd (s_cmds s) c) as [x|] eqn:Hf; [|discriminate].
  destruct (find_writer (s_writers s) c) eqn:Hfw; [discriminate|].
  apply find_cmd_some in Hf. destruct Hf as [Hx Hxid].
  assert (Hst : c_st x <> CDirty) by (intro H; rewrite H in Hc; discriminate).
  assert (s0 = with_cmds s (del_cmd (s_cmds s) c) (s_used s)) by (destruct (c_st x); congruence).
  subst s0. clear Hc.
  assert (Hold : forall t c' ch, changed_at (tr ++ [e]) t c' ch -> changed_at tr t c' ch).
  { intros t c' ch H. apply changed_at_snoc in H. destruct H as [H|[_ H]]; [exact H|]. rewrite Hr in H. discriminate. }
  constructor; simp_s.
  - eapply run_step_snoc; eauto.
  - rewrite app_length. cbn. lia.
  - eapply writers_ok_frame; eauto; simp_s; try reflexivity.
    intros y w Hy Hyst Hw Hid. exists y. split; [|auto]. apply in_del_cmd. split; [exact Hy|].
    rewrite Hid. eapply find_writer_none; eauto.
  - lia.
  - eapply live_ok_frame; eauto; simp_s; try tauto; try lia.
  - unfold del_cmd. apply NoDup_map_filter. exact Indp.
  - intros y Hy. apply in_del_cmd in Hy. destruct Hy as [Hy _]. specialize (Iids y Hy). split; [tauto|lia].
  - intros t c' ch H. eauto.
  - intros t c' ch H Hb. apply Hold in H. destruct (Ichg t c' ch H Hb) as [y [Hy1 Hy2]].
    exists y. simp_s. split; [|exact Hy2]. apply in_del_cmd. split; [exact Hy1|].
    intro Heq. assert (y = x) by (eapply NoDup_ids_eq; eauto; congruence). subst y.
    rewrite <- Hy2 in H. specialize (Isaved x t ch Hx H). unfold sbound in Isaved. rewrite Hxid, Hfw in Isaved.
    pose proof (pb_ge_fst ch (s_prov s) (proj1 Iprov)).
    destruct (c_st x); [contradiction|congruence|lia].
  - intros t c' ch y H Hy Hid. apply Hold in H. apply in_del_cmd in Hy. destruct Hy as [Hy _]. eauto.
  - intros y t ch Hy H. apply Hold in H. apply in_del_cmd in Hy. destruct Hy as [Hy _].
    specialize (Isaved y t ch Hy H). unfold sbound in *. simp_s. exact Isaved.
Qed.

Lemma inv_change : forall tr e s s0 c ch g,
  Inv tr s -> sev_change (read e) = Some (c, ch) -> core Repaired s (read e) = Some s0 ->
  changing s c g = Some s0 -> Inv (tr ++ [e]) (tick s0).
Proof.
  intros tr e s s0 c ch g I Hr Hc' Hc.
  destruct I as [Irun Inow Iwr Iprov Ilive Indp Iids Iauth Ichg It0 Isaved].
  unfold changing in Hc. destruct (find_cmd (s_cmds s) c) as [x|] eqn:Hf; [|discriminate].
  apply find_cmd_some in Hf. destruct Hf as [Hx Hxid].
  assert (Hst : c_st x <> CSaved) by (intro H; rewrite H in Hc; discriminate).
  assert (s0 = with_cfg s g (set_cmd (s_cmds s) c CDirty)) by (destruct (c_st x); congruence).
  subst s0. clear Hc.
  assert (Hsplit : forall t c' ch', changed_at (tr ++ [e]) t c' ch' ->
                     changed_at tr t c' ch' \/ (t = length tr /\ c' = c /\ ch' = ch)).
  { intros t c' ch' H. apply changed_at_snoc in H. destruct H as [H|[Ht H]]; [auto|].
    right. rewrite Hr in H. inversion H. auto. }
  constructor; simp_s.
  - eapply run_step_snoc; eauto.
  - rewrite app_length. cbn. lia.
  - eapply writers_ok_frame; eauto; simp_s; try reflexivity.
    intros y w Hy Hyst Hw Hid.
    destruct (in_set_cmd_back (s_cmds s) c CDirty y Hy) as [z [Hz1 [Hz2 [_ Hz4]]]].
    exists z. split; [exact Hz1|]. split; [exact Hz2|].
    assert (c_id y <> c).
    { intro Heq. assert (y = x) by (eapply NoDup_ids_eq; eauto; congruence). subst y. contradiction. }
    rewrite (Hz4 H). exact Hyst.
  - lia.
  - eapply live_ok_frame; eauto; simp_s; try tauto; try lia.
  - rewrite set_cmd_ids. exact Indp.
  - intros y Hy. apply in_set_cmd in Hy. destruct Hy as [z [Hz [Hid [Ht0 _]]]]. rewrite Hid, Ht0.
    specialize (Iids z Hz). split; [tauto|lia].
  - intros t c' ch' H. apply Hsplit in H. destruct H as [H|[_ [Hc1 _]]]; [eauto|].
    subst c'. rewrite <- Hxid. apply Iids. exact Hx.
  - intros t c' ch' H Hb. apply Hsplit in H.
    assert (Hhas : has_cmd s c').
    { destruct H as [H|[_ [Hc1 _]]]; [eauto|]. subst c'. exists x. auto. }
    destruct Hhas as [y [Hy1 Hy2]].
    destruct (in_set_cmd_back (s_cmds s) c CDirty y Hy1) as [z [Hz1 [Hz2 _]]].
    exists z. simp_s. split; [exact Hz1|congruence].
  - intros t c' ch' y H Hy Hid. apply in_set_cmd in Hy. destruct Hy as [z [Hz [Hzid [Hzt0 _]]]].
    rewrite Hzt0. apply Hsplit in H. destruct H as [H|[Ht [Hc1 _]]].
    + eapply It0; eauto. congruence.
    + subst t. specialize (Iids z Hz). lia.
  - intros y t ch' Hy H. apply in_set_cmd in Hy. destruct Hy as [z [Hz [Hzid [Hzt0 Hcase]]]].
    destruct Hcase as [[Hzc Hyst]|[Hzc Hyz]].
    + rewrite Hyst. exact I.
    + subst y. apply Hsplit in H. destruct H as [H|[_ [Hc1 _]]]; [|contradiction].
      specialize (Isaved z t ch' Hz H). unfold sbound in *. simp_s. exact Isaved.
Qed.

Lemma length_zero_nil : forall A (l : list A), Nat.eqb (length l) 0 = true -> l = [].
Proof. intros A [|a l] H; [reflexivity|discriminate]. Qed.

Lemma inv_collect : forall tr e s s0 c svcs,
  Inv tr s -> read e = VCollect c svcs -> core Repaired s (VCollect c svcs) = Some s0 -> Inv (tr ++ [e]) (tick s0).
Proof.
  intros tr e s s0 c svcs I Hr Hc.
  assert (Hc' := Hc). rewrite <- Hr in Hc'.
  destruct I as [Irun Inow Iwr Iprov Ilive Indp Iids Iauth Ichg It0 Isaved].
  cbn [core] in Hc. destruct (find_cmd (s_cmds s) c) as [x|] eqn:Hf; [|discriminate].
  destruct (find_writer (s_writers s) c) eqn:Hfw; [discriminate|].
  apply find_cmd_some in Hf. destruct Hf as [Hx Hxid].
  assert (Hst : c_st x <> CSaved) by (intro H; rewrite H in Hc; discriminate).
  destruct (negb (nlist_eqb (sort_ids svcs) (g_set (s_cfg s)))) eqn:Hsorted; [destruct (c_st x); discriminate|].
  destruct (negb (Nat.eqb (length (s_writers s)) 0)) eqn:Hlen; [destruct (c_st x); discriminate|].
  apply negb_false_iff in Hlen. apply length_zero_nil in Hlen.
  assert (s0 = with_disk s (s_live s) (s_prov s) (s_temp s)
                         (mkW c PCollected (g_set (s_cfg s)) (s_now s) 0 0 true :: s_writers s)
                         (set_cmd (s_cmds s) c CSaved) (s_done s)) by (destruct (c_st x); congruence).
  subst s0. clear Hc. rewrite Hlen in *.
  assert (Hold : forall t c' ch, changed_at (tr ++ [e]) t c' ch -> changed_at tr t c' ch).
  { intros t c' ch H. apply changed_at_snoc in H. destruct H as [H|[_ H]]; [exact H|]. rewrite Hr in H. discriminate. }
  constructor; simp_s.
  - eapply run_step_snoc; eauto.
  - rewrite app_length. cbn. lia.
  - right. eexists. split; [reflexivity|]. unfold writer_ok. simp_s. cbn [w_cmd w_k1 w_set w_phase w_k2 w_objs].
    repeat split; try lia; try discriminate.
    + destruct (in_set_cmd_back (s_cmds s) c CSaved x Hx) as [z [Hz1 [Hz2 [Hz3 _]]]].
      exists z. repeat split; auto. congruence.
    + exists s. split; [|reflexivity]. rewrite Inow, firstn_snoc_all. exact Irun.
  - lia.
  - eapply live_ok_frame; eauto; simp_s; try tauto; try lia.
  - rewrite set_cmd_ids. exact Indp.
  - intros y Hy. apply in_set_cmd in Hy. destruct Hy as [z [Hz [Hid [Ht0 _]]]]. rewrite Hid, Ht0.
    specialize (Iids z Hz). split; [tauto|lia].
  - intros t c' ch' H. eauto.
  - intros t c' ch' H Hb. apply Hold in H. destruct (Ichg t c' ch' H Hb) as [y [Hy1 Hy2]].
    destruct (in_set_cmd_back (s_cmds s) c CSaved y Hy1) as [z [Hz1 [Hz2 _]]].
    exists z. simp_s. split; [exact Hz1|congruence].
  - intros t c' ch' y H Hy Hid. apply Hold in H. apply in_set_cmd in Hy. destruct Hy as [z [Hz [Hzid [Hzt0 _]]]].
    rewrite Hzt0. eapply It0; eauto. congruence.
  - intros y t ch' Hy H. apply Hold in H. apply in_set_cmd in Hy. destruct Hy as [z [Hz [Hzid [Hzt0 Hcase]]]].
    unfold sbound. simp_s. cbn [find_writer find w_cmd].
    destruct Hcase as [[Hzc Hyst]|[Hzc Hyz]].
    + rewrite Hyst, Hzid, Hzc, Nat.eqb_refl. cbn [w_k1]. apply changed_at_lt in H. lia.
    + subst y. assert (E : Nat.eqb c (c_id z) = false) by (apply Nat.eqb_neq; congruence). rewrite E.
      specialize (Isaved z t ch' Hz H). unfold sbound in Isaved. rewrite Hlen in Isaved. cbn in Isaved. exact Isaved.
Qed.

(** in the repaired view the writer found is the only one *)
Lemma sole_writer : forall tr s c w, writers_ok tr s -> find_writer (s_writers s) c = Some w ->
  s_writers s = [w] /\ w_cmd w = c /\ writer_ok tr s w.
Proof.
  intros tr s c w [H|[w0 [H Hok]]] Hf; rewrite H in Hf; [discriminate|].
  apply find_writer_some in Hf. destruct Hf as [[Hin|[]] Hid]. subst w0. auto.
Qed.

Lemma put_sole : forall w w', w_cmd w' = w_cmd w -> put_writer [w] w' = [w'].
Proof.
  intros w w' H. unfold put_writer, del_writer. cbn. rewrite H, Nat.eqb_refl. reflexivity.
Qed.

Lemma del_sole : forall w, del_writer [w] (w_cmd w) = [].
Proof. intros w. unfold del_writer. cbn. rewrite Nat.eqb_refl. reflexivity. Qed.

Lemma sbound_same : forall s s' w w', s_writers s = [w] -> s_writers s' = [w'] ->
  w_cmd w' = w_cmd w -> w_k1 w' = w_k1 w -> s_prov s' = s_prov s -> forall c, sbound s' c = sbound s c.
Proof.
  intros s s' w w' H H' Hc Hk Hp c. unfold sbound. rewrite H, H', Hp. cbn. rewrite Hc.
  destruct (Nat.eqb (w_cmd w) c); cbn; congruence.
Qed.

(** create and write: the section moves on, nothing else changes *)
Lemma inv_section_step : forall tr e s s0 w w' tmp,
  Inv tr s -> sev_change (read e) = None -> core Repaired s (read e) = Some s0 ->
  s_writers s = [w] -> writer_ok tr s w ->
  s0 = with_disk s (s_live s) (s_prov s) tmp [w'] (s_cmds s) (s_done s) ->
  w_cmd w' = w_cmd w -> w_k1 w' = w_k1 w -> w_set w' = w_set w -> w_phase w <> PWritten ->
  (w_phase w' = PWritten ->
     w_k2 w' = s_now s /\ tmp = Some (Some (content_of w')) /\ w_objs w' = g_objs (s_cfg s)) ->
  Inv (tr ++ [e]) (tick s0).
Proof.
  intros tr e s s0 w w' tmp I Hq Hc Hws Hok Hs0 Hcmd Hk1 Hset Hph Hwr.
  destruct I as [Irun Inow Iwr Iprov Ilive Indp Iids Iauth Ichg It0 Isaved].
  assert (Hold : forall t c' ch, changed_at (tr ++ [e]) t c' ch -> changed_at tr t c' ch).
  { intros t c' ch H. apply changed_at_snoc in H. destruct H as [H|[_ H]]; [exact H|congruence]. }
  subst s0. constructor; simp_s.
  - eapply run_step_snoc; eauto.
  - rewrite app_length. cbn. lia.
  - right. exists w'. split; [reflexivity|].
    destruct Hok as [[x [Hx1 [Hx2 Hx3]]] [Hlt [Hp [[s1 [Hs1 Hs1set]] Hw]]]].
    unfold writer_ok. simp_s. rewrite Hcmd, Hk1, Hset. repeat split; try lia.
    + exists x. auto.
    + exists s1. split; [|exact Hs1set]. rewrite prefix_old by lia. exact Hs1.
    + apply Hwr in H. tauto.
    + apply Hwr in H. destruct H as [Hk2 [_ Ho]]. exists s. split; [|exact Ho].
      rewrite Hk2, Inow, firstn_snoc_all. exact Irun.
  - lia.
  - eapply live_ok_frame; eauto; simp_s; try tauto; try lia.
  - exact Indp.
  - intros y Hy. specialize (Iids y Hy). split; [tauto|lia].
  - intros t c' ch' H. eauto.
  - intros t c' ch' H Hb. apply Hold in H. destruct (Ichg t c' ch' H Hb) as [y [Hy1 Hy2]]. exists y. auto.
  - intros t c' ch' y H Hy Hid. apply Hold in H. eauto.
  - intros y t ch' Hy H. apply Hold in H. specialize (Isaved y t ch' Hy H).
    erewrite sbound_same; [exact Isaved|exact Hws|reflexivity|exact Hcmd|exact Hk1|reflexivity].
Qed.

Lemma inv_create : forall tr e s s0 c,
  Inv tr s -> read e = VCreate c -> core Repaired s (VCreate c) = Some s0 -> Inv (tr ++ [e]) (tick s0).
Proof.
  intros tr e s s0 c I Hr Hc.
  assert (Hc' := Hc). rewrite <- Hr in Hc'.
  cbn [core] in Hc. destruct (find_writer (s_writers s) c) as [w|] eqn:Hfw; [|discriminate].
  destruct (sole_writer tr s c w (i_wr _ _ I) Hfw) as [Hws [Hwc Hok]].
  destruct (w_phase w) eqn:Hph; try discriminate. injection Hc as Hs0. symmetry in Hs0.
  rewrite Hws, put_sole in Hs0 by (cbn; congruence).
  eapply inv_section_step; eauto; try (rewrite Hr; reflexivity); try (cbn; congruence).
Qed.

Lemma inv_write : forall tr e s s0 c,
  Inv tr s -> read e = VWrite c -> core Repaired s (VWrite c) = Some s0 -> Inv (tr ++ [e]) (tick s0).
Proof.
  intros tr e s s0 c I Hr Hc.
  assert (Hc' := Hc). rewrite <- Hr in Hc'.
  cbn [core] in Hc. destruct (find_writer (s_writers s) c) as [w|] eqn:Hfw; [|discriminate].
  destruct (sole_writer tr s c w (i_wr _ _ I) Hfw) as [Hws [Hwc Hok]].
  destruct (w_phase w) eqn:Hph; try discriminate. injection Hc as Hs0. symmetry in Hs0.
  rewrite Hws, put_sole in Hs0 by (cbn; congruence).
  eapply inv_section_step; eauto; try (rewrite Hr; reflexivity); try (cbn; congruence).
Qed.

Lemma inv_rename : forall tr e s s0 c,
  Inv tr s -> read e = VRename c -> core Repaired s (VRename c) = Some s0 -> Inv (tr ++ [e]) (tick s0).
Proof.
  intros tr e s s0 c I Hr Hc.
  assert (Hc' := Hc). rewrite <- Hr in Hc'.
  cbn [core] in Hc. destruct (find_writer (s_writers s) c) as [w|] eqn:Hfw; [|discriminate].
  destruct (sole_writer tr s c w (i_wr _ _ I) Hfw) as [Hws [Hwc Hok]].
  destruct (w_phase w) eqn:Hph; try discriminate. injection Hc as Hs0. symmetry in Hs0.
  rewrite Hws, <- Hwc, del_sole in Hs0.
  destruct I as [Irun Inow Iwr Iprov Ilive Indp Iids Iauth Ichg It0 Isaved].
  destruct Hok as [[x [Hx1 [Hx2 Hx3]]] [Hlt [Hp [[s1 [Hs1 Hs1set]] Hw]]]].
  destruct (Hw Hph) as [Hk12 [Hk2 [Htmp [s2 [Hs2 Hobjs]]]]].
  assert (Hold : forall t c' ch, changed_at (tr ++ [e]) t c' ch -> changed_at tr t c' ch).
  { intros t c' ch H. apply changed_at_snoc in H. destruct H as [H|[_ H]]; [exact H|]. rewrite Hr in H. discriminate. }
  subst s0. constructor; simp_s.
  - eapply run_step_snoc; eauto.
  - rewrite app_length. cbn. lia.
  - left. reflexivity.
  - lia.
  - unfold live_ok. simp_s. split; [left; reflexivity|].
    exists s1, s2. rewrite !prefix_old by lia. repeat split; auto.
    unfold content_of. congruence.
  - exact Indp.
  - intros y Hy. specialize (Iids y Hy). split; [tauto|lia].
  - intros t c' ch' H. eauto.
  - intros t c' ch' H Hb. apply Hold in H.
    assert (Hb' : pb ch' (s_prov s) <= t) by (destruct ch'; cbn in *; lia).
    destruct (Ichg t c' ch' H Hb') as [y [Hy1 Hy2]]. exists y. auto.
  - intros t c' ch' y H Hy Hid. apply Hold in H. eauto.
  - intros y t ch' Hy H. apply Hold in H. specialize (Isaved y t ch' Hy H).
    unfold sbound in *. simp_s. cbn [find_writer find]. rewrite Hws in Isaved. cbn [find_writer find] in Isaved.
    destruct (c_st y); auto. destruct (Nat.eqb (w_cmd w) (c_id y)); lia.
Qed.

Theorem inv_step : forall tr e s s', Inv tr s -> snap_step Repaired s e = Some s' -> Inv (tr ++ [e]) s'.
Proof.
  intros tr e s s' I H. unfold snap_step in H.
  destruct (core Repaired s (read e)) as [s0|] eqn:Hc; [|discriminate]. injection H as H. subst s'.
  destruct (read e) eqn:Hr.
  - (* name *) assert (Hq : sev_change (read e) = None) by (rewrite Hr; reflexivity).
    pose proof Hc as Hc2. rewrite <- Hr in Hc. cbn [core] in Hc2. injection Hc2 as Hc2.
    eapply inv_quiet; eauto; subst s0; reflexivity.
  - eapply inv_issue; eauto.
  - eapply inv_return; eauto.
  - (* install *) pose proof Hc as Hc2. cbn [core] in Hc2.
    destruct (nget (s_names s) svc) as [nm|]; [|discriminate].
    eapply inv_change; eauto; rewrite Hr; [reflexivity|exact Hc].
  - eapply inv_change; eauto; rewrite Hr; [reflexivity|exact Hc].
  - eapply inv_change; eauto; rewrite Hr; [reflexivity|exact Hc].
  - eapply inv_collect; eauto.
  - eapply inv_create; eauto.
  - eapply inv_write; eauto.
  - eapply inv_rename; eauto.
  - (* skip *) assert (Hq : sev_change (read e) = None) by (rewrite Hr; reflexivity).
    pose proof Hc as Hc2. rewrite <- Hr in Hc. cbn [core] in Hc2. injection Hc2 as Hc2.
    eapply inv_quiet; eauto; subst s0; reflexivity.
  - discriminate.
Qed.

Theorem inv_run : forall tr s, snap_run Repaired tr = Some s -> Inv tr s.
Proof.
  intros tr. induction tr as [|e tr IH] using rev_ind; intros s H.
  - cbn in H. injection H as H. subst s. exact inv_init.
  - unfold snap_run in H. apply run_snoc_inv in H. destruct H as [s1 [H1 H2]].
    eapply inv_step; [apply IH; exact H1|exact H2].
Qed.

(** ** Between two instants without a change, the component is the same *)

Definition same (ch : chg) (a b : cfg) : Prop :=
  match ch with ChSet => g_set a = g_set b | ChObj => g_objs a = g_objs b end.

Lemma changing_cfg : forall s c g s', changing s c g = Some s' -> s_cfg s' = g.
Proof.
  intros s c g s' H. unfold changing in H. destruct (find_cmd (s_cmds s) c) as [x|]; [|discriminate].
  destruct (c_st x); try discriminate; injection H as H; subst s'; reflexivity.
Qed.

Lemma step_same : forall v s e s' ch, snap_step v s e = Some s' ->
  (forall c, sev_change (read e) <> Some (c, ch)) -> same ch (s_cfg s) (s_cfg s').
Proof.
  intros v s e s' ch H Hn. unfold snap_step in H.
  destruct (core v s (read e)) as [s0|] eqn:Hc; [|discriminate]. injection H as H. subst s'.
  assert (Hrefl : same ch (s_cfg s) (s_cfg s)) by (destruct ch; reflexivity).
  cbn [tick s_cfg].
  destruct (read e) eqn:Hr; cbn [core] in Hc.
  - injection Hc as Hc. subst s0. exact Hrefl.
  - destruct (nmem c (s_used s)); [discriminate|]. injection Hc as Hc. subst s0. exact Hrefl.
  - destruct (find_cmd (s_cmds s) c) as [x|]; [|discriminate].
    destruct (find_writer (s_writers s) c); [discriminate|].
    destruct (c_st x); try discriminate; injection Hc as Hc; subst s0; exact Hrefl.
  - destruct (nget (s_names s) svc); [|discriminate]. apply changing_cfg in Hc. rewrite Hc.
    destruct ch; [exfalso; eapply Hn; reflexivity|reflexivity].
  - apply changing_cfg in Hc. rewrite Hc. destruct ch; [exfalso; eapply Hn; reflexivity|reflexivity].
  - apply changing_cfg in Hc. rewrite Hc. destruct ch; [reflexivity|exfalso; eapply Hn; reflexivity].
  - destruct (find_cmd (s_cmds s) c) as [x|]; [|discriminate].
    destruct (find_writer (s_writers s) c); [discriminate|].
    destruct (c_st x); try discriminate;
      (destruct (negb (nlist_eqb (sort_ids svcs) (g_set (s_cfg s)))); [discriminate|]);
      (destruct (match v with Pinned => false | Repaired => negb (Nat.eqb (length (s_writers s)) 0) end); [discriminate|]);
      injection Hc as Hc; subst s0; exact Hrefl.
  - destruct (find_writer (s_writers s) c) as [w|]; [|discriminate].
    destruct (w_phase w); try discriminate. destruct v; injection Hc as Hc; subst s0; exact Hrefl.
  - destruct (find_writer (s_writers s) c) as [w|]; [|discriminate].
    destruct (w_phase w); try discriminate. destruct v; injection Hc as Hc; subst s0; exact Hrefl.
  - destruct v; [discriminate|]. destruct (find_writer (s_writers s) c) as [w|]; [|discriminate].
    destruct (w_phase w); try discriminate. injection Hc as Hc; subst s0; exact Hrefl.
  - injection Hc as Hc. subst s0. exact Hrefl.
  - discriminate.
Qed.

Lemma same_trans : forall ch a b c, same ch a b -> same ch b c -> same ch a c.
Proof. intros [|] a b c; cbn; congruence. Qed.

Lemma run_same : forall v ch seg s s', run (snap_step v) s seg = Some s' ->
  (forall e c, In e seg -> sev_change (read e) <> Some (c, ch)) -> same ch (s_cfg s) (s_cfg s').
Proof.
  intros v ch seg. induction seg as [|e seg IH]; intros s s' H Hn.
  - cbn in H. injection H as H. subst s'. destruct ch; reflexivity.
  - cbn [run] in H. destruct (snap_step v s e) as [s1|] eqn:Hs; [|discriminate].
    eapply same_trans.
    + eapply step_same; [exact Hs|]. intros c. apply Hn. left. reflexivity.
    + apply IH; [exact H|]. intros e' c Hin. apply Hn. right. exact Hin.
Qed.

Lemma firstn_split : forall A (l : list A) a b, a <= b -> firstn b l = firstn a l ++ firstn (b - a) (skipn a l).
Proof.
  intros A l a. revert l. induction a as [|a IH]; intros l b H.
  - cbn. rewrite Nat.sub_0_r. reflexivity.
  - destruct b as [|b]; [lia|]. destruct l as [|x l]; cbn; [destruct (b - a); reflexivity|].
    f_equal. apply IH. lia.
Qed.

Lemma nth_error_firstn_some : forall A (l : list A) n j x,
  nth_error (firstn n l) j = Some x -> j < n /\ nth_error l j = Some x.
Proof.
  intros A l n. revert l. induction n as [|n IH]; intros l j x H.
  - cbn in H. destruct j; discriminate.
  - destruct l as [|y l]; [destruct j; discriminate|]. destruct j as [|j]; cbn in *.
    + split; [lia|exact H].
    + apply IH in H. split; [lia|tauto].
Qed.

Lemma nth_error_skipn' : forall A (l : list A) a j, nth_error (skipn a l) j = nth_error l (a + j).
Proof.
  intros A l a. revert l. induction a as [|a IH]; intros l j; [reflexivity|].
  destruct l as [|y l]; cbn; [destruct j; reflexivity|apply IH].
Qed.

Lemma stable_between : forall v tr a b sa sb ch, a <= b ->
  snap_run v (firstn a tr) = Some sa -> snap_run v (firstn b tr) = Some sb ->
  (forall t c, a <= t < b -> ~ changed_at tr t c ch) -> same ch (s_cfg sa) (s_cfg sb).
Proof.
  intros v tr a b sa sb ch Hab Ha Hb Hn. unfold snap_run in *.
  rewrite (firstn_split _ tr a b Hab), run_app, Ha in Hb.
  eapply run_same; [exact Hb|]. intros e c Hin Hchg.
  apply In_nth_error in Hin. destruct Hin as [j Hj]. apply nth_error_firstn_some in Hj.
  destruct Hj as [Hlt Hj]. rewrite nth_error_skipn' in Hj.
  apply (Hn (a + j) c); [lia|]. exists e. auto.
Qed.

(** ** The C12 statements *)

(** no change of component [ch] since [pb ch prov] except by commands still in
    progress, each of which started after the window start *)
Lemma no_change_before_window : forall tr s ch t c,
  Inv tr s -> pb ch (s_prov s) <= t -> t < wstart s -> ~ changed_at tr t c ch.
Proof.
  intros tr s ch t c I Hb Hw H.
  destruct (i_chg _ _ I t c ch H Hb) as [x [Hx Hid]].
  pose proof (i_t0 _ _ I t c ch x H Hx Hid). pose proof (wstart_le s x Hx). lia.
Qed.

Lemma cfg_eta : forall a b, g_set a = g_set b -> g_objs a = g_objs b -> a = b.
Proof. intros [a1 a2] [b1 b2]; cbn; intros; subst; reflexivity. Qed.

Theorem crash_atomic : forall tr s, snap_run Repaired tr = Some s ->
  match s_live s with
  | DAbsent => s_done s = []
  | DFile x =>
    In x (s_done s) /\
    exists i j si sj, wstart s <= i /\ i <= j /\ j <= length tr /\
      snap_run Repaired (firstn i tr) = Some si /\ snap_run Repaired (firstn j tr) = Some sj /\
      x = mkCfg (g_set (s_cfg si)) (g_objs (s_cfg sj))
  | _ => False
  end.
Proof.
  intros tr s Hrun. pose proof (inv_run tr s Hrun) as I.
  pose proof (i_live _ _ I) as Hl. unfold live_ok in Hl. destruct (s_live s) as [| | |x]; try tauto.
  destruct Hl as [Hin [s1 [s2 [H1 [H2 Hx]]]]]. split; [exact Hin|].
  pose proof (i_prov _ _ I) as [Hp1 Hp2]. pose proof (i_now _ _ I) as Hnow.
  pose proof (wstart_le_now s) as Hw.
  set (i := Nat.max (fst (s_prov s)) (wstart s)). set (j := Nat.max (snd (s_prov s)) (wstart s)).
  destruct (run_prefix _ _ tr snap_init s i Hrun) as [si Hsi].
  destruct (run_prefix _ _ tr snap_init s j Hrun) as [sj Hsj].
  exists i, j, si, sj. repeat split; try (unfold i, j; lia); auto.
  assert (E1 : same ChSet (s_cfg s1) (s_cfg si)).
  { eapply stable_between; [|exact H1|exact Hsi|]; [unfold i; lia|].
    intros t c Ht. eapply no_change_before_window; eauto; cbn; unfold i in Ht; lia. }
  assert (E2 : same ChObj (s_cfg s2) (s_cfg sj)).
  { eapply stable_between; [|exact H2|exact Hsj|]; [unfold j; lia|].
    intros t c Ht. eapply no_change_before_window; eauto; cbn; unfold j in Ht; lia. }
  cbn in E1, E2. rewrite Hx. rewrite E1, E2. reflexivity.
Qed.

(** the same at every crash point of an accepted trace *)
Theorem crash_atomic_prefix : forall tr s k, snap_run Repaired tr = Some s ->
  exists sk, snap_run Repaired (firstn k tr) = Some sk /\
  match s_live sk with
  | DAbsent => s_done sk = []
  | DFile x =>
    In x (s_done sk) /\
    exists i j si sj, wstart sk <= i /\ i <= j /\ j <= length (firstn k tr) /\
      snap_run Repaired (firstn i tr) = Some si /\ snap_run Repaired (firstn j tr) = Some sj /\
      x = mkCfg (g_set (s_cfg si)) (g_objs (s_cfg sj))
  | _ => False
  end.
Proof.
  intros tr s k Hrun. destruct (run_prefix _ _ tr snap_init s k Hrun) as [sk Hsk].
  exists sk. split; [exact Hsk|]. pose proof (crash_atomic _ _ Hsk) as H.
  destruct (s_live sk) as [| | |x]; auto. destruct H as [Hin [i [j [si [sj [H1 [H2 [H3 [H4 [H5 H6]]]]]]]]]].
  split; [exact Hin|]. exists i, j, si, sj. repeat split; auto.
  - rewrite firstn_firstn in H4. replace (Nat.min i k) with i in H4; [exact H4|].
    rewrite firstn_length in H3. lia.
  - rewrite firstn_firstn in H5. replace (Nat.min j k) with j in H5; [exact H5|].
    rewrite firstn_length in H3. lia.
Qed.

Theorem current_after_return : forall tr s, snap_run Repaired tr = Some s -> s_cmds s = [] ->
  s_live s = DFile (s_cfg s) \/ (s_live s = DAbsent /\ s_cfg s = cfg0).
Proof.
  intros tr s Hrun Hc. pose proof (inv_run tr s Hrun) as I.
  pose proof (i_prov _ _ I) as [Hp1 Hp2]. pose proof (i_now _ _ I) as Hnow.
  assert (Hall : snap_run Repaired (firstn (length tr) tr) = Some s) by (rewrite firstn_all; exact Hrun).
  assert (Hnone : forall ch t c, pb ch (s_prov s) <= t -> ~ changed_at tr t c ch).
  { intros ch t c Hb H. destruct (i_chg _ _ I t c ch H Hb) as [x [Hx _]]. rewrite Hc in Hx. contradiction. }
  pose proof (i_live _ _ I) as Hl. unfold live_ok in Hl. destruct (s_live s) as [| | |x]; try tauto.
  - right. split; [reflexivity|]. destruct Hl as [_ Hp]. rewrite Hp in Hnone.
    assert (E : forall ch, same ch (s_cfg snap_init) (s_cfg s)).
    { intro ch. eapply (stable_between Repaired tr 0 (length tr)); [lia|reflexivity|exact Hall|].
      intros t c _. apply Hnone. destruct ch; cbn; lia. }
    pose proof (E ChSet) as E1. pose proof (E ChObj) as E2. cbn in E1, E2.
    apply cfg_eta; cbn; congruence.
  - left. destruct Hl as [_ [s1 [s2 [H1 [H2 Hx]]]]]. f_equal. rewrite Hx.
    assert (E1 : same ChSet (s_cfg s1) (s_cfg s)).
    { eapply stable_between; [|exact H1|exact Hall|]; [lia|]. intros t c Ht. apply Hnone. cbn. lia. }
    assert (E2 : same ChObj (s_cfg s2) (s_cfg s)).
    { eapply stable_between; [|exact H2|exact Hall|]; [lia|]. intros t c Ht. apply Hnone. cbn. lia. }
    cbn in E1, E2. apply cfg_eta; cbn; congruence.
Qed.

Theorem serialised : forall tr s, snap_run Repaired tr = Some s -> length (s_writers s) <= 1.
Proof.
  intros tr s Hrun. destruct (i_wr _ _ (inv_run tr s Hrun)) as [H|[w [H _]]]; rewrite H; cbn; lia.
Qed.

(** a snapshot step of a command is accepted only when no other command is
    inside its collect…rename section *)
Theorem serialised_steps : forall tr e s s' c, snap_run Repaired tr = Some s -> snap_step Repaired s e = Some s' ->
  (exists svcs, read e = VCollect c svcs) \/ read e = VCreate c \/ read e = VWrite c \/ read e = VRename c ->
  forall w, In w (s_writers s) -> w_cmd w = c /\ s_writers s = [w] /\ (forall svcs, read e <> VCollect c svcs).
Proof.
  intros tr e s s' c Hrun Hstep Hk w Hw. pose proof (inv_run tr s Hrun) as I.
  destruct (i_wr _ _ I) as [H|[w0 [H _]]]; rewrite H in Hw; [contradiction|].
  destruct Hw as [Hw|[]]. subst w0. unfold snap_step in Hstep.
  destruct (core Repaired s (read e)) as [s0|] eqn:Hc; [|discriminate].
  destruct Hk as [[svcs Hr]|[Hr|[Hr|Hr]]]; rewrite Hr in Hc; cbn [core] in Hc.
  - exfalso. destruct (find_cmd (s_cmds s) c) as [x|]; [|discriminate].
    destruct (find_writer (s_writers s) c); [discriminate|]. rewrite H in Hc. cbn in Hc.
    destruct (c_st x); try discriminate; destruct (negb (nlist_eqb (sort_ids svcs) (g_set (s_cfg s)))); discriminate.
  - destruct (find_writer (s_writers s) c) as [w1|] eqn:Hf; [|discriminate].
    rewrite H in Hf. apply find_writer_some in Hf. destruct Hf as [[Hf|[]] Hid]. subst w1.
    repeat split; auto. intros svcs. rewrite Hr. discriminate.
  - destruct (find_writer (s_writers s) c) as [w1|] eqn:Hf; [|discriminate].
    rewrite H in Hf. apply find_writer_some in Hf. destruct Hf as [[Hf|[]] Hid]. subst w1.
    repeat split; auto. intros svcs. rewrite Hr. discriminate.
  - destruct (find_writer (s_writers s) c) as [w1|] eqn:Hf; [|discriminate].
    rewrite H in Hf. apply find_writer_some in Hf. destruct Hf as [[Hf|[]] Hid]. subst w1.
    repeat split; auto. intros svcs. rewrite Hr. discriminate.
Qed.

(** live is current as soon as every command in progress has either changed
    nothing yet or completed its snapshot *)
Theorem current_when_saved : forall tr s, snap_run Repaired tr = Some s ->
  (forall x, In x (s_cmds s) -> c_st x = CFresh \/ (c_st x = CSaved /\ find_writer (s_writers s) (c_id x) = None)) ->
  s_live s = DFile (s_cfg s) \/ (s_live s = DAbsent /\ s_cfg s = cfg0).
Proof.
  intros tr s Hrun Hc. pose proof (inv_run tr s Hrun) as I.
  pose proof (i_prov _ _ I) as [Hp1 Hp2]. pose proof (i_now _ _ I) as Hnow.
  assert (Hall : snap_run Repaired (firstn (length tr) tr) = Some s) by (rewrite firstn_all; exact Hrun).
  assert (Hnone : forall ch t c, pb ch (s_prov s) <= t -> ~ changed_at tr t c ch).
  { intros ch t c Hb H. destruct (i_chg _ _ I t c ch H Hb) as [x [Hx Hid]]. subst c.
    pose proof (i_saved _ _ I x t ch Hx H) as Hs. unfold sbound in Hs.
    pose proof (pb_ge_fst ch (s_prov s) Hp1).
    destruct (Hc x Hx) as [Hf|[Hsv Hnw]]; [rewrite Hf in Hs; exact Hs|]. rewrite Hsv, Hnw in Hs. lia. }
  pose proof (i_live _ _ I) as Hl. unfold live_ok in Hl. destruct (s_live s) as [| | |x]; try tauto.
  - right. split; [reflexivity|]. destruct Hl as [_ Hp]. rewrite Hp in Hnone.
    assert (E : forall ch, same ch (s_cfg snap_init) (s_cfg s)).
    { intro ch. eapply (stable_between Repaired tr 0 (length tr)); [lia|reflexivity|exact Hall|].
      intros t c _. apply Hnone. destruct ch; cbn; lia. }
    pose proof (E ChSet) as E1. pose proof (E ChObj) as E2. cbn in E1, E2.
    apply cfg_eta; cbn; congruence.
  - left. destruct Hl as [_ [s1 [s2 [H1 [H2 Hx]]]]]. f_equal. rewrite Hx.
    assert (E1 : same ChSet (s_cfg s1) (s_cfg s)).
    { eapply stable_between; [|exact H1|exact Hall|]; [lia|]. intros t c Ht. apply Hnone. cbn. lia. }
    assert (E2 : same ChObj (s_cfg s2) (s_cfg s)).
    { eapply stable_between; [|exact H2|exact Hall|]; [lia|]. intros t c Ht. apply Hnone. cbn. lia. }
    cbn in E1, E2. apply cfg_eta; cbn; congruence.
Qed.

(** a live snapshot written before the oldest command in progress was issued
    is the configuration that was in force when it was issued *)
Theorem before_window : forall tr s y, snap_run Repaired tr = Some s -> s_live s = DFile y ->
  snd (s_prov s) <= wstart s ->
  exists sw, snap_run Repaired (firstn (wstart s) tr) = Some sw /\ y = s_cfg sw.
Proof.
  intros tr s y Hrun Hy Hb. pose proof (inv_run tr s Hrun) as I.
  pose proof (i_live _ _ I) as Hl. unfold live_ok in Hl. rewrite Hy in Hl.
  destruct Hl as [_ [s1 [s2 [H1 [H2 Hx]]]]].
  pose proof (i_prov _ _ I) as [Hp1 Hp2].
  destruct (run_prefix _ _ tr snap_init s (wstart s) Hrun) as [sw Hsw]. exists sw. split; [exact Hsw|].
  assert (E1 : same ChSet (s_cfg s1) (s_cfg sw)).
  { eapply stable_between; [|exact H1|exact Hsw|]; [lia|].
    intros t c Ht. eapply no_change_before_window; eauto; cbn; lia. }
  assert (E2 : same ChObj (s_cfg s2) (s_cfg sw)).
  { eapply stable_between; [|exact H2|exact Hsw|]; [lia|].
    intros t c Ht. eapply no_change_before_window; eauto; cbn; lia. }
  cbn in E1, E2. rewrite Hx. apply cfg_eta; cbn; congruence.
Qed.

(** ** Commands one at a time *)

Definition one_at_a_time (tr : trace) : Prop :=
  forall k sk, snap_run Repaired (firstn k tr) = Some sk -> length (s_cmds sk) <= 1.

Definition seq_ok (s : sstate) : Prop :=
  forall x, s_cmds s = [x] ->
    snd (s_prov s) <= c_t0 x \/ (c_st x = CSaved /\ find_writer (s_writers s) (c_id x) = None).

Lemma set_cmd_single : forall cs c st y, set_cmd cs c st = [y] ->
  exists x, cs = [x] /\ c_id y = c_id x /\ c_t0 y = c_t0 x /\ (c_id x = c -> c_st y = st) /\ (c_id x <> c -> y = x).
Proof.
  intros [|x [|x2 cs]] c st y H; try discriminate. exists x. split; [reflexivity|].
  cbn in H. injection H as H. destruct (Nat.eqb (c_id x) c) eqn:E; subst y; cbn.
  - apply Nat.eqb_eq in E. repeat split; auto. intro; contradiction.
  - apply Nat.eqb_neq in E. repeat split; auto. intro; contradiction.
Qed.

Lemma owner_single : forall tr s w x, writers_ok tr s -> In w (s_writers s) -> s_cmds s = [x] ->
  c_id x = w_cmd w /\ c_st x = CSaved.
Proof.
  intros tr s w x [H|[w0 [H Hok]]] Hw Hc; rewrite H in Hw; [contradiction|].
  destruct Hw as [Hw|[]]. subst w0. destruct Hok as [[y [Hy1 [Hy2 Hy3]]] _].
  rewrite Hc in Hy1. destruct Hy1 as [Hy1|[]]. subst y. auto.
Qed.

Lemma seq_step : forall tr e s s', Inv tr s -> seq_ok s -> length (s_cmds s) <= 1 ->
  snap_step Repaired s e = Some s' -> seq_ok s'.
Proof.
  intros tr e s s' I S Hlen H. unfold snap_step in H.
  destruct (core Repaired s (read e)) as [s0|] eqn:Hc; [|discriminate]. injection H as H. subst s'.
  pose proof (i_prov _ _ I) as [Hp1 Hp2].
  unfold seq_ok. intros x' Hx'. simp_s.
  destruct (read e) eqn:Hr; cbn [core] in Hc.
  - injection Hc as Hc. subst s0. simp_s. apply S. exact Hx'.
  - destruct (nmem c (s_used s)); [discriminate|]. injection Hc as Hc. subst s0. simp_s.
    destruct (s_cmds s) as [|a l]; cbn in Hx'.
    + injection Hx' as Hx'. subst x'. cbn. left. lia.
    + destruct l; cbn in Hx'; discriminate.
  - destruct (find_cmd (s_cmds s) c) as [x|] eqn:Hf; [|discriminate].
    destruct (find_writer (s_writers s) c); [discriminate|].
    assert (s0 = with_cmds s (del_cmd (s_cmds s) c) (s_used s)) by (destruct (c_st x); congruence).
    subst s0. simp_s. apply find_cmd_some in Hf. destruct Hf as [Hin Hid].
    destruct (s_cmds s) as [|a [|b l]]; cbn in Hlen; try lia; [contradiction|].
    destruct Hin as [Hin|[]]. subst a. cbn in Hx'. rewrite Hid, Nat.eqb_refl in Hx'. discriminate.
  - destruct (nget (s_names s) svc); [|discriminate]. unfold changing in Hc.
    destruct (find_cmd (s_cmds s) c) as [x|] eqn:Hf; [|discriminate].
    apply find_cmd_some in Hf. destruct Hf as [Hin Hid].
    destruct (c_st x) eqn:Hst; try discriminate; injection Hc as Hc; subst s0; simp_s;
      apply set_cmd_single in Hx'; destruct Hx' as [x0 [Hcs [Hi [Ht _]]]]; rewrite Hcs in Hin;
      destruct Hin as [Hin|[]]; subst x0; destruct (S x Hcs) as [Hl|[Hsv _]]; try congruence; left; lia.
  - unfold changing in Hc.
    destruct (find_cmd (s_cmds s) c) as [x|] eqn:Hf; [|discriminate].
    apply find_cmd_some in Hf. destruct Hf as [Hin Hid].
    destruct (c_st x) eqn:Hst; try discriminate; injection Hc as Hc; subst s0; simp_s;
      apply set_cmd_single in Hx'; destruct Hx' as [x0 [Hcs [Hi [Ht _]]]]; rewrite Hcs in Hin;
      destruct Hin as [Hin|[]]; subst x0; destruct (S x Hcs) as [Hl|[Hsv _]]; try congruence; left; lia.
  - unfold changing in Hc.
    destruct (find_cmd (s_cmds s) c) as [x|] eqn:Hf; [|discriminate].
    apply find_cmd_some in Hf. destruct Hf as [Hin Hid].
    destruct (c_st x) eqn:Hst; try discriminate; injection Hc as Hc; subst s0; simp_s;
      apply set_cmd_single in Hx'; destruct Hx' as [x0 [Hcs [Hi [Ht _]]]]; rewrite Hcs in Hin;
      destruct Hin as [Hin|[]]; subst x0; destruct (S x Hcs) as [Hl|[Hsv _]]; try congruence; left; lia.
  - destruct (find_cmd (s_cmds s) c) as [x|] eqn:Hf; [|discriminate].
    destruct (find_writer (s_writers s) c); [discriminate|].
    apply find_cmd_some in Hf. destruct Hf as [Hin Hid].
    destruct (negb (nlist_eqb (sort_ids svcs) (g_set (s_cfg s)))); [destruct (c_st x); discriminate|].
    destruct (negb (Nat.eqb (length (s_writers s)) 0)); [destruct (c_st x); discriminate|].
    destruct (c_st x) eqn:Hst; try discriminate; injection Hc as Hc; subst s0; simp_s;
      apply set_cmd_single in Hx'; destruct Hx' as [x0 [Hcs [Hi [Ht _]]]]; rewrite Hcs in Hin;
      destruct Hin as [Hin|[]]; subst x0; destruct (S x Hcs) as [Hl|[Hsv _]]; try congruence; left; lia.
  - destruct (find_writer (s_writers s) c) as [w|] eqn:Hfw; [|discriminate].
    destruct (sole_writer tr s c w (i_wr _ _ I) Hfw) as [Hws [Hwc Hok]].
    destruct (w_phase w); try discriminate. injection Hc as Hc. subst s0. simp_s.
    destruct (owner_single tr s w x' (i_wr _ _ I)) as [Ho1 Ho2]; [rewrite Hws; left; reflexivity|exact Hx'|].
    destruct (S x' Hx') as [Hl|[_ Hnw]]; [left; exact Hl|].
    rewrite Ho1, Hwc, Hfw in Hnw. discriminate.
  - destruct (find_writer (s_writers s) c) as [w|] eqn:Hfw; [|discriminate].
    destruct (sole_writer tr s c w (i_wr _ _ I) Hfw) as [Hws [Hwc Hok]].
    destruct (w_phase w); try discriminate. injection Hc as Hc. subst s0. simp_s.
    destruct (owner_single tr s w x' (i_wr _ _ I)) as [Ho1 Ho2]; [rewrite Hws; left; reflexivity|exact Hx'|].
    destruct (S x' Hx') as [Hl|[_ Hnw]]; [left; exact Hl|].
    rewrite Ho1, Hwc, Hfw in Hnw. discriminate.
  - destruct (find_writer (s_writers s) c) as [w|] eqn:Hfw; [|discriminate].
    destruct (sole_writer tr s c w (i_wr _ _ I) Hfw) as [Hws [Hwc Hok]].
    destruct (w_phase w); try discriminate. injection Hc as Hc. subst s0. simp_s.
    destruct (owner_single tr s w x' (i_wr _ _ I)) as [Ho1 Ho2]; [rewrite Hws; left; reflexivity|exact Hx'|].
    right. split; [exact Ho2|]. rewrite Hws, <- Hwc, del_sole. reflexivity.
  - injection Hc as Hc. subst s0. simp_s. apply S. exact Hx'.
  - discriminate.
Qed.

Lemma one_at_a_time_prefix : forall tr e, one_at_a_time (tr ++ [e]) -> one_at_a_time tr.
Proof.
  intros tr e H k sk Hk. destruct (Nat.le_gt_cases k (length tr)) as [Hle|Hgt].
  - apply (H k). rewrite prefix_old by exact Hle. exact Hk.
  - apply (H (length tr)). rewrite firstn_snoc_all. rewrite firstn_all2 in Hk by lia. exact Hk.
Qed.

Lemma seq_run : forall tr s, snap_run Repaired tr = Some s -> one_at_a_time tr -> seq_ok s.
Proof.
  intros tr. induction tr as [|e tr IH] using rev_ind; intros s H Hseq.
  - cbn in H. injection H as H. subst s. intros x Hx. discriminate.
  - pose proof H as Hfull. unfold snap_run in H. apply run_snoc_inv in H. destruct H as [s1 [H1 H2]].
    pose proof (one_at_a_time_prefix _ _ Hseq) as Hseq1.
    eapply seq_step; [apply inv_run; exact H1|apply IH; assumption| |exact H2].
    apply (Hseq1 (length tr)). rewrite firstn_all. exact H1.
Qed.

(** one command in progress, never two: the file is the configuration from
    before the command or the one in force now (which is the one after it: a
    command makes no change after its snapshot) *)
Theorem single_command : forall tr s x y, snap_run Repaired tr = Some s -> one_at_a_time tr ->
  s_cmds s = [x] -> s_live s = DFile y ->
  (exists sb, snap_run Repaired (firstn (c_t0 x) tr) = Some sb /\ y = s_cfg sb) \/ y = s_cfg s.
Proof.
  intros tr s x y Hrun Hseq Hc Hy. destruct (seq_run tr s Hrun Hseq x Hc) as [Hb|[Hsv Hnw]].
  - left. assert (Hw : wstart s = c_t0 x).
    { unfold wstart. rewrite Hc. cbn. pose proof (i_ids _ _ (inv_run tr s Hrun) x) as Hi.
      rewrite Hc in Hi. destruct (Hi (or_introl eq_refl)) as [_ Hlt]. lia. }
    rewrite <- Hw. eapply before_window; eauto. lia.
  - right. destruct (current_when_saved tr s Hrun) as [Hl|[Hl _]].
    + intros x0 Hx0. rewrite Hc in Hx0. destruct Hx0 as [Hx0|[]]. subst x0. right. auto.
    + congruence.
    + congruence.
Qed.

(** [crash_atomic] with the two instants made one: when only one of the two
    components changed between them *)
Theorem crash_atomic_instant : forall tr s y, snap_run Repaired tr = Some s -> s_live s = DFile y ->
  exists i j si sj, wstart s <= i /\ i <= j /\ j <= length tr /\
    snap_run Repaired (firstn i tr) = Some si /\ snap_run Repaired (firstn j tr) = Some sj /\
    ((forall t c, i <= t < j -> ~ changed_at tr t c ChSet) -> y = s_cfg sj) /\
    ((forall t c, i <= t < j -> ~ changed_at tr t c ChObj) -> y = s_cfg si).
Proof.
  intros tr s y Hrun Hy. pose proof (crash_atomic tr s Hrun) as H. rewrite Hy in H.
  destruct H as [_ [i [j [si [sj [H1 [H2 [H3 [H4 [H5 H6]]]]]]]]]].
  exists i, j, si, sj. repeat split; auto.
  - intro Hn. assert (E : same ChSet (s_cfg si) (s_cfg sj)) by (apply (stable_between Repaired tr i j si sj ChSet); auto).
    cbn in E. rewrite H6. apply cfg_eta; cbn; congruence.
  - intro Hn. assert (E : same ChObj (s_cfg si) (s_cfg sj)) by (apply (stable_between Repaired tr i j si sj ChObj); auto).
    cbn in E. rewrite H6. apply cfg_eta; cbn; congruence.
Qed.

(** ** The live file changes only by the rename step *)

Lemma changing_live : forall s c g s', changing s c g = Some s' -> s_live s' = s_live s.
Proof.
  intros s c g s' H. unfold changing in H. destruct (find_cmd (s_cmds s) c) as [x|]; [|discriminate].
  destruct (c_st x); try discriminate; injection H as H; subst s'; reflexivity.
Qed.

Theorem live_changes_only_at_rename : forall s e s',
  snap_step Repaired s e = Some s' -> s_live s' <> s_live s -> exists c, read e = VRename c.
Proof.
  intros s e s' H Hne. unfold snap_step in H.
  destruct (core Repaired s (read e)) as [s0|] eqn:Hc; [|discriminate]. injection H as H. subst s'.
  cbn [tick s_live] in Hne.
  destruct (read e) eqn:Hr; cbn [core] in Hc; try (eexists; reflexivity); exfalso; apply Hne.
  - injection Hc as Hc. subst s0. reflexivity.
  - destruct (nmem c (s_used s)); [discriminate|]. injection Hc as Hc. subst s0. reflexivity.
  - destruct (find_cmd (s_cmds s) c) as [x|]; [|discriminate].
    destruct (find_writer (s_writers s) c); [discriminate|].
    destruct (c_st x); try discriminate; injection Hc as Hc; subst s0; reflexivity.
  - destruct (nget (s_names s) svc); [|discriminate]. eapply changing_live; eauto.
  - eapply changing_live; eauto.
  - eapply changing_live; eauto.
  - destruct (find_cmd (s_cmds s) c) as [x|]; [|discriminate].
    destruct (find_writer (s_writers s) c); [discriminate|].
    destruct (c_st x); try discriminate;
      (destruct (negb (nlist_eqb (sort_ids svcs) (g_set (s_cfg s)))); [discriminate|]);
      (destruct (negb (Nat.eqb (length (s_writers s)) 0)); [discriminate|]);
      injection Hc as Hc; subst s0; reflexivity.
  - destruct (find_writer (s_writers s) c) as [w|]; [|discriminate].
    destruct (w_phase w); try discriminate. injection Hc as Hc; subst s0; reflexivity.
  - destruct (find_writer (s_writers s) c) as [w|]; [|discriminate].
    destruct (w_phase w); try discriminate. injection Hc as Hc; subst s0; reflexivity.
  - injection Hc as Hc. subst s0. reflexivity.
  - discriminate.
Qed.

(** and on the pinned tree it does change elsewhere: at create (truncation) *)
Lemma pinned_live_changes_at_create : exists s e s',
  snap_step Pinned s e = Some s' /\ s_live s' <> s_live s /\ forall c, read e <> VRename c.
Proof.
  exists (mkS 1 [] cfg0 (DFile cfg0) (0, 0) None [mkW 0 PCollected [] 0 0 0 true] [mkC 0 CSaved 0] [0] [cfg0]),
         (mkEv 0 (ACmd 0) KSnapCreate). eexists.
  split; [reflexivity|]. split; [discriminate|]. intros c. discriminate.
Qed.
