(** M5fullClean.v — the "clean balancer" invariant of model/M5full.v (partial
    form of lb_clean_inv: with the extra hypothesis that no state-set event has
    touched its targets) and the facts about claims behind props/C02.v. *)
From KP Require Import model.Base model.Trace model.M5full proofs.M5fullFacts proofs.M5fullGuards
  proofs.M5fullInv proofs.M5fullDrain proofs.M5fullPath proofs.M5fullLb.
From Coq Require Import ZifyN ZifyNat ZifyBool.
Local Open Scope nat_scope.

(** * How one step changes the state of a target, the rotation of a balancer *)

Lemma step_tstate : forall s e s' t x x',
  step s e = Some s' -> nget (targets s) t = Some x -> nget (targets s') t = Some x' ->
  t_state x' = t_state x \/
  (exists ok prev, e_k e = KProbeApply t ok prev (t_state x') /\ t_state x' = probe_transition (t_state x) ok) \/
  (exists o, e_k e = KStateSet t o (t_state x')).
Proof.
  intros s e s' t x x' H Hx Hx'. step_inv H; norm.
  all: try (rewrite Hx in Hx'; inj_some; auto).
  all: heap_cases; inj_some; tproj; try (rewrite Hx in *; inj_some; auto).
  all: try (right; left; eexists _, _; split; [reflexivity|]; match goal with Hs : t_state _ = _ |- _ => rewrite Hs end; congruence).
  all: try (right; right; eexists; reflexivity).
  rewrite add_new_get in Hx'. destruct (nmem t ts) eqn:E; [|rewrite Hx in Hx'; inj_some; auto].
  apply nmem_In in E. rewrite (fresh_all _ _ _ Heqb E) in Hx. discriminate.
Qed.

Lemma step_probe_taints : forall s e s' t ok prev x l',
  step s e = Some s' -> e_k e = KProbeApply t ok prev TUnhealthy ->
  nget (targets s) t = Some x -> t_state x = THealthy ->
  nget (lbs s') (t_lb x) = Some l' -> l_tainted l' = true.
Proof.
  intros s e s' t ok prev x l' H Hk Hx Hs Hl'. step_inv_k H Hk; norm; lb_cases; proj.
  all: rewrite Hx in *; inj_some; try congruence.
  rewrite Nat.eqb_refl in Hl'. destruct (nget (lbs s) (t_lb x)); inj_some; try discriminate. reflexivity.
Qed.

Lemma step_ever : forall s e s' t x x',
  step s e = Some s' -> nget (targets s) t = Some x -> nget (targets s') t = Some x' ->
  t_ever_drained x' = true ->
  t_ever_drained x = true \/ t_drains x <> [] \/
  (exists o tmo, e_k e = KDrainBegin t o tmo) \/ (exists o n, e_k e = KStateSet t o n).
Proof.
  intros s e s' t x x' H Hx Hx' Hd. step_inv H; norm.
  all: try (rewrite Hx in Hx'; inj_some; auto).
  all: heap_cases; inj_some; tproj; try (rewrite Hx in *; inj_some; auto).
  all: try (right; right; left; eexists _, _; reflexivity).
  all: try (right; right; right; eexists _, _; reflexivity).
  all: try (right; left; intros Hn; rewrite Hn in *; discriminate).
  rewrite add_new_get in Hx'. destruct (nmem t ts) eqn:E; [|rewrite Hx in Hx'; inj_some; auto].
  apply nmem_In in E. rewrite (fresh_all _ _ _ Heqb E) in Hx. discriminate.
Qed.

Lemma step_rot : forall s e s' lb l l',
  step s e = Some s' -> nget (lbs s) lb = Some l -> nget (lbs s') lb = Some l' ->
  l_rot l' = l_rot l \/ l_rot l' = healthy_of s (l_targets l).
Proof.
  intros s e s' lb l l' H Hl Hl'. step_inv H; norm; lb_cases; proj.
  all: try (rewrite Hl in Hl'; inj_some; auto).
  all: heap_cases; eqb_cases; inj_some; tproj; try (rewrite Hl in *; inj_some; auto).
  all: auto.
  match goal with Hb : nlist_eqb _ _ = true |- _ => apply nlist_eqb_eq in Hb; right; exact Hb end.
Qed.

Lemma step_KDeployWaited : forall s e s' lb,
  step s e = Some s' -> e_k e = KDeployWaited lb true ->
  exists l, nget (lbs s) lb = Some l /\
    (l_tainted l = true \/ (l_rot l = l_targets l /\ healthy_of s (l_targets l) = l_targets l)) /\
    s' = upd_lbs (tick s (e_t e)) (nset (lbs s) lb (mkL (l_targets l) (l_rot l) (l_idx l) true (l_tainted l))).
Proof.
  intros s e s' lb H Hk. step_inv_k H Hk. eexists. split; [reflexivity|split; [|reflexivity]].
  apply orb_true_iff in Heqb. destruct Heqb as [Ht|Hr]; [now left|right].
  apply andb_prop in Hr. destruct Hr as [H1 H2]. apply nlist_eqb_eq in H1, H2. split; auto.
Qed.

(** * M: a target that no state-set event has touched was never marked draining *)

Definition unmarked (tr : trace) (t : nat) : Prop :=
  forall e o n, In e tr -> e_k e <> KStateSet t o n.

Lemma unmarked_snoc : forall tr e t, unmarked (tr ++ [e]) t ->
  unmarked tr t /\ forall o n, e_k e <> KStateSet t o n.
Proof.
  intros tr e t H. split.
  - intros e' o n Hi. apply H. apply in_or_app. now left.
  - intros o n. apply H. apply in_or_app. right. now left.
Qed.

Lemma unmarked_app : forall a b t, unmarked (a ++ b) t -> unmarked a t.
Proof. intros a b t H e o n Hi. apply H. apply in_or_app. now left. Qed.

Lemma probe_not_draining : forall cur ok, cur <> TDraining -> probe_transition cur ok <> TDraining.
Proof. intros [] []; cbn; congruence. Qed.

Definition InvM (tr : trace) (s : state) : Prop :=
  forall t x, unmarked tr t -> nget (targets s) t = Some x ->
  t_state x <> TDraining /\ t_drains x = [] /\ t_ever_drained x = false.

Lemma invM_step : forall tr s e s', InvM tr s -> step s e = Some s' -> InvM (tr ++ [e]) s'.
Proof.
  intros tr s e s' HI H t x' Hun Hx'. apply unmarked_snoc in Hun. destruct Hun as [Hun Hne].
  destruct (step_tgt_back _ _ _ _ _ H Hx') as [[x Hx]|(lb & ts & _ & _ & _ & ->)];
    [|cbn; repeat split; auto; discriminate].
  destruct (HI _ _ Hun Hx) as (Hst & Hdr & Hev).
  assert (Hst' : t_state x' <> TDraining).
  { destruct (step_tstate _ _ _ _ _ _ H Hx Hx') as [->|[(ok & prev & _ & ->)|(o & Hk)]]; auto.
    - now apply probe_not_draining.
    - exfalso. eapply Hne; eauto. }
  assert (Hdr' : t_drains x' = []).
  { destruct (t_drains x') as [|[g d'] rest] eqn:Ed; auto. exfalso.
    assert (Hin : In (g, d') (t_drains x')) by (rewrite Ed; now left).
    destruct (step_drain _ _ _ _ _ _ _ _ H Hx Hx' Hin)
      as [Hs|orig timeout Hg Hk Ho Hn _|d rs Hg Hk Hd _ _ _ _|d sn0 Hg Hk Hd _ _ _ _|d sn0 Hg Hk Hd _ _ _];
      try (rewrite Hdr in *; cbn in *; discriminate).
    - rewrite Hdr in Hs. destruct Hs.
    - destruct (step_KDrainBegin _ _ _ _ _ _ H Hk) as (x0 & Hx0 & Hd0 & _). congruence. }
  repeat split; auto.
  destruct (t_ever_drained x') eqn:Ev; auto. exfalso.
  destruct (step_ever _ _ _ _ _ _ H Hx Hx' Ev) as [Ho|[Ho|[(o & tmo & Hk)|(o & n & Hk)]]]; try congruence.
  all: try (eapply Hne; eauto; fail).
  destruct (step_KDrainBegin _ _ _ _ _ _ H Hk) as (x0 & Hx0 & Hd0 & _). congruence.
Qed.

Lemma invM_run : forall tr s, run step init tr = Some s -> InvM tr s.
Proof.
  intros tr s H. apply (run_hinv0 step InvM init); auto.
  - intros t x _ Hx. discriminate.
  - intros pre s0 e s' _ HI Hs. eapply invM_step; eauto.
Qed.

Lemma invL12_run : forall tr s, run step init tr = Some s -> InvL1 s /\ InvL2 s.
Proof.
  intros tr s H. eapply (run_inv step (fun s => InvL1 s /\ InvL2 s)); [| |exact H].
  - intros s0 e s' [H1 H2] Hs. split; [eapply invL1_step|eapply invL2_step]; eauto.
  - split; intros lb l t Hl; discriminate.
Qed.

(** * L3 (lb_clean_inv, partial): a waited, untainted balancer none of whose
      targets was touched by a state-set event has all of them healthy and in rotation *)

Definition lb_clean (tr : trace) (s : state) (lb : nat) (l : lbr) : Prop :=
  nget (lbs s) lb = Some l /\ l_waited l = true /\ l_tainted l = false /\
  forall t, In t (l_targets l) -> unmarked tr t.

Definition InvL3 (tr : trace) (s : state) : Prop :=
  forall lb l, lb_clean tr s lb l ->
  l_rot l = l_targets l /\
  forall t, In t (l_targets l) -> exists x, nget (targets s) t = Some x /\ t_state x = THealthy.

Lemma invL3_step : forall tr s e s', InvL1 s -> InvL3 tr s -> step s e = Some s' -> InvL3 (tr ++ [e]) s'.
Proof.
  intros tr s e s' H1 HI H lb l' (Hl' & Hw' & Ht' & Hun').
  destruct (step_lb_back _ _ _ _ _ H Hl') as [(l & Hl & Hts & Hw)|(ts & Hk & Hn & ->)]; [|discriminate].
  assert (Htl : l_tainted l = false).
  { destruct (l_tainted l) eqn:E; auto. destruct (step_lb_fwd _ _ _ _ _ H Hl) as (l'' & Hl'' & _ & _ & Htt).
    rewrite Hl' in Hl''. inj_some. rewrite Htt in Ht'; auto. }
  destruct (Hw Hw') as [Hwl|Hk].
  - (* already waited: the invariant held before *)
    assert (Hc : lb_clean tr s lb l).
    { repeat split; auto. intros t Ht. rewrite <- Hts in Ht. apply Hun' in Ht. now apply unmarked_snoc in Ht. }
    destruct (HI _ _ Hc) as (Hrot & Hall).
    assert (Hall' : forall t, In t (l_targets l') -> exists x, nget (targets s') t = Some x /\ t_state x = THealthy).
    { intros t Ht. pose proof (Hun' _ Ht) as Hu. apply unmarked_snoc in Hu. destruct Hu as [_ Hne].
      rewrite Hts in Ht. destruct (Hall _ Ht) as (x & Hx & Hs).
      destruct (step_tgt_fwd _ _ _ _ _ H Hx) as (x' & Hx' & Hlb & _). exists x'. split; auto.
      destruct (step_tstate _ _ _ _ _ _ H Hx Hx') as [->|[(ok & prev & Hk & Hp)|(o & Hk)]]; auto.
      - rewrite Hs in Hp. destruct ok; cbn in Hp; auto.
        exfalso. rewrite Hp in Hk.
        destruct (H1 _ _ _ Hl Ht) as (x0 & Hx0 & Hlb0).
        assert (x0 = x) by congruence. subst x0.
        rewrite <- Hlb0 in Hl'. pose proof (step_probe_taints _ _ _ _ _ _ _ _ H Hk Hx Hs Hl'). congruence.
      - exfalso. eapply Hne; eauto. }
    split; auto.
    destruct (step_rot _ _ _ _ _ _ H Hl Hl') as [->| ->]; [congruence|].
    rewrite Hts. apply all_healthy_of. auto.
  - (* this event is the successful wait *)
    destruct (step_KDeployWaited _ _ _ _ H Hk) as (l0 & Hl0 & Hg & ->). rewrite Hl in Hl0. inj_some.
    proj. rewrite nget_nset_same in Hl'. inj_some. tproj.
    destruct Hg as [Hg|[Hr Hh]]; [congruence|]. split; auto.
    intros t Ht. eapply healthy_of_all; eauto.
Qed.

Lemma invL3_run : forall tr s, run step init tr = Some s -> InvL3 tr s.
Proof.
  intros tr s H. apply (run_hinv0 step InvL3 init); auto.
  - intros lb l (Hl & _). discriminate.
  - intros pre s0 e s' Hpre HI Hs. eapply invL3_step; eauto. apply (invL12_run _ _ Hpre).
Qed.

(** the partial lb_clean_inv, with the drain facts of M *)
Lemma lb_clean_inv_partial_lem : forall tr s lb l,
  run step init tr = Some s -> lb_clean tr s lb l ->
  l_rot l = l_targets l /\
  forall t, In t (l_targets l) ->
    exists x, nget (targets s) t = Some x /\ t_state x = THealthy /\ t_drains x = [] /\ t_ever_drained x = false.
Proof.
  intros tr s lb l Hrun Hc. destruct (invL3_run _ _ Hrun _ _ Hc) as (Hrot & Hall). split; auto.
  intros t Ht. destruct (Hall _ Ht) as (x & Hx & Hs). exists x. repeat split; auto.
  all: destruct Hc as (_ & _ & _ & Hun); destruct (invM_run _ _ Hrun _ _ (Hun _ Ht) Hx) as (_ & Hd & He); auto.
Qed.
