(** M5fullFacts.v — basic tools for the acceptor model/M5full.v: heaps, runs,
    inversion of one step (one Ltac for every event kind), guard-extraction
    lemmas per event kind and the small per-component frame facts.
    The invariants are in proofs/M5fullInv.v, the request-path and balancer
    facts in proofs/M5fullC02.v. *)
From KP Require Import model.Base model.Trace model.M5full.
From Coq Require Import ZifyN ZifyNat ZifyBool.
Local Open Scope nat_scope.

(** * Heaps *)

Lemma nget_nset_same : forall A (l : list (nat * A)) k v, nget (nset l k v) k = Some v.
Proof.
  intros A l k v. induction l as [|[k' v'] r IH]; cbn.
  - now rewrite Nat.eqb_refl.
  - destruct (Nat.eqb k k') eqn:E; cbn; rewrite ?Nat.eqb_refl; auto. now rewrite E.
Qed.

Lemma nget_nset_other : forall A (l : list (nat * A)) k k' v, k' <> k -> nget (nset l k v) k' = nget l k'.
Proof.
  intros A l k k' v Hne. induction l as [|[k2 v2] r IH]; cbn.
  - destruct (Nat.eqb_spec k' k); congruence.
  - destruct (Nat.eqb_spec k k2) as [->|Hk]; cbn.
    + destruct (Nat.eqb_spec k' k2); congruence.
    + destruct (Nat.eqb_spec k' k2); auto.
Qed.

Lemma nget_nset : forall A (l : list (nat * A)) k k' v,
  nget (nset l k v) k' = if Nat.eqb k' k then Some v else nget l k'.
Proof.
  intros. destruct (Nat.eqb_spec k' k) as [->|Hne]; [apply nget_nset_same | now apply nget_nset_other].
Qed.

Lemma nget_In : forall A (l : list (nat * A)) k v, nget l k = Some v -> In (k, v) l.
Proof.
  intros A l k v. induction l as [|[k' v'] r IH]; cbn; intros H; [discriminate|].
  destruct (Nat.eqb_spec k k') as [->|Hne]; [inversion H; auto | auto].
Qed.

Lemma In_nset : forall A (l : list (nat * A)) k v k' v',
  In (k', v') (nset l k v) -> (k' = k /\ v' = v) \/ In (k', v') l.
Proof.
  intros A l k v k' v'. induction l as [|[k2 v2] r IH]; cbn; intros H.
  - destruct H as [H|[]]. inversion H; auto.
  - destruct (Nat.eqb k k2); cbn in H.
    + destruct H as [H|H]; [inversion H; auto | auto].
    + destruct H as [H|H]; [auto | destruct (IH H); auto].
Qed.

Lemma In_ndel : forall A (l : list (nat * A)) k p, In p (ndel l k) -> In p l.
Proof.
  intros A l k p. induction l as [|[k2 v2] r IH]; cbn; intros H; auto.
  destruct (Nat.eqb k k2); cbn in H; [auto | destruct H; auto].
Qed.

Lemma nmem_In : forall k l, nmem k l = true <-> In k l.
Proof.
  intros k l. unfold nmem. rewrite existsb_exists. split.
  - intros [x [Hin Hx]]. apply Nat.eqb_eq in Hx. now subst.
  - intros Hin. exists k. split; auto. apply Nat.eqb_refl.
Qed.

Lemma nmem_false : forall k l, nmem k l = false <-> ~ In k l.
Proof.
  intros k l. rewrite <- nmem_In. destruct (nmem k l); split; congruence.
Qed.

Lemma nodup_ids_NoDup : forall l, nodup_ids l = true -> NoDup l.
Proof.
  induction l as [|x r IH]; cbn; intros H; constructor.
  - apply andb_prop in H. destruct H as [H _]. apply negb_true_iff in H. now apply nmem_false in H.
  - apply IH. now apply andb_prop in H.
Qed.

Lemma nmem_cons : forall k x l, nmem k (x :: l) = Nat.eqb k x || nmem k l.
Proof. reflexivity. Qed.

Lemma nlist_eqb_eq : forall a b, nlist_eqb a b = true -> a = b.
Proof.
  induction a as [|x a IH]; destruct b as [|y b]; cbn; intros H; try discriminate; auto.
  apply andb_prop in H. destruct H as [H1 H2]. apply Nat.eqb_eq in H1. subst. f_equal. now apply IH.
Qed.

Lemma tstate_eqb_eq : forall a b, tstate_eqb a b = true <-> a = b.
Proof. intros [] []; cbn; split; congruence. Qed.

Lemma tstate_eqb_neq : forall a b, tstate_eqb a b = false <-> a <> b.
Proof. intros [] []; cbn; split; congruence. Qed.

Lemma opt_nat_eqb_eq : forall a b, opt_nat_eqb a b = true <-> a = b.
Proof.
  intros [x|] [y|]; cbn; split; try congruence.
  - intros H. apply Nat.eqb_eq in H. now subst.
  - intros H. inversion H. apply Nat.eqb_refl.
Qed.

Lemma nremove_In : forall k x l, In x (nremove k l) <-> In x l /\ x <> k.
Proof.
  intros k x l. induction l as [|y r IH]; cbn.
  - tauto.
  - destruct (Nat.eqb_spec k y) as [->|Hne]; cbn; rewrite IH; split.
    + intros [H1 H2]. auto.
    + intros [[H1|H1] H2]; [congruence|auto].
    + intros [H|[H1 H2]]; [subst; split; auto|auto].
    + intros [[H1|H1] H2]; auto.
Qed.

Lemma nmem_nremove : forall k x l, nmem x (nremove k l) = nmem x l && negb (Nat.eqb x k).
Proof.
  intros k x l. destruct (nmem x (nremove k l)) eqn:E.
  - apply nmem_In, nremove_In in E. destruct E as [E1 E2]. apply nmem_In in E1. rewrite E1.
    apply Nat.eqb_neq in E2. now rewrite E2.
  - apply nmem_false in E. destruct (nmem x l) eqn:E1; auto. destruct (Nat.eqb_spec x k); auto.
    exfalso. apply E. apply nremove_In. apply nmem_In in E1. auto.
Qed.

(** the targets a new balancer creates *)
Definition add_new (lb : nat) (ts : list nat) (tg : list (nat * tgt)) : list (nat * tgt) :=
  fold_left (fun acc t => nset acc t (mkT lb TAdding [] [] false)) ts tg.

Lemma add_new_get : forall lb ts tg t,
  nget (add_new lb ts tg) t = if nmem t ts then Some (mkT lb TAdding [] [] false) else nget tg t.
Proof.
  intros lb. unfold add_new. induction ts as [|t0 r IH]; intros tg t; cbn [fold_left].
  - reflexivity.
  - rewrite IH. rewrite nmem_cons. destruct (nmem t r) eqn:E.
    + now rewrite orb_true_r.
    + rewrite orb_false_r. now rewrite nget_nset.
Qed.

Lemma fresh_all : forall (tg : list (nat * tgt)) ts t,
  existsb (fun t => match nget tg t with Some _ => true | None => false end) ts = false ->
  In t ts -> nget tg t = None.
Proof.
  intros tg ts t H Hin. destruct (nget tg t) eqn:E; auto.
  assert (existsb (fun t => match nget tg t with Some _ => true | None => false end) ts = true).
  { apply existsb_exists. exists t. rewrite E. auto. }
  congruence.
Qed.

(** * Runs *)

Section Runs.
Context {St : Type} (stp : St -> event -> option St).

Lemma run_app_eq : forall a b s,
  run stp s (a ++ b) = match run stp s a with Some s' => run stp s' b | None => None end.
Proof.
  induction a as [|e a IH]; intros b s; cbn; auto.
  destruct (stp s e); auto.
Qed.

(** the basic tool: an accepted trace splits at any of its events *)
Lemma run_app : forall pre e post s0 s,
  run stp s0 (pre ++ e :: post) = Some s ->
  exists s1 s2, run stp s0 pre = Some s1 /\ stp s1 e = Some s2 /\ run stp s2 post = Some s.
Proof.
  intros pre e post s0 s H. rewrite run_app_eq in H.
  destruct (run stp s0 pre) as [s1|]; [|discriminate]. cbn in H.
  destruct (stp s1 e) as [s2|] eqn:E; [|discriminate]. eauto.
Qed.

Lemma run_snoc : forall pre e s s',
  run stp s (pre ++ [e]) = Some s' <-> exists s1, run stp s pre = Some s1 /\ stp s1 e = Some s'.
Proof.
  intros pre e s s'. rewrite run_app_eq. cbn. split.
  - destruct (run stp s pre) as [s1|]; [|discriminate]. intros H. exists s1. split; auto.
    destruct (stp s1 e); auto.
  - intros [s1 [H1 H2]]. rewrite H1, H2. reflexivity.
Qed.

Lemma run_prefix : forall pre post s0 s, run stp s0 (pre ++ post) = Some s -> exists s1, run stp s0 pre = Some s1 /\ run stp s1 post = Some s.
Proof.
  intros pre post s0 s H. rewrite run_app_eq in H. destruct (run stp s0 pre) as [s1|]; [eauto|discriminate].
Qed.

(** an invariant of the reachable states that may speak about the history *)
Lemma run_hinv : forall (P : trace -> St -> Prop) s0,
  (forall pre s e s', run stp s0 pre = Some s -> P pre s -> stp s e = Some s' -> P (pre ++ [e]) s') ->
  forall tr pre s s', run stp s0 pre = Some s -> P pre s -> run stp s tr = Some s' -> P (pre ++ tr) s'.
Proof.
  intros P s0 Hstep. induction tr as [|e tr IH]; intros pre s s' Hpre HP Hrun.
  - cbn in Hrun. inversion Hrun; subst. now rewrite app_nil_r.
  - cbn in Hrun. destruct (stp s e) as [s1|] eqn:E; [|discriminate].
    replace (pre ++ e :: tr) with ((pre ++ [e]) ++ tr) by (rewrite <- app_assoc; reflexivity).
    apply IH with (s := s1); auto.
    + apply run_snoc. eauto.
    + eapply Hstep; eauto.
Qed.

Lemma run_hinv0 : forall (P : trace -> St -> Prop) s0,
  P [] s0 ->
  (forall pre s e s', run stp s0 pre = Some s -> P pre s -> stp s e = Some s' -> P (pre ++ [e]) s') ->
  forall tr s, run stp s0 tr = Some s -> P tr s.
Proof.
  intros P s0 H0 Hstep tr s Hrun.
  apply (run_hinv P s0 Hstep tr [] s0 s); auto.
Qed.

Lemma run_inv : forall (P : St -> Prop),
  (forall s e s', P s -> stp s e = Some s' -> P s') ->
  forall tr s s', P s -> run stp s tr = Some s' -> P s'.
Proof.
  intros P Hstep. induction tr as [|e tr IH]; intros s s' HP Hrun; cbn in Hrun.
  - inversion Hrun; now subst.
  - destruct (stp s e) as [s1|] eqn:E; [|discriminate].
    apply (IH s1 s'); [eapply Hstep; eauto | exact Hrun].
Qed.
End Runs.

(** * Views of the state *)

(** the state an event's rule works on: the old state at the event's time *)
Definition tick (s : state) (tm : N) : state :=
  mkSt (targets s) (lbs s) (svcs s) (svc_names s) (tgt_names s) (installed s) (reqs s) tm.

Definition cancelled (s : state) (r : nat) : bool :=
  match nget (reqs s) r with Some q => r_cancelled q | None => false end.

Lemma set_phase_eq : forall st r p,
  set_phase st r p = upd_reqs st (nset (reqs st) r (mkR p (cancelled st r))).
Proof. reflexivity. Qed.

Lemma phase_of_set_phase : forall st r p r',
  phase_of (set_phase st r p) r' = if Nat.eqb r' r then Some p else phase_of st r'.
Proof.
  intros. unfold phase_of, set_phase, upd_reqs. cbn [reqs]. rewrite nget_nset.
  destruct (Nat.eqb r' r); reflexivity.
Qed.

Lemma cancelled_set_phase : forall st r p r', cancelled (set_phase st r p) r' = cancelled st r'.
Proof.
  intros. unfold cancelled at 1. unfold set_phase, upd_reqs. cbn [reqs]. rewrite nget_nset.
  destruct (Nat.eqb_spec r' r) as [->|Hne]; reflexivity.
Qed.

Lemma targets_taint : forall st lb, targets (taint st lb) = targets st.
Proof. intros. unfold taint. destruct (nget (lbs st) lb); reflexivity. Qed.
Lemma reqs_taint : forall st lb, reqs (taint st lb) = reqs st.
Proof. intros. unfold taint. destruct (nget (lbs st) lb); reflexivity. Qed.
Lemma svcs_taint : forall st lb, svcs (taint st lb) = svcs st.
Proof. intros. unfold taint. destruct (nget (lbs st) lb); reflexivity. Qed.
Lemma installed_taint : forall st lb, installed (taint st lb) = installed st.
Proof. intros. unfold taint. destruct (nget (lbs st) lb); reflexivity. Qed.
Lemma tgt_names_taint : forall st lb, tgt_names (taint st lb) = tgt_names st.
Proof. intros. unfold taint. destruct (nget (lbs st) lb); reflexivity. Qed.
Lemma clock_taint : forall st lb, clock (taint st lb) = clock st.
Proof. intros. unfold taint. destruct (nget (lbs st) lb); reflexivity. Qed.

Definition tainted_rec (l : lbr) : lbr := mkL (l_targets l) (l_rot l) (l_idx l) (l_waited l) true.

Lemma lbs_taint : forall st lb lb',
  nget (lbs (taint st lb)) lb' =
  if Nat.eqb lb' lb then match nget (lbs st) lb with Some l => Some (tainted_rec l) | None => None end
  else nget (lbs st) lb'.
Proof.
  intros. unfold taint. destruct (nget (lbs st) lb) eqn:E.
  - unfold upd_lbs. cbn [lbs]. rewrite nget_nset. reflexivity.
  - destruct (Nat.eqb_spec lb' lb) as [->|Hne]; auto.
Qed.

Lemma phase_of_taint : forall st lb r, phase_of (taint st lb) r = phase_of st r.
Proof. intros. unfold phase_of. now rewrite reqs_taint. Qed.
Lemma cancelled_taint : forall st lb r, cancelled (taint st lb) r = cancelled st r.
Proof. intros. unfold cancelled. now rewrite reqs_taint. Qed.

(** * Inversion of one step: ONE tactic for every event kind *)

Ltac break_hyp H :=
  match type of H with
  | context [match ?x with _ => _ end] =>
    match x with
    | context [match _ with _ => _ end] => fail 1
    | _ => destruct x eqn:?
    end
  end.

Ltac break_top H :=
  match type of H with
  | (match ?x with _ => _ end) = _ => destruct x eqn:?
  end.

Ltac bool_hyps :=
  repeat match goal with
  | H : _ && _ = true |- _ => apply andb_prop in H; destruct H
  | H : negb _ = true |- _ => apply negb_true_iff in H
  | H : negb _ = false |- _ => apply negb_false_iff in H
  | H : Nat.eqb _ _ = true |- _ => apply Nat.eqb_eq in H; subst
  | H : tstate_eqb _ _ = true |- _ => apply tstate_eqb_eq in H; subst
  | H : opt_nat_eqb _ _ = true |- _ => apply opt_nat_eqb_eq in H
  end.

(** [step_inv H]: H : step s e = Some s'.  Unfolds the rule of the event's kind
    (all kinds if [e_k e] is not known), destructs every guard and leaves
    s' as an explicit term over [tick s (e_t e)]. *)
Ltac step_inv_gen H first_do :=
  unfold step in H; first_do;
  match type of H with
  | (if ?c then _ else _) = _ => destruct c eqn:?Hclk; [discriminate H|]
  end;
  cbv zeta in H;
  cbn [targets lbs svcs svc_names tgt_names installed reqs clock] in H;
  match type of H with
  | context [mkSt (targets ?s) (lbs ?s) (svcs ?s) (svc_names ?s) (tgt_names ?s) (installed ?s) (reqs ?s) ?tm] =>
    change (mkSt (targets s) (lbs s) (svcs s) (svc_names s) (tgt_names s) (installed s) (reqs s) tm)
      with (tick s tm) in H
  | _ => idtac
  end;
  repeat (first [break_hyp H | break_top H]; try discriminate H);
  try (injection H as H; try subst);
  try match goal with
  | Hk : e_k _ = KLbNew _ ?x |- _ => is_var x; let ts := fresh "ts" in rename x into ts
  | Hk : e_k _ = KSnapCollect ?x |- _ => is_var x; let ss := fresh "ss" in rename x into ss
  end;
  bool_hyps;
  repeat match goal with
  | Hp : context [phase_of (tick ?s ?tm) ?r] |- _ => change (phase_of (tick s tm) r) with (phase_of s r) in Hp
  end;
  try match goal with
  | Hq : nget (reqs ?s) ?r = Some ?q |- _ =>
    assert (phase_of s r = Some (r_phase q)) by (unfold phase_of; rewrite Hq; reflexivity);
    assert (cancelled s r = r_cancelled q) by (unfold cancelled; rewrite Hq; reflexivity)
  | Hq : nget (reqs ?s) ?r = None |- _ =>
    assert (phase_of s r = None) by (unfold phase_of; rewrite Hq; reflexivity);
    assert (cancelled s r = false) by (unfold cancelled; rewrite Hq; reflexivity)
  end.

Ltac step_inv H := step_inv_gen H idtac.
(** the same when the kind of the event is known: Hk : e_k e = K ... *)
Ltac step_inv_k H Hk := step_inv_gen H ltac:(rewrite Hk in H).

Ltac proj :=
  cbn [targets lbs svcs svc_names tgt_names installed reqs clock tick
       upd_targets upd_lbs upd_svcs upd_installed upd_reqs set_phase set_tstate set_drains] in *.

Lemma step_clock : forall s e s', step s e = Some s' -> (clock s <= clock s')%N /\ clock s' = e_t e.
Proof.
  intros s e s' H. step_inv H.
  all: proj; rewrite ?clock_taint; proj; lia.
Qed.

(** * Projections of the updated states (rewrite base [st]) *)

Section Proj.
Variables (st : state) (r : nat) (p : rphase) (lb : nat) (t : nat) (x : tgt) (ts' : tstate)
          (ds : list (nat * drain)) (tm : N).
Variables (xt : list (nat * tgt)) (xl : list (nat * lbr)) (xs : list (nat * svc)) (xi : list nat).

Lemma targets_set_phase : targets (set_phase st r p) = targets st. Proof. reflexivity. Qed.
Lemma lbs_set_phase : lbs (set_phase st r p) = lbs st. Proof. reflexivity. Qed.
Lemma svcs_set_phase : svcs (set_phase st r p) = svcs st. Proof. reflexivity. Qed.
Lemma installed_set_phase : installed (set_phase st r p) = installed st. Proof. reflexivity. Qed.
Lemma tgt_names_set_phase : tgt_names (set_phase st r p) = tgt_names st. Proof. reflexivity. Qed.
Lemma clock_set_phase : clock (set_phase st r p) = clock st. Proof. reflexivity. Qed.

Lemma phase_of_tick : forall r', phase_of (tick st tm) r' = phase_of st r'. Proof. reflexivity. Qed.
Lemma phase_of_upd_targets : forall r', phase_of (upd_targets st xt) r' = phase_of st r'. Proof. reflexivity. Qed.
Lemma phase_of_upd_lbs : forall r', phase_of (upd_lbs st xl) r' = phase_of st r'. Proof. reflexivity. Qed.
Lemma phase_of_upd_svcs : forall r', phase_of (upd_svcs st xs) r' = phase_of st r'. Proof. reflexivity. Qed.
Lemma phase_of_upd_installed : forall r', phase_of (upd_installed st xi) r' = phase_of st r'. Proof. reflexivity. Qed.
Lemma phase_of_set_tstate : forall r', phase_of (set_tstate st t x ts') r' = phase_of st r'. Proof. reflexivity. Qed.
Lemma phase_of_set_drains : forall r', phase_of (set_drains st t x ds) r' = phase_of st r'. Proof. reflexivity. Qed.

Lemma cancelled_tick : forall r', cancelled (tick st tm) r' = cancelled st r'. Proof. reflexivity. Qed.
Lemma cancelled_upd_targets : forall r', cancelled (upd_targets st xt) r' = cancelled st r'. Proof. reflexivity. Qed.
Lemma cancelled_upd_lbs : forall r', cancelled (upd_lbs st xl) r' = cancelled st r'. Proof. reflexivity. Qed.
Lemma cancelled_upd_svcs : forall r', cancelled (upd_svcs st xs) r' = cancelled st r'. Proof. reflexivity. Qed.
Lemma cancelled_upd_installed : forall r', cancelled (upd_installed st xi) r' = cancelled st r'. Proof. reflexivity. Qed.
Lemma cancelled_set_tstate : forall r', cancelled (set_tstate st t x ts') r' = cancelled st r'. Proof. reflexivity. Qed.
Lemma cancelled_set_drains : forall r', cancelled (set_drains st t x ds) r' = cancelled st r'. Proof. reflexivity. Qed.
End Proj.

Lemma phase_of_mkSt : forall a b c d e f st h r, phase_of (mkSt a b c d e f (reqs st) h) r = phase_of st r.
Proof. reflexivity. Qed.
Lemma cancelled_mkSt : forall a b c d e f st h r, cancelled (mkSt a b c d e f (reqs st) h) r = cancelled st r.
Proof. reflexivity. Qed.

Lemma phase_of_arrive : forall st st' r c r',
  phase_of (upd_reqs st (nset (reqs st') r (mkR PArrived c))) r' = if Nat.eqb r' r then Some PArrived else phase_of st' r'.
Proof.
  intros. unfold phase_of, upd_reqs. cbn [reqs]. rewrite nget_nset. destruct (Nat.eqb r' r); reflexivity.
Qed.

Lemma cancelled_arrive : forall st st' r p r',
  nget (reqs st') r = None ->
  cancelled (upd_reqs st (nset (reqs st') r (mkR p false))) r' = cancelled st' r'.
Proof.
  intros st st' r p r' Hn. unfold cancelled, upd_reqs. cbn [reqs]. rewrite nget_nset.
  destruct (Nat.eqb_spec r' r) as [->|Hne]; auto. now rewrite Hn.
Qed.

(** "cancel any remaining requests" *)
Definition mark_cancelled (still : list nat) (rq : list (nat * req)) : list (nat * req) :=
  fold_left (fun acc r => match nget acc r with
                          | Some q => nset acc r (mkR (r_phase q) true)
                          | None => acc end) still rq.

Lemma mark_get : forall still rq r,
  nget (mark_cancelled still rq) r =
  match nget rq r with
  | Some q => Some (mkR (r_phase q) (r_cancelled q || nmem r still))
  | None => None
  end.
Proof.
  unfold mark_cancelled. induction still as [|r0 still IH]; intros rq r; cbn [fold_left].
  - destruct (nget rq r) as [[p c]|]; cbn; auto. now rewrite orb_false_r.
  - rewrite IH. rewrite nmem_cons. destruct (nget rq r0) as [q0|] eqn:E0.
    + rewrite nget_nset. destruct (Nat.eqb_spec r r0) as [->|Hne].
      * rewrite E0. cbn. f_equal. f_equal. now rewrite orb_true_r.
      * cbn. reflexivity.
    + destruct (Nat.eqb_spec r r0) as [->|Hne].
      * rewrite E0. reflexivity.
      * reflexivity.
Qed.

Lemma phase_of_mark : forall st st' still r,
  phase_of (upd_reqs st (mark_cancelled still (reqs st'))) r = phase_of st' r.
Proof.
  intros. unfold phase_of, upd_reqs. cbn [reqs]. rewrite mark_get. destruct (nget (reqs st') r); reflexivity.
Qed.

Lemma cancelled_mark : forall st st' still r,
  cancelled (upd_reqs st (mark_cancelled still (reqs st'))) r =
  cancelled st' r || (nmem r still && match nget (reqs st') r with Some _ => true | None => false end).
Proof.
  intros. unfold cancelled, upd_reqs. cbn [reqs]. rewrite mark_get.
  destruct (nget (reqs st') r); cbn; [now rewrite andb_true_r | now rewrite andb_false_r].
Qed.

(** "cancel any hijacked requests immediately": the snapshot marks its upgraded entries *)
Definition mark_hij (rs : list (nat * bool)) (rq : list (nat * req)) : list (nat * req) :=
  fold_left (fun acc (rh : nat * bool) => if snd rh then
               match nget acc (fst rh) with
               | Some q => nset acc (fst rh) (mkR (r_phase q) true)
               | None => acc end else acc) rs rq.

Definition hij_in (r : nat) (rs : list (nat * bool)) : bool :=
  existsb (fun rh => Nat.eqb r (fst rh) && snd rh) rs.

Lemma hij_in_In : forall r rs, hij_in r rs = true <-> In (r, true) rs.
Proof.
  intros r rs. unfold hij_in. rewrite existsb_exists. split.
  - intros ([r' h] & Hi & Hb). cbn in Hb. apply andb_prop in Hb. destruct Hb as [Hb ->].
    apply Nat.eqb_eq in Hb. now subst.
  - intros Hi. exists (r, true). split; auto. cbn. now rewrite Nat.eqb_refl.
Qed.

Lemma mark_hij_get : forall rs rq r,
  nget (mark_hij rs rq) r =
  match nget rq r with
  | Some q => Some (mkR (r_phase q) (r_cancelled q || hij_in r rs))
  | None => None
  end.
Proof.
  unfold mark_hij, hij_in. induction rs as [|[r0 h] rs IH]; intros rq r; cbn [fold_left existsb fst snd].
  - destruct (nget rq r) as [[p c]|]; cbn; auto. now rewrite orb_false_r.
  - rewrite IH. destruct h; cbn [andb].
    + destruct (nget rq r0) as [q0|] eqn:E0.
      * rewrite nget_nset. destruct (Nat.eqb_spec r r0) as [->|Hne].
        -- rewrite E0. cbn. f_equal. f_equal. now rewrite orb_true_r.
        -- cbn. reflexivity.
      * destruct (Nat.eqb_spec r r0) as [->|Hne]; [rewrite E0; reflexivity|reflexivity].
    + rewrite andb_false_r. reflexivity.
Qed.

Lemma phase_of_markh : forall st st' rs r,
  phase_of (upd_reqs st (mark_hij rs (reqs st'))) r = phase_of st' r.
Proof.
  intros. unfold phase_of, upd_reqs. cbn [reqs]. rewrite mark_hij_get. destruct (nget (reqs st') r); reflexivity.
Qed.

Lemma cancelled_markh : forall st st' rs r,
  cancelled (upd_reqs st (mark_hij rs (reqs st'))) r =
  cancelled st' r || (hij_in r rs && match nget (reqs st') r with Some _ => true | None => false end).
Proof.
  intros. unfold cancelled, upd_reqs. cbn [reqs]. rewrite mark_hij_get.
  destruct (nget (reqs st') r); cbn; [now rewrite andb_true_r | now rewrite andb_false_r].
Qed.

(** the request is an upgraded connection: its target answered 101 *)
Definition upgraded (s : state) (r : nat) : bool :=
  match phase_of s r with Some (PReplied _ s101) => N.eqb s101 101 | _ => false end.

Lemma flags_spec : forall s rs,
  forallb (fun rh => Bool.eqb (snd rh) (upgraded s (fst rh))) rs = true ->
  forall r h, In (r, h) rs -> h = upgraded s r.
Proof.
  intros s rs H r h Hi. rewrite forallb_forall in H. specialize (H _ Hi). cbn in H. now apply Bool.eqb_prop in H.
Qed.

Lemma upgraded_phase : forall s r, upgraded s r = true <-> exists t, phase_of s r = Some (PReplied t 101%N).
Proof.
  intros s r. unfold upgraded. split.
  - destruct (phase_of s r) as [[]|]; try discriminate. intros H. apply N.eqb_eq in H. subst. eauto.
  - intros (t & ->). reflexivity.
Qed.

Global Hint Rewrite targets_set_phase lbs_set_phase svcs_set_phase installed_set_phase tgt_names_set_phase clock_set_phase
  targets_taint reqs_taint svcs_taint installed_taint tgt_names_taint clock_taint
  phase_of_tick phase_of_upd_targets phase_of_upd_lbs phase_of_upd_svcs phase_of_upd_installed
  phase_of_set_tstate phase_of_set_drains phase_of_taint phase_of_set_phase phase_of_arrive phase_of_mark
  cancelled_tick cancelled_upd_targets cancelled_upd_lbs cancelled_upd_svcs cancelled_upd_installed
  cancelled_set_tstate cancelled_set_drains cancelled_taint cancelled_set_phase cancelled_mark
  phase_of_mkSt cancelled_mkSt phase_of_markh cancelled_markh : st.

Ltac fold_mark :=
  repeat match goal with
  | |- context [fold_left (fun acc r => match nget acc r with
                                        | Some q => nset acc r (mkR (r_phase q) true)
                                        | None => acc end) ?still ?rq] =>
    change (fold_left (fun acc r => match nget acc r with
                                    | Some q => nset acc r (mkR (r_phase q) true)
                                    | None => acc end) still rq) with (mark_cancelled still rq)
  | H : context [fold_left (fun acc r => match nget acc r with
                                        | Some q => nset acc r (mkR (r_phase q) true)
                                        | None => acc end) ?still ?rq] |- _ =>
    change (fold_left (fun acc r => match nget acc r with
                                    | Some q => nset acc r (mkR (r_phase q) true)
                                    | None => acc end) still rq) with (mark_cancelled still rq) in H
  end.

Ltac fold_markh :=
  repeat match goal with
  | |- context [fold_left (fun acc (rh : nat * bool) => if snd rh then
                   match nget acc (fst rh) with
                   | Some q => nset acc (fst rh) (mkR (r_phase q) true)
                   | None => acc end else acc) ?rs ?rq] =>
    change (fold_left (fun acc (rh : nat * bool) => if snd rh then
                   match nget acc (fst rh) with
                   | Some q => nset acc (fst rh) (mkR (r_phase q) true)
                   | None => acc end else acc) rs rq) with (mark_hij rs rq)
  | H : context [fold_left (fun acc (rh : nat * bool) => if snd rh then
                   match nget acc (fst rh) with
                   | Some q => nset acc (fst rh) (mkR (r_phase q) true)
                   | None => acc end else acc) ?rs ?rq] |- _ =>
    change (fold_left (fun acc (rh : nat * bool) => if snd rh then
                   match nget acc (fst rh) with
                   | Some q => nset acc (fst rh) (mkR (r_phase q) true)
                   | None => acc end else acc) rs rq) with (mark_hij rs rq) in H
  end.

Ltac fold_add_new :=
  repeat match goal with
  | |- context [fold_left (fun acc t => nset acc t (mkT ?lb TAdding [] [] false)) ?ts ?tg] =>
    change (fold_left (fun acc t => nset acc t (mkT lb TAdding [] [] false)) ts tg) with (add_new lb ts tg)
  | H : context [fold_left (fun acc t => nset acc t (mkT ?lb TAdding [] [] false)) ?ts ?tg] |- _ =>
    change (fold_left (fun acc t => nset acc t (mkT lb TAdding [] [] false)) ts tg) with (add_new lb ts tg) in H
  end.

(** after [step_inv]: push projections through the explicit new state *)
Ltac norm := fold_mark; fold_markh; fold_add_new; proj; autorewrite with st in *; proj.

Ltac heap_cases :=
  repeat match goal with
  | H : context [nget (nset _ ?k _) ?k] |- _ => rewrite nget_nset_same in H
  | |- context [nget (nset _ ?k _) ?k] => rewrite nget_nset_same
  | H : context [nget (nset _ ?k _) ?k'] |- _ =>
    rewrite nget_nset in H; destruct (Nat.eqb_spec k' k); [subst|]
  | |- context [nget (nset _ ?k _) ?k'] =>
    rewrite nget_nset; destruct (Nat.eqb_spec k' k); [subst|]
  end.

Ltac eqb_cases :=
  repeat match goal with
  | H : context [Nat.eqb ?a ?a] |- _ => rewrite Nat.eqb_refl in H
  | |- context [Nat.eqb ?a ?a] => rewrite Nat.eqb_refl
  | H : context [Nat.eqb ?a ?b] |- _ => destruct (Nat.eqb_spec a b); [subst|]
  | |- context [Nat.eqb ?a ?b] => destruct (Nat.eqb_spec a b); [subst|]
  end.

Ltac inj_some :=
  repeat match goal with
  | H : Some _ = Some _ |- _ => injection H as H; try subst
  | H : Some _ = None |- _ => discriminate H
  | H : None = Some _ |- _ => discriminate H
  end.

(** * Request phases only move forward *)

Definition rank (p : rphase) : nat :=
  match p with
  | PArrived => 0 | PRouted _ => 1 | PGate _ _ => 2 | PPicked _ _ => 3 | PLbClaimed _ _ => 4
  | PRefused _ => 5 | PClaimed _ => 5 | PAtTarget _ => 6 | PReplied _ _ => 7 | PFailed _ _ => 7
  | PEnded _ _ => 8 | PDone => 9
  end.

(** the request is past its claim attempt: it cannot be claimed (again) *)
Definition past_claim (p : rphase) : bool :=
  match p with
  | PRefused _ | PClaimed _ | PAtTarget _ | PReplied _ _ | PFailed _ _ | PEnded _ _ | PDone => true
  | _ => false
  end.

(** the target a request is in flight on *)
Definition on_target (p : rphase) : option nat :=
  match p with
  | PClaimed t | PAtTarget t | PReplied t _ | PFailed t _ => Some t
  | _ => None
  end.

Lemma outcome_on_target : forall p t st, outcome_status p = Some (t, st) -> on_target p = Some t.
Proof.
  intros p t st H. destruct p; cbn in H; try discriminate.
  - inversion H; reflexivity.
  - destruct why as [|[q|q|]]; inversion H; reflexivity.
Qed.

Lemma outcome_rank : forall p x, outcome_status p = Some x -> rank p = 7.
Proof. intros p x H. destruct p; cbn in H; try discriminate; reflexivity. Qed.

Lemma step_phase : forall s e s' r p,
  step s e = Some s' -> phase_of s r = Some p ->
  exists p', phase_of s' r = Some p' /\ (p' = p \/ rank p < rank p').
Proof.
  intros s e s' r p H Hp. step_inv H; norm; eqb_cases; eauto.
  all: rewrite Hp in *; inj_some; try discriminate;
       try match goal with Ho : outcome_status _ = Some _ |- _ => apply outcome_rank in Ho end;
       try match goal with Hq : r_phase _ = _ |- _ => rewrite Hq in * end;
       eexists; (split; [reflexivity|right; cbn; lia]).
Qed.

Lemma past_claim_rank : forall p, past_claim p = true <-> 5 <= rank p.
Proof. intros p. destruct p; cbn; split; intros; try lia; try discriminate; auto. Qed.

Lemma on_target_past : forall p t, on_target p = Some t -> past_claim p = true.
Proof. intros p t H. destruct p; cbn in *; congruence. Qed.

Lemma run_phase : forall tr s s' r p,
  run step s tr = Some s' -> phase_of s r = Some p ->
  exists p', phase_of s' r = Some p' /\ rank p <= rank p'.
Proof.
  induction tr as [|e tr IH]; intros s s' r p Hrun Hp; cbn in Hrun.
  - inversion Hrun; subst. eauto.
  - destruct (step s e) as [s1|] eqn:E; [|discriminate].
    destruct (step_phase _ _ _ _ _ E Hp) as (p1 & Hp1 & Hr1).
    destruct (IH _ _ _ _ Hrun Hp1) as (p' & Hp' & Hr'). exists p'. split; auto.
    destruct Hr1 as [->|Hr1]; lia.
Qed.
