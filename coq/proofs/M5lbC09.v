(** M5lbC09.v — the lemmas behind props/C09.v (rotation, exclusion, recovery, fairness). *)
From KP Require Import model.Base model.Trace model.M5lb proofs.M5lbFacts proofs.M5lbHist proofs.M5lbC01.
From Coq Require Import ZifyN ZifyNat ZifyBool.
Local Open Scope nat_scope.

(** * The rotation is what the last KRotation event said *)

Definition rot_upd (lb : nat) (acc : list nat) (e : event) : list nat :=
  match e_k e with
  | KRotation l hs => if Nat.eqb l lb then hs else acc
  | _ => acc
  end.
Definition last_rot (tr : trace) (lb : nat) : list nat := fold_left (rot_upd lb) tr [].

Lemma last_rot_snoc : forall pre e lb, last_rot (pre ++ [e]) lb = rot_upd lb (last_rot pre lb) e.
Proof. intros. unfold last_rot. now rewrite fold_left_app. Qed.

Record RInv (pre : trace) (s : state) : Prop := mkRInv {
  r_rot : forall lb b, nget (bals s) lb = Some b -> b_rot b = last_rot pre lb;
  r_none : forall lb, nget (bals s) lb = None -> last_rot pre lb = [];
  r_pend : forall r p t, nget (pend s) r = Some p -> p_choice p = Some t ->
           exists l1 e l2, pre = l1 ++ e :: l2 /\ e_k e = KLbClaim (p_lb p) (Some t) r /\ In t (last_rot l1 (p_lb p))
}.

Lemma rinv_init : RInv [] init.
Proof. constructor; cbn; intros; try discriminate; reflexivity. Qed.

Lemma rpres_rot : forall pre s e s', RInv pre s -> step s e = Some s' ->
  forall lb b, nget (bals s') lb = Some b -> b_rot b = last_rot (pre ++ [e]) lb.
Proof.
  intros pre s [tm a k] s' HR H lb b Hb. rewrite last_rot_snoc. unfold rot_upd. cbn [e_k].
  destruct k; step_inv H; proj_simp; try (eapply (r_rot _ _ HR); eauto; fail).
  all: norm; try (eapply (r_rot _ _ HR); eauto; fail).
  all: try (split_ands; discriminate).
  all: try rewrite Nat.eqb_refl; try reflexivity.
  all: try (match goal with Hn : ?x <> ?y |- context [Nat.eqb ?y ?x] => destruct (Nat.eqb_spec y x); [congruence|] end;
            eapply (r_rot _ _ HR); eauto; fail).
  all: try (unmark; rewrite Hs_rot; eapply (r_rot _ _ HR); eauto; fail).
  all: split_ands; symmetry; eapply (r_none _ _ HR); now apply fresh_none.
Qed.

Lemma rpres_none : forall pre s e s', RInv pre s -> step s e = Some s' ->
  forall lb, nget (bals s') lb = None -> last_rot (pre ++ [e]) lb = [].
Proof.
  intros pre s [tm a k] s' HR H lb Hb. rewrite last_rot_snoc. unfold rot_upd. cbn [e_k].
  destruct k; step_inv H; proj_simp; try (eapply (r_none _ _ HR); eauto; fail).
  all: norm; try (eapply (r_none _ _ HR); eauto; fail).
  all: try (match goal with Hn : ?x <> ?y |- context [Nat.eqb ?y ?x] => destruct (Nat.eqb_spec y x); [congruence|] end;
            eapply (r_none _ _ HR); eauto; fail).
  all: eapply (r_none _ _ HR); eapply mark_restored_none; eauto.
Qed.

Lemma rpres_pend : forall pre s e s', Inv s -> RInv pre s -> step s e = Some s' ->
  forall r p t, nget (pend s') r = Some p -> p_choice p = Some t ->
  exists l1 e0 l2, pre ++ [e] = l1 ++ e0 :: l2 /\ e_k e0 = KLbClaim (p_lb p) (Some t) r /\ In t (last_rot l1 (p_lb p)).
Proof.
  intros pre s e s' HI HR H r p t Hp Hc.
  assert (Hold : nget (pend s) r = Some p ->
     exists l1 e0 l2, pre ++ [e] = l1 ++ e0 :: l2 /\ e_k e0 = KLbClaim (p_lb p) (Some t) r /\ In t (last_rot l1 (p_lb p))).
  { intros H0. destruct (r_pend _ _ HR _ _ _ H0 Hc) as [l1 [e0 [l2 [Hd [Hk Hin]]]]].
    exists l1, e0, (l2 ++ [e]). repeat split; auto. subst pre. rewrite <- app_assoc. reflexivity. }
  destruct e as [tm a k]. destruct k; step_inv H; proj_simp; try (apply Hold; auto; fail).
  all: norm; try (apply Hold; auto; fail).
  all: try discriminate.
  inj_some. split_ands. eexists pre, _, []. repeat split; try reflexivity.
  rewrite <- (r_rot _ _ HR _ _ Heqo0).
  match goal with H : opt_nat_eqb _ _ = true |- _ => apply opt_nat_eqb_eq in H; apply nth_error_In in H; exact H end.
Qed.

Theorem rinv_run : forall tr s, run step init tr = Some s -> RInv tr s.
Proof.
  intros tr s H.
  apply (run_hinv0 step (fun pre s => RInv pre s) init rinv_init) with (tr := tr); auto.
  intros pre s0 e s1 Hr HR Hs. constructor.
  - eapply rpres_rot; eauto.
  - eapply rpres_none; eauto.
  - eapply rpres_pend; eauto. eapply inv_run; eauto.
Qed.

(** every forwarded request was given its target by the round-robin pick, from the rotation
    of that moment *)
Theorem claims_in_rotation : forall tr s i t r,
  run step init tr = Some s -> at_ tr i (KClaim t r) ->
  exists j lb, j < i /\ at_ tr j (KLbClaim lb (Some t) r) /\ In t (last_rot (firstn j tr) lb).
Proof.
  intros tr s i t r Hrun [[tm a k] [Hi Hk]]. cbn in Hk; subst k.
  destruct (run_split step _ _ _ _ _ Hrun Hi) as [si [si' [H1 [H2 _]]]].
  destruct (step_claim _ _ _ _ _ _ H2) as [p [x [Hp [Hc _]]]].
  destruct (r_pend _ _ (rinv_run _ _ H1) _ _ _ Hp Hc) as [l1 [e0 [l2 [Hd [Hk Hin]]]]].
  assert (Hlen : length (firstn i tr) <= i) by apply firstn_le_length.
  assert (Hl : length (firstn i tr) = length l1 + S (length l2)) by (rewrite Hd, app_length; cbn; lia).
  exists (length l1), (p_lb p). split; [lia|]. split.
  - exists e0. split; auto. rewrite <- (nth_error_firstn_lt _ tr i) by lia. rewrite Hd. apply nth_error_mid.
  - assert (E : firstn (length l1) tr = l1).
    { transitivity (firstn (length l1) (firstn i tr)).
      - rewrite firstn_firstn. f_equal. lia.
      - rewrite Hd. rewrite firstn_app, Nat.sub_diag, firstn_all. cbn. now rewrite app_nil_r. }
    rewrite E. exact Hin.
Qed.

Theorem rotation_is_last_event : forall tr s lb b,
  run step init tr = Some s -> nget (bals s) lb = Some b -> b_rot b = last_rot tr lb.
Proof. intros tr s lb b H Hb. eapply (r_rot _ _ (rinv_run _ _ H)); eauto. Qed.


(** * Exclusion and recovery *)

(** events that can make target [t] healthy: a successful probe result, or a direct state
    write (MarkAllHealthy, or the restore at the end of a Drain) *)
Definition mk_healthy (t : nat) (e : event) : bool :=
  match e_k e with
  | KProbeApply t' true _ _ => Nat.eqb t' t
  | KStateSet t' _ THealthy => Nat.eqb t' t
  | _ => false
  end.

(** events that can take [t] out of "healthy" *)
Definition mk_unhealthy (t : nat) (e : event) : bool :=
  match e_k e with
  | KProbeApply t' false _ _ => Nat.eqb t' t
  | KStateSet t' _ _ => Nat.eqb t' t
  | _ => false
  end.

Definition rot_with (t lb : nat) (e : event) : bool :=
  match e_k e with
  | KRotation l hs => Nat.eqb l lb && nmem t hs
  | _ => false
  end.

Lemma step_stays_unhealthy : forall s e s' t x,
  step s e = Some s' -> nget (tgts s) t = Some x -> t_st x <> THealthy -> mk_healthy t e = false ->
  exists x', nget (tgts s') t = Some x' /\ t_st x' <> THealthy.
Proof.
  intros s [tm a k] s' t x H Hx Hst Hm. unfold mk_healthy in Hm. cbn [e_k] in Hm.
  destruct k; step_inv H; proj_simp; try (exists x; auto; fail).
  all: norm; try (exists x; auto; fail).
  all: try (split_ands; erewrite add_targets_old by eauto; exists x; auto; fail).
  all: try (eexists; split; [reflexivity|]; proj_simp; auto; fail).
  all: try (rewrite Nat.eqb_refl in Hm; discriminate Hm).
  all: try (split_ands; discriminate).
  all: eexists; split; [reflexivity|]; proj_simp.
  all: try (split_ands; match goal with H : tstate_eqb ?nw (probe_next _ _) = true |- _ => apply tstate_eqb_eq in H; subst nw end;
            unfold probe_next; destruct (t_st x); congruence).
  all: destruct new; try congruence; rewrite Nat.eqb_refl in Hm; discriminate.
Qed.

Lemma step_stays_healthy : forall s e s' t x,
  step s e = Some s' -> nget (tgts s) t = Some x -> t_st x = THealthy -> mk_unhealthy t e = false ->
  exists x', nget (tgts s') t = Some x' /\ t_st x' = THealthy.
Proof.
  intros s [tm a k] s' t x H Hx Hst Hm. unfold mk_unhealthy in Hm. cbn [e_k] in Hm.
  destruct k; step_inv H; proj_simp; try (exists x; auto; fail).
  all: norm; try (exists x; auto; fail).
  all: try (split_ands; erewrite add_targets_old by eauto; exists x; auto; fail).
  all: try (eexists; split; [reflexivity|]; proj_simp; auto; fail).
  all: try (rewrite Nat.eqb_refl in Hm; discriminate Hm).
  all: try (split_ands; discriminate).
  all: eexists; split; [reflexivity|]; proj_simp.
  all: try (split_ands; match goal with H : tstate_eqb ?nw (probe_next _ _) = true |- _ => apply tstate_eqb_eq in H; subst nw end;
            unfold probe_next; reflexivity).
Qed.

Lemma step_stays_out : forall s e s' lb b t,
  step s e = Some s' -> nget (bals s) lb = Some b -> ~ In t (b_rot b) -> rot_with t lb e = false ->
  exists b', nget (bals s') lb = Some b' /\ ~ In t (b_rot b').
Proof.
  intros s [tm a k] s' lb b t H Hb Hn Hm. unfold rot_with in Hm. cbn [e_k] in Hm.
  destruct k; step_inv H; proj_simp; try (exists b; auto; fail).
  all: norm; try (exists b; auto; fail).
  all: try (eexists; split; [reflexivity|]; proj_simp; auto; fail).
  all: try (split_ands; match goal with H : fresh (bals _) _ = true |- _ => apply fresh_none in H end; congruence).
  all: try (match goal with |- context [mark_restored ?lbs _] =>
              destruct (mark_fwd lbs _ _ _ Hb) as [b' [Hb' [[Hs_ts [Hs_rot [Hs_idx _]]] _]]] end;
            exists b'; rewrite Hs_rot; auto; fail).
  all: eexists; split; [reflexivity|]; proj_simp; rewrite Nat.eqb_refl in Hm; cbn in Hm; now apply nmem_false.
Qed.

Lemma run_stays_unhealthy : forall seg s s' t x,
  run step s seg = Some s' -> nget (tgts s) t = Some x -> t_st x <> THealthy -> existsb (mk_healthy t) seg = false ->
  exists x', nget (tgts s') t = Some x' /\ t_st x' <> THealthy.
Proof.
  induction seg as [|e seg IH]; intros s s' t x H Hx Hst Hm; cbn in H.
  - inversion H; subst. eauto.
  - destruct (step s e) as [s1|] eqn:E; [|discriminate]. cbn in Hm. apply orb_false_iff in Hm. destruct Hm as [Hm1 Hm2].
    destruct (step_stays_unhealthy _ _ _ _ _ E Hx Hst Hm1) as [x1 [Hx1 Hst1]]. eapply IH; eauto.
Qed.

Lemma run_stays_healthy : forall seg s s' t x,
  run step s seg = Some s' -> nget (tgts s) t = Some x -> t_st x = THealthy -> existsb (mk_unhealthy t) seg = false ->
  exists x', nget (tgts s') t = Some x' /\ t_st x' = THealthy.
Proof.
  induction seg as [|e seg IH]; intros s s' t x H Hx Hst Hm; cbn in H.
  - inversion H; subst. eauto.
  - destruct (step s e) as [s1|] eqn:E; [|discriminate]. cbn in Hm. apply orb_false_iff in Hm. destruct Hm as [Hm1 Hm2].
    destruct (step_stays_healthy _ _ _ _ _ E Hx Hst Hm1) as [x1 [Hx1 Hst1]]. eapply IH; eauto.
Qed.

Lemma run_stays_out : forall seg s s' lb b t,
  run step s seg = Some s' -> nget (bals s) lb = Some b -> ~ In t (b_rot b) -> existsb (rot_with t lb) seg = false ->
  exists b', nget (bals s') lb = Some b' /\ ~ In t (b_rot b').
Proof.
  induction seg as [|e seg IH]; intros s s' lb b t H Hb Hn Hm; cbn in H.
  - inversion H; subst. eauto.
  - destruct (step s e) as [s1|] eqn:E; [|discriminate]. cbn in Hm. apply orb_false_iff in Hm. destruct Hm as [Hm1 Hm2].
    destruct (step_stays_out _ _ _ _ _ _ E Hb Hn Hm1) as [b1 [Hb1 Hn1]]. eapply IH; eauto.
Qed.


Lemma run_mid : forall St (stp : St -> event -> option St) X e Y s0 s,
  run stp s0 (X ++ e :: Y) = Some s ->
  exists s1 s2, run stp s0 X = Some s1 /\ stp s1 e = Some s2 /\ run stp s2 Y = Some s.
Proof.
  intros St stp X e Y s0 s H. rewrite run_app in H. destruct (run stp s0 X) as [s1|]; [|discriminate].
  cbn in H. destruct (stp s1 e) as [s2|] eqn:E; [|discriminate]. eauto.
Qed.

Lemma run_join : forall St (stp : St -> event -> option St) X e Y s0 s1 s2 s,
  run stp s0 X = Some s1 -> stp s1 e = Some s2 -> run stp s2 Y = Some s -> run stp s0 (X ++ e :: Y) = Some s.
Proof. intros. rewrite run_app. rewrite H. cbn. rewrite H0. exact H1. Qed.

Lemma step_rotation : forall s tm a lb hs s', step s (mkEv tm a (KRotation lb hs)) = Some s' ->
  exists b b', nget (bals s) lb = Some b /\ hs = healthy_of (tgts s) (b_ts b) /\
    nget (bals s') lb = Some b' /\ b_rot b' = hs /\ b_ts b' = b_ts b.
Proof.
  intros s tm a lb hs s' H. step_inv H; proj_simp; rewrite nget_nset_same;
  do 2 eexists; repeat split; try reflexivity; now apply nlist_eqb_eq.
Qed.

Lemma step_probe : forall s tm a t ok prev new s', step s (mkEv tm a (KProbeApply t ok prev new)) = Some s' ->
  exists x x', nget (tgts s) t = Some x /\ new = probe_next (t_st x) ok /\ nget (tgts s') t = Some x' /\ t_st x' = new.
Proof.
  intros s tm a t ok prev new s' H. step_inv H; proj_simp; rewrite nget_nset_same; split_ands;
  do 2 eexists; repeat split; try reflexivity; now apply tstate_eqb_eq.
Qed.

Lemma step_lbclaim_some : forall s tm a lb t r s', step s (mkEv tm a (KLbClaim lb (Some t) r)) = Some s' ->
  exists b, nget (bals s) lb = Some b /\ In t (b_rot b) /\
            nth_error (b_rot b) (next_idx (b_idx b) (length (b_rot b))) = Some t /\
            exists b', nget (bals s') lb = Some b' /\ b_rot b' = b_rot b /\ b_idx b' = next_idx (b_idx b) (length (b_rot b)).
Proof.
  intros s tm a lb t r s' H. step_inv H; proj_simp. split_ands.
  match goal with H : opt_nat_eqb _ _ = true |- _ => apply opt_nat_eqb_eq in H end.
  eexists; repeat split; eauto.
  - eapply nth_error_In; eauto.
  - rewrite nget_nset_same. eexists; repeat split; reflexivity.
Qed.

Lemma healthy_of_In : forall tg ts t, In t (healthy_of tg ts) -> exists x, nget tg t = Some x /\ t_st x = THealthy.
Proof.
  intros tg ts t H. apply filter_In in H. destruct H as [_ H]. unfold is_healthy in H.
  destruct (nget tg t) as [x|]; [|discriminate]. exists x. split; auto. now apply tstate_eqb_eq.
Qed.

(** after a failing probe result and the rebuild of the rotation, the target is handed to no request
    until something made it healthy again AND the rotation was rebuilt with it *)
Theorem exclusion : forall A eI B eJ C eK D s t lb lb' hs r bF,
  run step init (A ++ eI :: B ++ eJ :: C ++ eK :: D) = Some s ->
  e_k eI = KProbeApply t false THealthy TUnhealthy ->
  e_k eJ = KRotation lb hs ->
  nget (bals s) lb = Some bF -> In t (b_ts bF) ->
  e_k eK = KLbClaim lb' (Some t) r ->
  lb' = lb /\
  exists M1 e1 M2 e2 M3 hs', B ++ eJ :: C = M1 ++ e1 :: M2 ++ e2 :: M3 /\
    mk_healthy t e1 = true /\ e_k e2 = KRotation lb hs' /\ In t hs'.
Proof.
  intros A [tI aI kI] B [tJ aJ kJ] C [tK aK kK] D s t lb lb' hs r bF Hrun HI HJ HbF HinF HK. cbn in HI, HJ, HK. subst kI kJ kK.
  destruct (run_mid _ step _ _ _ _ _ Hrun) as [sA [sI' [RA [SI R1]]]].
  destruct (run_mid _ step _ _ _ _ _ R1) as [sB [sJ' [RB [SJ R2]]]].
  destruct (run_mid _ step _ _ _ _ _ R2) as [sC [sK' [RC [SK RD]]]].
  pose proof (inv_run _ _ RA) as IA.
  pose proof (inv_step _ _ _ IA SI) as II'.
  pose proof (inv_run_from _ _ _ II' RB) as IB.
  pose proof (inv_step _ _ _ IB SJ) as IJ'.
  pose proof (inv_run_from _ _ _ IJ' RC) as IC.
  destruct (step_probe _ _ _ _ _ _ _ _ SI) as [x0 [xI [Hx0 [_ [HxI HstI]]]]].
  destruct (step_rotation _ _ _ _ _ _ SJ) as [bJ [bJ' [HbJ [Hhs [HbJ' [Hrot Hts]]]]]].
  destruct (step_lbclaim_some _ _ _ _ _ _ _ SK) as [bK [HbK [HinK _]]].
  (* the balancer of the claim is the balancer of the rotation *)
  destruct (run_bal_stable _ _ _ _ _ RC HbJ') as [bC [HbC [HtsC _]]].
  destruct (bal_stable _ _ _ _ _ SK HbC) as [bC1 [HbC1 [HtsC1 _]]].
  destruct (run_bal_stable _ _ _ _ _ RD HbC1) as [bF' [HbF' [HtsF _]]].
  rewrite HbF in HbF'. inversion HbF'; subst bF'.
  assert (HinC : In t (b_ts bC)) by congruence.
  destruct (i_ts _ IC _ _ _ HbC HinC) as [x1 [Hx1 Hl1]].
  pose proof (i_rot _ IC _ _ _ HbK HinK) as HinK'.
  destruct (i_ts _ IC _ _ _ HbK HinK') as [x2 [Hx2 Hl2]].
  rewrite Hx1 in Hx2. inversion Hx2; subst x2.
  assert (Elb : lb' = lb) by congruence. split; auto. rewrite Elb in HbK.
  rewrite HbC in HbK. inversion HbK; subst bK.
  destruct (nmem t hs) eqn:Ehs.
  - (* the rotation already contains t: it was made healthy between the probe and the rotation *)
    apply nmem_In in Ehs. pose proof Ehs as Ehs'. rewrite Hhs in Ehs'.
    destruct (healthy_of_In _ _ _ Ehs') as [xB [HxB HstB]].
    destruct (existsb (mk_healthy t) B) eqn:EB.
    + apply existsb_exists in EB. destruct EB as [e1 [Hin1 Hm1]].
      apply in_split in Hin1. destruct Hin1 as [M1 [M2 ->]].
      exists M1, e1, M2, (mkEv tJ aJ (KRotation lb hs)), C, hs.
      repeat split; auto. rewrite <- app_assoc. reflexivity.
    + exfalso. assert (Hne : t_st xI <> THealthy) by (rewrite HstI; discriminate).
      destruct (run_stays_unhealthy _ _ _ _ _ RB HxI Hne EB) as [x' [Hx' Hst']]. congruence.
  - apply nmem_false in Ehs. assert (Hout : ~ In t (b_rot bJ')) by (rewrite Hrot; exact Ehs).
    destruct (existsb (rot_with t lb) C) eqn:EC.
    + apply existsb_exists in EC. destruct EC as [e2 [Hin2 Hm2]].
      apply in_split in Hin2. destruct Hin2 as [C1 [C2 ->]].
      destruct e2 as [t2 a2 k2]. unfold rot_with in Hm2. cbn in Hm2.
      destruct k2; try discriminate Hm2. apply andb_prop in Hm2. destruct Hm2 as [Hl Ht].
      apply Nat.eqb_eq in Hl. subst lb0. apply nmem_In in Ht.
      destruct (run_mid _ step _ _ _ _ _ RC) as [sC1 [sC1' [RC1 [S2 _]]]].
      destruct (step_rotation _ _ _ _ _ _ S2) as [b2 [_ [_ [Hhs2 _]]]].
      pose proof Ht as Ht'. rewrite Hhs2 in Ht'.
      destruct (healthy_of_In _ _ _ Ht') as [x3 [Hx3 Hst3]].
      pose proof (run_join _ step _ _ _ _ _ _ _ RB SJ RC1) as RBC.
      destruct (existsb (mk_healthy t) (B ++ mkEv tJ aJ (KRotation lb hs) :: C1)) eqn:EB.
      * apply existsb_exists in EB. destruct EB as [e1 [Hin1 Hm1]].
        apply in_split in Hin1. destruct Hin1 as [M1 [M2 HM]].
        exists M1, e1, M2, (mkEv t2 a2 (KRotation lb healthy)), C2, healthy.
        repeat split; auto.
        transitivity ((B ++ mkEv tJ aJ (KRotation lb hs) :: C1) ++ mkEv t2 a2 (KRotation lb healthy) :: C2).
        { rewrite <- app_assoc. reflexivity. }
        rewrite HM. rewrite <- app_assoc. reflexivity.
      * exfalso. assert (Hne : t_st xI <> THealthy) by (rewrite HstI; discriminate).
        destruct (run_stays_unhealthy _ _ _ _ _ RBC HxI Hne EB) as [x' [Hx' Hst']]. congruence.
    + exfalso. destruct (run_stays_out _ _ _ _ _ _ RC HbJ' Hout EC) as [b' [Hb' Hn']].
      rewrite HbC in Hb'. inversion Hb'; subst b'. contradiction.
Qed.

(** a target whose probe succeeded is in the next rebuilt rotation of its balancer (unless a
    failing probe result or a direct state write came in between) *)
Theorem recovery : forall A eI B eJ D s t lb hs prev new bF,
  run step init (A ++ eI :: B ++ eJ :: D) = Some s ->
  e_k eI = KProbeApply t true prev new -> e_k eJ = KRotation lb hs ->
  nget (bals s) lb = Some bF -> In t (b_ts bF) ->
  existsb (mk_unhealthy t) B = false ->
  In t hs /\ exists sJ b, run step init (A ++ eI :: B ++ [eJ]) = Some sJ /\ nget (bals sJ) lb = Some b /\ b_rot b = hs.
Proof.
  intros A [tI aI kI] B [tJ aJ kJ] D s t lb hs prev new bF Hrun HI HJ HbF HinF HB. cbn in HI, HJ. subst kI kJ.
  destruct (run_mid _ step _ _ _ _ _ Hrun) as [sA [sI' [RA [SI R1]]]].
  destruct (run_mid _ step _ _ _ _ _ R1) as [sB [sJ' [RB [SJ RD]]]].
  destruct (step_probe _ _ _ _ _ _ _ _ SI) as [x0 [xI [Hx0 [Hnew [HxI HstI]]]]].
  destruct (step_rotation _ _ _ _ _ _ SJ) as [bJ [bJ' [HbJ [Hhs [HbJ' [Hrot Hts]]]]]].
  destruct (run_bal_stable _ _ _ _ _ RD HbJ') as [bF' [HbF' [HtsF _]]].
  rewrite HbF in HbF'. inversion HbF'; subst bF'.
  assert (Hh : t_st xI = THealthy) by (rewrite HstI, Hnew; reflexivity).
  destruct (run_stays_healthy _ _ _ _ _ RB HxI Hh HB) as [xB [HxB HstB]].
  assert (Hin : In t hs).
  { rewrite Hhs. apply filter_In. split; [congruence|]. unfold is_healthy. rewrite HxB. now apply tstate_eqb_eq. }
  split; auto. exists sJ', bJ'. repeat split; auto.
  eapply run_join; eauto. apply run_snoc. eauto.
Qed.

Lemma none_healthy : forall s tm a lb c r s' b,
  step s (mkEv tm a (KLbClaim lb c r)) = Some s' -> nget (bals s) lb = Some b -> (b_rot b = [] <-> c = None).
Proof.
  intros s tm a lb c r s' b H Hb. step_inv H; inj_some; split; intros; try congruence; try discriminate.
  split_ands. match goal with H : (0 <? _) = true, E : b_rot _ = [] |- _ => rewrite E in H; cbn in H; discriminate end.
Qed.

(** what the code does (suspected defect D12): a successful probe result takes a draining target back to healthy *)
Lemma drain_overrides : forall s tm a t prev new s' x,
  step s (mkEv tm a (KProbeApply t true prev new)) = Some s' -> nget (tgts s) t = Some x -> t_st x = TDraining ->
  new = THealthy /\ exists x', nget (tgts s') t = Some x' /\ t_st x' = THealthy.
Proof.
  intros s tm a t prev new s' x H Hx Hst.
  destruct (step_probe _ _ _ _ _ _ _ _ H) as [x0 [x' [Hx0 [Hn [Hx' Hst']]]]].
  cbn in Hn. split; auto. exists x'. split; auto. congruence.
Qed.

(** * Fair rotation *)

(** the targets handed to [n] consecutive requests, starting after cursor [idx] *)
Fixpoint pick_seq (h : list nat) (idx n : nat) : list nat :=
  match n with
  | 0 => []
  | S n' => let i := next_idx idx (length h) in nth i h 0 :: pick_seq h i n'
  end.

Lemma pick_seq_map : forall h n idx, 0 < length h ->
  pick_seq h idx n = map (fun m => nth ((idx + m) mod length h) h 0) (seq 1 n).
Proof.
  intros h n. induction n as [|n IH]; intros idx Hk; cbn [pick_seq seq map].
  - reflexivity.
  - unfold next_idx. f_equal.
    + f_equal. f_equal. lia.
    + rewrite IH by auto. rewrite <- (seq_shift n 1). rewrite map_map. apply map_ext. intros m.
      f_equal. replace (idx + S m) with (S idx + m) by lia.
      rewrite Nat.add_mod_idemp_l by lia. reflexivity.
Qed.

Lemma mod_inj_window : forall k idx a b, 0 < k -> a <= b -> b - a < k -> (idx + a) mod k = (idx + b) mod k -> a = b.
Proof.
  intros k idx a b Hk Hab Hw H.
  pose proof (Nat.div_mod (idx + a) k ltac:(lia)) as E1.
  pose proof (Nat.div_mod (idx + b) k ltac:(lia)) as E2.
  rewrite H in E1. set (q1 := (idx + a) / k) in *. set (q2 := (idx + b) / k) in *. set (r := (idx + b) mod k) in *.
  assert (q1 <= q2) by nia. assert (q2 - q1 = 0 \/ 1 <= q2 - q1) as [Hq|Hq] by lia; nia.
Qed.

Lemma NoDup_map_inj_on : forall A B (f : A -> B) l, NoDup l ->
  (forall x y, In x l -> In y l -> f x = f y -> x = y) -> NoDup (map f l).
Proof.
  intros A B f l Hnd. induction Hnd as [|x l Hx Hnd IH]; intros Hinj; cbn; constructor.
  - intros Hin. apply in_map_iff in Hin. destruct Hin as [y [Hy Hin]].
    assert (y = x) by (apply Hinj; cbn; auto). subst. contradiction.
  - apply IH. intros a b Ha Hb. apply Hinj; cbn; auto.
Qed.

Lemma pick_seq_NoDup : forall h idx n, NoDup h -> 0 < length h -> n <= length h -> NoDup (pick_seq h idx n).
Proof.
  intros h idx n Hnd Hk Hn. rewrite pick_seq_map by auto. apply NoDup_map_inj_on.
  - apply seq_NoDup.
  - intros a b Ha Hb Hab. apply in_seq in Ha. apply in_seq in Hb.
    assert (Hpos : (idx + a) mod length h = (idx + b) mod length h).
    { rewrite (NoDup_nth h 0) in Hnd. apply Hnd; [apply Nat.mod_upper_bound; lia|apply Nat.mod_upper_bound; lia|exact Hab]. }
    destruct (le_lt_dec a b).
    + eapply mod_inj_window; eauto; lia.
    + symmetry. symmetry in Hpos. eapply mod_inj_window; eauto; lia.
Qed.

Lemma pick_seq_incl : forall h idx n, 0 < length h -> incl (pick_seq h idx n) h.
Proof.
  intros h idx n Hk. rewrite pick_seq_map by auto. intros x Hx. apply in_map_iff in Hx.
  destruct Hx as [m [<- _]]. apply nth_In. apply Nat.mod_upper_bound. lia.
Qed.

Lemma pick_seq_length : forall h idx n, length (pick_seq h idx n) = n.
Proof. intros h idx n. revert idx. induction n as [|n IH]; intros idx; cbn; auto. Qed.

Lemma pick_seq_cycle_count : forall h idx x, NoDup h -> 0 < length h -> In x h ->
  count_occ Nat.eq_dec (pick_seq h idx (length h)) x = 1.
Proof.
  intros h idx x Hnd Hk Hin.
  pose proof (pick_seq_NoDup h idx (length h) Hnd Hk (le_n _)) as Hnd'.
  apply (proj1 (NoDup_count_occ' Nat.eq_dec _) Hnd').
  assert (Hincl : incl h (pick_seq h idx (length h))).
  { apply NoDup_length_incl; [exact Hnd'|rewrite pick_seq_length; lia|apply pick_seq_incl; auto]. }
  apply Hincl. exact Hin.
Qed.

Lemma pick_seq_add_cycle : forall h idx m, 0 < length h ->
  pick_seq h idx (length h + m) = pick_seq h idx (length h) ++ pick_seq h idx m.
Proof.
  intros h idx m Hk. rewrite !pick_seq_map by auto. rewrite seq_app, map_app. f_equal.
  replace (1 + length h) with (length h + 1) by lia. generalize 1 as st.
  induction m as [|m IH]; intros st; cbn [seq map]; auto. f_equal.
  - f_equal. replace (idx + (length h + st)) with (idx + st + 1 * length h) by lia. now rewrite Nat.mod_add by lia.
  - replace (S (length h + st)) with (length h + S st) by lia. apply IH.
Qed.

(** strict rotation: any [n] consecutive picks give every healthy target floor(n/k) or ceil(n/k) requests *)
Theorem fair : forall h, NoDup h -> 0 < length h -> forall n idx x, In x h ->
  n / length h <= count_occ Nat.eq_dec (pick_seq h idx n) x <= (n + length h - 1) / length h.
Proof.
  intros h Hnd Hk n. induction n as [n IH] using lt_wf_ind. intros idx x Hin.
  destruct (le_lt_dec (length h) n) as [Hge|Hlt].
  - replace n with (length h + (n - length h)) by lia.
    rewrite pick_seq_add_cycle by auto. rewrite count_occ_app, pick_seq_cycle_count by auto.
    assert (Hm : n - length h < n) by lia. specialize (IH _ Hm idx x Hin).
    replace (length h + (n - length h)) with ((n - length h) + 1 * length h) by lia.
    replace ((n - length h) + 1 * length h + length h - 1) with ((n - length h + length h - 1) + 1 * length h) by lia.
    rewrite !Nat.div_add by lia. lia.
  - rewrite Nat.div_small by lia. split; [lia|].
    pose proof (pick_seq_NoDup h idx n Hnd Hk ltac:(lia)) as Hnd'.
    pose proof (proj1 (NoDup_count_occ Nat.eq_dec _) Hnd' x) as Hc.
    destruct n as [|n]; [cbn; lia|].
    assert (1 <= (S n + length h - 1) / length h).
    { apply Nat.div_le_lower_bound; lia. }
    lia.
Qed.

(** the targets handed out by balancer [lb] along a piece of trace *)
Definition claim_of (lb : nat) (e : event) : list nat :=
  match e_k e with
  | KLbClaim l (Some t) _ => if Nat.eqb l lb then [t] else []
  | _ => []
  end.
Definition claims_of (lb : nat) (seg : trace) : list nat := flat_map (claim_of lb) seg.

Definition is_rot (lb : nat) (e : event) : bool :=
  match e_k e with KRotation l _ => Nat.eqb l lb | _ => false end.

Lemma step_cursor : forall s e s' lb b,
  step s e = Some s' -> nget (bals s) lb = Some b -> is_rot lb e = false ->
  exists b', nget (bals s') lb = Some b' /\ b_rot b' = b_rot b /\
    ((claim_of lb e = [] /\ b_idx b' = b_idx b) \/
     (claim_of lb e = [nth (next_idx (b_idx b) (length (b_rot b))) (b_rot b) 0] /\ b_idx b' = next_idx (b_idx b) (length (b_rot b)))).
Proof.
  intros s [tm a k] s' lb b H Hb Hr. unfold is_rot in Hr. unfold claim_of. cbn [e_k] in *.
  destruct k; step_inv H; proj_simp; try (exists b; auto; fail).
  all: norm; try (exists b; auto; fail).
  all: try (eexists; split; [reflexivity|]; proj_simp; auto; fail).
  all: try (split_ands; match goal with H : fresh (bals _) _ = true |- _ => apply fresh_none in H end; congruence).
  all: try (match goal with |- context [mark_restored ?lbs _] =>
              destruct (mark_fwd lbs _ _ _ Hb) as [b' [Hb' [[Hs_ts [Hs_rot [Hs_idx _]]] _]]] end;
            exists b'; rewrite Hs_rot, Hs_idx; auto; fail).
  all: try (rewrite Nat.eqb_refl in Hr; discriminate Hr).
  all: try (match goal with Hn : ?x <> ?y |- context [Nat.eqb ?y ?x] => destruct (Nat.eqb_spec y x); [congruence|] end; exists b; auto; fail).
  all: try (rewrite Nat.eqb_refl; exists b; auto; fail).
  all: rewrite Nat.eqb_refl; eexists; split; [reflexivity|]; proj_simp; split; auto; right; split; auto.
  all: split_ands; match goal with H : opt_nat_eqb _ _ = true |- _ => apply opt_nat_eqb_eq in H; apply nth_error_nth with (d := 0) in H; rewrite H end; reflexivity.
Qed.

(** while the rotation of a balancer is not rebuilt, the targets it hands out are the strict
    round-robin sequence from its cursor *)
Theorem fair_trace : forall seg s s' lb b,
  run step s seg = Some s' -> nget (bals s) lb = Some b -> existsb (is_rot lb) seg = false ->
  claims_of lb seg = pick_seq (b_rot b) (b_idx b) (length (claims_of lb seg)).
Proof.
  induction seg as [|e seg IH]; intros s s' lb b H Hb Hr; cbn in H.
  - reflexivity.
  - destruct (step s e) as [s1|] eqn:E; [|discriminate]. cbn in Hr. apply orb_false_iff in Hr. destruct Hr as [Hr1 Hr2].
    destruct (step_cursor _ _ _ _ _ E Hb Hr1) as [b1 [Hb1 [Hrot [[Hc Hi]|[Hc Hi]]]]];
      unfold claims_of; cbn [flat_map]; rewrite Hc; fold (claims_of lb seg).
    + cbn [app]. rewrite (IH _ _ _ _ H Hb1 Hr2) at 1. now rewrite Hrot, Hi.
    + cbn [app length pick_seq]. f_equal. rewrite (IH _ _ _ _ H Hb1 Hr2) at 1. now rewrite Hrot, Hi.
Qed.
