(** LocksFacts.v — proofs for C18 (model/Locks.v):
    A. a generic theory of traces of acquire / release / access events under
       mutex / RW-mutex semantics: [locks_sound] (guarded accesses are ordered by
       happens-before) ;
    B. lock order: a rank function increasing along "acquired while holding"
       excludes cyclic waits ([no_cyclic_wait]) ;
    C. soundness of the executable checkers of model/Locks.v with respect to
       call paths of the extracted facts ;
    D. the bridges: what has to be assumed about the translator to conclude, from
       the checkers' verdicts, that a run has no data race on a guarded location
       and no cyclic wait. *)
From Coq Require Import List Bool Arith NArith Lia.
From Coq Require Import ZifyN ZifyNat ZifyBool.
From KP Require Import model.Base model.Locks.
Import ListNotations.

(* ====================================================================== *)
(** * A. Traces, mutex semantics, happens-before                           *)
(* ====================================================================== *)

Definition thread := nat.
Definition lock := nat.
Definition loc := nat.

Inductive op :=
| Acq (l : lock) (m : lmode)
| Rel (l : lock) (m : lmode)
| Acc (x : loc) (k : rw).

Definition event := (thread * op)%type.
Definition trace := list event.

(** the lock state: who holds what in which mode (a multiset) *)
Definition holding := (thread * lock * lmode)%type.
Definition lstate := list holding.

Definition lmode_eq_dec (a b : lmode) : {a = b} + {a <> b}.
Proof. decide equality. Defined.

Definition holding_eq_dec (a b : holding) : {a = b} + {a <> b}.
Proof. repeat decide equality. Defined.

Fixpoint remove1 (h : holding) (s : lstate) : lstate :=
  match s with
  | [] => []
  | x :: s' => if holding_eq_dec h x then s' else x :: remove1 h s'
  end.

Definition step (s : lstate) (e : event) : lstate :=
  match e with
  | (t, Acq l m) => (t, l, m) :: s
  | (t, Rel l m) => remove1 (t, l, m) s
  | (_, Acc _ _) => s
  end.

(** sync.Mutex = only LW.  sync.RWMutex: Lock needs nobody inside, RLock no writer. *)
Definition enabled (s : lstate) (e : event) : Prop :=
  match e with
  | (_, Acq l LW) => forall t' m', ~ In (t', l, m') s
  | (_, Acq l LR) => forall t', ~ In (t', l, LW) s
  | (t, Rel l m) => In (t, l, m) s
  | (_, Acc _ _) => True
  end.

Definition state_at (tr : trace) (i : nat) : lstate := fold_left step (firstn i tr) [].

Definition wf (tr : trace) : Prop :=
  forall i e, nth_error tr i = Some e -> enabled (state_at tr i) e.

(** happens-before: program order, and release -> later acquire of the same
    lock when at least one of the two is exclusive (the Go memory model's rule
    for Mutex and RWMutex) *)
Inductive hb (tr : trace) : nat -> nat -> Prop :=
| hb_po i j t a b :
    i < j -> nth_error tr i = Some (t, a) -> nth_error tr j = Some (t, b) -> hb tr i j
| hb_sync i j t u l m m' :
    i < j -> nth_error tr i = Some (t, Rel l m) -> nth_error tr j = Some (u, Acq l m') ->
    (m = LW \/ m' = LW) -> hb tr i j
| hb_trans i j k : hb tr i j -> hb tr j k -> hb tr i k.

(** every access to [x] is made holding [g]: readers in any mode, writers exclusively *)
Definition guarded_by (tr : trace) (x : loc) (g : lock) : Prop :=
  forall i t k, nth_error tr i = Some (t, Acc x k) ->
    exists m, In (t, g, m) (state_at tr i) /\ mode_le (need_of k) m = true.

Lemma firstn_S_nth : forall (A : Type) (l : list A) i e,
  nth_error l i = Some e -> firstn (S i) l = firstn i l ++ [e].
Proof.
  intros A l. induction l as [|a l IH]; intros i e H.
  - destruct i; discriminate.
  - destruct i as [|i]; cbn in *.
    + inversion H. reflexivity.
    + f_equal. apply IH. exact H.
Qed.

Lemma state_at_S : forall tr i e, nth_error tr i = Some e ->
  state_at tr (S i) = step (state_at tr i) e.
Proof.
  intros tr i e H. unfold state_at. rewrite (firstn_S_nth _ _ _ _ H).
  rewrite fold_left_app. reflexivity.
Qed.

Lemma state_at_past : forall tr i, nth_error tr i = None -> state_at tr (S i) = state_at tr i.
Proof.
  intros tr i H. unfold state_at. apply nth_error_None in H.
  rewrite !firstn_all2 by lia. reflexivity.
Qed.

Lemma in_remove1 : forall h x s, In x (remove1 h s) -> In x s.
Proof.
  intros h x s. induction s as [|y s IH]; cbn; intros H.
  - exact H.
  - destruct (holding_eq_dec h y) as [->|Hn].
    + right. exact H.
    + destruct H as [H|H]; [left; exact H | right; apply IH; exact H].
Qed.

Lemma in_remove1_other : forall h x s, In x s -> x <> h -> In x (remove1 h s).
Proof.
  intros h x s. induction s as [|y s IH]; cbn; intros H Hn.
  - exact H.
  - destruct (holding_eq_dec h y) as [->|Hy].
    + destruct H as [H|H]; [congruence | exact H].
    + destruct H as [H|H]; [left; exact H | right; apply IH; assumption].
Qed.

(** an exclusive holder is alone *)
Definition excl_inv (s : lstate) : Prop :=
  forall t l t' m', In (t, l, LW) s -> In (t', l, m') s -> t' = t /\ m' = LW.

Lemma excl_inv_step : forall s e, excl_inv s -> enabled s e -> excl_inv (step s e).
Proof.
  intros s [t o] Hi He. destruct o as [l m|l m|x k]; cbn in *.
  - intros t1 l1 t2 m2 H1 H2. destruct m.
    + (* LR acquired *)
      destruct H1 as [H1|H1]; [inversion H1|].
      destruct H2 as [H2|H2].
      * inversion H2; subst. exfalso. exact (He _ H1).
      * exact (Hi _ _ _ _ H1 H2).
    + (* LW acquired *)
      destruct H1 as [H1|H1]; destruct H2 as [H2|H2].
      * inversion H1; inversion H2; subst. split; reflexivity.
      * inversion H1; subst. exfalso. exact (He _ _ H2).
      * inversion H2; subst. exfalso. exact (He _ _ H1).
      * exact (Hi _ _ _ _ H1 H2).
  - intros t1 l1 t2 m2 H1 H2. apply in_remove1 in H1. apply in_remove1 in H2.
    exact (Hi _ _ _ _ H1 H2).
  - exact Hi.
Qed.

Lemma excl_inv_at : forall tr, wf tr -> forall i, excl_inv (state_at tr i).
Proof.
  intros tr Hwf i. induction i as [|i IH].
  - intros t l t' m' H. destruct H.
  - destruct (nth_error tr i) as [e|] eqn:He.
    + rewrite (state_at_S _ _ _ He). apply excl_inv_step; [exact IH | exact (Hwf _ _ He)].
    + rewrite (state_at_past _ _ He). exact IH.
Qed.

(** a holding was acquired, and kept since *)
Lemma held_since : forall tr j t l m, In (t, l, m) (state_at tr j) ->
  exists k, k < j /\ nth_error tr k = Some (t, Acq l m) /\
            forall p, k < p -> p <= j -> In (t, l, m) (state_at tr p).
Proof.
  intros tr j. induction j as [|j IH]; intros t l m H.
  - destruct H.
  - destruct (nth_error tr j) as [e|] eqn:He.
    + rewrite (state_at_S _ _ _ He) in H.
      assert (Hkeep : In (t, l, m) (state_at tr j) ->
              exists k, k < S j /\ nth_error tr k = Some (t, Acq l m) /\
                        forall p, k < p -> p <= S j -> In (t, l, m) (state_at tr p)).
      { intros Hj. destruct (IH _ _ _ Hj) as (k & Hk & Hn & Hr).
        exists k. split; [lia|]. split; [exact Hn|].
        intros p Hp1 Hp2. destruct (Nat.eq_dec p (S j)) as [->|Hne].
        - rewrite (state_at_S _ _ _ He). exact H.
        - apply Hr; lia. }
      destruct e as [t' o]. destruct o as [l' m'|l' m'|x k]; cbn in H.
      * destruct H as [H|H].
        -- inversion H; subst. exists j. split; [lia|]. split; [exact He|].
           intros p Hp1 Hp2. assert (p = S j) as -> by lia.
           rewrite (state_at_S _ _ _ He). cbn. left. reflexivity.
        -- apply Hkeep. exact H.
      * apply Hkeep. apply in_remove1 in H. exact H.
      * apply Hkeep. exact H.
    + rewrite (state_at_past _ _ He) in H.
      destruct (IH _ _ _ H) as (k & Hk & Hn & Hr).
      exists k. split; [lia|]. split; [exact Hn|].
      intros p Hp1 Hp2. destruct (Nat.eq_dec p (S j)) as [->|Hne].
      * rewrite (state_at_past _ _ He). exact H.
      * apply Hr; lia.
Qed.

(** a holding that is gone later was released in between *)
Lemma released_between : forall tr i q t l m, i <= q ->
  In (t, l, m) (state_at tr i) -> ~ In (t, l, m) (state_at tr q) ->
  exists k, i <= k /\ k < q /\ nth_error tr k = Some (t, Rel l m).
Proof.
  intros tr i q t l m Hle Hin. induction q as [|q IH]; intros Hout.
  - assert (i = 0) as -> by lia. contradiction.
  - destruct (Nat.eq_dec i (S q)) as [->|Hne]; [contradiction|].
    destruct (in_dec holding_eq_dec (t, l, m) (state_at tr q)) as [Hq|Hq].
    + destruct (nth_error tr q) as [e|] eqn:He.
      * rewrite (state_at_S _ _ _ He) in Hout.
        destruct e as [t' o]. destruct o as [l' m'|l' m'|x k]; cbn in Hout.
        -- exfalso. apply Hout. right. exact Hq.
        -- destruct (holding_eq_dec (t, l, m) (t', l', m')) as [Heq|Hneq].
           ++ inversion Heq; subst. exists q. split; [lia|]. split; [lia|]. exact He.
           ++ exfalso. apply Hout. apply in_remove1_other; assumption.
        -- contradiction.
      * rewrite (state_at_past _ _ He) in Hout. contradiction.
    + destruct (IH ltac:(lia) Hq) as (k & Hk1 & Hk2 & Hk3).
      exists k. split; [exact Hk1|]. split; [lia | exact Hk3].
Qed.

Lemma mode_le_LW : forall m, mode_le LW m = true -> m = LW.
Proof. intros m; destruct m; cbn; intros H; [discriminate | reflexivity]. Qed.

(** ** locks_sound *)
Theorem locks_sound_thm : forall (tr : trace) (x : loc) (g : lock),
  wf tr -> guarded_by tr x g ->
  forall i j t u k k',
    i < j ->
    nth_error tr i = Some (t, Acc x k) ->
    nth_error tr j = Some (u, Acc x k') ->
    t <> u -> (k = Wr \/ k' = Wr) ->
    hb tr i j.
Proof.
  intros tr x g Hwf Hg i j t u k k' Hij Hi Hj Htu Hw.
  destruct (Hg _ _ _ Hi) as (m1 & Hin1 & Hm1).
  destruct (Hg _ _ _ Hj) as (m2 & Hin2 & Hm2).
  assert (Hexcl : m1 = LW \/ m2 = LW).
  { destruct Hw as [->| ->]; cbn in *.
    - left. apply mode_le_LW. exact Hm1.
    - right. apply mode_le_LW. exact Hm2. }
  destruct (held_since _ _ _ _ _ Hin2) as (a & Ha & Hacq & Hkept).
  destruct (Nat.lt_trichotomy a i) as [Hlt|[Heq|Hgt]].
  - (* u already held g at i: impossible, one of the two is exclusive *)
    exfalso. assert (Hu : In (u, g, m2) (state_at tr i)) by (apply Hkept; lia).
    pose proof (excl_inv_at _ Hwf i) as Hinv.
    destruct Hexcl as [->| ->].
    + destruct (Hinv _ _ _ _ Hin1 Hu) as [E _]. congruence.
    + destruct (Hinv _ _ _ _ Hu Hin1) as [E _]. congruence.
  - subst a. rewrite Hi in Hacq. discriminate.
  - (* u acquired g after i: t released it before *)
    assert (Hgone : ~ In (t, g, m1) (state_at tr a)).
    { pose proof (Hwf _ _ Hacq) as Hen. cbn in Hen. destruct m2.
      - destruct Hexcl as [->|E]; [|discriminate]. apply Hen.
      - apply Hen. }
    destruct (released_between tr i a t g m1 ltac:(lia) Hin1 Hgone) as (r & Hr1 & Hr2 & Hrel).
    assert (Hir : i < r).
    { destruct (Nat.eq_dec i r) as [->|]; [rewrite Hi in Hrel; discriminate | lia]. }
    apply hb_trans with r.
    + eapply hb_po; eauto.
    + apply hb_trans with a.
      * eapply hb_sync with (l := g) (m := m1) (m' := m2); eauto.
      * eapply hb_po; eauto.
Qed.

(** non-vacuity: a small well-formed trace with two guarded conflicting accesses *)
Definition demo_trace : trace :=
  [(1, Acq 7 LW); (1, Acc 3 Wr); (1, Rel 7 LW); (2, Acq 7 LR); (2, Acc 3 Rd); (2, Rel 7 LR)].

Lemma demo_wf : wf demo_trace.
Proof.
  intros i e H.
  do 6 (destruct i as [|i]; [cbn in H; inversion H; subst; cbn; try tauto;
                              try (intros; intros F; cbn in F; tauto) |]).
  destruct i; discriminate.
Qed.

Lemma demo_guarded : guarded_by demo_trace 3 7.
Proof.
  intros i t k H.
  do 6 (destruct i as [|i]; [cbn in H; inversion H; subst;
                              first [ exists LW; cbn; split; [left; reflexivity | reflexivity]
                                    | exists LR; cbn; split; [left; reflexivity | reflexivity] ] |]).
  destruct i; discriminate.
Qed.

(** tightness: without a lock two conflicting accesses are simply unordered *)
Definition racy_trace : trace := [(1, Acc 3 Wr); (2, Acc 3 Rd)].

Lemma racy_unordered : forall i j, ~ hb racy_trace i j.
Proof.
  intros i j H. induction H as [i j t a b Hij Hi Hj | i j t u l m m' Hij Hi Hj Hm | i j k H1 IH1 H2 IH2].
  - destruct i as [|[|i]]; cbn in Hi; try (destruct i; discriminate);
      destruct j as [|[|j]]; cbn in Hj; try (destruct j; discriminate); try lia;
      inversion Hi; inversion Hj; subst; discriminate.
  - destruct i as [|[|i]]; cbn in Hi; try discriminate. destruct i; discriminate.
  - exact IH1.
Qed.

(* ====================================================================== *)
(** * B. Lock order and cyclic waits                                       *)
(* ====================================================================== *)

Section Deadlock.
  Variable s : lstate.                        (* any lock state *)
  Variable pend : thread -> option lock.      (* the lock each blocked thread waits for *)

  Definition holds_in (t : thread) (l : lock) : Prop := exists m, In (t, l, m) s.

  (** t waits for l, held by u, which waits for ..., held by v *)
  Inductive wait_chain : thread -> lock -> thread -> Prop :=
  | wc_one t l u : pend t = Some l -> holds_in u l -> wait_chain t l u
  | wc_step t l u l' v : pend t = Some l -> holds_in u l -> wait_chain u l' v -> wait_chain t l v.

  Definition cyclic_wait : Prop := exists t l, wait_chain t l t.

  Variable rk : lock -> nat.
  Hypothesis ordered : forall t a b, holds_in t a -> pend t = Some b -> rk a < rk b.

  Lemma wait_chain_head : forall t l v, wait_chain t l v -> pend t = Some l.
  Proof. intros t l v H. destruct H; assumption. Qed.

  Lemma wait_chain_rank : forall t l v, wait_chain t l v -> forall b, pend v = Some b -> rk l < rk b.
  Proof.
    intros t l v H. induction H as [t l u Hp Hh | t l u l' v Hp Hh Hc IH]; intros b Hb.
    - exact (ordered _ _ _ Hh Hb).
    - pose proof (ordered _ _ _ Hh (wait_chain_head _ _ _ Hc)) as H1.
      pose proof (IH _ Hb) as H2. lia.
  Qed.

  Theorem no_cyclic_wait : ~ cyclic_wait.
  Proof.
    intros (t & l & Hc). pose proof (wait_chain_rank _ _ _ Hc _ (wait_chain_head _ _ _ Hc)). lia.
  Qed.
End Deadlock.

(* ====================================================================== *)
(** * C. Soundness of the checkers of model/Locks.v                        *)
(* ====================================================================== *)

Local Open Scope N_scope.

(** call paths of the fact base, with everything held lexically at the call
    sites along the way; a go statement starts a new path *)
Inductive path (fs : list fact) : id -> list hlock -> Prop :=
| path_root f w : In (FRoot f w) fs -> path fs f []
| path_go c f p : In (FGo c f p) fs -> path fs f []
| path_call c f h b p H : In (FCall c f h b p) fs -> path fs c H -> path fs f (h ++ H).

Lemma lock_eqb_eq : forall a b, lock_eqb a b = true -> a = b.
Proof.
  intros [a1 a2] [b1 b2]. unfold lock_eqb; cbn. intros H.
  apply andb_true_iff in H. destruct H as [H1 H2].
  apply N.eqb_eq in H1. apply N.eqb_eq in H2. subst. reflexivity.
Qed.

Lemma lock_eqb_refl : forall a, lock_eqb a a = true.
Proof. intros [a1 a2]. unfold lock_eqb; cbn. rewrite !N.eqb_refl. reflexivity. Qed.

Lemma mode_le_trans : forall a b c, mode_le a b = true -> mode_le b c = true -> mode_le a c = true.
Proof. intros [] [] []; cbn; congruence. Qed.

Lemma holds_spec : forall h l m, holds h l m = true <->
  exists m', In (l, m') h /\ mode_le m m' = true.
Proof.
  intros h l m. unfold holds. rewrite existsb_exists. split.
  - intros ([l' m'] & Hin & Hb). cbn in Hb. apply andb_true_iff in Hb. destruct Hb as [He Hm].
    apply lock_eqb_eq in He. subst. exists m'. split; assumption.
  - intros (m' & Hin & Hm). exists (l, m'). split; [exact Hin|]. cbn.
    rewrite lock_eqb_refl, Hm. reflexivity.
Qed.

Lemma holds_app : forall a b l m, holds (a ++ b) l m = holds a l m || holds b l m.
Proof. intros. unfold holds. apply existsb_app. Qed.

Lemma subset_holds : forall a b l m, subset_h a b = true -> holds a l m = true -> holds b l m = true.
Proof.
  intros a b l m Hs Ha. apply holds_spec in Ha. destruct Ha as (m' & Hin & Hm).
  unfold subset_h in Hs. rewrite forallb_forall in Hs. specialize (Hs _ Hin). cbn in Hs.
  apply holds_spec in Hs. destruct Hs as (m'' & Hin' & Hm').
  apply holds_spec. exists m''. split; [exact Hin' | eapply mode_le_trans; eassumption].
Qed.

Lemma subset_h_app : forall hf h hc H, subset_h hf (h ++ hc) = true -> subset_h hc H = true ->
  subset_h hf (h ++ H) = true.
Proof.
  intros hf h hc H H1 H2. unfold subset_h in *. rewrite forallb_forall in *.
  intros x Hx. specialize (H1 _ Hx). rewrite holds_app in *.
  apply orb_true_iff in H1. apply orb_true_iff. destruct H1 as [H1|H1]; [left; exact H1|right].
  apply subset_holds with hc; [|exact H1]. unfold subset_h. rewrite forallb_forall. exact H2.
Qed.

(** ** entry-held map: what it claims holds on every call path *)
Lemma eh_path : forall fs m, eh_ok fs m = true ->
  forall f H, path fs f H -> exists hf, elookup m f = Some hf /\ subset_h hf H = true.
Proof.
  intros fs m Hok f H Hp. unfold eh_ok in Hok. rewrite forallb_forall in Hok.
  induction Hp as [f w Hin | c f p Hin | c f h b p H Hin Hp IH].
  - specialize (Hok _ Hin). cbn in Hok. destruct (elookup m f) as [[|x hf]|]; try discriminate.
    exists []. split; reflexivity.
  - specialize (Hok _ Hin). cbn in Hok. destruct (elookup m f) as [[|x hf]|]; try discriminate.
    exists []. split; reflexivity.
  - destruct IH as (hc & Hc & Hsub). specialize (Hok _ Hin). cbn in Hok. rewrite Hc in Hok.
    destruct (elookup m f) as [hf|]; [|discriminate].
    exists hf. split; [reflexivity|]. eapply subset_h_app; eassumption.
Qed.

Lemma flat_map_nil : forall (A B : Type) (f : A -> list B) l x,
  flat_map f l = [] -> In x l -> f x = [].
Proof.
  intros A B f l. induction l as [|a l IH]; intros x H Hin; [destruct Hin|].
  cbn in H. apply app_eq_nil in H. destruct H as [H1 H2].
  destruct Hin as [->|Hin]; [exact H1 | apply IH; assumption].
Qed.

Lemma check_with_nil : forall nm fs d m cs, check_with nm fs d m cs = [] ->
  flat_map (viol_of_fact nm fs d m cs) fs = [] /\ eh_ok fs m = true /\ ctor_ok nm fs d cs = true.
Proof.
  intros nm fs d m cs H. unfold check_with in H.
  apply app_eq_nil in H. destruct H as [H1 H]. apply app_eq_nil in H. destruct H as [H2 H3].
  split; [exact H1|]. split.
  - destruct (eh_ok fs m); [reflexivity | discriminate].
  - destruct (ctor_ok nm fs d cs); [reflexivity | discriminate].
Qed.

(** ** check_guarded *)
Definition access_ok (nm : names) (d : discipline) (st fld : id) (k : rw) (held : list hlock) : Prop :=
  match class_of nm d st fld with
  | Some (Guarded l) => holds held (lock_id nm l) (need_of k) = true
  | Some Immutable => k = Rd
  | Some (ByOrder _) => True
  | Some (Confined _) => True
  | None => False
  end.

Lemma check_with_access : forall nm fs d m cs, check_with nm fs d m cs = [] ->
  forall f st fld k held b p H,
    In (FAccess f st fld k held b p) fs ->
    path fs f H ->
    exempt cs f b = false ->
    access_ok nm d st fld k (held ++ H).
Proof.
  intros nm fs d m cs Hc f st fld k held b p H Hin Hp Hex.
  apply check_with_nil in Hc. destruct Hc as (Hv & Hok & _).
  destruct (eh_path _ _ Hok _ _ Hp) as (hf & Hf & Hsub).
  pose proof (flat_map_nil _ _ _ _ _ Hv Hin) as Hx. unfold viol_of_fact in Hx. rewrite Hf, Hex in Hx.
  unfold access_ok. destruct (class_of nm d st fld) as [[l| |w|w]|]; try discriminate; try exact I.
  - destruct (holds (held ++ hf) (lock_id nm l) (need_of k)) eqn:Hh; [|discriminate].
    rewrite holds_app in *. apply orb_true_iff in Hh. apply orb_true_iff.
    destruct Hh as [Hh|Hh]; [left; exact Hh | right; eapply subset_holds; eassumption].
  - destruct k; [reflexivity | discriminate].
Qed.

Theorem check_guarded_sound_thm : forall nm fs d, check_guarded nm fs d = [] ->
  forall f st fld k held b p H,
    In (FAccess f st fld k held b p) fs ->
    path fs f H ->
    exempt (ctor_set nm fs d) f b = false ->
    access_ok nm d st fld k (held ++ H).
Proof. intros nm fs d Hc. exact (check_with_access _ _ _ _ _ Hc). Qed.

(** no lock operation the translator could not pair, no unlisted close site *)
Lemma check_with_balanced : forall nm fs d m cs, check_with nm fs d m cs = [] ->
  forall f l p, ~ In (FUnbalanced f l p) fs.
Proof.
  intros nm fs d m cs Hc f l p Hin. apply check_with_nil in Hc.
  destruct Hc as (Hv & _). pose proof (flat_map_nil _ _ _ _ _ Hv Hin) as Hx.
  unfold viol_of_fact in Hx. discriminate.
Qed.

Theorem check_guarded_balanced_thm : forall nm fs d, check_guarded nm fs d = [] ->
  forall f l p, ~ In (FUnbalanced f l p) fs.
Proof. intros nm fs d Hc. exact (check_with_balanced _ _ _ _ _ Hc). Qed.

Lemma check_with_closes : forall nm fs d m cs, check_with nm fs d m cs = [] ->
  forall f st fld h p, In (FChan f ChClose st fld h p) fs -> close_listed nm fs d f st fld = true.
Proof.
  intros nm fs d m cs Hc f st fld h p Hin. apply check_with_nil in Hc.
  destruct Hc as (Hv & _). pose proof (flat_map_nil _ _ _ _ _ Hv Hin) as Hx.
  unfold viol_of_fact in Hx.
  destruct (close_listed nm fs d f st fld); [reflexivity | discriminate].
Qed.

Theorem check_guarded_closes_thm : forall nm fs d, check_guarded nm fs d = [] ->
  forall f st fld h p, In (FChan f ChClose st fld h p) fs -> close_listed nm fs d f st fld = true.
Proof. intros nm fs d Hc. exact (check_with_closes _ _ _ _ _ Hc). Qed.

(** the construction-phase set is what it says: declared, or never a root and
    every caller passes a private receiver (or is itself in the set, passing its own) *)
Lemma mem_id_In : forall x l, mem_id x l = true <-> In x l.
Proof.
  intros x l. unfold mem_id. rewrite existsb_exists. split.
  - intros (y & Hy & He). apply N.eqb_eq in He. subst. exact Hy.
  - intros H. exists x. split; [exact H | apply N.eqb_refl].
Qed.

Lemma check_with_ctor : forall nm fs d m cs, check_with nm fs d m cs = [] ->
  forall f, In f cs ->
    In f (declared_ctors nm d) \/
    (~ In f (root_names fs) /\
     forall c h b p, In (FCall c f h b p) fs ->
       b = BLocal \/ (b = BRecv /\ In c cs)).
Proof.
  intros nm fs d m cs Hc f Hf. apply check_with_nil in Hc.
  destruct Hc as (_ & _ & Hk). unfold ctor_ok in Hk. rewrite forallb_forall in Hk.
  specialize (Hk _ Hf). unfold ctor_fn_ok in Hk. apply orb_true_iff in Hk.
  destruct Hk as [Hk|Hk]; [left; apply mem_id_In; exact Hk | right].
  apply andb_true_iff in Hk. destruct Hk as [Hk Hall]. apply andb_true_iff in Hk. destruct Hk as [Hr _].
  split.
  - intros Hin. apply mem_id_In in Hin. rewrite Hin in Hr. discriminate.
  - intros c h b p Hin. rewrite forallb_forall in Hall.
    assert (He : In (c, f, h, b) (call_edges fs)).
    { unfold call_edges. apply in_flat_map. exists (FCall c f h b p). split; [exact Hin | left; reflexivity]. }
    specialize (Hall _ He). cbv beta iota in Hall. rewrite N.eqb_refl in Hall.
    destruct b; [left; reflexivity | right; split; [reflexivity | apply mem_id_In; exact Hall] | discriminate].
Qed.

Theorem ctor_set_sound_thm : forall nm fs d, check_guarded nm fs d = [] ->
  forall f, In f (ctor_set nm fs d) ->
    In f (declared_ctors nm d) \/
    (~ In f (root_names fs) /\
     forall c h b p, In (FCall c f h b p) fs ->
       b = BLocal \/ (b = BRecv /\ In c (ctor_set nm fs d))).
Proof. intros nm fs d Hc. exact (check_with_ctor _ _ _ _ _ Hc). Qed.

(** ** lock order *)
Lemma mem_lock_In : forall l ls, mem_lock l ls = true <-> In l ls.
Proof.
  intros l ls. unfold mem_lock. rewrite existsb_exists. split.
  - intros (y & Hy & He). apply lock_eqb_eq in He. subst. exact Hy.
  - intros H. exists l. split; [exact H | apply lock_eqb_refl].
Qed.

Lemma may_path : forall fs m, may_ok fs m = true ->
  forall f H, path fs f H -> forall l, In l (map fst H) -> In l (llookup m f).
Proof.
  intros fs m Hok f H Hp. unfold may_ok in Hok. rewrite forallb_forall in Hok.
  induction Hp as [f w Hin | c f p Hin | c f h b p H Hin Hp IH]; intros l Hl.
  - destruct Hl.
  - destruct Hl.
  - specialize (Hok _ Hin). cbn in Hok. unfold subset_l in Hok. rewrite forallb_forall in Hok.
    apply mem_lock_In. apply Hok. rewrite map_app in Hl. apply in_app_or in Hl. apply in_or_app.
    destruct Hl as [Hl|Hl]; [left; exact Hl | right; apply IH; exact Hl].
Qed.

Theorem lock_order_sound_thm : forall fs, lock_order_acyclic fs = true ->
  exists rk : lockid -> nat,
    forall f l mo h p H a,
      In (FAcquire f l mo h p) fs -> path fs f H -> In a (map fst (h ++ H)) ->
      (rk a < rk l)%nat.
Proof.
  intros fs Hc. unfold lock_order_acyclic in Hc. apply andb_true_iff in Hc. destruct Hc as [Hm Hr].
  exists (rlookup (ranks (order_edges_with fs (may_held fs)))).
  intros f l mo h p H a Hin Hp Ha.
  unfold ranked in Hr. rewrite forallb_forall in Hr.
  assert (He : In (a, l) (order_edges_with fs (may_held fs))).
  { unfold order_edges_with. apply in_flat_map. exists (FAcquire f l mo h p). split; [exact Hin|].
    apply in_map_iff. exists a. split; [reflexivity|].
    rewrite map_app in Ha. apply in_app_or in Ha. apply in_or_app.
    destruct Ha as [Ha|Ha]; [left; exact Ha | right; eapply may_path; eassumption]. }
  specialize (Hr _ He). cbn in Hr. apply Nat.ltb_lt in Hr. exact Hr.
Qed.

(* ====================================================================== *)
(** * D. Bridges: from the checkers' verdicts to runs                      *)
(* ====================================================================== *)

(** What is assumed about the translator is exactly the hypotheses of the two
    sections below. *)

Section RaceBridge.
  Variable nm : names.
  Variable fs : list fact.
  Variable d : discipline.
  Variable tr : trace.                     (* a run: lock operations and accesses of all goroutines *)
  Variable x : loc.                        (* a location of the run ... *)
  Variable st fld : id.                    (* ... which is the field (st, fld) of some object *)
  Variable g : lock.                       (* the mutex instance of that object's owner ... *)
  Variable l : slock.                      (* ... which is the lock the discipline names for the field *)

  Hypothesis Hclass : class_of nm d st fld = Some (Guarded l).

  (** translator adequacy for x: every access of the run to x is an extracted
      access fact of a function reached along an extracted call path (so it is
      not an access to a private object), and whenever fact and path say the
      guard's class is held in mode m, the thread holds the instance g in mode m *)
  Hypothesis Htranslator : forall i t k, nth_error tr i = Some (t, Acc x k) ->
    exists f held b p H,
      In (FAccess f st fld k held b p) fs /\ path fs f H /\
      exempt (ctor_set nm fs d) f b = false /\
      forall m, In (lock_id nm l, m) (held ++ H) -> In (t, g, m) (state_at tr i).

  Theorem no_race_bridge : check_guarded nm fs d = [] -> wf tr ->
    forall i j t u k k',
      (i < j)%nat -> nth_error tr i = Some (t, Acc x k) -> nth_error tr j = Some (u, Acc x k') ->
      t <> u -> (k = Wr \/ k' = Wr) -> hb tr i j.
  Proof.
    intros Hc Hwf. apply locks_sound_thm with (g := g); [exact Hwf|].
    intros i t k Hi. destruct (Htranslator _ _ _ Hi) as (f & held & b & p & H & Hin & Hp & Hex & Hinst).
    pose proof (check_guarded_sound_thm _ _ _ Hc _ _ _ _ _ _ _ _ Hin Hp Hex) as Hok.
    unfold access_ok in Hok. rewrite Hclass in Hok. apply holds_spec in Hok.
    destruct Hok as (m & Hm & Hle). exists m. split; [apply Hinst; exact Hm | exact Hle].
  Qed.
End RaceBridge.

Section DeadlockBridge.
  Variable fs : list fact.
  Variable cls : lock -> lockid.           (* the (struct, field) class of a mutex instance *)
  Variable s : lstate.                     (* any state of a run *)
  Variable pend : thread -> option lock.   (* the Lock/RLock call each blocked goroutine is in *)

  (** translator adequacy: a blocked Lock call is an extracted acquire fact of a
      function reached along an extracted call path, and every lock the
      goroutine holds at that moment was taken lexically in that function or at
      a call site of the path *)
  Hypothesis Htranslator : forall t b, pend t = Some b ->
    exists f mo h p H,
      In (FAcquire f (cls b) mo h p) fs /\ path fs f H /\
      forall a m, In (t, a, m) s -> In (cls a) (map fst (h ++ H)).

  Theorem no_deadlock_bridge : lock_order_acyclic fs = true -> ~ cyclic_wait s pend.
  Proof.
    intros Hc. destruct (lock_order_sound_thm _ Hc) as (rk & Hrk).
    apply no_cyclic_wait with (rk := fun a => rk (cls a)).
    intros t a b (m & Hh) Hp.
    destruct (Htranslator _ _ Hp) as (f & mo & h & p & H & Hin & Hpath & Hheld).
    exact (Hrk _ _ _ _ _ _ _ Hin Hpath (Hheld _ _ Hh)).
  Qed.
End DeadlockBridge.
