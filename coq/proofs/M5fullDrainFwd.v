(** M5fullDrainFwd.v — following one open Drain record of the acceptor
    model/M5full.v forward through the trace (used by proofs/M5timeC03.v for
    the joint command-level statement of C03). *)
From KP Require Import model.Base model.Trace model.M5full proofs.M5fullFacts proofs.M5fullGuards proofs.M5fullInv
  proofs.M5fullDrain proofs.M5fullPath proofs.M5fullLb proofs.M5fullClean proofs.M5fullC02.
From Coq Require Import ZifyN ZifyNat ZifyBool.
Local Open Scope nat_scope.

Lemma nget_ndel_other : forall A (l : list (nat * A)) k k', k' <> k -> nget (ndel l k) k' = nget l k'.
Proof.
  intros A l k k' Hne. induction l as [|[k0 v0] l IH]; cbn [ndel nget]; [reflexivity|].
  destruct (Nat.eqb_spec k k0) as [->|Hk].
  - destruct (Nat.eqb_spec k' k0); [contradiction|reflexivity].
  - cbn [nget]. destruct (Nat.eqb k' k0); [reflexivity|exact IH].
Qed.

(** the drain record [d] of goroutine [g] on target [t] after a step that does not end it *)
Definition fkeep (e : event) (t g : nat) (d d' : drain) : Prop :=
  (d_cancelled d = true -> d_cancelled d' = true) /\
  (goid (e_by e) = g -> e_k e = KDrainCancelRest t -> d_cancelled d' = true) /\
  (forall sn, d_snap d' = Some sn ->
     d_snap d = Some sn \/ (goid (e_by e) = g /\ exists rs, e_k e = KDrainSnapshot t rs /\ map fst rs = sn)).

Ltac fk_same Heqk :=
  split; [auto|split; [first [intros _ Hk'; congruence|intros Eg'; contradiction]|intros sn' Hsn'; left; exact Hsn']].

Lemma fdrain_fwd : forall s e s' t x g d,
  InvE s -> step s e = Some s' -> nget (targets s) t = Some x -> nget (t_drains x) g = Some d ->
  (goid (e_by e) = g /\ exists o n, e_k e = KStateSet t o n /\ n <> TDraining) \/
  exists x' d', nget (targets s') t = Some x' /\ nget (t_drains x') g = Some d' /\ fkeep e t g d d'.
Proof.
  intros s e s' t x g d HE H Hx Hd. step_inv H; norm.
  all: try (right; exists x, d; split; [exact Hx|split; [exact Hd|fk_same Heqk]]; fail).
  all: heap_cases; inj_some; tproj; try (rewrite Hx in *; inj_some); tproj.
  all: try (right; eexists _, _; split; [reflexivity|split; [exact Hd|fk_same Heqk]]; fail).
  all: try (right; exists x, d; split; [exact Hx|split; [exact Hd|fk_same Heqk]]; fail).
  - (* KLbNew *)
    rewrite add_new_get. destruct (nmem t ts) eqn:E.
    + apply nmem_In in E. rewrite (fresh_all _ _ _ Heqb E) in Hx. discriminate.
    + right. exists x, d. split; [exact Hx|split; [exact Hd|fk_same Heqk]].
  - (* KStateSet: end of the Drain call of goid (e_by e) *)
    destruct (Nat.eq_dec (goid (e_by e)) g) as [Eg|Ng].
    + left. split; [exact Eg|]. eexists _, _. split; [reflexivity|discriminate].
    + right. eexists _, _. split; [reflexivity|]. tproj. rewrite nget_ndel_other by (intros E; apply Ng; symmetry; exact E).
      split; [exact Hd|]. fk_same Heqk.
  - destruct (Nat.eq_dec (goid (e_by e)) g) as [Eg|Ng].
    + left. split; [exact Eg|]. eexists _, _. split; [reflexivity|discriminate].
    + right. eexists _, _. split; [reflexivity|]. tproj. rewrite nget_ndel_other by (intros E; apply Ng; symmetry; exact E).
      split; [exact Hd|]. fk_same Heqk.
  - destruct (Nat.eq_dec (goid (e_by e)) g) as [Eg|Ng].
    + left. split; [exact Eg|]. eexists _, _. split; [reflexivity|discriminate].
    + right. eexists _, _. split; [reflexivity|]. tproj. rewrite nget_ndel_other by (intros E; apply Ng; symmetry; exact E).
      split; [exact Hd|]. fk_same Heqk.
  - (* KDrainBegin *)
    right. eexists _, _. split; [reflexivity|]. tproj.
    rewrite nget_nset_other by (intros E; rewrite E in Hd; congruence).
    split; [exact Hd|]. fk_same Heqk.
  - right. eexists _, _. split; [reflexivity|]. tproj.
    rewrite nget_nset_other by (intros E; rewrite E in Hd; congruence).
    split; [exact Hd|]. fk_same Heqk.
  - right. eexists _, _. split; [reflexivity|]. tproj.
    rewrite nget_nset_other by (intros E; rewrite E in Hd; congruence).
    split; [exact Hd|]. fk_same Heqk.
  - (* KDrainSnapshot *)
    right. destruct (Nat.eqb_spec g (goid (e_by e))) as [->|Ng].
    + rewrite Hd in Heqo0. inj_some.
      eexists _, _. split; [reflexivity|]. tproj. rewrite nget_nset_same.
      split; [reflexivity|]. split; [|split; [intros _ Hk'; congruence|]].
      * intros Hc. exfalso.
        destruct (HE _ _ _ _ Hx (nget_In _ _ _ _ Hd) Hc) as (sn & Hsn & _). congruence.
      * cbn [d_snap]. intros sn Hsn. inj_some. right. split; [reflexivity|]. eexists. split; [exact Heqk|reflexivity].
    + eexists _, _. split; [reflexivity|]. tproj. rewrite nget_nset_other by exact Ng.
      split; [exact Hd|]. fk_same Heqk.
  - (* KDrainDeadline *)
    right. destruct (Nat.eqb_spec g (goid (e_by e))) as [->|Ng].
    + rewrite Hd in Heqo0. inj_some.
      eexists _, _. split; [reflexivity|]. tproj. rewrite nget_nset_same.
      split; [reflexivity|]. split; [|split; [intros _ Hk'; congruence|]].
      * intros Hc. exfalso. congruence.
      * cbn [d_snap]. intros sn Hsn. inj_some. left. assumption.
    + eexists _, _. split; [reflexivity|]. tproj. rewrite nget_nset_other by exact Ng.
      split; [exact Hd|]. fk_same Heqk.
  - (* KDrainCancelRest *)
    right. destruct (Nat.eqb_spec g (goid (e_by e))) as [->|Ng].
    + rewrite Hd in Heqo0. inj_some.
      eexists _, _. split; [reflexivity|]. tproj. rewrite nget_nset_same.
      split; [reflexivity|]. split; [reflexivity|]. split; [reflexivity|].
      cbn [d_snap]. intros sn Hsn. inj_some. left. assumption.
    + eexists _, _. split; [reflexivity|]. tproj. rewrite nget_nset_other by exact Ng.
      split; [exact Hd|]. split; [auto|]. split; [intros Eg; exfalso; apply Ng; symmetry; exact Eg|].
      intros sn' Hsn'; left; exact Hsn'.
Qed.

Lemma invBDE_step : forall s e s', InvBDE s -> step s e = Some s' -> InvBDE s'.
Proof.
  intros s e s' (HB & HD & HE) Hs. split; [|split].
  - eapply invB_step; eauto.
  - eapply invD_step; eauto.
  - eapply invE_step; eauto.
Qed.

(** over a stretch [tr] of the trace without a state-set by [g]: the drain record of [g] on [t]
    stays; it is cancelled at the end if it was, or if [tr] has its "cancel the rest"; a snapshot
    it has at the end it had before, or [tr] has the snapshot event *)
Lemma fdrain_run : forall tr s s' t x g d,
  InvBDE s -> run step s tr = Some s' -> nget (targets s) t = Some x -> nget (t_drains x) g = Some d ->
  (forall e', In e' tr -> goid (e_by e') = g -> forall t' o n, e_k e' <> KStateSet t' o n) ->
  exists x' d', nget (targets s') t = Some x' /\ nget (t_drains x') g = Some d' /\
    (d_cancelled d = true -> d_cancelled d' = true) /\
    (forall eC, In eC tr -> goid (e_by eC) = g -> e_k eC = KDrainCancelRest t -> d_cancelled d' = true) /\
    (forall sn, d_snap d' = Some sn -> d_snap d = Some sn \/
       exists es rs, In es tr /\ goid (e_by es) = g /\ e_k es = KDrainSnapshot t rs /\ map fst rs = sn).
Proof.
  induction tr as [|e tr IH]; intros s s' t x g d HI Hrun Hx Hd Hno; cbn [run] in Hrun.
  - inversion Hrun; subst. exists x, d. split; [exact Hx|]. split; [exact Hd|]. split; [auto|]. split; [intros eC []|intros sn Hsn; left; exact Hsn].
  - destruct (step s e) as [s1|] eqn:E; [|discriminate].
    destruct HI as (HB & HD & HE).
    destruct (fdrain_fwd _ _ _ _ _ _ _ HE E Hx Hd) as [(Hg & o & n & Hk & _)|(x1 & d1 & Hx1 & Hd1 & K1 & K2 & K3)].
    + exfalso. exact (Hno e (or_introl eq_refl) Hg _ _ _ Hk).
    + assert (HI1 : InvBDE s1) by (eapply invBDE_step; [|exact E]; repeat split; assumption).
      destruct (IH _ _ _ _ _ _ HI1 Hrun Hx1 Hd1) as (x' & d' & Hx' & Hd' & J1 & J2 & J3).
      { intros e' Hin. apply Hno. right; exact Hin. }
      exists x', d'. split; [exact Hx'|]. split; [exact Hd'|]. split; [auto|]. split.
      * intros eC [<-|Hin] Hg Hk; [apply J1; apply K2; assumption|exact (J2 _ Hin Hg Hk)].
      * intros sn Hsn. destruct (J3 sn Hsn) as [Hs1|(es & rs & Hin & Hg & Hk & Hm)].
        -- destruct (K3 sn Hs1) as [Hs0|(Hg & rs & Hk & Hm)]; [left; exact Hs0|].
           right. exists e, rs. repeat split; auto. left; reflexivity.
        -- right. exists es, rs. repeat split; auto. right; exact Hin.
Qed.

(** the record a KDrainBegin on a not yet draining target opens *)
Lemma fbegin_opens : forall s e s' t orig timeout,
  step s e = Some s' -> e_k e = KDrainBegin t orig timeout -> orig <> TDraining ->
  exists x', nget (targets s') t = Some x' /\
    nget (t_drains x') (goid (e_by e)) = Some (mkD orig (e_t e + timeout)%N None false false).
Proof.
  intros s e s' t orig timeout H Hk Ho.
  destruct (step_KDrainBegin _ _ _ _ _ _ H Hk) as (x & Hx & _ & [[Hc _]|(_ & _ & ->)]); [contradiction|].
  rewrite targets_taint. cbn [set_drains upd_targets targets]. rewrite nget_nset_same.
  eexists. split; [reflexivity|]. cbn [t_drains]. apply nget_nset_same.
Qed.

(** * Where a claim comes from (the residual D2): a request claims target [t] only along the
      path arrive, routed to a service object [sv] that was in the router's table then, passed
      the gate of [sv], picked a balancer [lb] that was in a slot of [sv] at the pick, and was
      given [t], a target of [lb] — the only balancer [t] belongs to *)

Lemma step_KRouted : forall s e s' r sv,
  step s e = Some s' -> e_k e = KRouted r (Some sv) -> In sv (installed s).
Proof. intros s e s' r sv H Hk. step_inv_k H Hk. now apply nmem_In. Qed.

Lemma claim_origin_lem : forall pre e post s t r,
  run step init (pre ++ e :: post) = Some s -> e_k e = KClaim t r ->
  exists sv lb s1 l,
    req_path r pre = p_lbclaimed r sv lb (Some t) /\
    run step init pre = Some s1 /\ nget (lbs s1) lb = Some l /\ In t (l_targets l) /\
    (forall lb' l', nget (lbs s1) lb' = Some l' -> In t (l_targets l') -> lb' = lb) /\
    (exists a ep b sp x, pre = a ++ ep :: b /\ e_k ep = KPick r sv (Some lb) /\
       run step init a = Some sp /\ nget (svcs sp) sv = Some x /\ is_slot x lb = true) /\
    (exists a er b sr, pre = a ++ er :: b /\ e_k er = KRouted r (Some sv) /\
       run step init a = Some sr /\ In sv (installed sr)).
Proof.
  intros pre e post s t r Hrun Hk.
  destruct (run_app _ _ _ _ _ _ Hrun) as (s1 & s2 & Ha & He & _).
  destruct (step_KClaim _ _ _ _ _ He Hk) as (lb & x & Hp & Hx & _).
  pose proof (invJ_run _ _ Ha r) as HJ. rewrite Hp in HJ. cbn [path_ok path_pre] in HJ. destruct HJ as (sv & HJ).
  destruct (invSK_run _ _ Ha) as [_ HK].
  destruct (HK _ _ _ _ Hp eq_refl) as (l & Hl & _ & Hts). specialize (Hts t eq_refl).
  destruct (invL12_run _ _ Ha) as [HL1 _].
  exists sv, lb, s1, l. split; [exact HJ|]. split; [exact Ha|]. split; [exact Hl|]. split; [exact Hts|]. split; [|split].
  - intros lb' l' Hl' Hin'. destruct (HL1 _ _ _ Hl' Hin') as (x1 & Hx1 & E1).
    destruct (HL1 _ _ _ Hl Hts) as (x2 & Hx2 & E2). congruence.
  - assert (Hin : In (KPick r sv (Some lb)) (req_path r pre)) by (rewrite HJ; cbn; auto 10).
    destruct (event_split _ _ _ Hin) as (a & ep & b & Hpre & Hkp & _).
    rewrite Hpre in Ha. destruct (run_app _ _ _ _ _ _ Ha) as (sp & sp' & Hsp & Hep & _).
    destruct (step_KPick _ _ _ _ _ _ Hep Hkp) as (lb0 & x0 & Ho & _ & Hx0 & Hsl & _). inj_some.
    exists a, ep, b, sp, x0. repeat split; assumption.
  - assert (Hin : In (KRouted r (Some sv)) (req_path r pre)) by (rewrite HJ; cbn; auto 10).
    destruct (event_split _ _ _ Hin) as (a & er & b & Hpre & Hkr & _).
    rewrite Hpre in Ha. destruct (run_app _ _ _ _ _ _ Ha) as (sr & sr' & Hsr & Her & _).
    exists a, er, b, sr. repeat split; try assumption. eapply step_KRouted; eauto.
Qed.

(** * Settled stays settled: a request past its claim that has left the in-flight set of [t],
      or is cancelled, stays so *)

Lemma step_settled : forall s e s' t x r p,
  step s e = Some s' -> nget (targets s) t = Some x -> phase_of s r = Some p -> past_claim p = true ->
  (~ In r (t_inflight x) \/ cancelled s r = true) ->
  exists x' p', nget (targets s') t = Some x' /\ phase_of s' r = Some p' /\ past_claim p' = true /\
    (~ In r (t_inflight x') \/ cancelled s' r = true).
Proof.
  intros s e s' t x r p H Hx Hp Hpc Hset.
  destruct (step_tgt_fwd _ _ _ _ _ H Hx) as (x' & Hx' & _).
  destruct (step_phase _ _ _ _ _ H Hp) as (p' & Hp' & Hr).
  exists x', p'. split; [exact Hx'|]. split; [exact Hp'|]. split; [eapply past_claim_step; eauto|].
  destruct Hset as [Hnf|Hc].
  - destruct (in_dec Nat.eq_dec r (t_inflight x')) as [Hi|Hi]; [|now left].
    destruct (step_inflight _ _ _ _ _ _ _ H Hx Hx' Hi) as [Hold|[_ [lb Hlb]]]; [contradiction|].
    rewrite Hlb in Hp. inj_some. discriminate.
  - right. eapply step_cancelled_mono; eauto.
Qed.

Lemma run_settled : forall tr s s' t x r p,
  run step s tr = Some s' -> nget (targets s) t = Some x -> phase_of s r = Some p -> past_claim p = true ->
  (~ In r (t_inflight x) \/ cancelled s r = true) ->
  exists x', nget (targets s') t = Some x' /\ (~ In r (t_inflight x') \/ cancelled s' r = true).
Proof.
  induction tr as [|e tr IH]; intros s s' t x r p Hrun Hx Hp Hpc Hset; cbn [run] in Hrun.
  - inversion Hrun; subst. eauto.
  - destruct (step s e) as [s1|] eqn:E; [|discriminate].
    destruct (step_settled _ _ _ _ _ _ _ E Hx Hp Hpc Hset) as (x1 & p1 & Hx1 & Hp1 & Hpc1 & Hset1).
    exact (IH _ _ _ _ _ _ Hrun Hx1 Hp1 Hpc1 Hset1).
Qed.
