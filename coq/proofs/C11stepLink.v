(** The model satisfies the restart-step monitor corr/C11step.c11_restart_step_ok. *)
From KP Require Import model.Base model.ServiceMap model.Seq corr.M4corr corr.C11step
  proofs.SeqInv proofs.SeqEquiv proofs.M4Link proofs.M4Link2.
From Coq Require Import ZifyN ZifyNat ZifyBool Lia.

(** two observations of ONE state, after whatever commands, answer alike *)
Lemma answers_equiv_same_state ig st c1 r1 c2 r2 reqs :
  answers_equiv (state_obs ig st c1 r1 reqs) (state_obs ig st c2 r2 reqs) = true.
Proof.
  unfold answers_equiv, state_obs, served_groups. cbn [so_requests so_list so_snapshot].
  rewrite (list_eqb_refl row_eqb row_eqb_refl).
  rewrite (list_eqb_refl (fun x y : request * resp_obs => resp_obs_eqb (snd x) (snd y)))
    by (intros x; apply resp_obs_eqb_refl).
  rewrite list_eqb_refl; [reflexivity|]. intros x. apply groups_compatible_refl.
Qed.

Lemma nth_error_app_len {A} (a : list A) x b : nth_error (a ++ x :: b) (length a) = Some x.
Proof. rewrite nth_error_app2 by lia. now rewrite Nat.sub_diag. Qed.

Lemma c11_step_of_model ig pre c cs2 reqs :
  c11_restart_step_ok (model_history ig fixed ((pre ++ [c]) ++ cs2) reqs)
                      (model_history ig fixed ((pre ++ [c]) ++ Restart :: cs2) reqs) (length (pre ++ [c])) = true.
Proof.
  unfold c11_restart_step_ok, model_history. rewrite app_length. cbn [length]. rewrite Nat.add_1_r.
  rewrite <- !app_assoc. cbn [app].
  rewrite !model_history_app, !model_history_cons.
  set (st0 := exec_all fixed init_state pre).
  set (stc := snd (exec fixed st0 c)).
  rewrite <- (model_history_length ig fixed pre init_state reqs) at 1.
  rewrite nth_error_app_len.
  assert (Hl : S (length pre) = length (model_history_from ig fixed init_state pre reqs ++ [state_obs ig stc c (fst (exec fixed st0 c)) reqs])).
  { rewrite app_length, model_history_length. cbn. lia. }
  replace (model_history_from ig fixed init_state pre reqs ++
           state_obs ig stc c (fst (exec fixed st0 c)) reqs ::
           state_obs ig (snd (exec fixed stc Restart)) Restart (fst (exec fixed stc Restart)) reqs ::
           model_history_from ig fixed (snd (exec fixed stc Restart)) cs2 reqs)
    with ((model_history_from ig fixed init_state pre reqs ++ [state_obs ig stc c (fst (exec fixed st0 c)) reqs]) ++
           state_obs ig (snd (exec fixed stc Restart)) Restart (fst (exec fixed stc Restart)) reqs ::
           model_history_from ig fixed (snd (exec fixed stc Restart)) cs2 reqs)
    by (now rewrite <- app_assoc).
  rewrite Hl, nth_error_app_len.
  assert (HI : Inv stc) by (apply exec_inv, exec_all_inv, Inv_init).
  assert (He : equiv stc (snd (exec fixed stc Restart))) by (cbn [exec snd]; now apply restart_equiv).
  rewrite <- (state_obs_equiv ig _ _ Restart (fst (exec fixed stc Restart)) reqs He).
  apply answers_equiv_same_state.
Qed.
