(** M5timeFacts2.v — the timing invariant is preserved by every step of the
    view; bounds at the return events. *)
From Coq Require Import ZifyN ZifyNat ZifyBool.
From KP Require Import model.Base model.Trace model.M5time proofs.M5timeFacts.
Local Open Scope N_scope.

Lemma drains_done_req_inv ds t rs now : all drain_inv ds -> all drain_inv (drains_done_req ds t rs now).
Proof.
  intros H. unfold drains_done_req. apply all_map; [|exact H].
  intros [g d] Hd. cbn [fst snd] in *. unfold drain_done_req.
  destruct (Nat.eqb (d_t d) t && existsb _ rs); [|exact Hd].
  unfold drain_inv in *. cbn. exact Hd.
Qed.

Lemma clear_pending_inv cs who t : all cmd_inv cs -> all cmd_inv (clear_pending cs who t).
Proof.
  intros H. unfold clear_pending. apply all_map; [|exact H].
  intros [c cm] Hc. cbn [fst snd] in *. destruct (nmem c who); [|exact Hc].
  cbn [snd]. unfold cmd_inv, alt_le in *. cbn. exact Hc.
Qed.

Lemma notify_one_inv st d t l l' o :
  parks st = false -> (forall ct, d_cancel d = Some ct -> ct <= d_mark d + d_timeout d) ->
  d_cancel d = Some t ->
  all cmd_inv l -> notify_one st d t (Some l) o = Some l' -> all cmd_inv l'.
Proof.
  intros Hp Hd Hc Hl. unfold notify_one.
  destruct (nget l (fst o)) as [cm|] eqn:Hg; [|intros H; injection H as <-; exact Hl].
  destruct (in_drain_phase cm) eqn:Hph; cbn [negb]; [|intros H; injection H as <-; exact Hl].
  rewrite Hp. cbn [orb].
  destruct ((d_mark d =? c_tc cm) && (d_timeout d =? c_drt cm)) eqn:Hm; [|discriminate].
  intros H; injection H as <-.
  apply andb_prop in Hm. destruct Hm as [Hm1 Hm2]. apply N.eqb_eq in Hm1, Hm2.
  pose proof (Hd _ Hc) as Hle.
  pose proof (all_nget _ _ _ _ Hl Hg) as Hcm.
  apply all_nset; [exact Hl|].
  unfold in_drain_phase in Hph. unfold cmd_inv, alt_le in *.
  destruct (c_phase cm) as [| | | | | | | | | |[old|]| | | |] eqn:Hph'; try discriminate;
    destruct (snd o); cbn; rewrite Hph'; cbn;
    repeat match goal with H : _ /\ _ |- _ => destruct H end;
    repeat split; try assumption; try lia;
    try (intros a Ha; injection Ha as <-; lia).
Qed.

Lemma notify_inv st d t cs :
  parks st = false -> (forall ct, d_cancel d = Some ct -> ct <= d_mark d + d_timeout d) ->
  d_cancel d = Some t ->
  all cmd_inv (cmds st) -> notify st d t = Some cs -> all cmd_inv cs.
Proof.
  intros Hp Hd Hc. unfold notify. generalize (cmds st) as l. generalize (d_owners d) as os.
  induction os as [|o os IH]; intros l Hl; cbn [fold_left].
  - intros H; injection H as <-; exact Hl.
  - destruct (notify_one st d t (Some l) o) as [l1|] eqn:E.
    + apply IH. exact (notify_one_inv _ _ _ _ _ _ Hp Hd Hc Hl E).
    + (* once None, always None *)
      intros H. exfalso. clear -H. induction os as [|o' os IH]; cbn [fold_left] in H; [discriminate|].
      apply IH. exact H.
Qed.

Lemma tinv_clock st x : tinv st -> tinv (upd_clock st x).
Proof. intros H; exact H. Qed.

Lemma tinv_upd st st1 :
  tinv st -> parks st1 = parks st ->
  (parks st = false -> all cmd_inv (cmds st) -> all cmd_inv (cmds st1)) ->
  (parks st = false -> all drain_inv (drains st) -> all drain_inv (drains st1)) -> tinv st1.
Proof.
  intros H Hp Hc Hd Hpk. rewrite Hp in Hpk. destruct (H Hpk) as [H1 H2]. split; [exact (Hc Hpk H1)|exact (Hd Hpk H2)].
Qed.

Ltac step_destruct :=
  repeat match goal with
         | |- (match ?x with _ => _ end) = Some _ -> _ => destruct x eqn:?
         | |- (if ?x then _ else _) = Some _ -> _ => destruct x eqn:?
         end.

Lemma step_tinv p st0 e s' : tinv st0 -> step_gen p st0 e = Some s' -> tinv s'.
Proof.
  intros Hinv0. unfold step_gen.
  destruct (e_t e <? clock st0); [discriminate|].
  assert (Hinv := tinv_clock st0 (e_t e) Hinv0). clear Hinv0.
  set (st := upd_clock st0 (e_t e)) in *. clearbody st. cbv zeta.
  destruct (e_k e) eqn:Hk.
  all: try (destruct (e_by e) eqn:Hby;
            [inv_some; exact Hinv
            |destruct (nget (cmds st) c) eqn:Hc; [eapply own_step_tinv; eassumption|inv_some; exact Hinv]
            |inv_some; exact Hinv|inv_some; exact Hinv]; fail).
  all: try (step_destruct; try (inv_some; fail); inv_some;
            first [exact Hinv | eapply tinv_same; [exact Hinv|frame3..] | intros Hp; discriminate Hp]; fail).
  - (* KIssue *)
    destruct (nget (cmds st) c); [discriminate|]. inv_some.
    eapply tinv_put; [exact Hinv|reflexivity..|]. intros _. unfold cmd_inv; cbn. split; reflexivity.
  - (* KParams *)
    destruct (nget (cmds st) c) as [cm|] eqn:Hc; [|discriminate].
    destruct (c_phase cm) eqn:Hph; try discriminate.
    destruct (own_time_ok st cm (e_t e)) eqn:Hot; [|discriminate]. inv_some.
    eapply tinv_put; [exact Hinv|reflexivity..|]. intros Hp.
    pose proof (all_nget _ _ _ _ (proj1 (Hinv Hp)) Hc) as Hcm. unfold cmd_inv in Hcm |- *. rewrite Hph in Hcm.
    destruct Hcm as [H1 H2]. destruct (own_time_cases _ _ _ Hot Hp) as [H3|H3]; [|rewrite H2 in H3; discriminate].
    cbn. split; [lia|reflexivity].
  - (* KReturn *)
    destruct (nget (cmds st) c) as [cm|] eqn:Hc; [|discriminate].
    destruct (actor_eqb (e_by e) (ACmd c)); [|discriminate]. intros H. eapply own_step_tinv; eassumption.
  - (* KLbNew *)
    destruct (e_by e); [|destruct (nget (cmds st) c) eqn:Hc; [intros H; eapply own_step_tinv; eassumption|inv_some; exact Hinv]| |];
      intros H; destruct (new_lb_frame _ _ _ _ _ H) as (F1 & F2 & F3 & _); (eapply tinv_same; [exact Hinv|assumption..]).
  - (* KLbDispose *)
    destruct (e_by e); [|destruct (nget (cmds st) c) eqn:Hc; [intros H; eapply own_step_tinv; eassumption|inv_some; exact Hinv]| |];
      inv_some; (eapply tinv_same; [exact Hinv|frame3..]).
  - (* KEnd *)
    inv_some. destruct (nget (tgts st) t); cbn [drains upd_tgts];
      (eapply tinv_upd; [exact Hinv|reflexivity|intros _ H; exact H|intros _ H; apply drains_done_req_inv; exact H]).
  - (* KWaiter *)
    destruct (nget (tgts st) t) as [x|]; [|discriminate].
    destruct (t_wait x); [discriminate|].
    destruct (nget (lbs st) (t_lb x)) as [l|]; [|discriminate].
    destruct (l_owner l) as [c|]; [|discriminate].
    destruct (nget (cmds st) c) as [cm|] eqn:Hc; [|discriminate].
    destruct (c_phase cm) eqn:Hph; try discriminate.
    destruct (_ && _) eqn:Hcond; [|discriminate]. inv_some.
    eapply tinv_put; [exact Hinv|reflexivity..|]. intros Hp.
    pose proof (all_nget _ _ _ _ (proj1 (Hinv Hp)) Hc) as Hcm. unfold cmd_inv in Hcm |- *. rewrite Hph in Hcm.
    cbn. rewrite Hph. rewrite Hp in Hcond. cbn [orb] in Hcond.
    apply andb_prop in Hcond. destruct Hcond as [_ Hcond].
    destruct Hcm as (H1 & H2 & H3 & H4). repeat split; try assumption.
    destruct ok; lia.
  - (* KProbeStop *)
    destruct (e_by e); [|destruct (nget (cmds st) c) eqn:Hc; [intros H; eapply own_step_tinv; eassumption|inv_some; exact Hinv]| |];
      inv_some; (eapply tinv_same; [exact Hinv|frame3..]).
  - (* KStateSet: restore *)
    destruct (nget (drains st) (goid (e_by e))) as [d|] eqn:Hd; [|inv_some; exact Hinv].
    destruct (d_cancel d) as [ct|] eqn:Hct; [|discriminate].
    destruct (tstate_eqb new TDraining) eqn:Hnd; [discriminate|].
    destruct (_ && _) eqn:Hcond; [|discriminate].
    destruct (notify st d (e_t e)) as [cs|] eqn:Hn; [|discriminate]. inv_some.
    intros Hp. cbn in Hp |- *. destruct (Hinv Hp) as [H1 H2]. split; [|apply all_ndel; exact H2].
    pose proof (all_nget _ _ _ _ H2 Hd) as Hdi. unfold drain_inv in Hdi.
    rewrite Hp in Hcond. cbn [orb] in Hcond. apply andb_prop in Hcond. destruct Hcond as [_ Hcond].
    apply N.eqb_eq in Hcond. subst ct.
    exact (notify_inv _ _ _ _ Hp Hdi Hct H1 Hn).
  - (* KDrainBegin *)
    assert (Hcp : tinv (upd_cmds st (clear_pending (cmds st) (candidates st t (e_t e) timeout) t))).
    { eapply tinv_upd; [exact Hinv|reflexivity|intros _ H; apply clear_pending_inv; exact H|intros _ H; exact H]. }
    destruct orig; try (inv_some; exact Hcp).
    all: destruct (nget (drains st) (goid (e_by e))); [discriminate|].
    all: destruct (candidates st t (e_t e) timeout) as [|c0 [|c1 cs]]; [destruct (parks st); [|discriminate]|..]; inv_some.
    all: (eapply tinv_upd; [exact Hcp|reflexivity|intros _ H; exact H|]);
         intros _ H; cbn; apply all_nset; [exact H|]; unfold drain_inv; cbn; intros ? ?; discriminate.
  - (* KDrainSnapshot *)
    step_destruct; try (inv_some; fail). inv_some.
    eapply tinv_upd; [exact Hinv|reflexivity|intros _ H; exact H|].
    intros _ H; cbn; apply all_nset; [exact H|]; unfold drain_inv; cbn; intros ? ?; discriminate.
  - (* KDrainDeadline *)
    step_destruct; try (inv_some; fail). inv_some.
    eapply tinv_upd; [exact Hinv|reflexivity|intros _ H; exact H|].
    intros _ H; cbn; apply all_nset; [exact H|]; unfold drain_inv; cbn; intros ? ?; discriminate.
  - (* KDrainCancelRest *)
    destruct (nget (drains st) (goid (e_by e))) as [d|] eqn:Hd; [|discriminate].
    destruct (d_snap d) as [sn|]; [|discriminate].
    destruct (d_cancel d); [discriminate|].
    destruct (_ && _) eqn:Hcond; [|discriminate]. inv_some.
    unfold set_drain. eapply tinv_upd; [exact Hinv| | |].
    + destruct (nget (tgts st) t); reflexivity.
    + intros _ H. destruct (nget (tgts st) t); exact H.
    + intros Hp H. cbn [drains upd_drains]. apply all_nset.
      * apply drains_done_req_inv. destruct (nget (tgts st) t); exact H.
      * unfold drain_inv. cbn. intros ct Hct. injection Hct as <-.
        rewrite Hp in Hcond. cbn [orb] in Hcond. lia.
Qed.

(** ** The bounds at a return *)

Definition bound (cm : cmd) (t : N) : Prop :=
  if is_deploy (c_kind cm) then t <= c_issue cm + c_dt cm + c_drt cm
  else if is_pause_stop (c_kind cm) then t <= c_issue cm + c_drt cm
  else t = c_issue cm.

Lemma return_bound p st0 e s' c r :
  tinv st0 -> step_gen p st0 e = Some s' -> e_k e = KReturn c r -> parks st0 = false ->
  exists cm, nget (cmds st0) c = Some cm /\ bound cm (e_t e).
Proof.
  intros Hinv Hs Hk Hp. unfold step_gen in Hs.
  destruct (e_t e <? clock st0); [discriminate|]. cbv zeta in Hs. rewrite Hk in Hs.
  cbn [cmds upd_clock] in Hs.
  destruct (nget (cmds st0) c) as [cm|] eqn:Hc; [|discriminate].
  exists cm. split; [reflexivity|].
  destruct (actor_eqb (e_by e) (ACmd c)); [|discriminate].
  pose proof (all_nget _ _ _ _ (proj1 (Hinv Hp)) Hc) as Hcm.
  unfold own_step in Hs.
  destruct (own_time_ok (upd_clock st0 (e_t e)) cm (e_t e)) eqn:Hot; cbn [negb] in Hs; [|discriminate].
  apply own_time_cases in Hot; [|exact Hp].
  rewrite Hk in Hs.
  destruct (disp_ok _ cm); cbn [negb] in Hs; [|discriminate].
  destruct (tc_ok _ cm _ _); cbn [negb] in Hs; [|discriminate].
  destruct (is_gate (c_phase cm) && _); [discriminate|].
  rewrite Nat.eqb_refl in Hs. cbn [andb] in Hs.
  destruct (return_ok p (c_kind cm) _ r) eqn:Hr; [|discriminate]. clear Hs.
  unfold bound, return_ok in *. unfold cmd_inv, alt_le in Hcm.
  destruct (is_deploy (c_kind cm)) eqn:Hdk; [|destruct (is_pause_stop (c_kind cm)) eqn:Hpk].
  all: destruct (c_phase cm) as [| | | | | | | | | |[old|]| | | |]; destruct r; try discriminate.
  all: repeat match goal with H : _ /\ _ |- _ => destruct H end.
  all: try congruence.
  all: destruct Hot as [Hot|Hot];
       try (match goal with H : c_alt _ = None |- _ => rewrite H in Hot; discriminate end).
  all: try lia.
  all: try (match goal with H : forall a, c_alt _ = Some a -> _ |- _ => specialize (H _ Hot) end; lia).
Qed.
