(** M5lbFacts.v — invariants of the load-balancer acceptor model/M5lb.v and the
    lemmas behind props/C01.v and props/C09.v. *)
From KP Require Import model.Base model.Trace model.M5lb.
From Coq Require Import ZifyN ZifyNat ZifyBool.
Local Open Scope nat_scope.

(** * Heaps *)

Lemma nget_nset_same : forall A (l : list (nat * A)) k v, nget (nset l k v) k = Some v.
Proof.
  intros A l k v. induction l as [|[k' v'] r IH]; cbn.
  - now rewrite Nat.eqb_refl.
  - destruct (Nat.eqb k k') eqn:E; cbn; rewrite ?Nat.eqb_refl; auto. now rewrite E.
Qed.

Lemma nget_nset_other : forall A (l : list (nat * A)) k k' v, k' <> k -> nget (nset l k v) k' = nget l k'.
Proof.
  intros A l k k' v Hne. induction l as [|[k2 v2] r IH]; cbn.
  - destruct (Nat.eqb_spec k' k); congruence.
  - destruct (Nat.eqb_spec k k2) as [->|Hk]; cbn.
    + destruct (Nat.eqb_spec k' k2); congruence.
    + destruct (Nat.eqb_spec k' k2); auto.
Qed.

Lemma nget_nset : forall A (l : list (nat * A)) k k' v,
  nget (nset l k v) k' = if Nat.eqb k' k then Some v else nget l k'.
Proof.
  intros. destruct (Nat.eqb_spec k' k) as [->|Hne]; [apply nget_nset_same | now apply nget_nset_other].
Qed.

Lemma nmem_In : forall k l, nmem k l = true <-> In k l.
Proof.
  intros k l. unfold nmem. rewrite existsb_exists. split.
  - intros [x [Hin Hx]]. apply Nat.eqb_eq in Hx. now subst.
  - intros Hin. exists k. split; auto. apply Nat.eqb_refl.
Qed.

Lemma nmem_false : forall k l, nmem k l = false <-> ~ In k l.
Proof.
  intros k l. rewrite <- nmem_In. destruct (nmem k l); split; congruence.
Qed.

Lemma nodupb_NoDup : forall l, nodupb l = true -> NoDup l.
Proof.
  induction l as [|x r IH]; cbn; intros H; constructor.
  - apply andb_prop in H. destruct H as [H _]. apply negb_true_iff in H. now apply nmem_false in H.
  - apply IH. now apply andb_prop in H.
Qed.

Lemma nlist_eqb_eq : forall a b, nlist_eqb a b = true -> a = b.
Proof.
  induction a as [|x a IH]; destruct b as [|y b]; cbn; intros H; try discriminate; auto.
  apply andb_prop in H. destruct H as [H1 H2]. apply Nat.eqb_eq in H1. subst. f_equal. now apply IH.
Qed.

Lemma tstate_eqb_eq : forall a b, tstate_eqb a b = true <-> a = b.
Proof. intros [] []; cbn; split; congruence. Qed.

Lemma tstate_eqb_neq : forall a b, tstate_eqb a b = false <-> a <> b.
Proof. intros [] []; cbn; split; congruence. Qed.

Lemma opt_nat_eqb_eq : forall a b, opt_nat_eqb a b = true <-> a = b.
Proof.
  intros [x|] [y|]; cbn; split; try congruence.
  - intros H. apply Nat.eqb_eq in H. now subst.
  - intros H. inversion H. apply Nat.eqb_refl.
Qed.

Lemma nremove_In : forall k x l, In x (nremove k l) <-> In x l /\ x <> k.
Proof.
  intros k x l. induction l as [|y r IH]; cbn.
  - tauto.
  - destruct (Nat.eqb_spec k y) as [->|Hne]; cbn; rewrite IH; split.
    + intros [H1 H2]. auto.
    + intros [[H1|H1] H2]; [congruence|auto].
    + intros [H|[H1 H2]]; [subst; split; auto|auto].
    + intros [[H1|H1] H2]; auto.
Qed.

Lemma add_targets_get : forall ts tg lb t,
  nget (add_targets tg lb ts) t =
  if nmem t ts then Some (mkTgt lb TAdding false false None false None true []) else nget tg t.
Proof.
  induction ts as [|t0 r IH]; intros tg lb t; cbn [add_targets].
  - reflexivity.
  - rewrite IH. unfold nmem. cbn [existsb]. fold (nmem t r).
    destruct (nmem t r) eqn:E.
    + now rewrite orb_true_r.
    + rewrite orb_false_r. now rewrite nget_nset.
Qed.

(** * Runs *)

Section Runs.
Context {St : Type} (stp : St -> event -> option St).

Lemma run_app : forall a b s,
  run stp s (a ++ b) = match run stp s a with Some s' => run stp s' b | None => None end.
Proof.
  induction a as [|e a IH]; intros b s; cbn; auto.
  destruct (stp s e); auto.
Qed.

Lemma run_snoc : forall pre e s s',
  run stp s (pre ++ [e]) = Some s' <-> exists s1, run stp s pre = Some s1 /\ stp s1 e = Some s'.
Proof.
  intros pre e s s'. rewrite run_app. cbn. split.
  - destruct (run stp s pre) as [s1|]; [|discriminate]. intros H. exists s1. split; auto.
    destruct (stp s1 e); auto.
  - intros [s1 [H1 H2]]. rewrite H1, H2. reflexivity.
Qed.

Lemma run_split : forall tr i e s s',
  run stp s tr = Some s' -> nth_error tr i = Some e ->
  exists s1 s2, run stp s (firstn i tr) = Some s1 /\ stp s1 e = Some s2 /\ run stp s2 (skipn (S i) tr) = Some s'.
Proof.
  induction tr as [|x tr IH]; intros i e s s' Hrun Hnth.
  - destruct i; discriminate.
  - destruct i as [|i]; cbn in Hnth.
    + inversion Hnth; subst. cbn in Hrun. destruct (stp s e) as [s2|] eqn:E; [|discriminate].
      exists s, s2. cbn. auto.
    + cbn in Hrun. destruct (stp s x) as [sx|] eqn:E; [|discriminate].
      destruct (IH i e sx s' Hrun Hnth) as [s1 [s2 [H1 [H2 H3]]]].
      exists s1, s2. cbn [firstn run]. rewrite E. auto.
Qed.

(** an invariant of the reachable states that may speak about the history *)
Lemma run_hinv : forall (P : trace -> St -> Prop) s0,
  (forall pre s e s', run stp s0 pre = Some s -> P pre s -> stp s e = Some s' -> P (pre ++ [e]) s') ->
  forall tr pre s s', run stp s0 pre = Some s -> P pre s -> run stp s tr = Some s' -> P (pre ++ tr) s'.
Proof.
  intros P s0 Hstep. induction tr as [|e tr IH]; intros pre s s' Hpre HP Hrun.
  - cbn in Hrun. inversion Hrun; subst. now rewrite app_nil_r.
  - cbn in Hrun. destruct (stp s e) as [s1|] eqn:E; [|discriminate].
    replace (pre ++ e :: tr) with ((pre ++ [e]) ++ tr) by (rewrite <- app_assoc; reflexivity).
    apply IH with (s := s1); auto.
    + apply run_snoc. eauto.
    + eapply Hstep; eauto.
Qed.

Lemma run_hinv0 : forall (P : trace -> St -> Prop) s0,
  P [] s0 ->
  (forall pre s e s', run stp s0 pre = Some s -> P pre s -> stp s e = Some s' -> P (pre ++ [e]) s') ->
  forall tr s, run stp s0 tr = Some s -> P tr s.
Proof.
  intros P s0 H0 Hstep tr s Hrun.
  apply (run_hinv P s0 Hstep tr [] s0 s); auto.
Qed.

Lemma run_inv : forall (P : St -> Prop),
  (forall s e s', P s -> stp s e = Some s' -> P s') ->
  forall tr s s', P s -> run stp s tr = Some s' -> P s'.
Proof.
  intros P Hstep. induction tr as [|e tr IH]; intros s s' HP Hrun; cbn in Hrun.
  - inversion Hrun; now subst.
  - destruct (stp s e) as [s1|] eqn:E; [|discriminate].
    apply (IH s1 s'); [eapply Hstep; eauto | exact Hrun].
Qed.
End Runs.

Lemma In_firstn_nth : forall A (l : list A) i x, In x (firstn i l) -> exists j, j < i /\ nth_error l j = Some x.
Proof.
  intros A l. induction l as [|y l IH]; intros i x Hin.
  - rewrite firstn_nil in Hin. destruct Hin.
  - destruct i as [|i]; cbn in Hin; [destruct Hin|].
    destruct Hin as [->|Hin].
    + exists 0. split; [lia|reflexivity].
    + destruct (IH i x Hin) as [j [Hj Hn]]. exists (S j). split; [lia|exact Hn].
Qed.

Lemma nth_error_split3 : forall A (l : list A) i x,
  nth_error l i = Some x -> l = firstn i l ++ x :: skipn (S i) l.
Proof.
  intros A l. induction l as [|y l IH]; intros i x H.
  - destruct i; discriminate.
  - destruct i as [|i]; cbn in *.
    + inversion H; reflexivity.
    + f_equal. now apply IH.
Qed.

(** * Inversion of one step *)

Ltac break_hyp H :=
  match type of H with
  | context [match ?x with _ => _ end] =>
    match x with
    | context [match _ with _ => _ end] => fail 1
    | _ => destruct x eqn:?
    end
  end.

Ltac step_inv H :=
  unfold step, step_pinned, step_gen in H; cbn [e_k e_by e_t] in H;
  repeat (break_hyp H; try discriminate H);
  try (inversion H; subst; clear H).

Ltac proj_simp :=
  cbn [tgts bals svcs snames inst routed picked pend cmds ctimeout owe set_owe
       set_tgts set_bals set_svcs set_snames set_inst set_routed set_picked set_pend set_cmds set_ctimeout
       put_t put_b
       t_lb t_st t_pok t_presumed t_by t_sig t_waiter t_probing t_infl
       tg_st tg_pok tg_presumed tg_by tg_sig tg_waiter tg_probing tg_infl
       b_ts b_rot b_idx b_waited b_disp b_deadline b_cmd b_restored bl_rot bl_idx bl_waited bl_disp bl_restored
       s_act s_roll p_lb p_choice] in *.

Ltac heap_cases :=
  repeat match goal with
  | H : context [nget (nset _ ?k _) ?k] |- _ => rewrite nget_nset_same in H
  | |- context [nget (nset _ ?k _) ?k] => rewrite nget_nset_same
  | H : context [nget (nset _ ?k _) ?k'] |- _ =>
    rewrite nget_nset in H; destruct (Nat.eqb_spec k' k); [subst|]
  | |- context [nget (nset _ ?k _) ?k'] =>
    rewrite nget_nset; destruct (Nat.eqb_spec k' k); [subst|]
  end.

Lemma fresh_none : forall A (l : list (nat * A)) k, fresh l k = true -> nget l k = None.
Proof. intros A l k H. unfold fresh in H. destruct (nget l k); [discriminate|reflexivity]. Qed.

(** * The restore rule: marking and the admission test *)

Lemma mark_restored_get : forall lbs bl l,
  nget (mark_restored lbs bl) l =
  match nget bl l with Some b => Some (if nmem l lbs then bl_restored b true else b) | None => None end.
Proof.
  intros lbs bl l. induction bl as [|[k v] r IH]; cbn.
  - reflexivity.
  - destruct (Nat.eqb_spec l k) as [->|Hne]; auto.
Qed.

Lemma mark_restored_some : forall lbs bl l b', nget (mark_restored lbs bl) l = Some b' ->
  exists b, nget bl l = Some b /\ b' = (if nmem l lbs then bl_restored b true else b).
Proof.
  intros lbs bl l b' H. rewrite mark_restored_get in H. destruct (nget bl l) as [b|]; [|discriminate].
  inversion H. eauto.
Qed.

Lemma mark_restored_none : forall lbs bl l, nget (mark_restored lbs bl) l = None -> nget bl l = None.
Proof.
  intros lbs bl l H. rewrite mark_restored_get in H. destruct (nget bl l); [discriminate|reflexivity].
Qed.

Definition same_bal (b b' : bal) : Prop :=
  b_ts b' = b_ts b /\ b_rot b' = b_rot b /\ b_idx b' = b_idx b /\ b_waited b' = b_waited b /\
  b_cmd b' = b_cmd b /\ b_deadline b' = b_deadline b /\ b_disp b' = b_disp b.

Lemma mark_fwd : forall lbs bl l b, nget bl l = Some b ->
  exists b', nget (mark_restored lbs bl) l = Some b' /\ same_bal b b' /\
    (b_restored b = true -> b_restored b' = true) /\ (In l lbs -> b_restored b' = true).
Proof.
  intros lbs bl l b H. rewrite mark_restored_get, H. destruct (nmem l lbs) eqn:E.
  - eexists; split; [reflexivity|]. unfold same_bal; cbn. repeat split; auto.
  - exists b. unfold same_bal. repeat split; auto. intros Hin. apply nmem_In in Hin. congruence.
Qed.

Lemma mark_bwd : forall lbs bl l b', nget (mark_restored lbs bl) l = Some b' ->
  exists b, nget bl l = Some b /\ same_bal b b' /\ (b_restored b' = true -> b_restored b = true \/ In l lbs).
Proof.
  intros lbs bl l b' H. destruct (mark_restored_some _ _ _ _ H) as [b [Hb ->]]. exists b. split; auto.
  destruct (nmem l lbs) eqn:E; unfold same_bal; cbn; repeat split; auto.
  intros _. right. now apply nmem_In.
Qed.

(** read a balancer of the marked heap back (names Hb0 Hs_* Hrest are introduced literally) *)
Ltac unmark :=
  match goal with
  | H : nget (mark_restored _ _) _ = Some _ |- _ =>
    let b0 := fresh "b0" in
    destruct (mark_bwd _ _ _ _ H) as [b0 [Hb0 [[Hs_ts [Hs_rot [Hs_idx [Hs_w [Hs_cmd [Hs_dl Hs_disp]]]]]] Hrest]]]
  end.

Lemma restorable_spec : forall s lb, restorable s lb = true ->
  exists b, nget (bals s) lb = Some b /\ b_cmd b = false /\ b_restored b = false /\ b_disp b = false /\
    b_waited b = None /\ (forall t, In t (b_ts b) -> is_presumed (tgts s) t = true) /\ b_rot b = b_ts b.
Proof.
  intros s lb H. unfold restorable in H. destruct (nget (bals s) lb) as [b|]; [|discriminate].
  repeat (apply andb_prop in H; let H2 := fresh "H" in destruct H as [H H2]).
  exists b. repeat split.
  - now apply negb_true_iff in H.
  - now apply negb_true_iff in H4.
  - now apply negb_true_iff in H3.
  - destruct (b_waited b); [discriminate|reflexivity].
  - intros t Hin. rewrite forallb_forall in H1. auto.
  - now apply nlist_eqb_eq.
Qed.

Lemma is_presumed_true : forall tg t, is_presumed tg t = true -> exists x, nget tg t = Some x /\ t_presumed x = true.
Proof. intros tg t H. unfold is_presumed in H. destruct (nget tg t) as [x|]; [eauto|discriminate]. Qed.

(** * Stability of balancers and targets under a step *)

Lemma bal_stable : forall s e s' lb b,
  step s e = Some s' -> nget (bals s) lb = Some b ->
  exists b', nget (bals s') lb = Some b' /\ b_ts b' = b_ts b /\ b_deadline b' = b_deadline b /\
             (forall v, b_waited b = Some v -> b_waited b' = Some v).
Proof.
  intros s [tm a k] s' lb b H Hb. destruct k; step_inv H; proj_simp;
    try (exists b; repeat split; auto; fail);
    heap_cases; try (exists b; repeat split; auto; fail);
    try match goal with
    | H1 : nget (bals _) ?l = Some ?x, H2 : nget (bals _) ?l = Some ?y |- _ =>
      rewrite H1 in H2; inversion H2; subst; clear H2
    end;
    try (eexists; split; [reflexivity|]; proj_simp; repeat split; auto; fail).
  all: try (apply andb_prop in Heqb0; destruct Heqb0 as [Hf _]; apply andb_prop in Hf; destruct Hf as [Hf _];
            apply fresh_none in Hf; congruence).
  all: try (eexists; split; [reflexivity|]; proj_simp; repeat split; auto;
            intros v Hv; repeat (match goal with H : _ && _ = true |- _ => apply andb_prop in H; destruct H end);
            destruct (b_waited b); try discriminate; fail).
  rewrite mark_restored_get, Hb. destruct (nmem lb _); eexists; (split; [reflexivity|]); proj_simp; auto.
Qed.

(** the ghost flags: who created the balancer never changes, "restored" is never taken back *)
Lemma bal_flags_stable : forall s e s' lb b,
  step s e = Some s' -> nget (bals s) lb = Some b ->
  exists b', nget (bals s') lb = Some b' /\ b_cmd b' = b_cmd b /\ (b_restored b = true -> b_restored b' = true).
Proof.
  intros s [tm a k] s' lb b H Hb. destruct k; step_inv H; proj_simp;
    try (exists b; repeat split; auto; fail);
    heap_cases; try (exists b; repeat split; auto; fail);
    try match goal with
    | H1 : nget (bals _) ?l = Some ?x, H2 : nget (bals _) ?l = Some ?y |- _ =>
      rewrite H1 in H2; inversion H2; subst; clear H2
    end;
    try (eexists; split; [reflexivity|]; proj_simp; repeat split; auto; fail).
  all: try (apply andb_prop in Heqb0; destruct Heqb0 as [Hf _]; apply andb_prop in Hf; destruct Hf as [Hf _];
            apply fresh_none in Hf; congruence).
  rewrite mark_restored_get, Hb. destruct (nmem lb _); eexists; (split; [reflexivity|]); proj_simp; auto.
Qed.

Lemma fresh_all_notin : forall A (tg : list (nat * A)) ts t x,
  forallb (fresh tg) ts = true -> nget tg t = Some x -> nmem t ts = false.
Proof.
  intros A tg ts t x Hall Hg. apply nmem_false. intros Hin.
  rewrite forallb_forall in Hall. apply Hall in Hin. apply fresh_none in Hin. congruence.
Qed.

Ltac split_ands :=
  repeat match goal with H : _ && _ = true |- _ => apply andb_prop in H; destruct H end.

Ltac same_get :=
  repeat match goal with
  | H1 : nget ?l ?k = Some ?x, H2 : nget ?l ?k = Some ?y |- _ =>
    rewrite H1 in H2; inversion H2; subst; clear H2
  | H1 : nget ?l ?k = Some ?x, H2 : nget ?l ?k = None |- _ => rewrite H1 in H2; discriminate H2
  end.

Lemma tgt_stable : forall s e s' t x,
  step s e = Some s' -> nget (tgts s) t = Some x ->
  exists x', nget (tgts s') t = Some x' /\ t_lb x' = t_lb x /\
             (t_pok x = true -> t_pok x' = true) /\ (t_sig x = true -> t_sig x' = true) /\
             (forall v, t_waiter x = Some v -> t_waiter x' = Some v).
Proof.
  intros s [tm a k] s' t x H Hx. destruct k; step_inv H; proj_simp;
    try (exists x; repeat split; auto; fail);
    heap_cases; same_get; try (exists x; repeat split; auto; fail);
    try (eexists; split; [reflexivity|]; proj_simp; repeat split; auto; congruence).
  all: try (split_ands; rewrite add_targets_get;
            erewrite fresh_all_notin by eauto; exists x; repeat split; auto; fail).
  all: try (destruct ok; eexists; split; try reflexivity; proj_simp; repeat split; auto; congruence).
Qed.

(** * The state invariant *)

(** a balancer that may carry traffic: its deploy's wait succeeded, or it was restored *)
Definition bal_ready (b : bal) : Prop := b_waited b = Some true \/ b_restored b = true.
Definition lb_ready (s : state) (lb : nat) : Prop := exists b, nget (bals s) lb = Some b /\ bal_ready b.

Record Inv (s : state) : Prop := mkInv {
  i_tlb : forall t x, nget (tgts s) t = Some x -> exists b, nget (bals s) (t_lb x) = Some b /\ In t (b_ts b);
  i_ts : forall lb b t, nget (bals s) lb = Some b -> In t (b_ts b) -> exists x, nget (tgts s) t = Some x /\ t_lb x = lb;
  i_rot : forall lb b t, nget (bals s) lb = Some b -> In t (b_rot b) -> In t (b_ts b);
  i_slot : forall sv x lb, nget (svcs s) sv = Some x -> in_slots x lb = true -> lb_ready s lb;
  i_pick : forall r lb, nget (picked s) r = Some lb -> lb_ready s lb;
  i_pend : forall r p t, nget (pend s) r = Some p -> p_choice p = Some t ->
           exists b, nget (bals s) (p_lb p) = Some b /\ bal_ready b /\ In t (b_ts b);
  i_waited : forall lb b t x, nget (bals s) lb = Some b -> b_waited b = Some true -> In t (b_ts b) ->
             nget (tgts s) t = Some x -> t_waiter x = Some true;
  i_wsig : forall t x, nget (tgts s) t = Some x -> t_waiter x = Some true -> t_sig x = true;
  i_sigpok : forall t x, nget (tgts s) t = Some x -> t_sig x = true \/ t_by x <> None -> t_pok x = true;
  (* restored balancers: never a command's, never waited on, every target presumed healthy by the restore *)
  i_rest : forall lb b, nget (bals s) lb = Some b -> b_restored b = true -> b_cmd b = false /\ b_waited b = None;
  i_restp : forall lb b t x, nget (bals s) lb = Some b -> b_restored b = true -> In t (b_ts b) ->
            nget (tgts s) t = Some x -> t_presumed x = true;
  (* the balancer a deploying command waits for / proceeds with is one it created *)
  i_cmdlb : forall c lb, nget (cmds s) c = Some (CWaiting lb) \/ nget (cmds s) c = Some (CProceed lb) ->
            exists b, nget (bals s) lb = Some b /\ b_cmd b = true
}.

Lemma inv_init : Inv init.
Proof.
  constructor; cbn; intros; try discriminate.
  match goal with H : _ \/ _ |- _ => destruct H; discriminate end.
Qed.

Lemma bal_waited_stable : forall s e s' lb b,
  step s e = Some s' -> nget (bals s) lb = Some b -> b_waited b = Some true ->
  exists b', nget (bals s') lb = Some b' /\ b_waited b' = Some true /\ b_ts b' = b_ts b.
Proof.
  intros s e s' lb b H Hb Hw. destruct (bal_stable _ _ _ _ _ H Hb) as [b' [H1 [H2 [_ H3]]]].
  exists b'. auto.
Qed.

Ltac inj_some :=
  repeat match goal with
  | H : Some _ = Some _ |- _ => inversion H; subst; clear H
  | H : Some _ = None |- _ => discriminate H
  | H : None = Some _ |- _ => discriminate H
  end.

Ltac norm := heap_cases; inj_some; same_get; proj_simp.

Ltac use_tlb HI :=
  match goal with
  | Hx : nget (tgts _) ?t = Some ?x |- _ =>
    let bb := fresh "bb" in let Hb1 := fresh "Hb1" in let Hb2 := fresh "Hb2" in
    destruct (i_tlb _ HI _ _ Hx) as [bb [Hb1 Hb2]]
  end.

Lemma add_targets_old : forall tg lb ts t x,
  forallb (fresh tg) ts = true -> nget tg t = Some x -> nget (add_targets tg lb ts) t = Some x.
Proof.
  intros tg lb ts t x Hf Hx. rewrite add_targets_get. erewrite fresh_all_notin; eauto.
Qed.

Lemma add_targets_inv : forall tg lb ts t x,
  nget (add_targets tg lb ts) t = Some x ->
  (In t ts /\ x = mkTgt lb TAdding false false None false None true []) \/ (~ In t ts /\ nget tg t = Some x).
Proof.
  intros tg lb ts t x H. rewrite add_targets_get in H. destruct (nmem t ts) eqn:E.
  - left. apply nmem_In in E. inversion H. auto.
  - right. apply nmem_false in E. auto.
Qed.

(** ** Preservation, field by field *)

Lemma lbnew_tlb : forall s lb ts t x dl cm,
  Inv s -> fresh (bals s) lb = true -> forallb (fresh (tgts s)) ts = true ->
  nget (add_targets (tgts s) lb ts) t = Some x ->
  exists b, nget (nset (bals s) lb (mkBal ts [] 0 None false dl cm false)) (t_lb x) = Some b /\ In t (b_ts b).
Proof.
  intros s lb ts t x dl cm HI Hf Hts Hx. apply fresh_none in Hf.
  apply add_targets_inv in Hx. destruct Hx as [[Hin ->]|[Hin Hx]]; proj_simp.
  - rewrite nget_nset_same. eexists; split; [reflexivity|]. exact Hin.
  - destruct (i_tlb _ HI _ _ Hx) as [b [Hb1 Hb2]].
    rewrite nget_nset_other by congruence. eauto.
Qed.

Lemma pres_tlb : forall s e s', Inv s -> step s e = Some s' ->
  forall t x, nget (tgts s') t = Some x -> exists b, nget (bals s') (t_lb x) = Some b /\ In t (b_ts b).
Proof.
  intros s [tm a k] s' HI H t x Hx. destruct k; step_inv H; proj_simp;
  try (eapply (i_tlb _ HI); eauto; fail);
  try (split_ands; eapply lbnew_tlb; eauto; fail).
  all: norm; try (eapply (i_tlb _ HI); eauto; fail).
  all: try (split_ands; discriminate).
  all: try (use_tlb HI; proj_simp; same_get; eexists; split; [reflexivity|]; proj_simp; auto; fail).
  use_tlb HI. destruct (mark_fwd (n :: opt_list rollout) _ _ _ Hb1) as [b' [Hb' [[Hts _] _]]].
  exists b'. rewrite Hts. auto.
Qed.

Ltac use_ts HI :=
  match goal with
  | Hb : nget (bals _) ?lb = Some ?b, Hin : In ?t (b_ts ?b) |- _ =>
    let xx := fresh "xx" in let Hx1 := fresh "Hx1" in let Hx2 := fresh "Hx2" in
    destruct (i_ts _ HI _ _ _ Hb Hin) as [xx [Hx1 Hx2]]
  end.
Lemma lbnew_ts : forall s lb0 ts dl cm lb b t,
  Inv s -> fresh (bals s) lb0 = true -> forallb (fresh (tgts s)) ts = true ->
  nget (nset (bals s) lb0 (mkBal ts [] 0 None false dl cm false)) lb = Some b -> In t (b_ts b) ->
  exists x, nget (add_targets (tgts s) lb0 ts) t = Some x /\ t_lb x = lb.
Proof.
  intros s lb0 ts dl cm lb b t HI Hf Hts Hb Hin. rewrite nget_nset in Hb.
  destruct (Nat.eqb_spec lb lb0) as [->|Hne].
  - inversion Hb; subst; proj_simp. rewrite add_targets_get.
    apply nmem_In in Hin. rewrite Hin. eexists; split; [reflexivity|reflexivity].
  - destruct (i_ts _ HI _ _ _ Hb Hin) as [x [Hx1 Hx2]]. exists x. split; auto.
    now apply add_targets_old.
Qed.
Lemma pres_ts : forall s e s', Inv s -> step s e = Some s' ->
  forall lb b t, nget (bals s') lb = Some b -> In t (b_ts b) -> exists x, nget (tgts s') t = Some x /\ t_lb x = lb.
Proof.
  intros s [tm a k] s' HI H lb b t Hb Hin. destruct k; step_inv H; proj_simp;
  try (eapply (i_ts _ HI); eauto; fail);
  try (split_ands; eapply lbnew_ts; eauto; fail).
  all: norm; try (eapply (i_ts _ HI); eauto; fail).
  all: try (split_ands; discriminate).
  all: try (use_ts HI; same_get; eexists; split; [reflexivity || eassumption|]; proj_simp; auto; fail).
  all: try (unmark; rewrite Hs_ts in Hin; eapply (i_ts _ HI); eauto; fail).
  all: use_ts HI; same_get.
Qed.

Lemma rotation_sub : forall hs tg ts t, nlist_eqb hs (healthy_of tg ts) = true -> In t hs -> In t ts /\ is_healthy tg t = true.
Proof.
  intros hs tg ts t H Hin. apply nlist_eqb_eq in H. subst. unfold healthy_of in Hin.
  now apply filter_In in Hin.
Qed.
Lemma pres_rot : forall s e s', Inv s -> step s e = Some s' ->
  forall lb b t, nget (bals s') lb = Some b -> In t (b_rot b) -> In t (b_ts b).
Proof.
  intros s [tm a k] s' HI H lb b t Hb Hin. destruct k; step_inv H; proj_simp;
  try (eapply (i_rot _ HI); eauto; fail).
  all: norm; try (eapply (i_rot _ HI); eauto; fail).
  all: try (split_ands; discriminate).
  all: try (destruct Hin; fail).
  all: try (unmark; rewrite Hs_ts; rewrite Hs_rot in Hin; eapply (i_rot _ HI); eauto; fail).
  all: eapply rotation_sub; eauto.
Qed.

Lemma bal_ready_stable : forall s e s' lb b,
  step s e = Some s' -> nget (bals s) lb = Some b -> bal_ready b ->
  exists b', nget (bals s') lb = Some b' /\ bal_ready b' /\ b_ts b' = b_ts b.
Proof.
  intros s e s' lb b H Hb Hr.
  destruct (bal_stable _ _ _ _ _ H Hb) as [b' [H1 [H2 [_ H3]]]].
  destruct (bal_flags_stable _ _ _ _ _ H Hb) as [b2 [G1 [_ G2]]].
  rewrite H1 in G1. inversion G1; subst b2.
  exists b'. repeat split; auto. destruct Hr as [Hr|Hr]; [left|right]; auto.
Qed.

Lemma ready_stable : forall s e s' lb, step s e = Some s' -> lb_ready s lb -> lb_ready s' lb.
Proof.
  intros s e s' lb H [b [Hb Hw]]. destruct (bal_ready_stable _ _ _ _ _ H Hb Hw) as [b' [H1 [H2 _]]].
  exists b'. auto.
Qed.

Lemma in_slots_set_slot : forall x sl lb0 lb, in_slots (set_slot x sl lb0) lb = true -> lb = lb0 \/ in_slots x lb = true.
Proof.
  intros [a r] sl lb0 lb H. unfold in_slots, set_slot in *. destruct sl; proj_simp;
  apply orb_prop in H; destruct H as [H|H]; try (apply opt_nat_eqb_eq in H; inversion H; auto; fail);
  right; rewrite H; auto using orb_true_r.
Qed.

Lemma in_slots_restored : forall n roll lb, in_slots (mkSvc (Some n) roll) lb = true -> In lb (n :: opt_list roll).
Proof.
  intros n roll lb H. unfold in_slots in H. cbn [s_act s_roll] in H. apply orb_prop in H. destruct H as [H|H];
  apply opt_nat_eqb_eq in H.
  - inversion H. left. reflexivity.
  - subst roll. right. left. reflexivity.
Qed.

(** the balancers named by an accepted KRestored event are ready afterwards *)
Lemma restored_ready : forall s lbs lb, forallb (restorable s) lbs = true -> In lb lbs ->
  exists b', nget (mark_restored lbs (bals s)) lb = Some b' /\ b_restored b' = true.
Proof.
  intros s lbs lb Hall Hin. rewrite forallb_forall in Hall. specialize (Hall _ Hin).
  destruct (restorable_spec _ _ Hall) as [b [Hb _]].
  destruct (mark_fwd lbs _ _ _ Hb) as [b' [Hb' [_ [_ Hr]]]]. eauto.
Qed.

Lemma pres_slot : forall s e s', Inv s -> step s e = Some s' ->
  forall sv x lb, nget (svcs s') sv = Some x -> in_slots x lb = true -> lb_ready s' lb.
Proof.
  intros s e s' HI H sv x lb Hx Hin.
  assert (Hold : forall sv x, nget (svcs s) sv = Some x -> in_slots x lb = true -> lb_ready s' lb).
  { intros sv0 x0 H0 H1. eapply ready_stable; eauto. destruct (i_slot _ HI _ _ _ H0 H1) as [b Hb]. exists b. exact Hb. }
  destruct e as [tm a k]. destruct k; step_inv H; proj_simp; try (eapply Hold; eauto; fail).
  all: norm; try (eapply Hold; eauto; fail).
  all: try (split_ands; discriminate).
  - eapply (Hold old); eauto.
  - apply in_slots_set_slot in Hin. destruct Hin as [->|Hin]; [|eapply Hold; eauto].
    exists b. proj_simp. split; auto. left; auto.
  - split_ands. apply in_slots_restored in Hin.
    destruct (restored_ready _ _ _ H0 Hin) as [b' [Hb' Hr]]. exists b'. proj_simp. split; auto. right; auto.
Qed.

Lemma pres_pick : forall s e s', Inv s -> step s e = Some s' ->
  forall r lb, nget (picked s') r = Some lb -> lb_ready s' lb.
Proof.
  intros s e s' HI H r lb Hr.
  assert (Hold : forall r, nget (picked s) r = Some lb -> lb_ready s' lb).
  { intros r0 H0. eapply ready_stable; eauto. destruct (i_pick _ HI _ _ H0) as [b Hb]. exists b. exact Hb. }
  assert (Hsl : forall sv x, nget (svcs s) sv = Some x -> in_slots x lb = true -> lb_ready s' lb).
  { intros sv0 x0 H0 H1. eapply ready_stable; eauto. destruct (i_slot _ HI _ _ _ H0 H1) as [b Hb]. exists b. exact Hb. }
  destruct e as [tm a k]. destruct k; step_inv H; proj_simp; try (eapply Hold; eauto; fail).
  all: norm; try (eapply Hold; eauto; fail).
  all: try (split_ands; discriminate).
  all: try (split_ands; eapply Hsl; eauto; fail).
Qed.

Lemma claim_pend_ok : forall s r lb b i t, Inv s -> nget (picked s) r = Some lb -> nget (bals s) lb = Some b ->
  opt_nat_eqb (nth_error (b_rot b) i) (Some t) = true -> bal_ready b /\ In t (b_ts b).
Proof.
  intros s r lb b i t HI Hp Hb Hn. apply opt_nat_eqb_eq in Hn. apply nth_error_In in Hn.
  destruct (i_pick _ HI _ _ Hp) as [b' [Hb' Hw]]. rewrite Hb in Hb'. inversion Hb'; subst b'.
  split; auto. eapply (i_rot _ HI); eauto.
Qed.

Lemma pres_pend : forall s e s', Inv s -> step s e = Some s' ->
  forall r p t, nget (pend s') r = Some p -> p_choice p = Some t ->
  exists b, nget (bals s') (p_lb p) = Some b /\ bal_ready b /\ In t (b_ts b).
Proof.
  intros s e s' HI H r p t Hr Hc.
  assert (Hold : forall r, nget (pend s) r = Some p -> exists b, nget (bals s') (p_lb p) = Some b /\ bal_ready b /\ In t (b_ts b)).
  { intros r0 H0. destruct (i_pend _ HI _ _ _ H0 Hc) as [b [Hb1 [Hb2 Hb3]]].
    destruct (bal_ready_stable _ _ _ _ _ H Hb1 Hb2) as [b' [H1 [H2 H3]]]. exists b'. rewrite H3. auto. }
  destruct e as [tm a k]. destruct k; step_inv H; proj_simp; try (eapply Hold; eauto; fail).
  all: norm; try (eapply Hold; eauto; fail).
  all: try (split_ands; discriminate).
  all: try (subst p; proj_simp; inj_some).
  all: split_ands; repeat match goal with H : (_ =? _) = true |- _ => apply Nat.eqb_eq in H; subst end.
  all: try (match goal with H0 : mkPend _ _ = ?p, Hc : p_choice ?p = _ |- _ => rewrite <- H0 in Hc; proj_simp; inj_some end).
  all: try (match goal with Hp : nget (picked _) _ = Some _, Hb : nget (bals _) _ = Some _, Hn : opt_nat_eqb (nth_error _ _) _ = true |- _ =>
         destruct (claim_pend_ok _ _ _ _ _ _ HI Hp Hb Hn) as [Hw Hin]; eexists; split; [reflexivity || eassumption|]; proj_simp; auto end; fail).
  all: congruence.
Qed.


Lemma waiter_is_true : forall tg t x, waiter_is tg true t = true -> nget tg t = Some x -> t_waiter x = Some true.
Proof.
  intros tg t x H Hx. unfold waiter_is in H. rewrite Hx in H. destruct (t_waiter x) as [[]|]; cbn in H; congruence.
Qed.

Lemma pres_waited : forall s e s', Inv s -> step s e = Some s' ->
  forall lb b t x, nget (bals s') lb = Some b -> b_waited b = Some true -> In t (b_ts b) ->
  nget (tgts s') t = Some x -> t_waiter x = Some true.
Proof.
  intros s [tm a k] s' HI H lb b t x Hb Hw Hin Hx. destruct k; step_inv H; proj_simp;
  try (eapply (i_waited _ HI); eauto; fail).
  all: norm; try (eapply (i_waited _ HI); eauto; fail).
  all: try (split_ands; discriminate).
  all: try (unmark; rewrite Hs_ts in Hin; rewrite Hs_w in Hw; eapply (i_waited _ HI); eauto; fail).
  - split_ands. apply eqb_prop in H0. symmetry in H0. rewrite forallb_forall in H0.
    eapply waiter_is_true; eauto.
  - use_ts HI. split_ands. erewrite add_targets_old in Hx by eauto. inj_some. eapply (i_waited _ HI); eauto.
  - use_ts HI. split_ands. erewrite add_targets_old in Hx by eauto. inj_some. eapply (i_waited _ HI); eauto.
  - use_ts HI. split_ands. erewrite add_targets_old in Hx by eauto. inj_some. eapply (i_waited _ HI); eauto.
  - use_ts HI. split_ands. erewrite add_targets_old in Hx by eauto. inj_some. eapply (i_waited _ HI); eauto.
  - use_ts HI. split_ands. erewrite add_targets_old in Hx by eauto. inj_some. eapply (i_waited _ HI); eauto.
  - reflexivity.
  - reflexivity.
  - reflexivity.
  - pose proof (i_waited _ HI _ _ _ _ Hb Hw Hin Heqo). congruence.
  - pose proof (i_waited _ HI _ _ _ _ Hb Hw Hin Heqo). congruence.
  - pose proof (i_waited _ HI _ _ _ _ Hb Hw Hin Heqo). congruence.
Qed.

Lemma pres_wsig : forall s e s', Inv s -> step s e = Some s' ->
  forall t x, nget (tgts s') t = Some x -> t_waiter x = Some true -> t_sig x = true.
Proof.
  intros s [tm a k] s' HI H t x Hx Hw. destruct k; step_inv H; proj_simp;
  try (eapply (i_wsig _ HI); eauto; fail).
  all: norm; try (eapply (i_wsig _ HI); eauto; fail).
  all: try (split_ands; discriminate).
  all: try (split_ands; auto; fail).
  all: try (apply add_targets_inv in Hx; destruct Hx as [[_ ->]|[_ Hx]]; [discriminate|eapply (i_wsig _ HI); eauto]; fail).
  all: try (destruct ok; proj_simp; eapply (i_wsig _ HI); eauto; fail).
Qed.

Lemma pres_sigpok : forall s e s', Inv s -> step s e = Some s' ->
  forall t x, nget (tgts s') t = Some x -> t_sig x = true \/ t_by x <> None -> t_pok x = true.
Proof.
  intros s [tm a k] s' HI H t x Hx Hw. destruct k; step_inv H; proj_simp;
  try (eapply (i_sigpok _ HI); eauto; fail).
  all: norm; try (eapply (i_sigpok _ HI); eauto; fail).
  all: try (split_ands; discriminate).
  all: try reflexivity.
  all: try (apply add_targets_inv in Hx; destruct Hx as [[_ ->]|[_ Hx]]; [proj_simp; destruct Hw; congruence|eapply (i_sigpok _ HI); eauto]; fail).
  all: try (eapply (i_sigpok _ HI); eauto; right; split_ands;
            match goal with H : becoming _ _ _ = Some _ |- _ => apply find_some in H; destruct H as [_ H] end;
            match goal with H : context [nget ?tg ?t], H1 : nget ?tg ?t = Some _ |- _ => rewrite H1 in H end;
            destruct (t_by _); [congruence|discriminate]; fail).
Qed.

Lemma phase_waiting_eq : forall p lb, phase_is_waiting p lb = true -> p = Some (CWaiting lb).
Proof.
  intros [[l| | |]|] lb0 H; cbn in H; try discriminate. apply Nat.eqb_eq in H. now subst.
Qed.

Lemma phase_proceed_eq : forall p lb, phase_is_proceed p lb = true -> p = Some (CProceed lb).
Proof.
  intros [[l|l| |]|] lb0 H; cbn in H; try discriminate. apply Nat.eqb_eq in H. now subst.
Qed.

Lemma pres_rest : forall s e s', Inv s -> step s e = Some s' ->
  forall lb b, nget (bals s') lb = Some b -> b_restored b = true -> b_cmd b = false /\ b_waited b = None.
Proof.
  intros s [tm a k] s' HI H lb b Hb Hr. destruct k; step_inv H; proj_simp;
  try (eapply (i_rest _ HI); eauto; fail).
  all: norm; try (eapply (i_rest _ HI); eauto; fail).
  all: try (split_ands; discriminate).
  all: try (match goal with Hg : nget (bals _) _ = Some _ |- _ => apply (i_rest _ HI _ _ Hg); exact Hr end; fail).
  (* KDeployWaited on a restored balancer: impossible *)
  all: try (exfalso; split_ands;
    match goal with Hp : phase_is_waiting _ _ = true |- _ => apply phase_waiting_eq in Hp;
      destruct (i_cmdlb _ HI _ _ (or_introl Hp)) as [b1 [Hb1 Hc1]] end;
    same_get; destruct (i_rest _ HI _ _ Heqo0 Hr) as [Hc _]; congruence).
  - (* KRestored *)
    unmark. rewrite Hs_cmd, Hs_w. destruct (Hrest Hr) as [Hr0|Hin].
    + eapply (i_rest _ HI); eauto.
    + split_ands. match goal with Hf : forallb _ _ = true |- _ => rewrite forallb_forall in Hf; specialize (Hf _ Hin);
        destruct (restorable_spec _ _ Hf) as [b1 [Hb1 [Hc1 [_ [_ [Hw1 _]]]]]] end.
      same_get. auto.
Qed.

Lemma tgt_presumed_stable : forall s e s' t x,
  step s e = Some s' -> nget (tgts s) t = Some x -> t_presumed x = true ->
  exists x', nget (tgts s') t = Some x' /\ t_presumed x' = true.
Proof.
  intros s [tm a k] s' t x H Hx Hp. destruct k; step_inv H; proj_simp;
    try (exists x; repeat split; auto; fail);
    heap_cases; same_get; try (exists x; repeat split; auto; fail);
    try (eexists; split; [reflexivity|]; proj_simp; auto; fail).
  all: try (split_ands; rewrite add_targets_get;
            erewrite fresh_all_notin by eauto; exists x; repeat split; auto; fail).
  all: try (destruct ok; eexists; split; try reflexivity; proj_simp; auto; fail).
  all: try (eexists; split; [reflexivity|]; destruct (_ && _); proj_simp; auto; fail).
Qed.

(** where a restored balancer of the next state comes from *)
Lemma bal_restored_back : forall s e s' lb b,
  step s e = Some s' -> nget (bals s') lb = Some b -> b_restored b = true ->
  exists b0, nget (bals s) lb = Some b0 /\ b_ts b0 = b_ts b /\
    (b_restored b0 = true \/ forall t, In t (b_ts b0) -> is_presumed (tgts s) t = true).
Proof.
  intros s [tm a k] s' lb b H Hb Hr. destruct k; step_inv H; proj_simp;
    try (exists b; repeat split; auto; fail).
  all: norm; try (exists b; repeat split; auto; fail).
  all: try discriminate.
  all: try (eexists; split; [eassumption|]; proj_simp; split; auto; fail).
  unmark. exists b0. repeat split; auto. destruct (Hrest Hr) as [Hr0|Hin]; auto. right.
  split_ands. match goal with Hf : forallb _ _ = true |- _ => rewrite forallb_forall in Hf; specialize (Hf _ Hin);
    destruct (restorable_spec _ _ Hf) as [b1 [Hb1 [_ [_ [_ [_ [Hp1 _]]]]]]] end.
  same_get. exact Hp1.
Qed.

Lemma pres_restp : forall s e s', Inv s -> step s e = Some s' ->
  forall lb b t x, nget (bals s') lb = Some b -> b_restored b = true -> In t (b_ts b) ->
  nget (tgts s') t = Some x -> t_presumed x = true.
Proof.
  intros s e s' HI H lb b t x Hb Hr Hin Hx.
  destruct (bal_restored_back _ _ _ _ _ H Hb Hr) as [b0 [Hb0 [Hts Hor]]].
  rewrite <- Hts in Hin. destruct (i_ts _ HI _ _ _ Hb0 Hin) as [x0 [Hx0 _]].
  assert (Hp0 : t_presumed x0 = true).
  { destruct Hor as [Hr0|Hall].
    - eapply (i_restp _ HI); eauto.
    - specialize (Hall _ Hin). unfold is_presumed in Hall. now rewrite Hx0 in Hall. }
  destruct (tgt_presumed_stable _ _ _ _ _ H Hx0 Hp0) as [x' [Hx' Hp']]. congruence.
Qed.

Lemma pres_cmdlb : forall s e s', Inv s -> step s e = Some s' ->
  forall c lb, nget (cmds s') c = Some (CWaiting lb) \/ nget (cmds s') c = Some (CProceed lb) ->
  exists b, nget (bals s') lb = Some b /\ b_cmd b = true.
Proof.
  intros s e s' HI H c lb Hc.
  assert (Hold : (nget (cmds s) c = Some (CWaiting lb) \/ nget (cmds s) c = Some (CProceed lb)) ->
                 exists b, nget (bals s') lb = Some b /\ b_cmd b = true).
  { intros H0. destruct (i_cmdlb _ HI _ _ H0) as [b [Hb Hcm]].
    destruct (bal_flags_stable _ _ _ _ _ H Hb) as [b' [Hb' [Hc' _]]]. exists b'. split; congruence. }
  destruct e as [tm a k]. destruct k; step_inv H; proj_simp; try (apply Hold; exact Hc; fail).
  all: rewrite nget_nset in Hc;
       match type of Hc with context [Nat.eqb ?c0 ?c1] => destruct (Nat.eqb_spec c0 c1) as [->|Hne]; [|apply Hold; exact Hc] end.
  all: try (destruct Hc; discriminate).
  all: try (split_ands; discriminate).
  (* KDeployWaited true: the command proceeds with the balancer it was waiting for *)
  all: try (destruct Hc as [Hc|Hc]; inversion Hc; subst; apply Hold; left; split_ands; apply phase_waiting_eq; assumption).
  (* KLbNew by the command *)
  all: destruct Hc as [Hc|Hc]; inversion Hc; subst; rewrite nget_nset_same; eexists; split; reflexivity.
Qed.

Theorem inv_step : forall s e s', Inv s -> step s e = Some s' -> Inv s'.
Proof.
  intros s e s' HI H. constructor.
  - eapply pres_tlb; eauto.
  - eapply pres_ts; eauto.
  - eapply pres_rot; eauto.
  - intros sv x lb Hx Hin. eapply pres_slot; eauto.
  - intros r lb Hr. eapply pres_pick; eauto.
  - eapply pres_pend; eauto.
  - eapply pres_waited; eauto.
  - eapply pres_wsig; eauto.
  - eapply pres_sigpok; eauto.
  - eapply pres_rest; eauto.
  - eapply pres_restp; eauto.
  - eapply pres_cmdlb; eauto.
Qed.

Theorem inv_run : forall tr s, run step init tr = Some s -> Inv s.
Proof.
  intros tr s H. eapply (run_inv step Inv); [apply inv_step|apply inv_init|exact H].
Qed.

Lemma inv_run_from : forall tr s s', Inv s -> run step s tr = Some s' -> Inv s'.
Proof. intros tr s s' HI H. eapply (run_inv step Inv); [apply inv_step|exact HI|exact H]. Qed.

