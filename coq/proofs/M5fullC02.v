(** M5fullC02.v — slots hold waited balancers, a request's balancer was waited
    for, a refused claim follows a Drain mark, and the C02 statements on
    accepted traces. *)
From KP Require Import model.Base model.Trace model.M5full proofs.M5fullFacts proofs.M5fullGuards
  proofs.M5fullInv proofs.M5fullDrain proofs.M5fullPath proofs.M5fullLb proofs.M5fullClean.
From Coq Require Import ZifyN ZifyNat ZifyBool.
Local Open Scope nat_scope.

(** * S: every slot of every service object holds a waited balancer *)

Lemma step_slot_back : forall s e s' sv x' lb,
  step s e = Some s' -> nget (svcs s') sv = Some x' -> is_slot x' lb = true ->
  (exists sv0 x, nget (svcs s) sv0 = Some x /\ is_slot x lb = true) \/
  (exists ro rep, e_k e = KSlot sv ro lb rep).
Proof.
  intros s e s' sv x' lb H Hx' Hs. step_inv H; norm; rewrite ?svcs_taint in *; proj; eauto.
  all: heap_cases; inj_some; eauto.
  all: unfold is_slot in *; cbn [s_active s_rollout] in *.
  all: apply orb_true_iff in Hs; destruct Hs as [Hs|Hs]; apply opt_nat_eqb_eq in Hs; inj_some; eauto.
  all: try (left; eexists _, _; split; [eassumption|]; rewrite Hs; cbn; rewrite Nat.eqb_refl; auto using orb_true_r; fail).
  all: try discriminate.
Qed.

Definition InvS (s : state) : Prop :=
  forall sv x lb, nget (svcs s) sv = Some x -> is_slot x lb = true ->
  exists l, nget (lbs s) lb = Some l /\ l_waited l = true.

Lemma invS_step : forall s e s', InvS s -> step s e = Some s' -> InvS s'.
Proof.
  intros s e s' HI H sv x' lb Hx' Hs.
  assert (Hold : exists l, nget (lbs s) lb = Some l /\ l_waited l = true).
  { destruct (step_slot_back _ _ _ _ _ _ H Hx' Hs) as [(sv0 & x & Hx & Hsl)|(ro & rep & Hk)].
    - eapply HI; eauto.
    - eapply step_KSlot; eauto. }
  destruct Hold as (l & Hl & Hw). destruct (step_lb_fwd _ _ _ _ _ H Hl) as (l' & Hl' & _ & Hw' & _). eauto.
Qed.

(** * K: the balancer a request picked was waited for; the target it was given is one of its targets *)

Definition phase_lb (p : rphase) : option (nat * option nat) :=
  match p with
  | PPicked _ lb => Some (lb, None)
  | PLbClaimed lb ot => Some (lb, ot)
  | _ => None
  end.

Lemma step_phase_lb : forall s e s' r p' lb ot,
  step s e = Some s' -> phase_of s' r = Some p' -> phase_lb p' = Some (lb, ot) ->
  phase_of s r = Some p' \/
  (exists sv, e_k e = KPick r sv (Some lb) /\ ot = None) \/
  (e_k e = KLbClaim lb ot r).
Proof.
  intros s e s' r p' lb ot H Hp' Hlb. step_inv H; norm; auto.
  all: eqb_cases; auto; inj_some; cbn [phase_lb] in Hlb; try discriminate; inj_some; eauto.
Qed.

Definition InvK (s : state) : Prop :=
  forall r p lb ot, phase_of s r = Some p -> phase_lb p = Some (lb, ot) ->
  exists l, nget (lbs s) lb = Some l /\ l_waited l = true /\ forall t, ot = Some t -> In t (l_targets l).

Lemma invK_step : forall s e s', InvS s -> InvL2 s -> InvK s -> step s e = Some s' -> InvK s'.
Proof.
  intros s e s' HS H2 HK H r p' lb ot Hp' Hlb.
  assert (Hold : exists l, nget (lbs s) lb = Some l /\ l_waited l = true /\ forall t, ot = Some t -> In t (l_targets l)).
  { destruct (step_phase_lb _ _ _ _ _ _ _ H Hp' Hlb) as [Hp|[(sv & Hk & ->)|Hk]].
    - eapply HK; eauto.
    - destruct (step_KPick _ _ _ _ _ _ H Hk) as (lb0 & x & Ho & _ & Hx & Hsl & _). inj_some.
      destruct (HS _ _ _ Hx Hsl) as (l & Hl & Hw). exists l. repeat split; auto. discriminate.
    - destruct (step_KLbClaim _ _ _ _ _ _ H Hk) as (sv & l & Hp & Hl & Hrot & _).
      destruct (HK _ _ _ _ Hp eq_refl) as (l0 & Hl0 & Hw & _). rewrite Hl in Hl0. inj_some.
      exists l0. repeat split; auto. intros t ->.
      destruct Hrot as [[_ Hn]|(t' & Ht' & Hin)]; [discriminate|]. inj_some. eapply H2; eauto. }
  destruct Hold as (l & Hl & Hw & Hts). destruct (step_lb_fwd _ _ _ _ _ H Hl) as (l' & Hl' & Hts' & Hw' & _).
  exists l'. repeat split; auto. rewrite Hts'. auto.
Qed.

Lemma invSK_run : forall tr s, run step init tr = Some s -> InvS s /\ InvK s.
Proof.
  intros tr s H.
  assert (Hall : InvS s /\ InvL2 s /\ InvK s).
  { eapply (run_inv step (fun s => InvS s /\ InvL2 s /\ InvK s)); [| |exact H].
    - intros s0 e s' (HS & H2 & HK) Hs. split; [|split].
      + eapply invS_step; eauto.
      + eapply invL2_step; eauto.
      + eapply invK_step; eauto.
    - split; [|split].
      + intros sv x lb Hx. discriminate.
      + intros lb l t Hl. discriminate.
      + intros r p lb ot Hp. discriminate. }
  tauto.
Qed.

(** * a target in state draining has been marked by a state-set event *)

Definition InvMk (tr : trace) (s : state) : Prop :=
  forall t x, nget (targets s) t = Some x -> t_state x = TDraining ->
  exists e o, In e tr /\ e_k e = KStateSet t o TDraining.

Lemma invMk_step : forall tr s e s', InvMk tr s -> step s e = Some s' -> InvMk (tr ++ [e]) s'.
Proof.
  intros tr s e s' HI H t x' Hx' Hs'.
  destruct (step_tgt_back _ _ _ _ _ H Hx') as [[x Hx]|(lb & ts & _ & _ & _ & ->)]; [|discriminate].
  destruct (step_tstate _ _ _ _ _ _ H Hx Hx') as [He|[(ok & prev & _ & Hp)|(o & Hk)]].
  - rewrite He in Hs'. destruct (HI _ _ Hx Hs') as (e0 & o & Hi & Hk). exists e0, o. split; auto.
    apply in_or_app. now left.
  - assert (t_state x = TDraining).
    { rewrite Hs' in Hp. destruct (t_state x), ok; cbn in Hp; congruence. }
    destruct (HI _ _ Hx H0) as (e0 & o & Hi & Hk). exists e0, o. split; auto. apply in_or_app. now left.
  - rewrite Hs' in Hk. exists e, o. split; auto. apply in_or_app. right. now left.
Qed.

Lemma invMk_run : forall tr s, run step init tr = Some s -> InvMk tr s.
Proof.
  intros tr s H. apply (run_hinv0 step InvMk init); auto.
  - intros t x Hx. discriminate.
  - intros pre s0 e s' _ HI Hs. eapply invMk_step; eauto.
Qed.

(** * The C02 facts on accepted traces *)

Lemma slot_requires_wait_lem : forall pre e post s,
  run step init (pre ++ e :: post) = Some s ->
  exists s1, run step init pre = Some s1 /\
  (forall sv ro lb rep, e_k e = KSlot sv ro lb rep ->
     exists l, nget (lbs s1) lb = Some l /\ l_waited l = true) /\
  (forall r sv olb, e_k e = KPick r sv olb ->
     exists lb x l, olb = Some lb /\ nget (svcs s1) sv = Some x /\ is_slot x lb = true /\
                    nget (lbs s1) lb = Some l /\ l_waited l = true).
Proof.
  intros pre e post s Hrun. destruct (run_app _ _ _ _ _ _ Hrun) as (s1 & s2 & Ha & He & _).
  exists s1. split; auto. split.
  - intros sv ro lb rep Hk. eapply step_KSlot; eauto.
  - intros r sv olb Hk. destruct (step_KPick _ _ _ _ _ _ He Hk) as (lb & x & -> & _ & Hx & Hsl & _).
    destruct (invSK_run _ _ Ha) as [HS _]. destruct (HS _ _ _ Hx Hsl) as (l & Hl & Hw).
    exists lb, x, l. repeat split; auto.
Qed.

(** the balancer claim of a request on a clean, non-empty balancer yields a target *)
Lemma clean_claim_lem : forall pre e post s lb ot r s1 l,
  run step init (pre ++ e :: post) = Some s -> e_k e = KLbClaim lb ot r ->
  run step init pre = Some s1 -> lb_clean pre s1 lb l -> l_targets l <> [] ->
  exists t, ot = Some t /\ In t (l_targets l).
Proof.
  intros pre e post s lb ot r s1 l Hrun Hk Ha Hc Hne.
  destruct (run_app _ _ _ _ _ _ Hrun) as (s1' & s2 & Ha' & He & _). rewrite Ha in Ha'. inj_some.
  destruct (step_KLbClaim _ _ _ _ _ _ He Hk) as (sv & l0 & _ & Hl0 & Hrot & _).
  destruct (invL3_run _ _ Ha _ _ Hc) as (Hr & _). destruct Hc as (Hl & _). rewrite Hl in Hl0. inj_some.
  destruct Hrot as [[Hn _]|(t & -> & Hin)]; [congruence|]. exists t. split; auto. now rewrite <- Hr.
Qed.

(** an empty rotation: the balancer is tainted, or not waited for, or has no targets,
    or a state-set event has touched one of its targets *)
Lemma empty_rotation_lem : forall pre e post s lb r s1 l,
  run step init (pre ++ e :: post) = Some s -> e_k e = KLbClaim lb None r ->
  run step init pre = Some s1 -> nget (lbs s1) lb = Some l ->
  ~ (l_waited l = true /\ l_tainted l = false /\ l_targets l <> [] /\ forall t, In t (l_targets l) -> unmarked pre t).
Proof.
  intros pre e post s lb r s1 l Hrun Hk Ha Hl (Hw & Ht & Hne & Hun).
  assert (Hc : lb_clean pre s1 lb l) by (repeat split; auto).
  destruct (clean_claim_lem _ _ _ _ _ _ _ _ _ Hrun Hk Ha Hc Hne) as (t & Hd & _). discriminate.
Qed.

(** a refused claim: the request holds a waited balancer with that target, and a
    state-set event (the mark of a Drain call) has set the target to draining before *)
Lemma refused_lem : forall pre e post s t r,
  run step init (pre ++ e :: post) = Some s -> e_k e = KClaimRefused t r ->
  exists s1 lb l, run step init pre = Some s1 /\ phase_of s1 r = Some (PLbClaimed lb (Some t)) /\
    nget (lbs s1) lb = Some l /\ l_waited l = true /\ In t (l_targets l) /\
    exists em o, In em pre /\ e_k em = KStateSet t o TDraining.
Proof.
  intros pre e post s t r Hrun Hk. destruct (run_app _ _ _ _ _ _ Hrun) as (s1 & s2 & Ha & He & _).
  destruct (step_KClaimRefused _ _ _ _ _ He Hk) as (lb & x & Hp & Hx & Hs & _).
  destruct (invSK_run _ _ Ha) as [_ HK]. destruct (HK _ _ _ _ Hp eq_refl) as (l & Hl & Hw & Hts).
  exists s1, lb, l. repeat split; auto. eapply invMk_run; eauto.
Qed.

(** outside the race: no state-set on the target before the claim outcome => not refused *)
Lemma holds_outside_race_lem : forall pre e post s t r,
  run step init (pre ++ e :: post) = Some s -> unmarked pre t -> e_k e <> KClaimRefused t r.
Proof.
  intros pre e post s t r Hrun Hun Hk.
  destruct (refused_lem _ _ _ _ _ _ Hrun Hk) as (_ & _ & _ & _ & _ & _ & _ & _ & em & o & Hi & Hke).
  eapply Hun; eauto.
Qed.

(** * The corollary: no proxy error for a request that finds its balancer clean *)

Definition is_claim_step (k : kind) : Prop :=
  match k with KLbClaim _ _ _ | KClaim _ _ | KClaimRefused _ _ => True | _ => False end.

Lemma event_split : forall r pre k, In k (req_path r pre) ->
  exists p1 ec p2, pre = p1 ++ ec :: p2 /\ e_k ec = k /\ about r k = true.
Proof.
  intros r pre k H. apply req_path_In in H. destruct H as (ec & Hi & Hk & Ha).
  apply in_split in Hi. destruct Hi as (p1 & p2 & ->). exists p1, ec, p2. auto.
Qed.

Lemma run_mid : forall p1 ec p2 rest s,
  run step init ((p1 ++ ec :: p2) ++ rest) = Some s -> run step init (p1 ++ ec :: (p2 ++ rest)) = Some s.
Proof. intros. now rewrite <- app_assoc in H. Qed.

Lemma req_path_cons_about : forall r ec p2, about r (e_k ec) = true ->
  req_path r (ec :: p2) = e_k ec :: req_path r p2.
Proof. intros r ec p2 H. unfold req_path. cbn [map filter]. now rewrite H. Qed.

Lemma no_proxy_error_lem : forall pre e post s r status sb sv lb,
  run step init (pre ++ e :: post) = Some s -> e_k e = KRespond r status sb ->
  In (KPick r sv (Some lb)) (req_path r pre) ->
  (forall p1 ec p2 s1 l, pre = p1 ++ ec :: p2 -> about r (e_k ec) = true -> is_claim_step (e_k ec) ->
     run step init p1 = Some s1 -> nget (lbs s1) lb = Some l -> lb_clean p1 s1 lb l /\ l_targets l <> []) ->
  (forall t why, ~ In (KTargetFailed t r why) (req_path r pre)) ->
  exists t, target_replied r (req_path r pre) t status /\ (sb = [] -> status <> 200%N).
Proof.
  intros pre e post s r status sb sv lb Hrun Hk Hpick Hclean Hnf.
  pose proof (response_cases _ _ _ _ _ _ _ Hrun Hk) as Hcases. cbv zeta in Hcases.
  destruct Hcases as [(Hks & _)|[((sv' & Hks) & _)|[((sv' & Hks) & _)|[((sv' & Hks) & _)|
                     [((sv' & lb' & Hks) & _)|[((sv' & lb' & t & Hks) & _)|[(t & Hr & Hsb)|(t & why & (sv' & lb' & Hks) & _)]]]]]]].
  - unfold no_service in Hks. rewrite Hks in Hpick. cbn in Hpick. intuition discriminate.
  - rewrite Hks in Hpick. cbn in Hpick. intuition discriminate.
  - rewrite Hks in Hpick. cbn in Hpick. intuition discriminate.
  - rewrite Hks in Hpick. cbn in Hpick. intuition discriminate.
  - (* the rotation was empty *) exfalso.
    assert (Heq : sv' = sv /\ lb' = lb).
    { rewrite Hks in Hpick. cbn in Hpick.
      destruct Hpick as [Hi|[Hi|[Hi|[Hi|[Hi|[]]]]]]; try discriminate. inversion Hi. auto. }
    destruct Heq as [-> ->].
    assert (Hin : In (KLbClaim lb None r) (req_path r pre)) by (rewrite Hks; cbn; auto 10).
    destruct (event_split _ _ _ Hin) as (p1 & ec & p2 & Hpre & Hkc & Hab).
    rewrite Hpre in Hrun. apply run_mid in Hrun.
    destruct (run_app _ _ _ _ _ _ Hrun) as (s1 & s2 & Ha & He & _).
    destruct (step_KLbClaim _ _ _ _ _ _ He Hkc) as (sv0 & l & _ & Hl & _).
    destruct (Hclean p1 ec p2 s1 l Hpre) as [Hc Hne]; auto; try (rewrite Hkc; auto; exact I).
    destruct (clean_claim_lem _ _ _ _ _ _ _ _ _ Hrun Hkc Ha Hc Hne) as (t & Hd & _). discriminate.
  - (* the claim was refused *) exfalso.
    assert (Heq : sv' = sv /\ lb' = lb).
    { rewrite Hks in Hpick. cbn in Hpick.
      destruct Hpick as [Hi|[Hi|[Hi|[Hi|[Hi|[Hi|[]]]]]]]; try discriminate. inversion Hi. auto. }
    destruct Heq as [-> ->].
    assert (Hin : In (KClaimRefused t r) (req_path r pre)) by (rewrite Hks; cbn; auto 10).
    destruct (event_split _ _ _ Hin) as (p1 & ec & p2 & Hpre & Hkc & Hab).
    pose proof Hrun as Hrun'. rewrite Hpre in Hrun'. apply run_mid in Hrun'.
    destruct (refused_lem _ _ _ _ _ _ Hrun' Hkc) as (s1 & lb1 & l & Ha & Hp & Hl & Hw & Hint & em & o & Him & Hkm).
    (* the balancer of the refusal is the one that was picked *)
    assert (lb1 = lb).
    { pose proof (invJ_run _ _ Ha r) as HJ. rewrite Hp in HJ. cbn [path_ok path_pre] in HJ.
      destruct HJ as (sv1 & HJ).
      rewrite Hpre, req_path_app, HJ, req_path_cons_about in Hks by (rewrite Hkc; exact Hab).
      rewrite Hkc in Hks. unfold p_lbclaimed, p_picked, p_gate, p_routed in Hks. cbn [app] in Hks.
      inversion Hks. reflexivity. }
    subst lb1.
    destruct (Hclean p1 ec p2 s1 l Hpre) as [(_ & _ & _ & Hun) _]; auto; try (rewrite Hkc; auto; exact I).
    eapply (Hun t Hint); eauto.
  - exists t. auto.
  - exfalso. eapply (Hnf t why). rewrite Hks. apply in_or_app. right. now left.
Qed.

(** * Where the proxy's own error statuses come from *)

Section StatusOrigin.
Variables (pre : trace) (e : event) (post : trace) (s : state) (r : nat) (sb : str).
Hypothesis Hrun : run step init (pre ++ e :: post) = Some s.
Let ks := req_path r pre.

Lemma origin_404 : e_k e = KRespond r 404%N sb ->
  no_service r ks \/ exists t, target_replied r ks t 404%N.
Proof.
  intros Hk. pose proof (response_cases _ _ _ _ _ _ _ Hrun Hk) as Hc. cbv zeta in Hc. fold ks in Hc.
  destruct Hc as [(H & _)|[(_ & [Hd|[Hd|Hd]] & _)|[(_ & Hd)|[(_ & Hd)|[(_ & Hd)|[(_ & Hd)|[(t & H & _)|(t & why & _ & _ & Hd)]]]]]]];
    try discriminate; eauto.
  destruct Hd as [(_ & Hd)|[(_ & Hd)|(_ & _ & Hd)]]; discriminate.
Qed.

Lemma origin_503 : e_k e = KRespond r 503%N sb ->
  before_gate r ks \/ gate_said r ks AStopped \/ rotation_empty r ks \/ claim_refused r ks \/
  exists t, target_replied r ks t 503%N.
Proof.
  intros Hk. pose proof (response_cases _ _ _ _ _ _ _ Hrun Hk) as Hc. cbv zeta in Hc. fold ks in Hc.
  destruct Hc as [(_ & Hd)|[(H & _)|[(H & _)|[(_ & Hd)|[(H & _)|[(H & _)|[(t & H & _)|(t & why & _ & _ & Hd)]]]]]]];
    try discriminate; eauto 10.
  destruct Hd as [(_ & Hd)|[(_ & Hd)|(_ & _ & Hd)]]; discriminate.
Qed.

Lemma origin_504 : e_k e = KRespond r 504%N sb ->
  gate_said r ks ATimedOut \/ (exists t, target_failed r ks t 1%N) \/ exists t, target_replied r ks t 504%N.
Proof.
  intros Hk. pose proof (response_cases _ _ _ _ _ _ _ Hrun Hk) as Hc. cbv zeta in Hc. fold ks in Hc.
  destruct Hc as [(_ & Hd)|[(_ & [Hd|[Hd|Hd]] & _)|[(_ & Hd)|[(H & _)|[(_ & Hd)|[(_ & Hd)|[(t & H & _)|(t & why & H & _ & Hd)]]]]]]];
    try discriminate; eauto.
  destruct Hd as [(_ & Hd)|[(-> & _)|(_ & _ & Hd)]]; try discriminate. eauto.
Qed.

Lemma origin_502 : e_k e = KRespond r 502%N sb ->
  (exists t, target_failed r ks t 0%N) \/ exists t, target_replied r ks t 502%N.
Proof.
  intros Hk. pose proof (response_cases _ _ _ _ _ _ _ Hrun Hk) as Hc. cbv zeta in Hc. fold ks in Hc.
  destruct Hc as [(_ & Hd)|[(_ & [Hd|[Hd|Hd]] & _)|[(_ & Hd)|[(_ & Hd)|[(_ & Hd)|[(_ & Hd)|[(t & H & _)|(t & why & H & _ & Hd)]]]]]]];
    try discriminate; eauto.
  destruct Hd as [(-> & _)|[(_ & Hd)|(_ & _ & Hd)]]; try discriminate. eauto.
Qed.
End StatusOrigin.

(** the corollary for a request whose target replied 200 *)
Lemma answered_200_lem : forall pre e post s r status sb sv lb t,
  run step init (pre ++ e :: post) = Some s -> e_k e = KRespond r status sb ->
  In (KPick r sv (Some lb)) (req_path r pre) ->
  (forall p1 ec p2 s1 l, pre = p1 ++ ec :: p2 -> about r (e_k ec) = true -> is_claim_step (e_k ec) ->
     run step init p1 = Some s1 -> nget (lbs s1) lb = Some l -> lb_clean p1 s1 lb l /\ l_targets l <> []) ->
  (forall t why, ~ In (KTargetFailed t r why) (req_path r pre)) ->
  In (KTargetReplied t r 200%N) (req_path r pre) ->
  status = 200%N /\ exists s1, run step init pre = Some s1 /\ nget (tgt_names s1) t = Some sb.
Proof.
  intros pre e post s r status sb sv lb t Hrun Hk Hpick Hclean Hnf Hrep.
  destruct (no_proxy_error_lem _ _ _ _ _ _ _ _ _ Hrun Hk Hpick Hclean Hnf) as (t' & (sv' & lb' & Hks) & Hsb).
  destruct (response_after_target _ _ _ _ _ _ _ t Hrun Hk) as [_ Hst]. pose proof (Hst _ Hrep) as ->.
  split; auto.
  assert (t' = t).
  { rewrite Hks in Hrep. cbn in Hrep.
    destruct Hrep as [Hi|[Hi|[Hi|[Hi|[Hi|[Hi|[Hi|[Hi|[Hi|[]]]]]]]]]]; try discriminate. inversion Hi; auto. }
  subst t'. eapply response_served_by; eauto.
  - rewrite Hks. cbn. auto 10.
  - intros ->. now apply Hsb.
Qed.
